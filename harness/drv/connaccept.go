//go:build verif

package main

// connaccept: C13 unit harness. A real client (plain or spec-driven) or server *Conn, built by
// the unexported constructors (harness/quic/connaccept.go), is fed crafted Retry / Version
// Negotiation / Initial / Handshake / 0-RTT datagrams through handleOnePacket, and crafted
// connection-ID transport parameters through handleTransportParameters, before and after a
// genuine (correctly protected) peer packet. Each step logs the outcome the implementation
// produced (processed / dropped+qlog trigger / buffered / error class) and the resulting
// decision state (version, receivedFirstPacket, receivedRetry, versionNegotiated,
// handshakeDestConnID, origDestConnID, retrySrcConnID, active DCID, token, #undecryptable).
// A second kind of case runs the real run loop in a synctest bubble against a black hole
// and logs when and why it gives up (handshake deadline).
//
// Monitors (model-independent, on the implementation's own trace):
//   bad-tag          a Retry whose tag is not GetRetryIntegrityTag(body, original DCID) changes nothing
//   retry-requires   a Retry that changes state: client, nothing processed yet, no Retry before, SCID != DCID, valid tag, right version
//   one-retry        at most one Retry accepted; retrySrcConnID never changes afterwards
//   inert            after the first authenticated packet every Retry, VN, Initial with another SCID changes nothing
//   vn-rules         VN acts only at a client, before any packet, without prior negotiation, not listing our version;
//                    then: first of Config.Versions that is listed, or VersionNegotiationError
//   wrong-version    long header packet of another version changes nothing
//   0rtt-client      a client drops 0-RTT packets
//   cid-auth         transport parameters accepted iff ISCID = handshake DCID (and at the client ODCID = original DCID,
//                    RSCID = SCID of the accepted Retry / absent)
//   dcid-sync        connIDManager's DCID == handshakeDestConnID during the handshake
//   deadline         run() gives up exactly at min(creation+2*HandshakeIdleTimeout, idleStart+HandshakeIdleTimeout)
//                    with HandshakeTimeoutError resp. IdleTimeoutError

import (
	"bufio"
	"bytes"
	"errors"
	"fmt"
	"os"
	"strings"
	"testing/synctest"
	"time"

	quic "github.com/refraction-networking/uquic"
	u "github.com/refraction-networking/uquic/internal/verifutil"
)

func init() {
	units["connaccept"] = runConnAccept
	genSources = append(genSources, quic.VerifConnAcceptConsts)
}

const (
	caV1    = uint32(quic.Version1)
	caV2    = uint32(quic.Version2)
	caVBad  = uint32(0x1a2a3a4a)
	caVOld  = uint32(0xff00001d)
)

type caStep struct {
	opTerm  string // Coq term of the op
	okey    []byte
	otag    []byte
	out     string // Coq term of the outcome
	st      quic.VerifCAState
	desc    string
}

func caObs(s quic.VerifCAState) string {
	return u.App("Obs", u.ZU(uint64(s.Version)), u.B(s.RcvFirst), u.B(s.RcvRetry), u.B(s.VerNeg), u.Hex(s.HsDCID), u.Hex(s.OrigDCID),
		u.Opt(s.HasRetrySCID, u.Hex(s.RetrySCID)), u.Hex(s.DCID), u.Hex(s.Token), u.Z(int64(s.NUndec)))
}

func caStateEq(a, b quic.VerifCAState) bool {
	return a.Version == b.Version && a.RcvFirst == b.RcvFirst && a.RcvRetry == b.RcvRetry && a.VerNeg == b.VerNeg &&
		bytes.Equal(a.HsDCID, b.HsDCID) && bytes.Equal(a.OrigDCID, b.OrigDCID) && a.HasRetrySCID == b.HasRetrySCID &&
		bytes.Equal(a.RetrySCID, b.RetrySCID) && bytes.Equal(a.DCID, b.DCID) && bytes.Equal(a.Token, b.Token) && a.NUndec == b.NUndec
}

func caStateStr(s quic.VerifCAState) string {
	r := "-"
	if s.HasRetrySCID {
		r = fmt.Sprintf("%x", s.RetrySCID)
	}
	return fmt.Sprintf("{v=%x first=%v retry=%v vn=%v hs=%x orig=%x rscid=%s dcid=%x tok=%x undec=%d}", s.Version, s.RcvFirst, s.RcvRetry, s.VerNeg, s.HsDCID, s.OrigDCID, r, s.DCID, s.Token, s.NUndec)
}

var caDropNames = map[string]string{
	"unexpected_packet": "DUnexpectedPacket", "unknown_connection_id": "DUnknownCID", "payload_decrypt_error": "DDecryptErr",
	"unexpected_version": "DUnexpectedVersion", "unsupported_version": "DUnsupportedVersion", "header_parse_error": "DHeaderParse",
	"key_unavailable": "DKeyUnavailable", "duplicate": "DDuplicate", "dos_prevention": "DDosPrevention",
}

// caOutcome maps what the implementation did to the outcome vocabulary; it never looks at what was expected.
func caOutcome(res quic.VerifCAResult) string {
	switch {
	case strings.HasPrefix(res.Err, "recreate:"):
		return u.App("ORecreate", res.Err[len("recreate:"):])
	case res.Err == "remote_close":
		return "ORemoteClose"
	case res.Err != "":
		return "ONone (* " + res.Err + " *)"
	case res.Closed == "vn_error":
		return "OVNError"
	case res.Closed != "":
		return "ONone (* closed " + res.Closed + " *)"
	}
	if len(res.Events) == 0 && !res.Processed {
		return u.App("ODropped", "DSilent")
	}
	if len(res.Events) == 1 {
		e := res.Events[0]
		switch {
		case strings.HasPrefix(e, "dropped:") && !res.Processed:
			if n, ok := caDropNames[e[len("dropped:"):]]; ok {
				return u.App("ODropped", n)
			}
		case e == "buffered" && !res.Processed:
			return "OBuffered"
		case e == "received:retry" && res.Processed:
			return "ORetryAccepted"
		case strings.HasPrefix(e, "received:") && res.Processed:
			return "OProcessed"
		}
	}
	return fmt.Sprintf("ONone (* processed=%v events=%v *)", res.Processed, res.Events)
}

type caPool struct {
	O, C, R1, R2, S1, S2, A1 []byte
}

type caCtx struct {
	r        *u.Rng
	w        *bufio.Writer
	ca       *quic.VerifCA
	p        caPool
	server   bool
	version  uint32
	versions []uint32
	pn       int64
	usedPN   []int64
	steps    []caStep
	fails    []monFail
	// shadow bookkeeping of the monitors (from the trace only)
	acceptedRetry    [][]byte
	datas            [][]byte
	batch            bool
	echo             bool // the genuine server uses SCID = the client's original DCID
	forceVN          []uint32 // next VN: exactly this list, well-formed
	forceGoodRetry   bool // next Retry: valid tag for the original DCID, foreign SCID
	clientKind       string
	srvTPDone        bool // a server closes earlyConnReadyChan when it accepts transport parameters: only once
}

// handle applies one datagram to the connection under test and remembers it (batch cases replay the same
// datagrams on a twin connection through handlePackets).
func (c *caCtx) handle(data []byte) quic.VerifCAResult {
	c.datas = append(c.datas, append([]byte{}, data...))
	return c.ca.Handle(data)
}

// genuine builds a correctly protected Initial (PING) of the peer for the connection's present state.
func (c *caCtx) genuine() (opTerm string, data []byte, desc string) {
	st := c.ca.State()
	pn := c.pn
	c.pn++
	var scid, key, dcid []byte
	if c.server {
		scid, key, dcid = c.p.C, c.p.O, c.p.S1
	} else {
		scid, key, dcid = c.p.S1, c.p.O, c.p.C
		if c.echo {
			scid = c.p.O // a server may use the client's original DCID as its own source connection ID
		}
		if st.RcvFirst {
			scid = st.HsDCID
		}
		if st.HasRetrySCID {
			key = st.RetrySCID
		}
	}
	data, _ = quic.VerifLongPacket(0, quic.Version(c.version), dcid, scid, nil, key, c.server, pn, quic.VerifFramePing())
	opTerm = u.App("COpPkt", u.App("CLong", "TInitial", u.ZU(uint64(c.version)), u.Hex(scid), u.Hex(key), u.Z(pn), "PlPing"))
	return opTerm, data, fmt.Sprintf("Genuine(scid=%x key=%x pn=%d)", scid, key, pn)
}

func (c *caCtx) doGenuine() bool {
	op, data, desc := c.genuine()
	res := c.handle(data)
	c.steps = append(c.steps, caStep{op, nil, nil, caOutcome(res), c.ca.State(), desc})
	return c.terminal(res)
}

func (c *caCtx) fail(key, desc string) { c.fails = append(c.fails, monFail{key, desc}) }

func (c *caCtx) pick(xs ...[]byte) []byte { return xs[c.r.Intn(len(xs))] }

func (c *caCtx) pickVer() uint32 {
	switch c.r.Intn(10) {
	case 0:
		if c.version == caV1 {
			return caV2
		}
		return caV1
	case 1:
		return caVBad
	default:
		return c.version
	}
}

// one step: perform the op on the implementation, log, run the per-step monitors.
func (c *caCtx) doRetry() bool {
	before := c.ca.State()
	ver := c.pickVer()
	if ver == caVBad {
		ver = c.version
	}
	var scid []byte
	switch c.r.Intn(8) {
	case 0:
		scid = before.DCID // "server did not change the SCID"
	case 1:
		scid = c.p.A1
	case 2:
		scid = c.p.R2
	default:
		scid = c.p.R1
	}
	force := c.forceGoodRetry
	c.forceGoodRetry = false
	if force {
		ver, scid = c.version, c.pick(c.p.A1, c.p.R1)
		if bytes.Equal(scid, before.DCID) || len(scid) == 0 {
			scid = c.p.R2
		}
	}
	token := c.r.Bytes(c.r.Range(1, 24))
	body, err := quic.VerifRetryBody(quic.Version(ver), c.p.C, scid, token)
	if err != nil {
		return false
	}
	good := quic.VerifRetryTag(body, c.p.O, quic.Version(ver)) // the only tag the original DCID authorises
	tag := append([]byte{}, good...)
	kind := "good"
	sel := c.r.Intn(12)
	if force {
		sel = 9 // good
	}
	switch sel {
	case 0:
		kind = "flip"
		tag[c.r.Intn(16)] ^= 1 << uint(c.r.Intn(8))
	case 1:
		kind = "flip-last"
		tag[15] ^= 1 << uint(c.r.Intn(8))
	case 10:
		kind = "flip-first"
		tag[0] ^= 1 << uint(c.r.Intn(8))
	case 11:
		kind = "flip-body" // tag of a body that differs in one token bit
		b2 := append([]byte{}, body...)
		b2[len(b2)-1] ^= 1
		tag = quic.VerifRetryTag(b2, c.p.O, quic.Version(ver))
	case 2:
		kind = "zero"
		tag = make([]byte, 16)
	case 3:
		kind = "odcid=scid"
		tag = quic.VerifRetryTag(body, scid, quic.Version(ver))
	case 4:
		kind = "odcid=cur"
		tag = quic.VerifRetryTag(body, before.DCID, quic.Version(ver))
	case 5:
		kind = "otherversion"
		ov := quic.Version1
		if ver == caV1 {
			ov = quic.Version2
		}
		tag = quic.VerifRetryTag(body, c.p.O, ov)
	}
	data := append(append([]byte{}, body...), tag...)
	res := c.handle(data)
	after := c.ca.State()
	out := caOutcome(res)
	op := u.App("COpPkt", u.App("CRetry", u.ZU(uint64(ver)), u.Hex(scid), u.Hex(token), u.Hex(body), u.Hex(tag)))
	desc := fmt.Sprintf("Retry(v=%x scid=%x tag=%s)", ver, scid, kind)
	c.steps = append(c.steps, caStep{op, c.p.O, good, out, after, desc})
	changed := !caStateEq(before, after)
	tagOK := bytes.Equal(tag, good)
	if !tagOK && (changed || res.Processed) {
		c.fail("connaccept/bad-tag", fmt.Sprintf("Retry with an invalid integrity tag (%s) was not ignored: %s -> %s", kind, caStateStr(before), caStateStr(after)))
	}
	if changed || res.Processed {
		if !before.Client || before.RcvFirst || before.RcvRetry || bytes.Equal(scid, before.DCID) || !tagOK || ver != before.Version {
			c.fail("connaccept/retry-requires", fmt.Sprintf("%s accepted in state %s", desc, caStateStr(before)))
		}
		if !(after.RcvRetry && after.HasRetrySCID && bytes.Equal(after.RetrySCID, scid) && bytes.Equal(after.HsDCID, scid) && bytes.Equal(after.DCID, scid) && bytes.Equal(after.Token, token) && bytes.Equal(after.OrigDCID, before.OrigDCID) && after.Version == before.Version) {
			c.fail("connaccept/retry-effect", fmt.Sprintf("%s accepted but resulting state is %s", desc, caStateStr(after)))
		}
		c.acceptedRetry = append(c.acceptedRetry, scid)
		if len(c.acceptedRetry) > 1 {
			c.fail("connaccept/one-retry", fmt.Sprintf("a second Retry was accepted (%s) in state %s", desc, caStateStr(before)))
		}
	} else if before.Client && !before.RcvFirst && !before.RcvRetry && !bytes.Equal(scid, before.DCID) && tagOK && ver == before.Version {
		c.fail("connaccept/retry-refused", fmt.Sprintf("valid %s was not accepted in state %s", desc, caStateStr(before)))
	}
	c.inert(before, after, res, desc, true)
	return c.terminal(res)
}

func (c *caCtx) terminal(res quic.VerifCAResult) bool { return res.Err != "" || res.Closed != "" }

// inert: the after-genuine monitor (forged = the packet is of a class that must be ignored once a packet was authenticated)
func (c *caCtx) inert(before, after quic.VerifCAState, res quic.VerifCAResult, desc string, forged bool) {
	if forged && before.RcvFirst && (!caStateEq(before, after) || res.Processed || res.Err != "" || res.Closed != "") {
		c.fail("connaccept/inert", fmt.Sprintf("%s after the first authenticated packet had an effect: %s -> %s (processed=%v err=%q closed=%q)", desc, caStateStr(before), caStateStr(after), res.Processed, res.Err, res.Closed))
	}
}

func (c *caCtx) doVN() bool {
	before := c.ca.State()
	var vers []uint32
	n := c.r.Range(1, 4)
	cand := []uint32{caV1, caV2, caVBad, caVOld, c.version, 0x0a0a0a0a}
	for i := 0; i < n; i++ {
		vers = append(vers, cand[c.r.Intn(len(cand))])
	}
	forced := c.forceVN != nil
	if forced {
		vers, c.forceVN = c.forceVN, nil
	}
	data := quic.VerifVNPacket(byte(c.r.Intn(128))|0x40, c.p.C, c.pick(c.p.O, c.p.A1, before.DCID), vers)
	parseOK := true
	sel := c.r.Intn(12)
	if forced {
		sel = 11
	}
	switch sel {
	case 0:
		data = data[:len(data)-c.r.Range(1, 3)]
		parseOK = false
	case 1:
		data = data[:len(data)-4*len(vers)]
		parseOK = false
		vers = nil
	}
	res := c.handle(data)
	after := c.ca.State()
	out := caOutcome(res)
	vs := make([]string, len(vers))
	for i, v := range vers {
		vs[i] = u.ZU(uint64(v))
	}
	op := u.App("COpPkt", u.App("CVN", u.B(parseOK), u.List(vs)))
	desc := fmt.Sprintf("VN(%x ok=%v)", vers, parseOK)
	c.steps = append(c.steps, caStep{op, nil, nil, out, after, desc})
	listed := false
	for _, v := range vers {
		if v == before.Version {
			listed = true
		}
	}
	effect := res.Err != "" || res.Closed != "" || res.Processed || !caStateEq(before, after)
	if !caStateEq(before, after) {
		c.fail("connaccept/vn-state", fmt.Sprintf("%s changed the connection state %s -> %s", desc, caStateStr(before), caStateStr(after)))
	}
	if effect && (!before.Client || before.RcvFirst || before.VerNeg || listed || !parseOK) {
		c.fail("connaccept/vn-rules", fmt.Sprintf("%s had an effect (err=%q closed=%q) in state %s", desc, res.Err, res.Closed, caStateStr(before)))
	}
	if before.Client && !before.RcvFirst && !before.VerNeg && !listed && parseOK {
		// must act: first of our versions that is listed, else VN error
		want := ""
		for _, ours := range c.versions {
			for _, v := range vers {
				if v == ours && want == "" {
					want = fmt.Sprintf("recreate:%d", ours)
				}
			}
		}
		if want != "" && res.Err != want {
			c.fail("connaccept/vn-choice", fmt.Sprintf("%s with Config.Versions=%x: got err=%q closed=%q, want %s", desc, c.versions, res.Err, res.Closed, want))
		}
		if want == "" && res.Closed != "vn_error" {
			c.fail("connaccept/vn-choice", fmt.Sprintf("%s with Config.Versions=%x (no overlap): got err=%q closed=%q, want VersionNegotiationError", desc, c.versions, res.Err, res.Closed))
		}
	}
	c.inert(before, after, res, desc, true)
	return c.terminal(res)
}

func (c *caCtx) doLong() bool {
	before := c.ca.State()
	typ := 0
	switch c.r.Intn(10) {
	case 0:
		typ = 1
	case 1, 2:
		typ = 2
	}
	ver := c.pickVer()
	if ver == caVBad {
		ver = c.version
	}
	var scid, key []byte
	if c.server {
		scid = c.pick(c.p.C, c.p.C, c.p.C, c.p.A1, before.HsDCID)
		key = c.pick(c.p.O, c.p.O, c.p.O, c.p.A1, c.p.C)
	} else {
		scid = c.pick(c.p.S1, c.p.S1, c.p.S2, c.p.A1, before.HsDCID, before.HsDCID, c.p.O)
		key = c.p.O
		if before.HasRetrySCID {
			key = before.RetrySCID // an on-path attacker saw the Retry too
		}
		if c.r.Chance(1, 5) {
			key = c.pick(c.p.O, c.p.R1, c.p.R2, c.p.A1)
		}
	}
	pn := c.pn
	c.pn++
	if len(c.usedPN) > 0 && c.r.Chance(1, 6) {
		pn = c.usedPN[c.r.Intn(len(c.usedPN))]
	}
	c.usedPN = append(c.usedPN, pn)
	pl, plTerm := quic.VerifFramePing(), "PlPing"
	if c.r.Chance(1, 9) {
		pl, plTerm = quic.VerifFrameClose(0x2, "forged"), "PlClose"
	}
	data, err := quic.VerifLongPacket(typ, quic.Version(ver), c.p.C, scid, nil, key, c.server, pn, pl)
	if c.server {
		data, err = quic.VerifLongPacket(typ, quic.Version(ver), c.p.S1, scid, nil, key, true, pn, pl)
	}
	if err != nil {
		return false
	}
	res := c.handle(data)
	after := c.ca.State()
	out := caOutcome(res)
	tyTerm := []string{"TInitial", "T0RTT", "THandshake"}[typ]
	op := u.App("COpPkt", u.App("CLong", tyTerm, u.ZU(uint64(ver)), u.Hex(scid), u.Hex(key), u.Z(pn), plTerm))
	desc := fmt.Sprintf("%s(v=%x scid=%x key=%x pn=%d %s)", tyTerm[1:], ver, scid, key, pn, plTerm)
	c.steps = append(c.steps, caStep{op, nil, nil, out, after, desc})
	if ver != before.Version && (!caStateEq(before, after) || res.Processed || c.terminal(res)) {
		c.fail("connaccept/wrong-version", fmt.Sprintf("%s of another version had an effect in state %s", desc, caStateStr(before)))
	}
	if before.Client && typ == 1 && (!caStateEq(before, after) || res.Processed || c.terminal(res)) {
		c.fail("connaccept/0rtt-client", fmt.Sprintf("%s was not dropped by the client in state %s", desc, caStateStr(before)))
	}
	c.inert(before, after, res, desc, typ == 0 && !bytes.Equal(scid, before.HsDCID))
	// decision state may change only through the first authenticated packet, and then only the DCID
	if !caStateEq(before, after) {
		a2 := after
		a2.NUndec = before.NUndec
		if before.RcvFirst && !caStateEq(before, a2) {
			c.fail("connaccept/long-state", fmt.Sprintf("%s changed the decision state after the first packet: %s -> %s", desc, caStateStr(before), caStateStr(after)))
		}
		if !before.RcvFirst && after.RcvFirst && !bytes.Equal(after.HsDCID, scid) {
			c.fail("connaccept/first-packet-dcid", fmt.Sprintf("%s was the first processed packet but handshake DCID is %x", desc, after.HsDCID))
		}
		if after.Version != before.Version || after.RcvRetry != before.RcvRetry || after.HasRetrySCID != before.HasRetrySCID || !bytes.Equal(after.RetrySCID, before.RetrySCID) || !bytes.Equal(after.OrigDCID, before.OrigDCID) || !bytes.Equal(after.Token, before.Token) {
			c.fail("connaccept/long-state", fmt.Sprintf("%s changed version/retry/original-DCID/token state: %s -> %s", desc, caStateStr(before), caStateStr(after)))
		}
	}
	return c.terminal(res)
}

func (c *caCtx) doBad() bool {
	before := c.ca.State()
	unsupported := c.r.Bool()
	var data []byte
	if unsupported {
		d, _ := quic.VerifLongPacket(0, quic.Version(c.version), c.p.C, c.p.S1, nil, c.p.O, false, 1, quic.VerifFramePing())
		d[1], d[2], d[3], d[4] = 0x1a, 0x2a, 0x3a, 0x4a
		data = d
	} else {
		d, _ := quic.VerifLongPacket(0, quic.Version(c.version), c.p.C, c.p.S1, nil, c.p.O, false, 1, quic.VerifFramePing())
		data = d[:c.r.Range(6, 6+len(c.p.C)+len(c.p.S1))]
	}
	res := c.handle(data)
	after := c.ca.State()
	op := u.App("COpPkt", u.App("CBad", u.B(unsupported)))
	desc := fmt.Sprintf("Bad(unsupported=%v)", unsupported)
	c.steps = append(c.steps, caStep{op, nil, nil, caOutcome(res), after, desc})
	if !caStateEq(before, after) || res.Processed || c.terminal(res) {
		c.fail("connaccept/malformed", fmt.Sprintf("%s had an effect in state %s", desc, caStateStr(before)))
	}
	return c.terminal(res)
}

func (c *caCtx) doTP() bool {
	if c.server && c.srvTPDone {
		return c.doLong()
	}
	before := c.ca.State()
	var iscid, odcid, rscid []byte
	hasR := false
	if c.r.Chance(1, 2) { // what an honest peer would send given the state
		iscid, odcid = before.HsDCID, c.p.O
		if before.HasRetrySCID {
			hasR, rscid = true, before.RetrySCID
		}
		if c.server {
			odcid = nil
		}
	} else {
		iscid = c.pick(c.p.S1, c.p.S2, c.p.A1, before.HsDCID, before.HsDCID, c.p.O)
		odcid = c.pick(c.p.O, c.p.O, c.p.R1, c.p.A1, before.DCID)
		if c.r.Bool() {
			hasR, rscid = true, c.pick(c.p.R1, c.p.R2, c.p.A1, before.DCID)
		}
	}
	return c.doTPWith(iscid, odcid, hasR, rscid)
}

// doTPWith: the peer's transport parameters with these connection IDs reach the connection
func (c *caCtx) doTPWith(iscid, odcid []byte, hasR bool, rscid []byte) bool {
	before := c.ca.State()
	cls := c.ca.HandleTP(iscid, odcid, hasR, rscid)
	if c.server && cls == "" {
		c.srvTPDone = true
	}
	after := c.ca.State()
	out := "ONone (* " + cls + " *)"
	switch cls {
	case "":
		out = "OTPOk"
	case "transport:8":
		out = "OTPError"
	}
	op := u.App("COpTP", u.Hex(iscid), u.Hex(odcid), u.Opt(hasR, u.Hex(rscid)))
	desc := fmt.Sprintf("TP(iscid=%x odcid=%x rscid=%v/%x)", iscid, odcid, hasR, rscid)
	c.steps = append(c.steps, caStep{op, nil, nil, out, after, desc})
	// cid-auth, stated on the trace: ISCID must be the SCID the peer's packets carry (= handshake DCID);
	// client: ODCID = the DCID of the very first Initial, RSCID = SCID of the one Retry that was accepted / absent.
	want := bytes.Equal(iscid, before.HsDCID)
	if !c.server {
		want = want && bytes.Equal(odcid, c.p.O)
		if len(c.acceptedRetry) > 0 {
			want = want && hasR && bytes.Equal(rscid, c.acceptedRetry[0])
		} else {
			want = want && !hasR
		}
	}
	if want != (cls == "") {
		c.fail("connaccept/cid-auth", fmt.Sprintf("%s in state %s (accepted Retry SCIDs %x): result %q, expected accept=%v", desc, caStateStr(before), c.acceptedRetry, cls, want))
	}
	if !caStateEq(before, after) {
		c.fail("connaccept/tp-state", fmt.Sprintf("%s changed the decision state", desc))
	}
	return cls != ""
}

func (c *caCtx) doDropInitial() bool {
	// Initial keys are only ever dropped after a packet was authenticated (the client needs the
	// ServerHello to own Handshake keys); the constructor state without them is unreachable.
	if !c.ca.State().RcvFirst {
		return c.doLong()
	}
	cls := c.ca.DropInitialKeys()
	after := c.ca.State()
	out := "ONone"
	if cls != "" {
		out = "OTPError (* drop failed: " + cls + " *)"
	}
	c.steps = append(c.steps, caStep{"COpDrop", nil, nil, out, after, "DropInitialKeys"})
	return cls != ""
}

func runOneConnAccept(w *bufio.Writer, r *u.Rng, idx int, dist map[string]int) {
	c := &caCtx{r: r, w: w}
	c.p = caPool{O: r.Bytes(r.Range(8, 20)), C: r.Bytes(4), R1: r.Bytes(r.Range(4, 20)), R2: r.Bytes(r.Range(4, 20)), S1: r.Bytes(r.Range(4, 20)), S2: r.Bytes(4), A1: r.Bytes(r.Range(0, 20))}
	c.version = caV1
	switch r.Intn(4) {
	case 0:
		c.versions = []uint32{caV1}
	case 1:
		c.versions = []uint32{caV2, caV1}
		c.version = caV2
	case 2:
		c.versions = []uint32{caV2}
		c.version = caV2
	default:
		c.versions = []uint32{caV1, caV2}
	}
	negotiated := false
	if r.Chance(1, 6) && len(c.versions) > 1 { // the connection re-created after a version negotiation
		negotiated = true
		c.version = c.versions[1]
	}
	c.server = r.Chance(1, 5)
	o := quic.VerifCAOpts{Server: c.server, DCID: c.p.O, SCID: c.p.C, Version: quic.Version(c.version), HasNegotiated: negotiated}
	for _, v := range c.versions {
		o.Versions = append(o.Versions, quic.Version(v))
	}
	c.clientKind = "plain"
	if c.server {
		srvTLS, _, _ := simTLS()
		o.TLS = srvTLS
		o.SCID, o.PeerSCID = c.p.S1, c.p.C
		c.clientKind = "server"
	} else if r.Chance(1, 4) {
		name := parrotNames[r.Intn(4)]
		if sp, err := specFor(name); err == nil {
			o.Spec = sp
			c.clientKind = name
		}
	}
	ca, err := quic.VerifNewCA(o)
	if err != nil {
		fmt.Fprintf(w, "MONFAIL\tconnaccept/construct\t%v\tkind=%s\n", err, c.clientKind)
		return
	}
	c.ca = ca
	init := ca.State()
	dist["kind="+c.clientKind]++
	// scenario shape
	nOps := r.Range(2, 9)
	shape := r.Intn(6)
	done := false
	c.batch = r.Chance(1, 4)
	c.echo = !c.server && r.Chance(1, 6)
	if c.echo {
		dist["echo-odcid"]++
	}
	for i := 0; i < nOps && !done; i++ {
		k := r.Intn(100)
		if c.echo && i <= 1 {
			// genuine first packet whose SCID is the original DCID, then a forged Retry with a valid tag
			if i == 0 {
				done = c.doGenuine()
			} else {
				c.forceGoodRetry = true
				done = c.doRetry()
			}
			continue
		}
		if c.batch && k >= 83 {
			k = 50 + r.Intn(33) // datagrams only
		}
		if c.batch && i == nOps-2 && shape >= 3 && !c.server {
			k = 30 // a Version Negotiation packet shortly before the end of the batch
		}
		if i == 0 && shape <= 1 && !c.server {
			k = 0 // start with a Retry
		}
		if i == 1 && shape == 2 {
			k = 50 // early long header packet
		}
		switch {
		case k < 28:
			done = c.doRetry()
		case k < 45:
			done = c.doVN()
		case k < 78:
			done = c.doLong()
		case k < 83:
			done = c.doBad()
		case k < 97:
			done = c.doTP()
		default:
			done = c.doDropInitial()
		}
		st := c.ca.State()
		if !bytes.Equal(st.DCID, st.HsDCID) {
			c.fail("connaccept/dcid-sync", fmt.Sprintf("active DCID %x differs from handshakeDestConnID %x", st.DCID, st.HsDCID))
		}
	}
	// batch: the same datagrams, plus two genuine ones behind them, handed to a twin connection in one go
	var batchFinal quic.VerifCAState
	batchRemaining, nExtra, nSeq := 0, 0, 0
	if c.batch {
		terminated := done
		var extraOps, extraDesc []string
		var extraData [][]byte
		for j := 0; j < 2; j++ {
			if terminated {
				op, data, desc := c.genuine()
				extraOps, extraData, extraDesc = append(extraOps, op), append(extraData, data), append(extraDesc, desc)
			} else if c.doGenuine() {
				terminated = true
			}
		}
		nExtra = len(extraOps)
		seq := c.ca.State()
		if o.Spec != nil {
			if sp, err := specFor(c.clientKind); err == nil {
				o.Spec = sp
			}
		}
		twin, err := quic.VerifNewCA(o)
		if err != nil {
			fmt.Fprintf(w, "MONFAIL\tconnaccept/construct\t%v\tkind=%s\n", err, c.clientKind)
			return
		}
		all := append(append([][]byte{}, c.datas...), extraData...)
		bres, rem := twin.HandleBatch(all)
		batchFinal, batchRemaining = twin.State(), rem
		nSeq = len(c.steps)
		for j, op := range extraOps {
			c.steps = append(c.steps, caStep{op, nil, nil, "ONone", seq, extraDesc[j] + "[queued behind]"})
		}
		// model-independent: working through the queue in one go = handling the datagrams one by one, and
		// nothing queued behind the datagram that closed the connection is touched
		if rem != nExtra || !caStateEq(batchFinal, seq) {
			key := "connaccept/batch-differs"
			if nExtra > 0 {
				key = "connaccept/batch-after-close"
			}
			c.fail(key, fmt.Sprintf("handlePackets over %d queued datagrams: %d left in the queue (expected %d), state %s; one by one: %s (batch err=%q closed=%q)", len(all), rem, nExtra, caStateStr(batchFinal), caStateStr(seq), bres.Err, bres.Closed))
		}
		dist["batch"]++
		if nExtra > 0 {
			dist["batch-closed"]++
		}
	}
	// emit
	var initTerm string
	vs := make([]string, len(c.versions))
	for i, v := range c.versions {
		vs[i] = u.ZU(uint64(v))
	}
	if c.server {
		initTerm = u.App("CServer", u.ZU(uint64(c.version)), u.List(vs), u.Hex(c.p.O), u.Hex(c.p.C))
	} else {
		initTerm = u.App("CClient", u.ZU(uint64(c.version)), u.List(vs), u.B(negotiated), u.Hex(c.p.O), u.Hex(init.Token))
	}
	terms := make([]string, len(c.steps))
	descs := make([]string, len(c.steps))
	nt := 0
	for i, s := range c.steps {
		terms[i] = u.App("St", s.opTerm, u.Hex(s.okey), u.Hex(s.otag), "("+s.out+")", caObs(s.st))
		descs[i] = s.desc + "=>" + s.out
		if !strings.HasPrefix(s.out, "(ODropped") {
			nt = 1
		}
		dist["out="+strings.Fields(strings.Trim(s.out, "()"))[0]]++
	}
	if c.batch {
		fmt.Fprintf(w, "CASE %d %s\n", nt, u.App("CaseSeq", initTerm, caObs(init), u.List(terms[:nSeq])))
		fmt.Fprintf(w, "CASE %d %s\n", nt, u.App("CaseBatch", initTerm, caObs(init), u.List(terms), caObs(batchFinal), u.Z(int64(batchRemaining))))
	} else {
		fmt.Fprintf(w, "CASE %d %s\n", nt, u.App("CaseSeq", initTerm, caObs(init), u.List(terms)))
	}
	detail := fmt.Sprintf("kind=%s v=%x versions=%x negotiated=%v O=%x C=%x: %s", c.clientKind, c.version, c.versions, negotiated, c.p.O, c.p.C, strings.Join(descs, " ; "))
	if idx < 3 {
		fmt.Fprintf(w, "SAMPLE\t%s\n", detail)
	}
	for _, f := range c.fails {
		fmt.Fprintf(w, "MONFAIL\t%s\t%s\t%s\n", f.key, f.desc, detail)
	}
}

// ---- handshake deadline: the real run loop against a black hole ----

type caTimerCase struct {
	hsIdle    time.Duration
	keepAlive time.Duration
	pktAt     []time.Duration // virtual times at which a genuine peer Initial (PING) arrives
	version   uint32
	server    bool // the connection under test is a server connection (run() is shared, perspective differs)
}

func runOneTimer(w *bufio.Writer, tc caTimerCase, r *u.Rng) {
	O, C, S := r.Bytes(8), r.Bytes(4), r.Bytes(8)
	var fails []monFail
	var term, detail string
	body := func() {
		opts := quic.VerifCAOpts{DCID: O, SCID: C, Version: quic.Version(tc.version), Versions: []quic.Version{quic.Version(tc.version)}, HandshakeIdle: tc.hsIdle, KeepAlive: tc.keepAlive}
		if tc.server {
			srvTLS, _, _ := simTLS()
			opts.Server, opts.TLS, opts.SCID, opts.PeerSCID = true, srvTLS, S, C
		}
		ca, err := quic.VerifNewCA(opts)
		if err != nil {
			fails = append(fails, monFail{"connaccept/construct", err.Error()})
			return
		}
		start := time.Now()
		mono0 := quic.VerifMonoNow()
		type runRes struct {
			err error
			at  time.Duration
		}
		done := make(chan runRes, 1)
		go func() {
			err := ca.Run()
			done <- runRes{err, time.Since(start)}
		}()
		for i, at := range tc.pktAt {
			at := at
			i := i
			time.AfterFunc(at, func() {
				d, err := quic.VerifLongPacket(0, quic.Version(tc.version), C, S, nil, O, false, int64(i), quic.VerifFramePing())
				if tc.server {
					d, err = quic.VerifLongPacket(0, quic.Version(tc.version), S, C, nil, O, true, int64(i), quic.VerifFramePing())
				}
				if err == nil {
					ca.Enqueue(d)
				}
			})
		}
		var res runRes
		select {
		case res = <-done:
		case <-time.After(10*tc.hsIdle + time.Minute):
			fails = append(fails, monFail{"connaccept/deadline-hang", fmt.Sprintf("run() did not give up within %v of virtual time", 10*tc.hsIdle+time.Minute)})
			ca.Destroy()
			<-done
			return
		}
		t := quic.VerifConnTimes(ca.Conn())
		kind := "TContinue"
		var he *quic.HandshakeTimeoutError
		var ie *quic.IdleTimeoutError
		switch {
		case errors.As(res.err, &he):
			kind = "THandshakeTimeout"
		case errors.As(res.err, &ie):
			kind = "TIdleTimeout"
		}
		rel := func(x int64) int64 {
			if x == 0 {
				return 0
			}
			return x - mono0 + 1 // 0 is reserved for "unset"; everything is shifted by 1 ns
		}
		closeAt := int64(res.at) + 1
		// monitor, stated directly: give up exactly at min(creation + 2*idle, idleStart + idle), never later
		idleStart := rel(t.LastRcv)
		if f := rel(t.FirstAckElicitingAfterIdle); f != 0 && f > idleStart {
			idleStart = f
		}
		dl := rel(t.Creation) + 2*int64(tc.hsIdle)
		wantKind := "THandshakeTimeout"
		if x := idleStart + int64(tc.hsIdle); x < dl {
			dl, wantKind = x, "TIdleTimeout"
		}
		detail = fmt.Sprintf("server=%v idle=%v keepalive=%v pkts=%v v=%x: closed at %v with %v; creation=%d lastRcv=%d firstAE=%d", tc.server, tc.hsIdle, tc.keepAlive, tc.pktAt, tc.version, res.at, res.err, rel(t.Creation), rel(t.LastRcv), rel(t.FirstAckElicitingAfterIdle))
		if kind == "TContinue" {
			fails = append(fails, monFail{"connaccept/deadline-error", fmt.Sprintf("run() ended with %v instead of a handshake/idle timeout", res.err)})
		} else if closeAt != dl {
			fails = append(fails, monFail{"connaccept/deadline", fmt.Sprintf("run() gave up at %v, the handshake deadline was %v", time.Duration(closeAt-1), time.Duration(dl-1))})
		} else if kind != wantKind && !(idleStart+int64(tc.hsIdle) == rel(t.Creation)+2*int64(tc.hsIdle)) {
			fails = append(fails, monFail{"connaccept/deadline-kind", fmt.Sprintf("gave up with %s, expected %s", kind, wantKind)})
		}
		term = u.App("CaseTimer", u.Z(rel(t.Creation)), u.Z(rel(t.LastRcv)), u.Z(rel(t.FirstAckElicitingAfterIdle)), u.Z(int64(tc.hsIdle)), u.Z(int64(tc.keepAlive)),
			u.B(t.KeepAlivePingSent), u.Z(t.KeepAliveInterval), u.Z(closeAt), kind)
	}
	if err := inBubbleWatchdog(body, 30*time.Second); err != nil {
		fails = append(fails, monFail{"connaccept/deadline-leak-or-panic", err.Error()})
	}
	if term != "" {
		fmt.Fprintf(w, "CASE 1 %s\n", term)
	}
	for _, f := range fails {
		fmt.Fprintf(w, "MONFAIL\t%s\t%s\t%s\n", f.key, f.desc, detail)
	}
}

// inBubbleWatchdog: like inBubble, but a bubble that spins without advancing (wall clock) is
// reported instead of hanging the check.
func inBubbleWatchdog(f func(), wall time.Duration) error {
	ch := make(chan error, 1)
	go func() { ch <- inBubble(f) }()
	select {
	case err := <-ch:
		return err
	case <-time.After(wall):
		return fmt.Errorf("bubble did not finish within %v of wall-clock time (busy loop?)", wall)
	}
}

var _ = synctest.Wait

// Fixed table, run on every seed: a client (plain and spec-driven) that did / did not perform a Retry and has
// authenticated the server's first packet receives transport parameters with every combination of
// initial_source_connection_id {right, wrong} x original_destination_connection_id {right, wrong, missing} x
// retry_source_connection_id {right, wrong, missing}. Monitor connaccept/cid-auth: accepted iff all three are what the
// handshake authenticated (retry SCID absent iff no Retry), else TRANSPORT_PARAMETER_ERROR.
func runConnAcceptTPTable(w *bufio.Writer, r *u.Rng, dist map[string]int) {
	for _, kind := range []string{"plain", "Chrome_115_IPv4"} {
		for _, retry := range []bool{true, false} {
			for isc := 0; isc < 2; isc++ {
				for od := 0; od < 3; od++ {
					for rs := 0; rs < 3; rs++ {
						cr := r.Fork()
						c := &caCtx{r: cr, w: w, version: caV1, versions: []uint32{caV1}, clientKind: kind}
						c.p = caPool{O: cr.Bytes(cr.Range(8, 20)), C: cr.Bytes(4), R1: cr.Bytes(cr.Range(4, 20)), R2: cr.Bytes(cr.Range(4, 20)), S1: cr.Bytes(cr.Range(4, 20)), S2: cr.Bytes(4), A1: cr.Bytes(cr.Range(1, 20))}
						o := quic.VerifCAOpts{DCID: c.p.O, SCID: c.p.C, Version: quic.Version1, Versions: []quic.Version{quic.Version1}}
						if kind != "plain" {
							if sp, err := specFor(kind); err == nil {
								o.Spec = sp
							}
						}
						ca, err := quic.VerifNewCA(o)
						if err != nil {
							fmt.Fprintf(w, "MONFAIL\tconnaccept/construct\t%v\tkind=%s\n", err, kind)
							continue
						}
						c.ca = ca
						init := ca.State()
						done := false
						if retry {
							c.forceGoodRetry = true
							done = c.doRetry()
						}
						if !done {
							done = c.doGenuine()
						}
						if !done {
							st := ca.State()
							iscid := [][]byte{st.HsDCID, c.p.A1}[isc]
							odcid := [][]byte{c.p.O, st.HsDCID, nil}[od]
							rscid := [][]byte{st.RetrySCID, c.p.A1, nil}[rs]
							if !retry {
								rscid = [][]byte{c.p.R1, c.p.A1, nil}[rs] // "right" does not exist without a Retry: only absence is
							}
							if bytes.Equal(odcid, c.p.O) && od == 1 {
								odcid = c.p.A1
							}
							c.doTPWith(iscid, odcid, rs != 2, rscid)
						}
						vs := []string{u.ZU(uint64(caV1))}
						initTerm := u.App("CClient", u.ZU(uint64(caV1)), u.List(vs), "false", u.Hex(c.p.O), u.Hex(init.Token))
						terms := make([]string, len(c.steps))
						descs := make([]string, len(c.steps))
						for i, st := range c.steps {
							terms[i] = u.App("St", st.opTerm, u.Hex(st.okey), u.Hex(st.otag), "("+st.out+")", caObs(st.st))
							descs[i] = st.desc + "=>" + st.out
						}
						fmt.Fprintf(w, "CASE 1 %s\n", u.App("CaseSeq", initTerm, caObs(init), u.List(terms)))
						detail := fmt.Sprintf("table kind=%s retry=%v iscid=%d odcid=%d rscid=%d O=%x: %s", kind, retry, isc, od, rs, c.p.O, strings.Join(descs, " ; "))
						for _, f := range c.fails {
							fmt.Fprintf(w, "MONFAIL\t%s\t%s\t%s\n", f.key, f.desc, detail)
						}
						dist["tp-table"]++
					}
				}
			}
		}
	}
}

// Fixed table for the Version Negotiation guards: {first dial, connection re-created after a negotiation} x
// {before, after the first authenticated packet} x VN list {a version we also speak, only foreign versions, ours}.
func runConnAcceptVNTable(w *bufio.Writer, r *u.Rng, dist map[string]int) {
	for _, kind := range []string{"plain", "Chrome_115_IPv4"} {
		for _, negotiated := range []bool{false, true} {
			for _, afterFirst := range []bool{false, true} {
				for li := 0; li < 3; li++ {
					cr := r.Fork()
					c := &caCtx{r: cr, w: w, version: caV1, versions: []uint32{caV1, caV2}, clientKind: kind}
					if negotiated {
						c.version = caV2
					}
					c.p = caPool{O: cr.Bytes(cr.Range(8, 20)), C: cr.Bytes(4), R1: cr.Bytes(8), R2: cr.Bytes(8), S1: cr.Bytes(8), S2: cr.Bytes(4), A1: cr.Bytes(8)}
					o := quic.VerifCAOpts{DCID: c.p.O, SCID: c.p.C, Version: quic.Version(c.version), Versions: []quic.Version{quic.Version1, quic.Version2}, HasNegotiated: negotiated}
					if kind != "plain" {
						if sp, err := specFor(kind); err == nil {
							o.Spec = sp
						}
					}
					ca, err := quic.VerifNewCA(o)
					if err != nil {
						fmt.Fprintf(w, "MONFAIL\tconnaccept/construct\t%v\tkind=%s\n", err, kind)
						continue
					}
					c.ca = ca
					init := ca.State()
					done := false
					if afterFirst {
						done = c.doGenuine()
					}
					if !done {
						other := caV2
						if c.version == caV2 {
							other = caV1
						}
						c.forceVN = [][]uint32{{other, caVBad}, {caVBad, caVOld}, {caVBad, c.version}}[li]
						c.doVN()
					}
					vs := []string{u.ZU(uint64(caV1)), u.ZU(uint64(caV2))}
					initTerm := u.App("CClient", u.ZU(uint64(c.version)), u.List(vs), u.B(negotiated), u.Hex(c.p.O), u.Hex(init.Token))
					terms := make([]string, len(c.steps))
					descs := make([]string, len(c.steps))
					for i, st := range c.steps {
						terms[i] = u.App("St", st.opTerm, u.Hex(st.okey), u.Hex(st.otag), "("+st.out+")", caObs(st.st))
						descs[i] = st.desc + "=>" + st.out
					}
					fmt.Fprintf(w, "CASE 1 %s\n", u.App("CaseSeq", initTerm, caObs(init), u.List(terms)))
					detail := fmt.Sprintf("table kind=%s negotiated=%v afterFirst=%v list=%d: %s", kind, negotiated, afterFirst, li, strings.Join(descs, " ; "))
					for _, f := range c.fails {
						fmt.Fprintf(w, "MONFAIL\t%s\t%s\t%s\n", f.key, f.desc, detail)
					}
					dist["vn-table"]++
				}
			}
		}
	}
}

func runConnAccept(w *bufio.Writer, seed uint64, n int, args []string) {
	r := u.NewRng(seed)
	dist := map[string]int{}
	only := -1
	for _, a := range args {
		if strings.HasPrefix(a, "only=") {
			fmt.Sscanf(a, "only=%d", &only)
		}
	}
	for i := 0; i < n; i++ {
		cr := r.Fork()
		if only >= 0 && i != only {
			continue
		}
		func() {
			defer func() {
				if p := recover(); p != nil {
					fmt.Fprintf(w, "MONFAIL\tconnaccept/panic\t%v\tcase %d\n", p, i)
				}
			}()
			runOneConnAccept(w, cr, i, dist)
		}()
	}
	if only < 0 {
		runConnAcceptTPTable(w, u.NewRng(seed^0x7ab1e), dist)
		runConnAcceptVNTable(w, u.NewRng(seed^0x7ab1f), dist)
	}
	// timer cases
	nt := n / 40
	if nt < 6 {
		nt = 6
	}
	if os.Getenv("VERIF_TIER") == "thorough" && nt > 200 {
		nt = 200
	}
	tr := u.NewRng(seed ^ 0x7171)
	for i := 0; i < nt; i++ {
		cr := tr.Fork()
		if only >= 0 {
			break
		}
		tc := caTimerCase{hsIdle: time.Duration(cr.Pick(300, 1000, 2000, 5000, 7000)) * time.Millisecond, version: []uint32{caV1, caV2}[cr.Intn(2)], server: i%3 == 2}
		if cr.Chance(1, 3) {
			tc.keepAlive = time.Duration(cr.Pick(100, 1000, 3000)) * time.Millisecond
		}
		np := cr.Range(0, 3)
		for j := 0; j < np; j++ {
			tc.pktAt = append(tc.pktAt, time.Duration(cr.Range(1, int(2*tc.hsIdle/time.Millisecond)))*time.Millisecond)
		}
		if i == 0 {
			tc.pktAt = nil
		}
		runOneTimer(w, tc, cr)
		dist[fmt.Sprintf("timer/pkts=%d", len(tc.pktAt))]++
		if tc.server {
			dist["timer/server"]++
		}
	}
	for k, v := range dist {
		fmt.Fprintf(w, "DIST\t%s\t%d\n", k, v)
	}
}
