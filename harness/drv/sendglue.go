//go:build verif

package main

import (
	"bufio"
	"fmt"
	"sort"
	"strings"

	quic "github.com/refraction-networking/uquic"
	"github.com/refraction-networking/uquic/internal/ackhandler"
	u "github.com/refraction-networking/uquic/internal/verifutil"
)

func init() { units["sendglue"] = runSendGlue }

// sendglue (property C06 through the connection's real SEND path): a constructed, never run server or client Conn
// with its real packer, framer, crypto streams, streams and retransmission queue produces packets through
// triggerSending -> sendPackets / sendProbePacket -> packer -> sendPackedCoalescedPacket /
// registerPackedShortHeaderPacket -> SentPacket; ACKs go through handleAckFrame, key discards through
// dropEncryptionLevel (Initial, Handshake, 0-RTT rejection). A forwarding decorator records every call the
// connection makes on its sentPacketHandler and every OnAcked/OnLost the REAL frame handlers (retransmission queue
// per level, the stream, crypto streams) receive.
//
// CASE term: the same `Case` as unit sentph — the recorded calls with oracle values and the handler's observables
// after every call; the SentPH model replays them (Run.check_case), so every theorem of Props/C06.v about
// histories speaks about the histories the real connection produces.
//
// MONITORS: all sentph monitors on the recorded history (exactly once, in-flight balance, timer armed, ...), plus
//	sendglue/size-mismatch      sum of the sizes registered with SentPacket != bytes handed to the send queue
//	sendglue/wrong-level        STREAM frame registered at Initial/Handshake, CRYPTO frame at 0-RTT, ...
//	sendglue/lost-not-requeued  OnLost of a frame owned by the retransmission queue did not put it (exactly once)
//	                            into the queue of its level (0-RTT and 1-RTT share the application-data queue)
//	sendglue/frame-without-handler a retransmittable frame (anything but PING) registered without handler
//	sendglue/wrong-handler      a frame owned by the retransmission queue of another level / a STREAM frame not owned by its stream
//	sendglue/drop-not-propagated the connection discarded a level but the handler still tracks it
//	sendglue/pn-not-popped      SentPacket for a packet number that was not the one PopPacketNumber returned
//	sendglue/error, sendglue/panic

type sglRun struct {
	*sphRun
	conn       *quic.VerifSendGlueConn
	sentBytes  int64
	pnsByLevel map[int64][]int64
	retrans    [3]int
	dist       map[string]int
	fail       func(key, desc string)
}

func sglOp(c *ackhandler.VerifSentPHCall) *sphOp {
	o := &sphOp{kind: c.Kind, l: c.L, now: c.Now, la: c.LA, sfs: c.SFs, fs: c.Fs, size: c.Size, mtu: c.MTU, probe: c.Probe, rnd: c.Rnd,
		delay: c.Delay, ranges: c.Ranges, n: c.N, cs: c.CS, hb: c.HB}
	return o
}

func (g *sglRun) onCall(c *ackhandler.VerifSentPHCall) {
	r := g.sphRun
	o := sglOp(c)
	ret := c.Ret
	if c.Kind == "send" {
		ret = c.PN
		if !c.Popped {
			g.fail("pn-not-popped", fmt.Sprintf("SentPacket(level %d, pn %d) without a matching PopPacketNumber", c.L, c.PN))
		}
		g.sentBytes += c.Size
		g.pnsByLevel[c.L] = append(g.pnsByLevel[c.L], c.PN)
		sp := spaceIdx(c.L)
		r.sentPNs[sp][c.PN] = true
		for _, id := range append(append([]int64{}, c.Fs...), c.SFs...) {
			if id >= 0 {
				r.sentIDs[id] = true
			}
		}
		if !g.conn.KeysAvailable(int(c.L)) {
			g.fail("wrong-level", fmt.Sprintf("a packet was registered at encryption level %d although no keys of that level exist", c.L))
		}
		ids := append(append([]int64{}, c.Fs...), c.SFs...)
		for i, k := range c.Kinds {
			if ids[i] >= 0 {
				h := g.conn.Deco.IDHandler[ids[i]]
				want := ""
				switch c.L {
				case lvInitial:
					want = "retransmissionQueueInitialAckHandler"
				case lvHandshake:
					want = "retransmissionQueueHandshakeAckHandler"
				default:
					want = "retransmissionQueueAppDataAckHandler"
				}
				if strings.Contains(h, "retransmissionQueue") && !strings.Contains(h, want) {
					g.fail("wrong-handler", fmt.Sprintf("%s sent at encryption level %d is owned by %s: a loss would be requeued at another level", k, c.L, h))
				}
				if k == "*wire.StreamFrame" && !strings.Contains(h, "sendStreamAckHandler") {
					g.fail("wrong-handler", fmt.Sprintf("STREAM frame registered with handler %s instead of its stream", h))
				}
			}
			if ids[i] < 0 {
				g.dist["frame-without-handler:"+k]++
				if k != "*wire.PingFrame" {
					g.fail("frame-without-handler", fmt.Sprintf("%s registered at level %d without OnAcked/OnLost handler: its loss would go unnoticed", k, c.L))
				}
			}
		}
		for _, k := range c.Kinds {
			g.dist["frame:"+k]++
			bad := false
			switch c.L {
			case lvInitial, lvHandshake:
				bad = k != "*wire.CryptoFrame" && k != "*wire.PingFrame"
			case lv0RTT:
				bad = k == "*wire.CryptoFrame" || k == "*wire.HandshakeDoneFrame"
			}
			if bad {
				g.fail("wrong-level", fmt.Sprintf("%s registered with SentPacket at encryption level %d", k, c.L))
			}
		}
		g.dist[fmt.Sprintf("sent-level-%d", c.L)]++
	}
	if c.Kind == "drop" {
		g.conn.SetKeysDropped(int(c.L))
	}
	if r.appHi >= 0 {
		for q := r.appHi + 1; q <= r.v.AppHighest(); q++ {
			if !r.sentPNs[2][q] {
				r.skipped = append(r.skipped, q)
			}
		}
	}
	r.appHi = r.v.AppHighest()
	var lsb int64
	if c.Kind == "ack" {
		if r.v.SpaceLive(c.L) {
			lsb = r.v.LargestSent(c.L)
		}
	}
	cbs, evs := r.v.Drain()
	r.record(o, ret, cbs, evs)
	r.monitors(o, ret, g.prev, g.prevBif, lsb, cbs)
	g.prev, g.prevBif = r.summarize(), r.v.Obs().Bif
	r.lowTracked, r.lowTrackedOK = r.v.AppLowestTracked()
	// lost frames owned by the retransmission queue must be in the queue of their level now
	after := g.conn.Retrans()
	var want [3]int
	for _, cb := range cbs {
		if cb.Acked {
			g.dist["OnAcked"]++
			continue
		}
		g.dist["OnLost"]++
		h := g.conn.Deco.IDHandler[cb.ID]
		switch {
		case strings.Contains(h, "retransmissionQueueInitialAckHandler"):
			want[0]++
		case strings.Contains(h, "retransmissionQueueHandshakeAckHandler"):
			want[1]++
		case strings.Contains(h, "retransmissionQueueAppDataAckHandler"):
			want[2]++
		}
		g.dist["lost:"+h]++
	}
	for i := 0; i < 3; i++ {
		if after[i] >= 0 && g.retrans[i] >= 0 && c.Kind != "send" && after[i]-g.retrans[i] != want[i] {
			g.fail("lost-not-requeued", fmt.Sprintf("%d frames of retransmission queue %d were reported lost by %s, the queue grew by %d", want[i], i, o.term(), after[i]-g.retrans[i]))
		}
	}
	g.retrans = after
}

func sglCase(w *bufio.Writer, rng *u.Rng, client, tracer bool, dist map[string]int, failed map[string]bool) {
	conn, err := quic.NewVerifSendGlueConn(client, tracer)
	if err != nil {
		fmt.Fprintf(w, "MONFAIL\tsendglue/panic\tconstructing the connection failed\t%v\n", err)
		return
	}
	defer conn.Shutdown()
	r := &sphRun{w: w, cbCount: map[int64]int{}, sentIDs: map[int64]bool{}, exempt: map[int64]bool{}, failed: map[string]bool{}, kinds: map[string]int{}}
	for i := range r.sentPNs {
		r.sentPNs[i] = map[int64]bool{}
	}
	r.v = conn.Deco.V
	r.appHi = r.v.AppHighest()
	r.retryGap = -1
	r.hdr = fmt.Sprintf("%s %s 0 256 131072 %s", u.B(client), u.B(!client), u.Z(r.v.Rnd0))
	var script []string
	g := &sglRun{sphRun: r, conn: conn, pnsByLevel: map[int64][]int64{}, dist: dist}
	g.fail = func(key, desc string) {
		if failed[key] {
			return
		}
		failed[key] = true
		fmt.Fprintf(w, "MONFAIL\tsendglue/%s\t%s\tclient=%v qlog-tracer=%v script: %s | handler calls: %s\n", key, desc, client, tracer, strings.Join(script, "; "), strings.Join(r.trace, "; "))
	}
	g.prev, g.prevBif = r.summarize(), 0
	g.retrans = conn.Retrans()
	conn.Deco.OnCall = g.onCall

	now := int64(1_000_000_000)
	step := func(what string, err error) bool {
		script = append(script, what)
		if err != nil {
			key := "error"
			if strings.HasPrefix(err.Error(), "panic") {
				key = "panic"
			}
			g.fail(key, what+": "+err.Error())
			return false
		}
		return true
	}
	trigger := func() bool {
		g.sentBytes = 0
		lens, err := conn.Trigger(now)
		if !step(fmt.Sprintf("triggerSending@%d -> datagrams %v", now, lens), err) {
			return false
		}
		var total int64
		for _, l := range lens {
			total += int64(l)
		}
		if total != g.sentBytes {
			g.fail("size-mismatch", fmt.Sprintf("SentPacket was given %d bytes in total, the send queue %d bytes (%v)", g.sentBytes, total, lens))
		}
		return true
	}
	drop := func(what string, level int64) bool {
		now += 5_000_000
		if !step(what, conn.Drop(int(level), now)) {
			return false
		}
		bad := false
		if level == lv0RTT {
			for _, t := range r.v.Tracked() {
				if t.Space == 2 && t.Level == lv0RTT {
					bad = true
				}
			}
		} else {
			bad = r.v.SpaceLive(level)
		}
		if bad {
			g.fail("drop-not-propagated", fmt.Sprintf("the connection discarded encryption level %d but the sent packet handler still tracks packets of it", level))
		}
		return true
	}
	ackSome := func(level int64) bool {
		pns := g.pnsByLevel[level]
		if len(pns) == 0 || !r.v.SpaceLive(level) {
			return true
		}
		hi := pns[len(pns)-1]
		in := map[int64]bool{}
		for _, p := range pns {
			in[p] = true
		}
		var picked []int64
		all := rng.Chance(1, 3)
		for q := hi; q >= 0 && q > hi-8; q-- {
			if in[q] && (q == hi || all || rng.Bool()) {
				picked = append(picked, q)
			}
		}
		var ranges [][2]int64
		cur := [2]int64{picked[0], picked[0]}
		for _, q := range picked[1:] {
			if q == cur[0]-1 {
				cur[0] = q
			} else {
				ranges = append(ranges, cur)
				cur = [2]int64{q, q}
			}
		}
		ranges = append(ranges, cur)
		now += int64(rng.Range(5, 40)) * 1_000_000
		return step(fmt.Sprintf("handleAckFrame(level %d, %v)@%d", level, ranges, now), conn.Ack(int(level), now, ranges))
	}
	timeout := func() bool {
		if a := r.v.AlarmTime(); a > now {
			now = a
		} else {
			now += 300_000_000
		}
		if !step(fmt.Sprintf("OnLossDetectionTimeout@%d", now), conn.Timeout(now)) {
			return false
		}
		return trigger()
	}
	noise := func(level int64) bool {
		for i, k := 0, rng.Intn(4); i < k; i++ {
			var ok bool
			switch rng.Intn(3) {
			case 0:
				ok = ackSome(level)
			case 1:
				ok = timeout()
			default:
				now += int64(rng.Range(1, 30)) * 1_000_000
				ok = trigger()
			}
			if !ok {
				return false
			}
		}
		return true
	}

	// --- Initial
	n := rng.Range(200, 1400)
	if client && rng.Chance(1, 3) {
		n = rng.Range(1500, 2600) // a ClientHello spanning several packets
	}
	if !step(fmt.Sprintf("initialStream.Write(%d)", n), conn.WriteCrypto(1, n)) || !trigger() || !noise(lvInitial) {
		goto done
	}
	// --- 0-RTT (client only)
	if client && rng.Chance(1, 2) {
		conn.SetKeys(true, false, true, false)
		if !step("0-RTT keys; stream.Write", conn.WriteStream(rng.Range(1, 900))) || !trigger() || !noise(lvInitial) {
			goto done
		}
		if rng.Chance(1, 2) {
			if !drop("0-RTT rejected: dropEncryptionLevel(0-RTT)", lv0RTT) {
				goto done
			}
			conn.SetKeys(true, false, false, false)
			conn.AfterRejection()
		}
	}
	// --- Handshake
	conn.SetKeysAdd(2)
	n = rng.Range(100, 2500)
	if !step(fmt.Sprintf("handshakeStream.Write(%d)", n), conn.WriteCrypto(2, n)) || !trigger() {
		goto done
	}
	if !client {
		if !drop("first Handshake packet received: dropEncryptionLevel(Initial)", lvInitial) {
			goto done
		}
	}
	if !noise(lvHandshake) {
		goto done
	}
	// --- 1-RTT keys before the handshake is confirmed: Handshake and 1-RTT packets are coalesced
	conn.SetKeysAdd(4)
	if rng.Chance(2, 3) {
		n = rng.Range(50, 600)
		if !step(fmt.Sprintf("handshakeStream.Write(%d)", n), conn.WriteCrypto(2, n)) || !step("stream.Write", conn.WriteStream(rng.Range(1, 400))) {
			goto done
		}
		conn.QueueControl(rng.Intn(3))
		now += 3_000_000
		if !trigger() || !noise(lvHandshake) || !noise(lv1RTT) {
			goto done
		}
	}
	// --- handshake confirmed
	conn.Confirm()
	now += 5_000_000
	if rng.Chance(3, 4) {
		if !drop("handshake confirmed: dropEncryptionLevel(Handshake)", lvHandshake) {
			goto done
		}
	}
	for i, k := 0, rng.Range(2, 6); i < k; i++ {
		switch rng.Intn(3) {
		case 0:
			conn.QueueControl(rng.Intn(3))
			script = append(script, "queue control frame")
		case 1:
			if !step("stream.Write", conn.WriteStream(rng.Range(1, 1100))) {
				goto done
			}
		default:
			conn.QueueControl(rng.Intn(3))
			if !step("stream.Write", conn.WriteStream(rng.Range(1, 300))) {
				goto done
			}
		}
		now += int64(rng.Range(1, 20)) * 1_000_000
		if !trigger() || !noise(lv1RTT) {
			goto done
		}
	}
	for i := 0; i < 3; i++ {
		if !timeout() || !ackSome(lv1RTT) {
			goto done
		}
	}
done:
	conn.Deco.OnCall = nil
	fmt.Fprintf(w, "CASE 1 %s\n", r.caseTerm())
	dist["handler-calls"] += len(r.ops)
	if dist["samples"] < 1 && len(failed) == 0 {
		dist["samples"]++
		fmt.Fprintf(w, "SAMPLE\tclient=%v: %s\n", client, strings.Join(script, "; "))
	}
}

func runSendGlue(w *bufio.Writer, seed uint64, n int, _ []string) {
	root := u.NewRng(seed)
	dist := map[string]int{}
	failed := map[string]bool{}
	for c := 0; c < n; c++ {
		rng := root.Fork()
		sglCase(w, rng, c%2 == 1, (c/2)%2 == 1, dist, failed)
	}
	delete(dist, "samples")
	keys := make([]string, 0, len(dist))
	for k := range dist {
		keys = append(keys, k)
	}
	sort.Strings(keys)
	for _, k := range keys {
		fmt.Fprintf(w, "DIST\t%s\t%d\n", k, dist[k])
	}
}
