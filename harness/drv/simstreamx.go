//go:build verif

package main

// simstreamx: the exhaustive part of C01's quantifier ("exhaustively for every schedule of up to k
// faults among the first N datagrams of scripted scenarios"): three scripted scenarios; for each,
// the first 12 datagrams are the first six of each direction; EVERY schedule of at most
// 2 faults (drop / duplicate / delay 150 ms / bit flip / truncate) on those positions is run through
// the monitors of simstream (prefix, eof-only-at-end, complete, dgram, finishes, leak).
// 1 + 12*5 + C(12,2)*25 = 1711 schedules per scenario in the thorough tier (about 13 s for all three);
// the quick tier runs the fault-free schedule and the 60 single faults of each scenario.

import (
	"bufio"
	"fmt"
	"os"
	"time"

	quic "github.com/refraction-networking/uquic"
)

func init() { units["simstreamx"] = runSimStreamX }

var simstreamxScenarios = []simStreamCase{
	{Streams: []int{20000}, Echo: []bool{false}, Dgrams: 2, Client: "plain", Version: quic.Version1, Seed: 11, MaxChunk: 1500},
	{Streams: []int{1000, 30000}, Echo: []bool{true, false}, Dgrams: 1, Client: "unil", Version: quic.Version2, Seed: 12, MaxChunk: 20000},
	{Streams: []int{10000}, Echo: []bool{true}, Dgrams: 0, Client: "Chrome_115_IPv4", Version: quic.Version1, Seed: 13, MaxChunk: 100},
}

// simstreamxPositions: the first 12 datagrams of a connection = the first six in each direction
// (Initial / Handshake flights, handshake confirmation and the first 1-RTT packets of both sides).
func simstreamxPositions() [][2]int {
	var pos [][2]int
	for idx := 0; idx < 6; idx++ {
		pos = append(pos, [2]int{0, idx}, [2]int{1, idx})
	}
	return pos
}

func simstreamxFault(p [2]int, kind int) fault {
	f := fault{Dir: p[0], Idx: p[1], Kind: kind}
	switch kind {
	case fDelay:
		f.Arg = 150
	case fFlip:
		f.Arg = 8*37 + 3
	case fTrunc:
		f.Arg = 25
	}
	return f
}

func runSimStreamX(w *bufio.Writer, seed uint64, n int, args []string) {
	thorough := os.Getenv("VERIF_TIER") == "thorough" // quick tier: the fault-free run and every single fault only
	total, failed := 0, 0
	runOne := func(c simStreamCase) {
		done := make(chan struct{})
		go func(c simStreamCase) {
			select {
			case <-done:
			case <-time.After(45 * time.Second):
				fmt.Fprintf(w, "CASE 1 %s\n", c.String())
				fmt.Fprintf(w, "MONFAIL\tsimstreamx/hang\tscenario did not finish within 45 s of REAL time; remaining schedules skipped\t%s\n", c.String())
				w.Flush()
				os.Exit(0)
			}
		}(c)
		fails, _ := runOneSimStream(c)
		close(done)
		total++
		fmt.Fprintf(w, "CASE %d %s\n", b2i(len(c.Faults) > 0), c.String())
		if len(fails) > 0 {
			failed++
		}
		for _, f := range fails {
			key := "simstreamx" + f.key[len("simstream"):]
			fmt.Fprintf(w, "MONFAIL\t%s\t%s\t%s\n", key, f.desc, c.String())
		}
	}
	for _, sc := range simstreamxScenarios {
		pos := simstreamxPositions()
		runOne(sc)
		for i := range pos {
			for k := 0; k < fNumKinds; k++ {
				c := sc
				c.Faults = []fault{simstreamxFault(pos[i], k)}
				runOne(c)
			}
		}
		if !thorough {
			continue
		}
		for i := range pos {
			for j := i + 1; j < len(pos); j++ {
				for k1 := 0; k1 < fNumKinds; k1++ {
					for k2 := 0; k2 < fNumKinds; k2++ {
						c := sc
						c.Faults = []fault{simstreamxFault(pos[i], k1), simstreamxFault(pos[j], k2)}
						runOne(c)
					}
				}
			}
		}
	}
	fmt.Fprintf(w, "DIST\tschedules\t%d\nDIST\tschedules_with_monitor_failures\t%d\n", total, failed)
}
