//go:build verif

package main

import (
	"bufio"
	"fmt"
	"os"
	"runtime/debug"
	"strings"

	quic "github.com/refraction-networking/uquic"
	"github.com/refraction-networking/uquic/internal/ackhandler"
	"github.com/refraction-networking/uquic/internal/monotime"
	"github.com/refraction-networking/uquic/internal/protocol"
	u "github.com/refraction-networking/uquic/internal/verifutil"
)

func init() {
	units["amplification"] = runAmplification
	genSources = append(genSources, ackhandler.VerifAmpConsts)
}

// amplification unit (C14 a): histories of a real server-side sentPacketHandler.
//
// ops   Recv n t          ReceivedBytes(n, t)              one client datagram of n bytes
//       RecvPkt l t       ReceivedPacket(l, t)             one (coalesced) packet of it was decrypted
//       TrySend t pkts    m := SendMode(t); if m != SendNone { SentPacket for every packet of ONE datagram }
//                         (what Conn.triggerSending/sendPackets/sendProbePacket do before the handshake is confirmed)
//       Timeout t         if alarm != 0 && alarm <= t { OnLossDetectionTimeout(t) }     (Conn.run)
//       Other ts          ReceivedAck acknowledging everything sent in one space; its effect on the timer
//                         sub-state is an oracle (ts), its effect on the three counters is checked
// tail  Close hc size     Conn.handleCloseError (local application close; the CONNECTION_CLOSE datagram would be `size` bytes)
//       ClosedRecv n      an n-byte datagram reaches the handler the transport installed for the closed connection
//
// Property monitors (own counters, independent of the model and of the handler's fields).
type ampPkt struct {
	lvl  int64
	size int64
	ae   bool
}

func ampClass(m ackhandler.SendMode) int64 {
	switch m {
	case ackhandler.SendAck, ackhandler.SendPacingLimited, ackhandler.SendAny:
		return 1 // "may send something": which of the three is decided by congestion control / pacing (outside the slice)
	}
	return int64(m)
}

func runAmplification(w *bufio.Writer, seed uint64, n int, _ []string) {
	r := u.NewRng(seed)
	dist := map[string]int{}
	for i := 0; i < n; i++ {
		ampCase(w, r.Fork(), i, dist)
	}
	ampClientCases(w, r.Fork(), dist)
	for _, k := range []string{"cases", "nontrivial", "ops", "send-permitted", "send-blocked", "send-blocked-unvalidated", "boundary-hit", "recv-coalesced", "read-keys", "read-keys-nonempty", "close", "close-sent", "close-suppressed", "closed-recv", "closed-retransmit", "timeout-fired", "timeout-not-due", "ack", "validated-by-handshake", "validated-at-start", "never-validated", "pto-mode", "coalesced", "datagram>3x-first", "tiny-recv", "client-perspective"} {
		fmt.Fprintf(w, "DIST\t%s\t%d\n", k, dist[k])
	}
}

func ampCase(w *bufio.Writer, r *u.Rng, idx int, dist map[string]int) {
	var opsS, obsS, human []string
	failed := map[string]bool{}
	monfail := func(key, desc string) {
		if failed[key] {
			return
		}
		failed[key] = true
		fmt.Fprintf(w, "MONFAIL\t%s\t%s\t%s\n", key, desc, strings.Join(human, " "))
	}
	defer func() {
		if e := recover(); e != nil {
			if os.Getenv("VERIF_DEBUG") != "" {
				fmt.Fprintf(os.Stderr, "%s\n", debug.Stack())
			}
			fmt.Fprintf(w, "MONFAIL\tamplification/panic\tpanic: %v\t%s\n", e, strings.Join(human, " "))
		}
	}()

	validated0 := r.Chance(1, 12)
	// the handler is the one a real server-side Conn created for itself (so that the history can end with
	// the real Conn.handleCloseError and the real closed-connection handler of the transport)
	cn := quic.VerifNewC14Conn(validated0)
	a := ackhandler.VerifWrapAmp(cn.Handler())
	h := a.Handler()
	pto0 := a.TimerState().PTO0

	// the monitor's own view of the history
	var mSent, mRcvd, lastDgram int64
	mValidated := validated0
	cryptoOutstanding := false // an ack-eliciting Initial/Handshake packet was sent and not acknowledged since
	aeSent := map[int64]bool{}

	t := int64(1_000_000_000)
	style := r.Intn(3) // 0 handshake-like, 1 soup, 2 boundary hunting
	nops := r.Range(6, 36)
	wantFlight := 0
	sawBlockedUnval, sawPermittedUnval := false, false
	if validated0 {
		dist["validated-at-start"]++
	}

	record := func(mode int64, fired bool) {
		s, rc, v := a.Counters()
		ts := a.TimerState()
		obsS = append(obsS, u.App("Obs", u.Z(mode), u.B(fired), u.Z(s), u.Z(rc), u.B(v), u.Z(ts.Alarm), u.Z(ts.PTOCount), u.Z(ts.NumProbes)))
		// M3: the handler's counters are the bytes really handed to it
		if s != mSent || rc != mRcvd {
			monfail("amplification/counter", fmt.Sprintf("handler counts sent=%d received=%d, history has sent=%d received=%d", s, rc, mSent, mRcvd))
		}
		// M1: the property itself, on the history
		if !mValidated && mSent > 3*mRcvd+lastDgram {
			monfail("amplification/bound", fmt.Sprintf("unvalidated: sent %d > 3*%d + last datagram %d", mSent, mRcvd, lastDgram))
		}
		if ts.LossTimeSet || ts.HandshakeConfirmed || ts.SpacesDropped || !ts.PeerCompletedAddrValid {
			fmt.Fprintf(w, "INFO\tamplification: history left the modelled slice (loss time / confirmed / dropped space)\n")
		}
	}

	for k := 0; k < nops; k++ {
		t += r.Pick(0, 1_000_000, 10_000_000, 50_000_000, 120_000_000, 250_000_000)
		var choice int
		switch style {
		case 0:
			// client Initial, then the server's flight, interleaved with small client datagrams and timeouts
			if k == 0 {
				choice = 0
			} else if wantFlight > 0 {
				choice = 2
				wantFlight--
			} else {
				choice = int(r.Pick(0, 0, 1, 2, 2, 2, 3, 3, 4, 5, 6))
			}
		default:
			choice = int(r.Pick(0, 0, 1, 2, 2, 2, 2, 3, 4, 5, 6))
		}
		switch choice {
		case 0: // a client datagram arrives
			var sz int64
			switch r.Intn(6) {
			case 0:
				sz = 1200
			case 1:
				sz = int64(r.Range(1, 60)) // tiny (ACK-only Initial, garbage, a coalesced fragment)
				dist["tiny-recv"]++
			case 2:
				sz = int64(r.Range(1200, 1452))
			case 3:
				sz = 0
			case 4:
				sz = int64(r.Range(0, 3))
			default:
				sz = int64(r.Range(20, 1452))
			}
			wasLimited := !mValidated && mSent >= 3*mRcvd
			// The datagram goes through the real Conn.handleOnePacket: however many (undecryptable) packets are
			// coalesced in it, its size must be credited exactly once.
			parts := ampDatagramParts(r, int(sz))
			dg := quic.VerifC14CoalescedDatagram(cn.DCID(), parts, r.Bytes)
			var stats uint64
			var herr error
			if sz < 25 {
				// too short to carry a connection ID the transport could route by: credit it directly
				// (and handleShortHeaderPacket's header-parse-error branch dereferences a nil qlogger)
				h.ReceivedBytes(protocol.ByteCount(sz), monotime.Time(t))
				stats = cn.StatsBytesReceived()
			} else {
				stats, herr = cn.HandleDatagram(dg, t)
			}
			mRcvd += sz
			opsS = append(opsS, u.App("Recv", u.Z(sz), u.Z(t)))
			human = append(human, fmt.Sprintf("Recv(%d=%s)", sz, ampPartsString(parts)))
			if len(parts) > 1 {
				dist["recv-coalesced"]++
			}
			if int64(len(dg)) != sz {
				monfail("amplification/harness-datagram", fmt.Sprintf("crafted datagram has %d bytes instead of %d", len(dg), sz))
			}
			if herr != nil {
				fmt.Fprintf(w, "INFO\tamplification: handleOnePacket returned %v for %s\n", herr, ampPartsString(parts))
			}
			// M7: ConnectionStats.BytesReceived and the handler's bytesReceived count every datagram once
			if int64(stats) != mRcvd {
				monfail("amplification/datagram-credited-once", fmt.Sprintf("after a %d-byte datagram %s ConnectionStats.BytesReceived=%d, datagrams delivered so far total %d bytes", sz, ampPartsString(parts), stats, mRcvd))
			}
			record(-1, false)
			nowLimited := !mValidated && mSent >= 3*mRcvd
			// M4a: when new bytes lift the limit and crypto packets are outstanding, the PTO must be re-armed
			// (otherwise a server whose flight was cut by the limit never retransmits: handshake deadlock)
			if wasLimited && !nowLimited && cryptoOutstanding && h.GetLossDetectionTimeout().IsZero() {
				monfail("amplification/timer-rearm", "limit lifted by ReceivedBytes with crypto packets outstanding, but no loss-detection timer is armed")
			}
			if style == 0 && k == 0 {
				wantFlight = r.Range(3, 7)
			}
			// the packets inside that datagram
			np := r.Range(0, 2)
			for j := 0; j < np; j++ {
				var lvl int64
				if mRcvd > 0 && r.Chance(1, 6) {
					lvl = int64(protocol.EncryptionHandshake)
				} else {
					lvl = r.Pick(int64(protocol.EncryptionInitial), int64(protocol.EncryptionInitial), int64(protocol.Encryption0RTT), int64(protocol.Encryption1RTT))
				}
				ampRecvPkt(a, lvl, t, &opsS, &human, &mValidated, dist)
				record(-1, false)
				if mValidated && h.SendMode(monotime.Time(t)) == ackhandler.SendNone {
					monfail("amplification/validated-blocked", "SendMode is SendNone after the address was validated")
				}
			}
		case 1: // a packet is decrypted without new bytes (second coalesced packet, undecryptable-queue replay)
			lvl := r.Pick(int64(protocol.EncryptionInitial), int64(protocol.EncryptionHandshake), int64(protocol.Encryption0RTT), int64(protocol.Encryption1RTT))
			if lvl == int64(protocol.EncryptionHandshake) && r.Chance(2, 3) {
				lvl = int64(protocol.EncryptionInitial)
			}
			ampRecvPkt(a, lvl, t, &opsS, &human, &mValidated, dist)
			record(-1, false)
		case 2: // the connection wants to send one datagram
			mode := h.SendMode(monotime.Time(t))
			limited := !mValidated && mSent >= 3*mRcvd
			// M2: the gate is exactly the 3x rule
			if (mode == ackhandler.SendNone) != limited {
				monfail("amplification/sendmode-gate", fmt.Sprintf("SendMode=%d but validated=%v sent=%d received=%d", mode, mValidated, mSent, mRcvd))
			}
			var pkts []ampPkt
			room := 3*mRcvd - mSent
			total := int64(r.Range(1200, 1452))
			switch {
			case style == 2 && !mValidated && room > 0 && r.Chance(2, 3):
				total = room + r.Pick(-1, 0, 0, 1) // land on / next to the limit
				if total <= 0 {
					total = 1
				}
				if total == room {
					dist["boundary-hit"]++
				}
			case r.Chance(1, 8):
				total = int64(r.Range(1, 80))
			case r.Chance(1, 20):
				total = int64(r.Range(1453, 4000))
			}
			switch mode {
			case ackhandler.SendPTOInitial:
				pkts = []ampPkt{{int64(protocol.EncryptionInitial), total, true}}
				dist["pto-mode"]++
			case ackhandler.SendPTOHandshake:
				pkts = []ampPkt{{int64(protocol.EncryptionHandshake), total, true}}
				dist["pto-mode"]++
			case ackhandler.SendAck, ackhandler.SendPacingLimited:
				pkts = []ampPkt{{r.Pick(int64(protocol.EncryptionInitial), int64(protocol.EncryptionHandshake)), int64(r.Range(20, 60)), false}}
			default: // SendAny, or SendNone (the packets the connection would have liked to send)
				parts := r.Range(1, 3)
				if parts > 1 {
					dist["coalesced"]++
				}
				lv := []int64{int64(protocol.EncryptionInitial), int64(protocol.EncryptionHandshake), int64(protocol.Encryption1RTT)}
				start := r.Intn(3)
				rest := total
				for j := 0; j < parts && start+j < 3 && rest > 0; j++ {
					sz := rest
					if j < parts-1 && start+j < 2 {
						sz = int64(r.Range(0, int(rest)))
					}
					rest -= sz
					pkts = append(pkts, ampPkt{lv[start+j], sz, !r.Chance(1, 4)})
				}
			}
			var ps, hs []string
			var sum int64
			for _, p := range pkts {
				ps = append(ps, u.Pair(u.Pair(u.Z(p.lvl), u.Z(p.size)), u.B(p.ae)))
				hs = append(hs, fmt.Sprintf("%d:%d:%v", p.lvl, p.size, p.ae))
				sum += p.size
			}
			opsS = append(opsS, u.App("TrySend", u.Z(t), u.List(ps)))
			human = append(human, fmt.Sprintf("TrySend[%s]=>mode%d", strings.Join(hs, ","), mode))
			if mode != ackhandler.SendNone {
				if mSent == 0 && sum > 3*mRcvd {
					dist["datagram>3x-first"]++
				}
				for _, p := range pkts {
					a.SendOne(t, protocol.EncryptionLevel(p.lvl), p.size, p.ae)
					mSent += p.size
					if p.ae {
						aeSent[p.lvl] = true
						if p.lvl != int64(protocol.Encryption1RTT) {
							cryptoOutstanding = true
						}
						// M4b: an ack-eliciting packet recomputes the timer; while limited it must be off
						if !mValidated && mSent >= 3*mRcvd && !h.GetLossDetectionTimeout().IsZero() {
							monfail("amplification/timer-cancel", "amplification limited after an ack-eliciting packet, but the loss-detection timer is armed")
						}
					}
				}
				lastDgram = sum
				dist["send-permitted"]++
				if !mValidated {
					sawPermittedUnval = true
				}
			} else {
				dist["send-blocked"]++
				if !mValidated {
					sawBlockedUnval = true
					dist["send-blocked-unvalidated"]++
				}
			}
			record(ampClass(mode), false)
		case 3: // the run loop looks at the loss-detection timer
			to := h.GetLossDetectionTimeout()
			now := t
			if !to.IsZero() && r.Chance(3, 4) {
				now = int64(to) + r.Pick(0, 0, 1, 1_000_000)
				if now < t {
					now = t
				}
				t = now
			}
			fired := !to.IsZero() && !to.After(monotime.Time(now))
			if fired {
				if err := h.OnLossDetectionTimeout(monotime.Time(now)); err != nil {
					monfail("amplification/timeout-error", "OnLossDetectionTimeout: "+err.Error())
				}
				dist["timeout-fired"]++
			} else {
				dist["timeout-not-due"]++
			}
			opsS = append(opsS, u.App("Timeout", u.Z(now)))
			human = append(human, fmt.Sprintf("Timeout(fired=%v)", fired))
			record(-1, fired)
		case 4, 5: // an ACK for everything sent so far in the Initial or Handshake space
			lvl := r.Pick(int64(protocol.EncryptionInitial), int64(protocol.EncryptionHandshake))
			ok, err := a.AckAll(t, protocol.EncryptionLevel(lvl))
			if err != nil {
				monfail("amplification/ack-error", "ReceivedAck: "+err.Error())
			}
			if !ok {
				continue
			}
			dist["ack"]++
			delete(aeSent, lvl)
			cryptoOutstanding = aeSent[int64(protocol.EncryptionInitial)] || aeSent[int64(protocol.EncryptionHandshake)]
			ts := a.TimerState()
			opsS = append(opsS, u.App("Other", u.App("TS", u.B(ts.OutI), u.B(ts.OutH), u.B(ts.OutA), u.Z(ts.LastAEI), u.Z(ts.LastAEH),
				u.Z(ts.PTOCount), u.Z(ts.NumProbes), u.Z(ts.PTOMode), u.Z(ts.PTO0), u.Z(ts.Alarm))))
			human = append(human, fmt.Sprintf("AckAll(%d)", lvl))
			record(-1, false)
		case 6: // the crypto setup reports new read keys: the buffered undecryptable packets are handled again
			queued := cn.QueuedUndecryptable()
			stats, err := cn.ReadKeysAvailable()
			if err != nil {
				fmt.Fprintf(w, "INFO\tamplification: replay of undecryptable packets returned %v\n", err)
			}
			ts := a.TimerState()
			opsS = append(opsS, u.App("Other", u.App("TS", u.B(ts.OutI), u.B(ts.OutH), u.B(ts.OutA), u.Z(ts.LastAEI), u.Z(ts.LastAEH),
				u.Z(ts.PTOCount), u.Z(ts.NumProbes), u.Z(ts.PTOMode), u.Z(ts.PTO0), u.Z(ts.Alarm))))
			human = append(human, fmt.Sprintf("ReadKeys(replay %v)", queued))
			dist["read-keys"]++
			if len(queued) > 0 {
				dist["read-keys-nonempty"]++
			}
			// M8: a packet that was buffered because its keys were missing arrived in a datagram that was already
			// credited; handling it again must not credit its bytes a second time
			if int64(stats) != mRcvd {
				monfail("amplification/replay-credited-again", fmt.Sprintf("after replaying %d buffered undecryptable packets %v ConnectionStats.BytesReceived=%d, but only %d bytes ever arrived in datagrams", len(queued), queued, stats, mRcvd))
			}
			record(-1, false)
		}
	}
	// ---- the connection is closed locally (application close / CONNECTION_REFUSED), then datagrams keep arriving ----
	var tailS, tobsS []string
	if r.Chance(3, 5) {
		hc := mValidated && r.Bool() // the handshake completes only after the client's address is validated
		size := int(r.Pick(30, 60, 106, 114, 200, 1200))
		limited := !mValidated && mSent >= 3*mRcvd
		written, retrans := cn.Close(hc, size)
		tailS = append(tailS, u.App("Close", u.B(hc), u.Z(int64(size))))
		tobsS = append(tobsS, u.Z(int64(written)))
		human = append(human, fmt.Sprintf("Close(hc=%v,%dB)=>written=%d,retransmitting=%v", hc, size, written, retrans))
		dist["close"]++
		// M5: an unvalidated server that has used up its limit stays silent when it closes, and later
		if limited && mSent > 0 && written > 0 {
			monfail("amplification/close-over-limit", fmt.Sprintf("unvalidated, sent=%d >= 3*received=%d, but a %d-byte CONNECTION_CLOSE was written", mSent, mRcvd, written))
		}
		if limited && mSent > 0 && retrans {
			monfail("amplification/close-over-limit-retransmitting", "unvalidated server over the limit installed a retransmitting closed-connection handler")
		}
		if written > 0 {
			dist["close-sent"]++
			mSent += int64(written)
			lastDgram = int64(written)
		} else {
			dist["close-suppressed"]++
		}
		if !mValidated && mSent > 3*mRcvd+lastDgram {
			monfail("amplification/bound", fmt.Sprintf("unvalidated after close: sent %d > 3*%d + last datagram %d", mSent, mRcvd, lastDgram))
		}
		nrecv := r.Range(0, 9)
		for j := 0; j < nrecv; j++ {
			n := int(r.Pick(0, 1, 21, 30, 37, 37, 60, 1200))
			q := cn.ClosedRecv(n)
			mRcvd += int64(n)
			tailS = append(tailS, u.App("ClosedRecv", u.Z(int64(n))))
			tobsS = append(tobsS, u.Z(int64(q)))
			human = append(human, fmt.Sprintf("ClosedRecv(%d)=>%d", n, q))
			dist["closed-recv"]++
			if q > 0 {
				dist["closed-retransmit"]++
				// M6: every datagram towards an unvalidated address starts at or under the limit
				if !mValidated && mSent > 3*mRcvd {
					monfail("amplification/closed-retransmit-over-limit", fmt.Sprintf("unvalidated: CONNECTION_CLOSE retransmitted with sent=%d > 3*received=%d", mSent, mRcvd))
				}
				mSent += int64(q)
				lastDgram = int64(q)
			}
			if !mValidated && mSent > 3*mRcvd+lastDgram {
				monfail("amplification/bound", fmt.Sprintf("unvalidated after close: sent %d > 3*%d + last datagram %d", mSent, mRcvd, lastDgram))
			}
		}
	}
	nt := 0
	if sawBlockedUnval && sawPermittedUnval {
		nt = 1
		dist["nontrivial"]++
	}
	if !mValidated {
		dist["never-validated"]++
	}
	dist["cases"]++
	dist["ops"] += len(opsS)
	fmt.Fprintf(w, "CASE %d %s\n", nt, u.App("AmpCase", u.B(validated0), u.Z(pto0), u.List(opsS), u.List(obsS), u.List(tailS), u.List(tobsS)))
	if idx < 2 {
		fmt.Fprintf(w, "SAMPLE\t%s\n", strings.Join(human, " "))
	}
}

// ampDatagramParts splits an n-byte client datagram into coalesced parts.
func ampDatagramParts(r *u.Rng, n int) []quic.VerifC14Part {
	if n < 90 {
		return []quic.VerifC14Part{{Type: int(r.Pick(-1, 0, 0)), Size: n}}
	}
	var k int
	switch r.Intn(6) {
	case 0:
		k = 1
	case 1:
		k = 2
	case 2:
		k = 8
	case 3:
		k = 16
	default:
		k = r.Range(2, 5)
	}
	if n/k < 45 {
		k = n / 45
	}
	parts := make([]quic.VerifC14Part, 0, k)
	rest := n
	for i := 0; i < k; i++ {
		sz := n / k
		if i == k-1 {
			sz = rest
		}
		rest -= sz
		typ := 0 // Initial
		if i > 0 {
			typ = int(r.Pick(0, 0, 0, 1, 2, -1)) // Initial, 0-RTT-looking, Handshake-looking, garbage tail
		}
		parts = append(parts, quic.VerifC14Part{Type: typ, Size: sz})
	}
	return parts
}

func ampPartsString(parts []quic.VerifC14Part) string {
	names := map[int]string{0: "Initial", 1: "0-RTT", 2: "Handshake", -1: "garbage"}
	var s []string
	for _, p := range parts {
		s = append(s, fmt.Sprintf("%s:%d", names[p.Type], p.Size))
	}
	return "[" + strings.Join(s, "|") + "]"
}

func ampRecvPkt(a *ackhandler.VerifAmp, lvl, t int64, opsS, human *[]string, mValidated *bool, dist map[string]int) {
	a.Handler().ReceivedPacket(protocol.EncryptionLevel(lvl), monotime.Time(t))
	if lvl == int64(protocol.EncryptionHandshake) {
		if !*mValidated {
			dist["validated-by-handshake"]++
		}
		*mValidated = true
	}
	*opsS = append(*opsS, u.App("RecvPkt", u.Z(lvl), u.Z(t)))
	*human = append(*human, fmt.Sprintf("RecvPkt(%d)", lvl))
}

// The limit is a server-side rule: a client-side handler must never be blocked by it
// (monitor only; the model covers the server perspective).
func ampClientCases(w *bufio.Writer, r *u.Rng, dist map[string]int) {
	defer func() {
		if e := recover(); e != nil {
			fmt.Fprintf(w, "MONFAIL\tamplification/panic\tpanic (client perspective): %v\t-\n", e)
		}
	}()
	for i := 0; i < 5; i++ {
		a := ackhandler.VerifNewAmp(false, protocol.PerspectiveClient)
		t := int64(1_000_000_000)
		for k := 0; k < 5; k++ {
			if m := a.Handler().SendMode(monotime.Time(t)); m == ackhandler.SendNone {
				fmt.Fprintf(w, "MONFAIL\tamplification/client-blocked\tclient-side handler returns SendNone after %d packets\t-\n", k)
				return
			}
			a.SendOne(t, protocol.EncryptionInitial, int64(r.Range(1200, 1452)), true)
			t += 1_000_000
		}
		dist["client-perspective"]++
	}
}
