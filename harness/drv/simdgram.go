//go:build verif

package main

// simdgram: C01 claim (d) on whole connections, aimed at the packet layer: application DATAGRAMs
// are sent WHILE a stream transfer is running, so DATAGRAM frames share packets with STREAM and
// control frames; the router holds back every k-th client->server datagram for several RTTs
// (nothing is dropped, duplicated or modified), so those packets are declared lost although they
// arrive. Whatever the loss detection does, each application datagram must be handed to the
// receiving application at most once and unmodified; the stream must arrive intact.
// Download mode (Down, every third case; seed C01-f): the SERVER writes the stream, the client reads it with small fixed
// flow-control windows (so it sends MAX_STREAM_DATA / MAX_DATA all the time and nothing else) and
// sends datagrams continuously until the download is complete, while every k-th client->server
// datagram is DROPPED: packets carrying window updates are lost and the updates are retransmitted
// from the retransmission queue in packets that also carry an application datagram.
// Replay mode (Replay, every third case; audit problem 1): no stream. After the handshake every server->client
// packet and every other client->server packet is dropped while the client sends small datagrams, one per
// packet, so the server's received-packet history grows one ACK range per packet and forgets its oldest
// ranges beyond MaxNumAckRanges; the first datagram-carrying packet of that phase is captured and REPLAYED
// unmodified after Gap (70..100) further packets were delivered. The replayed packet must be recognised as a
// duplicate: monitor simdgram/dup-replay-beyond-ack-ranges (an application datagram was delivered twice).
// Monitors: simdgram/dup, simdgram/modified, simdgram/stream, simdgram/finishes, simdgram/hang.

import (
	"bufio"
	"bytes"
	"context"
	"fmt"
	"io"
	"os"
	"sync"
	"sync/atomic"
	"time"

	quic "github.com/refraction-networking/uquic"
	u "github.com/refraction-networking/uquic/internal/verifutil"
	"github.com/refraction-networking/uquic/testutils/simnet"
)

func init() { units["simdgram"] = runSimDgram }

type simDgramCase struct {
	StreamSize int
	Dgrams     int
	DgSize     int
	GapUs      int // virtual pause between two SendDatagram calls
	Every      int // every k-th c>s datagram from FromIdx on is delayed
	FromIdx    int
	DelayMs    int
	RTTms      int
	Client     string
	Seed       uint64
	Down       bool // download mode
	Replay     bool // replay mode
	Gap        int  // replay mode: delivered client packets between capture and replay
	Window     int  // download mode: the client's stream and connection receive window
}

func (c simDgramCase) String() string {
	if c.Replay {
		return fmt.Sprintf("replay client=%s rtt=%dms dgrams=%dx%dB gap=%dus: after the handshake drop all s>c and every other c>s datagram, replay the first c>s datagram of that phase after %d further delivered ones seed=%d",
			c.Client, c.RTTms, c.Dgrams, c.DgSize, c.GapUs, c.Gap, c.Seed)
	}
	if c.Down {
		return fmt.Sprintf("download client=%s rtt=%dms stream=%d window=%d dgrams<=%dx%dB gap=%dus drop every %d-th c>s datagram from #%d seed=%d",
			c.Client, c.RTTms, c.StreamSize, c.Window, c.Dgrams, c.DgSize, c.GapUs, c.Every, c.FromIdx, c.Seed)
	}
	return fmt.Sprintf("client=%s rtt=%dms stream=%d dgrams=%dx%dB gap=%dus delay every %d-th c>s datagram from #%d by %dms seed=%d",
		c.Client, c.RTTms, c.StreamSize, c.Dgrams, c.DgSize, c.GapUs, c.Every, c.FromIdx, c.DelayMs, c.Seed)
}

func runOneSimDgram(c simDgramCase) (fails []monFail, info string) {
	var mu sync.Mutex
	fail := func(key, desc string) {
		mu.Lock()
		fails = append(fails, monFail{key, desc})
		mu.Unlock()
	}
	dupCount, recvCount := 0, 0
	err := inBubble(func() {
		var faults []fault
		var phase atomic.Int32 // replay mode: 1 while the gaps are produced
		var n0 atomic.Int64    // replay mode: index of the first c>s datagram of the phase
		for i := c.FromIdx; i < c.FromIdx+4000 && !c.Replay; i += c.Every {
			if c.Down {
				faults = append(faults, fault{Dir: 0, Idx: i, Kind: fDrop})
			} else {
				faults = append(faults, fault{Dir: 0, Idx: i, Kind: fDelay, Arg: c.DelayMs})
			}
		}
		o := simOpts{
			RTT:        time.Duration(c.RTTms) * time.Millisecond,
			Faults:     faults,
			ServerConf: &quic.Config{EnableDatagrams: true, MaxIdleTimeout: 20 * time.Second},
			ClientConf: &quic.Config{EnableDatagrams: true, MaxIdleTimeout: 20 * time.Second},
		}
		if c.Replay {
			o.RandDrop = func(dir, idx int) bool {
				if phase.Load() != 1 {
					return false
				}
				return dir == 1 || (int64(idx)-n0.Load())%2 == 1
			}
		}
		if c.Down {
			w := uint64(c.Window)
			o.ClientConf.InitialStreamReceiveWindow, o.ClientConf.MaxStreamReceiveWindow = w, w
			o.ClientConf.InitialConnectionReceiveWindow, o.ClientConf.MaxConnectionReceiveWindow = w, w
		}
		switch c.Client {
		case "plain":
			o.PlainPath = true
		case "unil":
		default:
			sp, err := specFor(c.Client)
			if err != nil {
				fail("simdgram/spec", err.Error())
				return
			}
			o.Spec = sp
		}
		e, err := newSimEnv(o)
		if err != nil {
			fail("simdgram/env", err.Error())
			return
		}
		defer e.Close()
		ctx, cancel := context.WithTimeout(context.Background(), 120*time.Second)
		defer cancel()
		var got [][]byte
		type sres struct {
			data []byte
			err  error
		}
		srvDone := make(chan sres, 1)
		srvReady := make(chan struct{})
		var srvConn *quic.Conn
		go func() {
			conn, err := e.Ln.Accept(ctx)
			if err != nil {
				close(srvReady)
				srvDone <- sres{nil, err}
				return
			}
			srvConn = conn
			close(srvReady)
			go func() {
				for {
					d, err := conn.ReceiveDatagram(ctx)
					if err != nil {
						return
					}
					mu.Lock()
					got = append(got, d)
					mu.Unlock()
				}
			}()
			if c.Down {
				s, err := conn.OpenUniStreamSync(ctx)
				if err != nil {
					fail("simdgram/open", err.Error())
					return
				}
				s.Write(streamBytes(1, c.StreamSize))
				s.Close()
				return
			}
			s, err := conn.AcceptUniStream(ctx)
			if err != nil {
				srvDone <- sres{nil, err}
				return
			}
			data, err := io.ReadAll(s)
			srvDone <- sres{data, err}
		}()
		conn, err := e.Dial(ctx)
		if err != nil {
			fail("simdgram/dial/"+c.Client, "dial failed: "+err.Error())
			<-srvReady
			return
		}
		<-srvReady
		want := streamBytes(1, c.StreamSize)
		downDone := make(chan struct{})
		replayed := false
		if c.Replay {
			want = nil
			time.Sleep(time.Duration(6*c.RTTms+100) * time.Millisecond) // handshake confirmed, ACKs exchanged
			var captured []byte
			delivered := 0
			e.Router.mu.Lock()
			n0.Store(int64(e.Router.cnt[0]))
			e.Router.inject = func(dir, idx int, p simnet.Packet) []simnet.Packet {
				if dir != 0 || phase.Load() != 1 || (int64(idx)-n0.Load())%2 == 1 {
					return nil
				}
				if captured == nil {
					captured = append([]byte{}, p.Data...)
					return nil
				}
				delivered++
				if delivered == c.Gap {
					replayed = true
					return []simnet.Packet{{To: p.To, From: p.From, Data: append([]byte{}, captured...)}}
				}
				return nil
			}
			e.Router.mu.Unlock()
			phase.Store(1)
			go func() { srvDone <- sres{nil, nil} }()
		} else if c.Down {
			go func() {
				defer close(downDone)
				s, err := conn.AcceptUniStream(ctx)
				if err != nil {
					srvDone <- sres{nil, err}
					return
				}
				data, err := io.ReadAll(s)
				srvDone <- sres{data, err}
			}()
		} else {
			s, err := conn.OpenUniStreamSync(ctx)
			if err != nil {
				fail("simdgram/open", err.Error())
				return
			}
			go func() {
				s.Write(want)
				s.Close()
			}()
		}
		sent := map[string]bool{}
		rr := u.NewRng(c.Seed)
		for i := 0; i < c.Dgrams; i++ {
			if c.Down {
				select {
				case <-downDone:
					i = c.Dgrams
					continue
				default:
				}
			}
			d := append([]byte(fmt.Sprintf("dg-%05d-", i)), rr.Bytes(c.DgSize)...)
			if err := conn.SendDatagram(d); err == nil {
				sent[string(d)] = true
			}
			time.Sleep(time.Duration(c.GapUs) * time.Microsecond)
		}
		select {
		case res := <-srvDone:
			if res.err != nil {
				fail("simdgram/stream", fmt.Sprintf("stream ended with %v after %d of %d bytes", res.err, len(res.data), len(want)))
			} else if !bytes.Equal(res.data, want) {
				fail("simdgram/stream", fmt.Sprintf("stream content differs (%d bytes read, %d written)", len(res.data), len(want)))
			}
		case <-ctx.Done():
			fail("simdgram/finishes", "transfer did not finish within 120 s of virtual time (upload: nothing was dropped; download: only every k-th client packet)")
		}
		phase.Store(0)
		time.Sleep(time.Duration(c.DelayMs+4*c.RTTms+500) * time.Millisecond) // let held-back packets and retransmissions arrive
		mu.Lock()
		rcvd := append([][]byte{}, got...)
		mu.Unlock()
		seen := map[string]int{}
		for _, d := range rcvd {
			recvCount++
			if !sent[string(d)] {
				fail("simdgram/modified", fmt.Sprintf("received datagram %q... (%d bytes) was never sent", d[:min(9, len(d))], len(d)))
			}
			seen[string(d)]++
		}
		first := ""
		for d, n := range seen {
			if n > 1 {
				dupCount++
				if first == "" || d[:9] < first {
					first = d[:9]
				}
			}
		}
		if dupCount > 0 && c.Replay {
			fail("simdgram/dup-replay-beyond-ack-ranges", fmt.Sprintf("application datagram %q was delivered twice: the 1-RTT packet carrying it was replayed unmodified after %d further packets, each behind a gap, had been received (more ACK ranges than MaxNumAckRanges): the received-packet history had forgotten it and the packet was processed again", first, c.Gap))
		} else if dupCount > 0 {
			fail("simdgram/dup", fmt.Sprintf("%d of %d application datagrams were delivered more than once (first: %q) although the network only delayed packets", dupCount, len(sent), first))
		}
		if c.Replay && !replayed {
			fail("simdgram/replay-not-reached", "the scenario did not get to the replay")
		}
		conn.CloseWithError(0, "")
		if srvConn != nil {
			select {
			case <-srvConn.Context().Done():
			case <-time.After(30 * time.Second):
			}
		}
	})
	if err != nil {
		fail("simdgram/leak-or-panic", err.Error())
	}
	return fails, fmt.Sprintf("received=%d dup=%d", recvCount, dupCount)
}

func genSimDgramCase(r *u.Rng) simDgramCase {
	c := simDgramCase{Seed: r.U64()}
	c.RTTms = int(r.Pick(10, 20, 40))
	c.StreamSize = r.Range(60000, 250000)
	c.Dgrams = r.Range(40, 120)
	c.DgSize = r.Range(10, 300)
	c.GapUs = int(r.Pick(200, 500, 1000, 2000))
	c.Every = r.Range(3, 9)
	c.FromIdx = r.Range(6, 14) // after the handshake flights
	c.DelayMs = c.RTTms * r.Range(3, 6)
	c.Client = []string{"plain", "unil", "Chrome_115_IPv4", "Chrome_146_IPv6"}[r.Intn(4)]
	return c
}

func simDgramReplay(c simDgramCase, r *u.Rng) simDgramCase {
	c.Replay = true
	c.Gap = r.Range(70, 100)
	c.Dgrams = 2*c.Gap + 30
	c.DgSize = r.Range(5, 60)
	c.GapUs = int(r.Pick(300, 600, 1000))
	c.StreamSize = 0
	return c
}

func simDgramDownload(c simDgramCase, r *u.Rng) simDgramCase {
	c.Down = true
	c.Window = int(r.Pick(4096, 8192, 16384, 32768))
	c.StreamSize = r.Range(40000, 160000)
	c.Dgrams = 1500
	c.DgSize = r.Range(10, 200)
	c.GapUs = int(r.Pick(300, 700, 1500))
	c.Every = r.Range(3, 7)
	return c
}

func runSimDgram(w *bufio.Writer, seed uint64, n int, _ []string) {
	r := u.NewRng(seed ^ 0xd9a3)
	for i := 0; i < n; i++ {
		c := genSimDgramCase(r)
		if i%3 == 1 {
			c = simDgramDownload(c, r.Fork())
		} else if i%3 == 2 {
			c = simDgramReplay(c, r.Fork())
		}
		done := make(chan struct{})
		go func(c simDgramCase) {
			select {
			case <-done:
			case <-time.After(45 * time.Second):
				fmt.Fprintf(w, "CASE 1 %s\n", c.String())
				fmt.Fprintf(w, "MONFAIL\tsimdgram/hang\tscenario did not finish within 45 s of REAL time; remaining cases skipped\t%s\n", c.String())
				w.Flush()
				os.Exit(0)
			}
		}(c)
		fails, info := runOneSimDgram(c)
		close(done)
		fmt.Fprintf(w, "CASE 1 %s\n", c.String())
		if i < 2 {
			fmt.Fprintf(w, "SAMPLE\t%s %s\n", c.String(), info)
		}
		for _, f := range fails {
			fmt.Fprintf(w, "MONFAIL\t%s\t%s\t%s\n", f.key, f.desc, c.String())
		}
	}
	fmt.Fprintf(w, "DIST\tcases\t%d\n", n)
}
