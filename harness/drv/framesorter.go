//go:build verif

package main

import (
	"bufio"
	"fmt"
	"os"
	"sort"
	"strconv"
	"strings"
	"time"
	"unsafe"

	quic "github.com/refraction-networking/uquic"
	u "github.com/refraction-networking/uquic/internal/verifutil"
)

func init() {
	units["framesorter"] = runFrameSorter
	genSources = append(genSources, quic.VerifFrameSorterConsts)
}

// c03Byte is the underlying byte string S of all C03 units: a fixed function of the
// absolute offset, so every push is "consistent" and delivered bytes are checkable.
func c03Byte(x int64) byte {
	return byte(((x%256)*37 + ((x/256)%256)*101 + 7) % 256)
}

func c03Slice(off, n int64) []byte {
	b := make([]byte, n)
	for i := range b {
		b[i] = c03Byte(off + int64(i))
	}
	return b
}

func c03Hash(b []byte) int64 {
	var h uint64 = 7
	for _, x := range b {
		h = (h*31 + uint64(x)) % 4294967296
	}
	return int64(h)
}

var c03CellSizes = []int64{1, 4, 43, 64, 127, 128, 129, 1000}

// fsOp: one operation of a frame sorter history.
type fsOp struct {
	kind   int // 0 push, 1 pop, 2 peek, 3 hasmore
	off, n int64
	nocb   bool
}

func (o fsOp) String() string {
	switch o.kind {
	case 0:
		return fmt.Sprintf("push[%d,+%d)%s", o.off, o.n, map[bool]string{true: "nocb", false: ""}[o.nocb])
	case 1:
		return "pop"
	case 2:
		return fmt.Sprintf("peek(%d,%d)", o.off, o.n)
	}
	return "hasmore"
}

func fsOpsString(ops []fsOp) string {
	s := make([]string, len(ops))
	for i, o := range ops {
		s[i] = o.String()
	}
	return strings.Join(s, " ")
}

// fsRun executes one history on a real frameSorter, with all monitors; returns the Coq
// term of the case (empty on panic) and whether it is non-trivial.
func fsRun(w *bufio.Writer, ops []fsOp, limit int64) (term string, nontrivial bool) {
	monfail := func(key, desc string) {
		fmt.Fprintf(w, "MONFAIL\tframesorter/%s\t%s\t%s\n", key, desc, fsOpsString(ops))
	}
	fs := quic.VerifNewFrameSorter()
	covered := make([]bool, limit+1) // reference: which bytes of S were pushed successfully
	var refRead int64                // reference read position
	type buf struct {
		b      []byte
		off    int64
		fired  int
		hasCb  bool
		failed bool
	}
	var bufs []*buf
	var firedNow []int64
	var items []string
	popsWithData, pushes := 0, 0
	aliasOf := func(d []byte) int {
		if len(d) == 0 {
			return -1
		}
		p := uintptr(unsafe.Pointer(&d[0]))
		for i, b := range bufs {
			if len(b.b) == 0 {
				continue
			}
			base := uintptr(unsafe.Pointer(&b.b[0]))
			if p >= base && p < base+uintptr(len(b.b)) {
				return i
			}
		}
		return -1
	}
	checkState := func() {
		aliased := map[int]bool{}
		ents := fs.Entries()
		for _, e := range ents {
			if i := aliasOf(e.Data); i >= 0 {
				aliased[i] = true
				if bufs[i].fired > 0 {
					monfail("alias", fmt.Sprintf("queue entry at %d aliases buffer %d whose callback already fired", e.Offset, i))
				}
				if !e.HasCb && bufs[i].hasCb {
					monfail("alias", fmt.Sprintf("queue entry at %d aliases buffer %d but carries no callback", e.Offset, i))
				}
			}
			for j := range e.Data {
				if e.Data[j] != c03Byte(e.Offset+int64(j)) {
					monfail("queued-bytes", fmt.Sprintf("queue entry at %d holds a wrong byte at +%d", e.Offset, j))
					break
				}
			}
		}
		for i, b := range bufs {
			if b.hasCb && b.fired == 0 && !b.failed && !aliased[i] {
				monfail("leak", fmt.Sprintf("buffer %d: callback not fired although no queue entry refers to it", i))
			}
		}
		// gap list == maximal uncovered intervals at or above the read position
		var want [][2]int64
		x := refRead
		for x <= limit {
			if x < limit && covered[x] {
				x++
				continue
			}
			y := x
			for y < limit && !covered[y] {
				y++
			}
			if y >= limit {
				want = append(want, [2]int64{x, -1})
				break
			}
			want = append(want, [2]int64{x, y})
			x = y
		}
		got := fs.Gaps()
		ok := len(got) == len(want)
		for i := 0; ok && i < len(got); i++ {
			if got[i][0] != want[i][0] || (want[i][1] >= 0 && got[i][1] != want[i][1]) {
				ok = false
			}
		}
		if !ok {
			monfail("gaps", fmt.Sprintf("gap list %v is not the set of missing intervals %v (-1 = MaxByteCount)", got, want))
		}
		hm := false
		for x := refRead; x < limit; x++ {
			if covered[x] {
				hm = true
				break
			}
		}
		if fs.HasMoreData() != hm {
			monfail("hasmore", fmt.Sprintf("HasMoreData = %v but reference says %v", fs.HasMoreData(), hm))
		}
	}
	panicked := false
	for idx, op := range ops {
		stop := false
		func() {
			defer func() {
				if r := recover(); r != nil {
					fmt.Fprintf(w, "MONFAIL\tframesorter/panic\tpanic: %v\t%s\n", r, fsOpsString(ops[:idx+1]))
					panicked = true
				}
			}()
			firedNow = firedNow[:0]
			switch op.kind {
			case 0:
				pushes++
				b := &buf{b: c03Slice(op.off, op.n), off: op.off, hasCb: !op.nocb}
				id := int64(len(bufs))
				bufs = append(bufs, b)
				var cb func()
				if !op.nocb {
					cb = func() {
						b.fired++
						if b.fired > 1 {
							monfail("cb-twice", fmt.Sprintf("callback of buffer %d fired %d times", id, b.fired))
						}
						firedNow = append(firedNow, id)
						for i := range b.b { // the buffer is recycled: scribble over it
							b.b[i] = 0xEE
						}
					}
				}
				err := fs.Push(b.b, op.off, cb)
				cls := int64(0)
				if err != nil {
					cls = 9
					if strings.Contains(err.Error(), "too many gaps") {
						cls = 1
					}
					b.failed = true
					stop = true
				} else {
					for x := op.off; x < op.off+op.n; x++ {
						if x >= refRead {
							covered[x] = true
						}
					}
				}
				cbid := id
				if op.nocb {
					cbid = -1
				}
				items = append(items, u.Pair(u.App("OPush", u.Z(op.off), u.Z(op.n), u.Z(cbid)),
					u.App("RPush", u.Z(cls), u.Z(int64(fs.GapCount())), u.ZList(firedNow))))
			case 1:
				off, d, cb := fs.Pop()
				if off != refRead {
					monfail("pop-offset", fmt.Sprintf("Pop returned offset %d, expected read position %d", off, refRead))
				}
				if (len(d) > 0) != covered[refRead] {
					monfail("pop-avail", fmt.Sprintf("Pop at %d returned %d bytes but byte pushed = %v", refRead, len(d), covered[refRead]))
				}
				for i := range d {
					if d[i] != c03Byte(off+int64(i)) {
						monfail("pop-bytes", fmt.Sprintf("Pop at %d: byte +%d is %#x, sent %#x", off, i, d[i], c03Byte(off+int64(i))))
						break
					}
					if !covered[off+int64(i)] {
						monfail("pop-bytes", fmt.Sprintf("Pop at %d delivered byte +%d that was never pushed", off, i))
						break
					}
				}
				h := c03Hash(d)
				n := int64(len(d))
				refRead += n
				if n > 0 {
					popsWithData++
				}
				if cb != nil {
					cb()
				}
				cbid := int64(-1)
				if len(firedNow) == 1 {
					cbid = firedNow[0]
				} else if len(firedNow) > 1 {
					monfail("pop-cb", "callback returned by Pop fired several ids")
				}
				if cbid >= 0 && aliasOf(d) != int(cbid) {
					monfail("pop-cb", fmt.Sprintf("Pop returned the callback of buffer %d with data that lives in buffer %d", cbid, aliasOf(d)))
				}
				if cbid < 0 && aliasOf(d) >= 0 && bufs[aliasOf(d)].hasCb {
					monfail("pop-cb", fmt.Sprintf("Pop returned data inside buffer %d without its callback", aliasOf(d)))
				}
				items = append(items, u.Pair("OPop", u.App("RPop", u.Z(off), u.Z(n), u.Z(h), u.Z(cbid))))
			case 2:
				p := make([]byte, op.n)
				err := fs.Peek(op.off, p)
				cls := int64(0)
				if err != nil {
					cls = 9
					if fs.PeekTooLittle(err) {
						cls = 1
					}
				}
				if err == nil {
					for i := range p {
						if p[i] != c03Byte(op.off+int64(i)) {
							monfail("peek-bytes", fmt.Sprintf("Peek(%d,%d): byte +%d differs from what was sent", op.off, op.n, i))
							break
						}
					}
				}
				if op.off == refRead {
					all := true
					for x := op.off; x < op.off+op.n; x++ {
						if x >= limit || !covered[x] {
							all = false
						}
					}
					if all != (err == nil) {
						monfail("peek-avail", fmt.Sprintf("Peek(%d,%d) at the read position: err=%v but all bytes pushed = %v", op.off, op.n, err, all))
					}
				}
				h := int64(0)
				if err == nil {
					h = c03Hash(p)
				}
				items = append(items, u.Pair(u.App("OPeek", u.Z(op.off), u.Z(op.n)), u.App("RPeek", u.Z(cls), u.Z(h))))
			case 3:
				items = append(items, u.Pair("OHasMore", u.App("RHasMore", u.B(fs.HasMoreData()))))
			}
			if !stop {
				checkState()
			}
		}()
		if panicked {
			return "", false
		}
		if stop {
			break
		}
	}
	return u.App("SorterCase", u.List(items)), popsWithData > 0 && pushes >= 2
}

// fsGen draws one random history over a random offset lattice.
func fsGen(r *u.Rng) ([]fsOp, int64, string) {
	ncells := r.Range(3, 9)
	bounds := []int64{0}
	small := r.Chance(1, 3) // one third of the lattices stays strictly below the copy threshold
	for i := 0; i < ncells; i++ {
		var sz int64
		if small {
			sz = c03CellSizes[r.Intn(4)]
		} else if r.Chance(1, 8) {
			sz = 1000
		} else {
			sz = c03CellSizes[r.Intn(7)]
		}
		bounds = append(bounds, bounds[len(bounds)-1]+sz)
	}
	total := bounds[ncells]
	nops := r.Range(2, 14)
	var ops []fsOp
	var pushed []fsOp
	var rd int64 // approximate read position (upper bound by pushed coverage is not tracked; fine)
	for i := 0; i < nops; i++ {
		k := r.Intn(100)
		switch {
		case k < 62:
			var op fsOp
			t := r.Intn(100)
			switch {
			case t < 68: // lattice interval
				a := r.Intn(ncells)
				b := r.Range(a+1, ncells)
				if r.Chance(1, 2) && b > a+1 {
					b = a + 1 + r.Intn(min(3, b-a))
				}
				op = fsOp{kind: 0, off: bounds[a], n: bounds[b] - bounds[a]}
			case t < 86: // off-lattice
				a := int64(r.Intn(int(total)))
				n := int64(r.Range(1, int(min(total-a, 300))))
				op = fsOp{kind: 0, off: a, n: n}
			case t < 90: // empty
				op = fsOp{kind: 0, off: bounds[r.Intn(ncells+1)], n: 0}
			default: // exact retransmission
				if len(pushed) > 0 {
					op = pushed[r.Intn(len(pushed))]
				} else {
					op = fsOp{kind: 0, off: 0, n: bounds[1]}
				}
			}
			op.nocb = r.Chance(1, 10)
			pushed = append(pushed, op)
			ops = append(ops, op)
		case k < 82:
			ops = append(ops, fsOp{kind: 1})
		case k < 93:
			var off int64
			t := r.Intn(10)
			switch {
			case t < 5:
				off = -1 // the read position, resolved at run time below
			case t < 9:
				off = bounds[r.Intn(ncells+1)]
			default:
				off = int64(r.Intn(int(total)))
			}
			var n int64
			switch r.Intn(4) {
			case 0:
				n = 0
			case 1:
				n = c03CellSizes[r.Intn(len(c03CellSizes))]
			case 2:
				n = int64(r.Range(1, int(total)))
			default:
				a := r.Intn(ncells)
				n = bounds[r.Range(a+1, ncells)] - bounds[a]
			}
			ops = append(ops, fsOp{kind: 2, off: off, n: n})
		default:
			ops = append(ops, fsOp{kind: 3})
		}
	}
	_ = rd
	return ops, total, fmt.Sprintf("cells=%d small=%v", ncells, small)
}

// fsResolvePeeks replaces "peek at the read position" markers by the actual read position,
// which is known only while running: done by a dry run on a second sorter.
func fsResolvePeeks(ops []fsOp) {
	fs := quic.VerifNewFrameSorter()
	defer func() { recover() }()
	for i := range ops {
		switch ops[i].kind {
		case 0:
			if fs.Push(c03Slice(ops[i].off, ops[i].n), ops[i].off, nil) != nil {
				return
			}
		case 1:
			fs.Pop()
		case 2:
			if ops[i].off < 0 {
				ops[i].off = fs.ReadPos()
			}
		}
	}
}

// c03Watchdog runs one case in its own goroutine with a real-time deadline: Peek / Pop / Read
// contain loops that a defect can turn into an endless spin (for ReceiveStream while holding the
// stream mutex). On expiry the case's op list is reported as MONFAIL <unit>/hang and the unit stops
// (the spinning goroutine cannot be killed); the cases emitted so far are still replayed.
func c03Watchdog(w *bufio.Writer, unit string, desc func() string, f func()) {
	limit := 5 * time.Second
	if ms, err := strconv.Atoi(os.Getenv("VERIF_HANG_MS")); err == nil && ms > 0 {
		limit = time.Duration(ms) * time.Millisecond
	}
	done := make(chan struct{})
	go func() {
		defer close(done)
		defer func() {
			if r := recover(); r != nil {
				fmt.Fprintf(w, "MONFAIL\t%s/panic\tpanic: %v\t%s\n", unit, r, desc())
			}
		}()
		f()
	}()
	select {
	case <-done:
	case <-time.After(limit):
		fmt.Fprintf(w, "MONFAIL\t%s/hang\ta call did not return within %v (endless loop in Peek/Pop/Read?)\t%s\n", unit, limit, desc())
		fmt.Fprintf(w, "INFO\t%s: unit stopped after a hang; remaining cases skipped\n", unit)
		w.Flush()
		os.Exit(0)
	}
}

func runFrameSorter(w *bufio.Writer, seed uint64, n int, _ []string) {
	r := u.NewRng(seed)
	dist := map[string]int{}
	emit := func(ops []fsOp, limit int64, bucket string) {
		fsResolvePeeks(ops)
		for i := range ops { // unresolved markers (after an error) peek at 0
			if ops[i].kind == 2 && ops[i].off < 0 {
				ops[i].off = 0
			}
		}
		var term string
		var nt bool
		c03Watchdog(w, "framesorter", func() string { return fsOpsString(ops) }, func() { term, nt = fsRun(w, ops, limit) })
		if term == "" {
			return
		}
		nti := 0
		if nt {
			nti = 1
		}
		fmt.Fprintf(w, "CASE %d %s\n", nti, term)
		dist[bucket]++
		dist[fmt.Sprintf("len%02d", len(ops)/4*4)]++
	}
	// (0) fixed table, on every seed: Peek from the read position across >= 4 separate queue entries
	// (equal and unequal sizes, complete / partial last entry / one byte too many), before and after a Pop
	for _, sizes := range [][]int64{{64, 64, 64, 64}, {1, 4, 43, 64, 127}, {129, 1, 128, 4, 1000}, {4, 4, 4, 4, 4, 4}} {
		var ops []fsOp
		bounds := []int64{0}
		for _, sz := range sizes {
			bounds = append(bounds, bounds[len(bounds)-1]+sz)
		}
		for i := len(sizes) - 1; i >= 0; i-- { // pushed back to front: the entries stay separate
			ops = append(ops, fsOp{kind: 0, off: bounds[i], n: sizes[i]})
		}
		total := bounds[len(sizes)]
		for k := 2; k <= len(sizes); k++ {
			ops = append(ops, fsOp{kind: 2, off: 0, n: bounds[k]})
		}
		ops = append(ops, fsOp{kind: 2, off: 0, n: total - 1}, fsOp{kind: 2, off: 0, n: total + 1})
		ops = append(ops, fsOp{kind: 1})
		ops = append(ops, fsOp{kind: 2, off: bounds[1], n: total - bounds[1]}, fsOp{kind: 2, off: bounds[1], n: bounds[len(sizes)-1] - bounds[1] + 1})
		emit(ops, total+1, "table-peek")
	}
	// (a) exhaustive: every sequence of <= L ops over a small lattice (all intervals + pop)
	exh := func(cells []int64, L int, bucket string) {
		bounds := []int64{0}
		for _, c := range cells {
			bounds = append(bounds, bounds[len(bounds)-1]+c)
		}
		var alphabet []fsOp
		for a := 0; a < len(cells); a++ {
			for b := a + 1; b <= len(cells); b++ {
				alphabet = append(alphabet, fsOp{kind: 0, off: bounds[a], n: bounds[b] - bounds[a]})
			}
		}
		alphabet = append(alphabet, fsOp{kind: 1})
		var rec func(prefix []fsOp)
		rec = func(prefix []fsOp) {
			if len(prefix) > 0 {
				emit(append([]fsOp{}, prefix...), bounds[len(cells)], bucket)
			}
			if len(prefix) == L {
				return
			}
			for _, o := range alphabet {
				rec(append(prefix, o))
			}
		}
		rec(nil)
	}
	if os.Getenv("VERIF_TIER") == "thorough" {
		exh([]int64{64, 1, 129, 43}, 4, "exhaustive4x4")
		exh([]int64{128, 127, 4}, 5, "exhaustive3x5")
	} else {
		exh([]int64{64, 129, 43}, 3, "exhaustive3x3")
	}
	// (b) random histories over random lattices
	for i := 0; i < n; i++ {
		cr := r.Fork()
		ops, total, _ := fsGen(cr)
		emit(ops, total, "random")
		if i < 2 {
			fmt.Fprintf(w, "SAMPLE\t%s\n", fsOpsString(ops))
		}
	}
	// (c) the gap limit: one-byte pushes at every other offset until the sorter refuses
	fsGapLimit(w, 2)
	fsGapLimit(w, 3)
	dist["gaplimit"] += 2
	keys := make([]string, 0, len(dist))
	for k := range dist {
		keys = append(keys, k)
	}
	sort.Strings(keys)
	for _, k := range keys {
		fmt.Fprintf(w, "DIST\t%s\t%d\n", k, dist[k])
	}
}

// fsGapLimit pushes 1-byte frames at offsets stride*i (i = 1, 2, ...) and reports the index
// of the first push that is refused, and the gap count then.
func fsGapLimit(w *bufio.Writer, stride int64) {
	defer func() {
		if r := recover(); r != nil {
			fmt.Fprintf(w, "MONFAIL\tframesorter/panic\tpanic: %v\tgaplimit stride %d\n", r, stride)
		}
	}()
	fs := quic.VerifNewFrameSorter()
	firstErr := int64(-1)
	var i int64
	for i = 1; i <= 1100; i++ {
		err := fs.Push([]byte{c03Byte(stride * i)}, stride*i, nil)
		if err != nil {
			firstErr = i
			break
		}
		if int64(fs.GapCount()) != i+1 {
			fmt.Fprintf(w, "MONFAIL\tframesorter/gaps\tgap count %d after %d isolated pushes\tgaplimit stride %d\n", fs.GapCount(), i, stride)
			return
		}
	}
	// the property: the sorter holds at most MaxStreamFrameSorterGaps gaps after a successful push
	if firstErr < 0 {
		fmt.Fprintf(w, "MONFAIL\tframesorter/gaplimit\tno error after 1100 isolated pushes (gaps=%d)\tgaplimit stride %d\n", fs.GapCount(), stride)
	}
	fmt.Fprintf(w, "CASE 1 %s\n", u.App("GapCase", u.Z(stride), u.Z(firstErr), u.Z(int64(fs.GapCount()))))
}
