//go:build verif

package main

// Unit `packdg` (property C01, claim (d) at the packet layer): the real
// packetPacker.composeNextPacket with a real framer, datagramQueue and retransmissionQueue.
// Generated op lists: SendDatagram payloads of all sizes (also larger than the packet), control
// frames / PATH_RESPONSE / RESET_STREAM (own handler) / STREAM data queued at the framer, compose
// with payload budgets 20..1400 with and without an ACK, loss or acknowledgement of a random packet
// in flight. Monitors (model-independent):
//   packdg/datagram-handler     a DATAGRAM frame in a packet carries a handler (it would be retransmitted when the packet is lost)
//   packdg/datagram-requeued    the retransmission queue holds a DATAGRAM frame
//   packdg/datagram-twice       the same application datagram was put into two packets
//   packdg/datagram-order       datagrams leave in another order than they were accepted
//   packdg/framer-datagram      the framer returned a DATAGRAM frame (model assumption wf_op)
//   packdg/wire-datagram-modified  the payload as serialised by appendPacketPayload (with its frame shuffle), parsed the way
//                               the peer parses it, does not contain each queued datagram byte-identical
//   packdg/wire-frame-lost      ... or does not contain every other frame the packer was given (ACK, control, STREAM)
//   packdg/wire-parse-error     ... or does not parse

import (
	"bufio"
	"fmt"
	"strings"

	quic "github.com/refraction-networking/uquic"
	u "github.com/refraction-networking/uquic/internal/verifutil"
)

func init() { units["packdg"] = runPackDg }

func packdgFrameTerm(f quic.VerifPackDgFrame) string {
	key := f.Key
	if f.Kind == 0 {
		key = ssSum(f.Data)
	}
	return u.Pair(u.Z(int64(f.Kind)), u.Z(key), u.Z(f.Len), u.Z(int64(f.H)))
}

func packdgFramesTerm(fs []quic.VerifPackDgFrame) string {
	var xs []string
	for _, f := range fs {
		xs = append(xs, packdgFrameTerm(f))
	}
	return u.List(xs)
}

func runPackDgCase(w *bufio.Writer, seed uint64, idx int, r *u.Rng) {
	var ops, desc []string
	failed := map[string]bool{}
	fail := func(key, d string) {
		if failed[key] {
			return
		}
		failed[key] = true
		fmt.Fprintf(w, "MONFAIL\t%s\t%s\tseed=%d case=%d ops=[%s]\n", key, d, seed, idx, strings.Join(desc, " "))
	}
	defer func() {
		if rec := recover(); rec != nil {
			fail("packdg/panic", fmt.Sprint(rec))
		}
	}()
	v := quic.VerifNewPackDg()
	v.SetShuffleSeed(seed*1000003 + uint64(idx))
	var flight []*quic.VerifPackDgPacket
	accepted := 0              // datagrams accepted by Add, numbered 0..; payload starts with the number
	sentCount := map[int]int{} // datagram number -> number of packets it was put into
	lastSent := -1
	nextVal := int64(100)
	nops := r.Range(6, 45)
	nontrivial := false
	for k := 0; k < nops; k++ {
		x := r.Intn(100)
		switch {
		case x < 22: // SendDatagram
			if v.SendQueueLen() >= 32 {
				continue
			}
			n := int(r.Pick(4, 10, 60, 200, 600, 1200, 1390, 1500))
			n += r.Intn(8)
			sd := int64(r.Intn(1 << 24))
			data := ssGenData(n, sd)
			if err := v.AddDatagram(data); err != nil {
				fail("packdg/add", err.Error())
			}
			accepted++
			ops = append(ops, u.Pair(u.App("PAdd", u.Z(int64(n)), u.Z(sd)), "[]"))
			desc = append(desc, fmt.Sprintf("SendDatagram(%d)", n))
		case x < 34:
			nextVal += int64(r.Range(1, 70000))
			v.QueueMaxData(nextVal)
			desc = append(desc, fmt.Sprintf("queue MAX_DATA(%d)", nextVal))
		case x < 38:
			nextVal++
			v.QueuePathResponse(nextVal)
			desc = append(desc, "queue PATH_RESPONSE")
		case x < 43:
			id := v.QueueStreamReset()
			desc = append(desc, fmt.Sprintf("queue RESET_STREAM(%d)", id))
		case x < 50:
			n := r.Range(1, 1000)
			v.QueueStreamData(n)
			desc = append(desc, fmt.Sprintf("queue STREAM data(%d)", n))
		case x < 82: // compose
			m := int64(r.Pick(20, 40, 130, 200, 700, 1200, 1252, 1400)) + int64(r.Intn(10))
			ackAllowed, withAck := r.Chance(3, 4), r.Chance(1, 2)
			pkt, hasData, fr, ackLen := v.Compose(m, ackAllowed, withAck)
			ack := "None"
			if withAck {
				// what the ack source returned (it is only asked when ackAllowed): its length after Truncate
				if ackLen >= 0 {
					ack = u.Opt(true, u.Z(ackLen))
				} else if ackAllowed {
					ack = u.Opt(true, u.Z(0))
				}
			}
			ops = append(ops, u.Pair(u.App("PCompose", u.Z(m), u.B(ackAllowed), ack, u.B(hasData), packdgFramesTerm(fr)), packdgFramesTerm(pkt.Frames)))
			desc = append(desc, fmt.Sprintf("compose(%d,ackAllowed=%v,ack=%v)", m, ackAllowed, withAck))
			flight = append(flight, pkt)
			for rep := 0; rep < 3; rep++ { // three draws of the frame shuffle
				if cls, d := v.WireCheck(pkt); cls != "" {
					fail("packdg/wire-"+cls, d)
				}
			}
			for _, f := range fr {
				if f.Kind == 0 {
					fail("packdg/framer-datagram", "framer.Append returned a DATAGRAM frame")
				}
				if f.Kind == 9 {
					fail("packdg/unknown-frame", "unexpected frame type from the framer")
				}
			}
			for _, f := range pkt.Frames {
				if f.Kind != 0 {
					continue
				}
				nontrivial = true
				if f.H != 0 {
					fail("packdg/datagram-handler", fmt.Sprintf("the DATAGRAM frame (%d bytes) in the packet carries handler class %d: it is retransmitted when the packet is declared lost", len(f.Data), f.H))
				}
				num := packdgNumber(f.Data)
				sentCount[num]++
				if sentCount[num] > 1 {
					fail("packdg/datagram-twice", fmt.Sprintf("application datagram #%d was put into %d packets", num, sentCount[num]))
				} else if num < lastSent {
					fail("packdg/datagram-order", fmt.Sprintf("datagram #%d leaves after #%d", num, lastSent))
				} else {
					lastSent = num
				}
			}
		case x < 92:
			if len(flight) == 0 {
				continue
			}
			i := r.Intn(len(flight))
			v.Lost(flight[i])
			flight = append(flight[:i:i], flight[i+1:]...)
			ops = append(ops, u.Pair(u.App("PLost", u.Z(int64(i))), "[]"))
			desc = append(desc, fmt.Sprintf("lost(#%d)", i))
			for _, f := range v.RetxQueue() {
				if f.Kind == 0 {
					fail("packdg/datagram-requeued", fmt.Sprintf("after the loss of a packet the retransmission queue holds a DATAGRAM frame (%d bytes)", len(f.Data)))
				}
			}
		default:
			if len(flight) == 0 {
				continue
			}
			i := r.Intn(len(flight))
			v.Acked(flight[i])
			flight = append(flight[:i:i], flight[i+1:]...)
			ops = append(ops, u.Pair(u.App("PAcked", u.Z(int64(i))), "[]"))
			desc = append(desc, fmt.Sprintf("acked(#%d)", i))
		}
	}
	_ = accepted
	var rq []string
	for _, f := range v.RetxQueue() {
		key := f.Key
		if f.Kind == 0 {
			key = ssSum(f.Data)
		}
		rq = append(rq, u.Pair(u.Z(int64(f.Kind)), u.Z(key), u.Z(f.Len)))
	}
	fmt.Fprintf(w, "CASE %d (PKCase %s %s %d)\n", b2i(nontrivial), u.List(ops), u.List(rq), v.SendQueueLen())
	if idx < 1 {
		fmt.Fprintf(w, "SAMPLE\tops=[%s]\n", strings.Join(desc, " "))
	}
}

// datagram payloads are made unique per case by their generator seed; the harness numbers them by
// first appearance of their content
var packdgSeen map[string]int

func packdgNumber(d []byte) int {
	if n, ok := packdgSeen[string(d)]; ok {
		return n
	}
	n := len(packdgSeen)
	packdgSeen[string(d)] = n
	return n
}

func runPackDg(w *bufio.Writer, seed uint64, n int, _ []string) {
	r := u.NewRng(seed ^ 0x9ac4d6)
	for i := 0; i < n; i++ {
		packdgSeen = map[string]int{}
		runPackDgCase(w, seed, i, r.Fork())
	}
	fmt.Fprintf(w, "DIST\tcases\t%d\n", n)
}
