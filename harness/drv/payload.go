//go:build verif

package main

import (
	"bufio"
	"fmt"

	quic "github.com/refraction-networking/uquic"
	"github.com/refraction-networking/uquic/internal/protocol"
	u "github.com/refraction-networking/uquic/internal/verifutil"
	"github.com/refraction-networking/uquic/internal/wire"
)

func init() { units["payload"] = runC08Payload }

// ---------------------------------------------------------------------------------------
// payload unit (C08): whole packet payloads through the REAL Conn.handleFrames of a real
// connection object (client / server, with / without a tracer): which frames are parsed, which
// handled, what the tracer is given, which error wins.  Model: coq/Wire/Payload.v.
// The handler outcome of each frame is an oracle chosen by construction: frames that a fresh
// connection always handles without error ("good"), frames whose handler always fails ("bad":
// ACK of a packet never sent; on the server HANDSHAKE_DONE and NEW_TOKEN), byte runs that do not
// parse (truncated, unknown type, extension not negotiated, type not allowed at the level).
// Monitors: payload/panic, payload/tracer-count, payload/flags.
// ---------------------------------------------------------------------------------------

type c08Item struct {
	b       []byte
	frames  int  // frames this item parses to (0 for padding / garbage)
	bad     bool // its handler fails
	garbage bool // does not parse
	final   bool // does not parse only when nothing follows (truncation)
	ae, np  bool // ack-eliciting / non-probing (of a parsed frame)
}

func c08enc(f wire.Frame) []byte {
	b, err := f.Append(nil, protocol.Version1)
	if err != nil {
		panic(err)
	}
	return b
}

func c08Items(r *u.Rng, client bool, lvl protocol.EncryptionLevel) (good, bad, garbage []c08Item) {
	ping := c08Item{b: []byte{0x01}, frames: 1, ae: true, np: true}
	ackUnsent := c08Item{b: c08enc(&wire.AckFrame{AckRanges: []wire.AckRange{{Smallest: 900, Largest: 1000 + protocol.PacketNumber(r.Intn(50))}}}), frames: 1, bad: true, ae: false, np: true}
	if lvl != protocol.Encryption1RTT {
		good = []c08Item{ping}
		bad = []c08Item{ackUnsent}
		garbage = []c08Item{
			{b: c08enc(&wire.MaxDataFrame{MaximumData: 5}), garbage: true},                                                   // not allowed at this level
			{b: c08enc(&wire.StreamFrame{StreamID: 0, Data: []byte("x"), DataLenPresent: true}), garbage: true},              // not allowed
			{b: []byte{0x06, 0x40}, garbage: true, final: true},                                                                           // truncated CRYPTO
			{b: []byte{0x02, 0x05, 0x00, 0x00, 0x09}, garbage: true},                                                         // ACK: first range longer than largest
			{b: []byte{0x21}, garbage: true},                                                                                 // unknown type
		}
		return
	}
	peerBidi := protocol.StreamID(0) // client-initiated, seen by a server
	if client {
		peerBidi = 1
	}
	good = []c08Item{
		ping,
		{b: c08enc(&wire.MaxDataFrame{MaximumData: protocol.ByteCount(1<<20 + r.Intn(1000))}), frames: 1, ae: true, np: true},
		{b: c08enc(&wire.DataBlockedFrame{MaximumData: protocol.ByteCount(r.Intn(1 << 20))}), frames: 1, ae: true, np: true},
		{b: c08enc(&wire.StreamsBlockedFrame{Type: protocol.StreamTypeBidi, StreamLimit: protocol.StreamNum(r.Intn(50))}), frames: 1, ae: true, np: true},
		{b: c08enc(&wire.MaxStreamsFrame{Type: protocol.StreamTypeUni, MaxStreamNum: protocol.StreamNum(1 + r.Intn(50))}), frames: 1, ae: true, np: true},
		{b: c08enc(&wire.PathChallengeFrame{Data: [8]byte{1, 2, 3, 4, 5, 6, 7, byte(r.Intn(256))}}), frames: 1, ae: true, np: false},
		{b: c08enc(&wire.StreamFrame{StreamID: peerBidi + 4*protocol.StreamID(r.Intn(3)), Data: []byte("hi"), DataLenPresent: true}), frames: 1, ae: true, np: true},
		{b: append(c08enc(&wire.MaxDataFrame{MaximumData: 7}), c08enc(&wire.DataBlockedFrame{MaximumData: 9})...), frames: 2, ae: true, np: true},
	}
	bad = []c08Item{ackUnsent}
	if !client {
		bad = append(bad,
			c08Item{b: []byte{0x1e}, frames: 1, bad: true, ae: true, np: true},                                     // HANDSHAKE_DONE received by a server
			c08Item{b: c08enc(&wire.NewTokenFrame{Token: []byte{1, 2, 3}}), frames: 1, bad: true, ae: true, np: true}, // NEW_TOKEN received by a server
		)
	}
	garbage = []c08Item{
		{b: []byte{0x21, 0x00}, garbage: true},                                     // unknown type
		{b: []byte{0x10, 0x40}, garbage: true, final: true},                        // truncated MAX_DATA
		{b: []byte{0x31, 0x01, 0xaa}, garbage: true},                               // DATAGRAM, not negotiated
		{b: []byte{0x24, 0x04, 0x01, 0x05, 0x01}, garbage: true},                   // RESET_STREAM_AT, not negotiated
		{b: []byte{0x12, 0xd0, 0, 0, 0, 0, 0, 0, 1}, garbage: true},                // MAX_STREAMS 2^60+1
		{b: []byte{0x18, 0x01, 0x02, 0x04, 1, 2, 3, 4}, garbage: true},             // NEW_CONNECTION_ID retire prior to > seq
		{b: []byte{0x0a, 0x00, 0x05, 0x01}, garbage: true, final: true},                         // STREAM with a length beyond the payload
		{b: []byte{0x40}, garbage: true, final: true},                                           // truncated type varint
	}
	return
}

func runC08Payload(w *bufio.Writer, seed uint64, n int, _ []string) {
	r := u.NewRng(seed)
	dist := map[string]int{}
	emit := func(client, tracer bool, lvl protocol.EncryptionLevel, items []c08Item, bucket string) {
		var payload []byte
		var fails []string
		idx, wantFrames := 0, 0
		expAE, expNP, sawGarbage, sawBad := false, false, false, false
		for _, it := range items {
			payload = append(payload, it.b...)
			if it.garbage {
				sawGarbage = true
			}
			if sawGarbage {
				continue
			}
			for k := 0; k < it.frames; k++ {
				if it.bad {
					fails = append(fails, fmt.Sprint(idx))
					sawBad = true
				}
				idx++
			}
			wantFrames += it.frames
			if it.frames > 0 {
				expAE = expAE || it.ae
				expNP = expNP || it.np
			}
		}
		v, err := quic.NewVerifC08Conn(client, tracer)
		if err != nil {
			fmt.Fprintf(w, "MONFAIL\tpayload/panic\tcannot build a connection: %v\t\n", err)
			return
		}
		defer v.Shutdown()
		ae, np, logged, herr, panicked := v.HandleFrames(lvl, append([]byte{}, payload...))
		detail := fmt.Sprintf("client=%v tracer=%v lvl=%d payload=%x", client, tracer, lvl, payload)
		if panicked != "" {
			fmt.Fprintf(w, "MONFAIL\tpayload/panic\thandleFrames panicked: %s\t%s\n", panicked, detail)
			return
		}
		kind, cls := 0, 0
		if herr != nil {
			cls = wire.VerifErrClass(herr)
			kind = 1
			if cls == 99 { // not a frame parser error: a handler's error
				kind, cls = 2, 0
			}
		}
		// monitors (independent of the model)
		if herr == nil {
			if tracer && logged != wantFrames {
				fmt.Fprintf(w, "MONFAIL\tpayload/tracer-count\tthe tracer was given %d of the %d frames of an accepted payload\t%s\n", logged, wantFrames, detail)
			}
			if !tracer && logged != -1 {
				fmt.Fprintf(w, "MONFAIL\tpayload/tracer-count\ttracer callback called without a tracer\t%s\n", detail)
			}
			if ae != expAE || np != expNP {
				fmt.Fprintf(w, "MONFAIL\tpayload/flags\tisAckEliciting/isNonProbing = %v/%v, the frames say %v/%v\t%s\n", ae, np, expAE, expNP, detail)
			}
			if sawGarbage || sawBad {
				fmt.Fprintf(w, "MONFAIL\tpayload/accepted\ta payload with an unparsable or unhandleable frame was accepted\t%s\n", detail)
			}
		} else if ae || np {
			fmt.Fprintf(w, "MONFAIL\tpayload/flags\tflags set although an error is returned\t%s\n", detail)
		}
		dist["payload:"+bucket]++
		dist[fmt.Sprintf("outcome:%d", kind)]++
		fmt.Fprintf(w, "CASE 1 (HFCase %s %s %d %s %s %d %d %s %s %s)\n", u.B(client), u.B(tracer), lvl, u.Hex(payload), u.List(fails), kind, cls, u.Z(int64(logged)), u.B(ae), u.B(np))
	}
	pad := func(k int) c08Item { return c08Item{b: make([]byte, k)} }
	lvls := []protocol.EncryptionLevel{protocol.Encryption1RTT, protocol.Encryption1RTT, protocol.Encryption1RTT, protocol.EncryptionInitial, protocol.EncryptionHandshake}
	// table cases: every combination of (perspective, tracer, level) x the shapes that decide which error wins
	for _, client := range []bool{false, true} {
		for _, tracer := range []bool{false, true} {
			for _, lvl := range []protocol.EncryptionLevel{protocol.Encryption1RTT, protocol.EncryptionInitial, protocol.EncryptionHandshake} {
				good, bad, garbage := c08Items(r, client, lvl)
				g0, g1 := good[0], good[len(good)-1]
				emit(client, tracer, lvl, nil, "empty")
				emit(client, tracer, lvl, []c08Item{pad(5)}, "only-padding")
				emit(client, tracer, lvl, []c08Item{g0, pad(2), g1, pad(3)}, "good")
				emit(client, tracer, lvl, []c08Item{g0, bad[0], g1}, "good-bad-good")
				emit(client, tracer, lvl, []c08Item{g0, bad[len(bad)-1], garbage[0]}, "good-bad-garbage") // with a tracer the parse error wins
				emit(client, tracer, lvl, []c08Item{g0, garbage[0], bad[0]}, "good-garbage-bad")
				emit(client, tracer, lvl, []c08Item{bad[0], bad[len(bad)-1], g1}, "bad-bad-good")
				for _, gb := range garbage {
					emit(client, tracer, lvl, []c08Item{g1, pad(1), gb}, "good-garbage")
				}
				for _, gd := range good {
					emit(client, tracer, lvl, []c08Item{gd}, "single")
				}
			}
		}
	}
	for i := 0; i < n; i++ {
		client, tracer, lvl := r.Bool(), r.Bool(), lvls[r.Intn(len(lvls))]
		good, bad, garbage := c08Items(r, client, lvl)
		var items []c08Item
		for k := r.Range(1, 7); k > 0; k-- {
			switch x := r.Intn(10); {
			case x < 5:
				items = append(items, good[r.Intn(len(good))])
			case x < 7:
				items = append(items, pad(r.Range(1, 4)))
			case x < 9:
				items = append(items, bad[r.Intn(len(bad))])
			default:
				gb := garbage[r.Intn(len(garbage))]
				items = append(items, gb)
				if gb.final {
					k = 1
				}
			}
		}
		emit(client, tracer, lvl, items, "random")
	}
	for _, k := range sortedKeysC08(dist) {
		fmt.Fprintf(w, "DIST\t%s\t%d\n", k, dist[k])
	}
}

func sortedKeysC08(m map[string]int) []string {
	ks := make([]string, 0, len(m))
	for k := range m {
		ks = append(ks, k)
	}
	for i := range ks {
		for j := i + 1; j < len(ks); j++ {
			if ks[j] < ks[i] {
				ks[i], ks[j] = ks[j], ks[i]
			}
		}
	}
	return ks
}
