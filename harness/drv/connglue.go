//go:build verif

package main

import (
	"bufio"
	"fmt"
	"sort"
	"strings"

	quic "github.com/refraction-networking/uquic"
	u "github.com/refraction-networking/uquic/internal/verifutil"
)

func init() { units["connglue"] = runConnGlue }

// connglue (property C04): the connection's glue in front of the send-side flow controllers, on a
// real constructed-but-not-run Conn (harness/quic/c04_connglue.go): which of the peer's transport
// parameters becomes the initial send window of a new stream (Conn.newFlowController, both
// perspectives, all stream classes, 0-RTT remembered parameters then 1-RTT parameters, 0-RTT
// rejection), MAX_STREAM_DATA / MAX_DATA through Conn.handleFrame, and what the real framer then
// hands to the packer.
//
// CASE term: CG client [ops] [rets]; the model (coq/FlowCtl/ConnGlue.v) replays the ops.
//
// MONITORS (model-independent; from RFC 9000 section 18.2 and the frames only): for every stream, the
// highest offset put into a STREAM frame never exceeds the largest limit the peer advertised FOR
// THAT CLASS of stream (we opened it: initial_max_stream_data_bidi_remote / _uni; the peer opened it:
// initial_max_stream_data_bidi_local; later MAX_STREAM_DATA); a stream that still has data stops
// exactly AT that limit and reports STREAM_DATA_BLOCKED with that value exactly once; the sum over
// the streams never exceeds the largest initial_max_data / MAX_DATA.

type cgParams struct{ bl, br, uni, md int64 }

type cgStream struct {
	kind    int // 0 bidi opened by us, 1 uni opened by us, 2 bidi opened by the peer
	limit   int64
	sent    int64
	pending int64
	blocked map[int64]int
}

type cgCase struct {
	w        *bufio.Writer
	client   bool
	v        *quic.VerifC04Conn
	ops      []string
	rets     []string
	human    []string
	streams  []*cgStream
	pp       *cgParams // the peer's transport parameters the connection holds
	applied  bool      // stream limits are in force (restore / apply)
	complete bool
	cLimit   int64
	dblocked map[int64]int
	fails    map[string]bool
	dead     bool
}

func (c *cgCase) fail(key, desc string) {
	if c.fails[key] {
		return
	}
	c.fails[key] = true
	fmt.Fprintf(c.w, "MONFAIL\t%s\t%s\t%s\n", key, desc, strings.Join(c.human, " ; "))
}

func (c *cgCase) emit(op string, ret []int64, h string) {
	c.ops = append(c.ops, op)
	c.rets = append(c.rets, u.ZList(ret))
	c.human = append(c.human, fmt.Sprintf("%s=>%v", h, ret))
}

func cgErr(err error) int64 {
	if err != nil {
		return 1
	}
	return 0
}

func cgClassLimit(kind int, p *cgParams) int64 {
	switch kind {
	case 0:
		return p.br // we opened it: for the peer it is a "remote" stream
	case 1:
		return p.uni
	default:
		return p.bl // the peer opened it: for the peer it is a "local" stream
	}
}

var cgKindName = []string{"bidi-opened-by-us", "uni-opened-by-us", "bidi-opened-by-peer"}

func (c *cgCase) raiseAll(p *cgParams) {
	// a new set of transport parameters can only raise what the peer allows; for the monitor every
	// stream of a class may use the class limit of every parameter set the peer sent
	for _, s := range c.streams {
		s.limit = max(s.limit, cgClassLimit(s.kind, p))
	}
	c.cLimit = max(c.cLimit, p.md)
}

func (c *cgCase) restore(p cgParams) {
	err := c.v.Restore(p.bl, p.br, p.uni, p.md)
	c.emit(u.App("KRestore", u.Z(p.bl), u.Z(p.br), u.Z(p.uni), u.Z(p.md)), []int64{cgErr(err)}, fmt.Sprintf("restoreTransportParameters(bidi_local=%d,bidi_remote=%d,uni=%d,max_data=%d)", p.bl, p.br, p.uni, p.md))
	c.pp, c.applied = &p, true
	c.raiseAll(&p)
}

func (c *cgCase) params(p cgParams) {
	err := c.v.Params(p.bl, p.br, p.uni, p.md)
	c.emit(u.App("KParams", u.Z(p.bl), u.Z(p.br), u.Z(p.uni), u.Z(p.md)), []int64{cgErr(err)}, fmt.Sprintf("handleTransportParameters(bidi_local=%d,bidi_remote=%d,uni=%d,max_data=%d)", p.bl, p.br, p.uni, p.md))
	if err != nil {
		c.dead = true
		return
	}
	c.pp = &p
	if !c.client {
		c.applied, c.complete = true, true
		c.raiseAll(&p)
	}
}

func (c *cgCase) completeOp() {
	err := c.v.Complete()
	c.emit("KComplete", []int64{cgErr(err)}, "handshake complete (applyTransportParameters)")
	if err != nil {
		c.dead = true
		return
	}
	c.applied, c.complete = true, true
	c.raiseAll(c.pp)
}

func (c *cgCase) reject() {
	err := c.v.Reject0RTT()
	c.emit("KReject", []int64{cgErr(err)}, "0-RTT rejected (dropEncryptionLevel)")
	c.streams, c.applied, c.cLimit = nil, false, 0
	c.dblocked = map[int64]int{}
	if err != nil {
		c.dead = true
	}
}

func (c *cgCase) open(kind int) {
	id, err := c.v.Open(kind)
	ok := int64(1)
	if err != nil {
		ok, id = 0, -1
	}
	h := fmt.Sprintf("open %s", cgKindName[kind])
	if err != nil {
		h += fmt.Sprintf(" [%v]", err)
	}
	c.emit(u.App("KOpen", u.Z(int64(kind))), []int64{ok, id}, h)
	if err == nil {
		c.streams = append(c.streams, &cgStream{kind: kind, limit: cgClassLimit(kind, c.pp), blocked: map[int64]int{}})
	}
}

func (c *cgCase) write(i int, n int64) {
	k, err := c.v.Write(i, int(n))
	c.emit(u.App("KWrite", u.Z(int64(i)), u.Z(n)), []int64{int64(k)}, fmt.Sprintf("s%d.Write(%d)", i, n))
	if err == nil {
		c.streams[i].pending += int64(k)
	}
}

func (c *cgCase) maxStreamData(i int, v int64) {
	err := c.v.MaxStreamData(i, v)
	c.emit(u.App("KMaxStreamData", u.Z(int64(i)), u.Z(v)), []int64{cgErr(err)}, fmt.Sprintf("MAX_STREAM_DATA(s%d,%d)", i, v))
	c.streams[i].limit = max(c.streams[i].limit, v)
}

func (c *cgCase) maxData(v int64) {
	err := c.v.MaxData(v)
	c.emit(u.App("KMaxData", u.Z(v)), []int64{cgErr(err)}, fmt.Sprintf("MAX_DATA(%d)", v))
	c.cLimit = max(c.cLimit, v)
}

func (c *cgCase) sumSent() (t int64) {
	for _, s := range c.streams {
		t += s.sent
	}
	return
}

// ambiguous: more than one stream could send and the connection limit does not cover all of them —
// then who gets the connection credit depends on the framer's round robin, which is not modelled.
func (c *cgCase) ambiguous() bool {
	n, sum := 0, int64(0)
	for _, s := range c.streams {
		if a := min(s.pending, s.limit-s.sent); a > 0 {
			n++
			sum += a
		}
	}
	return n > 1 && sum > c.cLimit-c.sumSent()
}

func (c *cgCase) drain() {
	d, err := c.v.Drain()
	if err != nil {
		c.fail("connglue/panic", err.Error())
		c.dead = true
		return
	}
	ret := []int64{int64(len(d.End))}
	ret = append(ret, d.End...)
	sb := append([][2]int64{}, d.StreamBlocked...)
	sort.Slice(sb, func(a, b int) bool { return sb[a][0] < sb[b][0] || sb[a][0] == sb[b][0] && sb[a][1] < sb[b][1] })
	ret = append(ret, int64(len(sb)))
	for _, x := range sb {
		ret = append(ret, x[0], x[1])
	}
	ret = append(ret, int64(len(d.DataBlocked)))
	ret = append(ret, d.DataBlocked...)
	connBound := false
	c.emit("KDrain", ret, "framer.Append until empty")
	for i, s := range c.streams {
		if i < len(d.End) && d.End[i] >= 0 {
			if d.End[i] > s.sent {
				s.pending -= d.End[i] - s.sent
				s.sent = d.End[i]
			}
		}
		if s.sent > s.limit {
			c.fail("connglue/send/beyond-peer-limit/"+cgKindName[s.kind],
				fmt.Sprintf("stream %d (%s): offset %d was put on the wire, the largest limit the peer advertised for this class of stream is %d", i, cgKindName[s.kind], s.sent, s.limit))
		}
	}
	if t := c.sumSent(); t > c.cLimit {
		c.fail("connglue/send/beyond-peer-max-data", fmt.Sprintf("%d bytes on all streams, the largest initial_max_data / MAX_DATA is %d", t, c.cLimit))
	} else if t == c.cLimit {
		connBound = true
	}
	for _, x := range d.StreamBlocked {
		i, val := int(x[0]), x[1]
		if i < 0 || i >= len(c.streams) {
			continue
		}
		s := c.streams[i]
		s.blocked[val]++
		if s.blocked[val] > 1 {
			c.fail("connglue/send/stream-data-blocked-twice", fmt.Sprintf("stream %d: STREAM_DATA_BLOCKED(%d) %d times", i, val, s.blocked[val]))
		}
		if val != s.limit {
			c.fail("connglue/send/stream-data-blocked-value/"+cgKindName[s.kind],
				fmt.Sprintf("stream %d (%s): STREAM_DATA_BLOCKED(%d), the peer's limit for this class of stream is %d", i, cgKindName[s.kind], val, s.limit))
		}
	}
	for _, val := range d.DataBlocked {
		c.dblocked[val]++
		if c.dblocked[val] > 1 {
			c.fail("connglue/send/data-blocked-twice", fmt.Sprintf("DATA_BLOCKED(%d) %d times", val, c.dblocked[val]))
		}
		if val != c.cLimit {
			c.fail("connglue/send/data-blocked-value", fmt.Sprintf("DATA_BLOCKED(%d), the connection limit is %d", val, c.cLimit))
		}
	}
	if !connBound {
		for i, s := range c.streams {
			if s.pending > 0 && s.sent < s.limit {
				c.fail("connglue/send/stalled-below-peer-limit/"+cgKindName[s.kind],
					fmt.Sprintf("stream %d (%s) has %d more bytes to send and stopped at offset %d although the peer allows %d", i, cgKindName[s.kind], s.pending, s.sent, s.limit))
			}
			if s.pending > 0 && s.sent == s.limit && s.limit > 0 && s.blocked[s.limit] == 0 {
				c.fail("connglue/send/stream-data-blocked-missing", fmt.Sprintf("stream %d is blocked at its limit %d and no STREAM_DATA_BLOCKED(%d) was produced", i, s.limit, s.limit))
			}
		}
	}
}

func runConnGlueCase(w *bufio.Writer, r *u.Rng, script int, dist map[string]int) {
	client := r.Bool()
	if script >= 0 {
		client = script%2 == 0
	}
	c := &cgCase{w: w, client: client, fails: map[string]bool{}, dblocked: map[int64]int{}}
	defer func() {
		if e := recover(); e != nil {
			fmt.Fprintf(w, "MONFAIL\tconnglue/panic\tpanic: %v\t%s\n", e, strings.Join(c.human, " ; "))
		}
	}()
	v, err := quic.NewVerifC04Conn(client)
	if err != nil {
		fmt.Fprintf(w, "MONFAIL\tconnglue/panic\tconstructing the connection: %v\t\n", err)
		return
	}
	c.v = v
	defer v.Shutdown()
	distinct := func() cgParams {
		// distinct values for the three stream classes, as non-Go stacks and browsers advertise them
		vals := []int64{0, 7, 20, 45, 100, 260, 700}
		p := cgParams{}
		for {
			p.bl, p.br, p.uni = vals[r.Intn(len(vals))], vals[r.Intn(len(vals))], vals[r.Intn(len(vals))]
			if p.bl != p.br && p.br != p.uni && p.bl != p.uni {
				break
			}
		}
		p.md = []int64{0, 50, 400, 5000, 5000, 5000}[r.Intn(6)]
		return p
	}
	raise := func(p cgParams) cgParams {
		q := p
		if r.Bool() {
			q.bl += int64(r.Range(0, 90))
		}
		if r.Bool() {
			q.br += int64(r.Range(0, 90))
		}
		if r.Bool() {
			q.uni += int64(r.Range(0, 90))
		}
		if r.Bool() {
			q.md += int64(r.Range(0, 500))
		}
		return q
	}
	openAll := func() {
		for _, k := range []int{0, 1, 2} {
			if k == 2 && !c.complete {
				continue // the peer can only open streams once the handshake is through
			}
			c.open(k)
		}
	}
	writeAll := func(n int64) {
		for i := range c.streams {
			c.write(i, n)
		}
	}
	safeDrain := func() {
		if c.ambiguous() {
			c.maxData(c.sumSent() + 4000)
		}
		c.drain()
	}
	switch {
	case script == 0 || script == 1: // 1-RTT, every class, far more data than the limits
		p := cgParams{bl: 100, br: 30, uni: 60, md: 5000}
		c.params(p)
		if client {
			c.completeOp()
		}
		openAll()
		writeAll(300)
		safeDrain()
		for i := range c.streams {
			c.maxStreamData(i, 150+int64(i))
		}
		safeDrain()
		safeDrain()
	case script == 2: // client, 0-RTT with remembered parameters, then the handshake's (raised) parameters
		p := cgParams{bl: 260, br: 20, uni: 45, md: 700}
		c.restore(p)
		openAll()
		writeAll(400)
		safeDrain()
		c.params(cgParams{bl: 300, br: 35, uni: 45, md: 900})
		openAll()
		c.completeOp()
		safeDrain()
		openAll()
		writeAll(100)
		safeDrain()
	case script == 3: // server with a peer whose bidi_local is the small one
		c.params(cgParams{bl: 7, br: 700, uni: 100, md: 5000})
		openAll()
		writeAll(200)
		safeDrain()
	case script == 4: // client, 0-RTT rejected: everything starts over with the new parameters
		c.restore(cgParams{bl: 100, br: 45, uni: 20, md: 400})
		openAll()
		writeAll(60)
		safeDrain()
		c.reject()
		c.params(cgParams{bl: 20, br: 7, uni: 100, md: 260})
		c.completeOp()
		openAll()
		writeAll(120)
		safeDrain()
	case script == 5: // server, connection limit in the way of a single stream
		c.params(cgParams{bl: 700, br: 260, uni: 100, md: 50})
		c.open(0)
		c.write(0, 300)
		c.drain()
		c.drain()
		c.maxData(50)
		c.drain()
		c.maxData(120)
		c.drain()
	default:
		p := distinct()
		if client && r.Chance(1, 2) {
			c.restore(p)
			for k := r.Range(0, 3); k > 0; k-- {
				c.open(r.Intn(2))
			}
			if len(c.streams) > 0 {
				writeAll(int64(r.Range(1, 300)))
				safeDrain()
			}
			if r.Chance(1, 4) {
				c.reject()
				p = distinct()
			} else {
				p = raise(p)
			}
		}
		c.params(p)
		if client && !c.dead {
			if r.Chance(1, 3) && c.applied {
				c.open(r.Intn(2)) // between the arrival of the parameters and the end of the handshake
			}
			c.completeOp()
		}
		for n := r.Range(4, 14); n > 0 && !c.dead; n-- {
			switch k := r.Intn(10); {
			case k < 3 && len(c.streams) < 6:
				c.open(r.Intn(3))
			case k < 6 && len(c.streams) > 0:
				i := r.Intn(len(c.streams))
				if s := c.streams[i]; s.pending < 900 {
					c.write(i, int64(r.Range(1, 350)))
				}
			case k < 7 && len(c.streams) > 0:
				i := r.Intn(len(c.streams))
				s := c.streams[i]
				c.maxStreamData(i, max(s.limit+int64(r.Range(-10, 120)), 0))
			case k < 8:
				c.maxData(max(c.cLimit+int64(r.Range(-20, 600)), 0))
			default:
				safeDrain()
			}
		}
		if !c.dead {
			safeDrain()
		}
	}
	for _, s := range c.streams {
		dist["stream:"+cgKindName[s.kind]]++
	}
	persp := "server"
	if client {
		persp = "client"
	}
	dist["perspective:"+persp]++
	for _, o := range c.ops {
		dist["op:"+strings.Fields(strings.Trim(o, "()"))[0]]++
	}
	nt := 0
	if len(c.ops) >= 5 {
		nt = 1
	}
	fmt.Fprintf(w, "CASE %d %s\n", nt, u.App("CG", u.B(client), u.List(c.ops), u.List(c.rets)))
	if script >= 0 && script < 2 {
		fmt.Fprintf(w, "SAMPLE\t[%s] %s\n", persp, strings.Join(c.human, " ; "))
	}
}

func runConnGlue(w *bufio.Writer, seed uint64, n int, _ []string) {
	r := u.NewRng(u.NewRng(seed).U64() ^ 0xC04C6)
	dist := map[string]int{}
	for s := 0; s < 6; s++ { // fixed table cases: detection does not depend on luck
		runConnGlueCase(w, r.Fork(), s, dist)
	}
	for i := 0; i < n; i++ {
		runConnGlueCase(w, r.Fork(), -1, dist)
	}
	keys := make([]string, 0, len(dist))
	for k := range dist {
		keys = append(keys, k)
	}
	sort.Strings(keys)
	for _, k := range keys {
		fmt.Fprintf(w, "DIST\t%s\t%d\n", k, dist[k])
	}
}
