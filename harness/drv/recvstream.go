//go:build verif

package main

import (
	"bufio"
	"fmt"
	"os"
	"runtime"
	"runtime/debug"
	"sort"
	"strings"
	"testing/synctest"
	"unsafe"

	quic "github.com/refraction-networking/uquic"
	"github.com/refraction-networking/uquic/internal/protocol"
	u "github.com/refraction-networking/uquic/internal/verifutil"
	"github.com/refraction-networking/uquic/internal/wire"
)

func init() {
	units["recvstream"] = runRecvStream
	units["cryptostream"] = runCryptoStream
}

// ---------------------------------------------------------------------------------------
// recvstream: a real ReceiveStream under histories of STREAM frames (consistent data,
// FIN consistent or not), RESET_STREAM(_AT), Read, Peek, CancelRead, closeForShutdown.

type rsOp struct {
	kind       int // 0 frame, 1 reset, 2 read, 3 peek, 4 cancel, 5 shutdown
	off, n     int64
	fin        bool
	final, rel int64
	code       int64
}

func (o rsOp) String() string {
	switch o.kind {
	case 0:
		f := ""
		if o.fin {
			f = "fin"
		}
		return fmt.Sprintf("frame[%d,+%d)%s", o.off, o.n, f)
	case 1:
		return fmt.Sprintf("reset(final=%d,reliable=%d,code=%d)", o.final, o.rel, o.code)
	case 2:
		return fmt.Sprintf("read(%d)", o.n)
	case 3:
		return fmt.Sprintf("peek(%d)", o.n)
	case 4:
		return fmt.Sprintf("cancel(%d)", o.code)
	case 6:
		return fmt.Sprintf("frame-straddling-readpos(-%d,+%d)", o.off, o.n)
	}
	return "shutdown"
}

func rsOpsString(ops []rsOp) string {
	s := make([]string, len(ops))
	for i, o := range ops {
		s[i] = o.String()
	}
	return strings.Join(s, " ")
}

func c03Bubble(f func()) (err error) {
	defer func() {
		if r := recover(); r != nil {
			err = fmt.Errorf("panic: %v", r)
		}
	}()
	synctest.Run(f)
	return nil
}

// rsRun executes one history (inside a bubble) with all monitors.
func rsRun(w *bufio.Writer, window int64, ops []rsOp) (term string, nontrivial bool) {
	monfail := func(key, desc string) {
		fmt.Fprintf(w, "MONFAIL\trecvstream/%s\t%s\twindow=%d %s\n", key, desc, window, rsOpsString(ops))
	}
	rs := quic.VerifNewRecvStream(window)
	type fr struct {
		f     *wire.StreamFrame
		n     int
		fired int
	}
	var frames []*fr
	ids := map[*wire.StreamFrame]int{}
	var items []string
	var delivered int64          // bytes returned by Read so far
	refFinal := int64(-1)        // final size once known
	var refHighest int64         // highest offset received
	minReliable := int64(-1)     // smallest reliable size announced by a reset that took effect
	cancelledLocally, sawTerminal, shutdown := false, false, false
	covered := map[int64]bool{} // bytes accepted into the stream (frames handled without error, before any local cancel)
	dataReads, eofs := 0, 0
	bufferOf := func(d []byte) int {
		if len(d) == 0 {
			return -1
		}
		p := uintptr(unsafe.Pointer(&d[0]))
		for i, f := range frames {
			b := f.f.Data[:cap(f.f.Data)]
			base := uintptr(unsafe.Pointer(&b[0]))
			if p >= base && p < base+uintptr(len(b)) {
				return i
			}
		}
		return -1
	}
	collect := func() []int64 {
		var now []int64
		for _, f := range wire.VerifDrainStreamFramePool() {
			id, ok := ids[f]
			if !ok {
				monfail("putback-unknown", "a frame that the harness never created was put back")
				continue
			}
			frames[id].fired++
			if frames[id].fired > 1 {
				monfail("cb-twice", fmt.Sprintf("frame %d was put back %d times", id, frames[id].fired))
			}
			now = append(now, int64(id))
			b := f.Data[:cap(f.Data)]
			for i := range b { // recycled: scribble
				b[i] = 0xEE
			}
		}
		sort.Slice(now, func(i, j int) bool { return now[i] < now[j] })
		for _, d := range rs.Referenced() {
			if i := bufferOf(d); i >= 0 && frames[i].fired > 0 {
				monfail("alias", fmt.Sprintf("the stream still refers to the buffer of frame %d, which was already put back", i))
			}
		}
		return now
	}
	out := func(op string, err, n, hash, code int64, remote bool, fired []int64) {
		// owed: the frame whose buffer the current frame aliases (-1: none, or a private copy)
		owed := int64(bufferOf(rs.C03CurrentFrame()))
		if owed >= 0 && frames[owed].fired > 0 {
			monfail("alias", fmt.Sprintf("the current frame lives in the buffer of frame %d, which was already put back", owed))
		}
		items = append(items, u.Pair(op, u.App("ROut", u.Z(err), u.Z(n), u.Z(hash), u.Z(code), u.B(remote), u.ZList(fired), u.Z(int64(rs.Completed())), u.Z(owed))))
	}
	checkData := func(what string, d []byte) {
		for i := range d {
			if d[i] != c03Byte(delivered+int64(i)) {
				monfail(what+"-bytes", fmt.Sprintf("%s at stream offset %d: byte +%d is %#x, sent %#x", what, delivered, i, d[i], c03Byte(delivered+int64(i))))
				return
			}
		}
		if refFinal >= 0 && delivered+int64(len(d)) > refFinal {
			monfail(what+"-beyond-final", fmt.Sprintf("%s delivered bytes up to %d beyond the final size %d", what, delivered+int64(len(d)), refFinal))
		}
		if delivered+int64(len(d)) > refHighest {
			monfail(what+"-beyond-received", fmt.Sprintf("%s delivered bytes up to %d but only %d were received", what, delivered+int64(len(d)), refHighest))
		}
	}
	for idx := 0; idx < len(ops); idx++ {
		op := ops[idx]
		stop := false
		if op.kind == 6 { // retransmission with other boundaries: starts below the read position, ends above it
			a := delivered - op.off
			if a < 0 {
				a = 0
			}
			op = rsOp{kind: 0, off: a, n: delivered - a + op.n}
			ops[idx] = op
		}
		switch op.kind {
		case 0:
			f := wire.VerifPooledStreamFrame(int(op.n))
			copy(f.Data, c03Slice(op.off, op.n))
			f.StreamID, f.Offset, f.Fin, f.DataLenPresent = 3, protocol.ByteCount(op.off), op.fin, true
			ids[f] = len(frames)
			frames = append(frames, &fr{f: f, n: int(op.n)})
			// reference verdict (RFC 9000 4.5 / 4.1), independent of the model
			end := op.off + op.n
			want := int64(0)
			switch {
			case refFinal >= 0 && ((op.fin && end != refFinal) || end > refFinal):
				want = 1
			case refFinal < 0 && op.fin && end < refHighest:
				want = 1
			case end > refHighest && end > window:
				want = 2
			}
			cls := rs.HandleStreamFrame(f)
			if cls != want && !(cls == 3 && want == 0) {
				monfail("reject", fmt.Sprintf("frame %d: error class %d, expected %d (1 FINAL_SIZE_ERROR, 2 FLOW_CONTROL_ERROR)", idx, cls, want))
			}
			if cls == 0 {
				if end > refHighest {
					refHighest = end
				}
				if op.fin {
					refFinal = end
				}
				if !cancelledLocally {
					for x := op.off; x < end; x++ {
						covered[x] = true
					}
				}
			} else {
				stop = true
			}
			out(u.App("RFrame", u.Z(op.off), u.Z(op.n), u.B(op.fin), u.Z(int64(len(frames)-1))), cls, 0, 0, 0, false, collect())
		case 1:
			want := int64(0)
			switch {
			case refFinal >= 0 && op.final != refFinal:
				want = 1
			case refFinal < 0 && op.final < refHighest:
				want = 1
			case op.final > refHighest && op.final > window:
				want = 2
			}
			if shutdown { // after closeForShutdown a RESET_STREAM is ignored altogether
				want = 0
			}
			cls := rs.HandleReset(op.final, op.rel, uint64(op.code))
			if cls != want {
				monfail("reject", fmt.Sprintf("reset %d: error class %d, expected %d", idx, cls, want))
			}
			if cls == 0 && !shutdown {
				if op.final > refHighest {
					refHighest = op.final
				}
				refFinal = op.final
				if !cancelledLocally && (minReliable < 0 || op.rel < minReliable) {
					minReliable = op.rel
				}
			} else {
				stop = true
			}
			out(u.App("RReset", u.Z(op.final), u.Z(op.rel), u.Z(op.code)), cls, 0, 0, 0, false, collect())
		case 2:
			d, cls, code, remote := rs.Read(int(op.n))
			checkData("read", d)
			if (cancelledLocally || sawTerminal) && len(d) > 0 {
				monfail("read-after-end", fmt.Sprintf("Read returned %d bytes after cancellation / end of stream", len(d)))
			}
			h := c03Hash(d)
			delivered += int64(len(d))
			if len(d) > 0 {
				dataReads++
			}
			if cls == 1 {
				eofs++
				if refFinal < 0 || delivered != refFinal {
					monfail("eof", fmt.Sprintf("EOF after %d bytes, final size %d", delivered, refFinal))
				}
			}
			if cls == 2 && remote && minReliable >= 0 && delivered < minReliable && !cancelledLocally {
				monfail("reset-early", fmt.Sprintf("reset error after %d bytes, reliable size %d", delivered, minReliable))
			}
			if cls == 1 || cls == 2 {
				sawTerminal = true
			}
			if cls == 9 {
				monfail("read-error", "Read returned an unexpected error")
			}
			if cls == 4 && op.n > 0 && !cancelledLocally && !shutdown && minReliable >= 0 && delivered >= minReliable {
				monfail("read-stall", fmt.Sprintf("Read blocks at offset %d although the stream was reset with reliable size %d", delivered, minReliable))
			}
			if cls == 4 && op.n > 0 && !cancelledLocally && !shutdown {
				// would block: legitimate only if the next byte is missing and the end is not reached
				if covered[delivered] {
					monfail("read-stall", fmt.Sprintf("Read blocks at offset %d although that byte was received", delivered))
				}
				if refFinal >= 0 && delivered == refFinal {
					monfail("read-stall", fmt.Sprintf("Read blocks at the final size %d instead of returning EOF or the reset error", delivered))
				}
			}
			if cls == 4 && len(d) > 0 {
				monfail("read-stall", fmt.Sprintf("Read waited for more data although it already had %d bytes to return", len(d)))
			}
			if cls == 0 && len(d) == 0 && op.n > 0 {
				monfail("read-empty", "Read returned (0, nil) for a non-empty buffer")
			}
			out(u.App("RRead", u.Z(op.n)), cls, int64(len(d)), h, code, remote, collect())
		case 3:
			d, cls, code, remote := rs.Peek(int(op.n))
			checkData("peek", d)
			if rs.ReadPos() != delivered {
				monfail("peek-consumes", "Peek moved the read position")
			}
			if cls == 4 && op.n > 0 && !cancelledLocally && !shutdown {
				all := true
				for x := delivered; x < delivered+op.n; x++ {
					if !covered[x] {
						all = false
						break
					}
				}
				if all {
					monfail("peek-stall", fmt.Sprintf("Peek(%d) blocks at offset %d although all requested bytes were received", op.n, delivered))
				}
			}
			if cls == 0 && int64(len(d)) != op.n {
				monfail("peek-short", fmt.Sprintf("Peek(%d) returned %d bytes without an error", op.n, len(d)))
			}
			if cls == 1 && (refFinal < 0 || delivered+int64(len(d)) != refFinal) {
				monfail("peek-eof", fmt.Sprintf("Peek returned EOF with data up to %d, final size %d", delivered+int64(len(d)), refFinal))
			}
			out(u.App("RPeek", u.Z(op.n)), cls, int64(len(d)), c03Hash(d), code, remote, collect())
		case 4:
			rs.CancelRead(uint64(op.code))
			cancelledLocally = true
			out(u.App("RCancel", u.Z(op.code)), 0, 0, 0, 0, false, collect())
		case 5:
			rs.CloseForShutdown()
			shutdown = true
			out("RShutdown", 0, 0, 0, 0, false, collect())
		}
		if rs.Completed() > 1 {
			monfail("completed-twice", fmt.Sprintf("onStreamCompleted called %d times", rs.Completed()))
		}
		if rs.Completed() > 0 && refFinal < 0 {
			monfail("completed-early", "onStreamCompleted before the final size is known")
		}
		if stop {
			break
		}
	}
	return u.App("RSCase", u.Z(window), u.List(items)), dataReads > 0
}

func rsGen(r *u.Rng) (int64, []rsOp) {
	ncells := r.Range(2, 7)
	bounds := []int64{0}
	small := r.Chance(1, 3)
	for i := 0; i < ncells; i++ {
		var sz int64
		if small {
			sz = c03CellSizes[r.Intn(4)]
		} else if r.Chance(1, 8) {
			sz = 1000
		} else {
			sz = c03CellSizes[r.Intn(7)]
		}
		bounds = append(bounds, bounds[len(bounds)-1]+sz)
	}
	total := bounds[ncells]
	window := total + 50
	if r.Chance(1, 6) {
		window = bounds[r.Range(1, ncells)] + int64(r.Intn(3)) - 1
	}
	nops := r.Range(2, 14)
	var ops []rsOp
	for i := 0; i < nops; i++ {
		k := r.Intn(100)
		switch {
		case k < 52:
			a := r.Intn(ncells)
			b := r.Range(a+1, ncells)
			if r.Chance(1, 2) && b > a+1 {
				b = a + 1 + r.Intn(min(3, b-a))
			}
			op := rsOp{kind: 0, off: bounds[a], n: bounds[b] - bounds[a]}
			if op.n > 1400 { // a STREAM frame fits into one packet
				op.n = bounds[a+1] - bounds[a]
			}
			if r.Chance(1, 5) { // off-lattice
				op.off = int64(r.Intn(int(total)))
				op.n = int64(r.Range(0, int(min(total-op.off, 300))))
			}
			if op.off+op.n == total {
				op.fin = r.Chance(2, 3)
			} else if r.Chance(1, 9) {
				op.fin = true // FIN that contradicts the lattice's final size
			}
			if r.Chance(1, 25) {
				op = rsOp{kind: 0, off: total, n: 0, fin: true} // bare FIN
			}
			if r.Chance(1, 25) {
				op = rsOp{kind: 0, off: total - 1, n: int64(r.Range(2, 5))} // beyond the end
			}
			ops = append(ops, op)
		case k < 52+6:
			ops = append(ops, rsOp{kind: 6, off: r.Pick(1, 3, 43, 64, 130), n: r.Pick(1, 4, 64, 129, 300)})
		case k < 76:
			ops = append(ops, rsOp{kind: 2, n: r.Pick(0, 1, 5, 64, 127, 200, 1000, 5000)})
		case k < 86:
			pn := r.Pick(0, 1, 5, 64, 200, 1000, 5000)
			if r.Chance(1, 2) { // a lattice span from the start: crosses frame boundaries
				pn = bounds[r.Range(1, ncells)] - int64(r.Intn(2))
			}
			ops = append(ops, rsOp{kind: 3, n: pn})
		case k < 94:
			final := total
			if r.Chance(1, 4) {
				final = bounds[r.Intn(ncells+1)] + int64(r.Intn(2))
			}
			rel := int64(0)
			if r.Chance(1, 2) {
				rel = bounds[r.Intn(ncells+1)]
				if rel > final {
					rel = final
				}
			}
			ops = append(ops, rsOp{kind: 1, final: final, rel: rel, code: int64(r.Range(1, 9))})
		case k < 98:
			ops = append(ops, rsOp{kind: 4, code: int64(r.Range(11, 19))})
		default:
			ops = append(ops, rsOp{kind: 5})
		}
	}
	return window, ops
}

func runRecvStream(w *bufio.Writer, seed uint64, n int, _ []string) {
	debug.SetGCPercent(-1) // the pool must keep every frame that was put back until the harness drains it
	runtime.GOMAXPROCS(1)  // ... and a sync.Pool's per-P private slot is only visible from that P
	wire.VerifTrackStreamFramePool()
	r := u.NewRng(seed)
	dist := map[string]int{}
	emit := func(window int64, ops []rsOp, bucket string) {
		var term string
		var nt bool
		var perr any
		var err error
		c03Watchdog(w, "recvstream", func() string { return fmt.Sprintf("window=%d %s", window, rsOpsString(ops)) }, func() {
			err = c03Bubble(func() {
				defer func() { perr = recover() }()
				term, nt = rsRun(w, window, ops)
			})
		})
		if err != nil || perr != nil {
			fmt.Fprintf(w, "MONFAIL\trecvstream/panic\t%v %v\twindow=%d %s\n", err, perr, window, rsOpsString(ops))
			return
		}
		nti := 0
		if nt {
			nti = 1
		}
		fmt.Fprintf(w, "CASE %d %s\n", nti, term)
		dist[bucket]++
	}
	// (0) fixed table, on every seed: Peek across the partly read current frame + >= 3 further queued entries
	for _, sizes := range [][]int64{{64, 64, 64, 64, 64}, {43, 1, 129, 4, 127}, {200, 4, 4, 4, 300}} {
		var ops []rsOp
		bounds := []int64{0}
		for _, sz := range sizes {
			bounds = append(bounds, bounds[len(bounds)-1]+sz)
		}
		for i := len(sizes) - 1; i >= 0; i-- {
			ops = append(ops, rsOp{kind: 0, off: bounds[i], n: sizes[i], fin: i == len(sizes)-1})
		}
		total := bounds[len(sizes)]
		ops = append(ops, rsOp{kind: 3, n: bounds[3]}, rsOp{kind: 2, n: 10}) // peek before anything is dequeued, then read part of frame 0
		for k := 2; k <= len(sizes); k++ {
			ops = append(ops, rsOp{kind: 3, n: bounds[k] - 10})
		}
		ops = append(ops, rsOp{kind: 3, n: total - 11}, rsOp{kind: 3, n: total}, rsOp{kind: 2, n: total}, rsOp{kind: 2, n: 1})
		emit(total+50, ops, "table-peek")
	}
	// (a) exhaustive small universe: 2 cells, frames (with/without FIN where consistent), read sizes, peek, reset, cancel
	cells := []int64{64, 129}
	b := []int64{0, 64, 193}
	alphabet := []rsOp{
		{kind: 0, off: b[0], n: cells[0]}, {kind: 0, off: b[1], n: cells[1]}, {kind: 0, off: b[1], n: cells[1], fin: true},
		{kind: 0, off: b[0], n: b[2], fin: true}, {kind: 0, off: 30, n: 100}, {kind: 0, off: b[0], n: cells[0], fin: true},
		{kind: 2, n: 50}, {kind: 2, n: 1000}, {kind: 3, n: 100},
		{kind: 1, final: 193, rel: 0, code: 7}, {kind: 1, final: 193, rel: 64, code: 7}, {kind: 4, code: 13},
	}
	L := 3
	if os.Getenv("VERIF_TIER") == "thorough" {
		L = 4
	}
	var rec func(prefix []rsOp)
	rec = func(prefix []rsOp) {
		if len(prefix) > 0 {
			emit(300, append([]rsOp{}, prefix...), "exhaustive")
		}
		if len(prefix) == L {
			return
		}
		for _, o := range alphabet {
			rec(append(prefix, o))
		}
	}
	rec(nil)
	for i := 0; i < n; i++ {
		window, ops := rsGen(r.Fork())
		emit(window, ops, "random")
		if i < 2 {
			fmt.Fprintf(w, "SAMPLE\twindow=%d %s\n", window, rsOpsString(ops))
		}
	}
	for k, v := range dist {
		fmt.Fprintf(w, "DIST\t%s\t%d\n", k, v)
	}
}

// ---------------------------------------------------------------------------------------
// cryptostream: HandleCryptoFrame / GetCryptoData / Finish on a real cryptoStream.

type csOp struct {
	kind   int // 0 frame, 1 get, 2 finish
	off, n int64
}

func (o csOp) String() string {
	switch o.kind {
	case 0:
		return fmt.Sprintf("crypto[%d,+%d)", o.off, o.n)
	case 1:
		return "get"
	case 3:
		return fmt.Sprintf("crypto-at-highest%+d(len %d)", o.off, o.n)
	case 4:
		return fmt.Sprintf("crypto-straddling-readpos(-%d,+%d)", o.off, o.n)
	}
	return "finish"
}

func runCryptoStream(w *bufio.Writer, seed uint64, n int, _ []string) {
	r := u.NewRng(seed)
	const maxOff = 16384 // cross-checked against protocol.MaxCryptoStreamOffset by the model's constant
	nt := 0
	for i := 0; i < n; i++ {
		cr := r.Fork()
		nops := cr.Range(2, 14)
		var ops []csOp
		base := int64(0)
		if cr.Chance(1, 8) {
			base = maxOff - int64(cr.Range(50, 700)) // work near the 16 KiB cap
		}
		ncells := cr.Range(2, 7)
		bounds := []int64{base}
		for j := 0; j < ncells; j++ {
			bounds = append(bounds, bounds[len(bounds)-1]+c03CellSizes[cr.Intn(7)])
		}
		if base > 0 {
			ops = append(ops, csOp{kind: 0, off: 0, n: base}) // the front, so that data near the cap becomes readable
			ops = append(ops, csOp{kind: 1})
		}
		for j := 0; j < nops; j++ {
			k := cr.Intn(100)
			switch {
			case k < 60:
				a := cr.Intn(ncells)
				b := cr.Range(a+1, min(ncells, a+3))
				off, ln := bounds[a], bounds[b]-bounds[a]
				if cr.Chance(1, 6) {
					off = bounds[0] + int64(cr.Intn(int(bounds[ncells]-bounds[0])))
					ln = cr.Pick(0, 1, 4, 43, 64, 127, 128, 129, 300)
				}
				if cr.Chance(1, 10) {
					ln = cr.Pick(1, 64, 300)
					off = maxOff - ln + int64(cr.Intn(3)) - 1 // limit-1, limit, limit+1
				}
				ops = append(ops, csOp{kind: 0, off: off, n: ln})
			case k < 76:
				ops = append(ops, csOp{kind: 1})
			case k < 83: // a frame that ends at the highest offset received so far -1 / +0 / +1 (resolved when run)
				ops = append(ops, csOp{kind: 3, off: int64(cr.Intn(3)) - 1, n: cr.Pick(1, 4, 64, 129)})
			case k < 92: // a retransmission with other boundaries that straddles the read position:
				// starts off bytes below what GetCryptoData has already returned, ends n bytes above (resolved when run)
				ops = append(ops, csOp{kind: 4, off: cr.Pick(1, 3, 43, 64, 130), n: cr.Pick(1, 4, 64, 129, 300)})
			default:
				ops = append(ops, csOp{kind: 2})
			}
		}
		// like connection.handleCryptoFrame: drain GetCryptoData after every frame (half of the cases)
		drainAfterFrame := cr.Chance(1, 2)
		opsString := func() string {
			s := make([]string, len(ops))
			for i, o := range ops {
				s[i] = o.String()
			}
			if drainAfterFrame {
				return "(GetCryptoData until empty after every frame) " + strings.Join(s, " ")
			}
			return strings.Join(s, " ")
		}
		monfail := func(key, desc string) { fmt.Fprintf(w, "MONFAIL\tcryptostream/%s\t%s\t%s\n", key, desc, opsString()) }
		func() {
			defer func() {
				if rec := recover(); rec != nil {
					fmt.Fprintf(w, "MONFAIL\tcryptostream/panic\tpanic: %v\t%s\n", rec, opsString())
				}
			}()
			cs := quic.VerifNewCryptoStream()
			var items []string
			var delivered, highest int64
			finished := false
			gotData := false
			covered := map[int64]bool{} // reference: bytes of frames that were accepted before Finish
			undelivered := func() bool { // some received byte at or above the read position has not been returned yet
				for x := range covered {
					if x >= delivered {
						return true
					}
				}
				return false
			}
			// get: one GetCryptoData with the byte-array reference monitors
			get := func() int {
				d := cs.GetCryptoData()
				for i := range d {
					if d[i] != c03Byte(delivered+int64(i)) {
						monfail("bytes", fmt.Sprintf("GetCryptoData at %d: byte +%d differs from what was sent", delivered, i))
						break
					}
					if !covered[delivered+int64(i)] {
						monfail("bytes", fmt.Sprintf("GetCryptoData at %d: byte +%d was never received", delivered, i))
						break
					}
				}
				if delivered+int64(len(d)) > highest {
					monfail("bytes", "GetCryptoData delivered bytes that were never received")
				}
				if len(d) == 0 && covered[delivered] {
					monfail("lost", fmt.Sprintf("GetCryptoData returns nothing at offset %d although that byte was received: received CRYPTO data is never delivered", delivered))
				}
				items = append(items, u.Pair("CGet", u.App("COut", "0", u.Z(int64(len(d))), u.Z(c03Hash(d)))))
				delivered += int64(len(d))
				if len(d) > 0 {
					gotData = true
				}
				return len(d)
			}
			stopped := false
			for oi := 0; oi < len(ops); oi++ {
				op := ops[oi]
				stop := false
				if op.kind == 4 {
					if delivered == 0 {
						op = csOp{kind: 0, off: 0, n: op.n}
					} else {
						a := delivered - op.off
						if a < 0 {
							a = 0
						}
						op = csOp{kind: 0, off: a, n: delivered - a + op.n}
					}
					ops[oi] = op
				}
				if op.kind == 3 {
					end := highest + op.off
					if end-op.n < 0 || end <= 0 {
						op = csOp{kind: 0, off: 0, n: 1}
					} else {
						op = csOp{kind: 0, off: end - op.n, n: op.n}
					}
					ops[oi] = op
				}
				switch op.kind {
				case 0:
					end := op.off + op.n
					want := int64(0)
					switch {
					case end > maxOff:
						want = 1
					case finished && end > highest:
						want = 2
					}
					cls := cs.HandleCryptoFrame(c03Slice(op.off, op.n), op.off)
					if cls != want {
						monfail("reject", fmt.Sprintf("crypto frame [%d,+%d): error class %d, expected %d (1 CRYPTO_BUFFER_EXCEEDED, 2 PROTOCOL_VIOLATION)", op.off, op.n, cls, want))
					}
					if cls == 0 && !finished {
						if end > highest {
							highest = end
						}
						for x := op.off; x < end; x++ {
							covered[x] = true
						}
					}
					if cls != 0 {
						stop = true
					}
					items = append(items, u.Pair(u.App("CFrame", u.Z(op.off), u.Z(op.n)), u.App("COut", u.Z(cls), "0", "0")))
					if cls == 0 && drainAfterFrame {
						for get() > 0 {
						}
					}
				case 1:
					get()
				case 2:
					cls := cs.Finish()
					queued := len(cs.Queued()) > 0
					if (cls == 2) != queued {
						monfail("finish", fmt.Sprintf("Finish returned class %d with data queued = %v", cls, queued))
					}
					if cls == 0 && undelivered() {
						monfail("lost", fmt.Sprintf("Finish succeeded although CRYPTO data received at or above offset %d was never delivered", delivered))
					}
					if cls == 2 && !undelivered() {
						monfail("finish", "Finish failed although every received byte was delivered")
					}
					if cls == 0 {
						finished = true
					} else {
						stop = true
					}
					items = append(items, u.Pair("CFinish", u.App("COut", u.Z(cls), "0", "0")))
				}
				for _, d := range cs.Queued() {
					if len(d) == 0 {
						monfail("queue", "empty entry queued")
					}
				}
				if stop {
					stopped = true
					break
				}
			}
			// drain: after all frames have been handled, GetCryptoData must yield exactly the received prefix
			if !stopped {
				for get() > 0 {
				}
				for x := int64(0); x < delivered; x++ {
					if !covered[x] {
						monfail("bytes", fmt.Sprintf("drained %d bytes but byte %d was never received", delivered, x))
						break
					}
				}
			}
			k := 0
			if gotData {
				k = 1
				nt++
			}
			fmt.Fprintf(w, "CASE %d %s\n", k, u.App("CSCase", u.List(items)))
			if i < 2 {
				fmt.Fprintf(w, "SAMPLE\t%s\n", opsString())
			}
		}()
	}
	fmt.Fprintf(w, "DIST\trandom\t%d\nDIST\twith-data\t%d\n", n, nt)
}

// ---------------------------------------------------------------------------------------
// cryptomgr: cryptoStreamManager routes CRYPTO frames by encryption level to three
// independent crypto streams; every level carries its own byte string.

func init() { units["cryptomgr"] = runC03CryptoMgr }

func c03LevelByte(l int, x int64) byte { return c03Byte(x + 7919*int64(l)) }

func runC03CryptoMgr(w *bufio.Writer, seed uint64, n int, _ []string) {
	r := u.NewRng(seed)
	nt := 0
	for i := 0; i < n; i++ {
		cr := r.Fork()
		nops := cr.Range(3, 16)
		var items []string
		var desc []string
		got := false
		func() {
			defer func() {
				if rec := recover(); rec != nil {
					fmt.Fprintf(w, "MONFAIL\tcryptomgr/panic\tpanic: %v\t%s\n", rec, strings.Join(desc, " "))
					items = nil
				}
			}()
			monfail := func(key, d string) {
				fmt.Fprintf(w, "MONFAIL\tcryptomgr/%s\t%s\t%s\n", key, d, strings.Join(desc, " "))
			}
			m := quic.C03VerifNewCryptoMgr(cr.Bool())
			var delivered, highest [3]int64
			var finished [3]bool
			covered := [3]map[int64]bool{{}, {}, {}}
			bounds := []int64{0}
			for j := 0; j < 5; j++ {
				bounds = append(bounds, bounds[len(bounds)-1]+c03CellSizes[cr.Intn(7)])
			}
			for j := 0; j < nops; j++ {
				k := cr.Intn(100)
				l := cr.Intn(3)
				switch {
				case k < 55:
					if cr.Chance(1, 30) {
						l = 3
					}
					a := cr.Intn(5)
					if cr.Chance(1, 2) {
						a = 0
					}
					b := cr.Range(a+1, min(5, a+3))
					off, ln := bounds[a], bounds[b]-bounds[a]
					if l < 3 && delivered[l] > 0 && cr.Chance(1, 5) { // straddles this level's read position
						dl := cr.Pick(1, 3, 43, 64)
						off = max(delivered[l]-dl, 0)
						ln = delivered[l] - off + cr.Pick(1, 4, 64, 129)
					}
					desc = append(desc, fmt.Sprintf("crypto@%d[%d,+%d)", l, off, ln))
					data := make([]byte, ln)
					for x := range data {
						data[x] = c03LevelByte(l, off+int64(x))
					}
					want := int64(0)
					if l == 3 {
						want = 4
					} else if finished[l] && off+ln > highest[l] {
						want = 2
					}
					cls := m.Handle(l, data, off)
					if cls != want {
						monfail("reject", fmt.Sprintf("CRYPTO frame at level %d: error class %d, expected %d", l, cls, want))
					}
					if cls == 0 && l < 3 && !finished[l] {
						if off+ln > highest[l] {
							highest[l] = off + ln
						}
						for x := off; x < off+ln; x++ {
							covered[l][x] = true
						}
					}
					items = append(items, u.Pair(u.App("MFrame", u.Z(int64(l)), u.Z(off), u.Z(ln)), u.App("COut", u.Z(cls), "0", "0")))
					if cls != 0 {
						return
					}
				case k < 85:
					desc = append(desc, fmt.Sprintf("get@%d", l))
					d := m.Get(l)
					for x := range d {
						if d[x] != c03LevelByte(l, delivered[l]+int64(x)) {
							monfail("bytes", fmt.Sprintf("GetCryptoData(level %d) at %d: byte +%d is not what was sent at that level", l, delivered[l], x))
							break
						}
					}
					if delivered[l]+int64(len(d)) > highest[l] {
						monfail("bytes", fmt.Sprintf("GetCryptoData(level %d) delivered bytes never received at that level", l))
					}
					if len(d) == 0 && covered[l][delivered[l]] {
						monfail("lost", fmt.Sprintf("GetCryptoData(level %d) returns nothing at offset %d although that byte was received", l, delivered[l]))
					}
					delivered[l] += int64(len(d))
					if len(d) > 0 {
						got = true
					}
					items = append(items, u.Pair(u.App("MGet", u.Z(int64(l))), u.App("COut", "0", u.Z(int64(len(d))), u.Z(c03Hash(d)))))
				default:
					l = cr.Intn(2)
					desc = append(desc, fmt.Sprintf("drop@%d", l))
					cls := m.Drop(l)
					if (cls == 2) != (delivered[l] < highest[l] && !finished[l]) && !(finished[l] && cls == 0) {
						// Finish fails iff data is still queued; approximated by "received beyond delivered"
						// (exact when the level's data is contiguous) — only report clear contradictions
						if cls == 0 && delivered[l] == 0 && highest[l] > 0 && !finished[l] {
							monfail("drop", fmt.Sprintf("Drop(level %d) succeeded although nothing of the %d received bytes was read", l, highest[l]))
						}
					}
					if cls == 0 {
						finished[l] = true
					}
					items = append(items, u.Pair(u.App("MDrop", u.Z(int64(l))), u.App("COut", u.Z(cls), "0", "0")))
					if cls != 0 {
						return
					}
				}
			}
			if got {
				nt++
			}
		}()
		if items != nil {
			k := 0
			if got {
				k = 1
			}
			fmt.Fprintf(w, "CASE %d %s\n", k, u.App("MCase", u.List(items)))
		}
		if i < 2 {
			fmt.Fprintf(w, "SAMPLE\t%s\n", strings.Join(desc, " "))
		}
	}
	fmt.Fprintf(w, "DIST\trandom\t%d\nDIST\twith-data\t%d\n", n, nt)
}

// ---------------------------------------------------------------------------------------
// cryptoglue: the real call sites Conn.handleCryptoFrame (manager, drain loop, TLS handler)
// and Conn.dropEncryptionLevel (Initial / Handshake), per-level byte strings.

func init() { units["cryptoglue"] = runC03CryptoGlue }

func runC03CryptoGlue(w *bufio.Writer, seed uint64, n int, _ []string) {
	r := u.NewRng(seed)
	dist := map[string]int{}
	run := func(failAt int, isClient bool, script []csOp, lv []int, bucket string) {
		var items []string
		var desc []string
		defer func() {
			if rec := recover(); rec != nil {
				fmt.Fprintf(w, "MONFAIL\tcryptoglue/panic\tpanic: %v\tfailAt=%d %s\n", rec, failAt, strings.Join(desc, " "))
			}
		}()
		monfail := func(key, d string) {
			fmt.Fprintf(w, "MONFAIL\tcryptoglue/%s\t%s\tfailAt=%d %s\n", key, d, failAt, strings.Join(desc, " "))
		}
		g := quic.C03VerifNewCryptoGlue(isClient, failAt)
		var delivered, highest [3]int64
		var finished [3]bool
		covered := [3]map[int64]bool{{}, {}, {}}
		count := 0
		got := false
		for i, op := range script {
			l := lv[i]
			switch op.kind {
			case 0:
				off, ln := op.off, op.n
				if l < 3 && op.off < 0 { // straddle this level's delivered position
					off = max(delivered[l]+op.off, 0)
					ln = delivered[l] - off + op.n
				} else if op.off < 0 {
					off = 0
				}
				desc = append(desc, fmt.Sprintf("crypto@%d[%d,+%d)", l, off, ln))
				data := make([]byte, ln)
				for x := range data {
					data[x] = c03LevelByte(l, off+int64(x))
				}
				cls, msgs := g.HandleCryptoFrame(l, data, off)
				// reference verdict
				want := int64(0)
				switch {
				case l == 3:
					want = 4
				case off+ln > 16384:
					want = 1
				case finished[l] && off+ln > highest[l]:
					want = 2
				}
				accepted := want == 0 && cls != 1 && cls != 2 && cls != 3 && cls != 4
				if accepted && l < 3 && !finished[l] {
					if off+ln > highest[l] {
						highest[l] = off + ln
					}
					for x := off; x < off+ln; x++ {
						covered[l][x] = true
					}
				}
				var ms []string
				for _, m := range msgs {
					if m.Level != l {
						monfail("level", fmt.Sprintf("a message of level %d was handed to the TLS handler while handling a level %d frame", m.Level, l))
					}
					if len(m.Data) == 0 {
						monfail("empty", "an empty message was handed to the TLS handler")
					}
					if m.Level < 3 {
						for x := range m.Data {
							if m.Data[x] != c03LevelByte(m.Level, delivered[m.Level]+int64(x)) {
								monfail("bytes", fmt.Sprintf("level %d: the TLS handler got a wrong byte at stream offset %d", m.Level, delivered[m.Level]+int64(x)))
								break
							}
						}
						delivered[m.Level] += int64(len(m.Data))
						got = true
					}
					count++
					ms = append(ms, u.Pair(u.Z(int64(len(m.Data))), u.Z(c03Hash(m.Data))))
				}
				handlerFailed := failAt >= 0 && count > failAt
				if want == 0 && !handlerFailed && cls != 0 && cls != 3 {
					monfail("reject", fmt.Sprintf("handleCryptoFrame(level %d, [%d,+%d)) returned error class %d, expected none", l, off, ln, cls))
				}
				if want != 0 && cls != want {
					monfail("reject", fmt.Sprintf("handleCryptoFrame(level %d, [%d,+%d)) returned error class %d, expected %d", l, off, ln, cls, want))
				}
				if handlerFailed && cls != 5 {
					monfail("handler-error", "the TLS handler's error was not returned by handleCryptoFrame")
				}
				// delivery: after a successful handleCryptoFrame everything contiguous was handed to TLS
				if cls == 0 && l < 3 && !finished[l] && covered[l][delivered[l]] {
					monfail("lost", fmt.Sprintf("level %d: byte %d was received but not handed to the TLS handler", l, delivered[l]))
				}
				items = append(items, u.Pair(u.App("GFrame", u.Z(int64(l)), u.Z(off), u.Z(ln)), u.App("GOut", u.Z(cls), u.List(ms))))
				if cls != 0 {
					goto done
				}
			case 2:
				desc = append(desc, fmt.Sprintf("drop@%d", l))
				cls := g.DropEncryptionLevel(l)
				undelivered := false
				for x := range covered[l] {
					if x >= delivered[l] {
						undelivered = true
					}
				}
				if !finished[l] && (cls == 2) != undelivered {
					monfail("drop", fmt.Sprintf("dropEncryptionLevel(%d) returned class %d with undelivered received data = %v", l, cls, undelivered))
				}
				if l == 0 && !g.DroppedInitialKeys() {
					monfail("drop", "dropping the Initial level did not record droppedInitialKeys")
				}
				if cls == 0 {
					finished[l] = true
				}
				items = append(items, u.Pair(u.App("GDrop", u.Z(int64(l))), u.App("GOut", u.Z(cls), "[]")))
				if cls != 0 {
					goto done
				}
			}
		}
	done:
		k := 0
		if got {
			k = 1
		}
		fmt.Fprintf(w, "CASE %d %s\n", k, u.App("GCase", u.Z(int64(failAt)), u.List(items)))
		dist[bucket]++
	}
	// fixed table: in order, out of order, straddling retransmission, drop with data behind a gap,
	// data after drop, unexpected level, the cap, handler failure
	F := func(l int, off, n int64) (csOp, int) { return csOp{kind: 0, off: off, n: n}, l }
	D := func(l int) (csOp, int) { return csOp{kind: 2}, l }
	table := [][]func() (csOp, int){
		{func() (csOp, int) { return F(0, 0, 100) }, func() (csOp, int) { return F(0, 100, 200) }, func() (csOp, int) { return D(0) }},
		{func() (csOp, int) { return F(1, 50, 100) }, func() (csOp, int) { return F(1, 0, 50) }, func() (csOp, int) { return D(1) }},
		{func() (csOp, int) { return F(0, 0, 132) }, func() (csOp, int) { return F(0, 200, 64) }, func() (csOp, int) { return F(0, 129, 132) }},
		{func() (csOp, int) { return F(1, 0, 10) }, func() (csOp, int) { return F(1, 20, 10) }, func() (csOp, int) { return D(1) }},
		{func() (csOp, int) { return F(0, 0, 10) }, func() (csOp, int) { return D(0) }, func() (csOp, int) { return F(0, 5, 5) }, func() (csOp, int) { return F(0, 5, 6) }},
		{func() (csOp, int) { return F(2, 0, 10) }, func() (csOp, int) { return F(3, 0, 10) }},
		{func() (csOp, int) { return F(2, 16000, 384) }, func() (csOp, int) { return F(2, 16000, 385) }},
		{func() (csOp, int) { return F(0, 4, 4) }, func() (csOp, int) { return F(1, 0, 3) }, func() (csOp, int) { return F(0, 0, 4) }},
	}
	for ti, t := range table {
		var sc []csOp
		var lv []int
		for _, f := range t {
			o, l := f()
			sc = append(sc, o)
			lv = append(lv, l)
		}
		run(-1, ti%2 == 0, sc, lv, "table")
		if ti == 7 {
			run(1, true, sc, lv, "table")
		}
	}
	for i := 0; i < n; i++ {
		cr := r.Fork()
		bounds := []int64{0}
		for j := 0; j < 5; j++ {
			bounds = append(bounds, bounds[len(bounds)-1]+c03CellSizes[cr.Intn(7)])
		}
		var sc []csOp
		var lv []int
		nops := cr.Range(3, 14)
		for j := 0; j < nops; j++ {
			l := cr.Intn(3)
			k := cr.Intn(100)
			switch {
			case k < 70:
				a := cr.Intn(5)
				if cr.Chance(1, 2) {
					a = 0
				}
				b := cr.Range(a+1, min(5, a+3))
				op := csOp{kind: 0, off: bounds[a], n: bounds[b] - bounds[a]}
				if cr.Chance(1, 30) {
					l = 3
				}
				sc, lv = append(sc, op), append(lv, l)
			case k < 85: // straddling retransmission
				sc, lv = append(sc, csOp{kind: 0, off: -cr.Pick(1, 3, 43, 64), n: cr.Pick(1, 4, 64, 129)}), append(lv, l)
			default:
				sc, lv = append(sc, csOp{kind: 2}), append(lv, cr.Intn(2))
			}
		}
		failAt := -1
		if cr.Chance(1, 8) {
			failAt = cr.Intn(4)
		}
		run(failAt, cr.Bool(), sc, lv, "random")
	}
	for k, v := range dist {
		fmt.Fprintf(w, "DIST\t%s\t%d\n", k, v)
	}
}
