//go:build verif

package main

import (
	"bufio"
	"bytes"
	"fmt"

	"github.com/refraction-networking/uquic/internal/handshake"
	"github.com/refraction-networking/uquic/internal/protocol"
	u "github.com/refraction-networking/uquic/internal/verifutil"
)

// kpSysCase runs the operations of the composed system of coq/PktProt/KeyPhaseSys.v
// (C05_keyphase_histories) on a real pair of updatableAEADs: KeyPhase(), Seal with the next
// packet number (the generator may skip), delivery of any packet ever sent (any order, any
// number of times) followed, when it opens, by SetLargestAcked(largest packet number the
// sender had opened when it sent the packet), SetHandshakeConfirmed.  Side true = client.
func kpSysCase(w *bufio.Writer, r *u.Rng, dist map[string]int) {
	var ops, obs []string
	desc := func() string { return u.List(ops) }
	defer func() {
		if e := recover(); e != nil {
			fmt.Fprintf(w, "MONFAIL\tkeyphase/sys-panic\tpanic: %v\t%s\n", e, desc())
		}
	}()
	suites := handshake.VerifCipherSuiteIDs()
	suite := suites[r.Intn(len(suites))]
	version := protocol.Version1
	if r.Bool() {
		version = protocol.Version2
	}
	kui := uint64(r.Range(2, 6))
	fkui := uint64(r.Range(1, 4))
	reset := handshake.SetKeyUpdateInterval(kui)
	oldF := handshake.FirstKeyUpdateInterval
	handshake.FirstKeyUpdateInterval = fkui
	defer func() { reset(); handshake.FirstKeyUpdateInterval = oldF }()
	a, b := handshake.VerifNewUAEADPair(suite, version, r.Bytes(32), r.Bytes(32), 0, 0)
	limit := a.InvalidPacketLimit()
	ep := map[bool]*handshake.VerifUAEAD{true: a, false: b}
	nxt := map[bool]int64{true: int64(r.Pick(0, 0, 3, 1000)), false: int64(r.Pick(0, 0, 7, 70000))}
	n0 := map[bool]int64{true: nxt[true], false: nxt[false]}
	rcv := map[bool]int64{true: -1, false: -1}
	laH := map[bool]int64{true: -1, false: -1} // the last value SetLargestAcked accepted (what the length is chosen from)
	type spkt struct {
		from    bool
		gen     uint64
		pnLen   protocol.PacketNumberLen
		pn, ack int64
		ad, ct  []byte
		pt      []byte
	}
	var sent []spkt
	now := int64(1_000_000_000)
	nUpd := 0
	bs := func(x bool) string { return u.B(x) }
	record := func(cls int) {
		obs = append(obs, u.Pair(u.ZU(a.Phase()), u.ZU(b.Phase()), u.Z(int64(cls))))
	}
	nops := r.Range(10, 40)
	for step := 0; step < nops; step++ {
		x := r.Bool()
		c := r.Intn(100)
		switch {
		case step < 4 && r.Chance(1, 2):
			ep[x].SetHandshakeConfirmed()
			ops = append(ops, u.App("YConfirm", bs(x)))
			record(-1)
		case c < 20:
			before := ep[x].Phase()
			ep[x].KeyPhaseBit()
			if ep[x].Phase() != before {
				nUpd++
			}
			ops = append(ops, u.App("YKeyPhase", bs(x)))
			record(-1)
		case c < 55 || len(sent) == 0:
			skip := int64(0)
			if r.Chance(1, 8) {
				skip = 1
			}
			ad := []byte{0x40, byte(len(sent))}
			pt := r.Bytes(6)
			p := spkt{from: x, gen: ep[x].Phase(), pn: nxt[x], ack: rcv[x], ad: ad, pt: pt,
				pnLen: protocol.PacketNumberLengthForHeader(protocol.PacketNumber(nxt[x]), protocol.PacketNumber(laH[x]))}
			p.ct = ep[x].Seal(pt, protocol.PacketNumber(p.pn), ad)
			nxt[x] += 1 + skip
			sent = append(sent, p)
			ops = append(ops, u.App("YSeal", bs(x), u.Z(skip)))
			record(-1)
		default:
			now += int64(r.Pick(0, 1, 20, 300, 700)) * 1_000_000
			i := r.Intn(len(sent))
			if r.Bool() {
				i = len(sent) - 1 - r.Intn(min(len(sent), 3))
			}
			p := sent[i]
			y := !p.from
			before := ep[y].Phase()
			kp := protocol.KeyPhaseZero
			if p.gen%2 == 1 {
				kp = protocol.KeyPhaseOne
			}
			hadPrev := ep[y].HasPrevKeys()
			// the packet number travels truncated; the receiver decodes it against its highestRcvdPN
			wire := p.pn & (int64(1)<<(8*uint(p.pnLen)) - 1)
			tol := int64(1)<<(8*uint(p.pnLen)-1) - 2
			highest := int64(ep[y].HighestRcvd())
			decoded := ep[y].DecodePacketNumber(protocol.PacketNumber(wire), p.pnLen)
			if highest <= p.pn+tol && int64(decoded) != p.pn {
				fmt.Fprintf(w, "MONFAIL\tkeyphase/sys-decode\tpacket number %d (sent with %d bytes) decoded to %d although the receiver (highest %d) is within the tolerance of that length\t%s\n", p.pn, p.pnLen, decoded, highest, desc())
			}
			dec, cls := ep[y].Open(p.ct, now, decoded, kp, p.ad)
			// ---- the statement of C05_keyphase_histories on the implementation ----
			if p.gen > before+1 {
				fmt.Fprintf(w, "MONFAIL\tkeyphase/sys-ahead\tpacket of generation %d in flight towards an endpoint in phase %d\t%s\n", p.gen, before, desc())
			}
			if (p.gen == before || p.gen == before+1) && cls != handshake.VerifOK {
				fmt.Fprintf(w, "MONFAIL\tkeyphase/sys-window\tpacket of generation %d delivered in phase %d rejected with class %d\t%s\n", p.gen, before, cls, desc())
			}
			if p.gen+1 == before && hadPrev && ep[y].HasPrevKeys() && cls != handshake.VerifOK {
				fmt.Fprintf(w, "MONFAIL\tkeyphase/sys-window\tprevious-generation packet rejected with class %d although the previous keys are kept\t%s\n", cls, desc())
			}
			if cls == handshake.VerifOK {
				if !bytes.Equal(dec, p.pt) {
					fmt.Fprintf(w, "MONFAIL\tkeyphase/sys-plaintext\tpacket #%d opened to another plaintext\t%s\n", i, desc())
				}
				if p.pn > rcv[y] {
					rcv[y] = p.pn
				}
				if p.ack >= 0 {
					if e := ep[y].SetLargestAcked(protocol.PacketNumber(p.ack)); e != handshake.VerifOK {
						fmt.Fprintf(w, "MONFAIL\tkeyphase/sys-ack-refused\tACK %d carried by packet #%d answered with class %d\t%s\n", p.ack, i, e, desc())
					} else {
						laH[y] = p.ack
					}
				}
				if ep[y].Phase() != before {
					nUpd++
				}
			}
			ops = append(ops, u.App("YDeliver", u.Z(int64(i)), u.Z(now), u.Z(ep[y].ThreePTO())))
			record(cls)
		}
	}
	nt := 0
	if nUpd > 0 {
		nt = 1
	}
	fmt.Fprintf(w, "CASE %d %s\n", nt, u.App("SysCase", u.ZU(kui), u.ZU(fkui), u.ZU(limit), u.Z(n0[true]), u.Z(n0[false]), desc(), u.List(obs)))
	dist[fmt.Sprintf("sys-updates%d", min(nUpd, 6))]++
}
