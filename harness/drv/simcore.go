//go:build verif

package main

// simcore: whole connections (real client, real server, real TLS) over testutils/simnet
// inside a testing/synctest bubble, with a fault-injecting router. Virtual time makes a
// connection cost a few milliseconds of wall clock, so fault schedules can be enumerated.
// Everything here only uses exported API of /repo (plus integrationtests/tools).

import (
	"context"
	"crypto/ecdsa"
	"crypto/elliptic"
	crand "crypto/rand"
	"crypto/x509"
	"crypto/x509/pkix"
	"math/big"
	"fmt"
	"net"
	"sync"
	"testing/synctest"
	"time"

	quic "github.com/refraction-networking/uquic"
	"github.com/refraction-networking/uquic/testutils/simnet"
	tls "github.com/refraction-networking/utls"
)

const simALPN = "verif"

var (
	simOnce      sync.Once
	simServerTLS *tls.Config
	simLongTLS   *tls.Config
	simClientTLS *tls.Config
)

func simTLS() (*tls.Config, *tls.Config, *tls.Config) {
	simOnce.Do(func() {
		// ECDSA P-256 chain (browser parrots do not offer ed25519); validity covers the
		// bubble's synthetic clock (starts in 2000).
		nb, na := time.Date(1990, 1, 1, 0, 0, 0, 0, time.UTC), time.Date(2100, 1, 1, 0, 0, 0, 0, time.UTC)
		mk := func(tmpl, parent *x509.Certificate, parentKey *ecdsa.PrivateKey) (*x509.Certificate, *ecdsa.PrivateKey) {
			key, err := ecdsa.GenerateKey(elliptic.P256(), crand.Reader)
			if err != nil {
				panic(err)
			}
			if parent == nil {
				parent, parentKey = tmpl, key
			}
			der, err := x509.CreateCertificate(crand.Reader, tmpl, parent, &key.PublicKey, parentKey)
			if err != nil {
				panic(err)
			}
			c, err := x509.ParseCertificate(der)
			if err != nil {
				panic(err)
			}
			return c, key
		}
		caT := func(sn int64) *x509.Certificate {
			return &x509.Certificate{SerialNumber: big.NewInt(sn), Subject: pkix.Name{CommonName: fmt.Sprintf("verif-ca-%d", sn)}, NotBefore: nb, NotAfter: na, IsCA: true,
				KeyUsage: x509.KeyUsageDigitalSignature | x509.KeyUsageCertSign, BasicConstraintsValid: true,
				ExtKeyUsage: []x509.ExtKeyUsage{x509.ExtKeyUsageClientAuth, x509.ExtKeyUsageServerAuth}}
		}
		leafT := &x509.Certificate{SerialNumber: big.NewInt(1), DNSNames: []string{"localhost"}, IPAddresses: []net.IP{net.IPv4(127, 0, 0, 1)},
			NotBefore: nb, NotAfter: na, KeyUsage: x509.KeyUsageDigitalSignature,
			ExtKeyUsage: []x509.ExtKeyUsage{x509.ExtKeyUsageClientAuth, x509.ExtKeyUsageServerAuth}}
		ca, caKey := mk(caT(2019), nil, nil)
		leaf, leafKey := mk(leafT, ca, caKey)
		simServerTLS = &tls.Config{
			Certificates: []tls.Certificate{{Certificate: [][]byte{leaf.Raw}, PrivateKey: leafKey}},
			NextProtos:   []string{simALPN, "h3"},
		}
		// long chain: 12 intermediates -> multi-packet server flight
		chain := [][]byte{}
		last, lastKey := ca, caKey
		for i := 0; i < 12; i++ {
			c, k := mk(caT(int64(3000+i)), last, lastKey)
			chain = append([][]byte{c.Raw}, chain...)
			last, lastKey = c, k
		}
		lleaf, lleafKey := mk(leafT, last, lastKey)
		simLongTLS = &tls.Config{
			Certificates: []tls.Certificate{{Certificate: append([][]byte{lleaf.Raw}, chain...), PrivateKey: lleafKey}},
			NextProtos:   []string{simALPN, "h3"},
		}
		pool := x509.NewCertPool()
		pool.AddCert(ca)
		simClientTLS = &tls.Config{ServerName: "localhost", RootCAs: pool, NextProtos: []string{simALPN}}
	})
	return simServerTLS.Clone(), simLongTLS.Clone(), simClientTLS.Clone()
}

// fault kinds
const (
	fDrop = iota
	fDup
	fDelay
	fFlip
	fTrunc
	fDupLate // deliver now AND a copy Arg ms later (a late duplicate, e.g. behind HANDSHAKE_DONE)
	fNumKinds
)

type fault struct {
	Dir  int // 0 = to server, 1 = to client
	Idx  int // index of the datagram in that direction
	Kind int
	Arg  int // delay in ms / bit position / new length
}

func (f fault) String() string {
	k := []string{"drop", "dup", "delay", "flip", "trunc", "duplate"}[f.Kind]
	d := []string{"c>s", "s>c"}[f.Dir]
	return fmt.Sprintf("%s#%d:%s(%d)", d, f.Idx, k, f.Arg)
}

type dgram struct {
	Dir  int
	Idx  int
	Time time.Duration // virtual time since scenario start
	Data []byte
	Act  string
}

// faultRouter applies a schedule keyed by (direction, index) and records every datagram.
type faultRouter struct {
	simnet.PerfectRouter
	mu         sync.Mutex
	clientAddr string
	start      time.Time
	cnt        [2]int
	sched      map[[2]int]fault
	randDrop   func(dir, idx int) bool // optional random loss beyond the schedule
	log        []dgram
	bytes      [2]int64 // delivered bytes per direction
	inject     func(dir, idx int, p simnet.Packet) []simnet.Packet
	onPacket   func(dir, idx int, data []byte)
	blackhole  bool
}

func (r *faultRouter) SendPacket(p simnet.Packet) error {
	r.mu.Lock()
	dir := 0
	if p.To.String() == r.clientAddr {
		dir = 1
	}
	idx := r.cnt[dir]
	r.cnt[dir]++
	f, has := r.sched[[2]int{dir, idx}]
	data := append([]byte(nil), p.Data...)
	rec := dgram{Dir: dir, Idx: idx, Time: time.Since(r.start), Data: data, Act: "deliver"}
	drop := r.blackhole || (r.randDrop != nil && r.randDrop(dir, idx))
	if has {
		rec.Act = f.String()
	} else if drop {
		rec.Act = "drop"
	}
	r.log = append(r.log, rec)
	cb := r.onPacket
	inj := r.inject
	r.mu.Unlock()
	if cb != nil {
		cb(dir, idx, data)
	}
	var extra []simnet.Packet
	if inj != nil {
		extra = inj(dir, idx, p)
	}
	deliver := func(q simnet.Packet) {
		r.mu.Lock()
		r.bytes[dir] += int64(len(q.Data))
		r.mu.Unlock()
		_ = r.PerfectRouter.SendPacket(q)
	}
	for _, q := range extra {
		deliver(q)
	}
	if drop && !has {
		return nil
	}
	if !has {
		deliver(p)
		return nil
	}
	switch f.Kind {
	case fDrop:
	case fDup:
		deliver(p)
		deliver(simnet.Packet{To: p.To, From: p.From, Data: append([]byte(nil), p.Data...)})
	case fDelay:
		q := simnet.Packet{To: p.To, From: p.From, Data: append([]byte(nil), p.Data...)}
		time.AfterFunc(time.Duration(f.Arg)*time.Millisecond, func() { deliver(q) })
	case fDupLate:
		deliver(p)
		q := simnet.Packet{To: p.To, From: p.From, Data: append([]byte(nil), p.Data...)}
		time.AfterFunc(time.Duration(f.Arg)*time.Millisecond, func() { deliver(q) })
	case fFlip:
		q := simnet.Packet{To: p.To, From: p.From, Data: append([]byte(nil), p.Data...)}
		if len(q.Data) > 0 {
			bit := f.Arg % (len(q.Data) * 8)
			q.Data[bit/8] ^= 1 << uint(bit%8)
		}
		deliver(q)
	case fTrunc:
		q := simnet.Packet{To: p.To, From: p.From, Data: append([]byte(nil), p.Data...)}
		if len(q.Data) > 0 {
			q.Data = q.Data[:f.Arg%len(q.Data)]
		}
		if len(q.Data) > 0 {
			deliver(q)
		}
	}
	return nil
}

type simOpts struct {
	RTT        time.Duration
	Faults     []fault
	RandDrop   func(dir, idx int) bool
	ServerConf *quic.Config
	ClientConf *quic.Config
	Spec       *quic.QUICSpec // nil = plain Transport through UTransport(nil spec) or plain
	PlainPath  bool           // use quic.Transport directly instead of UTransport
	LongChain  bool
	ServerTLS  func(*tls.Config)
	ClientTLS  func(*tls.Config)
	SrvTr      func(*quic.Transport)
	CliTr      func(*quic.Transport)
}

type simEnv struct {
	Router     *faultRouter
	Net        *simnet.Simnet
	CliPC      *simnet.SimConn
	SrvPC      *simnet.SimConn
	SrvTr      *quic.Transport
	CliTr      *quic.Transport
	CliUTr     *quic.UTransport
	Ln         *quic.Listener
	SrvAddr    *net.UDPAddr
	CliTLS     *tls.Config
	CliConf    *quic.Config
	Start      time.Time
}

// newSimEnv must be called inside a synctest bubble.
func newSimEnv(o simOpts) (*simEnv, error) {
	srvTLS, longTLS, cliTLS := simTLS()
	if o.LongChain {
		srvTLS = longTLS
	}
	if o.ServerTLS != nil {
		o.ServerTLS(srvTLS)
	}
	if o.ClientTLS != nil {
		o.ClientTLS(cliTLS)
	}
	cliAddr := &net.UDPAddr{IP: net.ParseIP("1.0.0.1"), Port: 9001}
	srvAddr := &net.UDPAddr{IP: net.ParseIP("1.0.0.2"), Port: 9002}
	r := &faultRouter{clientAddr: cliAddr.String(), start: time.Now(), sched: map[[2]int]fault{}, randDrop: o.RandDrop}
	for _, f := range o.Faults {
		r.sched[[2]int{f.Dir, f.Idx}] = f
	}
	n := &simnet.Simnet{Router: r}
	rtt := o.RTT
	if rtt == 0 {
		rtt = 10 * time.Millisecond
	}
	settings := simnet.NodeBiDiLinkSettings{Latency: rtt / 2}
	e := &simEnv{Router: r, Net: n, SrvAddr: srvAddr, CliTLS: cliTLS, Start: r.start}
	e.CliPC = n.NewEndpoint(cliAddr, settings)
	e.SrvPC = n.NewEndpoint(srvAddr, settings)
	if err := n.Start(); err != nil {
		return nil, err
	}
	e.SrvTr = &quic.Transport{Conn: e.SrvPC}
	if o.SrvTr != nil {
		o.SrvTr(e.SrvTr)
	}
	sc := o.ServerConf
	if sc == nil {
		sc = &quic.Config{}
	}
	ln, err := e.SrvTr.Listen(srvTLS, sc)
	if err != nil {
		return nil, err
	}
	e.Ln = ln
	e.CliTr = &quic.Transport{Conn: e.CliPC}
	if o.CliTr != nil {
		o.CliTr(e.CliTr)
	}
	if !o.PlainPath {
		e.CliUTr = &quic.UTransport{Transport: e.CliTr, QUICSpec: o.Spec}
	}
	e.CliConf = o.ClientConf
	if e.CliConf == nil {
		e.CliConf = &quic.Config{}
	}
	return e, nil
}

func (e *simEnv) Dial(ctx context.Context) (*quic.Conn, error) {
	if e.CliUTr != nil {
		return e.CliUTr.Dial(ctx, e.SrvAddr, e.CliTLS.Clone(), e.CliConf)
	}
	return e.CliTr.Dial(ctx, e.SrvAddr, e.CliTLS.Clone(), e.CliConf)
}

func (e *simEnv) Close() {
	if e.Ln != nil {
		e.Ln.Close()
	}
	e.CliTr.Close()
	e.SrvTr.Close()
	e.CliPC.Close()
	e.SrvPC.Close()
	e.Net.Close()
}

// inBubble runs f inside a synctest bubble and converts a panic (including the bubble's
// own "deadlock" report, which means a goroutine was left blocked forever) into an error.
func inBubble(f func()) (err error) {
	defer func() {
		if r := recover(); r != nil {
			err = fmt.Errorf("panic: %v", r)
		}
	}()
	synctest.Run(f)
	return nil
}
