//go:build verif

package main

import (
	"bufio"

	quic "github.com/refraction-networking/uquic"
)

func init() { units["flowglue"] = runFlowGlue }

// flowglue (C04, monitor-only): SendStream / ReceiveStream around real flow controllers.
// The unit lives in harness/quic/flowglue.go because it needs unexported constructors.
func runFlowGlue(w *bufio.Writer, seed uint64, n int, _ []string) {
	quic.VerifRunFlowGlue(w, seed, n)
}
