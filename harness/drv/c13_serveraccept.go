//go:build verif

package main

// serveraccept: C13 unit harness for the server side (server.go). A bare baseServer (harness/quic/
// c13_serveraccept.go) is fed crafted datagrams through handlePacketImpl — Version Negotiation packets,
// unsupported versions of several sizes, Initials of several sizes with every kind of token (none,
// garbage, Retry / NEW_TOKEN tokens issued by this server: fresh, expired, replayed from another
// address), 0-RTT packets, Handshake-type and malformed long header packets — with virtual time
// passing in between (token lifetimes, 0-RTT queue expiry) and the four send queues drained by the
// harness at chosen points (so the queue bounds are reachable). Connections are the real ones.
//
// Monitors (model-independent):
//   sa/vn-reflect     a Version Negotiation packet never causes anything to be queued, sent or created
//   sa/vn-size        a VN is only queued for an unsupported version in a datagram of >= 1200 bytes (and VN enabled)
//   sa/small-initial  an Initial in a datagram < 1200 bytes has no effect
//   sa/retry-only     a Retry is queued only for an Initial without usable token from an address that must be verified,
//                     and then no connection / routing entry is created
//   sa/unverified-state  a connection created for an address that must be verified carries a token valid for that address
//   sa/retry-packet   every Retry written: DCID = client's SCID, valid integrity tag for the client's DCID, token decodes
//                     (this server's generator) to a Retry token with ODCID = client's DCID, RSCID = the Retry's SCID, bound to the address
//   sa/invalid-token  INVALID_TOKEN is written only for an intact Initial with an invalid Retry token, with error code 0xb
//   sa/one-conn       at most one connection per client DCID; a later Initial with that DCID is routed to it
//   sa/0rtt-bounds    at most Max0RTTQueues queues of at most Max0RTTQueueLen packets; none without early-connection support
//   sa/retry-0rtt     a Retry deletes the 0-RTT queue of that DCID
//   sa/conn-args      newConn gets ODCID/RSCID from a valid Retry token, else the packet's DCID and no RSCID

import (
	"bufio"
	"bytes"
	"fmt"
	"net"
	"sort"
	"strings"
	"testing/synctest"
	"time"

	quic "github.com/refraction-networking/uquic"
	u "github.com/refraction-networking/uquic/internal/verifutil"
)

func init() {
	units["serveraccept"] = runServerAccept
	genSources = append(genSources, quic.VerifSAConsts)
}

type saToken struct {
	bytes   []byte
	isRetry bool
	ip      string
	created time.Duration
	odcid   []byte
	rscid   []byte
	rtt     time.Duration
}

type saCtx struct {
	r        *u.Rng
	sa       *quic.VerifSA
	start    time.Time
	mono0    int64
	versions []uint32
	disable  bool
	early    bool
	verify   map[int]bool
	refuse   map[int]bool
	dcids    [][]byte
	scids    [][]byte
	tokens   []saToken
	pn       int64
	steps    []string
	descs    []string
	fails    []monFail
	// per-queue bookkeeping of what the harness saw rejected, for the drain monitors
	pendingRetry   []saRej
	pendingInvalid []saRej
	nonTrivial     bool
	earlyHandovers int
	closed         map[int]bool // connections the harness closed
	retired        map[int]bool // connections whose client DCID was retired
	nextCID        []byte       // scripted result of the next GenerateConnectionID
	reroutes       int
}

type saRej struct {
	addr       int
	dcid, scid []byte
	intact     bool
	ver        uint32
}

const (
	saMaxTokenAge   = 3 * time.Second
	saHandshakeIdle = 1 * time.Second
)

const saNumAddrs = 8

// addresses 0..3: four IPv4 hosts; 4: host 0 on another port; 5, 6: two IPv6 hosts; 7: host 5 on another port.
// Tokens are bound to the IP address (not the port), in every address family.
func saAddr(id int) *net.UDPAddr {
	switch id {
	case 4:
		return &net.UDPAddr{IP: net.IPv4(10, 0, 0, 1), Port: 4000 + id}
	case 5, 7:
		return &net.UDPAddr{IP: net.ParseIP("2001:db8::5"), Port: 4000 + id}
	case 6:
		return &net.UDPAddr{IP: net.ParseIP("2001:db8:bad::666"), Port: 4000 + id}
	}
	return &net.UDPAddr{IP: net.IPv4(10, 0, 0, byte(id+1)), Port: 4000 + id}
}

func (c *saCtx) fail(key, desc string) { c.fails = append(c.fails, monFail{key, desc}) }
func (c *saCtx) now() time.Duration    { return time.Since(c.start) }
func (c *saCtx) nowZ() int64           { return quic.VerifMonoNow() - c.mono0 + 1 }

func saHx(b []byte) string { return u.App("hx", u.Hex(b)) }

func (c *saCtx) obs() string {
	st := c.sa.State()
	keys := make([]string, 0, len(st.ZeroRTT))
	for k := range st.ZeroRTT {
		keys = append(keys, k)
	}
	sort.Strings(keys)
	zs := make([]string, len(keys))
	for i, k := range keys {
		zs[i] = u.Pair(saHx([]byte(k)), u.Z(int64(st.ZeroRTT[k])))
	}
	ncl := int64(0)
	if st.NextCleanup != 0 {
		ncl = st.NextCleanup - c.mono0 + 1
	}
	return u.App("SAObs", u.Z(int64(st.Handlers)), u.Z(int64(len(c.sa.Conns))), u.List(zs), u.Z(ncl), u.Z(int64(st.VNQ)), u.Z(int64(st.InvalidQ)), u.Z(int64(st.RefusedQ)), u.Z(int64(st.RetryQ)))
}

// build an Initial (or 0-RTT / Handshake type) datagram of exactly `size` bytes (if size > 0)
func (c *saCtx) longPacket(typ int, ver uint32, dcid, scid, token []byte, size int, intact bool) []byte {
	c.pn++
	pl := quic.VerifFramePing()
	d, _ := quic.VerifLongPacket(typ, quic.Version(ver), dcid, scid, token, dcid, true, c.pn, pl)
	for i := 0; i < 3 && size > 0 && len(d) != size; i++ {
		n := len(pl) + size - len(d)
		if len(pl) < 24 {
			n = 24 + size - len(d)
		}
		if n < 24 {
			break
		}
		pl = append(quic.VerifFramePing(), make([]byte, n-1)...)
		d, _ = quic.VerifLongPacket(typ, quic.Version(ver), dcid, scid, token, dcid, true, c.pn, pl)
	}
	if !intact {
		d[len(d)-3] ^= 0x40
	}
	return d
}

// one received datagram: run it, derive the outcome from what the implementation did, log, monitor
type saExpect struct {
	kind                 string // "vn", "unsupported", "initial", "0rtt", "other"
	size                 int
	addr                 int
	dcid, scid           []byte
	ver                  uint32
	tokLabel             string // none, garbage, retry-valid, retry-invalid, new-valid, new-invalid
	tok                  *saToken
	intact               bool
}

func (c *saCtx) recv(pktTerm string, data []byte, e saExpect, desc string) {
	before := c.sa.State()
	nConnsBefore := len(c.sa.Conns)
	dgBefore := make([]int, nConnsBefore)
	for i := range dgBefore {
		dgBefore[i] = c.sa.ConnDatagrams(i)
	}
	connOfBefore := -1
	if e.dcid != nil {
		connOfBefore = c.sa.ConnOf(e.dcid)
	}
	nowZ := c.nowZ()
	inUse, pan := c.sa.Handle(data, saAddr(e.addr), quic.VerifMonoNow())
	synctest.Wait()
	after := c.sa.State()
	if pan != "" {
		c.fail("sa/panic", desc+": "+pan)
	}
	zBefore, zAfter := 0, 0
	for _, n := range before.ZeroRTT {
		zBefore += n
	}
	for _, n := range after.ZeroRTT {
		zAfter += n
	}
	out := ""
	created := len(c.sa.Conns) > nConnsBefore
	routed := -1
	for i := range dgBefore {
		if c.sa.ConnDatagrams(i) > dgBefore[i] {
			routed = i
		}
	}
	switch {
	case created:
		if c.sa.ConnDatagrams(nConnsBefore) > 1 {
			c.earlyHandovers++
		}
		nc := c.sa.Conns[nConnsBefore]
		out = u.App("SNewConn", u.Z(int64(nConnsBefore)), saHx(nc.ODCID), u.Opt(nc.HasRSCID, saHx(nc.RSCID)), u.B(nc.Verified), u.Z(nc.RTT), u.Z(int64(c.sa.ConnDatagrams(nConnsBefore)-1)))
	case routed >= 0:
		out = u.App("SRouted", u.Z(int64(routed)))
	case after.VNQ > before.VNQ:
		out = "SQueuedVN"
	case after.InvalidQ > before.InvalidQ:
		out = u.App("SInvalidToken", "true")
	case after.RetryQ > before.RetryQ:
		out = u.App("SRetry", "true")
	case after.RefusedQ > before.RefusedQ:
		out = u.App("SRefused", "true")
	case zAfter > zBefore || (e.kind == "0rtt" && inUse):
		// (a packet appended to an expired queue is released by the clean-up that runs right after: the return
		// value "buffer still in use" is what tells queued from dropped)
		out = "SQueued0RTT"
	default:
		out = u.App("SDrop", u.B(inUse))
	}
	if !strings.HasPrefix(out, "(SDrop") {
		c.nonTrivial = true
	}
	c.steps = append(c.steps, u.App("SASt", u.App("SRecv", u.Z(nowZ), pktTerm), out, c.obs()))
	c.descs = append(c.descs, fmt.Sprintf("@%v %s=>%s", c.now(), desc, out))

	// ---- monitors ----
	anyEffect := created || routed >= 0 || after.VNQ != before.VNQ || after.InvalidQ != before.InvalidQ || after.RetryQ != before.RetryQ || after.RefusedQ != before.RefusedQ || zAfter > zBefore || after.Handlers != before.Handlers
	verifyNeeded := c.verify[e.addr]
	usable := e.tokLabel == "retry-valid" || e.tokLabel == "new-valid"
	switch e.kind {
	case "vn":
		if anyEffect || inUse {
			c.fail("sa/vn-reflect", desc+" had an effect")
		}
	case "unsupported":
		if after.VNQ > before.VNQ && (e.size < 1200 || c.disable) {
			c.fail("sa/vn-size", fmt.Sprintf("%s (%d bytes, VN disabled=%v) queued a Version Negotiation packet", desc, e.size, c.disable))
		}
		if created || routed >= 0 || after.RetryQ != before.RetryQ {
			c.fail("sa/vn-size", desc+" of an unsupported version reached a connection")
		}
	case "initial":
		if e.size < 1200 && (anyEffect || inUse) {
			c.fail("sa/small-initial", fmt.Sprintf("%s in a %d byte datagram had an effect", desc, e.size))
		}
		if after.RetryQ > before.RetryQ {
			if usable || !verifyNeeded {
				c.fail("sa/retry-only", fmt.Sprintf("%s (token %s, verification required=%v) was answered with a Retry", desc, e.tokLabel, verifyNeeded))
			}
			if created || after.Handlers != before.Handlers {
				c.fail("sa/retry-only", desc+": Retry queued and state created")
			}
			if n, ok := after.ZeroRTT[string(e.dcid)]; ok {
				c.fail("sa/retry-0rtt", fmt.Sprintf("%s answered with a Retry but %d 0-RTT packets stay queued for that DCID (they belong to the invalidated attempt)", desc, n))
			}
			c.pendingRetry = append(c.pendingRetry, saRej{e.addr, e.dcid, e.scid, e.intact, e.ver})
		}
		if after.InvalidQ > before.InvalidQ {
			if e.tokLabel != "retry-invalid" {
				c.fail("sa/invalid-token", fmt.Sprintf("%s (token %s) queued for INVALID_TOKEN", desc, e.tokLabel))
			}
			c.pendingInvalid = append(c.pendingInvalid, saRej{e.addr, e.dcid, e.scid, e.intact, e.ver})
		}
		if created {
			nc := c.sa.Conns[nConnsBefore]
			if verifyNeeded && !(usable && nc.Verified) {
				c.fail("sa/unverified-state", fmt.Sprintf("%s: connection created for an address that must be verified, token %s, verified=%v", desc, e.tokLabel, nc.Verified))
			}
			if nc.Verified != usable {
				c.fail("sa/conn-args", fmt.Sprintf("%s: clientAddressValidated=%v with token %s", desc, nc.Verified, e.tokLabel))
			}
			if e.tokLabel == "retry-valid" {
				if !bytes.Equal(nc.ODCID, e.tok.odcid) || !nc.HasRSCID || !bytes.Equal(nc.RSCID, e.tok.rscid) {
					c.fail("sa/conn-args", fmt.Sprintf("%s: ODCID %x RSCID %v/%x, token says %x / %x", desc, nc.ODCID, nc.HasRSCID, nc.RSCID, e.tok.odcid, e.tok.rscid))
				}
			} else if !bytes.Equal(nc.ODCID, e.dcid) || nc.HasRSCID {
				c.fail("sa/conn-args", fmt.Sprintf("%s: ODCID %x RSCID %v without a Retry token", desc, nc.ODCID, nc.HasRSCID))
			}
			if connOfBefore >= 0 {
				c.fail("sa/one-conn", fmt.Sprintf("%s: a second connection was created for DCID %x", desc, e.dcid))
			}
			if c.sa.ConnOf(e.dcid) != nConnsBefore {
				c.fail("sa/one-conn", fmt.Sprintf("%s: the new connection is not routed under the client's DCID", desc))
			}
		} else if connOfBefore >= 0 && e.size >= 1200 && routed != connOfBefore && !(e.tokLabel == "none" && len(e.dcid) < 8) {
			c.fail("sa/one-conn", fmt.Sprintf("%s: DCID belongs to connection %d but the packet went to %d", desc, connOfBefore, routed))
		}
	case "0rtt":
		if !c.early && anyEffect {
			c.fail("sa/0rtt-bounds", desc+": 0-RTT packet had an effect although early connections are not accepted")
		}
	case "other":
		if anyEffect {
			c.fail("sa/other-long", desc+" had an effect")
		}
	}
	if len(after.ZeroRTT) > 32 {
		c.fail("sa/0rtt-bounds", fmt.Sprintf("%d 0-RTT queues", len(after.ZeroRTT)))
	}
	for k, n := range after.ZeroRTT {
		if n > 31 {
			c.fail("sa/0rtt-bounds", fmt.Sprintf("0-RTT queue of %x holds %d packets", k, n))
		}
	}
	seen := map[string]bool{}
	for i, nc := range c.sa.Conns {
		if c.closed[i] || c.retired[i] {
			continue // its DCID is free again: a later Initial may get a new connection
		}
		if seen[string(nc.ClientDCID)] {
			c.fail("sa/one-conn", fmt.Sprintf("two live connections for client DCID %x", nc.ClientDCID))
		}
		seen[string(nc.ClientDCID)] = true
	}
}

func (c *saCtx) drain() {
	vn, invalid, refused, retry := c.sa.Drain()
	synctest.Wait()
	var sends []string
	for _, w := range vn {
		sends = append(sends, u.Pair(u.Pair(u.Pair("0", u.Z(int64(saAddrID(w.To)))), "[]"), "[]"))
		h, ok := hsParse(w.Data)
		if !ok || h.version != 0 {
			c.fail("sa/vn-packet", "the datagram written for the VN queue is not a Version Negotiation packet")
		}
	}
	for _, w := range invalid {
		h, ok := hsParse(w.Data)
		if !ok {
			c.fail("sa/invalid-token", "unparsable INVALID_TOKEN datagram")
			continue
		}
		sends = append(sends, u.Pair(u.Pair(u.Pair("1", u.Z(int64(saAddrID(w.To)))), saHx(h.scid)), saHx(h.dcid)))
		code, ok := quic.VerifSAParseClose(w.Data, h.scid, quic.Version(h.version))
		if !ok || code != 0xb {
			c.fail("sa/invalid-token", fmt.Sprintf("expected CONNECTION_CLOSE(INVALID_TOKEN) under the Initial keys of %x, got ok=%v code=%#x", h.scid, ok, code))
		}
		found := false
		for _, p := range c.pendingInvalid {
			if p.intact && bytes.Equal(p.dcid, h.scid) && bytes.Equal(p.scid, h.dcid) && p.addr == saAddrID(w.To) {
				found = true
			}
		}
		if !found {
			c.fail("sa/invalid-token", fmt.Sprintf("INVALID_TOKEN sent to %v for DCID %x which no intact Initial with an invalid Retry token used", w.To, h.scid))
		}
	}
	for _, w := range refused {
		h, _ := hsParse(w.Data)
		sends = append(sends, u.Pair(u.Pair(u.Pair("2", u.Z(int64(saAddrID(w.To)))), saHx(h.scid)), saHx(h.dcid)))
	}
	for i, w := range retry {
		h, ok := hsParse(w.Data)
		if !ok || h.typ != 3 || len(w.Data) < 17 {
			c.fail("sa/retry-packet", "the datagram written for the Retry queue is not a Retry packet")
			continue
		}
		// token = everything between the header and the 16-byte tag
		hl := 7 + len(h.dcid) + len(h.scid)
		tok := w.Data[hl : len(w.Data)-16]
		dt := c.sa.DecodeToken(tok, w.To)
		odcid := dt.ODCID
		sends = append(sends, u.Pair(u.Pair(u.Pair("3", u.Z(int64(saAddrID(w.To)))), saHx(odcid)), saHx(h.dcid)))
		if i >= len(c.pendingRetry) {
			c.fail("sa/retry-packet", "more Retry packets written than Initials were rejected")
			continue
		}
		p := c.pendingRetry[i]
		if !dt.OK || !dt.IsRetry || !dt.AddrOK || !bytes.Equal(dt.ODCID, p.dcid) || !bytes.Equal(dt.RSCID, h.scid) {
			c.fail("sa/retry-packet", fmt.Sprintf("Retry for Initial(dcid=%x) from %v: token decodes to ok=%v retry=%v addrOK=%v odcid=%x rscid=%x, Retry SCID %x", p.dcid, w.To, dt.OK, dt.IsRetry, dt.AddrOK, dt.ODCID, dt.RSCID, h.scid))
		}
		if !bytes.Equal(h.dcid, p.scid) || saAddrID(w.To) != p.addr {
			c.fail("sa/retry-packet", fmt.Sprintf("Retry addressed to %v / DCID %x, the Initial came from address %d with SCID %x", w.To, h.dcid, p.addr, p.scid))
		}
		if tag := quic.VerifRetryTag(w.Data[:len(w.Data)-16], p.dcid, quic.Version(h.version)); !bytes.Equal(tag, w.Data[len(w.Data)-16:]) {
			c.fail("sa/retry-packet", "Retry integrity tag is not the tag for the client's DCID")
		}
		if bytes.Equal(h.scid, p.dcid) {
			c.fail("sa/retry-packet", "Retry did not change the connection ID")
		}
		// the client may now use this token
		c.tokens = append(c.tokens, saToken{bytes: append([]byte{}, tok...), isRetry: true, ip: saAddr(p.addr).IP.String(), created: c.now(), odcid: p.dcid, rscid: h.scid})
	}
	c.pendingRetry, c.pendingInvalid = nil, nil
	c.steps = append(c.steps, u.App("SASt", "SDrain", u.App("SDrained", u.List(sends)), c.obs()))
	c.descs = append(c.descs, fmt.Sprintf("@%v Drain=>%d vn %d invalid %d refused %d retry", c.now(), len(vn), len(invalid), len(refused), len(retry)))
	if len(sends) > 0 {
		c.nonTrivial = true
	}
}

func saAddrID(a net.Addr) int {
	if ua, ok := a.(*net.UDPAddr); ok {
		return ua.Port - 4000
	}
	return -1
}

func (c *saCtx) pickToken(addr int, dcid []byte) (tokBytes []byte, label, term string, t *saToken) {
	switch k := c.r.Intn(10); {
	case k < 3 || len(c.tokens) == 0 && k < 8:
		return nil, "none", "TkNone", nil
	case k == 3:
		return c.r.Bytes(c.r.Range(1, 60)), "garbage", "TkGarbage", nil
	case len(c.tokens) == 0:
		// make one: Retry token for this address/DCID or a NEW_TOKEN token
		if c.r.Bool() {
			rs := c.r.Bytes(4)
			c.tokens = append(c.tokens, saToken{bytes: c.sa.NewRetryToken(saAddr(addr), dcid, rs), isRetry: true, ip: saAddr(addr).IP.String(), created: c.now(), odcid: dcid, rscid: rs})
		} else {
			rtt := time.Duration(c.r.Range(1, 300)) * time.Millisecond
			c.tokens = append(c.tokens, saToken{bytes: c.sa.NewToken(saAddr(addr), rtt), ip: saAddr(addr).IP.String(), created: c.now(), rtt: rtt})
		}
	}
	if c.r.Chance(1, 4) {
		rtt := time.Duration(c.r.Range(1, 300)) * time.Millisecond
		c.tokens = append(c.tokens, saToken{bytes: c.sa.NewToken(saAddr(addr), rtt), ip: saAddr(addr).IP.String(), created: c.now(), rtt: rtt})
	}
	t = &c.tokens[c.r.Intn(len(c.tokens))]
	age := c.now() - t.created
	sameHost := t.ip == saAddr(addr).IP.String()
	if t.isRetry {
		valid := sameHost && age <= 2*saHandshakeIdle
		label = "retry-invalid"
		if valid {
			label = "retry-valid"
		}
		return t.bytes, label, u.App("TkRetry", u.B(valid), saHx(t.odcid), saHx(t.rscid)), t
	}
	valid := sameHost && age <= saMaxTokenAge
	label = "new-invalid"
	if valid {
		label = "new-valid"
	}
	return t.bytes, label, u.App("TkNew", u.B(valid), u.Z(int64(t.rtt))), t
}

func (c *saCtx) doInitial(dcid []byte, addr int, size int) {
	scid := c.scids[c.r.Intn(len(c.scids))]
	ver := c.versions[c.r.Intn(len(c.versions))]
	tok, label, tterm, t := c.pickToken(addr, dcid)
	intact := !c.r.Chance(1, 8)
	data := c.longPacket(0, ver, dcid, scid, tok, size, intact)
	// the connection ID the server will draw is only known afterwards: patched into the term below
	before := len(c.sa.Conns)
	term := func(newcid []byte) string {
		return u.App("SPinitial", u.Z(int64(len(data))), saHx(dcid), saHx(scid), tterm, u.Z(int64(addr)), u.B(intact), saHx(newcid))
	}
	desc := fmt.Sprintf("Initial(%dB dcid=%x scid=%x tok=%s addr=%d intact=%v)", len(data), dcid, scid, label, addr, intact)
	c.recv("@@NEWCID@@", data, saExpect{kind: "initial", size: len(data), addr: addr, dcid: dcid, scid: scid, ver: ver, tokLabel: label, tok: t, intact: intact}, desc)
	var newcid []byte
	if len(c.sa.Conns) > before {
		newcid = c.sa.Conns[before].SCID
	}
	c.steps[len(c.steps)-1] = strings.Replace(c.steps[len(c.steps)-1], "@@NEWCID@@", term(newcid), 1)
}

// an intact 1200-byte Initial without token
func (c *saCtx) doInitialPlain(dcid []byte, addr int) {
	scid := c.scids[0]
	ver := c.versions[0]
	data := c.longPacket(0, ver, dcid, scid, nil, 1200, true)
	before := len(c.sa.Conns)
	term := func(newcid []byte) string {
		return u.App("SPinitial", u.Z(int64(len(data))), saHx(dcid), saHx(scid), "TkNone", u.Z(int64(addr)), "true", saHx(newcid))
	}
	c.recv("@@NEWCID@@", data, saExpect{kind: "initial", size: len(data), addr: addr, dcid: dcid, scid: scid, ver: ver, tokLabel: "none", intact: true},
		fmt.Sprintf("Initial(%dB dcid=%x tok=none addr=%d)", len(data), dcid, addr))
	var newcid []byte
	if len(c.sa.Conns) > before {
		newcid = c.sa.Conns[before].SCID
	}
	c.steps[len(c.steps)-1] = strings.Replace(c.steps[len(c.steps)-1], "@@NEWCID@@", term(newcid), 1)
}

func (c *saCtx) do0RTT(dcid []byte, addr int) {
	ver := c.versions[0]
	data := c.longPacket(1, ver, dcid, c.scids[0], nil, 0, true)
	c.recv(u.App("SP0rtt", saHx(dcid)), data, saExpect{kind: "0rtt", addr: addr, dcid: dcid, ver: ver}, fmt.Sprintf("0RTT(dcid=%x)", dcid))
}

func (c *saCtx) doUnsupported(addr, size int) {
	data := c.longPacket(0, c.versions[0], c.dcids[0], c.scids[0], nil, size, true)
	v := uint32(0x1a2a3a4a)
	if len(c.versions) == 1 && c.r.Bool() { // a real version this server does not speak
		v = caV1
		if c.versions[0] == caV1 {
			v = caV2
		}
	}
	data[1], data[2], data[3], data[4] = byte(v>>24), byte(v>>16), byte(v>>8), byte(v)
	c.recv(u.App("SPunsupported", u.Z(int64(len(data))), u.Z(int64(addr))), data, saExpect{kind: "unsupported", size: len(data), addr: addr}, fmt.Sprintf("Unsupported(v=%x %dB addr=%d)", v, len(data), addr))
}

// a connection ends / the client's DCID is retired: routes disappear
func (c *saCtx) doClose(retire bool) {
	var live []int
	for i := range c.sa.Conns {
		if !c.closed[i] && !(retire && c.retired[i]) {
			live = append(live, i)
		}
	}
	if len(live) == 0 {
		return
	}
	k := live[c.r.Intn(len(live))]
	before := c.sa.State().Handlers
	term := ""
	if retire {
		c.sa.RetireClientDCID(k)
		c.retired[k] = true
		term = u.App("SRetire", u.Z(int64(k)), saHx(c.sa.Conns[k].ClientDCID))
	} else {
		c.sa.CloseConn(k)
		c.closed[k] = true
		term = u.App("SClose", u.Z(int64(k)))
	}
	synctest.Wait()
	after := c.sa.State().Handlers
	out := u.App("SRemoved", u.Z(int64(before-after)))
	c.steps = append(c.steps, u.App("SASt", term, out, c.obs()))
	c.descs = append(c.descs, fmt.Sprintf("@%v %s=>%s", c.now(), term, out))
	c.nonTrivial = true
	if d := c.sa.Conns[k].ClientDCID; c.sa.ConnOf(d) == k {
		c.fail("sa/route-after-close", fmt.Sprintf("%s: DCID %x still routes to connection %d", term, d, k))
	}
}

func (c *saCtx) doMisc(addr int) {
	switch c.r.Intn(4) {
	case 0:
		vs := []uint32{c.versions[0], 0x1a2a3a4a}
		data := quic.VerifVNPacket(0x4a, c.scids[0], c.dcids[0], vs)
		if c.r.Bool() {
			data = append(data, make([]byte, 1300-len(data))...) // a big one: still no answer
		}
		c.recv("SPvn", data, saExpect{kind: "vn", addr: addr}, fmt.Sprintf("VN(%dB)", len(data)))
	case 1:
		c.recv("SPnoversion", []byte{0xc0, 0, 0}, saExpect{kind: "other", addr: addr}, "NoVersion")
	case 2:
		data := c.longPacket(0, c.versions[0], c.dcids[0], c.scids[0], nil, 1200, true)[:9]
		c.recv("SPbadhdr", data, saExpect{kind: "other", addr: addr}, "BadHeader")
	default:
		data := c.longPacket(2, c.versions[0], c.dcids[0], c.scids[0], nil, 1200, true)
		c.recv("SPother", data, saExpect{kind: "other", addr: addr}, "HandshakeType")
	}
}

func runOneServerAccept(w *bufio.Writer, r *u.Rng, idx int, dist map[string]int) {
	c := &saCtx{r: r, verify: map[int]bool{}, refuse: map[int]bool{}, closed: map[int]bool{}, retired: map[int]bool{}}
	switch r.Intn(3) {
	case 0:
		c.versions = []uint32{caV1}
	case 1:
		c.versions = []uint32{caV2}
	default:
		c.versions = []uint32{caV1, caV2}
	}
	c.disable = r.Chance(1, 6)
	c.early = r.Bool()
	vmode := r.Intn(3) // 0 no callback, 1 all, 2 some
	for a := 0; a < saNumAddrs; a++ {
		c.verify[a] = vmode == 1 || (vmode == 2 && r.Bool())
		c.refuse[a] = r.Chance(1, 12)
	}
	c.verify[4] = c.verify[0] // same host
	c.verify[7] = c.verify[5]
	for i := 0; i < 4; i++ {
		c.dcids = append(c.dcids, r.Bytes(r.Range(8, 14)))
		c.scids = append(c.scids, r.Bytes(r.Range(0, 8)))
	}
	c.dcids = append(c.dcids, r.Bytes(r.Range(1, 7))) // too short for an Initial without token
	shape := r.Intn(8)
	body := func() {
		srvTLS, _, _ := simTLS()
		o := quic.VerifSAOpts{DisableVN: c.disable, AcceptEarly: c.early, MaxTokenAge: saMaxTokenAge, HandshakeIdle: saHandshakeIdle, TLS: srvTLS,
			RefuseAddr: func(a net.Addr) bool { return c.refuse[saAddrID(a)] },
			NextCID:    func() []byte { b := c.nextCID; c.nextCID = nil; return b }}
		for _, v := range c.versions {
			o.Versions = append(o.Versions, quic.Version(v))
		}
		if vmode != 0 {
			o.VerifySrc = func(a net.Addr) bool { return c.verify[saAddrID(a)] }
		}
		c.sa = quic.VerifNewSA(o)
		defer c.sa.Close()
		c.start, c.mono0 = time.Now(), quic.VerifMonoNow()
		time.Sleep(time.Millisecond)
		nOps := r.Range(6, 18)
		for i := 0; i < nOps; i++ {
			addr := r.Intn(saNumAddrs)
			switch k := r.Intn(100); {
			case k < 40:
				size := []int{1200, 1200, 1250, 1199, 600}[r.Intn(5)]
				c.doInitial(c.dcids[r.Intn(len(c.dcids))], addr, size)
			case k < 55:
				c.do0RTT(c.dcids[r.Intn(len(c.dcids))], addr)
			case k < 65:
				c.doUnsupported(addr, []int{1200, 1250, 1199, 100}[r.Intn(4)])
			case k < 71:
				c.doMisc(addr)
			case k < 80:
				c.doClose(c.r.Bool())
			case k < 88:
				time.Sleep(time.Duration(r.Pick(20, 60, 101, 900, 1100, 2001, 3100)) * time.Millisecond)
			default:
				c.drain()
			}
			// bursts that reach the bounds
			if i == 2 {
				switch shape {
				case 0:
					for j := 0; j < 6; j++ {
						c.doUnsupported(addr, 1200)
					}
				case 1:
					for j := 0; j < 10; j++ {
						c.doInitial(r.Bytes(9), addr, 1200)
					}
				case 2:
					for j := 0; j < 34; j++ {
						c.do0RTT(r.Bytes(8), addr)
					}
				case 4:
					// the generator hands out, for a second connection, the DCID a first (live) connection was created for:
					// AddWithConnID overwrites that route (observation, see C13_server_routes_refuted_without_fresh_ids)
					d1, d2 := r.Bytes(8), r.Bytes(9)
					a1 := addr
					for c.verify[a1] || c.refuse[a1] {
						a1 = (a1 + 1) % saNumAddrs
						if a1 == addr {
							break
						}
					}
					if !c.verify[a1] && !c.refuse[a1] {
						n0 := len(c.sa.Conns)
						c.doInitialPlain(d1, a1)
						if len(c.sa.Conns) == n0+1 {
							c.nextCID = d1
							c.doInitialPlain(d2, a1)
							if len(c.sa.Conns) == n0+2 && c.sa.ConnOf(d1) == n0+1 {
								c.reroutes++
							}
						}
						c.nextCID = nil
					}
				case 3:
					d := c.dcids[1]
					for j := 0; j < 33; j++ {
						c.do0RTT(d, addr)
					}
					c.doInitial(d, addr, 1200)
				}
			}
		}
		c.drain()
	}
	if err := inBubbleWatchdog(body, 60*time.Second); err != nil {
		c.fail("sa/leak-or-panic", err.Error())
	}
	var va, ra []string
	for a := 0; a < saNumAddrs; a++ {
		if c.verify[a] && vmode != 0 {
			va = append(va, u.Z(int64(a)))
		}
		if c.refuse[a] {
			ra = append(ra, u.Z(int64(a)))
		}
	}
	nt := 0
	if c.nonTrivial {
		nt = 1
	}
	fmt.Fprintf(w, "CASE %d %s\n", nt, u.App("CaseSA", u.App("mkCfg", u.B(c.disable), u.B(c.early), u.List(va), u.List(ra)), u.List(c.steps)))
	detail := fmt.Sprintf("versions=%x disableVN=%v early=%v verify=%v refuse=%v: %s", c.versions, c.disable, c.early, va, ra, strings.Join(c.descs, " ; "))
	if len(detail) > 6000 {
		detail = detail[:6000] + "..."
	}
	if idx < 2 {
		fmt.Fprintf(w, "SAMPLE\t%s\n", detail)
	}
	for _, f := range c.fails {
		fmt.Fprintf(w, "MONFAIL\t%s\t%s\t%s\n", f.key, f.desc, detail)
	}
	dist[fmt.Sprintf("shape=%d", shape)]++
	dist["newconn-with-buffered-0rtt"] += c.earlyHandovers
	dist["cid-collision-reroute"] += c.reroutes
	dist[fmt.Sprintf("verify-mode=%d", vmode)]++
	for _, d := range c.descs {
		if i := strings.Index(d, "=>"); i >= 0 {
			o := strings.Fields(strings.Trim(d[i+2:], "()"))
			if len(o) > 0 && !strings.HasPrefix(o[0], "0") && !strings.HasPrefix(o[0], "1") {
				dist["out="+o[0]]++
			}
		}
	}
}

func runServerAccept(w *bufio.Writer, seed uint64, n int, args []string) {
	r := u.NewRng(seed)
	dist := map[string]int{}
	only := -1
	for _, a := range args {
		if strings.HasPrefix(a, "only=") {
			fmt.Sscanf(a, "only=%d", &only)
		}
	}
	for i := 0; i < n; i++ {
		cr := r.Fork()
		if only >= 0 && i != only {
			continue
		}
		func() {
			defer func() {
				if p := recover(); p != nil {
					fmt.Fprintf(w, "MONFAIL\tsa/panic\t%v\tcase %d\n", p, i)
				}
			}()
			runOneServerAccept(w, cr, i, dist)
		}()
	}
	for k, v := range dist {
		fmt.Fprintf(w, "DIST\t%s\t%d\n", k, v)
	}
}
