//go:build verif

package main

// h3sim: the end-to-end exchanges of h3e2e (real http3.Server, real http3.Transport, Logger nil,
// generated request/response pairs with the same reference check) over testutils/simnet inside a
// testing/synctest bubble, so that they also run
//   * under SCHEDULED faults of the simulated network: drops, duplications, delays (reordering),
//     bit flips and truncations of chosen datagrams in both directions, plus random loss;
//   * with plain AND spec-driven QUIC clients: http3.Transport.Dial goes through quic.Transport,
//     quic.UTransport without a spec, or quic.UTransport with a browser parrot's QUICSpec.
// Monitor-only (property C18, claim (a) "also under packet loss and reordering"; quantifier
// "fault schedules of the simulated network, plain and spec-driven QUIC clients").
// The simulated environment is simcore.go's (newSimEnv, faultRouter, inBubble); everything runs
// in a child process so that a panic in any goroutine becomes MONFAIL h3/panic/<site>.

import (
	"bufio"
	"context"
	"fmt"
	"net/http"
	"os"
	"sort"
	"strings"
	"sync"
	"time"

	quic "github.com/refraction-networking/uquic"
	"github.com/refraction-networking/uquic/http3"
	u "github.com/refraction-networking/uquic/internal/verifutil"
	tls "github.com/refraction-networking/utls"
)

func init() { units["h3sim"] = runH3Sim }

var h3simParrots = map[string]quic.QUICID{
	"Chrome_115_IPv4": quic.QUICChrome_115_IPv4, "Chrome_115_IPv6": quic.QUICChrome_115_IPv6,
	"Chrome_146_IPv4": quic.QUICChrome_146_IPv4, "Chrome_146_IPv6": quic.QUICChrome_146_IPv6,
	"Firefox_116A": quic.QUICFirefox_116A, "Firefox_116B": quic.QUICFirefox_116B, "Firefox_116C": quic.QUICFirefox_116C,
}

func runH3Sim(w *bufio.Writer, seed uint64, n int, args []string) {
	if len(args) > 0 && args[0] == "child" {
		h3simChild(w, seed, n)
		return
	}
	h3eRunChildOf(w, "h3sim", seed, n, "child")
}

func h3simFaults(r *u.Rng) []fault {
	var fs []fault
	k := r.Range(0, 6)
	for i := 0; i < k; i++ {
		f := fault{Dir: r.Intn(2), Idx: r.Intn(40), Kind: r.Intn(fNumKinds)}
		switch f.Kind {
		case fDelay:
			f.Arg = r.Range(1, 120) // ms: reorders behind later datagrams
		case fFlip:
			f.Arg = r.Intn(1200 * 8)
		case fTrunc:
			f.Arg = r.Range(1, 1100)
		}
		fs = append(fs, f)
	}
	return fs
}

func h3simChild(w *bufio.Writer, seed uint64, n int) {
	thorough := os.Getenv("VERIF_TIER") == "thorough"
	r0 := u.NewRng(seed)
	wd := &h3eWorld{specs: map[int]*h3eSpec{}, seen: map[int]*h3eSeen{}, w: w}
	names := make([]string, 0, len(h3simParrots))
	for k := range h3simParrots {
		names = append(names, k)
	}
	sort.Strings(names)
	dist := map[string]int{}
	id := 500000
	for c := 0; c < n; c++ {
		r := r0.Fork()
		// ---- the client kind ----
		kind := "plain"
		var spec *quic.QUICSpec
		switch k := r.Intn(10); {
		case k < 2:
		case k < 4:
			kind = "utransport-nospec"
		default:
			kind = names[r.Intn(len(names))]
			s, err := quic.QUICID2Spec(h3simParrots[kind])
			if err != nil {
				wd.fail("h3sim/harness", "QUICID2Spec failed: "+err.Error(), kind)
				continue
			}
			spec = &s
		}
		faults := h3simFaults(r)
		lossPM := 0
		if r.Chance(1, 2) {
			lossPM = r.Range(5, 50)
		}
		lossRng := r.Fork()
		var lossMu sync.Mutex
		conc := r.Range(1, 4)
		if r.Chance(1, 4) {
			conc = r.Range(5, 16) // many concurrent requests on one connection
		}
		disableCompression := r.Chance(1, 4)
		var batch []*h3eSpec
		for k := 0; k < conc; k++ {
			id++
			s := h3eGenSpec(r.Fork(), id, false)
			lim := 40000
			if thorough {
				lim = 120000
			}
			if len(s.reqBody) > lim {
				s.reqBody = s.reqBody[:lim]
				s.reqChunks = h3eChunks(r, len(s.reqBody))
			}
			if len(s.respBody) > lim {
				s.respBody = s.respBody[:lim]
				s.respChunks = h3eChunks(r, len(s.respBody))
				s.regz()
			}
			wd.mu.Lock()
			wd.specs[id] = s
			wd.mu.Unlock()
			batch = append(batch, s)
		}
		var fstr []string
		for _, f := range faults {
			fstr = append(fstr, f.String())
		}
		tag := fmt.Sprintf("client=%s faults=[%s] loss=%d/1000 concurrency=%d", kind, strings.Join(fstr, " "), lossPM, conc)
		wd.line("SCENARIO\th3sim %s first=%s", tag, batch[0])
		dist["client-"+kind]++
		dist[fmt.Sprintf("faults-%d", len(faults))]++
		dist[fmt.Sprintf("concurrency-%02d", conc)]++
		if lossPM > 0 {
			dist["random-loss"]++
		}
		var envErr error
		var datagrams [2]int
		berr := inBubble(func() {
			o := simOpts{
				RTT:       time.Duration(r.Range(2, 60)) * time.Millisecond,
				Faults:    faults,
				PlainPath: kind == "plain",
				Spec:      spec,
				ServerTLS: func(c *tls.Config) { c.NextProtos = []string{http3.NextProtoH3} },
			}
			if lossPM > 0 {
				o.RandDrop = func(dir, idx int) bool {
					lossMu.Lock()
					defer lossMu.Unlock()
					return lossRng.Intn(1000) < lossPM
				}
			}
			e, err := newSimEnv(o)
			if err != nil {
				envErr = err
				return
			}
			srv := &http3.Server{Handler: http.HandlerFunc(wd.handler), Logger: nil}
			srvDone := make(chan struct{})
			go func() {
				defer close(srvDone)
				srv.ServeListener(e.Ln)
			}()
			tr := &http3.Transport{
				TLSClientConfig:    e.CliTLS.Clone(),
				QUICConfig:         &quic.Config{},
				Logger:             nil,
				DisableCompression: disableCompression,
				Dial: func(ctx context.Context, _ string, tlsCfg *tls.Config, cfg *quic.Config) (*quic.Conn, error) {
					if e.CliUTr != nil {
						return e.CliUTr.Dial(ctx, e.SrvAddr, tlsCfg, cfg)
					}
					return e.CliTr.Dial(ctx, e.SrvAddr, tlsCfg, cfg)
				},
			}
			var wg sync.WaitGroup
			for _, s := range batch {
				wg.Add(1)
				go func(s *h3eSpec) {
					defer wg.Done()
					wd.exchangeTagged(tr, "https://localhost:9002", s, "h3sim "+tag)
				}(s)
			}
			wg.Wait()
			tr.Close()
			srv.Close()
			<-srvDone
			e.Router.mu.Lock()
			datagrams = e.Router.cnt
			e.Router.mu.Unlock()
			e.Close()
		})
		if envErr != nil {
			wd.fail("h3sim/harness", "simulated environment: "+envErr.Error(), tag)
		}
		if berr != nil {
			wd.fail("h3sim/bubble", "the simulation did not come to rest: "+berr.Error(), tag)
		}
		dist["datagrams"] += datagrams[0] + datagrams[1]
	}
	dist["exchanges-checked"] = wd.nDone
	dist["bytes-carried"] = wd.nBytes()
	for k, v := range dist {
		wd.line("DIST\t%s\t%d", k, v)
	}
	wd.line("CHILD-DONE")
}

func (wd *h3eWorld) nBytes() int {
	wd.mu.Lock()
	defer wd.mu.Unlock()
	n := 0
	for _, s := range wd.seen {
		n += len(s.body)
	}
	return n
}
