//go:build verif

package main

// c07recvglue (property C07): packets through the REAL handleShortHeaderPacket /
// handleLongHeaderPacket of a constructed connection (scripted unpacker), client and server,
// with and without a qlog tracer. Model: conn_packet / conn_run of coq/RecvPH/Model.v
// (case GlueCase of V.RecvPH.Run). Monitors (model-independent):
//   c07recvglue/dup-frames-processed  a packet whose number was accepted before in that space (and
//       the space still exists) has none of its frames processed: no stream opened, no
//       packet_received event, the handler state untouched, and (tracer) one packet_dropped(duplicate);
//   c07recvglue/fresh-not-processed   a fresh packet is processed;
//   c07recvglue/registration          after a fresh packet the handler lists its number, counted its
//       ECN mark, and has an ACK pending iff the packet carried an ack-eliciting frame;
//   c07recvglue/panic

import (
	"bufio"
	"fmt"
	"strings"

	quic "github.com/refraction-networking/uquic"
	"github.com/refraction-networking/uquic/internal/ackhandler"
	"github.com/refraction-networking/uquic/internal/protocol"
	u "github.com/refraction-networking/uquic/internal/verifutil"
)

func init() { units["c07recvglue"] = runC07RecvGlue }

type c07rgStats struct {
	cases, pkts, dups, dupEvents, errs, zeroRTTClient, droppedInit, timerChecks int
	byLevel                                                        [5]int
}

func c07rgSpace(lvl int) int {
	switch lvl {
	case 1:
		return 0
	case 2:
		return 1
	}
	return 2
}

func c07rgOne(w *bufio.Writer, r *u.Rng, client, tracer bool, st *c07rgStats, script [][5]int) {
	var log, terms, failed []string
	fail := func(key, desc string) { failed = append(failed, key+"\t"+desc) }
	v, err := quic.NewVerifC07RG(client, tracer)
	if err != nil {
		fmt.Fprintf(w, "MONFAIL\tc07recvglue/panic\tcannot construct the connection: %v\t-\n", err)
		return
	}
	defer v.Shutdown()
	accepted := [3]map[int64]bool{{}, {}, {}}
	next := [3]int64{int64(r.Pick(0, 0, 1)), int64(r.Pick(0, 0, 2)), int64(r.Pick(0, 0, 3))}
	ecnCnt := [3][3]uint64{}
	now := int64(1000000000)
	hsSeen := false // the server has seen a Handshake packet: the Initial space is gone
	n := r.Range(8, 30)
	if script != nil {
		n = len(script)
	}
	phase := 0
	for i := 0; i < n; i++ {
		var lvl, ecn int
		var pn int64
		var kinds []int
		if script != nil {
			lvl, pn, ecn = script[i][0], int64(script[i][1]), script[i][2]
			for k := 0; k < script[i][4]; k++ {
				kinds = append(kinds, script[i][3])
			}
		} else {
			// levels drift from Initial to 1-RTT, with stragglers
			if r.Chance(1, 4) && phase < 3 {
				phase++
			}
			lvl = []int{1, 2, 3, 4}[phase]
			if r.Chance(1, 4) {
				lvl = r.Range(1, 4)
			}
			if lvl == 1 && hsSeen && !client {
				lvl = 2 // Initial packets cannot be decrypted any more
			}
			sp := c07rgSpace(lvl)
			switch x := r.Intn(100); {
			case x < 50:
				pn = next[sp]
				next[sp]++
			case x < 62:
				next[sp] += int64(r.Range(1, 3))
				pn = next[sp]
				next[sp]++
			case x < 75 && next[sp] > 0:
				pn = int64(r.Intn(int(next[sp])))
			default: // a duplicate of something accepted
				pn = next[sp]
				for q := range accepted[sp] {
					pn = q
					break
				}
				if pn == next[sp] {
					next[sp]++
				}
			}
			ecn = r.Range(0, 4)
			nk := r.Range(0, 3)
			for k := 0; k < nk; k++ {
				if lvl >= 3 {
					kinds = append(kinds, r.Range(0, 3))
				} else {
					kinds = append(kinds, int(r.Pick(0, 2)))
				}
			}
			if !tracer && lvl >= 3 && r.Chance(2, 3) {
				kinds = append(kinds, 1) // a STREAM frame makes frame handling visible without a tracer
			}
		}
		now += int64(r.Pick(0, 1, 1000000, 5000000))
		sp := c07rgSpace(lvl)
		before := v.Snapshot()
		res := v.Packet(lvl, pn, ecn, now, kinds)
		after := v.Snapshot()
		st.pkts++
		st.byLevel[lvl]++
		log = append(log, fmt.Sprintf("pkt(lvl=%d,pn=%d,ecn=%d,t=%d,frames=%v)=>processed=%v,err=%q,streams=%d,ev=%d/%d", lvl, pn, ecn, now, kinds, res.Processed, res.Err, res.Streams, res.EvReceived, res.EvDuplicate))
		if res.Panic != "" {
			fail("c07recvglue/panic", "panic: "+res.Panic)
			break
		}
		elic := false
		for _, k := range kinds {
			if k != 2 {
				elic = true
			}
		}
		handled := res.Processed || res.Err != ""
		client0 := client && lvl == 3
		wasAccepted := accepted[sp][pn]
		changed := fmt.Sprint(before) != fmt.Sprint(after)
		switch {
		case client0:
			st.zeroRTTClient++
			if handled || res.Streams > 0 || res.EvReceived > 0 || changed {
				fail("c07recvglue/dup-frames-processed", fmt.Sprintf("a client processed the 0-RTT packet %d", pn))
			}
		case wasAccepted:
			st.dups++
			if handled || res.Streams > 0 || res.EvReceived > 0 || changed {
				fail("c07recvglue/dup-frames-processed", fmt.Sprintf("packet %d of level %d was accepted before; its duplicate was processed again (processed=%v streams=%d packet_received=%d state changed=%v)", pn, lvl, res.Processed, res.Streams, res.EvReceived, changed))
			}
			if tracer && res.EvDuplicate != 1 {
				fail("c07recvglue/dup-frames-processed", fmt.Sprintf("duplicate packet %d of level %d: %d packet_dropped(duplicate) events", pn, lvl, res.EvDuplicate))
			}
			st.dupEvents += res.EvDuplicate
		default:
			if !handled && !(lvl == 3 && res.Err == "" && false) {
				// a fresh packet may only be refused as "potentially duplicate" below the forget threshold (none here)
				fail("c07recvglue/fresh-not-processed", fmt.Sprintf("fresh packet %d of level %d was not processed", pn, lvl))
			}
			if res.Err != "" {
				st.errs++
			} else if handled {
				accepted[sp][pn] = true
				sa := []ackhandler.VerifSpace{after.Initial, after.Handshake, after.App}[sp]
				if !covered(sa.Ranges, pn) {
					fail("c07recvglue/registration", fmt.Sprintf("packet %d of level %d was processed but is not in the history %v", pn, lvl, sa.Ranges))
				}
				switch protocol.ECN(ecn) {
				case protocol.ECT0:
					ecnCnt[sp][0]++
				case protocol.ECT1:
					ecnCnt[sp][1]++
				case protocol.ECNCE:
					ecnCnt[sp][2]++
				}
				if sa.ECT0 != ecnCnt[sp][0] || sa.ECT1 != ecnCnt[sp][1] || sa.ECNCE != ecnCnt[sp][2] {
					fail("c07recvglue/registration", fmt.Sprintf("ECN counters (%d,%d,%d) after packet %d with mark %d, expected %v", sa.ECT0, sa.ECT1, sa.ECNCE, pn, ecn, ecnCnt[sp]))
				}
				sb := []ackhandler.VerifSpace{before.Initial, before.Handshake, before.App}[sp]
				if sb.Present && sa.HasNewAck != (sb.HasNewAck || elic) {
					fail("c07recvglue/registration", fmt.Sprintf("packet %d (ack-eliciting=%v): hasNewAck %v -> %v", pn, elic, sb.HasNewAck, sa.HasNewAck))
				}
				if sp == 2 && pn >= before.LargestObserved && after.LorTime != now {
					fail("c07recvglue/registration", fmt.Sprintf("packet %d registered with receive time %d, packet arrived at %d", pn, after.LorTime, now))
				}
			}
		}
		if lvl == 2 && !client && handled {
			hsSeen = true
		}
		ks := make([]string, len(kinds))
		for j, k := range kinds {
			ks[j] = u.Z(int64(k))
		}
		terms = append(terms, u.Pair(
			u.App("mkPkt", u.Z(int64(lvl)), u.Z(pn), u.Z(int64(ecn)), u.Z(now), u.List(ks)),
			u.App("GObs", u.B(handled), u.B(res.Err != ""), u.B(res.EvDuplicate > 0))))
	}
	if v.DroppedInitial() {
		st.droppedInit++
	}
	for _, f := range failed {
		fmt.Fprintf(w, "MONFAIL\t%s\t%s\tclient=%v tracer=%v %s\n", f, client, tracer, strings.Join(log, " "))
	}
	fmt.Fprintf(w, "CASE 1 %s\n", u.App("GlueCase", u.B(!client), u.B(tracer), u.List(terms), u.B(v.DroppedInitial()), finTerm(v.Snapshot())))
	if st.cases == 2 {
		fmt.Fprintf(w, "SAMPLE\trecvglue client=%v tracer=%v: %s\n", client, tracer, strings.Join(log, " "))
	}
	st.cases++
}

func runC07RecvGlue(w *bufio.Writer, seed uint64, n int, _ []string) {
	r := u.NewRng(seed ^ 0xc07a)
	st := &c07rgStats{}
	// fixed table: {level, pn, ecn, frame kind, number of such frames}
	table := [][][5]int{
		{{4, 0, 1, 1, 1}, {4, 0, 1, 1, 1}, {4, 1, 4, 0, 1}, {4, 1, 1, 1, 2}, {4, 0, 1, 0, 1}},                 // 1-RTT duplicates
		{{1, 0, 3, 0, 1}, {1, 0, 3, 0, 1}, {2, 0, 2, 0, 1}, {2, 0, 1, 0, 1}, {4, 0, 1, 1, 1}, {2, 1, 1, 2, 1}}, // Initial, Handshake (server drops Initial), 1-RTT
		{{3, 0, 1, 1, 1}, {3, 1, 1, 1, 1}, {4, 2, 1, 1, 1}, {3, 1, 1, 1, 1}, {4, 1, 1, 1, 1}, {3, 3, 1, 1, 1}}, // 0-RTT and 1-RTT share a space; 0-RTT above the lowest 1-RTT number
		{{4, 5, 1, 2, 1}, {4, 5, 1, 0, 1}, {4, 6, 1, 2, 3}, {4, 7, 1, 3, 1}},                                 // PADDING only: not ack-eliciting
	}
	for _, sc := range table {
		for _, client := range []bool{false, true} {
			for _, tracer := range []bool{false, true} {
				c07rgOne(w, r.Fork(), client, tracer, st, sc)
			}
		}
	}
	c07rgTimer(w, st)
	for i := 0; i < n; i++ {
		c07rgOne(w, r.Fork(), i%2 == 0, i%4 < 2, st, nil)
	}
	fmt.Fprintf(w, "DIST\trecvglue-cases\t%d\nDIST\tpackets\t%d\nDIST\tduplicates\t%d\nDIST\tduplicate-events\t%d\nDIST\terrors-0rtt-after-1rtt\t%d\nDIST\tclient-0rtt-dropped\t%d\nDIST\tcases-initial-dropped\t%d\n",
		st.cases, st.pkts, st.dups, st.dupEvents, st.errs, st.zeroRTTClient, st.droppedInit)
	for l := 1; l <= 4; l++ {
		fmt.Fprintf(w, "DIST\tpackets-level-%d\t%d\n", l, st.byLevel[l])
	}
}

// c07rgTimer (fixed, every seed): a lone ack-eliciting 1-RTT packet arms the ACK alarm; the REAL
// maybeResetTimer must arm the connection timer no later than that alarm whenever the run loop
// may still send ACKs: not blocked, and congestion limited (send mode SendAck). C07_ack_leaves_by_deadline
// states exactly this for the model of maybeResetTimer. Hard-blocked is reported for information.
func c07rgTimer(w *bufio.Writer, st *c07rgStats) {
	for _, client := range []bool{false, true} {
		v, err := quic.NewVerifC07RG(client, false)
		if err != nil {
			fmt.Fprintf(w, "MONFAIL\tc07recvglue/panic\tcannot construct the connection: %v\t-\n", err)
			return
		}
		now := v.MonoNow()
		res := v.Packet(4, 0, 1, now, []int{0})
		s := v.Snapshot()
		desc := fmt.Sprintf("client=%v lone ack-eliciting 1-RTT packet 0 at %d: processed=%v ackQueued=%v alarm=now+%dns", client, now, res.Processed, s.AckQueued, s.Alarm-now)
		if !res.Processed || s.AckQueued || s.Alarm == 0 {
			fmt.Fprintf(w, "MONFAIL\tc07recvglue/timer-scenario\tthe lone packet did not arm the ACK alarm\t%s\n", desc)
			v.Shutdown()
			continue
		}
		for _, mode := range []int{quic.VerifC07BlockNone, quic.VerifC07BlockCongestionLimited, quic.VerifC07BlockHard} {
			ahead, ok := v.ArmTimer(mode)
			alarmAhead := s.Alarm - v.MonoNow()
			if !ok {
				fmt.Fprintf(w, "INFO\tc07recvglue: connection timer not readable (runtime layout), timer check skipped\n")
				break
			}
			st.timerChecks++
			if mode == quic.VerifC07BlockHard {
				fmt.Fprintf(w, "INFO\tc07recvglue timer, hard-blocked: armed %d ms ahead, ACK alarm %d ms ahead (no ACK can be sent)\n", ahead/1000000, alarmAhead/1000000)
				continue
			}
			if ahead > alarmAhead+2000000 {
				fmt.Fprintf(w, "MONFAIL\tc07recvglue/timer-misses-ack-alarm\tblock mode %d: maybeResetTimer armed the connection timer %d ms ahead although the ACK alarm is due in %d ms (max_ack_delay after the arrival of an unacknowledged ack-eliciting packet)\t%s; maybeResetTimer() with c.blocked=%d\n", mode, ahead/1000000, alarmAhead/1000000, desc, mode)
			}
		}
		v.Shutdown()
	}
	fmt.Fprintf(w, "DIST\ttimer-checks\t%d\n", st.timerChecks)
}
