//go:build verif

package main

import (
	"bufio"
	"bytes"
	"fmt"

	"github.com/refraction-networking/uquic/internal/handshake"
	"github.com/refraction-networking/uquic/internal/protocol"
	u "github.com/refraction-networking/uquic/internal/verifutil"
)

// kpScriptedDropThenLocalUpdate: the history
//
//	update 0->1 completes on both sides -> the 3*PTO drop timer fires (previous keys dropped
//	inside Open) -> later the endpoint initiates update 1->2 itself -> packets the peer
//	protected in phase 1 (it has not learned of the update yet) keep arriving
//
// Those packets are inside the reordering window (the peer has not even switched keys) and must
// open; the retired phase-1 keys may only be dropped 3*PTO after the peer confirms phase 2.
func kpScriptedDropThenLocalUpdate(w *bufio.Writer, r *u.Rng) {
	for _, suite := range handshake.VerifCipherSuiteIDs() {
		var trace []string
		step := func(f string, a ...any) { trace = append(trace, fmt.Sprintf(f, a...)) }
		func() {
			defer func() {
				if e := recover(); e != nil {
					fmt.Fprintf(w, "MONFAIL\tkeyphase/scripted-panic\tpanic: %v\t%v\n", e, trace)
				}
			}()
			reset := handshake.SetKeyUpdateInterval(2)
			oldF := handshake.FirstKeyUpdateInterval
			handshake.FirstKeyUpdateInterval = 1
			defer func() { reset(); handshake.FirstKeyUpdateInterval = oldF }()
			a, b := handshake.VerifNewUAEADPair(suite, protocol.Version1, r.Bytes(32), r.Bytes(32), 0, 0)
			a.SetHandshakeConfirmed()
			b.SetHandshakeConfirmed()
			pto3 := a.ThreePTO()
			now := int64(1_000_000_000)
			ad := []byte{0x40, 9}
			pns := [2]int64{0, 0}
			bit := func(g uint64) protocol.KeyPhaseBit {
				if g%2 == 1 {
					return protocol.KeyPhaseOne
				}
				return protocol.KeyPhaseZero
			}
			type pk struct {
				gen uint64
				pn  int64
				ct  []byte
				pt  []byte
			}
			// send without asking KeyPhase() (the peer side never initiates here)
			seal := func(ep *handshake.VerifUAEAD, side int) pk {
				pt := r.Bytes(8)
				p := pk{gen: ep.Phase(), pn: pns[side], pt: pt, ct: ep.Seal(pt, protocol.PacketNumber(pns[side]), ad)}
				pns[side]++
				step("side%d seals pn %d in phase %d", side, p.pn, p.gen)
				return p
			}
			open := func(ep *handshake.VerifUAEAD, side int, p pk, mustOpen bool, what string) bool {
				before := ep.Phase()
				dec, cls := ep.Open(p.ct, now, protocol.PacketNumber(p.pn), bit(p.gen), ad)
				step("t=%dms side%d (phase %d) opens pn %d of phase %d -> class %d, phase %d, prev keys %v", now/1_000_000, side, before, p.pn, p.gen, cls, ep.Phase(), ep.HasPrevKeys())
				ok := cls == handshake.VerifOK && bytes.Equal(dec, p.pt)
				if mustOpen && !ok {
					fmt.Fprintf(w, "MONFAIL\tkeyphase/roundtrip/local-update-after-timer-drop\t%s: genuine packet of phase %d delivered in phase %d was rejected with class %d\tsuite=%#x %v\n", what, p.gen, before, cls, suite, trace)
				}
				return ok
			}
			// phase 0 exchange, ACK, local update of a to phase 1
			open(b, 1, seal(a, 0), true, "phase 0")
			open(a, 0, seal(b, 1), true, "phase 0")
			a.SetLargestAcked(0)
			a.KeyPhaseBit()
			if a.Phase() != 1 {
				fmt.Fprintf(w, "INFO\tscripted: a did not update to phase 1\n")
				return
			}
			p1 := seal(a, 0)
			open(b, 1, p1, true, "peer accepts update 0->1")
			now += 10_000_000
			open(a, 0, seal(b, 1), true, "peer confirms update 0->1") // starts a's drop timer
			a.SetLargestAcked(protocol.PacketNumber(p1.pn))
			// the drop timer fires: previous (phase 0) keys dropped inside Open
			now += pto3 + 50_000_000
			seal(a, 0) // second packet of phase 1: KeyUpdateInterval reached
			open(a, 0, seal(b, 1), true, "phase 1 after the timer")
			if a.HasPrevKeys() {
				fmt.Fprintf(w, "INFO\tscripted: previous keys still present after the timer\n")
			}
			// a initiates 1->2 itself; b has not learned of it and keeps sending phase-1 packets
			a.KeyPhaseBit()
			if a.Phase() != 2 {
				fmt.Fprintf(w, "INFO\tscripted: a did not update to phase 2 (phase %d)\n", a.Phase())
				return
			}
			step("side0 initiated update 1->2")
			for i := 0; i < 3; i++ {
				now += 20_000_000 // well inside 3*PTO
				open(a, 0, seal(b, 1), true, "peer's phase-1 packet after the local update 1->2")
			}
			// the peer learns of the update and confirms; afterwards old packets open for 3*PTO more
			late := seal(b, 1)
			open(b, 1, seal(a, 0), true, "peer accepts update 1->2")
			now += 5_000_000
			open(a, 0, seal(b, 1), true, "peer confirms update 1->2")
			now += pto3 / 2
			open(a, 0, late, true, "reordered phase-1 packet within 3*PTO of the confirmation")
		}()
	}
}
