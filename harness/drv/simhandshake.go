//go:build verif

package main

// simhandshake: C13 integration scenario (monitor-only). Real client (plain quic.Transport, UTransport
// without spec, Chrome parrots) and real server over simnet in a synctest bubble:
//   scenarios   with/without Retry (Transport.VerifySourceAddress), with/without version negotiation
//               (client offers a version the server does not speak), short and 12-certificate chains,
//               session resumption with 0-RTT accepted / rejected;
//   faults      <= 2 faults (drop, dup, delay, flip, trunc) over the first 12 datagrams of each direction
//               (thorough: every single fault of every scenario, sampled pairs; quick: random);
//   attacker    on-path injection towards the client, at every position, of: Version Negotiation (other
//               versions / listing ours), Retry (bad tag / good tag with attacker CIDs), Initial with
//               PING or CONNECTION_CLOSE under valid Initial keys with an attacker SCID, and (explored
//               only) a CONNECTION_CLOSE Initial carrying the genuine server SCID.
// Monitors (all model-independent):
//   converge     bounded faults (+ inert injection): Dial and Accept both succeed, same version and ALPN,
//                an echo works
//   clean-fail   otherwise: a failed Dial returns a non-nil error; never "Dial failed, Accept succeeded"
//   time         Dial returns within (1 + #re-creations) * handshake timeout + eps of virtual time
//   inert        injection of a Retry / VN / attacker-SCID Initial after the client has processed a genuine
//                server packet: the handshake completes exactly as expected
//   bad-tag      a Retry with an invalid tag, or a VN listing the offered version, at any position: same
//   no-attacker-ids  a completed handshake never authenticated attacker connection IDs; client CID state
//                agrees with the wire (handshake DCID = server SCID, retry SCID = genuine Retry's SCID)
//   one-retry    no client connection accepted more than one Retry (sent Initials use <= 2 DCIDs per attempt)
//   released     after a failed handshake the server's routing map empties without outside help
//   0rtt         accepted: the server application reads the early data exactly once; rejected: never
//   leak         the bubble ends (no goroutine left blocked), no panic

import (
	"bufio"
	"bytes"
	"context"
	crand "crypto/rand"
	"encoding/binary"
	"errors"
	"fmt"
	"io"
	"net"
	"os"
	"os/exec"
	"runtime"
	"strings"
	"sync"
	"time"

	quic "github.com/refraction-networking/uquic"
	u "github.com/refraction-networking/uquic/internal/verifutil"
	"github.com/refraction-networking/uquic/testutils/simnet"
	tls "github.com/refraction-networking/utls"
)

func init() { units["simhandshake"] = runSimHandshake }

const (
	injVNOther = iota
	injVNOurs
	injRetryBad
	injRetryGood
	injInitialPing
	injInitialClose
	injInitialCloseGenuineSCID
	injRetryGoodCur
	injReplayBefore // a copy of the client's own datagram, sent to the server from another source address just before it
	injReplayAfter  // ... just after it
	injNumKinds
)

var injNames = []string{"vn-other", "vn-ours", "retry-badtag", "retry-goodtag", "initial-ping", "initial-close", "initial-close-genuine-scid", "retry-goodtag-curdcid", "replay-before", "replay-after"}

type hsInj struct {
	Dir, Idx, Kind int
}

type hsCase struct {
	Client    string
	Retry     bool
	VN        bool
	LongChain bool
	Mode      string // "", "0rtt", "0rtt-reject"
	TwoVers   bool   // client offers two versions (both spoken by the server)
	EarlyVar  int    // 0-RTT modes: 0 one stream written and closed early; 1 two streams, the second left open until the
	                 // handshake is done; 2 like 0, and after a rejection the application re-sends on NextConnection
	V6        bool   // client, server and attacker have IPv6 addresses
	EchoDCID  bool   // the server uses the client's original DCID as its own source connection ID (legal)
	Faults    []fault
	Inj       *hsInj
	Seed      uint64
}

func (c hsCase) String() string {
	fs := make([]string, len(c.Faults))
	for i, f := range c.Faults {
		fs[i] = f.String()
	}
	inj := "-"
	if c.Inj != nil {
		inj = fmt.Sprintf("%s@%s#%d", injNames[c.Inj.Kind], []string{"c>s", "s>c"}[c.Inj.Dir], c.Inj.Idx)
	}
	return fmt.Sprintf("client=%s retry=%v vn=%v longchain=%v twovers=%v echo=%v v6=%v mode=%q/%d faults=[%s] inject=%s seed=%d", c.Client, c.Retry, c.VN, c.LongChain, c.TwoVers, c.EchoDCID, c.V6, c.Mode, c.EarlyVar, strings.Join(fs, " "), inj, c.Seed)
}

// ---- minimal wire reader of the on-path attacker ----

type hsHdr struct {
	long    bool
	version uint32
	typ     int // 0 Initial, 1 0-RTT, 2 Handshake, 3 Retry, -1 Version Negotiation
	dcid    []byte
	scid    []byte
}

func hsParse(b []byte) (h hsHdr, ok bool) {
	if len(b) < 7 || b[0]&0x80 == 0 {
		return h, false
	}
	h.long = true
	h.version = binary.BigEndian.Uint32(b[1:5])
	dl := int(b[5])
	if len(b) < 6+dl+1 {
		return h, false
	}
	h.dcid = append([]byte{}, b[6:6+dl]...)
	sl := int(b[6+dl])
	if len(b) < 7+dl+sl {
		return h, false
	}
	h.scid = append([]byte{}, b[7+dl:7+dl+sl]...)
	t := int(b[0]>>4) & 3
	switch {
	case h.version == 0:
		h.typ = -1
	case h.version == uint32(quic.Version2):
		h.typ = []int{3, 0, 1, 2}[t]
	default:
		h.typ = t
	}
	return h, true
}

// hsEchoGen: a server ConnectionIDGenerator that answers the next request with the client's original
// destination connection ID (8 bytes), once per connection attempt; random otherwise.
type hsEchoGen struct {
	mu   sync.Mutex
	next []byte
	used int
}

func (g *hsEchoGen) ConnectionIDLen() int { return 8 }
func (g *hsEchoGen) GenerateConnectionID() (quic.ConnectionID, error) {
	g.mu.Lock()
	defer g.mu.Unlock()
	if len(g.next) == 8 {
		id := quic.ConnectionIDFromBytes(g.next)
		g.next = nil
		g.used++
		return id, nil
	}
	b := make([]byte, 8)
	if _, err := crand.Read(b); err != nil {
		return quic.ConnectionID{}, err
	}
	return quic.ConnectionIDFromBytes(b), nil
}
func (g *hsEchoGen) offer(dcid []byte) {
	g.mu.Lock()
	g.next = append([]byte{}, dcid...)
	g.mu.Unlock()
}

type hsAttacker struct {
	attAddr net.Addr
	sendRaw func(simnet.Packet)
	echo    *hsEchoGen
	mu        sync.Mutex
	c         hsCase
	cliAddr   net.Addr
	srvAddr   net.Addr
	attSCID   []byte
	firstDCID []byte // DCID of the first Initial of the current connection attempt
	curDCID   []byte // DCID the client currently puts into its Initials
	cliSCID   []byte
	cliVer    uint32
	srvSCID   []byte // SCID of genuine server long header packets
	// bookkeeping for the monitors
	genuineDelivered bool // a genuine non-Retry server datagram was released towards the client
	armed            bool
	replayedTyp      int
	replayedLen      int
	replayedEarly    bool
	vnCorrupted      bool
	genuineRetryDelivered bool
	genuineOnItsWay       bool
	injectedAfterRetry    bool
	injected         bool
	injectedInert    bool // ... at a point where the client had already been sent a genuine packet
	injSkipped       bool
	attempts         int // number of connection attempts seen (distinct client SCID / version pairs)
	seenAttempt      map[string]bool
	srvSCIDs         map[string]bool
	dcidsPerAttempt  map[string]map[string]bool
	genuineRetrySCID [][]byte
	firstDCIDs       [][]byte
}

// firstCorrupted: is the datagram altered on its way (the echoing server would then see, and echo, another DCID:
// the scenario degenerates to a random SCID)
func (a *hsAttacker) firstCorrupted(dir, idx int) bool {
	for _, f := range a.c.Faults {
		// (any corrupted datagram of the client's first flight may be the one the server answers first)
		if f.Dir == dir && f.Idx <= idx+3 && (f.Kind == fFlip || f.Kind == fTrunc) {
			return true
		}
	}
	return false
}

func (a *hsAttacker) observe(dir, idx int, data []byte) {
	a.mu.Lock()
	defer a.mu.Unlock()
	h, ok := hsParse(data)
	if dir == 0 {
		if !ok || h.typ != 0 {
			return
		}
		key := fmt.Sprintf("%x/%x", h.scid, h.version)
		if !a.seenAttempt[key] {
			// a new connection attempt (first dial, or the re-creation after a version negotiation)
			a.seenAttempt[key] = true
			if a.echo != nil && !a.firstCorrupted(dir, idx) {
				a.echo.offer(h.dcid)
			}
			a.cliSCID = h.scid
			a.firstDCID = h.dcid
			a.firstDCIDs = append(a.firstDCIDs, h.dcid)
			a.attempts++
			a.srvSCID = nil
			a.cliVer = h.version
			a.dcidsPerAttempt[key] = map[string]bool{}
		}
		if bytes.Equal(h.scid, a.cliSCID) && h.version == a.cliVer {
			a.curDCID = h.dcid
		}
		if !a.genuineOnItsWay && !bytes.Equal(h.dcid, a.attSCID) && !a.srvSCIDs[string(h.dcid)] {
			// before any genuine server packet is under way the DCID can only be the original one or a Retry's SCID
			a.dcidsPerAttempt[key][string(h.dcid)] = true
		}
		return
	}
	if ok && h.typ == 3 {
		a.genuineRetrySCID = append(a.genuineRetrySCID, h.scid)
	}
	if ok && (h.typ == 0 || h.typ == 2) {
		a.srvSCID = h.scid
		a.srvSCIDs[string(h.scid)] = true
	}
}

// released: called by the inject hook for every genuine datagram after the injection decision.
func (a *hsAttacker) noteGenuine(dir, idx int, data []byte, act string) {
	if dir != 1 {
		return
	}
	h, ok := hsParse(data)
	if ok && h.typ == -1 && (strings.Contains(act, "flip") || strings.Contains(act, "trunc")) {
		a.vnCorrupted = true // nothing authenticates a Version Negotiation packet: corrupting one is an attack of its own
	}
	if ok && h.typ == 0 && strings.Contains(act, "delay") {
		a.genuineOnItsWay = true // will arrive: from then on the client may use server-issued connection IDs
	}
	if !(act == "deliver" || strings.Contains(act, "dup")) {
		return
	}
	if ok && h.typ == 0 {
		a.genuineOnItsWay = true
	}
	if ok && h.typ == 3 {
		a.genuineRetryDelivered = true // an intact genuine Retry is under way: the client accepts it, later ones are void
	}
	if ok && h.typ == 0 {
		// an intact datagram that starts with a server Initial: the client will have authenticated a packet
		// (Handshake packets alone do not count: without the ServerHello the client cannot open them)
		a.genuineDelivered = true
	}
}

func (a *hsAttacker) build(kind int) [][]byte {
	if a.curDCID == nil {
		return nil
	}
	ver := quic.Version(a.cliVer)
	other := uint32(quic.Version2)
	if a.cliVer == uint32(quic.Version2) {
		other = uint32(quic.Version1)
	}
	switch kind {
	case injVNOther:
		return [][]byte{quic.VerifVNPacket(0x4a, a.cliSCID, a.curDCID, []uint32{other, 0x1a2a3a4a})}
	case injVNOurs:
		return [][]byte{quic.VerifVNPacket(0x4a, a.cliSCID, a.curDCID, []uint32{0x1a2a3a4a, a.cliVer, other})}
	case injRetryBad, injRetryGood, injRetryGoodCur:
		body, err := quic.VerifRetryBody(ver, a.cliSCID, a.attSCID, []byte("attacker-token"))
		if err != nil {
			return nil
		}
		tag := quic.VerifRetryTag(body, a.firstDCID, ver)
		if kind == injRetryBad {
			tag[[]int{0, 5, 15}[int(a.c.Seed%3)]] ^= 1 << uint(a.c.Seed%8)
		}
		if kind == injRetryGoodCur {
			tag = quic.VerifRetryTag(body, a.curDCID, ver) // valid for the DCID in use (differs from the original after a Retry)
		}
		return [][]byte{append(body, tag...)}
	case injInitialPing, injInitialClose, injInitialCloseGenuineSCID:
		pl := quic.VerifFramePing()
		if kind != injInitialPing {
			pl = quic.VerifFrameClose(0x2, "attacker")
		}
		scid := a.attSCID
		if kind == injInitialCloseGenuineSCID {
			if a.srvSCID == nil {
				return nil
			}
			scid = a.srvSCID
		}
		d, err := quic.VerifLongPacket(0, ver, a.cliSCID, scid, nil, a.curDCID, false, 5, pl)
		if err != nil {
			return nil
		}
		return [][]byte{d}
	}
	return nil
}

func (a *hsAttacker) inject(dir, idx int, p simnet.Packet) []simnet.Packet {
	a.mu.Lock()
	defer a.mu.Unlock()
	var out []simnet.Packet
	if a.armed && a.c.Inj != nil && a.c.Inj.Dir == dir && a.c.Inj.Idx == idx && !a.injected {
		a.injected = true
		if k := a.c.Inj.Kind; k == injReplayBefore || k == injReplayAfter {
			h, ok := hsParse(p.Data)
			if dir != 0 || !ok {
				a.injSkipped = true
				return nil
			}
			a.replayedTyp = h.typ
			a.replayedLen = len(p.Data)
			a.replayedEarly = !a.genuineOnItsWay // the server has not yet answered with anything but a Retry
			q := simnet.Packet{To: a.srvAddr, From: a.attAddr, Data: append([]byte(nil), p.Data...)}
			a.injectedInert = a.genuineDelivered
			if k == injReplayBefore {
				return []simnet.Packet{q}
			}
			send := a.sendRaw
			time.AfterFunc(100*time.Microsecond, func() { send(q) })
			return nil
		}
		pk := a.build(a.c.Inj.Kind)
		if pk == nil {
			a.injSkipped = true
		}
		for _, d := range pk {
			out = append(out, simnet.Packet{To: a.cliAddr, From: a.srvAddr, Data: d})
		}
		a.injectedInert = a.genuineDelivered
		a.injectedAfterRetry = a.genuineRetryDelivered
	}
	return out
}

// hsRouter: the fault router plus a sink for whatever the endpoints send to the attacker's own address
// (answers to replayed packets); those datagrams are not part of the client<->server datagram numbering.
type hsRouter struct {
	*faultRouter
	attAddr string
	amu     sync.Mutex
	toAtt   [][]byte
}

func (r *hsRouter) SendPacket(p simnet.Packet) error {
	if p.To.String() == r.attAddr {
		r.amu.Lock()
		r.toAtt = append(r.toAtt, append([]byte(nil), p.Data...))
		r.amu.Unlock()
		return nil
	}
	return r.faultRouter.SendPacket(p)
}

func hsAddrs(v6 bool) (cli, srv, att *net.UDPAddr) {
	if v6 {
		return &net.UDPAddr{IP: net.ParseIP("2001:db8::1"), Port: 9001}, &net.UDPAddr{IP: net.ParseIP("2001:db8::2"), Port: 9002},
			&net.UDPAddr{IP: net.ParseIP("2001:db8:bad::666"), Port: 6666}
	}
	return &net.UDPAddr{IP: net.ParseIP("1.0.0.1"), Port: 9001}, &net.UDPAddr{IP: net.ParseIP("1.0.0.2"), Port: 9002},
		&net.UDPAddr{IP: net.ParseIP("6.6.6.6"), Port: 6666}
}

// hsNewEnv is simcore's newSimEnv with selectable address family and the attacker sink (simcore.go is not ours to edit).
func hsNewEnv(o simOpts, v6 bool) (*simEnv, *hsRouter, error) {
	srvTLS, longTLS, cliTLS := simTLS()
	if o.LongChain {
		srvTLS = longTLS
	}
	if o.ServerTLS != nil {
		o.ServerTLS(srvTLS)
	}
	if o.ClientTLS != nil {
		o.ClientTLS(cliTLS)
	}
	cliAddr, srvAddr, attAddr := hsAddrs(v6)
	r := &faultRouter{clientAddr: cliAddr.String(), start: time.Now(), sched: map[[2]int]fault{}, randDrop: o.RandDrop}
	for _, f := range o.Faults {
		r.sched[[2]int{f.Dir, f.Idx}] = f
	}
	hr := &hsRouter{faultRouter: r, attAddr: attAddr.String()}
	n := &simnet.Simnet{Router: hr}
	settings := simnet.NodeBiDiLinkSettings{Latency: 5 * time.Millisecond}
	e := &simEnv{Router: r, Net: n, SrvAddr: srvAddr, CliTLS: cliTLS, Start: r.start}
	e.CliPC = n.NewEndpoint(cliAddr, settings)
	e.SrvPC = n.NewEndpoint(srvAddr, settings)
	if err := n.Start(); err != nil {
		return nil, nil, err
	}
	e.SrvTr = &quic.Transport{Conn: e.SrvPC}
	if o.SrvTr != nil {
		o.SrvTr(e.SrvTr)
	}
	sc := o.ServerConf
	if sc == nil {
		sc = &quic.Config{}
	}
	ln, err := e.SrvTr.Listen(srvTLS, sc)
	if err != nil {
		return nil, nil, err
	}
	e.Ln = ln
	e.CliTr = &quic.Transport{Conn: e.CliPC}
	if o.CliTr != nil {
		o.CliTr(e.CliTr)
	}
	if !o.PlainPath {
		e.CliUTr = &quic.UTransport{Transport: e.CliTr, QUICSpec: o.Spec}
	}
	e.CliConf = o.ClientConf
	if e.CliConf == nil {
		e.CliConf = &quic.Config{}
	}
	return e, hr, nil
}

// ---- one simulated handshake ----

type hsResult struct {
	srvRemote          string
	valid              bool
	deadOnReturn       error
	dialErr, acceptErr error
	dialTime           time.Duration
	cliVer, srvVer     quic.Version
	cliALPN, srvALPN   string
	conns              []quic.VerifCAState
	used0RTT           [2]bool
	resumed            bool
	srvEarlyData       [][]byte
}

func runOneHS(c hsCase) (fails []monFail, info string, traces []string) {
	var tracedConns []*quic.VerifCATraced
	var cliVersions []quic.Version
	var mu sync.Mutex
	fail := func(key, desc string) {
		mu.Lock()
		fails = append(fails, monFail{key, desc})
		mu.Unlock()
	}
	var res hsResult
	var att *hsAttacker
	var router *hsRouter
	var dump string
	const hsIdle = 5 * time.Second
	expectVer := quic.Version1
	body := func() {
		var cliConns []*quic.Conn
		var traced []*quic.VerifCATraced
		restore := quic.VerifHookClientConnsTraced(func(t *quic.VerifCATraced) {
			cliConns = append(cliConns, t.Conn)
			traced = append(traced, t)
		})
		defer restore()
		srvConf := &quic.Config{HandshakeIdleTimeout: hsIdle, MaxIdleTimeout: 20 * time.Second, Allow0RTT: c.Mode != ""}
		cliConf := &quic.Config{HandshakeIdleTimeout: hsIdle, MaxIdleTimeout: 20 * time.Second}
		switch {
		case c.VN:
			srvConf.Versions = []quic.Version{quic.Version1}
			cliConf.Versions = []quic.Version{quic.Version2, quic.Version1}
		case c.TwoVers:
			cliConf.Versions = []quic.Version{quic.Version1, quic.Version2}
		case c.Seed%2 == 1 && (c.Client == "plain" || c.Client == "unil"):
			cliConf.Versions = []quic.Version{quic.Version2}
			expectVer = quic.Version2
		default:
			cliConf.Versions = []quic.Version{quic.Version1}
		}
		cliVersions = cliConf.Versions
		o := simOpts{ServerConf: srvConf, ClientConf: cliConf, LongChain: c.LongChain}
		if c.Mode == "" {
			o.Faults = c.Faults
		}
		if c.Retry {
			o.SrvTr = func(t *quic.Transport) { t.VerifySourceAddress = func(net.Addr) bool { return true } }
		}
		var echo *hsEchoGen
		if c.EchoDCID {
			echo = &hsEchoGen{}
			o.SrvTr = func(t *quic.Transport) { t.ConnectionIDGenerator = echo }
			restoreLen := quic.VerifSetInitialDCIDLen(8)
			defer restoreLen()
		}
		cache := tls.NewLRUClientSessionCache(4)
		if c.Mode != "" {
			o.ClientTLS = func(t *tls.Config) { t.ClientSessionCache = cache }
		}
		switch c.Client {
		case "plain":
			o.PlainPath = true
		case "unil":
		default:
			sp, err := specFor(c.Client)
			if err != nil {
				fail("simhandshake/spec", err.Error())
				return
			}
			o.Spec = sp
		}
		e, hr, err := hsNewEnv(o, c.V6)
		if err != nil {
			fail("simhandshake/env", err.Error())
			return
		}
		defer e.Close()
		cliAddr, _, attAddr := hsAddrs(c.V6)
		router = hr
		att = &hsAttacker{echo: echo, c: c, cliAddr: cliAddr, attAddr: attAddr, sendRaw: func(q simnet.Packet) { _ = e.Router.PerfectRouter.SendPacket(q) }, srvAddr: e.SrvAddr, attSCID: []byte{0xa7, 0x7a, 0xc4, 0xe1, 0x5c, 0x1d, 0x00, 0x01}, dcidsPerAttempt: map[string]map[string]bool{}, seenAttempt: map[string]bool{}, srvSCIDs: map[string]bool{}}
		att.armed = c.Mode == ""
		e.Router.onPacket = att.observe
		e.Router.inject = func(dir, idx int, p simnet.Packet) []simnet.Packet {
			out := att.inject(dir, idx, p)
			act := "deliver"
			if f, has := e.Router.sched[[2]int{dir, idx}]; has {
				act = f.String()
			}
			att.mu.Lock()
			att.noteGenuine(dir, idx, p.Data, act)
			if f, has := e.Router.sched[[2]int{dir, idx}]; has && f.Kind == fFlip && dir == 1 && len(p.Data) > 0 {
				// a bit flip that turns a server packet into something with version 0 makes it a Version Negotiation
				// packet (v1 = 0x00000001 is one bit away): nothing authenticates it, same class as a forged one
				q := append([]byte(nil), p.Data...)
				bit := f.Arg % (len(q) * 8)
				q[bit/8] ^= 1 << uint(bit%8)
				if h, ok := hsParse(q); ok && h.version == 0 {
					att.vnCorrupted = true
				}
			}
			att.mu.Unlock()
			return out
		}

		type acc struct {
			conn *quic.Conn
			err  error
		}
		var accept func(ctx context.Context) (*quic.Conn, error) = e.Ln.Accept
		var closeLn = func() {}
		if c.Mode != "" {
			// 0-RTT needs an EarlyListener; ticket keys live in the tls.Config shared by both connections
			e.Ln.Close()
			srvTLS, _, _ := simTLS()
			eln, err := e.SrvTr.ListenEarly(srvTLS, srvConf)
			if err != nil {
				fail("simhandshake/env", err.Error())
				return
			}
			accept = eln.Accept
			closeLn = func() { eln.Close() }
			// first connection: obtain a session ticket
			ctx, cancel := context.WithTimeout(context.Background(), 30*time.Second)
			ach := make(chan acc, 1)
			go func() { sc, err := accept(ctx); ach <- acc{sc, err} }()
			c1, err := e.Dial(ctx)
			if err != nil {
				cancel()
				fail("simhandshake/0rtt-setup", "first dial failed: "+err.Error())
				<-ach
				closeLn()
				return
			}
			a1 := <-ach
			time.Sleep(200 * time.Millisecond) // session ticket + NEW_TOKEN arrive
			c1.CloseWithError(0, "")
			if a1.conn != nil {
				<-a1.conn.Context().Done()
			}
			cancel()
			if c.Mode == "0rtt-reject" {
				// the server stops accepting early data (same ticket keys)
				eln.Close()
				srvConf2 := srvConf.Clone()
				srvConf2.Allow0RTT = false
				eln2, err := e.SrvTr.ListenEarly(srvTLS, srvConf2)
				if err != nil {
					fail("simhandshake/env", err.Error())
					return
				}
				accept = eln2.Accept
				closeLn = func() { eln2.Close() }
			}
			// the schedule applies to the second connection
			e.Router.mu.Lock()
			e.Router.cnt = [2]int{}
			for _, f := range c.Faults {
				e.Router.sched[[2]int{f.Dir, f.Idx}] = f
			}
			e.Router.mu.Unlock()
			cliConns = nil
			traced = nil
			att.mu.Lock()
			att.attempts, att.firstDCIDs, att.genuineRetrySCID, att.genuineDelivered = 0, nil, nil, false
			att.dcidsPerAttempt, att.seenAttempt, att.srvSCIDs = map[string]map[string]bool{}, map[string]bool{}, map[string]bool{}
			att.cliSCID, att.curDCID, att.firstDCID, att.srvSCID = nil, nil, nil, nil
			att.armed = true
			att.genuineRetryDelivered, att.vnCorrupted, att.genuineOnItsWay = false, false, false
			att.mu.Unlock()
		}
		defer closeLn()

		ctx, cancel := context.WithTimeout(context.Background(), 90*time.Second)
		defer cancel()
		ach := make(chan acc, 1)
		earlyData := []byte("early-data:" + strings.Repeat("z", 300))
		earlyData2 := []byte("early-data-2:" + strings.Repeat("y", 2500))
		resent := []byte("resent-after-rejection:" + strings.Repeat("r", 500))
		var openEarly *quic.Stream
		didResend := false
		var srvStreams [][]byte
		srvStreamsDone := make(chan struct{})
		go func() {
			sc, err := accept(ctx)
			ach <- acc{sc, err}
			if err != nil || c.Mode == "" {
				close(srvStreamsDone)
				return
			}
			// 0-RTT modes: the server application reads every stream it is offered during 3 s
			sctx, scancel := context.WithTimeout(ctx, 3*time.Second)
			defer scancel()
			for {
				s, err := sc.AcceptStream(sctx)
				if err != nil {
					break
				}
				b, _ := io.ReadAll(s)
				mu.Lock()
				srvStreams = append(srvStreams, b)
				mu.Unlock()
				s.Close()
			}
			close(srvStreamsDone)
		}()
		t0 := time.Now()
		res.valid = true
		var cc *quic.Conn
		if c.Mode != "" {
			if e.CliUTr != nil {
				cc, err = e.CliUTr.DialEarly(ctx, e.SrvAddr, e.CliTLS.Clone(), e.CliConf)
			} else {
				cc, err = e.CliTr.DialEarly(ctx, e.SrvAddr, e.CliTLS.Clone(), e.CliConf)
			}
		} else {
			cc, err = e.Dial(ctx)
		}
		res.dialErr = err
		res.dialTime = time.Since(t0)
		if err == nil && cc != nil {
			// a nil error promises a live connection (1 ns of virtual time lets a run loop that is already
			// on its way out finish: nothing can arrive from the network in that time)
			time.Sleep(time.Nanosecond)
			select {
			case <-cc.Context().Done():
				res.deadOnReturn = context.Cause(cc.Context())
				if res.deadOnReturn == nil {
					res.deadOnReturn = errors.New("context done")
				}
			default:
			}
		}
		var earlyWriteErr error
		if err == nil && c.Mode != "" {
			// write early data right away (0-RTT if the ticket allowed it)
			s, serr := cc.OpenStream()
			if serr == nil {
				_, serr = s.Write(earlyData)
				if serr == nil {
					serr = s.Close()
				}
			}
			earlyWriteErr = serr
			if c.EarlyVar == 1 {
				if s2, err2 := cc.OpenStream(); err2 == nil {
					if _, err2 = s2.Write(earlyData2); err2 == nil {
						openEarly = s2
					}
				}
			}
			select {
			case <-cc.HandshakeComplete():
				// an early connection reports failure through its context; a connection that was destroyed
				// (e.g. by a forged Version Negotiation) while the handshake completed in the same batch of
				// packets has both channels closed: the context decides
				time.Sleep(time.Nanosecond)
				select {
				case <-cc.Context().Done():
					res.dialErr = context.Cause(cc.Context())
					if res.dialErr == nil {
						res.dialErr = errors.New("connection closed")
					}
				default:
				}
			case <-cc.Context().Done():
				res.dialErr = context.Cause(cc.Context())
				if errors.Is(res.dialErr, quic.Err0RTTRejected) {
					// the rejected early connection is replaced
					nc, nerr := cc.NextConnection(ctx)
					if nerr != nil {
						res.dialErr = nerr
					} else {
						res.dialErr = nil
						cc = nc
						res.used0RTT[0] = false
					}
				}
			case <-ctx.Done():
				res.dialErr = ctx.Err()
			}
			res.dialTime = time.Since(t0)
			if res.dialErr == nil {
				rejected := !cc.ConnectionState().Used0RTT
				if openEarly != nil {
					openEarly.Close() // accepted: completes the stream; rejected: the stream is gone
				}
				if rejected && c.EarlyVar == 2 {
					// the documented way on: take the connection over and send again, as 1-RTT data
					if nc, nerr := cc.NextConnection(ctx); nerr == nil {
						cc = nc
						if s3, err3 := cc.OpenStream(); err3 == nil {
							if _, err3 = s3.Write(resent); err3 == nil && s3.Close() == nil {
								didResend = true
							}
						} else {
							fail("simhandshake/0rtt-next", "OpenStream on NextConnection after a rejection: "+err3.Error())
						}
					} else {
						fail("simhandshake/0rtt-next", "NextConnection after a rejection: "+nerr.Error())
					}
				}
			}
		}
		var a acc
		if res.dialErr == nil {
			select {
			case a = <-ach:
			case <-time.After(40 * time.Second):
				a = acc{nil, errors.New("Accept did not return within 40 s after Dial succeeded")}
			}
		} else {
			// give the server the chance to (wrongly) complete
			select {
			case a = <-ach:
			case <-time.After(2*hsIdle + 2*time.Second):
				a = acc{nil, errors.New("no connection accepted")}
			}
		}
		res.acceptErr = a.err
		if res.dialErr == nil {
			st := cc.ConnectionState()
			res.cliVer, res.cliALPN, res.used0RTT[0], res.resumed = st.Version, st.TLS.NegotiatedProtocol, st.Used0RTT, st.TLS.DidResume
		}
		if a.conn != nil {
			if c.Mode != "" {
				select {
				case <-a.conn.HandshakeComplete():
				case <-a.conn.Context().Done():
				case <-time.After(40 * time.Second):
				}
			}
			st := a.conn.ConnectionState()
			res.srvVer, res.srvALPN, res.used0RTT[1] = st.Version, st.TLS.NegotiatedProtocol, st.Used0RTT
			res.srvRemote = a.conn.RemoteAddr().String()
		}
		// usable in both directions?
		if res.dialErr == nil && a.conn != nil && c.Mode == "" {
			ectx, ecancel := context.WithTimeout(ctx, 30*time.Second)
			go func() {
				s, err := a.conn.AcceptStream(ectx)
				if err != nil {
					return
				}
				b, _ := io.ReadAll(s)
				s.Write(b)
				s.Close()
			}()
			msg := []byte("ping-" + strings.Repeat("x", 700))
			s, err := cc.OpenStreamSync(ectx)
			if err == nil {
				s.Write(msg)
				s.Close()
				var got []byte
				got, err = io.ReadAll(s)
				if err == nil && !bytes.Equal(got, msg) {
					err = fmt.Errorf("echo returned %d bytes, sent %d", len(got), len(msg))
				}
			}
			if err != nil {
				fail("simhandshake/echo", "after a completed handshake a stream echo failed: "+err.Error())
			}
			ecancel()
		}
		if c.Mode != "" {
			<-srvStreamsDone
			mu.Lock()
			res.srvEarlyData = srvStreams
			mu.Unlock()
			if res.dialErr == nil && a.conn != nil {
				n, n2, nr := 0, 0, 0
				for _, b := range srvStreams {
					switch {
					case bytes.Equal(b, earlyData):
						n++
					case bytes.Equal(b, earlyData2):
						n2++
					case bytes.Equal(b, resent):
						nr++
					default:
						fail("simhandshake/0rtt-data", fmt.Sprintf("server application read %d bytes that no stream of the client carried (%q...)", len(b), b[:min(len(b), 24)]))
					}
				}
				if c.EarlyVar == 1 {
					switch {
					case res.used0RTT[0] && res.used0RTT[1] && n2 != 1:
						fail("simhandshake/0rtt-once", fmt.Sprintf("0-RTT accepted: the second early stream was delivered %d times", n2))
					case !res.used0RTT[0] && !res.used0RTT[1] && c.Mode == "0rtt-reject" && n2 != 0:
						fail("simhandshake/0rtt-rejected-delivered", fmt.Sprintf("0-RTT rejected but the second early stream reached the server application %d times", n2))
					}
				}
				if didResend && nr != 1 {
					fail("simhandshake/0rtt-resend", fmt.Sprintf("data sent on NextConnection after the rejection was delivered %d times", nr))
				}
				if !didResend && nr != 0 {
					fail("simhandshake/0rtt-data", "server read data the client never sent")
				}
				switch {
				case res.used0RTT[0] && res.used0RTT[1]:
					if n != 1 || earlyWriteErr != nil {
						fail("simhandshake/0rtt-once", fmt.Sprintf("0-RTT accepted: early data delivered %d times (write error %v)", n, earlyWriteErr))
					}
				case res.used0RTT[0] != res.used0RTT[1]:
					fail("simhandshake/0rtt-agree", fmt.Sprintf("client Used0RTT=%v, server Used0RTT=%v", res.used0RTT[0], res.used0RTT[1]))
				default:
					// not used / rejected: data written on the rejected connection must never surface
					if c.Mode == "0rtt-reject" && n != 0 {
						fail("simhandshake/0rtt-rejected-delivered", fmt.Sprintf("0-RTT rejected but the early data reached the server application %d times", n))
					}
					if n > 1 {
						fail("simhandshake/0rtt-once", fmt.Sprintf("early data delivered %d times", n))
					}
				}
			}
		}
		for _, x := range cliConns {
			res.conns = append(res.conns, quic.VerifConnAcceptState(x))
		}
		// close
		if cc != nil {
			cc.CloseWithError(0, "")
		}
		tracedConns = traced
		if a.conn != nil {
			select {
			case <-a.conn.Context().Done():
			case <-time.After(30 * time.Second):
				fail("simhandshake/close", "server connection did not end within 30 s of the client's close")
				a.conn.CloseWithError(0, "")
			}
		}
		if res.dialErr != nil && a.conn == nil {
			// failed handshake: the server must let go of its half-open connection by itself
			time.Sleep(2*hsIdle + 5*time.Second)
			if n := quic.VerifTransportHandlers(e.SrvTr); n != 0 {
				fail("simhandshake/released", fmt.Sprintf("%d routing entries left on the server %v after the failed handshake", n, 2*hsIdle+5*time.Second))
			}
		}
		cancel()
		if os.Getenv("VERIF_HS_DUMP") != "" {
			dump = hsDumpLog(e)
		}
	}
	if err := inBubbleWatchdog(body, 120*time.Second); err != nil {
		fail("simhandshake/leak-or-panic", err.Error())
		return fails, "bubble error", nil
	}
	if att == nil || !res.valid {
		return fails, "no run", nil
	}
	// ---- monitors on the result ----
	att.mu.Lock()
	defer att.mu.Unlock()
	nf := len(c.Faults)
	injKind := -1
	if c.Inj != nil && att.injected && !att.injSkipped {
		injKind = c.Inj.Kind
	}
	replay := injKind == injReplayBefore || injKind == injReplayAfter
	// a replay from another address: with address validation (Retry) it can never matter — the first Initial gets
	// a (stateless) Retry, the token-carrying one INVALID_TOKEN; without it, only a copy that arrives AFTER the
	// genuine datagram is harmless (the first Initial a server sees binds the connection to its sender)
	alwaysInert := injKind == -1 || injKind == injRetryBad || injKind == injVNOurs ||
		(replay && c.Retry && c.Mode == "") || injKind == injReplayAfter
	inertNow := alwaysInert || (att.injectedInert && injKind != injInitialCloseGenuineSCID) ||
		(att.injectedAfterRetry && (injKind == injRetryGood || injKind == injRetryGoodCur))
	if c.VN {
		expectVer = quic.Version1
	}
	ok := res.dialErr == nil && res.acceptErr == nil
	if inertNow && nf <= 2 && !att.vnCorrupted {
		// must converge exactly as without the attacker
		if !ok {
			key := "simhandshake/converge"
			if injKind >= 0 {
				key = "simhandshake/inert/" + injNames[injKind]
			}
			fail(key, fmt.Sprintf("handshake did not complete: dial=%v accept=%v", res.dialErr, res.acceptErr))
		} else if res.cliVer != expectVer && !c.TwoVers {
			fail("simhandshake/version", fmt.Sprintf("negotiated version %v, expected %v", res.cliVer, expectVer))
		} else if c.TwoVers && res.cliVer != quic.Version1 {
			fail("simhandshake/inert-version", fmt.Sprintf("negotiated version %v although only inert packets were injected (expected the client's first choice)", res.cliVer))
		}
	}
	if res.deadOnReturn != nil {
		var vne *quic.VersionNegotiationError
		cls := "other"
		if errors.As(res.deadOnReturn, &vne) {
			cls = "version-negotiation"
		}
		fail("simhandshake/dial-ok-closed/"+cls, fmt.Sprintf("Dial returned a nil error together with a connection that was already closed (%v)", res.deadOnReturn))
	} else if res.dialErr == nil && res.acceptErr != nil && nf <= 2 {
		fail("simhandshake/one-sided", fmt.Sprintf("Dial succeeded but the server never completed: %v", res.acceptErr))
	}
	if router != nil {
		cliA, _, _ := hsAddrs(c.V6)
		router.amu.Lock()
		toAtt := router.toAtt
		router.amu.Unlock()
		if ok && res.srvRemote != "" && res.srvRemote != cliA.String() {
			fail("simhandshake/replay-remote-addr", fmt.Sprintf("the server's connection is bound to %s, the genuine client is %s", res.srvRemote, cliA))
		}
		if replay && (c.Retry || injKind == injReplayAfter) {
			// towards the replayer's address: nothing but stateless answers (Retry, INVALID_TOKEN, Version Negotiation)
			big, total := 0, 0
			for _, d := range toAtt {
				total += len(d)
				if len(d) > 250 {
					big++
				}
			}
			// (a copy of a later datagram reaches the established connection from a new address: the server may probe
			// that path, RFC 9000 9.3 — bounded by the anti-amplification factor)
			if !att.replayedEarly {
				if total > 3*att.replayedLen {
					fail("simhandshake/replay-attacker-traffic", fmt.Sprintf("%d bytes were sent to the address that replayed %d bytes of the client's traffic", total, att.replayedLen))
				}
			} else if big > 0 || len(toAtt) > 3 {
				fail("simhandshake/replay-attacker-traffic", fmt.Sprintf("%d datagrams (%d bytes, %d larger than a Retry / INVALID_TOKEN answer) were sent to the address that replayed the client's datagram", len(toAtt), total, big))
			}
		}
	}
	if res.dialErr != nil && res.acceptErr == nil && c.Mode == "" {
		fail("simhandshake/half-open", fmt.Sprintf("Dial failed (%v) but the server accepted a connection", res.dialErr))
	}
	if ok {
		if res.cliVer != res.srvVer || res.cliALPN != res.srvALPN || res.cliALPN == "" {
			fail("simhandshake/agree", fmt.Sprintf("client (version %v, ALPN %q) and server (version %v, ALPN %q) disagree", res.cliVer, res.cliALPN, res.srvVer, res.srvALPN))
		}
	}
	limit := time.Duration(att.attempts) * 2 * hsIdle
	if limit == 0 {
		limit = 2 * hsIdle
	}
	if res.dialTime > limit+100*time.Millisecond {
		fail("simhandshake/time", fmt.Sprintf("Dial took %v of virtual time with %d connection attempts (handshake timeout %v each)", res.dialTime, att.attempts, 2*hsIdle))
	}
	for sc, ds := range att.dcidsPerAttempt {
		if n := len(ds); n > 2 {
			fail("simhandshake/one-retry", fmt.Sprintf("client connection %s used %d different DCIDs in its Initials before any genuine server packet: more than one Retry accepted", sc, n))
		}
	}
	if c.EchoDCID && ok && len(res.conns) > 0 && att.echo != nil && att.echo.used > 0 {
		last := res.conns[len(res.conns)-1]
		if !bytes.Equal(last.HsDCID, last.OrigDCID) {
			fail("simhandshake/echo-setup", fmt.Sprintf("scenario wants server SCID = original DCID, got %s", caStateStr(last)))
		}
	}
	// the client's connection-ID state against the wire
	if ok && len(res.conns) > 0 {
		last := res.conns[len(res.conns)-1]
		if bytes.Equal(last.HsDCID, att.attSCID) || (last.HasRetrySCID && bytes.Equal(last.RetrySCID, att.attSCID)) {
			fail("simhandshake/no-attacker-ids", fmt.Sprintf("handshake completed with attacker-chosen connection IDs: %s", caStateStr(last)))
		}
		if len(att.srvSCIDs) > 0 && !att.srvSCIDs[string(last.HsDCID)] {
			fail("simhandshake/hs-dcid", fmt.Sprintf("client's handshake DCID %x is not the SCID of any genuine server packet", last.HsDCID))
		}
		if len(att.firstDCIDs) > 0 && !bytes.Equal(last.OrigDCID, att.firstDCIDs[len(att.firstDCIDs)-1]) {
			fail("simhandshake/orig-dcid", fmt.Sprintf("client's original DCID %x is not the DCID %x of its first Initial", last.OrigDCID, att.firstDCIDs[len(att.firstDCIDs)-1]))
		}
		if last.HasRetrySCID {
			found := false
			for _, g := range att.genuineRetrySCID {
				found = found || bytes.Equal(g, last.RetrySCID)
			}
			if !found {
				fail("simhandshake/retry-scid", fmt.Sprintf("completed handshake with retry SCID %x that no genuine Retry carried", last.RetrySCID))
			}
		}
		if last.HasRetrySCID != last.RcvRetry {
			fail("simhandshake/retry-state", "receivedRetry and retrySrcConnID disagree: "+caStateStr(last))
		}
		if c.Retry != last.RcvRetry && c.Mode == "" {
			fail("simhandshake/retry-used", fmt.Sprintf("scenario retry=%v but the completed client connection has receivedRetry=%v", c.Retry, last.RcvRetry))
		}
	}
	defer func() { info += dump }()
	info = fmt.Sprintf("ok=%v dial=%v accept=%v t=%v ver=%v alpn=%q attempts=%d injected=%v inertpos=%v used0rtt=%v resumed=%v", ok, res.dialErr, res.acceptErr, res.dialTime, res.cliVer, res.cliALPN, att.attempts, att.injected && !att.injSkipped, att.injectedInert, res.used0RTT, res.resumed)
	// one model-replayable trace per client connection of this handshake (unit hstrace)
	for i, t := range tracedConns {
		if term, ok := hsTraceTerm(t, cliVersions); ok {
			traces = append(traces, term)
		}
		// the connection re-created after a version negotiation carries that fact and the chosen version
		if i > 0 {
			prev := tracedConns[i-1].CloseClass()
			want := fmt.Sprintf("recreate:%d", t.Initial.Version)
			if prev != want || !t.Initial.VerNeg {
				fails = append(fails, monFail{"simhandshake/redial", fmt.Sprintf("connection %d was created with version %x, versionNegotiated=%v after its predecessor ended with %q", i, t.Initial.Version, t.Initial.VerNeg, prev)})
			}
		} else if t.Initial.VerNeg {
			fails = append(fails, monFail{"simhandshake/redial", "the first connection of a dial claims a version negotiation"})
		}
	}
	return fails, info, traces
}

// hsTraceTerm turns the pre-authentication events a client connection logged into a ConnAccept case: every event that
// concerns a Retry, a Version Negotiation or an Initial packet becomes an op together with the outcome the
// implementation logged; the model must handle the same ops with the same outcomes, stop where the connection stopped,
// and end in the same decision state. (Observer mode: what a dropped packet contained beyond its logged header is
// reconstructed from the drop trigger; Handshake, 0-RTT and 1-RTT packets are outside the model.)
func hsTraceTerm(t *quic.VerifCATraced, versions []quic.Version) (string, bool) {
	evs := t.Events()
	if evs == nil {
		return "", false
	}
	init := t.Initial
	vs := make([]string, len(versions))
	for i, v := range versions {
		vs[i] = u.ZU(uint64(v))
	}
	initTerm := u.App("CClient", u.ZU(uint64(init.Version)), u.List(vs), u.B(init.VerNeg), u.Hex(init.OrigDCID), u.Hex(init.Token))
	key := init.OrigDCID   // connection ID the Initial keys come from
	hs := init.OrigDCID    // handshake DCID as far as the trace tells
	first, keysDropped := false, false
	other := []byte{0xfe, 0xed, 0xfa, 0xce, 0x00}
	goodTag, badTag := []byte{0xaa}, []byte{0xbb}
	otherVer := uint64(quic.Version2)
	if init.Version == uint32(quic.Version2) {
		otherVer = uint64(quic.Version1)
	}
	dummy := caObs(init)
	var steps []string
	add := func(op string, okey, otag []byte, out string) {
		steps = append(steps, u.App("St", op, u.Hex(okey), u.Hex(otag), "("+out+")", dummy))
	}
	closeCls := t.CloseClass()
	for i, e := range evs {
		last := i == len(evs)-1 || evs[i+1].Kind == "closed-remote" || evs[i+1].Kind == "closed-local"
		switch {
		case e.Kind == "recv" && e.PType == "retry":
			add(u.App("COpPkt", u.App("CRetry", u.ZU(uint64(e.Version)), u.Hex(e.SCID), u.Hex(e.Token), u.Hex(nil), u.Hex(goodTag))), init.OrigDCID, goodTag, "ORetryAccepted")
			key, hs = e.SCID, e.SCID
		case e.Kind == "drop" && e.PType == "retry":
			tag := goodTag // dropped by a guard: the model's guards must drop it even if the tag were right
			if e.Trigger == "payload_decrypt_error" {
				tag = badTag
			}
			add(u.App("COpPkt", u.App("CRetry", u.ZU(uint64(e.Version)), u.Hex(e.SCID), u.Hex([]byte{1}), u.Hex(nil), u.Hex(tag))), init.OrigDCID, goodTag, u.App("ODropped", "DUnexpectedPacket"))
		case e.Kind == "vn":
			vl := make([]string, len(e.Versions))
			for j, v := range e.Versions {
				vl[j] = u.ZU(uint64(v))
			}
			out := "ONone"
			switch {
			case strings.HasPrefix(closeCls, "recreate:"):
				out = u.App("ORecreate", closeCls[len("recreate:"):])
			case closeCls == "vn_error":
				out = "OVNError"
			}
			add(u.App("COpPkt", u.App("CVN", "true", u.List(vl))), nil, nil, out)
		case e.Kind == "drop" && e.PType == "version_negotiation":
			switch e.Trigger {
			case "header_parse_error":
				add(u.App("COpPkt", u.App("CVN", "false", "[]")), nil, nil, u.App("ODropped", "DHeaderParse"))
			case "unexpected_version":
				add(u.App("COpPkt", u.App("CVN", "true", u.List([]string{u.ZU(uint64(init.Version))}))), nil, nil, u.App("ODropped", "DUnexpectedVersion"))
			default: // dropped by the state guard: a list without our version, which would otherwise act
				add(u.App("COpPkt", u.App("CVN", "true", u.List([]string{u.ZU(otherVer)}))), nil, nil, u.App("ODropped", "DUnexpectedPacket"))
			}
		case e.Kind == "recv" && e.PType == "initial":
			pl, out := "PlPing", "OProcessed"
			if last && closeCls == "remote_close" && i+1 < len(evs) && evs[i+1].Kind == "closed-remote" {
				pl, out = "PlClose", "ORemoteClose"
			}
			add(u.App("COpPkt", u.App("CLong", "TInitial", u.ZU(uint64(e.Version)), u.Hex(e.SCID), u.Hex(key), u.Z(e.PN), pl)), nil, nil, out)
			if !first {
				first, hs = true, e.SCID
			}
		case e.Kind == "drop" && e.PType == "initial":
			switch e.Trigger {
			case "unknown_connection_id": // logged without the SCID: some SCID other than the handshake DCID
				add(u.App("COpPkt", u.App("CLong", "TInitial", u.ZU(uint64(init.Version)), u.Hex(other), u.Hex(key), "9999", "PlPing")), nil, nil, u.App("ODropped", "DUnknownCID"))
			case "payload_decrypt_error", "header_parse_error":
				add(u.App("COpPkt", u.App("CLong", "TInitial", u.ZU(uint64(init.Version)), u.Hex(hs), u.Hex(other), "9998", "PlPing")), nil, nil, u.App("ODropped", "DDecryptErr"))
			case "duplicate":
				add(u.App("COpPkt", u.App("CLong", "TInitial", u.ZU(uint64(init.Version)), u.Hex(hs), u.Hex(key), u.Z(e.PN), "PlPing")), nil, nil, u.App("ODropped", "DDuplicate"))
			case "key_unavailable":
				if !keysDropped { // (the spec-driven client's crypto setup does not log the key discard)
					add("COpDrop", nil, nil, "ONone")
					keysDropped = true
				}
				add(u.App("COpPkt", u.App("CLong", "TInitial", u.ZU(uint64(init.Version)), u.Hex(hs), u.Hex(key), "9997", "PlPing")), nil, nil, u.App("ODropped", "DKeyUnavailable"))
			}
		case e.Kind == "drop" && e.PType == "" && e.Trigger == "unexpected_version":
			add(u.App("COpPkt", u.App("CLong", "TInitial", u.ZU(otherVer), u.Hex(hs), u.Hex(key), "9996", "PlPing")), nil, nil, u.App("ODropped", "DUnexpectedVersion"))
		case e.Kind == "keydiscard-initial":
			if !keysDropped {
				add("COpDrop", nil, nil, "ONone")
				keysDropped = true
			}
		}
	}
	fin := quic.VerifConnAcceptState(t.Conn)
	return u.App("CaseTrace", initTerm, u.List(steps), u.ZU(uint64(fin.Version)), u.B(fin.RcvFirst), u.B(fin.RcvRetry), u.B(fin.VerNeg),
		u.Hex(fin.HsDCID), u.Hex(fin.OrigDCID), u.Opt(fin.HasRetrySCID, u.Hex(fin.RetrySCID))), true
}

func init() { units["hstrace"] = runHSTrace }

// hstrace: the same simulated handshakes as simhandshake (quick-tier case list), printing one ConnAccept trace case
// per client connection instead of the scenario description; the monitors' verdicts are reported as well.
func runHSTrace(w *bufio.Writer, seed uint64, n int, args []string) {
	for _, a := range args {
		if a == "child" {
			runSimHandshakeCases(w, seed, n, args)
			return
		}
	}
	exe, err := os.Executable()
	if err != nil {
		runSimHandshakeCases(w, seed, n, append(args, "traces"))
		return
	}
	var out bytes.Buffer
	runSimHandshakeShardUnit(&out, exe, "hstrace", seed, n, append(args, "traces"), 0, 1)
	w.Write(out.Bytes())
}

// ---- enumeration ----

func hsScenarios() []hsCase {
	var out []hsCase
	for _, cl := range []string{"plain", "unil", "Chrome_115_IPv4", "Chrome_146_IPv6"} {
		for _, retry := range []bool{false, true} {
			for _, long := range []bool{false, true} {
				out = append(out, hsCase{Client: cl, Retry: retry, LongChain: long})
				if cl == "plain" || cl == "unil" {
					out = append(out, hsCase{Client: cl, Retry: retry, LongChain: long, VN: true})
					out = append(out, hsCase{Client: cl, Retry: retry, LongChain: long, TwoVers: true})
				}
			}
		}
	}
	for _, cl := range []string{"plain", "unil", "Chrome_115_IPv4"} {
		for _, long := range []bool{false, true} {
			out = append(out, hsCase{Client: cl, LongChain: long, EchoDCID: true})
		}
	}
	for _, cl := range []string{"plain", "unil"} {
		for _, retry := range []bool{false, true} {
			out = append(out, hsCase{Client: cl, Retry: retry, Mode: "0rtt"})
			out = append(out, hsCase{Client: cl, Retry: retry, Mode: "0rtt-reject"})
			for v := 1; v <= 2; v++ {
				out = append(out, hsCase{Client: cl, Retry: retry, Mode: "0rtt", EarlyVar: v})
				out = append(out, hsCase{Client: cl, Retry: retry, Mode: "0rtt-reject", EarlyVar: v})
			}
		}
	}
	return out
}

func hsFault(dir, idx, kind int, r *u.Rng) fault {
	f := fault{Dir: dir, Idx: idx, Kind: kind}
	switch kind {
	case fDelay:
		f.Arg = r.Range(1, 400)
	case fFlip:
		f.Arg = r.Range(0, 10000)
	case fTrunc:
		f.Arg = r.Range(1, 1300)
	}
	return f
}

const hsPositions = 12

// runSimHandshake: the cases run in a child process. A panic inside a goroutine of the implementation
// (it cannot be recovered from outside) kills only the child; the parent reports it as a monitor failure
// with the case that was running and starts the next child behind it.
func runSimHandshake(w *bufio.Writer, seed uint64, n int, args []string) {
	for _, a := range args {
		if a == "child" {
			runSimHandshakeCases(w, seed, n, args)
			return
		}
	}
	exe, err := os.Executable()
	if err != nil {
		runSimHandshakeCases(w, seed, n, args)
		return
	}
	// thorough tier: the (exhaustive) case list is sharded over worker processes, case i goes to worker i mod W
	workers := 1
	if os.Getenv("VERIF_TIER") == "thorough" {
		workers = runtime.NumCPU()
		if workers > 8 {
			workers = 8
		}
	}
	if v := os.Getenv("VERIF_WORKERS"); v != "" {
		fmt.Sscanf(v, "%d", &workers)
	}
	if workers < 1 {
		workers = 1
	}
	outs := make([]bytes.Buffer, workers)
	var wg sync.WaitGroup
	for k := 0; k < workers; k++ {
		wg.Add(1)
		go func(k int) {
			defer wg.Done()
			runSimHandshakeShard(&outs[k], exe, seed, n, args, k, workers)
		}(k)
	}
	wg.Wait()
	// DIST lines of the shards are summed by bin/check; everything else is passed through in shard order
	for k := range outs {
		w.Write(outs[k].Bytes())
	}
}

// one worker: a child process per stretch between crashes
func runSimHandshakeShard(w *bytes.Buffer, exe string, seed uint64, n int, args []string, shard, workers int) {
	runSimHandshakeShardUnit(w, exe, "simhandshake", seed, n, args, shard, workers)
}

func runSimHandshakeShardUnit(w *bytes.Buffer, exe, unit string, seed uint64, n int, args []string, shard, workers int) {
	from, crashes := 0, 0
	for {
		cargs := append([]string{unit, fmt.Sprint(seed), fmt.Sprint(n), "child", fmt.Sprintf("from=%d", from), fmt.Sprintf("shard=%d/%d", shard, workers)}, args...)
		cmd := exec.Command(exe, cargs...)
		var stderr bytes.Buffer
		cmd.Stderr = &stderr
		out, err := cmd.StdoutPipe()
		if err != nil || cmd.Start() != nil {
			fmt.Fprintf(w, "MONFAIL\tsimhandshake/crash-loop\tcannot start a worker process\tshard %d\n", shard)
			return
		}
		sc := bufio.NewScanner(out)
		sc.Buffer(make([]byte, 1<<20), 1<<26)
		cur, curCase, finished := -1, "", false
		for sc.Scan() {
			ln := sc.Text()
			switch {
			case strings.HasPrefix(ln, "BEGIN\t"):
				p := strings.SplitN(ln, "\t", 3)
				fmt.Sscanf(p[1], "%d", &cur)
				curCase = p[2]
			case ln == "END":
				finished = true
			default:
				fmt.Fprintln(w, ln)
			}
		}
		werr := cmd.Wait()
		if finished && werr == nil {
			return
		}
		crashes++
		msg := stderr.String()
		first := strings.SplitN(strings.TrimSpace(msg), "\n", 2)[0]
		where := ""
		for _, l := range strings.Split(msg, "\n") {
			if strings.Contains(l, "uquic") && strings.Contains(l, "(") && !strings.Contains(l, "verifdrv") {
				where = strings.TrimSpace(l)
				break
			}
		}
		fmt.Fprintf(w, "CASE 1 %s\n", curCase)
		fmt.Fprintf(w, "MONFAIL\tsimhandshake/crash\tthe process died while this handshake was running: %s in %s\t%s\n", first, where, curCase)
		if cur < 0 || crashes > 50 {
			fmt.Fprintf(w, "MONFAIL\tsimhandshake/crash-loop\tgiving up after %d crashed child processes\t%s\n", crashes, first)
			return
		}
		from = cur + 1
	}
}

func runSimHandshakeCases(w *bufio.Writer, seed uint64, n int, args []string) {
	r := u.NewRng(seed)
	scen := hsScenarios()
	only, from, child := -1, 0, false
	shard, nshards := 0, 1
	traceMode := false
	for _, a := range args {
		if a == "traces" {
			traceMode = true
		}
		if strings.HasPrefix(a, "shard=") {
			fmt.Sscanf(a, "shard=%d/%d", &shard, &nshards)
		}
		if strings.HasPrefix(a, "only=") {
			fmt.Sscanf(a, "only=%d", &only)
		}
		if strings.HasPrefix(a, "from=") {
			fmt.Sscanf(a, "from=%d", &from)
		}
		if a == "child" {
			child = true
		}
	}
	var cases []hsCase
	// baseline of every scenario
	for i, s := range scen {
		s.V6 = i%3 == 2
		cases = append(cases, s)
	}
	// witnesses of the known finding dial-ok-closed/version-negotiation (a forged VN without a common
	// version racing the server's first flight); the outcome depends on a select between two ready channels
	for i := 0; i < 6; i++ {
		cases = append(cases, hsCase{Client: []string{"plain", "Chrome_115_IPv4", "unil"}[i%3], Inj: &hsInj{1, 0, injVNOther}})
	}
	// forged valid-tag Retry right after the genuine first flight of a server that echoes the original DCID
	for i := 0; i < 6; i++ {
		cases = append(cases, hsCase{Client: []string{"plain", "Chrome_115_IPv4", "unil"}[i%3], EchoDCID: true, LongChain: i >= 3,
			Inj: &hsInj{1, 1 + i%2, []int{injRetryGood, injRetryGoodCur}[i%2]}})
	}
	// an always-Retry server and a copy of the client's Initial (idx 0: first, idx 1/2: the one carrying the Retry token)
	// replayed from another source address right before / after it, IPv4 and IPv6
	for i := 0; i < 24; i++ {
		cases = append(cases, hsCase{Client: []string{"plain", "unil", "Chrome_115_IPv4"}[i%3], Retry: true, V6: i%2 == 0, LongChain: i >= 12,
			Inj: &hsInj{0, (i / 2) % 3, []int{injReplayBefore, injReplayAfter}[(i/6)%2]}})
	}
	// 0-RTT with a slow server: the decision arrives after the client's PTO has re-sent early data
	for i := 0; i < 12; i++ {
		cases = append(cases, hsCase{Client: []string{"plain", "unil"}[i%2], Mode: []string{"0rtt", "0rtt-reject"}[(i/2)%2], EarlyVar: i / 4,
			Faults: []fault{{Dir: 1, Idx: 0, Kind: fDelay, Arg: 700}, {Dir: 1, Idx: 1, Kind: fDelay, Arg: 700}}})
	}
	// (hstrace always works on the sampled list: n handshakes, each replayed through the Coq model)
	thorough := os.Getenv("VERIF_TIER") == "thorough" && !traceMode
	if thorough {
		for _, s := range scen {
			// every single fault
			for dir := 0; dir < 2; dir++ {
				for idx := 0; idx < hsPositions; idx++ {
					for k := 0; k < fNumKinds; k++ {
						c := s
						c.Faults = []fault{hsFault(dir, idx, k, r)}
						cases = append(cases, c)
					}
				}
			}
			// every pair of faults (the property's quantifier: every schedule of <= 2 faults over the first 12 datagrams
			// of each direction); VERIF_PAIRS=sample restores the random sample
			if os.Getenv("VERIF_PAIRS") != "sample" {
				for a := 0; a < 2*hsPositions; a++ {
					for b := a + 1; b < 2*hsPositions; b++ {
						for ka := 0; ka < fNumKinds; ka++ {
							for kb := 0; kb < fNumKinds; kb++ {
								c := s
								c.Faults = []fault{hsFault(a/hsPositions, a%hsPositions, ka, r), hsFault(b/hsPositions, b%hsPositions, kb, r)}
								cases = append(cases, c)
							}
						}
					}
				}
			}
			// every injection at every position
			for k := 0; k < injNumKinds; k++ {
				for dir := 0; dir < 2; dir++ {
					for idx := 0; idx < 8; idx++ {
						if dir == 0 && idx > 3 {
							continue
						}
						if (k == injReplayBefore || k == injReplayAfter) && dir != 0 {
							continue
						}
						c := s
						c.Inj = &hsInj{dir, idx, k}
						cases = append(cases, c)
						c.V6 = true
						cases = append(cases, c)
					}
				}
			}
		}
	}
	target := n
	if thorough {
		target = len(cases) + n // n additional random cases (faults and an injection together)
	}
	for len(cases) < target {
		c := scen[r.Intn(len(scen))]
		nf := r.Intn(3)
		for i := 0; i < nf; i++ {
			c.Faults = append(c.Faults, hsFault(r.Intn(2), r.Intn(hsPositions), r.Intn(fNumKinds), r))
		}
		if len(c.Faults) == 2 && c.Faults[0].Dir == c.Faults[1].Dir && c.Faults[0].Idx == c.Faults[1].Idx {
			c.Faults = c.Faults[:1]
		}
		if r.Chance(3, 5) {
			dir := r.Intn(2)
			idx := r.Intn(8)
			if dir == 0 {
				idx = r.Intn(4)
			}
			c.Inj = &hsInj{dir, idx, r.Intn(injNumKinds)}
			if k := c.Inj.Kind; k == injReplayBefore || k == injReplayAfter {
				c.Inj.Dir, c.Inj.Idx = 0, r.Intn(4)
			}
		}
		c.V6 = r.Chance(2, 5)
		cases = append(cases, c)
	}
	if len(cases) > n && !thorough {
		cases = cases[:n]
	}
	dist := map[string]int{}
	for i, c := range cases {
		c.Seed = seed*1000003 + uint64(i)
		if (only >= 0 && i != only) || i < from || (nshards > 1 && i%nshards != shard) {
			continue
		}
		if child {
			fmt.Fprintf(w, "BEGIN\t%d\t%s\n", i, c.String())
			w.Flush()
		}
		fails, info, traces := runOneHS(c)
		if traceMode {
			if os.Getenv("VERIF_HS_SHOW") != "" {
				fmt.Fprintf(w, "INFO\t%d\t%s => %s\n", i, c.String(), info)
			}
			for _, tr := range traces {
				fmt.Fprintf(w, "CASE 1 %s\n", tr)
			}
			for _, f := range fails {
				fmt.Fprintf(w, "MONFAIL\t%s\t%s\t%s => %s\n", f.key, f.desc, c.String(), info)
			}
			dist[fmt.Sprintf("traces-per-handshake=%d", len(traces))]++
			if child {
				w.Flush()
			}
			continue
		}
		nt := 0
		if len(c.Faults) > 0 || c.Inj != nil {
			nt = 1
		}
		fmt.Fprintf(w, "CASE %d %s\n", nt, c.String())
		dist["client="+c.Client]++
		dist[fmt.Sprintf("faults=%d", len(c.Faults))]++
		if c.Inj != nil {
			dist["inject="+injNames[c.Inj.Kind]]++
		}
		if c.Mode != "" {
			dist["mode="+c.Mode]++
		}
		if strings.HasPrefix(info, "ok=true") {
			dist["completed"]++
		} else if j := strings.Index(info, "dial="); j >= 0 {
			cls := info[j+5:]
			if strings.HasPrefix(cls, "<nil>") {
				cls = "dial ok, server never completed"
			} else if k := strings.IndexAny(cls, ":("); k > 0 {
				cls = cls[:k]
			}
			dist["failed: "+strings.TrimSpace(cls)]++
		}
		if strings.Contains(info, "injected=true inertpos=true") {
			dist["injected-after-genuine"]++
		} else if strings.Contains(info, "injected=true") {
			dist["injected-racing"]++
		}
		if i < 3 || only >= 0 || (os.Getenv("VERIF_HS_SHOW") != "" && strings.Contains(info, os.Getenv("VERIF_HS_SHOW"))) {
			fmt.Fprintf(w, "SAMPLE\t%s => %s\n", c.String(), info)
		}
		for _, f := range fails {
			fmt.Fprintf(w, "MONFAIL\t%s\t%s\t%s => %s\n", f.key, f.desc, c.String(), info)
		}
	}
	for k, v := range dist {
		fmt.Fprintf(w, "DIST\t%s\t%d\n", k, v)
	}
	if child {
		fmt.Fprintln(w, "END")
	}
}

func hsDumpLog(e *simEnv) string {
	var sb strings.Builder
	for _, d := range e.Router.log {
		h, ok := hsParse(d.Data)
		fmt.Fprintf(&sb, "\n    %v %s#%d %s len=%d long=%v ver=%x typ=%d dcid=%x scid=%x", d.Time, []string{"c>s", "s>c"}[d.Dir], d.Idx, d.Act, len(d.Data), ok, h.version, h.typ, h.dcid, h.scid)
	}
	return sb.String()
}
