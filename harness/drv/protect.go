//go:build verif

package main

import (
	"bufio"
	"bytes"
	"fmt"
	"os"

	quic "github.com/refraction-networking/uquic"
	"github.com/refraction-networking/uquic/internal/ackhandler"
	"github.com/refraction-networking/uquic/internal/handshake"
	"github.com/refraction-networking/uquic/internal/protocol"
	u "github.com/refraction-networking/uquic/internal/verifutil"
	"github.com/refraction-networking/uquic/internal/wire"
)

func init() { units["protect"] = runProtect }

// protect unit: real packetPacker.encryptPacket on one side, real packetUnpacker on the
// other, real AEADs (Initial keys for random connection IDs and both versions; 1-RTT keys of
// all three cipher suites).  Everything crossing the sealer/opener interface is logged and
// given to the Coq model as oracle values.
func runProtect(w *bufio.Writer, seed uint64, n int, _ []string) {
	r := u.NewRng(seed)
	dist := map[string]int{}
	for i := 0; i < n; i++ {
		ppProtCase(w, r.Fork(), dist, i, i%2 == 0)
	}
	for i := 0; i < n; i++ {
		ppPackCase(w, r.Fork(), dist, i)
	}
	ppRFCVectors(w)
	ppPrintDist(w, dist)
}

type ppEnds struct {
	long     bool
	sealer   handshake.LongHeaderSealer
	lopener  handshake.LongHeaderOpener
	sopener  handshake.ShortHeaderOpener
	ua, ub   *handshake.VerifUAEAD
	cidLen   int
	encMask  func(sample []byte) []byte
	decMask  func(sample []byte) []byte
	largest  func() int64
	describe string
}

func (e *ppEnds) unpack(data []byte, log *quic.VerifProtLog) (quic.VerifProtUnpacked, int, int, int) {
	if e.long {
		return quic.VerifProtUnpackLong(e.lopener, data, log)
	}
	res, cls := quic.VerifProtUnpackShort(e.sopener, e.cidLen, 5_000_000_000, data, log)
	return res, 1 + e.cidLen, len(data), cls
}

func ppB(b bool) string { return u.B(b) }

func ppProtCase(w *bufio.Writer, r *u.Rng, dist map[string]int, caseNo int, long bool) {
	var ctx string
	defer func() {
		if e := recover(); e != nil {
			fmt.Fprintf(w, "MONFAIL\tprotect/panic\tpanic: %v\t%s\n", e, ctx)
		}
	}()
	version := protocol.Version1
	if r.Bool() {
		version = protocol.Version2
	}
	e := &ppEnds{long: long}
	var dcid, scid protocol.ConnectionID
	var kpBitHdr protocol.KeyPhaseBit = protocol.KeyPhaseZero
	if long {
		dcid = protocol.ParseConnectionID(r.Bytes(r.Range(0, 20)))
		scid = protocol.ParseConnectionID(r.Bytes(r.Range(0, 20)))
		pers, other := protocol.PerspectiveClient, protocol.PerspectiveServer
		if r.Bool() {
			pers, other = other, pers
		}
		e.sealer, _ = handshake.NewInitialAEAD(dcid, pers, version)
		_, e.lopener = handshake.NewInitialAEAD(dcid, other, version)
		e.encMask = func(s []byte) []byte { return handshake.VerifRawMaskLongSealer(e.sealer, s) }
		e.decMask = func(s []byte) []byte { return handshake.VerifRawMaskLongOpener(e.lopener, s) }
		e.largest = func() int64 { return handshake.VerifLongOpenerHighestRcvd(e.lopener) }
		e.describe = fmt.Sprintf("initial dcid=%x %v sealer=%v", dcid.Bytes(), version, pers)
	} else {
		suites := handshake.VerifCipherSuiteIDs()
		suite := suites[r.Intn(len(suites))]
		e.ua, e.ub = handshake.VerifNewUAEADPair(suite, version, r.Bytes(32), r.Bytes(32), 0, 0)
		if r.Bool() {
			e.ua, e.ub = e.ub, e.ua
		}
		e.sealer, e.sopener = e.ua.Sealer(), e.ub.Opener()
		dcid = protocol.ParseConnectionID(r.Bytes(r.Range(0, 20)))
		e.cidLen = dcid.Len()
		e.encMask, e.decMask = e.ua.RawMaskEnc, e.ub.RawMaskDec
		e.largest = e.ub.VerifHighestRcvd
		e.describe = fmt.Sprintf("1rtt suite=%#x %v cidlen=%d", suite, version, e.cidLen)
	}

	mkHeader := func(pn int64, pnLen int, payloadLen int, ptype protocol.PacketType, token []byte) []byte {
		if !long {
			b, err := wire.AppendShortHeader(nil, dcid, protocol.PacketNumber(pn), protocol.PacketNumberLen(pnLen), kpBitHdr)
			if err != nil {
				panic(err)
			}
			return b
		}
		h := &wire.ExtendedHeader{Header: wire.Header{Type: ptype, DestConnectionID: dcid, SrcConnectionID: scid, Token: token,
			Version: version, Length: protocol.ByteCount(pnLen + payloadLen + e.sealer.Overhead())},
			PacketNumber: protocol.PacketNumber(pn), PacketNumberLen: protocol.PacketNumberLen(pnLen)}
		b, err := h.Append(nil, version)
		if err != nil {
			panic(err)
		}
		return b
	}

	// one protect + unprotect (+ tampering) round
	round := func(pn int64, pnLen int, payload []byte, rogue int, tamper bool) {
		ptype := protocol.PacketTypeInitial
		var token []byte
		if long {
			switch r.Intn(4) {
			case 0:
				ptype = protocol.PacketTypeHandshake
			case 1:
				ptype = protocol.PacketType0RTT
			default:
				token = r.Bytes(int(r.Pick(0, 0, 1, 16, 70)))
			}
		}
		hdr := mkHeader(pn, pnLen, len(payload), ptype, token)
		switch rogue { // a sender that does not follow the header layout
		case 1:
			if long {
				hdr[0] |= byte(r.Pick(0x04, 0x08, 0x0c))
			} else {
				hdr[0] |= byte(r.Pick(0x08, 0x10, 0x18))
			}
		case 2:
			if !long {
				hdr[0] &^= 0x40
			}
		case 3:
			if !long {
				hdr[0] |= 0x80
			}
		}
		ctx = fmt.Sprintf("%s pn=%d pnLen=%d hdr=%x payload=%x", e.describe, pn, pnLen, hdr, payload)
		kp := int64(0)
		if !long && kpBitHdr == protocol.KeyPhaseOne {
			kp = 1
		}
		var lg quic.VerifProtLog
		pkt := quic.VerifProtEncrypt(e.sealer, hdr, payload, protocol.PacketNumber(pn), pnLen, &lg)
		// ---- monitors on the sealing side: what was sealed, with which nonce and AD ----
		if lg.SealCalls != 1 || lg.HPCalls != 1 || lg.SealPN != pn || !bytes.Equal(lg.SealAD, hdr) || !bytes.Equal(lg.SealPT, payload) {
			fmt.Fprintf(w, "MONFAIL\tprotect/seal-args\tencryptPacket sealed pn=%d ad=%x pt=%x (%d seal, %d hp calls)\t%s\n", lg.SealPN, lg.SealAD, lg.SealPT, lg.SealCalls, lg.HPCalls, ctx)
		}
		if len(pkt) != len(hdr)+len(payload)+e.sealer.Overhead() {
			fmt.Fprintf(w, "MONFAIL\tprotect/length\tprotected packet has %d bytes, expected header+payload+overhead = %d\t%s\n", len(pkt), len(hdr)+len(payload)+e.sealer.Overhead(), ctx)
		}
		pnOff := len(hdr) - pnLen
		if !bytes.Equal(pkt[pnOff+pnLen:], lg.SealCT) || !bytes.Equal(pkt[1:pnOff], hdr[1:pnOff]) {
			fmt.Fprintf(w, "MONFAIL\tprotect/bytes-outside-hp\theader protection changed bytes other than the first byte and the packet number\t%s\n", ctx)
		}
		mask := e.encMask(lg.HPSample)
		if !long {
			if k := e.ua.ChaChaHPKeyEnc(); k != nil && len(lg.HPSample) == 16 {
				fmt.Fprintf(w, "CASE 1 %s\n", u.App("ChaChaMaskCase", u.Hex(k), u.Hex(lg.HPSample), u.Hex(mask)))
				dist["chacha-mask"]++
			}
		}
		fmt.Fprintf(w, "CASE 1 %s\n", u.App("ProtCase", ppB(long), u.Hex(hdr), u.Hex(payload), u.Z(pn), u.Z(kp), u.Z(int64(pnLen)),
			u.Hex(lg.SealCT), u.Hex(lg.HPSample), u.Hex(mask), u.Hex(pkt)))
		dist[fmt.Sprintf("prot-%v-pnlen%d", map[bool]string{true: "long", false: "short"}[long], pnLen)]++

		unprot := func(data []byte, tam string) int {
			largest := e.largest()
			var l2 quic.VerifProtLog
			res, hdrLen, pktLen, cls := e.unpack(data, &l2)
			if cls == quic.VerifProtOuterHeader {
				dist["unprot-outer-header-rejected"]++
				return cls
			}
			if cls == quic.VerifProtOther {
				// rejected for a reason outside the model (e.g. a flipped type bit turns the packet
				// into a Retry): counted, not replayed
				dist["unprot-rejected-unmodelled"]++
				if tam == "" {
					fmt.Fprintf(w, "MONFAIL\tprotect/unknown-error\tunpacker returned an error outside the modelled classes for an untampered packet\t%s\n", ctx)
				}
				return cls
			}
			sample, m := "", ""
			if l2.HPCalls > 0 {
				sample, m = u.Hex(l2.HPSample), u.Hex(e.decMask(l2.HPSample))
			} else {
				sample, m = u.Hex(nil), u.Hex(nil)
			}
			call, ores, rs := "None", "None", "None"
			if l2.OpenCalls > 0 {
				call = u.Opt(true, u.Pair(u.Z(l2.OpenPN), u.Z(int64(l2.OpenKP)), u.Hex(l2.OpenAD), u.Hex(l2.OpenCT)))
				if l2.OpenOK {
					ores = u.Opt(true, u.Hex(l2.OpenPT))
				}
			}
			if l2.HPCalls > 1 || l2.OpenCalls > 1 || l2.DecodeCalls > 1 {
				fmt.Fprintf(w, "MONFAIL\tprotect/calls\tunpacker called DecryptHeader %d, DecodePacketNumber %d, Open %d times\t%s\n", l2.HPCalls, l2.DecodeCalls, l2.OpenCalls, ctx)
			}
			if cls == quic.VerifProtOK {
				rs = u.Opt(true, u.Pair(u.Z(int64(res.FirstByte)), u.Z(res.PN), u.Z(int64(res.PNLen)), u.Z(int64(res.KP)), u.Hex(res.Payload)))
			}
			nt := 0
			if l2.OpenCalls > 0 {
				nt = 1
			}
			fmt.Fprintf(w, "CASE %d %s\n", nt, u.App("UnprotCase", ppB(long), u.Z(int64(hdrLen)), u.Z(largest), u.Hex(data[:pktLen]), sample, m, call, ores, u.Z(int64(cls)), rs))
			dist[fmt.Sprintf("unprot-class%d", cls)]++
			// the largest authenticated packet number (the decode reference) only moves on a successful open, to the max
			if want := max(largest, l2.OpenPN); l2.OpenOK && e.largest() != want || !l2.OpenOK && e.largest() != largest {
				fmt.Fprintf(w, "MONFAIL\tprotect/highest-rcvd\topener's highest received packet number went from %d to %d (open ok=%v, pn %d)\t%s\n", largest, e.largest(), l2.OpenOK, l2.OpenPN, ctx)
			}
			if tam == "" {
				// ---- round trip monitor ----
				hwin := int64(1) << (8*uint(pnLen) - 1)
				inWindow := pn > largest+1-hwin && pn <= largest+1+hwin
				switch {
				case rogue == 0 && inWindow && len(payload) > 0:
					ok := cls == quic.VerifProtOK && res.PN == pn && res.PNLen == pnLen && bytes.Equal(res.Payload, payload) && res.KP == int(kp)
					if ok && long {
						h := res.Hdr
						ok = h.Type == ptype && h.DestConnectionID == dcid && h.SrcConnectionID == scid && bytes.Equal(h.Token, token) && h.Version == version &&
							int(h.Length) == pnLen+len(payload)+e.sealer.Overhead()
					}
					if !ok {
						fmt.Fprintf(w, "MONFAIL\tprotect/roundtrip\tprotected packet did not open to the same header fields and payload (class %d, pn %d, pnLen %d, payload %x)\t%s\n", cls, res.PN, res.PNLen, res.Payload, ctx)
					}
				case rogue == 0 && inWindow && len(payload) == 0:
					if cls != quic.VerifProtEmpty {
						fmt.Fprintf(w, "MONFAIL\tprotect/empty\tpacket with empty payload gave class %d\t%s\n", cls, ctx)
					}
				case rogue == 0 && !inWindow:
					// outside the window the number may decode wrongly (then the AEAD rejects); if the
					// packet is accepted it must still be the right number and payload
					if cls == quic.VerifProtOK && (res.PN != pn || !bytes.Equal(res.Payload, payload)) {
						fmt.Fprintf(w, "MONFAIL\tprotect/out-of-window-wrong\tpacket outside the decode window accepted as pn %d payload %x\t%s\n", res.PN, res.Payload, ctx)
					}
				case rogue != 0:
					if cls == quic.VerifProtOK {
						fmt.Fprintf(w, "MONFAIL\tprotect/rogue-header-accepted\tpacket with invalid first byte %#x accepted\t%s\n", hdr[0], ctx)
					}
				}
			} else if cls == quic.VerifProtOK {
				// ---- tamper monitor ----
				fmt.Fprintf(w, "MONFAIL\tprotect/tamper-accepted\ttampered packet (%s) was opened: pn %d payload %x\t%s\n", tam, res.PN, res.Payload, ctx)
			}
			return cls
		}
		if tamper {
			// undersized packets: one byte below and exactly at the minimum the unpacker needs for
			// the header-protection sample (packet number offset + 4 + 16)
			for _, sz := range []int{pnOff + 19, pnOff + 20} {
				var t []byte
				if long {
					h := mkHeader(pn, pnLen, sz-pnOff-pnLen-e.sealer.Overhead(), ptype, token) // Length field = sz - pnOff
					t = append(append([]byte{}, h[:pnOff]...), r.Bytes(sz-pnOff)...)
				} else {
					t = append(append([]byte{}, pkt[:min(len(pkt), sz)]...), r.Bytes(max(0, sz-len(pkt)))...)
				}
				if !bytes.Equal(t, pkt) {
					unprot(t, fmt.Sprintf("size %d = pn offset + %d", sz, sz-pnOff))
				}
			}
			// tamper BEFORE the genuine delivery, so that the opener's state is the same
			nflip := 5
			all := os.Getenv("VERIF_TIER") == "thorough" && caseNo%100 == 0
			if all {
				nflip = len(pkt) * 8
			}
			for k := 0; k < nflip; k++ {
				bit := k
				if !all {
					switch r.Intn(4) {
					case 0:
						bit = r.Intn(8) // first byte
					case 1:
						bit = (pnOff + r.Intn(pnLen)) * 8 // packet number bytes
						bit += r.Intn(8)
					case 2:
						bit = (len(pkt)-1-r.Intn(16))*8 + r.Intn(8) // tag
					default:
						bit = r.Intn(len(pkt) * 8)
					}
				}
				t := append([]byte{}, pkt...)
				t[bit/8] ^= 1 << uint(bit%8)
				unprot(t, fmt.Sprintf("flip bit %d", bit))
			}
			if !long {
				cut := r.Range(1, min(len(pkt)-1, 24))
				unprot(append([]byte{}, pkt[:len(pkt)-cut]...), fmt.Sprintf("truncate %d", cut))
				unprot(append(append([]byte{}, pkt...), r.Bytes(r.Range(1, 3))...), "extend")
			}
			dist["tampered-packets"]++
		}
		unprot(pkt, "")
	}

	// warm-up: move the opener's largest received packet number
	base := int64(0)
	if r.Chance(2, 3) {
		base = int64(r.Pick(1, 100, 127, 128, 255, 256, 32767, 32768, 65535, 1<<24-1, 1<<31-2, 1<<31-1))
		round(base, 4, r.Bytes(r.Range(1, 8)), 0, false)
	}
	if !long && r.Chance(1, 4) {
		// key phase 1 in the header: the sender updates its keys after the first packet
		if base == 0 {
			round(0, 4, r.Bytes(3), 0, false)
		}
		old := handshake.FirstKeyUpdateInterval
		handshake.FirstKeyUpdateInterval = 1
		e.ua.SetHandshakeConfirmed()
		kpBitHdr = e.ua.KeyPhaseBit()
		handshake.FirstKeyUpdateInterval = old
		dist["short-keyphase1"]++
	}
	pnLen := r.Range(1, 4)
	hwin := int64(1) << (8*uint(pnLen) - 1)
	var pn int64
	sel := r.Intn(6)
	if kpBitHdr == protocol.KeyPhaseOne && (sel == 3 || sel == 4) {
		// after a key update a conforming sender only uses larger packet numbers (a smaller one
		// is attributed to the previous key phase by the receiver)
		sel = 5
	}
	switch sel {
	case 0:
		pn = base + 1
	case 1:
		pn = base + 1 + hwin // last number inside the window
	case 2:
		pn = base + 1 + hwin + 1 // first outside
	case 3:
		pn = base + 1 - hwin + 1 // lowest inside
	case 4:
		pn = base + 1 - hwin // outside
	default:
		pn = base + 1 + int64(r.U64()%uint64(hwin))
	}
	if pn < 0 {
		pn = 0
	}
	if pn >= 1<<32 {
		pn = 1<<32 - 1
	}
	minLen := 4 - pnLen
	var payload []byte
	switch r.Intn(5) {
	case 0:
		payload = r.Bytes(minLen) // the minimum that still yields a header-protection sample
	case 1:
		payload = r.Bytes(minLen + 1)
	default:
		payload = r.Bytes(r.Range(minLen, 64))
	}
	round(pn, pnLen, payload, 0, r.Chance(2, 3))
	if r.Chance(1, 2) {
		// a sender that violates the first-byte layout (reserved bits, fixed bit, header form)
		rogue := r.Range(1, 3)
		if long {
			rogue = 1
		}
		round(pn+1, pnLen, r.Bytes(r.Range(4, 12)), rogue, false)
	}
}

// ppRFCVectors: the Appendix A values of RFC 9001 (v1) and RFC 9369 (v2): keys, IVs and
// header-protection keys for DCID 0x8394c8f03e515708, and the server Initial packet (A.3)
// produced through packetPacker.encryptPacket and opened through packetUnpacker.
func ppRFCVectors(w *bufio.Writer) {
	defer func() {
		if e := recover(); e != nil {
			fmt.Fprintf(w, "MONFAIL\tprotect/rfc-panic\tpanic: %v\t\n", e)
		}
	}()
	unhex := func(s string) []byte {
		var b []byte
		var hi int = -1
		for _, c := range s {
			var v int
			switch {
			case c >= '0' && c <= '9':
				v = int(c - '0')
			case c >= 'a' && c <= 'f':
				v = int(c-'a') + 10
			default:
				continue
			}
			if hi < 0 {
				hi = v
			} else {
				b = append(b, byte(hi<<4|v))
				hi = -1
			}
		}
		return b
	}
	connID := protocol.ParseConnectionID(unhex("8394c8f03e515708"))
	type vec struct {
		v      protocol.Version
		name   string
		keys   [6]string
		header string
		packet string
	}
	payload := unhex("02000000000600405a020000560303ee fce7f7b37ba1d1632e96677825ddf739 88cfc79825df566dc5430b9a045a1200 130100002e00330024001d00209d3c94 0d89690b84d08a60993c144eca684d10 81287c834d5311bcf32bb9da1a002b00 020304")
	vecs := []vec{
		{protocol.Version1, "v1", [6]string{"1f369613dd76d5467730efcbe3b1a22d", "fa044b2f42a3fd3b46fb255c", "9f50449e04a0e810283a1e9933adedd2",
			"cf3a5331653c364c88f0f379b6067e37", "0ac1493ca1905853b0bba03e", "c206b8d9b9f0f37644430b490eeaa314"},
			"c1000000010008f067a5502a4262b50040750001",
			"cf000000010008f067a5502a4262b500 4075c0d95a482cd0991cd25b0aac406a 5816b6394100f37a1c69797554780bb3 8cc5a99f5ede4cf73c3ec2493a1839b3 dbcba3f6ea46c5b7684df3548e7ddeb9 c3bf9c73cc3f3bded74b562bfb19fb84 022f8ef4cdd93795d77d06edbb7aaf2f 58891850abbdca3d20398c276456cbc4 2158407dd074ee"},
		{protocol.Version2, "v2", [6]string{"8b1a0bc121284290a29e0971b5cd045d", "91f73e2351d8fa91660e909f", "45b95e15235d6f45a6b19cbcb0294ba9",
			"82db637861d55e1d011f19ea71d5d2a7", "dd13c276499c0249d3310652", "edf6d05c83121201b436e16877593c3a"},
			"d16b3343cf0008f067a5502a4262b50040750001",
			"dc6b3343cf0008f067a5502a4262b500 4075d92faaf16f05d8a4398c47089698 baeea26b91eb761d9b89237bbf872630 17915358230035f7fd3945d88965cf17 f9af6e16886c61bfc703106fbaf3cb4c fa52382dd16a393e42757507698075b2 c984c707f0a0812d8cd5a6881eaf21ce da98f4bd23f6fe1a3e2c43edd9ce7ca8 4bed8521e2e140"},
	}
	names := []string{"client key", "client iv", "client hp", "server key", "server iv", "server hp"}
	for _, vc := range vecs {
		got := handshake.VerifInitialKeys(connID, vc.v)
		for i := range names {
			if !bytes.Equal(got[i], unhex(vc.keys[i])) {
				fmt.Fprintf(w, "MONFAIL\tprotect/rfc-keys-%s\tInitial %s for DCID 8394c8f03e515708 is %x, RFC Appendix A says %s\t%s\n", vc.name, names[i], got[i], vc.keys[i], vc.name)
			}
		}
		sealer, _ := handshake.NewInitialAEAD(connID, protocol.PerspectiveServer, vc.v)
		_, opener := handshake.NewInitialAEAD(connID, protocol.PerspectiveClient, vc.v)
		var lg quic.VerifProtLog
		pkt := quic.VerifProtEncrypt(sealer, unhex(vc.header), payload, 1, 2, &lg)
		if !bytes.Equal(pkt, unhex(vc.packet)) {
			fmt.Fprintf(w, "MONFAIL\tprotect/rfc-packet-%s\tserver Initial of Appendix A.3 protects to %x\t%s\n", vc.name, pkt, vc.name)
		}
		var l2 quic.VerifProtLog
		res, _, _, cls := quic.VerifProtUnpackLong(opener, unhex(vc.packet), &l2)
		if cls != quic.VerifProtOK || res.PN != 1 || res.PNLen != 2 || !bytes.Equal(res.Payload, payload) {
			fmt.Fprintf(w, "MONFAIL\tprotect/rfc-open-%s\tthe RFC's protected server Initial does not open to the RFC's payload (class %d)\t%s\n", vc.name, cls, vc.name)
		}
		fmt.Fprintf(w, "INFO\tRFC Appendix A vectors checked for %s\n", vc.name)
	}
}

// ppPackCase: the packer's call sites.  Packet number and its length come from a real
// sentPacketHandler (PeekPacketNumber -> PacketNumberLengthForHeader(pn, largestAcked)), the
// packet is built by the real appendShortHeaderPacket / getLongHeader + appendLongHeaderPacket
// (padding of short payloads, ACK before padding before frames) and opened by the real
// unpacker whose opener has seen a packet number between largestAcked and pn.
func ppPackCase(w *bufio.Writer, r *u.Rng, dist map[string]int, caseNo int) {
	var ctx string
	defer func() {
		if e := recover(); e != nil {
			fmt.Fprintf(w, "MONFAIL\tprotect/pack-panic\tpanic: %v\t%s\n", e, ctx)
		}
	}()
	long := caseNo%3 == 0
	version := protocol.Version1
	if r.Bool() {
		version = protocol.Version2
	}
	// (largestAcked, pn) around the length boundaries; fixed table first, then random
	gaps := []int64{1, 2, 1<<15 - 1, 1 << 15, 1<<15 + 1, 1<<23 - 1, 1 << 23, 1<<23 + 1, 1 << 30}
	gap := gaps[caseNo%len(gaps)]
	if caseNo >= 2*len(gaps) {
		gap = int64(1)<<uint(r.Intn(31)) + int64(r.Intn(3)) - 1
		if gap < 1 {
			gap = 1
		}
	}
	la := int64(r.Pick(-1, -1, 0, 5, 1<<16, 1<<32))
	pn := la + gap
	if pn < 0 {
		pn = 0
	}
	pers := protocol.PerspectiveClient
	if r.Bool() {
		pers = protocol.PerspectiveServer
	}
	encLevel := protocol.Encryption1RTT
	if long {
		encLevel = []protocol.EncryptionLevel{protocol.EncryptionInitial, protocol.EncryptionHandshake, protocol.Encryption0RTT}[r.Intn(3)]
	}
	sph := quic.VerifProtNewSPH(pn, pers)
	ackhandler.VerifPPSetNextPN(sph, encLevel, protocol.PacketNumber(pn))
	ackhandler.VerifPPSetLargestAcked(sph, encLevel, protocol.PacketNumber(la))
	// payload shapes: fixed table of the short ones (0..4 PINGs with/without ACK), then random
	nPing := caseNo % 5
	withAck := caseNo%2 == 1
	if caseNo >= 20 {
		nPing = r.Range(0, 30)
		withAck = r.Chance(1, 3)
	}
	if nPing == 0 {
		withAck = true
	}
	var ack *wire.AckFrame
	if withAck {
		lo := int64(r.Intn(60))
		ack = &wire.AckFrame{AckRanges: []wire.AckRange{{Smallest: protocol.PacketNumber(lo), Largest: protocol.PacketNumber(lo + int64(r.Intn(5)))}}}
	}
	extra := int(r.Pick(0, 0, 0, 1, 7))
	e := &ppEnds{long: long}
	dcid := protocol.ParseConnectionID(r.Bytes(r.Range(0, 20)))
	scid := protocol.ParseConnectionID(r.Bytes(r.Range(0, 20)))
	var token []byte
	var kp protocol.KeyPhaseBit = protocol.KeyPhaseZero
	if long {
		other := protocol.PerspectiveServer
		if pers == protocol.PerspectiveServer {
			other = protocol.PerspectiveClient
		}
		e.sealer, _ = handshake.NewInitialAEAD(dcid, pers, version)
		_, e.lopener = handshake.NewInitialAEAD(dcid, other, version)
		e.encMask = func(s []byte) []byte { return handshake.VerifRawMaskLongSealer(e.sealer, s) }
		e.decMask = func(s []byte) []byte { return handshake.VerifRawMaskLongOpener(e.lopener, s) }
		e.largest = func() int64 { return handshake.VerifLongOpenerHighestRcvd(e.lopener) }
		if encLevel == protocol.EncryptionInitial {
			token = r.Bytes(int(r.Pick(0, 0, 3, 40)))
		}
	} else {
		suites := handshake.VerifCipherSuiteIDs()
		e.ua, e.ub = handshake.VerifNewUAEADPair(suites[r.Intn(len(suites))], version, r.Bytes(32), r.Bytes(32), 0, 0)
		e.sealer, e.sopener = e.ua.Sealer(), e.ub.Opener()
		e.cidLen = dcid.Len()
		e.encMask, e.decMask = e.ua.RawMaskEnc, e.ub.RawMaskDec
		e.largest = e.ub.VerifHighestRcvd
	}
	ctx = fmt.Sprintf("long=%v %v level=%v pn=%d largestAcked=%d pings=%d ack=%v extra=%d", long, version, encLevel, pn, la, nPing, withAck, extra)
	var res quic.VerifProtPacked
	var err error
	if long {
		res, err = quic.VerifProtPackLong(sph, e.sealer, encLevel, dcid, scid, token, ack, nPing, extra, version)
	} else {
		res, err = quic.VerifProtPackShort(sph, e.sealer, dcid, kp, ack, nPing, extra, version)
	}
	if err != nil {
		fmt.Fprintf(w, "MONFAIL\tprotect/pack-error\tpacker returned %v\t%s\n", err, ctx)
		return
	}
	pnUsed := res.PN // the skipping generator may have skipped pn itself
	hdr := res.Log.SealAD
	pt := res.Log.SealPT
	// ---- monitors (model independent) ----
	if res.PNLen+len(pt) < 4 {
		fmt.Fprintf(w, "MONFAIL\tprotect/pack-padding\tpacket number (%d bytes) and payload (%d bytes) are shorter than 4 bytes: no header protection sample\t%s\n", res.PNLen, len(pt), ctx)
	}
	wantPadding := max(0, 4-res.PNLen-len(res.Ack)-len(res.Frames)) + extra
	want := append(append(append([]byte{}, res.Ack...), make([]byte, wantPadding)...), res.Frames...)
	if !bytes.Equal(pt, want) {
		fmt.Fprintf(w, "MONFAIL\tprotect/pack-payload\tsealed payload %x is not ACK | padding(%d) | frames = %x\t%s\n", pt, wantPadding, want, ctx)
	}
	// receiver state: it has processed some packet between largestAcked and pn
	lg := la
	if lg < 0 {
		lg = 0
	}
	if pnUsed > lg+1 && r.Bool() {
		lg += int64(r.U64() % uint64(pnUsed-lg))
	}
	if r.Chance(1, 4) { // the packet is overtaken: the receiver has already opened a later one (within the tolerance of the length)
		tol := int64(1)<<(8*uint(res.PNLen)-1) - 2
		lg = pnUsed + int64(r.Pick(1, 2, 100, tol))
	}
	if lg > 0 {
		// move the opener there with a 4-byte packet number (only possible below 2^31 from 0)
		if lg < 1<<31 {
			var wl quic.VerifProtLog
			var whdr []byte
			if long {
				h := &wire.ExtendedHeader{Header: wire.Header{Type: protocol.PacketTypeHandshake, DestConnectionID: dcid, SrcConnectionID: scid, Version: version, Length: protocol.ByteCount(4 + 3 + 16)},
					PacketNumber: protocol.PacketNumber(lg), PacketNumberLen: 4}
				whdr, _ = h.Append(nil, version)
			} else {
				whdr, _ = wire.AppendShortHeader(nil, dcid, protocol.PacketNumber(lg), 4, kp)
			}
			wp := quic.VerifProtEncrypt(e.sealer, whdr, []byte{1, 1, 1}, protocol.PacketNumber(lg), 4, &wl)
			var wl2 quic.VerifProtLog
			if _, _, _, cls := e.unpack(wp, &wl2); cls != quic.VerifProtOK {
				fmt.Fprintf(w, "INFO\tpack case: warm-up packet rejected (class %d) %s\n", cls, ctx)
				return
			}
		} else {
			lg = 0
		}
	}
	largest := e.largest()
	tcode := int64(hdr[0]>>4) & 3
	mid := hdr[1 : len(hdr)-res.PNLen]
	mask := e.encMask(res.Log.HPSample)
	fmt.Fprintf(w, "CASE 1 %s\n", u.App("PackCase", ppB(long), u.Z(tcode), u.Z(0), u.Hex(mid), u.Z(pnUsed), u.Z(la), u.Hex(res.Ack), u.Hex(res.Frames), u.Z(int64(extra)),
		u.Hex(res.Log.SealCT), u.Hex(res.Log.HPSample), u.Hex(mask), u.Z(int64(res.PNLen)), u.Hex(res.Packet)))
	dist[fmt.Sprintf("pack-%v-pnlen%d-payload%s", map[bool]string{true: "long", false: "short"}[long], res.PNLen, map[bool]string{true: "<4", false: ">=4"}[len(res.Ack)+len(res.Frames) < 4])]++
	if long {
		// the datagram level: coalesced bytes behind the packet; wire.ParsePacket must cut out exactly the packet
		rest := r.Bytes(int(r.Pick(0, 0, 1, 9)))
		var l3 quic.VerifProtLog
		// a fresh opener with the same receive state is not needed: parse only (class of the unpack is monitored below)
		dg := append(append([]byte{}, res.Packet...), rest...)
		h, pktOnly, restGo, perr := wire.ParsePacket(dg)
		_ = l3
		if perr != nil || !bytes.Equal(pktOnly, res.Packet) || !bytes.Equal(restGo, rest) {
			fmt.Fprintf(w, "MONFAIL\tprotect/pack-parsepacket\twire.ParsePacket did not cut the packet the packer built out of the datagram (err %v, %d of %d bytes)\t%s\n", perr, len(pktOnly), len(res.Packet), ctx)
		} else {
			if h.DestConnectionID != dcid || h.SrcConnectionID != scid || h.Version != version || !bytes.Equal(h.Token, token) ||
				int(h.Length) != res.PNLen+len(pt)+e.sealer.Overhead() {
				fmt.Fprintf(w, "MONFAIL\tprotect/pack-header-fields\tunprotected header fields differ from what the packer was given (length %d)\t%s\n", h.Length, ctx)
			}
			fmt.Fprintf(w, "CASE 1 %s\n", u.App("LongDgCase", u.Z(int64(h.Type)), u.ZU(uint64(version)), u.Hex(scid.Bytes()), u.Hex(dcid.Bytes()), u.Hex(token),
				u.Z(pnUsed), u.Z(la), u.Hex(res.Ack), u.Hex(res.Frames), u.Z(int64(extra)), u.Hex(res.Log.SealCT), u.Hex(res.Log.HPSample), u.Hex(mask),
				u.Hex(res.Packet), u.Hex(rest), u.Z(int64(h.ParsedLen())), u.Z(int64(len(pktOnly))), u.Z(int64(h.Length))))
			dist["pack-long-datagram"]++
		}
	}
	// open it with the real unpacker; replay the unpacker in the model (UnprotCase)
	var l2 quic.VerifProtLog
	up, hdrLen, pktLen, cls := e.unpack(res.Packet, &l2)
	inGuarantee := la <= largest && largest <= pnUsed+(int64(1)<<(8*uint(res.PNLen)-1)-2) && pnUsed-la <= 1<<31
	if inGuarantee && (cls != quic.VerifProtOK || up.PN != pnUsed || up.PNLen != res.PNLen || !bytes.Equal(up.Payload, pt)) {
		fmt.Fprintf(w, "MONFAIL\tprotect/pack-roundtrip\tpacket built by the packer did not open to the same packet number and payload (class %d, pn %d, pnLen %d, payload %x; receiver largest %d)\t%s\n",
			cls, up.PN, up.PNLen, up.Payload, largest, ctx)
	}
	if cls != quic.VerifProtOuterHeader && cls != quic.VerifProtOther && l2.HPCalls > 0 {
		call, ores, rs := "None", "None", "None"
		if l2.OpenCalls > 0 {
			call = u.Opt(true, u.Pair(u.Z(l2.OpenPN), u.Z(int64(l2.OpenKP)), u.Hex(l2.OpenAD), u.Hex(l2.OpenCT)))
			if l2.OpenOK {
				ores = u.Opt(true, u.Hex(l2.OpenPT))
			}
		}
		if cls == quic.VerifProtOK {
			rs = u.Opt(true, u.Pair(u.Z(int64(up.FirstByte)), u.Z(up.PN), u.Z(int64(up.PNLen)), u.Z(int64(up.KP)), u.Hex(up.Payload)))
		}
		fmt.Fprintf(w, "CASE 1 %s\n", u.App("UnprotCase", ppB(long), u.Z(int64(hdrLen)), u.Z(largest), u.Hex(res.Packet[:pktLen]), u.Hex(l2.HPSample), u.Hex(e.decMask(l2.HPSample)), call, ores, u.Z(int64(cls)), rs))
	}
}
