//go:build verif

package main

// simdial: C02 integration scenario (monitor-only). Real client (UTransport with a spec), real
// in-tree server, real TLS over testutils/simnet in virtual time. For every built-in QUICID and
// for generated derived specs (udDerive in udial.go): a fault schedule on the first flights
// (drop / duplicate / delay of the first datagrams in both directions) x dial index 1..3 on the
// SAME spec value x server configuration (default, small windows + datagrams, Retry, long
// certificate chain, other packet size, short idle timeouts, version 2 only = the client is sent
// a Version Negotiation packet and builds a second connection inside the same Dial): the
// handshake completes and 20 KB are echoed through a
// stream (client -> server -> client). Also UTransport{QUICSpec: nil} against plain Transport.
//
// Monitors:
//   simdial/<quicid>/handshake     first dial of a built-in spec: the handshake completes
//   simdial/<quicid>/echo          ... and the echo returns exactly the bytes written
//   simdial/<quicid>/dial<k>       k-th dial (k >= 2) of the same spec value: same
//   simdial/<quicid>/cid-limit     connection dies with CONNECTION_ID_LIMIT_ERROR (C12's finding)
//   simdial/<quicid>/stale-scid    initial_source_connection_id in the ClientHello != SCID of the packets
//   simdial/derived/<kind>         any of the above for a derived spec (detail: base, edits, dial)
//   simdial/nil-spec/behaviour     UTransport with nil spec and Transport: same outcome
//   simdial/<q>/leak-or-panic      bubble deadlock (goroutine leak) or panic

import (
	"bufio"
	"bytes"
	"context"
	"fmt"
	"io"
	"net"
	"os"
	"os/exec"
	"strings"
	"time"

	quic "github.com/refraction-networking/uquic"
	"github.com/refraction-networking/uquic/qlog"
	"github.com/refraction-networking/uquic/qlogwriter"
	u "github.com/refraction-networking/uquic/internal/verifutil"
)

func init() { units["simdial"] = runSimDial }

type sdCase struct {
	Name    string // what is dialled (quicid or the derived spec's description)
	Q       string // quicid name, "nil-spec", or base of a derived spec
	Kind    string // "" for built-in, else derived kind
	Spec    *quic.QUICSpec
	Plain   bool
	Srv     int
	Cli     int
	Faults  []fault
	Dials   int
	SameEnv bool
	GapMs   int // one transport: pause between closing one connection and dialling the next
	EchoN   int
	LateMs  int // > 0: keep the connection, wait that long after the echo, echo once more
	Respec  []*quic.QUICSpec // one UTransport: the spec assigned to UTransport.QUICSpec before dial k
	Trace   bool             // the client's Config carries a qlog Tracer (writing to nowhere)
	Run     func(rep *sdReporter, c sdCase) // nil = runOneSimDial + judge
}

var sdSrvNames = []string{"default", "small-windows", "retry", "long-chain", "pkt1350", "idle-short", "v2-only"}
var sdCliNames = []string{"default", "pkt1200", "timeouts"}

func (c sdCase) String() string {
	fs := make([]string, len(c.Faults))
	for i, f := range c.Faults {
		fs[i] = f.String()
	}
	env := "fresh-transport-per-dial"
	if c.SameEnv {
		env = fmt.Sprintf("one-transport(gap %dms)", c.GapMs)
	}
	late := ""
	if c.Trace {
		late = " client-qlog-tracer"
	}
	if c.LateMs > 0 {
		late += fmt.Sprintf(" second-echo-after=%dms", c.LateMs)
	}
	return fmt.Sprintf("%s server=%s client=%s faults=[%s] dials=%d %s echo=%d%s", c.Name, sdSrvNames[c.Srv], sdCliNames[c.Cli], strings.Join(fs, " "), c.Dials, env, c.EchoN, late)
}

func sdOpts(c sdCase) (o simOpts) {
	o = simOpts{Faults: c.Faults, Spec: c.Spec, PlainPath: c.Plain}
	switch c.Srv {
	case 1:
		o.ServerConf = &quic.Config{InitialStreamReceiveWindow: 8 << 10, MaxStreamReceiveWindow: 16 << 10, InitialConnectionReceiveWindow: 12 << 10,
			MaxConnectionReceiveWindow: 24 << 10, MaxIncomingStreams: 3, MaxIncomingUniStreams: 1, EnableDatagrams: true}
	case 2:
		o.SrvTr = func(t *quic.Transport) { t.VerifySourceAddress = func(net.Addr) bool { return true } }
	case 3:
		o.LongChain = true
	case 4:
		o.ServerConf = &quic.Config{InitialPacketSize: 1350, DisablePathMTUDiscovery: true}
	case 5:
		o.ServerConf = &quic.Config{MaxIdleTimeout: 8 * time.Second, HandshakeIdleTimeout: 6 * time.Second, KeepAlivePeriod: 2 * time.Second}
	case 6: // the client starts with version 1, is sent a Version Negotiation packet and builds a second connection (same Dial)
		o.ServerConf = &quic.Config{Versions: []quic.Version{quic.Version2}}
		o.ClientConf = &quic.Config{Versions: []quic.Version{quic.Version1, quic.Version2}}
	}
	if c.Trace {
		defer func() {
			if o.ClientConf == nil {
				o.ClientConf = &quic.Config{}
			}
			o.ClientConf.Tracer = sdTracer
		}()
	}
	if c.Srv == 6 {
		return o
	}
	switch c.Cli {
	case 1:
		o.ClientConf = &quic.Config{InitialPacketSize: 1200}
	case 2:
		o.ClientConf = &quic.Config{HandshakeIdleTimeout: 8 * time.Second, MaxIdleTimeout: 12 * time.Second}
	}
	return o
}

// one transport: a pause of sdLongGap ms lets the previous connection's closed-connection entry
// expire (3 PTO) before the next dial; shorter pauses are the "tight re-dial" cases.
const sdLongGap = 3000

func sdGap(r *u.Rng) int {
	if r.Chance(1, 3) {
		return []int{0, 10, 40, 50, 90}[r.Intn(5)]
	}
	return sdLongGap
}

type sdDiscard struct{}

func (sdDiscard) Write(p []byte) (int, error) { return len(p), nil }
func (sdDiscard) Close() error                { return nil }

// sdTracer: a real qlog trace whose output goes nowhere.
func sdTracer(_ context.Context, isClient bool, connID quic.ConnectionID) qlogwriter.Trace {
	fs := qlogwriter.NewConnectionFileSeq(sdDiscard{}, isClient, connID, []string{qlog.EventSchema})
	go fs.Run()
	return fs
}

type sdResult struct {
	Phase string // "" = ok, else "handshake" / "echo"
	Err   string
	Stale string
	Sent  bool // did the client put a datagram on the wire during this dial
	SCID  int  // length of the source connection ID in this dial's first Initial packet, -1 = none seen
}

func sdServe(ctx context.Context, e *simEnv) {
	for {
		conn, err := e.Ln.Accept(ctx)
		if err != nil {
			return
		}
		go func(conn *quic.Conn) {
			for {
				s, err := conn.AcceptStream(ctx)
				if err != nil {
					return
				}
				go func(s *quic.Stream) {
					data, err := io.ReadAll(s)
					if err == nil {
						_, _ = s.Write(data)
					}
					s.Close()
				}(s)
			}
		}(conn)
	}
}

// sdDialEcho: one dial through the env plus the echo.
func sdDialEcho(e *simEnv, echoN int, seed int, lateMs int) sdResult {
	ctx, cancel := context.WithTimeout(context.Background(), 60*time.Second)
	defer cancel()
	conn, err := e.Dial(ctx)
	if err != nil {
		return sdResult{Phase: "handshake", Err: err.Error()}
	}
	defer conn.CloseWithError(0, "")
	fail := func(what string, err error) sdResult {
		msg := fmt.Sprintf("%s: %v", what, err)
		if cause := context.Cause(conn.Context()); cause != nil {
			msg += fmt.Sprintf(" (connection: %v)", cause)
		}
		return sdResult{Phase: "echo", Err: msg}
	}
	echo := func(n, id int) *sdResult {
		s, err := conn.OpenStreamSync(ctx)
		if err != nil {
			r := fail("OpenStreamSync", err)
			return &r
		}
		data := streamBytes(id, n)
		_ = s.SetDeadline(time.Now().Add(60 * time.Second))
		if _, err := s.Write(data); err != nil {
			r := fail("Write", err)
			return &r
		}
		if err := s.Close(); err != nil {
			r := fail("Close", err)
			return &r
		}
		got, err := io.ReadAll(s)
		if err != nil {
			r := fail(fmt.Sprintf("Read after %d of %d bytes", len(got), len(data)), err)
			return &r
		}
		if !bytes.Equal(got, data) {
			return &sdResult{Phase: "echo", Err: fmt.Sprintf("echo returned %d bytes that differ from the %d written", len(got), len(data))}
		}
		return nil
	}
	if r := echo(echoN, seed); r != nil {
		return *r
	}
	if lateMs > 0 {
		// the connection has to survive whatever still arrives from the first flights
		time.Sleep(time.Duration(lateMs) * time.Millisecond)
		if r := echo(2000, seed+100); r != nil {
			r.Err = fmt.Sprintf("second echo, %d ms after the first: %s", lateMs, r.Err)
			return *r
		}
	}
	return sdResult{}
}

// sdStale: initial_source_connection_id of the ClientHello against the packets' SCID.
func sdStale(e *simEnv, from int) string {
	e.Router.mu.Lock()
	var dg [][]byte
	for _, d := range e.Router.log[from:] {
		if d.Dir == 0 {
			dg = append(dg, d.Data)
		}
	}
	e.Router.mu.Unlock()
	if len(dg) == 0 {
		return ""
	}
	pkts, err := udOpen(dg[:1])
	if err != nil || len(pkts) == 0 {
		return ""
	}
	// the whole first flight: datagrams until the ClientHello is complete
	for n := 1; n <= len(dg) && n <= 8; n++ {
		pk, err := udOpen(dg[:n])
		if err != nil {
			return ""
		}
		h, err := udParseHello(udReassemble(pk))
		if err != nil {
			continue
		}
		for _, p := range h.TP {
			if p.ID == 0xf && !bytes.Equal(p.Val, pk[0].SCID) {
				return fmt.Sprintf("initial_source_connection_id on the wire is %x, the packets carry source connection ID %x", p.Val, pk[0].SCID)
			}
		}
		return ""
	}
	return ""
}

func runOneSimDial(c sdCase) (res []sdResult, leak string) {
	res = make([]sdResult, c.Dials)
	run := func(k0, k1 int) {
		err := inBubble(func() {
			e, err := newSimEnv(sdOpts(c))
			if err != nil {
				for k := k0; k < k1; k++ {
					res[k] = sdResult{Phase: "handshake", Err: "env: " + err.Error()}
				}
				return
			}
			sctx, scancel := context.WithCancel(context.Background())
			go sdServe(sctx, e)
			for k := k0; k < k1; k++ {
				if k > k0 {
					time.Sleep(time.Duration(c.GapMs) * time.Millisecond)
				}
				e.Router.mu.Lock()
				from := len(e.Router.log)
				e.Router.mu.Unlock()
				if c.Respec != nil && e.CliUTr != nil {
					e.CliUTr.QUICSpec = c.Respec[k]
				}
				res[k] = sdDialEcho(e, c.EchoN, k+1, c.LateMs)
				res[k].SCID = -1
				if c.Spec != nil {
					res[k].Stale = sdStale(e, from)
				}
				e.Router.mu.Lock()
				var sent [][]byte
				for _, d := range e.Router.log[from:] {
					if d.Dir == 0 {
						sent = append(sent, d.Data)
						res[k].Sent = true
					}
				}
				e.Router.mu.Unlock()
				for _, d := range sent { // the first datagram that holds an Initial packet (not a late packet of the previous connection)
					if pk, err := udOpen([][]byte{d}); err == nil && len(pk) > 0 {
						res[k].SCID = len(pk[0].SCID)
						break
					}
				}
			}
			scancel()
			e.Close()
		})
		if err != nil {
			leak = err.Error()
		}
	}
	if c.SameEnv {
		run(0, c.Dials)
	} else {
		for k := 0; k < c.Dials; k++ {
			run(k, k+1)
		}
	}
	return
}

func sdGenFaults(r *u.Rng) []fault {
	var fs []fault
	for i, n := 0, []int{0, 1, 1, 2, 2, 3}[r.Intn(6)]; i < n; i++ {
		f := fault{Dir: r.Intn(2), Idx: r.Range(0, 4), Kind: []int{fDrop, fDrop, fDup, fDelay}[r.Intn(4)]}
		if f.Kind == fDelay {
			f.Arg = r.Range(3, 90)
		}
		fs = append(fs, f)
	}
	return fs
}

type sdReporter struct {
	w    *bufio.Writer
	seen map[string]int
	dist map[string]int
}

func (r *sdReporter) fail(key, desc, detail string) {
	r.seen[key]++
	if r.seen[key] <= 3 {
		fmt.Fprintf(r.w, "MONFAIL\t%s\t%s\t%s\n", key, desc, strings.ReplaceAll(detail, "\n", " "))
	}
}

// sdInvalidSpec: does InitialPacketSpec.validate (u_initial_packet_spec.go) have to refuse this
// spec for this client configuration? Stated here from the documented ranges, not by calling it.
func sdInvalidSpec(c sdCase) string {
	if c.Spec == nil {
		return ""
	}
	ips := &c.Spec.InitialPacketSpec
	maxPkt := 1252
	if c.Cli == 1 && c.Srv != 6 {
		maxPkt = 1200
	}
	switch {
	case ips.SrcConnIDLength < 0 || ips.SrcConnIDLength > 20:
		return "SrcConnIDLength"
	case ips.DestConnIDLength != 0 && (ips.DestConnIDLength < 8 || ips.DestConnIDLength > 20):
		return "DestConnIDLength"
	case ips.InitPacketNumber > 1<<62-1:
		return "InitPacketNumber"
	case ips.InitPacketNumberLength > 4:
		return "InitPacketNumberLength"
	}
	for _, l := range ips.InitPacketNumberLengths {
		if l < 1 || l > 4 {
			return "InitPacketNumberLengths"
		}
	}
	first := 0
	if len(ips.InitPacketNumberLengths) > 0 {
		first = int(ips.InitPacketNumberLengths[0])
	} else if ips.InitPacketNumberLength != 0 {
		first = int(ips.InitPacketNumberLength)
	}
	if first > 0 && first < 8 && ips.InitPacketNumber >= 1<<(8*uint(first)) {
		return "InitPacketNumber does not fit its encoding"
	}
	if m := c.Spec.UDPDatagramMinSize; m < 0 || (m > 0 && m < 1200) || m > 1452 {
		return "UDPDatagramMinSize"
	}
	for _, pl := range ips.InitialPackets {
		if pl.CryptoLength < 0 {
			return "CryptoLength"
		}
		if pl.PacketSize != 0 && (pl.PacketSize < 1200 || pl.PacketSize > maxPkt) {
			return "PacketSize"
		}
	}
	return ""
}

// judgeRespec: dial k+1 through the SAME UTransport with another spec. Either the dial works
// fully (handshake + echo, and the source connection ID on the wire has the length the spec in
// force says), or the spec change is refused up front (error, nothing sent) -- never "handshake
// ok, echo silent".
func (rep *sdReporter) judgeRespec(c sdCase, res []sdResult, leak string) {
	base := "simdial/respec/" + c.Q + "/"
	for k, r := range res {
		sp := c.Respec[k]
		what := fmt.Sprintf("dial#%d with %s", k+1, []string{"spec A", "spec B"}[min(k, 1)])
		switch {
		case r.Phase == "handshake" && (!r.Sent || strings.Contains(r.Err, "invalid QUICSpec")):
			// (on one transport "sent" may be a late datagram of the previous connection)
			rep.dist["respec refused up front"]++
			if k == 0 {
				rep.fail(base+"handshake", what+": refused although nothing was dialled before: "+r.Err, c.String())
			}
		case r.Phase == "handshake":
			rep.fail(base+"handshake", what+": the handshake does not complete: "+r.Err, c.String())
		case r.Phase == "echo":
			rep.fail(base+"echo", what+": the handshake completes, but no stream data comes back: "+r.Err, c.String())
		default:
			rep.dist["respec ok"]++
		}
		if r.SCID >= 0 && sp != nil && r.SCID != sp.InitialPacketSpec.SrcConnIDLength {
			rep.fail(base+"scid-length", fmt.Sprintf("%s: the source connection ID on the wire has %d bytes, the spec in force says SrcConnIDLength %d", what, r.SCID, sp.InitialPacketSpec.SrcConnIDLength), c.String())
		}
		if r.Stale != "" {
			rep.fail(base+"stale-scid", r.Stale, c.String())
		}
	}
	if leak != "" {
		rep.fail(base+"leak-or-panic", leak, c.String())
	}
}

func (rep *sdReporter) judge(c sdCase, res []sdResult, leak string) {
	if c.Respec != nil {
		rep.judgeRespec(c, res, leak)
		return
	}
	base := "simdial/" + c.Q + "/"
	if why := sdInvalidSpec(c); why != "" {
		// the dial has to fail with the validation error, at once, with nothing on the wire
		for k, r := range res {
			if r.Phase == "handshake" && strings.Contains(r.Err, "invalid QUICSpec") && !r.Sent {
				rep.dist["rejected by validate: "+why]++
				continue
			}
			rep.fail("simdial/derived/invalid-accepted", fmt.Sprintf("dial#%d: a spec that cannot be sent (%s) was not refused by InitialPacketSpec.validate before sending: result %+v", k+1, why, r), c.String())
		}
		if leak != "" {
			rep.fail(base+"leak-or-panic", leak, c.String())
		}
		return
	}
	for k, r := range res {
		if strings.Contains(r.Err, "invalid QUICSpec") {
			rep.fail("simdial/derived/validate-unexpected", fmt.Sprintf("dial#%d: InitialPacketSpec.validate refuses a spec within the documented ranges: %s", k+1, r.Err), c.String())
			res[k] = sdResult{}
		}
	}
	key := func(k int, phase string) string {
		if c.Kind != "" {
			return "simdial/derived/" + c.Kind
		}
		if k == 0 {
			return base + phase
		}
		return fmt.Sprintf("%sdial%d", base, k+1)
	}
	for k, r := range res {
		if r.Stale != "" {
			rep.fail(base+"stale-scid", r.Stale, fmt.Sprintf("dial#%d %s", k+1, c.String()))
		}
		if r.Phase == "" {
			rep.dist["ok"]++
			continue
		}
		rep.dist["failed "+r.Phase]++
		if strings.Contains(r.Err, "CONNECTION_ID_LIMIT_ERROR") {
			rep.fail(base+"cid-limit", "connection dies with CONNECTION_ID_LIMIT_ERROR: "+r.Err, fmt.Sprintf("dial#%d %s", k+1, c.String()))
			continue
		}
		if c.SameEnv && c.GapMs < sdLongGap && k > 0 && c.Spec != nil && c.Spec.InitialPacketSpec.SrcConnIDLength == 0 && strings.Contains(r.Err, "no recent network activity") {
			rep.fail(base+"redial-empty-scid", fmt.Sprintf("dial#%d through the same UTransport, %d ms after the previous connection was closed, zero-length source connection ID: %s: %s", k+1, c.GapMs, r.Phase, r.Err), c.String())
			continue
		}
		if strings.Contains(r.Err, "failed to reassemble CRYPTO frames") {
			kk := base + "retx-noncontiguous"
			if c.Kind != "" {
				kk = "simdial/derived/retx-noncontiguous"
			}
			rep.fail(kk, fmt.Sprintf("dial#%d: the client closes the connection while retransmitting lost Initial datagrams: %s", k+1, r.Err), c.String())
			continue
		}
		what := "the handshake does not complete"
		if r.Phase == "echo" {
			what = "the handshake completes but the 20 KB echo fails"
		}
		rep.fail(key(k, r.Phase), fmt.Sprintf("dial#%d of one spec value: %s: %s", k+1, what, r.Err), c.String())
	}
	if leak != "" {
		rep.fail(base+"leak-or-panic", leak, c.String())
	}
}

func runSimDial(w *bufio.Writer, seed uint64, n int, args []string) {
	r := u.NewRng(seed)
	rep := &sdReporter{w: w, seen: map[string]int{}, dist: map[string]int{}}
	defer func() {
		if p := recover(); p != nil {
			fmt.Fprintf(w, "MONFAIL\tsimdial/panic\t%v\t\n", p)
		}
	}()
	only, family, skip := "", "", 0
	for _, a := range args {
		if strings.HasPrefix(a, "only=") {
			only = a[5:]
		}
		if strings.HasPrefix(a, "family=") {
			family = a[7:]
		}
		if strings.HasPrefix(a, "skip=") {
			fmt.Sscanf(a, "skip=%d", &skip)
		}
	}
	if family == "" {
		// The parent runs no connection itself: an unrecovered panic in a goroutine of a real
		// connection kills the process it happens in. Every family runs in a child process
		// (this binary again); when a child dies, the scenario it had started is reported and the
		// family is resumed behind it.
		type fam struct {
			name, only string
			n          int
		}
		fams := []fam{{"matrix", only, 0}, {"builtin", only, n}}
		if only == "" {
			fams = append(fams, fam{"derived", "", n}, fam{"retx", "", 8 + n/5}, fam{"fixed-split", "", 6 + n/10})
			for _, q := range append(append([]string{}, parrotNames...), "nil-spec", "plain") {
				fams = append(fams, fam{"late-dup", q, 0})
			}
			fams = append(fams, fam{"respec", "", 20 + n/5}, fam{"nilspec", "", 10 + n/5})
		}
		for _, f := range fams {
			sdChildOnly(w, rep, seed, f.name, f.only, f.n)
		}
		for k, v := range rep.dist {
			fmt.Fprintf(w, "DIST\t%s\t%d\n", k, v)
		}
		return
	}
	// ---- child: one family -------------------------------------------------------------
	nCases := 0
	emit := func(c sdCase) {
		idx := nCases
		nCases++
		if idx < skip {
			return // generated (the random stream advances), run by an earlier child
		}
		if c.Srv == 6 {
			// (with a Version Negotiation the first connection's qlog trace is never closed -- for
			// every kind of client, the plain Transport included -- so the trace's writer goroutine
			// would be reported as a leak; not this property's subject)
			c.Trace = false
		}
		fmt.Fprintf(w, "START\t%d\t%s\t%s\n", idx, c.Q, c.String())
		w.Flush()
		if c.Run != nil {
			c.Run(rep, c)
		} else {
			res, leak := runOneSimDial(c)
			rep.judge(c, res, leak)
			if idx < 3 && family == "builtin" {
				fmt.Fprintf(w, "SAMPLE\t%s -> %+v\n", c.String(), res)
			}
		}
		nt := 0
		if len(c.Faults) > 0 || c.Srv != 0 {
			nt = 1
		}
		fmt.Fprintf(w, "CASE %d %s\n", nt, c.String())
		if c.Spec != nil && c.Kind != "" {
			udSpecDist(rep.dist, c.Spec)
		}
		rep.dist["server="+sdSrvNames[c.Srv]]++
		rep.dist[fmt.Sprintf("faults=%d", len(c.Faults))]++
		rep.dist["family "+family]++
		w.Flush()
	}
	sdFamily(r, family, only, n, emit)
	for k, v := range rep.dist {
		fmt.Fprintf(w, "DIST\t%s\t%d\n", k, v)
	}
	for k, v := range rep.seen {
		if v > 3 {
			fmt.Fprintf(w, "INFO\t%s failed %d times (first 3 printed)\n", k, v)
		}
	}
}

// sdBuiltin: every built-in QUICID, random schedules and configurations.
func sdBuiltin(r *u.Rng, only string, n int, emit func(sdCase)) {
	perID := 5 + n/20
	if os.Getenv("VERIF_TIER") == "thorough" {
		perID = 12 + n/20
	}
	for _, name := range parrotNames {
		for i := 0; i < perID; i++ {
			rr := r.Fork()
			if only != "" && only != name {
				continue
			}
			sp, err := specFor(name)
			if err != nil {
				break
			}
			c := sdCase{Name: name, Q: name, Spec: sp, Dials: 3, EchoN: 20000, SameEnv: i%2 == 1, GapMs: sdGap(rr)}
			if i > 0 {
				c.Faults = sdGenFaults(rr)
				c.Srv = []int{0, 0, 1, 2, 3, 4, 5, 6}[rr.Intn(8)]
				c.Cli = []int{0, 0, 1, 2}[rr.Intn(4)]
				c.Trace = rr.Chance(1, 4)
			}
			emit(c)
		}
	}
}

// sdMatrix: the fixed table, the same for every seed: {each built-in parrot, nil spec, plain} x
// {server with Retry (VerifySourceAddress), without} x {client with a qlog tracer, without},
// no faults, two dials of the same spec value.
func sdMatrix(only string, emit func(sdCase)) {
	for _, q := range append(append([]string{}, parrotNames...), "nil-spec", "plain") {
		if only != "" && only != q {
			continue
		}
		for _, srv := range []int{0, 2} {
			for _, trace := range []bool{false, true} {
				c := sdCase{Name: q, Q: q, Dials: 2, EchoN: 20000, Srv: srv, Trace: trace}
				switch q {
				case "nil-spec":
					c.Name = "UTransport{QUICSpec:nil}"
				case "plain":
					c.Name, c.Plain = "Transport", true
				default:
					sp, err := specFor(q)
					if err != nil {
						continue
					}
					c.Spec = sp
				}
				emit(c)
			}
		}
	}
}

// sdDerived: derived specs.
func sdDerived(r *u.Rng, n int, emit func(sdCase)) {
	for i := 0; i < n; i++ {
		rr := r.Fork()
		base := parrotNames[rr.Intn(len(parrotNames))]
		kind := udDerivedKinds[i%len(udDerivedKinds)]
		d, err := udDerive(rr, base, kind)
		if err != nil {
			continue
		}
		c := sdCase{Name: d.Desc, Q: base, Kind: kind, Spec: d.Spec, Dials: 3, EchoN: 20000, SameEnv: rr.Bool(), GapMs: sdGap(rr)}
		c.Faults = sdGenFaults(rr)
		c.Srv = []int{0, 0, 0, 1, 2, 3, 4, 5, 6}[rr.Intn(9)]
		c.Cli = []int{0, 0, 1, 2}[rr.Intn(4)]
		c.Trace = rr.Chance(1, 5)
		emit(c)
	}
}

// sdNilSpec: UTransport{QUICSpec: nil} against plain Transport, same outcome.
func sdNilSpec(r *u.Rng, n int, emit func(sdCase)) {
	for i := 0; i < n; i++ {
		rr := r.Fork()
		c := sdCase{Name: "nil-spec-vs-plain UTransport{QUICSpec:nil}", Q: "nil-spec", Dials: 2, EchoN: 20000, SameEnv: rr.Bool(), GapMs: sdGap(rr)}
		if i > 0 {
			c.Faults = sdGenFaults(rr)
			c.Srv = rr.Intn(len(sdSrvNames))
			c.Cli = rr.Intn(len(sdCliNames))
			c.Trace = rr.Chance(1, 4)
		}
		c.Run = func(rep *sdReporter, c sdCase) {
			resU, leakU := runOneSimDial(c)
			p := c
			p.Plain, p.Name = true, "Transport"
			resP, leakP := runOneSimDial(p)
			for k := range resU {
				if (resU[k].Phase == "") != (resP[k].Phase == "") {
					rep.fail("simdial/nil-spec/behaviour", fmt.Sprintf("dial#%d: UTransport with a nil spec: %+v, plain Transport: %+v", k+1, resU[k], resP[k]), c.String())
				} else if resU[k].Phase != "" {
					rep.fail("simdial/nil-spec/handshake", fmt.Sprintf("dial#%d fails on both paths: %+v / %+v", k+1, resU[k], resP[k]), c.String())
				}
			}
			if leakU != "" || leakP != "" {
				rep.fail("simdial/nil-spec/leak-or-panic", leakU+" / "+leakP, c.String())
			}
		}
		emit(c)
	}
}

// sdFamily: directed case families (also the entry point of the child process).
func sdFamily(r *u.Rng, family, only string, n int, emit func(sdCase)) {
	switch family {
	case "matrix":
		sdMatrix(only, emit)
		return
	case "builtin":
		sdBuiltin(r, only, n, emit)
		return
	case "derived":
		sdDerived(r, n, emit)
		return
	case "nilspec":
		sdNilSpec(r, n, emit)
		return
	}
	if family == "late-dup" {
		sdLateDup(r, only, emit)
		return
	}
	if family == "respec" {
		sdRespec(r, n, emit)
		return
	}
	for i := 0; i < n; i++ {
		rr := r.Fork()
		base := parrotNames[rr.Intn(len(parrotNames))]
		switch family {
		case "retx":
			// a ClientHello spread over many small Initial datagrams (per-datagram builder path),
			// several of them lost, the server's first acknowledgements lost as well
			if i < 2 { // scripted witness: datagrams 4 and 6 of the flight lost, the first two ACK datagrams lost
				wb := []string{"Chrome_115_IPv4", "Firefox_116B"}[i]
				sp, err := specFor(wb)
				if err != nil {
					continue
				}
				udPad(sp, 900)
				sp.InitialPacketSpec.FrameBuilder = quic.QUICFrames{}
				sp.InitialPacketSpec.InitialPackets = []quic.InitialPacketPlan{{CryptoLength: 300, PacketSize: 1200}}
				emit(sdCase{Name: "base=" + wb + " hello+900; QUICFrames{}; InitialPackets=[{CryptoLength:300 PacketSize:1200}]", Q: wb, Kind: "retx", Spec: sp, Dials: 1, EchoN: 20000,
					Faults: []fault{{Dir: 0, Idx: 4, Kind: fDrop}, {Dir: 0, Idx: 6, Kind: fDrop}, {Dir: 1, Idx: 0, Kind: fDrop}, {Dir: 1, Idx: 1, Kind: fDrop}}})
				continue
			}
			d, err := udDerive(rr, base, "plan")
			if err != nil {
				continue
			}
			cl := []int{120, 150, 200, 300}[rr.Intn(4)]
			d.Spec.InitialPacketSpec.InitialPackets = []quic.InitialPacketPlan{{CryptoLength: cl, PacketSize: []int{0, 1200}[rr.Intn(2)]}}
			c := sdCase{Name: fmt.Sprintf("%s; retx CryptoLength=%d", d.Desc, cl), Q: base, Kind: "retx", Spec: d.Spec, Dials: 2, EchoN: 20000}
			lost := map[int]bool{}
			for j, k := 0, rr.Range(2, 3); j < k; j++ {
				lost[rr.Range(0, 6)] = true
			}
			for idx := range lost {
				c.Faults = append(c.Faults, fault{Dir: 0, Idx: idx, Kind: fDrop})
			}
			for j, k := 0, rr.Range(0, 5); j < k; j++ {
				c.Faults = append(c.Faults, fault{Dir: 1, Idx: j, Kind: fDrop})
			}
			emit(c)
		case "fixed-split":
			d, err := udDerive(rr, base, "frames-fixed-split")
			if err != nil {
				continue
			}
			c := sdCase{Name: d.Desc, Q: base, Kind: "frames-fixed-split", Spec: d.Spec, Dials: 2, EchoN: 20000}
			if i > 0 {
				c.Faults = append(c.Faults, fault{Dir: 1, Idx: rr.Range(0, 2), Kind: fDrop})
				if rr.Bool() {
					c.Faults = append(c.Faults, fault{Dir: 0, Idx: rr.Range(0, 2), Kind: fDrop})
				}
			}
			emit(c)
		}
	}
}

// sdChildOnly runs one family in a child process and relays its lines. A crash of the child (a
// panic in one of the connection's own goroutines cannot be recovered from outside) becomes a
// monitor failure carrying the scenario that was running; the family is then resumed behind
// that scenario in a new child.
func sdChildOnly(w *bufio.Writer, rep *sdReporter, seed uint64, family, only string, n int) {
	skip := 0
	for restart := 0; restart < 8; restart++ {
		cmd := exec.Command(os.Args[0], "simdial", fmt.Sprint(seed), fmt.Sprint(n), "family="+family, "only="+only, fmt.Sprintf("skip=%d", skip))
		cmd.Env = os.Environ()
		var out, errb bytes.Buffer
		cmd.Stdout, cmd.Stderr = &out, &errb
		err := cmd.Run()
		last, lastQ, lastIdx := "", "", -1
		for _, ln := range strings.Split(out.String(), "\n") {
			switch {
			case strings.HasPrefix(ln, "START\t"):
				if f := strings.SplitN(ln, "\t", 4); len(f) == 4 {
					fmt.Sscanf(f[1], "%d", &lastIdx)
					lastQ, last = f[2], f[3]
				}
			case strings.HasPrefix(ln, "DIST\t"):
				if f := strings.Split(ln, "\t"); len(f) == 3 {
					var v int
					fmt.Sscanf(f[2], "%d", &v)
					rep.dist[f[1]] += v
				}
			case strings.HasPrefix(ln, "CASE ") || strings.HasPrefix(ln, "MONFAIL\t") || strings.HasPrefix(ln, "SAMPLE\t") || strings.HasPrefix(ln, "INFO\t"):
				fmt.Fprintln(w, ln)
			}
		}
		if err == nil {
			return
		}
		first := ""
		var where []string
		for _, ln := range strings.Split(errb.String(), "\n") {
			if first == "" && (strings.HasPrefix(ln, "panic:") || strings.HasPrefix(ln, "fatal error:")) {
				first = ln
			}
			if strings.HasPrefix(ln, "[signal ") {
				first += " " + ln
			}
			if strings.Contains(ln, "uquic") && strings.Contains(ln, "(") && !strings.HasPrefix(ln, "\t") && !strings.Contains(ln, "verifdrv") && len(where) < 5 {
				fn := strings.TrimSpace(ln)
				if i := strings.LastIndex(fn, "("); i > 0 {
					fn = fn[:i]
				}
				where = append(where, strings.TrimPrefix(fn, "github.com/refraction-networking/uquic"))
			}
		}
		if first == "" {
			first = strings.TrimSpace(errb.String())
			if len(first) > 300 {
				first = first[:300]
			}
		}
		key := "simdial/panic"
		switch family {
		case "late-dup":
			key = "simdial/" + lastQ + "/late-handshake-duplicate"
		case "retx", "fixed-split":
			key = "simdial/derived/" + family + "-panic"
		}
		rep.fail(key, fmt.Sprintf("the client process dies while running this scenario (%v): %s in %s", err, first, strings.Join(where, " <- ")), last)
		rep.dist["child crashed: family "+family]++
		if lastIdx < 0 {
			return // died before the first scenario: nothing to resume behind
		}
		skip = lastIdx + 1
	}
}

// sdLateDup: late duplicates of the server's first-flight datagrams (RTT 10 ms: the copy arrives
// 1 to 8 round trips after the original), each server->client datagram 0..3 alone and all of
// them together; the connection must complete the handshake, echo, and still echo afterwards.
func sdLateDup(r *u.Rng, only string, emit func(sdCase)) {
	qs := append(append([]string{}, parrotNames...), "nil-spec", "plain")
	for _, q := range qs {
		if only != "" && only != q {
			continue
		}
		var scheds [][]fault
		for idx := 0; idx < 4; idx++ {
			for _, arg := range []int{[]int{10, 15, 25}[r.Intn(3)], []int{40, 60, 80}[r.Intn(3)]} {
				scheds = append(scheds, []fault{{Dir: 1, Idx: idx, Kind: fDupLate, Arg: arg}})
			}
		}
		all := []fault{}
		for idx := 0; idx < 4; idx++ {
			all = append(all, fault{Dir: 1, Idx: idx, Kind: fDupLate, Arg: 50})
		}
		scheds = append(scheds, all)
		for _, fs := range scheds {
			c := sdCase{Name: q, Q: q, Kind: "", Dials: 1, EchoN: 20000, Faults: fs, LateMs: 300}
			switch q {
			case "nil-spec":
				c.Name = "UTransport{QUICSpec:nil}"
			case "plain":
				c.Name, c.Plain = "Transport", true
			default:
				sp, err := specFor(q)
				if err != nil {
					continue
				}
				c.Spec = sp
			}
			emit(c)
		}
	}
}

// sdRespec: ONE UTransport; dial with spec A, echo, close; assign spec B to UTransport.QUICSpec;
// dial, echo. B is another built-in QUICID, or A's QUICID with InitialPacketSpec fields edited
// (source / destination connection ID length, token, packet number settings) within what
// InitialPacketSpec.validate accepts. The first cases walk through all pairs of ID-length
// classes (Chrome: 0 bytes, Firefox: 3 bytes).
func sdRespec(r *u.Rng, n int, emit func(sdCase)) {
	fixed := [][2]string{{"Chrome_115_IPv4", "Firefox_116A"}, {"Firefox_116B", "Chrome_146_IPv4"}, {"Chrome_115_IPv6", "Chrome_146_IPv6"}, {"Firefox_116A", "Firefox_116C"}}
	for i := 0; i < n; i++ {
		rr := r.Fork()
		var a, b string
		if i < len(fixed) {
			a, b = fixed[i][0], fixed[i][1]
		} else {
			a = parrotNames[rr.Intn(len(parrotNames))]
			b = parrotNames[rr.Intn(len(parrotNames))]
		}
		spA, err1 := specFor(a)
		spB, err2 := specFor(b)
		if err1 != nil || err2 != nil {
			continue
		}
		nameB := b
		if i >= len(fixed) && (a == b || rr.Chance(1, 2)) {
			// the same QUICID again, edited
			spB, _ = specFor(a)
			ips := &spB.InitialPacketSpec
			var ed []string
			for len(ed) == 0 {
				if rr.Chance(1, 2) {
					ips.SrcConnIDLength = []int{0, 3, 4, 8, 20}[rr.Intn(5)]
					ed = append(ed, fmt.Sprintf("SrcConnIDLength=%d", ips.SrcConnIDLength))
				}
				if rr.Chance(1, 3) {
					ips.DestConnIDLength = []int{8, 12, 20}[rr.Intn(3)]
					ed = append(ed, fmt.Sprintf("DestConnIDLength=%d", ips.DestConnIDLength))
				}
				if rr.Chance(1, 3) {
					ips.ClientTokenLength = rr.Range(8, 70)
					ed = append(ed, fmt.Sprintf("ClientTokenLength=%d", ips.ClientTokenLength))
				}
				if rr.Chance(1, 3) {
					ips.InitPacketNumber, ips.InitPacketNumberLength, ips.InitPacketNumberLengths = uint64(rr.Range(0, 5)), 2, nil
					ed = append(ed, fmt.Sprintf("InitPacketNumber=%d/2 bytes", ips.InitPacketNumber))
				}
			}
			nameB = a + "{" + strings.Join(ed, ",") + "}"
		}
		c := sdCase{Name: "respec A=" + a + " B=" + nameB, Q: a + "-" + strings.SplitN(nameB, "{", 2)[0], Spec: spA, Respec: []*quic.QUICSpec{spA, spB}, Dials: 2, SameEnv: true,
			GapMs: []int{0, 50, 500}[rr.Intn(3)], EchoN: 20000}
		if strings.Contains(nameB, "{") {
			c.Q = a + "-edited"
		}
		emit(c)
	}
}
