//go:build verif

package main

// siminitial: C10 integration scenario (monitor-only) and the INDEPENDENT OBSERVER shared
// with the unit harness `upacker`.
//
// The observer (c10Open) shares no code with /repo: it derives the client Initial keys from
// the destination connection ID of the flight's first packet with the Go standard library
// (HKDF-SHA256, AES-128-ECB mask, AES-128-GCM), removes header protection, decodes the
// packet number the way a receiver does (RFC 9000 A.3), opens the AEAD and walks the
// frames with its own varint reader. c10CheckFlight states the property field by field
// against the InitialPacketSpec:
//
//   decryptable     every datagram opens with the standard Initial keys and the packet
//                   number as a server decodes it
//   dcid-len scid-len dcid-stable
//   pn              first packet number = InitPacketNumber (0 if > 2^62-1), then +1
//   pn-range        no packet number above 2^62-1 on the wire
//   pn-len          per packet: lengths[min(i,n-1)] / the single override / >= 2
//   token           explicit / prefix + length / absent;  token-fresh: differs across dials
//   frames          only PADDING, PING, CRYPTO; counts inside the builder's bounds
//   crypto-split    the CRYPTO bytes of datagram i are the next contiguous slice of the
//                   stream, of exactly CryptoLength bytes where the plan pins it; the
//                   flight reassembles to one ClientHello
//   plan-index      entry i of InitialPackets governs datagram i
//   size-exact      PacketSize s > 0: packet and datagram are exactly s bytes
//   size-udp-min    PacketSize 0: datagram >= UDPDatagramMinSize (default 1200), the excess
//                   being zeros outside the packet
//   size-frames     QUICRandomFrames.Length L > 0: the frame payload is exactly L bytes
//   size-max        no datagram is larger than the connection's maximum packet size
//   length-field    long-header Length = pnLen + |payload| + 16
//   clienthellod    clienthellod (external reader) decodes the datagram too
//   handshake       against the real in-tree server the handshake completes

import (
	"bufio"
	"bytes"
	"context"
	"crypto/aes"
	"crypto/cipher"
	"crypto/hmac"
	"crypto/sha256"
	"encoding/binary"
	"fmt"
	"os"
	"sort"
	"strings"
	"time"

	"github.com/refraction-networking/clienthellod"
	quic "github.com/refraction-networking/uquic"
	u "github.com/refraction-networking/uquic/internal/verifutil"
)

func init() {
	units["siminitial"] = runSimInitialParent
	units["siminitial-one"] = runSimInitial // child process: one QUICID (only=...) per process
}

// runSimInitialParent runs every QUICID in its own process (see c10Child).
func runSimInitialParent(w *bufio.Writer, seed uint64, n int, args []string) {
	for _, a := range args {
		if strings.HasPrefix(a, "only=") {
			runSimInitial(w, seed, n, args)
			return
		}
	}
	r := u.NewRng(seed)
	for _, name := range append(append([]string{}, parrotNames...), "token") {
		c10Child(w, "siminitial/"+name+"/crash", "siminitial-one", fmt.Sprint(r.U64()), fmt.Sprint(n), "only="+name)
	}
}

// ---- independent Initial opener ------------------------------------------------------

var c10SaltV1 = []byte{0x38, 0x76, 0x2c, 0xf7, 0xf5, 0x59, 0x34, 0xb3, 0x4d, 0x17, 0x9a, 0xe6, 0xa4, 0xc8, 0x0c, 0xad, 0xcc, 0xbb, 0x7f, 0x0a}
var c10SaltV2 = []byte{0x0d, 0xed, 0xe3, 0xde, 0xf7, 0x00, 0xa6, 0xdb, 0x81, 0x93, 0x81, 0xbe, 0x6e, 0x26, 0x9d, 0xcb, 0xf9, 0xbd, 0x2e, 0xd9}

func c10HkdfExtract(salt, ikm []byte) []byte {
	m := hmac.New(sha256.New, salt)
	m.Write(ikm)
	return m.Sum(nil)
}

func c10HkdfExpandLabel(secret []byte, label string, n int) []byte {
	full := "tls13 " + label
	info := []byte{byte(n >> 8), byte(n), byte(len(full))}
	info = append(info, full...)
	info = append(info, 0)
	var out, t []byte
	for i := byte(1); len(out) < n; i++ {
		m := hmac.New(sha256.New, secret)
		m.Write(t)
		m.Write(info)
		m.Write([]byte{i})
		t = m.Sum(nil)
		out = append(out, t...)
	}
	return out[:n]
}

type c10Keys struct {
	aead cipher.AEAD
	iv   []byte
	hp   cipher.Block
}

func c10ClientInitialKeys(dcid []byte, version uint32) (*c10Keys, error) {
	salt, kl, il, hl := c10SaltV1, "quic key", "quic iv", "quic hp"
	if version == 0x6b3343cf {
		salt, kl, il, hl = c10SaltV2, "quicv2 key", "quicv2 iv", "quicv2 hp"
	}
	initial := c10HkdfExtract(salt, dcid)
	cs := c10HkdfExpandLabel(initial, "client in", 32)
	key := c10HkdfExpandLabel(cs, kl, 16)
	iv := c10HkdfExpandLabel(cs, il, 12)
	hp := c10HkdfExpandLabel(cs, hl, 16)
	blk, err := aes.NewCipher(key)
	if err != nil {
		return nil, err
	}
	g, err := cipher.NewGCM(blk)
	if err != nil {
		return nil, err
	}
	hb, err := aes.NewCipher(hp)
	if err != nil {
		return nil, err
	}
	return &c10Keys{aead: g, iv: iv, hp: hb}, nil
}

func c10Varint(b []byte) (v uint64, n int, ok bool) {
	if len(b) == 0 {
		return 0, 0, false
	}
	n = 1 << (b[0] >> 6)
	if len(b) < n {
		return 0, 0, false
	}
	v = uint64(b[0] & 0x3f)
	for i := 1; i < n; i++ {
		v = v<<8 | uint64(b[i])
	}
	return v, n, true
}

type c10Frame struct {
	Type byte   // 0 = run of PADDING bytes, 1 = PING, 6 = CRYPTO
	Off  uint64 // CRYPTO offset
	Len  uint64 // CRYPTO data length / PADDING run length
	Data []byte
	Enc  int // encoded size
}

type c10Pkt struct {
	First       byte
	Version     uint32
	DCID, SCID  []byte
	Token       []byte
	LengthField int
	PNLen       int
	PNTrunc     uint64
	PN          int64 // as decoded by a receiver
	Header      []byte // the header bytes with header protection removed
	HdrLen      int    // first byte .. packet number inclusive
	PacketLen   int   // header + payload + tag
	Trailing    []byte
	Payload     []byte
	Frames      []c10Frame
	BadFrame    string
}

// c10DecodePN: RFC 9000 appendix A.3; largest = -1 when nothing was received yet.
func c10DecodePN(largest int64, trunc uint64, pnLen int) int64 {
	expected := largest + 1
	win := int64(1) << (uint(pnLen) * 8)
	hwin := win / 2
	mask := win - 1
	cand := (expected &^ mask) | int64(trunc)
	if cand <= expected-hwin && cand < (1<<62)-win {
		return cand + win
	}
	if cand > expected+hwin && cand >= win {
		return cand - win
	}
	return cand
}

// c10Open opens the Initial packet at the start of dg. keyDCID: DCID of the flight's first
// packet (nil: use this packet's). largest: largest packet number opened so far (-1: none).
// forcePN >= 0: use this full packet number instead of the receiver's decoding (diagnosis).
func c10Open(dg []byte, keyDCID []byte, largest int64, forcePN int64) (*c10Pkt, error) {
	p := &c10Pkt{}
	if len(dg) < 7 {
		return nil, fmt.Errorf("datagram of %d bytes", len(dg))
	}
	p.First = dg[0]
	if dg[0]&0x80 == 0 {
		return nil, fmt.Errorf("short header")
	}
	if dg[0]&0x40 == 0 {
		return nil, fmt.Errorf("fixed bit clear")
	}
	p.Version = binary.BigEndian.Uint32(dg[1:5])
	typ := dg[0] >> 4 & 3
	if (p.Version == 0x6b3343cf && typ != 1) || (p.Version != 0x6b3343cf && typ != 0) {
		return nil, fmt.Errorf("long header packet type %d is not Initial", typ)
	}
	pos := 5
	dl := int(dg[pos])
	pos++
	if dl > 20 || len(dg) < pos+dl+1 {
		return nil, fmt.Errorf("DCID length %d", dl)
	}
	p.DCID = append([]byte{}, dg[pos:pos+dl]...)
	pos += dl
	sl := int(dg[pos])
	pos++
	if sl > 20 || len(dg) < pos+sl {
		return nil, fmt.Errorf("SCID length %d", sl)
	}
	p.SCID = append([]byte{}, dg[pos:pos+sl]...)
	pos += sl
	tl, n, ok := c10Varint(dg[pos:])
	if !ok || uint64(len(dg)-pos-n) < tl {
		return nil, fmt.Errorf("token length")
	}
	pos += n
	p.Token = append([]byte{}, dg[pos:pos+int(tl)]...)
	pos += int(tl)
	lf, n, ok := c10Varint(dg[pos:])
	if !ok {
		return nil, fmt.Errorf("Length field truncated")
	}
	pos += n
	p.LengthField = int(lf)
	if int(lf) > len(dg)-pos {
		return nil, fmt.Errorf("Length field %d exceeds the %d bytes that follow", lf, len(dg)-pos)
	}
	if lf < 20 {
		return nil, fmt.Errorf("Length field %d: no room for the header-protection sample (4 bytes from the packet number + 16)", lf)
	}
	if keyDCID == nil {
		keyDCID = p.DCID
	}
	keys, err := c10ClientInitialKeys(keyDCID, p.Version)
	if err != nil {
		return nil, err
	}
	pkt := append([]byte{}, dg[:pos+int(lf)]...)
	p.Trailing = dg[pos+int(lf):]
	var mask [16]byte
	keys.hp.Encrypt(mask[:], pkt[pos+4:pos+20])
	pkt[0] ^= mask[0] & 0x0f
	p.First = pkt[0]
	p.PNLen = int(pkt[0]&3) + 1
	for i := 0; i < p.PNLen; i++ {
		pkt[pos+i] ^= mask[1+i]
		p.PNTrunc = p.PNTrunc<<8 | uint64(pkt[pos+i])
	}
	p.HdrLen = pos + p.PNLen
	p.Header = append([]byte{}, pkt[:p.HdrLen]...)
	p.PacketLen = len(pkt)
	p.PN = c10DecodePN(largest, p.PNTrunc, p.PNLen)
	if forcePN >= 0 {
		p.PN = forcePN
	}
	nonce := append([]byte{}, keys.iv...)
	var pnb [8]byte
	binary.BigEndian.PutUint64(pnb[:], uint64(p.PN))
	for i := 0; i < 8; i++ {
		nonce[4+i] ^= pnb[i]
	}
	pl, err := keys.aead.Open(nil, nonce, pkt[p.HdrLen:], pkt[:p.HdrLen])
	if err != nil {
		return p, fmt.Errorf("AEAD open failed with packet number %d (truncated %#x in %d bytes)", p.PN, p.PNTrunc, p.PNLen)
	}
	p.Payload = pl
	// frames
	b := pl
	for len(b) > 0 {
		switch b[0] {
		case 0:
			k := 0
			for k < len(b) && b[k] == 0 {
				k++
			}
			p.Frames = append(p.Frames, c10Frame{Type: 0, Len: uint64(k), Enc: k})
			b = b[k:]
		case 1:
			p.Frames = append(p.Frames, c10Frame{Type: 1, Enc: 1})
			b = b[1:]
		case 6:
			off, n1, ok1 := c10Varint(b[1:])
			if !ok1 {
				p.BadFrame = "CRYPTO offset truncated"
				return p, nil
			}
			l, n2, ok2 := c10Varint(b[1+n1:])
			if !ok2 || uint64(len(b)-1-n1-n2) < l {
				p.BadFrame = "CRYPTO length truncated / data short"
				return p, nil
			}
			st := 1 + n1 + n2
			p.Frames = append(p.Frames, c10Frame{Type: 6, Off: off, Len: l, Data: b[st : st+int(l)], Enc: st + int(l)})
			b = b[st+int(l):]
		default:
			p.BadFrame = fmt.Sprintf("frame type %#x", b[0])
			return p, nil
		}
	}
	return p, nil
}

func (p *c10Pkt) counts() (ping, crypto, padRuns int, cryptoBytes uint64) {
	for _, f := range p.Frames {
		switch f.Type {
		case 0:
			padRuns++
		case 1:
			ping++
		case 6:
			crypto++
			cryptoBytes += f.Len
		}
	}
	return
}

func (p *c10Pkt) frameString() string {
	var s []string
	for _, f := range p.Frames {
		switch f.Type {
		case 0:
			s = append(s, fmt.Sprintf("PAD*%d", f.Len))
		case 1:
			s = append(s, "PING")
		case 6:
			s = append(s, fmt.Sprintf("CRYPTO[%d+%d]", f.Off, f.Len))
		}
	}
	return strings.Join(s, " ")
}

// ---- the property, stated on a captured flight -----------------------------------------

// c10Expect is what the spec (and the dial configuration) promise about the flight.
type c10Expect struct {
	Name            string
	Spec            *quic.QUICSpec
	MaxPacket       int    // the connection's maximum packet size (Config.InitialPacketSize)
	ConfToken       []byte // token the Config-level store hands out (nil: none)
	ExplTokSet      bool   // spec.TokenStore is an explicit store handing out ExplToken (nil: Pop returns nil)
	ExplToken       []byte
	HelloLen        int // -1: unknown (whole dial); the reassembled stream must then parse as a ClientHello
	Hello           []byte
	CustomPlens     []int                 // recording builder: frame payload length per datagram (nil: unknown)
	CheckBuilder    quic.QUICFrameBuilder // the builder whose bounds apply (when the spec carries a recording proxy)
	HasCheckBuilder bool
	PNOffset        int64 // packets the previous connection of the same Dial already sent (Version Negotiation re-creation)
	Truncated       bool // the flight was cut short (error / call limit): no completeness check
}

type c10Fail struct{ key, desc string }

func c10U64Min(a, b uint64) uint64 {
	if a < b {
		return a
	}
	return b
}

// c10CheckFlight returns the failed monitors (key suffix, description) and the opened packets.
//
// Sub-keys name the recognisable causes that are findings on the unchanged tree, so that the
// bare keys stay sharp:
//   decryptable/pn-not-decodable   the packet number does not fit its encoding length
//   decryptable/short-sample       fewer than 4 bytes of packet number + payload
//   dcid-len/below-8               the spec asks for a destination connection ID below 8 bytes
//   plan-index                     the datagram follows InitialPackets[0] instead of [i]
//   size-exact/frames-exceed       the frames alone are larger than PacketSize allows
//   size-frames/overshoot          PING+CRYPTO frames alone exceed QUICRandomFrames.Length
//   size-frames/base-offset        PADDING was sized for CRYPTO offsets without the base offset
//   size-rfc-min                   the spec asks for a datagram below 1200 bytes
//   size-max/udp-min               UDPDatagramMinSize itself is above the maximum packet size
//   size-max/plan                  PacketSize itself is above the maximum packet size
//   size-max/builder               a re-framing builder made the packet larger than the maximum
func c10CheckFlight(e *c10Expect, dgs [][]byte) (fails []c10Fail, pkts []*c10Pkt, token []byte) {
	fail := func(k, d string, a ...any) { fails = append(fails, c10Fail{k, fmt.Sprintf(d, a...)}) }
	ips := &e.Spec.InitialPacketSpec
	if len(dgs) == 0 {
		fail("capture", "no Initial datagram was sent")
		return
	}
	builder := ips.FrameBuilder
	if e.HasCheckBuilder {
		builder = e.CheckBuilder
	}
	wantPN := int64(0)
	if ips.InitPacketNumber <= (1<<62)-1 {
		wantPN = int64(ips.InitPacketNumber)
	}
	planFor := func(i int) quic.InitialPacketPlan {
		if len(ips.InitialPackets) == 0 {
			return quic.InitialPacketPlan{}
		}
		if i >= len(ips.InitialPackets) {
			i = len(ips.InitialPackets) - 1
		}
		return ips.InitialPackets[i]
	}
	var keyDCID []byte
	largest := int64(-1)
	var streamEnd uint64
	type seg struct{ off, end uint64 }
	var segs []seg
	var stream []byte
	_, isFlight := ips.FrameBuilder.(quic.QUICFlightFrameBuilder)
	builderIsRaw := false // the packer sees the QUICRandomFrames / QUICMultiDatagramFrames itself
	switch ips.FrameBuilder.(type) {
	case *quic.QUICRandomFrames, *quic.QUICMultiDatagramFrames:
		builderIsRaw = true
	}
	reframes := ips.FrameBuilder != nil
	if qf, ok := ips.FrameBuilder.(quic.QUICFrames); ok && len(qf) == 0 {
		reframes = false
	}
	for i, dg := range dgs {
		want := wantPN + e.PNOffset + int64(i)
		p, err := c10Open(dg, keyDCID, largest, -1)
		if err != nil {
			// diagnose: does it open with the packet number the spec asked for?
			if p != nil && strings.HasPrefix(err.Error(), "AEAD") {
				if p2, err2 := c10Open(dg, keyDCID, largest, want); err2 == nil {
					if want >= int64(1)<<(8*uint(p.PNLen)) || i > 0 {
						fail("decryptable/pn-not-decodable", "datagram %d: a receiver decodes packet number %d from the %d-byte field (%#x) and cannot open the packet; it opens only with the sender's packet number %d", i, p.PN, p.PNLen, p.PNTrunc, want)
					} else {
						fail("decryptable", "datagram %d: a receiver decodes packet number %d from the %d-byte field (%#x); the packet opens only with %d", i, p.PN, p.PNLen, p.PNTrunc, want)
					}
					p = p2
					err = nil
				}
			}
			if err != nil && strings.Contains(err.Error(), "no room for the header-protection sample") {
				fail("decryptable/short-sample", "datagram %d (%d bytes): %v", i, len(dg), err)
				return
			}
			if err != nil {
				fail("decryptable", "datagram %d (%d bytes) does not open with the standard Initial keys: %v", i, len(dg), err)
				return
			}
		}
		if p.BadFrame != "" {
			fail("frames", "datagram %d: %s after %s", i, p.BadFrame, p.frameString())
		}
		pkts = append(pkts, p)
		if i == 0 {
			keyDCID = p.DCID
			token = p.Token
		}
		if p.PN > largest {
			largest = p.PN
		}
		// --- header fields ---
		if ips.DestConnIDLength > 0 && len(p.DCID) != ips.DestConnIDLength {
			fail("dcid-len", "datagram %d: destination connection ID of %d bytes, spec says %d", i, len(p.DCID), ips.DestConnIDLength)
		}
		if ips.DestConnIDLength <= 0 && e.Name != "upacker" && (len(p.DCID) < 8 || len(p.DCID) > 20) {
			fail("dcid-len", "datagram %d: library-chosen destination connection ID of %d bytes", i, len(p.DCID))
		}
		if len(p.DCID) < 8 && i == 0 && e.Name != "upacker" { // the packer does not choose the DCID; dial does
			fail("dcid-len/below-8", "datagram %d: destination connection ID of %d bytes; a server discards a client Initial whose DCID is shorter than 8 bytes (RFC 9000 7.2); DestConnIDLength = %d", i, len(p.DCID), ips.DestConnIDLength)
		}
		if !bytes.Equal(p.DCID, keyDCID) {
			fail("dcid-stable", "datagram %d: destination connection ID %x differs from the first packet's %x", i, p.DCID, keyDCID)
		}
		if len(p.SCID) != ips.SrcConnIDLength {
			fail("scid-len", "datagram %d: source connection ID of %d bytes, spec says %d", i, len(p.SCID), ips.SrcConnIDLength)
		}
		if p.PN != want {
			fail("pn", "datagram %d: packet number %d, expected %d (InitPacketNumber %d + %d)", i, p.PN, want, ips.InitPacketNumber, i)
		}
		if p.PN > (1<<62)-1 || want > (1<<62)-1 {
			fail("pn-range", "datagram %d carries packet number %d > 2^62-1", i, want)
		}
		switch {
		case len(ips.InitPacketNumberLengths) > 0:
			k := i + int(e.PNOffset) // the list is indexed by packet number - InitPacketNumber
			if k >= len(ips.InitPacketNumberLengths) {
				k = len(ips.InitPacketNumberLengths) - 1
			}
			if p.PNLen != int(ips.InitPacketNumberLengths[k]) {
				key := "pn-len"
				if ips.InitPacketNumber > (1<<62)-1 {
					key = "pn-len/beyond-2^62"
				}
				fail(key, "datagram %d: packet number encoded in %d bytes, InitPacketNumberLengths%v[%d] = %d (InitPacketNumber %d)", i, p.PNLen, ips.InitPacketNumberLengths, k, ips.InitPacketNumberLengths[k], ips.InitPacketNumber)
			}
		case ips.InitPacketNumberLength != 0:
			if p.PNLen != int(ips.InitPacketNumberLength) {
				fail("pn-len", "datagram %d: packet number encoded in %d bytes, InitPacketNumberLength = %d", i, p.PNLen, ips.InitPacketNumberLength)
			}
		default:
			if p.PNLen < 2 {
				fail("pn-len", "datagram %d: default packet number length %d < 2", i, p.PNLen)
			}
		}
		if p.First&0x0c != 0 {
			fail("reserved-bits", "datagram %d: reserved bits set in first byte %#x", i, p.First)
		}
		// token
		var wantTok []byte
		tokKind := "none"
		tl := ips.ClientTokenLength
		if len(ips.ClientTokenPrefix) > tl {
			tl = len(ips.ClientTokenPrefix)
		}
		switch {
		case e.ExplTokSet:
			wantTok, tokKind = e.ExplToken, "explicit"
		case tl > 0:
			tokKind = "synth"
		default:
			wantTok, tokKind = e.ConfToken, "config"
		}
		if tokKind == "synth" {
			if len(p.Token) != tl || !bytes.HasPrefix(p.Token, ips.ClientTokenPrefix) {
				fail("token", "datagram %d: token %x (%d bytes), spec: prefix %x, length %d", i, p.Token, len(p.Token), ips.ClientTokenPrefix, tl)
			}
		} else if !bytes.Equal(p.Token, wantTok) {
			fail("token", "datagram %d: token %x, expected (%s) %x", i, p.Token, tokKind, wantTok)
		}
		if !bytes.Equal(p.Token, token) {
			fail("token", "datagram %d: token %x differs from the first packet's %x", i, p.Token, token)
		}
		if p.LengthField != p.PNLen+len(p.Payload)+16 {
			fail("length-field", "datagram %d: Length %d != pnLen %d + payload %d + 16", i, p.LengthField, p.PNLen, len(p.Payload))
		}
		ping, crypto, padRuns, cb := p.counts()
		lo, hi := ^uint64(0), uint64(0)
		for _, f := range p.Frames {
			if f.Type == 6 {
				if f.Off < lo {
					lo = f.Off
				}
				if f.Off+f.Len > hi {
					hi = f.Off + f.Len
				}
			}
		}
		// --- everything that depends on the datagram's plan ---
		planChecks := func(plan quic.InitialPacketPlan) (fs []c10Fail) {
			fail := func(k, d string, a ...any) { fs = append(fs, c10Fail{k, fmt.Sprintf(d, a...)}) }
			custom := -1
			if e.CustomPlens != nil && i < len(e.CustomPlens) {
				custom = e.CustomPlens[i]
			}
			if plan.PacketSize > 0 {
				if p.PacketLen != plan.PacketSize || len(dg) != plan.PacketSize {
					frames := len(bytes.TrimRight(p.Payload, "\x00"))
					if rl := c10RandomLength(builder, i); rl > frames && rl <= len(p.Payload) {
						frames = rl // a QUICRandomFrames payload is at least Length bytes, its own PADDING included
					}
					if custom >= 0 {
						frames = custom
					}
					key := "size-exact"
					if p.PacketLen > plan.PacketSize && p.HdrLen+frames+16 > plan.PacketSize && p.PacketLen == p.HdrLen+max(frames, len(p.Payload))+16 && len(p.Trailing) == 0 && (custom < 0 || len(p.Payload) == custom) {
						key = "size-exact/frames-exceed"
					}
					fail(key, "datagram %d: PacketSize %d, packet is %d bytes, datagram %d bytes (header %d + frames %d (builder: %d) + 16: %s)", i, plan.PacketSize, p.PacketLen, len(dg), p.HdrLen, len(p.Payload), custom, p.frameString())
				}
			} else {
				min := e.Spec.UDPDatagramMinSize
				if min == 0 {
					min = 1200
				}
				if len(dg) < min {
					fail("size-udp-min", "datagram %d: %d bytes < UDPDatagramMinSize %d", i, len(dg), min)
				}
				if len(p.Trailing) > 0 && (len(dg) != min || len(bytes.Trim(p.Trailing, "\x00")) != 0) {
					fail("size-udp-min", "datagram %d: %d bytes follow the %d-byte packet (datagram %d, minimum %d) or are not zero", i, len(p.Trailing), p.PacketLen, len(dg), min)
				}
				if custom >= 0 && len(p.Payload) != custom {
					fail("size-frames", "datagram %d: the builder returned %d bytes of frames, the packet carries %d", i, custom, len(p.Payload))
				}
			}
			if len(dg) < 1200 {
				fail("size-rfc-min", "datagram %d is %d bytes: a server discards Initial datagrams below 1200 bytes (RFC 9000 14.1); UDPDatagramMinSize = %d, PacketSize = %d", i, len(dg), e.Spec.UDPDatagramMinSize, plan.PacketSize)
			}
			if e.MaxPacket > 0 && len(dg) > e.MaxPacket {
				key := "size-max"
				switch {
				case p.PacketLen <= e.MaxPacket && plan.PacketSize == 0 && len(dg) == e.Spec.UDPDatagramMinSize:
					key = "size-max/udp-min"
				case plan.PacketSize > e.MaxPacket && p.PacketLen == plan.PacketSize:
					key = "size-max/plan"
				case reframes:
					key = "size-max/builder"
				}
				fail(key, "datagram %d is %d bytes, the connection's maximum packet size is %d (packet %d: header %d + frames %d + 16; %s)", i, len(dg), e.MaxPacket, p.PacketLen, p.HdrLen, len(p.Payload), p.frameString())
			}
			// frames
			var rf *quic.QUICRandomFrames
			switch b := builder.(type) {
			case *quic.QUICRandomFrames:
				rf = b
			case *quic.QUICMultiDatagramFrames:
				if len(b.PerDatagram) > 0 {
					k := i
					if k >= len(b.PerDatagram) {
						k = len(b.PerDatagram) - 1
					}
					rf = &b.PerDatagram[k]
				}
			case quic.QUICFrames:
				if len(b) == 0 && (crypto != 1 || ping != 0) {
					fail("frames", "datagram %d: empty QUICFrames promises a single CRYPTO frame, got %s", i, p.frameString())
				}
				if len(b) > 0 {
					var wantT, gotT []string
					for _, f := range b {
						if _, _, ok := f.CryptoFrameInfo(); ok {
							wantT = append(wantT, "C")
						} else if _, isPing := f.(quic.QUICFramePing); isPing {
							wantT = append(wantT, "P")
						} else if pd, isPad := f.(quic.QUICFramePadding); isPad {
							if pd.Length > 0 && (len(wantT) == 0 || wantT[len(wantT)-1] != "0") {
								wantT = append(wantT, "0")
							}
						}
					}
					for _, f := range p.Frames {
						gotT = append(gotT, map[byte]string{0: "0", 1: "P", 6: "C"}[f.Type])
					}
					if plan.PacketSize > 0 && len(gotT) == len(wantT)+1 && gotT[len(gotT)-1] == "0" {
						gotT = gotT[:len(gotT)-1]
					}
					if strings.Join(gotT, "") != strings.Join(wantT, "") {
						fail("frames", "datagram %d: frame sequence %s, QUICFrames says %s", i, strings.Join(gotT, ""), strings.Join(wantT, ""))
					}
				}
			case nil:
				if e.HasCheckBuilder && ips.FrameBuilder != nil {
					break // a custom builder: no promise about counts
				}
				if crypto < 1 || ping != 0 {
					fail("frames", "datagram %d: nil FrameBuilder, got %s", i, p.frameString())
				}
			}
			if rf != nil {
				inRange := func(n int, lo, hi uint8) bool {
					if hi <= lo {
						return n == int(lo)
					}
					return n >= int(lo) && n < int(hi)
				}
				if !inRange(ping, rf.MinPING, rf.MaxPING) {
					fail("frames", "datagram %d: %d PING frames, builder bounds [%d,%d)", i, ping, rf.MinPING, rf.MaxPING)
				}
				clo, chi := uint64(rf.MinCRYPTO), uint64(rf.MaxCRYPTO)
				okC := false
				if chi <= clo {
					okC = uint64(crypto) == c10U64Min(clo, cb)
				} else {
					okC = uint64(crypto) >= c10U64Min(clo, cb) && uint64(crypto) < chi
				}
				if !okC {
					fail("frames", "datagram %d: %d CRYPTO frames over %d bytes, builder bounds [%d,%d)", i, crypto, cb, clo, chi)
				}
				maxRuns := int(rf.MaxPADDING)
				if rf.MaxPADDING > rf.MinPADDING {
					maxRuns = int(rf.MaxPADDING) - 1
				}
				if rf.Length == 0 {
					maxRuns = 0
				}
				if plan.PacketSize > 0 {
					maxRuns++
				}
				if padRuns > maxRuns {
					fail("frames", "datagram %d: %d runs of PADDING, builder allows at most %d PADDING frames", i, padRuns, maxRuns)
				}
				if rf.Length > 0 && plan.PacketSize == 0 && len(p.Payload) != int(rf.Length) {
					key := "size-frames"
					switch d := len(p.Payload) - int(rf.Length); {
					case d > 0 && padRuns == 0 && (plan.CryptoLength > 0 || (e.MaxPacket > 0 && p.HdrLen+int(rf.Length)+16 > e.MaxPacket) || !builderIsRaw):
						// documented: "If the Length specified is already exceeded by the CRYPTO+PING
						// frames, no PADDING frames will be included" -- the spec itself asks for more
						// CRYPTO (CryptoLength) or a larger packet than Length allows, or the packer
						// cannot see the builder: not a violation
						return
					case d > 0 && padRuns == 0:
						key = "size-frames/overshoot"
					case d > 0 && lo > 0 && d <= 3*crypto:
						key = "size-frames/base-offset"
					}
					fail(key, "datagram %d: frames total %d bytes, QUICRandomFrames.Length = %d (%d PING, %d CRYPTO frames over [%d,%d), %d PADDING runs)", i, len(p.Payload), rf.Length, ping, crypto, lo, hi, padRuns)
				}
			}
			// CRYPTO split
			if !isFlight && crypto > 0 && plan.CryptoLength > 0 {
				rem := uint64(1 << 40)
				if e.HelloLen >= 0 {
					rem = uint64(e.HelloLen) - c10U64Min(uint64(e.HelloLen), streamEnd)
				}
				wantCB := c10U64Min(uint64(plan.CryptoLength), rem)
				// a CryptoLength the packet cannot hold is not applied (documented: "must leave room")
				limit := e.MaxPacket
				if plan.PacketSize > 0 && plan.PacketSize < limit {
					limit = plan.PacketSize
				}
				room := uint64(max(0, limit-16-p.HdrLen-8))
				if cb != wantCB && (cb > wantCB || (wantCB <= room && (e.HelloLen >= 0 || i+1 < len(dgs)))) {
					fail("crypto-split", "datagram %d: %d CRYPTO bytes, CryptoLength = %d (stream offset %d)", i, cb, plan.CryptoLength, streamEnd)
				}
			}
			return
		}
		pf := planChecks(planFor(i))
		// "governed by entry 0 instead of entry i" needs positive evidence, not just "entry 0
		// would have been satisfied" (the zero plan is satisfied by any packet of 1200.. bytes):
		// either entry 0 pins a size / CRYPTO length and the datagram has exactly that, or entry
		// i's own caps were visibly not applied to the CRYPTO popped (more CRYPTO than entry i's
		// CryptoLength, or more than a packet of entry i's PacketSize can hold even as a single
		// frame). A re-framing builder that overshoots a cap that WAS applied is
		// size-exact/frames-exceed, not plan-index.
		p0, pi := planFor(0), planFor(i)
		minCryptoFrame := 1 + len(c10AppendVarint(nil, lo)) + len(c10AppendVarint(nil, cb)) + int(cb)
		follows0 := (p0.PacketSize > 0 && p.PacketLen == p0.PacketSize && len(dg) == p0.PacketSize) ||
			(p0.CryptoLength > 0 && cb == uint64(p0.CryptoLength) && pi.CryptoLength != p0.CryptoLength)
		ignoresI := (pi.CryptoLength > 0 && cb > uint64(pi.CryptoLength)) ||
			(pi.PacketSize > 0 && crypto > 0 && p.HdrLen+minCryptoFrame+16 > pi.PacketSize && (e.MaxPacket == 0 || pi.PacketSize <= e.MaxPacket))
		// ... and a datagram whose only fault under entry i is the (open) "re-framing builder
		// overshoots a cap that was applied" is not evidence either, even if its size happens
		// to equal entry 0's PacketSize
		onlyOvershoot := true
		for _, f := range pf {
			if f.key != "size-exact/frames-exceed" && !strings.HasPrefix(f.key, "size-max/") && !strings.HasPrefix(f.key, "size-frames/") {
				onlyOvershoot = false
			}
		}
		if len(pf) > 0 && !isFlight && pi != p0 && len(planChecks(p0)) == 0 && (ignoresI || (follows0 && !onlyOvershoot)) {
			pf = append([]c10Fail{}, c10Fail{"plan-index", fmt.Sprintf("datagram %d follows InitialPackets[0] = %+v, not InitialPackets[%d] = %+v: packet %d bytes, datagram %d bytes, %d CRYPTO bytes", i, planFor(0), min(i, len(ips.InitialPackets)-1), planFor(i), p.PacketLen, len(dg), cb)})
		}
		fails = append(fails, pf...)
		if !isFlight && crypto > 0 {
			if lo != streamEnd || hi-lo != cb {
				fail("crypto-split", "datagram %d: CRYPTO frames cover [%d,%d) with %d bytes, the previous datagram ended at %d (%s)", i, lo, hi, cb, streamEnd, p.frameString())
			}
			streamEnd = hi
		}
		for _, f := range p.Frames {
			if f.Type == 6 {
				segs = append(segs, seg{f.Off, f.Off + f.Len})
				if need := int(f.Off + f.Len); need > len(stream) {
					stream = append(stream, make([]byte, need-len(stream))...)
				}
				copy(stream[f.Off:], f.Data)
			}
		}
		// second, external reader (it takes the truncated packet number as the packet number)
		if _, err := clienthellod.UnmarshalQUICClientInitialPacket(dg); err != nil && p.PN < 1<<(8*uint(p.PNLen)) && p.Version == 1 { // clienthellod knows QUIC v1 only
			fail("clienthellod", "datagram %d: clienthellod does not decode it: %v", i, err)
		}
	}
	// reassembly
	sort.Slice(segs, func(a, b int) bool { return segs[a].off < segs[b].off })
	end := uint64(0)
	gap := false
	for _, s := range segs {
		if s.off > end {
			gap = true
		}
		if s.end > end {
			end = s.end
		}
	}
	switch {
	case e.Truncated && e.HelloLen >= 0:
		// a flight cut short by an error: what was sent must still be true stream bytes
		for _, sg := range segs {
			if int(sg.end) > e.HelloLen || !bytes.Equal(stream[sg.off:sg.end], e.Hello[sg.off:sg.end]) {
				fail("crypto-split", "CRYPTO frame [%d,%d) does not carry the stream's bytes (stream length %d)", sg.off, sg.end, e.HelloLen)
			}
		}
	case gap:
		fail("crypto-split", "the flight's CRYPTO frames leave a gap below offset %d", end)
	case e.HelloLen >= 0:
		if (!e.Truncated && int(end) != e.HelloLen) || int(end) > e.HelloLen || !bytes.Equal(stream, e.Hello[:end]) {
			fail("crypto-split", "the flight carries %d CRYPTO bytes, the stream has %d (or the bytes differ)", end, e.HelloLen)
		}
	case len(dgs) >= 10 && len(stream) >= 4 && stream[0] == 1 && int(stream[1])<<16|int(stream[2])<<8|int(stream[3]) > len(stream)-4:
		// a long flight against a live server: the capture window (before the server's first
		// answer) ends while the pacer still holds datagrams back; the prefix is consistent
	default:
		if len(stream) < 4 || stream[0] != 1 || int(stream[1])<<16|int(stream[2])<<8|int(stream[3]) != len(stream)-4 {
			fail("crypto-split", "the reassembled %d CRYPTO bytes are not one complete ClientHello", len(stream))
		}
	}
	return
}

// c10SpecInvalid states, independently of /repo, which Initial specs cannot be sent as
// described or would be discarded by every conformant server; "" = acceptable. The class is
// the monitor sub-key that fires when such a spec is put on the wire anyway.
func c10SpecInvalid(sp *quic.QUICSpec, maxPacket int) string {
	ips := &sp.InitialPacketSpec
	switch {
	case ips.SrcConnIDLength < 0 || ips.SrcConnIDLength > 20 || ips.DestConnIDLength < 0 || ips.DestConnIDLength > 20:
		return "cid-range"
	case ips.DestConnIDLength >= 1 && ips.DestConnIDLength <= 7:
		return "dcid-len/below-8" // RFC 9000 7.2
	case ips.InitPacketNumber > 1<<62-1:
		return "pn-range" // RFC 9000 17.1
	}
	var lens []int
	for _, l := range ips.InitPacketNumberLengths {
		if l < 1 || l > 4 {
			return "pn-len-value"
		}
		lens = append(lens, int(l))
	}
	if ips.InitPacketNumberLength > 4 {
		return "pn-len-value"
	}
	if fl := c10FirstPNLen(lens, int(ips.InitPacketNumberLength), ips.InitPacketNumber); ips.InitPacketNumber >= 1<<(8*uint(fl)) {
		return "decryptable/pn-not-decodable" // RFC 9000 A.3 with nothing received yet
	}
	switch m := sp.UDPDatagramMinSize; {
	case m < 0 || (m > 0 && m < 1200):
		return "size-rfc-min" // RFC 9000 14.1
	case m > 1452:
		return "size-buffer"
	}
	for _, pl := range ips.InitialPackets {
		switch {
		case pl.CryptoLength < 0 || pl.PacketSize < 0 || (pl.PacketSize > 0 && pl.PacketSize < 1200):
			return "size-rfc-min"
		case pl.PacketSize > maxPacket:
			return "size-max/plan"
		}
	}
	// the largest header this spec can produce (library-chosen DCID: up to 20 bytes; the
	// longest configured packet-number length; the synthesised token -- an explicit store's
	// token is not known before the dial)
	hdr := c10MaxHeader(sp)
	// room for a CRYPTO frame at any write offset: type, offset varint (up to 8 bytes), length
	// byte, one byte of data -- with less the flight stalls (at offset 64 with only 4 bytes)
	if hdr+16+11 > maxPacket {
		return "token-no-room" // the ClientHello can never be sent completely
	}
	for _, pl := range ips.InitialPackets {
		limit := maxPacket
		if pl.PacketSize > 0 && pl.PacketSize < limit {
			limit = pl.PacketSize
		}
		// a pinned split that a packet cannot hold (offset varint up to 4 bytes)
		if cl := pl.CryptoLength; cl > 0 && hdr+1+4+len(c10AppendVarint(nil, uint64(cl)))+cl >= limit-16 {
			return "crypto-split/no-room"
		}
	}
	return ""
}

// c10MaxHeader: the longest Initial header the spec can produce.
func c10MaxHeader(sp *quic.QUICSpec) int {
	ips := &sp.InitialPacketSpec
	d := ips.DestConnIDLength
	if d == 0 {
		d = 20
	}
	pl := int(ips.InitPacketNumberLength)
	if pl == 0 {
		pl = 4
	}
	if len(ips.InitPacketNumberLengths) > 0 {
		pl = 1
		for _, l := range ips.InitPacketNumberLengths {
			pl = max(pl, int(l))
		}
	}
	tl := 0
	if ips.TokenStore == nil {
		tl = max(ips.ClientTokenLength, len(ips.ClientTokenPrefix))
	}
	return 1 + 4 + 1 + d + 1 + ips.SrcConnIDLength + pl + 2 + len(c10AppendVarint(nil, uint64(tl))) + tl
}

// c10Rejected: the dial refused the spec before sending anything.
func c10Rejected(fl c10Flight) bool {
	return len(fl.Datagrams) == 0 && strings.Contains(fl.DialErr, "invalid QUICSpec")
}

// c10RandomLength: QUICRandomFrames.Length in force for datagram i (0: none).
func c10RandomLength(b quic.QUICFrameBuilder, i int) int {
	switch b := b.(type) {
	case *quic.QUICRandomFrames:
		return int(b.Length)
	case *quic.QUICMultiDatagramFrames:
		if len(b.PerDatagram) > 0 {
			return int(b.PerDatagram[min(i, len(b.PerDatagram)-1)].Length)
		}
	}
	return 0
}

// ---- whole dials -----------------------------------------------------------------------

type c10Flight struct {
	All       [][]byte // every client datagram of the dial (Version Negotiation scenario only)
	Datagrams [][]byte
	DialErr   string
	Completed bool
}

type c10FixedTokenStore struct{ tok []byte }

func (s *c10FixedTokenStore) Pop(string) *quic.ClientToken {
	if s.tok == nil {
		return nil
	}
	return quic.NewClientToken(s.tok)
}
func (s *c10FixedTokenStore) Put(string, *quic.ClientToken) {}

// c10Dial dials once. blackhole: nothing is delivered and the first 100 ms of virtual time
// are captured (the first flight; the first PTO is later). Otherwise the real server answers
// and the flight is what the client sent before the first server datagram.
func c10Dial(sp *quic.QUICSpec, conf *quic.Config, blackhole bool) (fl c10Flight, err error) {
	return c10DialSrv(sp, conf, nil, blackhole)
}

// c10DialSrv: srvConf != nil selects the Version Negotiation scenario: the server's
// configuration (e.g. Versions {v2} against a client offering {v1, v2}) and ALL datagrams
// the client sent during the dial are returned in fl.All.
func c10DialSrv(sp *quic.QUICSpec, conf *quic.Config, srvConf *quic.Config, blackhole bool) (fl c10Flight, err error) {
	berr := inBubble(func() {
		e, err2 := newSimEnv(simOpts{Spec: sp, ClientConf: conf, ServerConf: srvConf})
		if err2 != nil {
			err = err2
			return
		}
		e.Router.mu.Lock()
		e.Router.blackhole = blackhole
		e.Router.mu.Unlock()
		to := 100 * time.Millisecond
		if !blackhole {
			to = 5 * time.Second
			go func() {
				c, aerr := e.Ln.Accept(context.Background())
				if aerr == nil {
					<-c.Context().Done()
				}
			}()
		}
		ctx, cancel := context.WithTimeout(context.Background(), to)
		conn, derr := e.Dial(ctx)
		cancel()
		if derr != nil {
			fl.DialErr = derr.Error()
		} else {
			fl.Completed = true
		}
		if conn != nil {
			conn.CloseWithError(0, "")
		}
		e.Router.mu.Lock()
		for _, d := range e.Router.log {
			// the first flight: sent before anything from the server could have arrived
			// (one-way latency 5 ms) and long before the first PTO
			// (the pacer releases a burst of ten datagrams and spaces the rest; into a black
			// hole nothing can arrive, so everything up to the dial's 100 ms deadline -- well
			// before the first PTO -- is the first flight)
			window := 4 * time.Millisecond
			if blackhole {
				window = 99 * time.Millisecond
			}
			if d.Dir == 1 || d.Time > window {
				break
			}
			fl.Datagrams = append(fl.Datagrams, d.Data)
		}
		if srvConf != nil {
			for _, d := range e.Router.log {
				if d.Dir == 0 {
					fl.All = append(fl.All, d.Data)
				}
			}
		}
		e.Router.mu.Unlock()
		e.Close()
	})
	if berr != nil && err == nil {
		err = berr
	}
	return
}

// c10WireFlightCase prints a whole dial's first flight as a FlightCase of coq/UPacker/Run.v
// (every observable read from the wire by the independent observer). Flights the model's
// inputs cannot be read off the wire for are skipped (false).
func c10WireFlightCase(w *bufio.Writer, sp *quic.QUICSpec, e *c10Expect, dgs [][]byte, pkts []*c10Pkt) bool {
	ips := &sp.InitialPacketSpec
	if len(pkts) == 0 || len(pkts) != len(dgs) {
		return false
	}
	bk := ""
	switch b := ips.FrameBuilder.(type) {
	case nil:
		bk = "BPass"
	case quic.QUICFrames:
		bk = "BEx"
		if len(b) == 0 {
			bk = "BPass"
		}
	case *quic.QUICRandomFrames:
		bk = c10BRandom(*b)
	case *quic.QUICMultiDatagramFrames:
		bk = c10BRandom(b.PerDatagram...)
	default:
		return false
	}
	planFor := func(i int) quic.InitialPacketPlan { return c10PlanFor(ips.InitialPackets, i) }
	var plens []int64
	var obs []string
	end := uint64(0)
	for i, p := range pkts {
		if p.BadFrame != "" || p.Payload == nil {
			return false
		}
		pl := len(p.Payload)
		if ps := planFor(i).PacketSize; ps > 0 && p.PacketLen == ps {
			pl = len(bytes.TrimRight(p.Payload, "\x00"))
		}
		plens = append(plens, int64(pl))
		var fr []string
		lo, hi, cb := ^uint64(0), uint64(0), uint64(0)
		for _, f := range p.Frames {
			if f.Type == 6 {
				if bk == "BPass" {
					fr = append(fr, u.Pair(u.ZU(f.Off), u.ZU(f.Len)))
				}
				lo, hi, cb = min(lo, f.Off), max(hi, f.Off+f.Len), cb+f.Len
			}
		}
		if cb == 0 || hi-lo != cb || lo != end {
			return false
		}
		end = hi
		if bk != "BPass" {
			fr = []string{u.Pair(u.ZU(lo), u.ZU(cb))} // the one contiguous slice the packer popped
		}
		obs = append(obs, u.App("DG", u.Z(p.PN), u.Z(int64(p.PNLen)), u.Z(int64(p.HdrLen)), u.List(fr), u.Z(int64(p.LengthField)),
			u.Z(int64(p.PacketLen)), u.Z(int64(len(dgs[i]))), u.Z(int64(i+1)), "false"))
	}
	var plans []string
	for _, pl := range ips.InitialPackets {
		plans = append(plans, u.Pair(u.Z(int64(pl.CryptoLength)), u.Z(int64(pl.PacketSize))))
	}
	var lens []int64
	for _, l := range ips.InitPacketNumberLengths {
		lens = append(lens, int64(l))
	}
	tokn := pkts[0].Token
	expl := "None"
	if e.ExplTokSet {
		expl = "(Some " + c10OptHex(e.ExplToken != nil, e.ExplToken) + ")"
	}
	tail := []byte{}
	if !e.ExplTokSet && len(tokn) > len(ips.ClientTokenPrefix) && max(ips.ClientTokenLength, len(ips.ClientTokenPrefix)) > 0 {
		tail = tokn[len(ips.ClientTokenPrefix):]
	}
	fmt.Fprintf(w, "CASE 1 %s\n", u.App("FlightCase",
		u.Z(int64(len(pkts[0].DCID))), u.Z(int64(len(pkts[0].SCID))), u.ZU(ips.InitPacketNumber), u.ZU(ips.InitPacketNumber), u.ZList(lens), u.Z(int64(ips.InitPacketNumberLength)),
		expl, u.Z(int64(ips.ClientTokenLength)), u.Hex(ips.ClientTokenPrefix), u.Hex(tail), c10OptHex(e.ConfToken != nil, e.ConfToken),
		bk, u.List(plans), u.Z(int64(sp.UDPDatagramMinSize)), u.Z(int64(e.MaxPacket)), u.ZU(end), u.ZList(plens),
		u.ZU(ips.InitPacketNumber), c10OptHex(len(tokn) > 0, tokn), "[]", u.List(obs)))
	return true
}

// ---- Version Negotiation: one Dial, two connections ---------------------------------------

type c10VNPacket struct {
	Version uint32
	PN      int64
	PNLen   int
}

// c10DialVN dials with Config.Versions {v1, v2} a server that only speaks v2: the server
// answers the v1 Initial with a Version Negotiation packet and the SAME Dial call re-creates
// the connection with v2, continuing the Initial packet number space. Every client Initial
// of both connections is opened with the Initial keys of its own version and of the first
// DCID used with that version.
func c10DialVN(sp *quic.QUICSpec) (pkts []c10VNPacket, fl c10Flight, err error) {
	conf := &quic.Config{Versions: []quic.Version{quic.Version1, quic.Version2}}
	fl, err = c10DialSrv(sp, conf, &quic.Config{Versions: []quic.Version{quic.Version2}}, false)
	if err != nil {
		return
	}
	keyDCID := map[uint32][]byte{}
	largest := map[uint32]int64{}
	for _, dg := range fl.All {
		if len(dg) < 7 || dg[0]&0x80 == 0 {
			continue // short header
		}
		ver := binary.BigEndian.Uint32(dg[1:5])
		typ := dg[0] >> 4 & 3
		if (ver == 0x6b3343cf && typ != 1) || (ver != 0x6b3343cf && typ != 0) {
			continue // Handshake / 0-RTT
		}
		if _, ok := largest[ver]; !ok {
			largest[ver] = -1
		}
		p, oerr := c10Open(dg, keyDCID[ver], largest[ver], -1)
		if oerr != nil && p != nil && strings.HasPrefix(oerr.Error(), "AEAD") && len(pkts) > 0 {
			// a receiver without the previous connection's state: try the next number
			p, oerr = c10Open(dg, keyDCID[ver], largest[ver], pkts[len(pkts)-1].PN+1)
		}
		if oerr != nil {
			err = fmt.Errorf("client Initial (version %#x, %d bytes) does not open: %v", ver, len(dg), oerr)
			return
		}
		if keyDCID[ver] == nil {
			keyDCID[ver] = p.DCID
		}
		if p.PN > largest[ver] {
			largest[ver] = p.PN
		}
		pkts = append(pkts, c10VNPacket{ver, p.PN, p.PNLen})
	}
	return
}

// c10CheckVN states the property for the two connections of one Dial: packet numbers are
// consecutive from InitPacketNumber across the re-creation, and each is encoded in
// InitPacketNumberLengths[min(pn - InitPacketNumber, n-1)] bytes (or the single override).
func c10CheckVN(sp *quic.QUICSpec, pkts []c10VNPacket) (fails []c10Fail) {
	ips := &sp.InitialPacketSpec
	sawV2 := false
	for i, p := range pkts {
		if p.Version == 0x6b3343cf {
			sawV2 = true
		}
		if want := int64(ips.InitPacketNumber) + int64(i); p.PN != want {
			fails = append(fails, c10Fail{"vn-pn", fmt.Sprintf("client Initial #%d (version %#x) has packet number %d, expected %d: numbers must continue across the re-creation (packets: %v)", i, p.Version, p.PN, want, pkts)})
			break
		}
		wantLen := 0
		if n := len(ips.InitPacketNumberLengths); n > 0 {
			wantLen = int(ips.InitPacketNumberLengths[min(int(p.PN-int64(ips.InitPacketNumber)), n-1)])
		} else if ips.InitPacketNumberLength != 0 {
			wantLen = int(ips.InitPacketNumberLength)
		}
		if wantLen != 0 && p.PNLen != wantLen {
			fails = append(fails, c10Fail{"vn-pn-len", fmt.Sprintf("client Initial #%d (version %#x, packet number %d) is encoded in %d byte(s), InitPacketNumberLengths%v[min(%d-%d, n-1)] = %d (packets (version, pn, len): %v)", i, p.Version, p.PN, p.PNLen, ips.InitPacketNumberLengths, p.PN, ips.InitPacketNumber, wantLen, pkts)})
		}
	}
	if !sawV2 || len(pkts) < 2 {
		fails = append(fails, c10Fail{"vn-capture", fmt.Sprintf("the dial was not re-created with version 2 (packets: %v)", pkts)})
	}
	return
}

type c10Reporter struct {
	w    *bufio.Writer
	seen map[string]int
}

func (r *c10Reporter) fail(key, desc, detail string) {
	r.seen[key]++
	if r.seen[key] <= 2 {
		fmt.Fprintf(r.w, "MONFAIL\t%s\t%s\t%s\n", key, strings.ReplaceAll(desc, "\n", " "), strings.ReplaceAll(detail, "\n", " "))
	}
}

func c10SpecString(sp *quic.QUICSpec) string {
	ips := &sp.InitialPacketSpec
	fb := "nil"
	switch b := ips.FrameBuilder.(type) {
	case *quic.QUICRandomFrames:
		fb = fmt.Sprintf("Random%+v", *b)
	case *quic.QUICMultiDatagramFrames:
		fb = fmt.Sprintf("Multi%+v", b.PerDatagram)
	case quic.QUICFrames:
		fb = fmt.Sprintf("QUICFrames%+v", []quic.QUICFrame(b))
	case nil:
	default:
		fb = fmt.Sprintf("%T", b)
	}
	return fmt.Sprintf("scid=%d dcid=%d ipn=%d pnlens=%v pnlen=%d ctl=%d prefix=%x store=%v builder=%s plans=%+v udpmin=%d",
		ips.SrcConnIDLength, ips.DestConnIDLength, ips.InitPacketNumber, ips.InitPacketNumberLengths, ips.InitPacketNumberLength,
		ips.ClientTokenLength, ips.ClientTokenPrefix, ips.TokenStore != nil, fb, ips.InitialPackets, sp.UDPDatagramMinSize)
}

// c10Derive mutates the Initial-packet half of a built-in spec (the ClientHello stays).
func c10Derive(r *u.Rng, sp *quic.QUICSpec, e *c10Expect, maxPacket int) {
	ips := &sp.InitialPacketSpec
	if r.Chance(2, 3) {
		ips.SrcConnIDLength = r.Range(0, 20)
	}
	if r.Chance(2, 3) {
		ips.DestConnIDLength = r.Range(0, 20)
		if ips.DestConnIDLength > 0 && ips.DestConnIDLength < 8 && r.Bool() {
			ips.DestConnIDLength += 8
		}
	}
	switch r.Intn(4) {
	case 0:
		ips.InitPacketNumber = uint64(r.Pick(0, 1, 2, 100, 127, 200, 255))
	case 1:
		ips.InitPacketNumber = uint64(r.Range(0, 60000))
	}
	switch r.Intn(4) {
	case 0:
		n := r.Range(1, 3)
		ips.InitPacketNumberLengths = nil
		for i := 0; i < n; i++ {
			ips.InitPacketNumberLengths = append(ips.InitPacketNumberLengths, quic.PacketNumberLen(r.Range(1, 4)))
		}
	case 1:
		ips.InitPacketNumberLengths = nil
		ips.InitPacketNumberLength = quic.PacketNumberLen(r.Range(0, 4))
	}
	switch r.Intn(5) {
	case 0:
		ips.ClientTokenLength = r.Range(1, 90)
	case 1:
		ips.ClientTokenPrefix = r.Bytes(r.Range(1, 6))
		ips.ClientTokenLength = int(r.Pick(0, 3, 20, 70))
	case 2:
		tok := r.Bytes(r.Range(1, 40))
		ips.TokenStore = &c10FixedTokenStore{tok}
		e.ExplTokSet, e.ExplToken = true, tok
		ips.ClientTokenLength = int(r.Pick(0, 16))
	}
	switch r.Intn(6) {
	case 0:
		sp.UDPDatagramMinSize = int(r.Pick(0, 600, 1200, 1250, 1280, 1357, 1400)) // simnet drops datagrams above 1400 bytes
	}
	switch r.Intn(6) {
	case 0:
		ips.InitialPackets = []quic.InitialPacketPlan{{CryptoLength: r.Range(200, 1000), PacketSize: min(maxPacket, int(r.Pick(0, 1200, 1250, 1280)))}, {PacketSize: min(maxPacket, int(r.Pick(0, 1200, 1250)))}}
	case 1:
		ips.InitialPackets = []quic.InitialPacketPlan{{CryptoLength: r.Range(100, 700)}}
	case 2:
		ips.InitialPackets = []quic.InitialPacketPlan{{PacketSize: min(maxPacket, int(r.Pick(1200, 1232, 1252, 1280)))}}
	}
	// mostly specs a dial accepts (the others must be refused, see c10SpecInvalid)
	if r.Chance(5, 6) {
		if ips.DestConnIDLength >= 1 && ips.DestConnIDLength <= 7 {
			ips.DestConnIDLength += 8
		}
		if sp.UDPDatagramMinSize > 0 && sp.UDPDatagramMinSize < 1200 {
			sp.UDPDatagramMinSize = 1200
		}
		var lens []int
		for _, l := range ips.InitPacketNumberLengths {
			lens = append(lens, int(l))
		}
		if fl := c10FirstPNLen(lens, int(ips.InitPacketNumberLength), ips.InitPacketNumber); ips.InitPacketNumber >= 1<<(8*uint(fl)) {
			ips.InitPacketNumber &= 1<<(8*uint(fl)) - 1
		}
	}
	fbPick := r.Intn(6)
	if len(ips.InitialPackets) > 0 && fbPick > 3 {
		fbPick = r.Intn(4) // plans that pin sizes go with builders that leave room
	}
	switch fbPick {
	case 0:
		ips.FrameBuilder = nil
	case 1:
		ips.FrameBuilder = quic.QUICFrames{}
	case 2:
		if len(ips.InitialPackets) > 0 {
			ips.FrameBuilder = nil // a fixed frame list does not fit arbitrary slices
			break
		}
		ips.FrameBuilder = quic.QUICFrames{quic.QUICFramePing{}, quic.QUICFrameCrypto{Offset: 0, Length: 50}, quic.QUICFramePadding{Length: r.Range(1, 30)}, quic.QUICFrameCrypto{Offset: 50, Length: 0}}
	case 3:
		ips.FrameBuilder = &quic.QUICRandomFrames{MinPING: uint8(r.Range(0, 2)), MaxPING: uint8(r.Range(2, 5)), MinCRYPTO: uint8(r.Range(1, 3)), MaxCRYPTO: uint8(r.Range(3, 9)),
			MinPADDING: uint8(r.Range(1, 2)), MaxPADDING: uint8(r.Range(3, 6)), Length: uint16(r.Pick(0, 900, 1000))}
		if len(ips.InitialPackets) == 0 {
			ips.FrameBuilder.(*quic.QUICRandomFrames).Length = uint16(r.Pick(0, 1100, 1180, 1215))
		}
	}
}

func runSimInitial(w *bufio.Writer, seed uint64, n int, args []string) {
	r := u.NewRng(seed)
	rep := &c10Reporter{w: w, seen: map[string]int{}}
	only := ""
	for _, a := range args {
		if strings.HasPrefix(a, "only=") {
			only = a[5:]
		}
	}
	defer func() {
		if p := recover(); p != nil {
			fmt.Fprintf(w, "MONFAIL\tsiminitial/panic\t%v\t\n", p)
		}
	}()
	dist := map[string]int{}
	for _, name := range parrotNames {
		if only != "" && only != name {
			continue
		}
		k := "siminitial/" + name + "/"
		tokens := map[string]int{}
		nTok := 0
		sizes := map[string]int{}
		for i := 0; i < n; i++ {
			sp, err := specFor(name)
			if err != nil {
				rep.fail(k+"capture", err.Error(), name)
				break
			}
			e := &c10Expect{Name: name, Spec: sp, MaxPacket: 1280, HelloLen: -1}
			kk := k
			derived := i%3 == 2
			conf := &quic.Config{}
			if derived {
				kk = "siminitial/derived/" + name + "/"
				if r.Chance(1, 4) {
					conf.InitialPacketSize = uint16(r.Pick(1200, 1252, 1280)) // not above 1280: see notes/C10.md (pacer busy loop, by-catch)
					e.MaxPacket = int(conf.InitialPacketSize)
				}
				c10Derive(r, sp, e, e.MaxPacket)
				if r.Chance(1, 5) {
					tok := r.Bytes(r.Range(1, 30))
					conf.TokenStore = &c10FixedTokenStore{tok}
					e.ConfToken = tok
				}
			}
			blackhole := i%4 != 3
			if os.Getenv("C10_DEBUG") != "" {
				fmt.Fprintf(os.Stderr, "dial %s #%d blackhole=%v conf=%d spec{%s}\n", name, i, blackhole, conf.InitialPacketSize, c10SpecString(sp))
			}
			fl, err := c10Dial(sp, conf, blackhole)
			dist["dials"]++
			if derived {
				dist["derived"]++
			}
			detail := func() string {
				return fmt.Sprintf("quicid=%s dial#%d blackhole=%v conf.InitialPacketSize=%d conf.token=%x spec{%s} dialErr=%q", name, i, blackhole, conf.InitialPacketSize, e.ConfToken, c10SpecString(sp), fl.DialErr)
			}
			if err != nil {
				rep.fail(kk+"capture", "dial into the simulation failed: "+err.Error(), detail())
				continue
			}
			// a spec that cannot be sent as described must be refused before anything is sent
			if why := c10SpecInvalid(sp, e.MaxPacket); why != "" {
				if c10Rejected(fl) {
					dist["rejected"]++
					continue
				}
				rep.fail(kk+"not-rejected/"+why, fmt.Sprintf("the spec is not sendable (%s) but the dial sent %d datagram(s) instead of failing with an error", why, len(fl.Datagrams)), detail())
			} else if c10Rejected(fl) {
				rep.fail(kk+"spurious-reject", "the dial refused an acceptable spec: "+fl.DialErr, detail())
				continue
			}
			fails, pkts, tok := c10CheckFlight(e, fl.Datagrams)
			for _, f := range fails {
				rep.fail(kk+f.key, f.desc, detail())
			}
			// the same flight as a correspondence case: the model replays what the REAL dial
			// (UTransport.dial, doDial, newUClientConnection, the connection's send loop) put
			// on the wire
			if c10SpecInvalid(sp, e.MaxPacket) == "" {
				if c10WireFlightCase(w, sp, e, fl.Datagrams, pkts) {
					dist["FlightCase"]++
				}
			}
			if !blackhole && !fl.Completed {
				benign := true
				for _, f := range fails {
					if !strings.HasPrefix(f.key, "size-max/") && !strings.HasPrefix(f.key, "size-frames/") && f.key != "plan-index" && !strings.HasPrefix(f.key, "size-exact/") {
						benign = false
					}
				}
				if !benign {
					dist["handshake-failed-explained"]++
					continue
				}
				dist["handshake-failed"]++
				if !strings.HasPrefix(name, "Firefox") || !strings.Contains(fl.DialErr, "CONNECTION_ID_LIMIT_ERROR") {
					rep.fail(kk+"handshake", "the in-tree server did not complete the handshake: "+fl.DialErr, detail())
				}
			}
			if !blackhole && fl.Completed {
				dist["handshake-ok"]++
			}
			dist[fmt.Sprintf("datagrams=%d", len(fl.Datagrams))]++
			if len(pkts) > 0 && len(tok) > 0 && sp.InitialPacketSpec.TokenStore == nil && e.ConfToken == nil && sp.InitialPacketSpec.ClientTokenLength >= len(sp.InitialPacketSpec.ClientTokenPrefix)+8 {
				tokens[string(tok)]++
				nTok++
			}
			if !derived {
				var s []string
				for _, d := range fl.Datagrams {
					s = append(s, fmt.Sprint(len(d)))
				}
				sizes[strings.Join(s, "+")]++
			}
		}
		// one Dial re-created after Version Negotiation (server speaks v2 only)
		for j := 0; j < 2+n/10; j++ {
			sp, err := specFor(name)
			if err != nil {
				break
			}
			variant := "parrot"
			if j%2 == 1 {
				variant = "list"
				sp.InitialPacketSpec.InitPacketNumber = uint64(r.Range(0, 9))
				sp.InitialPacketSpec.InitPacketNumberLength = 0
				sp.InitialPacketSpec.InitPacketNumberLengths = []quic.PacketNumberLen{quic.PacketNumberLen(r.Range(1, 4)), quic.PacketNumberLen(r.Range(1, 4)), quic.PacketNumberLen(r.Range(1, 4)), quic.PacketNumberLen(r.Range(1, 4))}
			}
			pkts, fl, err := c10DialVN(sp)
			dist["vn-dials"]++
			detail := fmt.Sprintf("quicid=%s variant=%s spec{%s} dialErr=%q", name, variant, c10SpecString(sp), fl.DialErr)
			if err != nil {
				rep.fail(k+"vn-capture", err.Error(), detail)
				continue
			}
			for _, f := range c10CheckVN(sp, pkts) {
				rep.fail(k+f.key, f.desc, detail)
			}
			if fl.Completed {
				dist["vn-handshake-ok"]++
			}
		}
		for t, c := range tokens {
			if c > 1 {
				rep.fail(k+"token-fresh", fmt.Sprintf("the synthesised token %x was sent on %d of %d dials", []byte(t), c, nTok), name)
			}
		}
		var ss []string
		for s, c := range sizes {
			ss = append(ss, fmt.Sprintf("%s:%d", s, c))
		}
		sort.Strings(ss)
		fmt.Fprintf(w, "INFO\t%s datagram sizes of the fresh parrot: %s\n", name, strings.Join(ss, " "))
	}
	// token freshness on a dedicated spec (several dials of one spec object and of fresh ones)
	if only == "" || only == "token" {
		seen := map[string]int{}
		var sp *quic.QUICSpec
		for i := 0; i < 12; i++ {
			if i%3 == 0 {
				sp, _ = specFor("Chrome_115_IPv4")
				sp.InitialPacketSpec.ClientTokenLength = 24
				sp.InitialPacketSpec.ClientTokenPrefix = []byte{0, 7}
			}
			fl, err := c10Dial(sp, &quic.Config{}, true)
			if err != nil || len(fl.Datagrams) == 0 {
				rep.fail("siminitial/token/capture", fmt.Sprint("dial failed: ", err, fl.DialErr), "")
				continue
			}
			p, err := c10Open(fl.Datagrams[0], nil, -1, -1)
			if err != nil {
				rep.fail("siminitial/token/decryptable", err.Error(), "")
				continue
			}
			if len(p.Token) != 24 || !bytes.HasPrefix(p.Token, []byte{0, 7}) {
				rep.fail("siminitial/token/token", fmt.Sprintf("token %x, want 24 bytes starting 0007", p.Token), "")
			}
			seen[string(p.Token)]++
			if seen[string(p.Token)] > 1 {
				rep.fail("siminitial/token/token-fresh", fmt.Sprintf("token %x repeated on dial %d (same spec object re-dialled: %v)", p.Token, i, i%3 != 0), "")
			}
			dist["token-dials"]++
		}
	}
	var ks []string
	for k := range dist {
		ks = append(ks, k)
	}
	sort.Strings(ks)
	for _, k := range ks {
		fmt.Fprintf(w, "DIST\t%s\t%d\n", k, dist[k])
	}
}
