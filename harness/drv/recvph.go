//go:build verif

package main

import (
	"bufio"
	"fmt"
	"math"
	"os"
	"sort"
	"strings"

	"github.com/refraction-networking/uquic/internal/ackhandler"
	"github.com/refraction-networking/uquic/internal/monotime"
	"github.com/refraction-networking/uquic/internal/protocol"
	u "github.com/refraction-networking/uquic/internal/verifutil"
	"github.com/refraction-networking/uquic/internal/wire"
)

// Unit recvph (property C07): receivedPacketHistory, receivedPacketTracker,
// appDataReceivedPacketTracker and the three-space ReceivedPacketHandler.
//
// Two kinds of cases are produced:
//   HistCase    – ops on a bare receivedPacketHistory (ReceivedPacket / DeleteBelow /
//                 IsPotentiallyDuplicate / HighestMissingUpTo), final ranges;
//   HandlerCase – ops on ackhandler.NewReceivedPacketHandler (all three spaces), every op with
//                 its observable, final state of all spaces.
// PROPERTY MONITORS (independent of the Coq model) run on every op; see rphMon below.

func init() {
	units["recvph"] = runRecvPH
	genSources = append(genSources, ackhandler.VerifRecvPHConsts)
}

const (
	rphMaxRanges = protocol.MaxNumAckRanges
	rphMaxDelay  = int64(protocol.MaxAckDelay)
	rphPktsAck   = 2 // only used to CHECK the property "on the second ack-eliciting packet"
)

func ivs(rs [][2]int64) string {
	s := make([]string, len(rs))
	for i, r := range rs {
		s[i] = u.Pair(u.Z(r[0]), u.Z(r[1]))
	}
	return u.List(s)
}

func numSet(rs [][2]int64) map[int64]bool {
	m := map[int64]bool{}
	for _, r := range rs {
		if r[1]-r[0] > 100000 {
			continue
		}
		for q := r[0]; q <= r[1]; q++ {
			m[q] = true
		}
	}
	return m
}

func covered(rs [][2]int64, q int64) bool {
	for _, r := range rs {
		if r[0] <= q && q <= r[1] {
			return true
		}
	}
	return false
}

// ---------------------------------------------------------------------------------------
// Monitor of one packet number space, driven by (ranges before, op, ranges after).
// It keeps its own record of what was received; the implementation's `ranges` slice is only
// read as an observable.
type spaceMon struct {
	name   string
	recv   map[int64]bool  // numbers accepted as new
	rtime  map[int64]int64 // their receive times
	forget int64           // max argument of DeleteBelow / IgnoreBelow so far (-1 = none)
	w      int64           // highest number legitimately forgotten by the MaxNumAckRanges limit
	ect0, ect1, ecnce uint64
	pruned bool
	fail   func(key, desc string)
}

func newSpaceMon(name string, fail func(key, desc string)) *spaceMon {
	return &spaceMon{name: name, recv: map[int64]bool{}, rtime: map[int64]int64{}, forget: -1, w: math.MinInt64, fail: fail}
}

// rangesInv: C07_ranges_inv on the stored slice.
func (m *spaceMon) rangesInv(rs [][2]int64, db int64) {
	if len(rs) > rphMaxRanges {
		m.fail("recvph/ranges-too-many", fmt.Sprintf("%s: %d ranges tracked > MaxNumAckRanges", m.name, len(rs)))
	}
	for i, r := range rs {
		if r[0] > r[1] {
			m.fail("recvph/ranges-inverted", fmt.Sprintf("%s: range %v has Start > End", m.name, r))
		}
		if r[0] < db {
			m.fail("recvph/ranges-below-deleted", fmt.Sprintf("%s: range %v below deletedBelow %d", m.name, r, db))
		}
		if i > 0 && rs[i-1][1]+1 >= r[0] {
			m.fail("recvph/ranges-unsorted", fmt.Sprintf("%s: ranges %v and %v overlap, touch or are out of order", m.name, rs[i-1], r))
		}
	}
	for q := range numSet(rs) {
		if !m.recv[q] {
			m.fail("recvph/ranges-unreceived", fmt.Sprintf("%s: history contains %d which was never received", m.name, q))
		}
	}
}

// onRecv: the call ReceivedPacket(p) returned isNew; before/after are the stored ranges.
func (m *spaceMon) onRecv(p int64, isNew bool, before, after [][2]int64, db int64, t int64, dbAfter int64) {
	wasDup := p < db || covered(before, p)
	if m.recv[p] && isNew {
		key := "recvph/dup-after-trim" // only possible for numbers the range limit has dropped
		if p < m.forget || p > m.w {
			key = "recvph/dup-accepted"
		}
		m.fail(key, fmt.Sprintf("%s: packet %d was received before, but was accepted as new (RFC 9000 12.3: a packet must be discarded unless it is certain that its number was not processed before)", m.name, p))
	}
	if isNew == wasDup {
		m.fail("recvph/isnew-wrong", fmt.Sprintf("%s: ReceivedPacket(%d) isNew=%v but history said duplicate=%v", m.name, p, isNew, wasDup))
	}
	if isNew {
		m.recv[p] = true
		m.rtime[p] = t
	}
	bs, as := numSet(before), numSet(after)
	for q := range as {
		if !bs[q] && q != p {
			m.fail("recvph/ranges-unreceived", fmt.Sprintf("%s: %d appeared in history after receiving %d", m.name, q, p))
		}
	}
	if !isNew {
		if fmt.Sprint(before) != fmt.Sprint(after) {
			m.fail("recvph/dup-changed-history", fmt.Sprintf("%s: refused packet %d changed the history", m.name, p))
		}
	}
	vanished := false
	for q := range bs {
		if !as[q] {
			vanished = true
			if len(before) < rphMaxRanges || !(before[0][0] <= q && q <= before[0][1]) {
				m.fail("recvph/history-lost", fmt.Sprintf("%s: %d dropped from history by receiving %d (ranges before: %d)", m.name, q, p, len(before)))
			}
		}
	}
	if vanished {
		m.pruned = true
		if before[0][1] > m.w {
			m.w = before[0][1]
		}
		if dbAfter <= before[0][1] {
			m.fail("recvph/dup-after-trim", fmt.Sprintf("%s: receiving %d dropped the range %v from the history but the duplicate threshold stays at %d: its numbers will be accepted again", m.name, p, before[0], dbAfter))
		}
	}
	if isNew && !as[p] {
		if len(before) < rphMaxRanges || p > before[0][0] {
			m.fail("recvph/history-lost", fmt.Sprintf("%s: new packet %d is not in the history (ranges before: %d)", m.name, p, len(before)))
		}
		m.pruned = true
		if p > m.w {
			m.w = p
		}
		if dbAfter <= p {
			m.fail("recvph/dup-after-trim", fmt.Sprintf("%s: new packet %d was dropped from the history at once but the duplicate threshold stays at %d: it will be accepted again", m.name, p, dbAfter))
		}
	}
	m.rangesInv(after, dbAfter)
}

// onDelete: DeleteBelow(p) / IgnoreBelow(p) took effect.
func (m *spaceMon) onDelete(p int64, before, after [][2]int64, dbAfter int64) {
	if p > m.forget {
		m.forget = p
	}
	bs, as := numSet(before), numSet(after)
	for q := range bs {
		if (q >= m.forget) != as[q] {
			m.fail("recvph/delete-wrong", fmt.Sprintf("%s: after DeleteBelow(%d) number %d in history=%v", m.name, p, q, as[q]))
		}
	}
	for q := range as {
		if !bs[q] {
			m.fail("recvph/ranges-unreceived", fmt.Sprintf("%s: %d appeared in history after DeleteBelow(%d)", m.name, q, p))
		}
	}
	m.rangesInv(after, dbAfter)
}

// onIsDup: IsPotentiallyDuplicate(q) returned d.
func (m *spaceMon) onIsDup(q int64, d bool) {
	if m.recv[q] && !d {
		key := "recvph/dup-after-trim"
		if q < m.forget || q > m.w {
			key = "recvph/dup-missed"
		}
		m.fail(key, fmt.Sprintf("%s: %d was received before, IsPotentiallyDuplicate=false", m.name, q))
	}
	if q < m.forget && !d {
		m.fail("recvph/dup-missed", fmt.Sprintf("%s: %d is below the forget threshold %d, IsPotentiallyDuplicate=false", m.name, q, m.forget))
	}
	if !m.recv[q] && q >= m.forget && q > m.w && d {
		m.fail("recvph/dup-false-positive", fmt.Sprintf("%s: %d was never received and is not below the forget threshold, IsPotentiallyDuplicate=true", m.name, q))
	}
}

func (m *spaceMon) largest() (int64, bool) {
	var mx int64
	ok := false
	for q := range m.recv {
		if !ok || q > mx {
			mx, ok = q, true
		}
	}
	return mx, ok
}

// onAck: an ACK frame was generated for this space (C07_ack_sound, C07_forget).
// ignoreBelow is the harness' own record of the forget threshold (0 if none).
func (m *spaceMon) onAck(rs [][2]int64 /* (Smallest, Largest), as in the frame */, e0, e1, ce uint64, keyEmpty string) bool {
	if len(rs) == 0 {
		if keyEmpty != "" {
			m.fail(keyEmpty, fmt.Sprintf("%s: generated ACK frame has no ranges", m.name))
		}
		return false
	}
	if len(rs) > rphMaxRanges {
		m.fail("recvph/ack-too-many", fmt.Sprintf("%s: ACK with %d ranges", m.name, len(rs)))
	}
	for i, r := range rs {
		if r[0] > r[1] {
			m.fail("recvph/ack-malformed", fmt.Sprintf("%s: ACK range %v has Smallest > Largest", m.name, r))
		}
		if i > 0 && !(rs[i-1][0] > r[1]+1) {
			m.fail("recvph/ack-malformed", fmt.Sprintf("%s: ACK ranges %v, %v not descending/disjoint/non-adjacent", m.name, rs[i-1], r))
		}
	}
	if !wire.VerifRPHValidateAckRanges(rs) {
		m.fail("recvph/ack-invalid", fmt.Sprintf("%s: generated ACK %v is rejected by AckFrame.validateAckRanges", m.name, rs))
	}
	acked := numSet(rs)
	for q := range acked {
		if !m.recv[q] {
			m.fail("recvph/ack-unreceived", fmt.Sprintf("%s: ACK acknowledges %d which was never received in this space", m.name, q))
		}
		if q < m.forget {
			m.fail("recvph/ack-below-ignore", fmt.Sprintf("%s: ACK acknowledges %d below the forget threshold %d", m.name, q, m.forget))
		}
	}
	if mx, ok := m.largest(); ok && mx >= m.forget && !(rs[0][0] <= mx && mx <= rs[0][1]) {
		m.fail("recvph/ack-largest", fmt.Sprintf("%s: first ACK range %v does not contain the largest received %d", m.name, rs[0], mx))
	}
	for q := range m.recv {
		if q >= m.forget && q > m.w && !acked[q] {
			m.fail("recvph/ack-missing-received", fmt.Sprintf("%s: %d was received, not forgotten, but is not acknowledged", m.name, q))
		}
	}
	if e0 != m.ect0 || e1 != m.ect1 || ce != m.ecnce {
		m.fail("recvph/ack-ecn", fmt.Sprintf("%s: ACK ECN counts (%d,%d,%d), received (%d,%d,%d)", m.name, e0, e1, ce, m.ect0, m.ect1, m.ecnce))
	}
	return true
}

// ---------------------------------------------------------------------------------------
// HistCase

type histOp struct {
	kind byte // 'r','d','u','m'
	p    int64
}

func runHistCase(w *bufio.Writer, ops []histOp, st *rphStats) {
	var log []string
	var failed []string
	fail := func(key, desc string) { failed = append(failed, key+"\t"+desc) }
	m := newSpaceMon("history", fail)
	h := ackhandler.VerifNewHist()
	var terms []string
	nontrivial := false
	func() {
		defer func() {
			if e := recover(); e != nil {
				fail("recvph/panic", fmt.Sprintf("history: panic %v", e))
			}
		}()
		for _, o := range ops {
			before := h.Ranges()
			switch o.kind {
			case 'r':
				db := h.DeletedBelow()
				isNew := h.ReceivedPacket(o.p)
				log = append(log, fmt.Sprintf("Recv(%d)=%v", o.p, isNew))
				m.onRecv(o.p, isNew, before, h.Ranges(), db, 0, h.DeletedBelow())
				terms = append(terms, u.Pair(u.App("HRecv", u.Z(o.p)), u.App("HB", u.B(isNew))))
				if !isNew {
					nontrivial = true
				}
			case 'd':
				h.DeleteBelow(o.p)
				log = append(log, fmt.Sprintf("DeleteBelow(%d)", o.p))
				m.onDelete(o.p, before, h.Ranges(), h.DeletedBelow())
				if h.DeletedBelow() < m.forget || (h.DeletedBelow() != m.forget && h.DeletedBelow() != m.w+1) {
					fail("recvph/delete-wrong", fmt.Sprintf("deletedBelow=%d after DeleteBelow up to %d", h.DeletedBelow(), m.forget))
				}
				terms = append(terms, u.Pair(u.App("HDel", u.Z(o.p)), "HU"))
			case 'u':
				d := h.IsPotentiallyDuplicate(o.p)
				log = append(log, fmt.Sprintf("IsDup(%d)=%v", o.p, d))
				m.onIsDup(o.p, d)
				terms = append(terms, u.Pair(u.App("HDup", u.Z(o.p)), u.App("HB", u.B(d))))
			case 'm':
				v := h.HighestMissingUpTo(o.p)
				log = append(log, fmt.Sprintf("HighestMissingUpTo(%d)=%d", o.p, v))
				// the answer is a number that is not in the history and not above p
				if v != -1 && (v > o.p || covered(h.Ranges(), v)) {
					fail("recvph/highest-missing", fmt.Sprintf("HighestMissingUpTo(%d)=%d is received or above the bound", o.p, v))
				}
				terms = append(terms, u.Pair(u.App("HMiss", u.Z(o.p)), u.App("HZ", u.Z(v))))
			}
		}
	}()
	fin := h.Ranges()
	back := h.Backward()
	for i := range back { // Backward must be the stored ranges in reverse
		if back[i] != fin[len(fin)-1-i] {
			fail("recvph/backward", "Backward() is not the reverse of the stored ranges")
			break
		}
	}
	if len(fin) >= 2 {
		nontrivial = true
	}
	if st.shape != nil {
		switch n := len(fin); {
		case n == rphMaxRanges:
			st.shape["hist-final-ranges=MaxNumAckRanges"]++
		case n >= rphMaxRanges-2:
			st.shape["hist-final-ranges=Max-2..Max-1"]++
		}
	}
	if m.pruned {
		st.pruned++
	}
	st.histOps += len(ops)
	for _, f := range failed {
		fmt.Fprintf(w, "MONFAIL\t%s\t%s\n", f, strings.Join(log, " "))
	}
	fmt.Fprintf(w, "CASE %d %s\n", rphB2i(nontrivial), u.App("HistCase", u.List(terms), ivs(fin), u.Z(h.DeletedBelow()), ivs(back)))
	if st.samples < 1 && len(ops) > 5 && len(ops) < 16 {
		st.samples++
		fmt.Fprintf(w, "SAMPLE\thistory: %s => ranges %v\n", strings.Join(log, " "), fin)
	}
}

func rphB2i(b bool) int {
	if b {
		return 1
	}
	return 0
}

type rphStats struct {
	pruned, histOps, handlerOps, samples, hsamples int
	acks, acksMulti, dupTrue, dupForced, emptyAck, panics, queued, alarmAcks int
	opKinds                                                                   map[string]int
	ackSamples                                                                [][][2]int64
	truncCut                                                                  int
	shape                                                                     map[string]int
}

func genHistRandom(r *u.Rng) []histOp {
	base := r.Pick(0, 0, 0, 1, 7, 1000, 1<<40, (1<<62)-64)
	U := int64(r.Range(5, 24))
	n := r.Range(6, 40)
	ops := make([]histOp, 0, n)
	for i := 0; i < n; i++ {
		p := base + int64(r.Intn(int(U)))
		switch x := r.Intn(100); {
		case x < 62:
			ops = append(ops, histOp{'r', p})
		case x < 70:
			ops = append(ops, histOp{'d', p + int64(r.Range(-1, 1))})
		case x < 88:
			ops = append(ops, histOp{'u', p + int64(r.Range(-1, 1))})
		default:
			ops = append(ops, histOp{'m', p + int64(r.Range(-1, 2))})
		}
	}
	return ops
}

// more than MaxNumAckRanges ranges: isolated numbers, then fillers that merge, late low packets, queries
func genHistLong(r *u.Rng) []histOp {
	base := int64(r.Pick(10, 100, 5000))
	k := rphMaxRanges + r.Range(2, 14)
	nums := make([]int64, k)
	for i := range nums {
		nums[i] = base + 2*int64(i)
		if r.Chance(1, 10) {
			nums[i]++ // makes some neighbours adjacent
		}
	}
	switch r.Intn(3) {
	case 1: // descending arrival
		for i, j := 0, len(nums)-1; i < j; i, j = i+1, j-1 {
			nums[i], nums[j] = nums[j], nums[i]
		}
	case 2: // shuffled
		for i := len(nums) - 1; i > 0; i-- {
			j := r.Intn(i + 1)
			nums[i], nums[j] = nums[j], nums[i]
		}
	}
	var ops []histOp
	for _, p := range nums {
		ops = append(ops, histOp{'r', p})
	}
	extra := r.Range(4, 14)
	for i := 0; i < extra; i++ {
		p := base + int64(r.Intn(2*k+2)) - 1
		switch x := r.Intn(10); {
		case x < 5:
			ops = append(ops, histOp{'r', p})
		case x < 8:
			ops = append(ops, histOp{'u', p})
		case x < 9:
			ops = append(ops, histOp{'m', p})
		default:
			ops = append(ops, histOp{'d', p})
		}
	}
	// re-receive some of the first numbers (possibly pruned by now) and ask again
	for i := 0; i < 3; i++ {
		p := base + int64(r.Intn(12))
		ops = append(ops, histOp{'u', p}, histOp{'r', p}, histOp{'u', p})
	}
	return ops
}

// all arrival orders of at most k numbers out of [0,U)
func histOrders(U, k int, emit func([]histOp)) {
	var cur []int64
	used := make([]bool, U)
	var rec func()
	rec = func() {
		ops := make([]histOp, 0, len(cur)+U+1)
		for _, p := range cur {
			ops = append(ops, histOp{'r', p})
		}
		for q := 0; q < U; q++ {
			ops = append(ops, histOp{'u', int64(q)})
		}
		ops = append(ops, histOp{'m', int64(U - 1)})
		emit(ops)
		if len(cur) == k {
			return
		}
		for q := 0; q < U; q++ {
			if !used[q] {
				used[q] = true
				cur = append(cur, int64(q))
				rec()
				cur = cur[:len(cur)-1]
				used[q] = false
			}
		}
	}
	rec()
}

// ---------------------------------------------------------------------------------------
// HandlerCase

type hOp struct {
	kind  string // recv ignore drop getack isdup alarm peek
	pn    int64
	ecn   int64
	lvl   int64
	t     int64
	ae    bool
	only  bool
	force bool // recv although flagged duplicate
}

func (o hOp) term() string {
	switch o.kind {
	case "recv":
		return u.App("Recv", u.Z(o.pn), u.Z(o.ecn), u.Z(o.lvl), u.Z(o.t), u.B(o.ae))
	case "ignore":
		return u.App("Ignore", u.Z(o.pn))
	case "drop":
		return u.App("Drop", u.Z(o.lvl))
	case "getack":
		return u.App("GetAck", u.Z(o.lvl), u.Z(o.t), u.B(o.only))
	case "isdup":
		return u.App("IsDup", u.Z(o.pn), u.Z(o.lvl))
	case "alarm":
		return "Alarm"
	case "trunc":
		return u.App("Trunc", u.Z(o.lvl), u.Z(o.pn))
	}
	return "Peek"
}

func (o hOp) String() string {
	switch o.kind {
	case "recv":
		return fmt.Sprintf("Recv(pn=%d,ecn=%d,lvl=%d,t=%d,ackEl=%v)", o.pn, o.ecn, o.lvl, o.t, o.ae)
	case "ignore":
		return fmt.Sprintf("IgnoreBelow(%d)", o.pn)
	case "drop":
		return fmt.Sprintf("Drop(lvl=%d)", o.lvl)
	case "getack":
		return fmt.Sprintf("GetAck(lvl=%d,now=%d,onlyIfQueued=%v)", o.lvl, o.t, o.only)
	case "isdup":
		return fmt.Sprintf("IsDup(pn=%d,lvl=%d)", o.pn, o.lvl)
	case "trunc":
		return fmt.Sprintf("Truncate(lvl=%d,maxSize=%d)", o.lvl, o.t)
	}
	return o.kind
}

func spaceTerm(s ackhandler.VerifSpace) string {
	last := "None"
	if s.HasLastAck {
		last = u.Opt(true, ivs(s.LastAck))
	}
	return u.App("Sp", ivs(s.Ranges), u.Z(s.DeletedBelow), u.ZU(s.ECT0), u.ZU(s.ECT1), u.ZU(s.ECNCE), u.B(s.HasNewAck), last)
}

func optSpaceTerm(s ackhandler.VerifSpace) string {
	if !s.Present {
		return "None"
	}
	return u.Opt(true, spaceTerm(s))
}

func finTerm(s ackhandler.VerifRPHState) string {
	return u.App("Fin", optSpaceTerm(s.Initial), optSpaceTerm(s.Handshake), spaceTerm(s.App),
		u.Z(s.LargestObserved), u.Z(s.LorTime), u.Z(s.IgnoreBelow), u.Z(s.MaxAckDelay), u.B(s.AckQueued), u.Z(s.Cnt), u.Z(s.Alarm), u.Z(s.Lowest1RTT))
}

func ackTerm(a *wire.AckFrame) (string, [][2]int64) {
	if a == nil {
		return u.App("RAck", "None"), nil
	}
	rs := make([][2]int64, len(a.AckRanges))
	for i, r := range a.AckRanges {
		rs[i] = [2]int64{int64(r.Smallest), int64(r.Largest)}
	}
	return u.App("RAck", u.Opt(true, u.App("mkAck", ivs(rs), u.Z(int64(a.DelayTime)), u.ZU(a.ECT0), u.ZU(a.ECT1), u.ZU(a.ECNCE)))), rs
}

// space index of an encryption level: 0 Initial, 1 Handshake, 2 application data, -1 invalid
func spaceOf(lvl int64) int {
	switch protocol.EncryptionLevel(lvl) {
	case protocol.EncryptionInitial:
		return 0
	case protocol.EncryptionHandshake:
		return 1
	case protocol.Encryption0RTT, protocol.Encryption1RTT:
		return 2
	}
	return -1
}

func snapSpace(s ackhandler.VerifRPHState, i int) ackhandler.VerifSpace {
	switch i {
	case 0:
		return s.Initial
	case 1:
		return s.Handshake
	}
	return s.App
}

// handlerRunner executes ops one at a time on the real handler (the generator looks at the
// results to choose the next op, like a connection does) and applies the monitors.
type handlerRunner struct {
	h        *ackhandler.ReceivedPacketHandler
	mon      [3]*spaceMon
	dropped  [3]bool
	terms    []string
	log      []string
	failed   []string
	free     bool // arbitrary IgnoreBelow thresholds instead of Largest+1 of an ACK generated earlier
	witness  bool // replay of the out-of-discipline witness: an empty ACK is reported as INFO only
	lastFrame [3]*wire.AckFrame // the frame GetAckFrame returned last per space (the same struct as the tracker's lastAck)
	owes     bool // caller discipline: an IgnorePacketsBelow call is not yet followed by an accepted app-data packet
	info     []string
	stopped  bool
	st       *rphStats
	// app-data bookkeeping for C07_ack_due
	pendingT     int64 // receive time of the first unacknowledged ack-eliciting packet, 0 = none
	pendingN     int   // number of unacknowledged ack-eliciting packets
	lastAck      [][2]int64
	hasLastAck   bool
	pendingHS    [2]bool // Initial/Handshake: an ack-eliciting packet waits for an ACK
	ackedLargest []int64 // Largest of the app-data ACKs generated so far (what the peer may confirm)
	nontrivial   bool
}

func (x *handlerRunner) fail(key, desc string) { x.failed = append(x.failed, key+"\t"+desc) }

func newHandlerRunner(free bool, st *rphStats) *handlerRunner {
	x := &handlerRunner{h: ackhandler.VerifNewRPH(), free: free, st: st}
	for i, n := range []string{"Initial", "Handshake", "AppData"} {
		x.mon[i] = newSpaceMon(n, x.fail)
	}
	return x
}

func (x *handlerRunner) emit(o hOp, res string) {
	x.terms = append(x.terms, u.Pair(o.term(), res))
	x.st.handlerOps++
	x.st.opKinds[o.kind]++
}

// checkDue: the app-data part of C07_ack_due, evaluated after every op.
func (x *handlerRunner) checkDue(s ackhandler.VerifRPHState) {
	if x.pendingN > 0 {
		if !s.AckQueued && (s.Alarm == 0 || s.Alarm > x.pendingT+rphMaxDelay) {
			x.fail("recvph/ackdue-late", fmt.Sprintf("ack-eliciting packet received at %d is unacknowledged, no ACK queued and alarm=%d (max ack delay %d)", x.pendingT, s.Alarm, rphMaxDelay))
		}
	}
}

// do executes one op; returns the error class of a recv ("" ok, "dup", "0rtt", "panic").
func (x *handlerRunner) do(o hOp) (out string, dupFlag bool) {
	before := ackhandler.VerifRPHSnapshot(x.h)
	sp := spaceOf(o.lvl)
	expectPanic := false
	switch o.kind {
	case "recv":
		expectPanic = sp < 0 || (sp == 0 && x.dropped[0])
	case "drop":
		expectPanic = !(o.lvl >= 1 && o.lvl <= 3)
	case "isdup":
		expectPanic = sp < 0 || (sp < 2 && x.dropped[sp])
	}
	x.log = append(x.log, o.String())
	panicked := false
	var res string
	var ack *wire.AckFrame
	var ackRs [][2]int64
	var err error
	func() {
		defer func() {
			if e := recover(); e != nil {
				panicked = true
				x.log = append(x.log, fmt.Sprintf("=>panic(%v)", e))
			}
		}()
		switch o.kind {
		case "recv":
			err = x.h.ReceivedPacket(protocol.PacketNumber(o.pn), protocol.ECN(o.ecn), protocol.EncryptionLevel(o.lvl), monotime.Time(o.t), o.ae)
			switch {
			case err == nil:
				res = "ROk"
			case strings.Contains(err.Error(), "0-RTT"):
				res, out = "RErr0RTT", "0rtt"
			default:
				res, out = "RErrDup", "dup"
			}
		case "ignore":
			x.h.IgnorePacketsBelow(protocol.PacketNumber(o.pn))
			res = "ROk"
		case "drop":
			x.h.DropPackets(protocol.EncryptionLevel(o.lvl))
			res = "ROk"
		case "getack":
			ack = x.h.GetAckFrame(protocol.EncryptionLevel(o.lvl), monotime.Time(o.t), o.only)
			res, ackRs = ackTerm(ack)
		case "isdup":
			dupFlag = x.h.IsPotentiallyDuplicate(protocol.PacketNumber(o.pn), protocol.EncryptionLevel(o.lvl))
			res = u.App("RB", u.B(dupFlag))
		case "trunc":
			// what the packet packer does with the frame it got: ack.Truncate(maxSize, version)
			f := x.lastFrame[sp]
			before := len(f.AckRanges)
			f.Truncate(protocol.ByteCount(o.t), protocol.Version1)
			if before > 0 && len(f.AckRanges) == 0 {
				x.fail("recvph/truncate-empty", fmt.Sprintf("Truncate(%d) left no range of %d", o.t, before))
			}
			x.terms = append(x.terms, u.Pair(u.App("Trunc", u.Z(o.lvl), u.Z(int64(len(f.AckRanges)))), "ROk"))
			x.st.handlerOps++
			x.st.opKinds[o.kind]++
			if sp == 2 && x.hasLastAck && len(x.lastAck) > len(f.AckRanges) {
				x.lastAck = x.lastAck[:len(f.AckRanges)]
			}
			x.st.truncCut += before - len(f.AckRanges)
			res = "ROk"
		case "alarm":
			res = u.App("RZ", u.Z(int64(x.h.GetAlarmTimeout())))
		case "peek":
			s := before
			res = u.App("RPeek", u.B(s.AckQueued), u.Z(s.Cnt), u.B(s.App.HasNewAck), u.Z(s.LargestObserved))
		}
	}()
	if panicked {
		x.st.panics++
		if !expectPanic {
			x.fail("recvph/panic", "unexpected panic in "+o.String())
		}
		x.emit(o, "RPanic")
		x.stopped = true
		return "panic", false
	}
	x.log[len(x.log)-1] += "=>" + strings.TrimSuffix(strings.TrimPrefix(res, "("), ")")
	if o.kind != "trunc" {
		x.emit(o, res)
	}
	after := ackhandler.VerifRPHSnapshot(x.h)

	switch o.kind {
	case "recv":
		if sp >= 0 && !(x.dropped[sp]) && out != "0rtt" {
			m := x.mon[sp]
			b, a := snapSpace(before, sp), snapSpace(after, sp)
			m.onRecv(o.pn, err == nil, b.Ranges, a.Ranges, b.DeletedBelow, o.t, a.DeletedBelow)
			if err == nil {
				switch protocol.ECN(o.ecn) {
				case protocol.ECT0:
					m.ect0++
				case protocol.ECT1:
					m.ect1++
				case protocol.ECNCE:
					m.ecnce++
				}
			} else {
				// a refused packet must leave every counter and flag of the space alone
				b.LastAck, a.LastAck = nil, nil
				if fmt.Sprint(b) != fmt.Sprint(a) || before.AckQueued != after.AckQueued || before.Cnt != after.Cnt || before.Alarm != after.Alarm {
					x.fail("recvph/dup-processed", fmt.Sprintf("refused packet %d changed the tracker state", o.pn))
				}
			}
			if err == nil && sp == 2 {
				x.owes = false
			}
			if err == nil && o.ae {
				if sp < 2 {
					x.pendingHS[sp] = true
					if !a.HasNewAck {
						x.fail("recvph/ackdue-immediate", fmt.Sprintf("%s: ack-eliciting packet %d does not make an ACK available", m.name, o.pn))
					}
				} else {
					x.pendingN++
					if x.pendingN == 1 {
						x.pendingT = o.t
					}
					if !after.AckQueued && (after.Alarm == 0 || after.Alarm > o.t+rphMaxDelay) {
						x.fail("recvph/ackdue-late", fmt.Sprintf("ack-eliciting packet %d received at %d: no ACK queued and alarm=%d", o.pn, o.t, after.Alarm))
					}
					if x.pendingN >= rphPktsAck && !after.AckQueued {
						x.fail("recvph/ackdue-second", fmt.Sprintf("packet %d is the %d. unacknowledged ack-eliciting packet, no ACK queued", o.pn, x.pendingN))
					}
					if protocol.ECN(o.ecn) == protocol.ECNCE && !after.AckQueued {
						x.fail("recvph/ackdue-ce", fmt.Sprintf("ack-eliciting packet %d was ECN-CE marked, no ACK queued", o.pn))
					}
					if x.hasLastAck && len(x.lastAck) > 0 && o.pn >= m.forget {
						la := x.lastAck[0][1]
						if o.pn < la && !covered(x.lastAck, o.pn) && !after.AckQueued {
							x.fail("recvph/ackdue-missing", fmt.Sprintf("ack-eliciting packet %d was reported missing in the last ACK, no ACK queued", o.pn))
						}
						if mx, _ := m.largest(); mx == o.pn && !m.recv[o.pn-1] && o.pn-1 >= m.forget && o.pn-1 >= 0 && o.pn-1 > la && !after.AckQueued {
							x.fail("recvph/ackdue-newgap", fmt.Sprintf("ack-eliciting packet %d reveals the new gap %d above the last ACK (largest %d), no ACK queued", o.pn, o.pn-1, la))
						}
					}
				}
			}
		}
	case "ignore":
		x.owes = true
		b, a := before.App, after.App
		if o.pn > before.IgnoreBelow {
			x.mon[2].onDelete(o.pn, b.Ranges, a.Ranges, a.DeletedBelow)
		} else if fmt.Sprint(b.Ranges) != fmt.Sprint(a.Ranges) {
			x.fail("recvph/delete-wrong", "IgnoreBelow with a lower threshold changed the history")
		}
	case "drop":
		if sp >= 0 && sp < 2 {
			x.lastFrame[sp] = nil
			x.dropped[sp] = true
			x.pendingHS[sp] = false
		}
	case "isdup":
		if sp >= 0 {
			x.mon[sp].onIsDup(o.pn, dupFlag)
			if dupFlag {
				x.st.dupTrue++
				x.nontrivial = true
			}
		}
	case "getack":
		if ack != nil && sp >= 0 && o.lvl != int64(protocol.Encryption0RTT) {
			x.lastFrame[sp] = ack
			x.st.acks++
			if len(x.st.ackSamples) < 400 && len(ackRs) > 0 && len(ackRs) <= 12 {
				x.st.ackSamples = append(x.st.ackSamples, append([][2]int64{}, ackRs...))
			}
			if x.st.shape != nil {
				switch n := len(ackRs); {
				case n <= 1:
					x.st.shape[fmt.Sprintf("ack-ranges=%d", n)]++
				case n <= 3:
					x.st.shape["ack-ranges=2..3"]++
				case n <= 16:
					x.st.shape["ack-ranges=4..16"]++
				case n < rphMaxRanges:
					x.st.shape["ack-ranges=17..63"]++
				default:
					x.st.shape["ack-ranges=MaxNumAckRanges"]++
				}
				for j := 1; j < len(ackRs); j++ {
					switch g := ackRs[j-1][0] - ackRs[j][1] - 1; {
					case g == 1:
						x.st.shape["ack-gap=1"]++
					case g <= 3:
						x.st.shape["ack-gap=2..3"]++
					default:
						x.st.shape["ack-gap>3"]++
					}
				}
			}
			if len(ackRs) > 1 {
				x.st.acksMulti++
				x.nontrivial = true
			}
			key := "recvph/ack-empty"
			if x.witness {
				key = ""
			}
			okAck := x.mon[sp].onAck(ackRs, ack.ECT0, ack.ECT1, ack.ECNCE, key)
			if !okAck {
				x.st.emptyAck++
				x.stopped = true // every later use of this frame (LargestAcked) panics
				if x.witness {
					x.info = append(x.info, "outside the caller discipline (IgnorePacketsBelow not followed by an accepted packet) GetAckFrame returns an ACK frame without ranges: "+strings.Join(x.log, " "))
				}
			}
			if sp < 2 {
				x.pendingHS[sp] = false
			} else {
				if okAck {
					if mx, ok := x.mon[2].largest(); ok {
						want := o.t - x.mon[2].rtime[mx]
						if want < 0 {
							want = 0
						}
						if int64(ack.DelayTime) != want {
							x.fail("recvph/ack-delay", fmt.Sprintf("ACK delay %d, largest received %d arrived at %d, now %d", int64(ack.DelayTime), mx, x.mon[2].rtime[mx], o.t))
						}
					}
					x.ackedLargest = append(x.ackedLargest, ackRs[0][1])
				}
				if o.only && !before.AckQueued {
					x.st.alarmAcks++
				}
				x.pendingN, x.pendingT = 0, 0
				x.lastAck, x.hasLastAck = ackRs, true
			}
		}
		if ack == nil && sp >= 0 && sp < 2 && !x.dropped[sp] && x.pendingHS[sp] && o.lvl != int64(protocol.Encryption0RTT) {
			x.fail("recvph/ackdue-immediate", fmt.Sprintf("%s: GetAckFrame returned nil although an ack-eliciting packet is unacknowledged", x.mon[sp].name))
		}
		if ack == nil && o.lvl == int64(protocol.Encryption1RTT) && x.pendingN > 0 {
			if !o.only || before.AckQueued || (before.Alarm != 0 && before.Alarm <= o.t) {
				x.fail("recvph/ackdue-withheld", fmt.Sprintf("GetAckFrame(now=%d,onlyIfQueued=%v) returned nil: queued=%v alarm=%d, %d ack-eliciting packets unacknowledged", o.t, o.only, before.AckQueued, before.Alarm, x.pendingN))
			}
		}
	}
	if after.AckQueued {
		x.st.queued++
	}
	x.checkDue(after)
	return out, dupFlag
}

func (x *handlerRunner) finish(w *bufio.Writer) {
	for _, f := range x.failed {
		fmt.Fprintf(w, "MONFAIL\t%s\t%s\n", f, strings.Join(x.log, " "))
	}
	for _, l := range x.info {
		fmt.Fprintf(w, "INFO\t%s\n", l)
	}
	fin := ackhandler.VerifRPHSnapshot(x.h)
	for i := 0; i < 3; i++ {
		if x.mon[i].pruned {
			x.st.pruned++
			break
		}
	}
	fmt.Fprintf(w, "CASE %d %s\n", rphB2i(x.nontrivial), u.App("HandlerCase", u.List(x.terms), finTerm(fin)))
	if x.st.hsamples < 1 && len(x.terms) >= 8 && len(x.terms) <= 14 {
		x.st.hsamples++
		fmt.Fprintf(w, "SAMPLE\thandler: %s\n", strings.Join(x.log, " "))
	}
}

func pickECN(r *u.Rng) int64 {
	switch x := r.Intn(100); {
	case x < 55:
		return int64(protocol.ECNNon)
	case x < 75:
		return int64(protocol.ECT0)
	case x < 82:
		return int64(protocol.ECT1)
	case x < 95:
		return int64(protocol.ECNCE)
	}
	return int64(protocol.ECNUnsupported)
}

// genHandlerCase drives one handler. In every mode the caller discipline of connection.go holds: no
// GetAckFrame(1-RTT) between IgnorePacketsBelow and the next accepted application-data packet.
// mode: 0 connection-like (threshold = Largest+1 of an ACK generated earlier, immediately followed by
// the packet that carried the confirmation), 1 free (arbitrary thresholds at arbitrary points), 2 long (many isolated app-data packets, more than MaxNumAckRanges).
func genHandlerCase(w *bufio.Writer, r *u.Rng, mode int, st *rphStats) {
	x := newHandlerRunner(mode == 1, st)
	defer x.finish(w)
	const ms = int64(1000000)
	clock := int64(r.Pick(1, ms, 1000*ms, 3600*1000*ms))
	base := [3]int64{r.Pick(0, 0, 0, 1, 5), r.Pick(0, 0, 1, 3), r.Pick(0, 0, 0, 1, 2, 1000, (1<<62)-200)}
	next := base
	nops := r.Range(8, 40)
	if mode == 2 {
		nops = rphMaxRanges + r.Range(20, 50)
	}
	// phase weights: start in Initial/Handshake, drift to app data
	appOnly := mode == 2 || r.Chance(1, 3)
	tick := func() int64 {
		clock += r.Pick(0, 1, ms, ms, 2*ms, 5*ms, 24*ms, 25*ms, 26*ms, 60*ms)
		if r.Chance(1, 12) && clock > 3*ms {
			return clock - 2*ms // a reordered timestamp
		}
		return clock
	}
	choosePN := func(sp int) int64 {
		m := x.mon[sp]
		switch v := r.Intn(100); {
		case mode == 2 && v < 80:
			next[sp] += 2
			return next[sp] - 2
		case v < 50:
			next[sp]++
			return next[sp] - 1
		case v < 65:
			next[sp] += int64(r.Range(1, 3))
			next[sp]++
			return next[sp] - 1
		case v < 85:
			if next[sp] > base[sp] {
				span := next[sp] - base[sp]
				if span > 1<<20 {
					span = 1 << 20
				}
				return next[sp] - 1 - int64(r.Intn(int(span)))
			}
		case v < 95:
			if len(m.recv) > 0 {
				ks := make([]int64, 0, len(m.recv))
				for q := range m.recv {
					ks = append(ks, q)
				}
				sort.Slice(ks, func(i, j int) bool { return ks[i] < ks[j] })
				return ks[r.Intn(len(ks))]
			}
		}
		next[sp] += int64(r.Range(4, 9))
		return next[sp] - 1
	}
	recvOp := func(lvl int64, pn int64) hOp {
		return hOp{kind: "recv", pn: pn, ecn: pickECN(r), lvl: lvl, t: tick(), ae: r.Chance(3, 4)}
	}
	for i := 0; i < nops && !x.stopped; i++ {
		v := r.Intn(100)
		// choose a level
		var lvl int64
		switch {
		case appOnly:
			lvl = int64(protocol.Encryption1RTT)
			if r.Chance(1, 25) {
				lvl = int64(protocol.Encryption0RTT)
			}
		default:
			switch y := r.Intn(100); {
			case y < 22:
				lvl = int64(protocol.EncryptionInitial)
			case y < 44:
				lvl = int64(protocol.EncryptionHandshake)
			case y < 52:
				lvl = int64(protocol.Encryption0RTT)
			case y < 99:
				lvl = int64(protocol.Encryption1RTT)
			default:
				lvl = r.Pick(0, 5)
			}
		}
		sp := spaceOf(lvl)
		switch {
		case v < 58 || (mode == 2 && v < 88): // a packet arrives
			var pn int64
			if sp >= 0 {
				pn = choosePN(sp)
			} else {
				pn = int64(r.Intn(10))
			}
			if sp >= 0 && x.dropped[sp] && !r.Chance(1, 6) {
				continue // packets of a dropped space cannot be decrypted any more
			}
			if r.Chance(4, 5) && !(sp >= 0 && sp < 2 && x.dropped[sp]) && sp >= 0 {
				_, dup := x.do(hOp{kind: "isdup", pn: pn, lvl: lvl})
				if x.stopped {
					break
				}
				if dup {
					if !r.Chance(1, 5) {
						continue // connection.go drops the packet
					}
					st.dupForced++
				}
			}
			o := recvOp(lvl, pn)
			x.do(o)
			if sp == 2 && r.Chance(1, 2) && !x.stopped {
				x.do(hOp{kind: "peek"})
			}
		case v < 78: // ACK retrieval
			now := tick()
			s := ackhandler.VerifRPHSnapshot(x.h)
			if s.Alarm != 0 && r.Chance(1, 2) {
				now = s.Alarm + int64(r.Range(-1, 1))
			}
			if sp < 0 && !r.Chance(1, 5) {
				continue
			}
			if x.owes && lvl == int64(protocol.Encryption1RTT) {
				continue // caller discipline: no ACK is requested before the packet that carried the confirmation is registered
			}
			x.do(hOp{kind: "getack", lvl: lvl, t: now, only: r.Chance(7, 10)})
			// the packer truncates the frame it received to the space left in the packet
			if sp >= 0 && !x.stopped && x.lastFrame[sp] != nil && lvl != int64(protocol.Encryption0RTT) && len(x.lastFrame[sp].AckRanges) >= 2 && r.Chance(1, 3) {
				x.do(hOp{kind: "trunc", lvl: lvl, t: int64(r.Pick(8, 20, 24, 28, 32, 40, 60, 1200))})
			}
		case v < 86: // the peer confirmed one of our ACKs: forget below
			if mode == 1 {
				p := next[2] + int64(r.Range(-6, 3))
				if r.Chance(1, 3) {
					p = base[2] + int64(r.Intn(8))
				}
				x.do(hOp{kind: "ignore", pn: p})
			} else if len(x.ackedLargest) > 0 {
				// connection.go: IsPotentiallyDuplicate(pn) false -> handleFrames (ACK -> IgnoreBelow) -> ReceivedPacket(pn)
				pn := choosePN(2)
				_, dup := x.do(hOp{kind: "isdup", pn: pn, lvl: int64(protocol.Encryption1RTT)})
				if dup || x.stopped {
					continue
				}
				p := x.ackedLargest[r.Intn(len(x.ackedLargest))] + 1
				x.do(hOp{kind: "ignore", pn: p})
				out, _ := x.do(recvOp(int64(protocol.Encryption1RTT), pn))
				if out != "" {
					x.stopped = true // ReceivedPacket failed: the connection is closed with an internal error
				}
			}
		case v < 90:
			x.do(hOp{kind: "alarm"})
		case v < 94:
			x.do(hOp{kind: "peek"})
		case v < 97:
			if sp >= 0 {
				x.do(hOp{kind: "isdup", pn: next[sp] - int64(r.Range(0, 4)), lvl: lvl})
			}
		default:
			if !appOnly {
				l := r.Pick(1, 1, 2, 2, 3)
				if r.Chance(1, 12) {
					l = r.Pick(0, 4, 5)
				}
				x.do(hOp{kind: "drop", lvl: l})
			}
		}
	}
	// always finish with an unconditional ACK of the application data space
	if !x.stopped && !x.owes {
		x.do(hOp{kind: "getack", lvl: int64(protocol.Encryption1RTT), t: tick(), only: false})
	}
}

// witnessEmptyAck replays the witness of C07_ack_nonempty_needs_discipline on the implementation:
// a forget threshold above everything received, then an ACK is requested although no packet was
// registered in between. connection.go never does that (notes/C07.md), so this is reported as
// INFO, not as a monitor failure; the case still ties the model to the code on this path.
func witnessEmptyAck(w *bufio.Writer, st *rphStats) {
	x := newHandlerRunner(true, st)
	x.witness = true
	defer x.finish(w)
	x.do(hOp{kind: "recv", pn: 3, ecn: 1, lvl: int64(protocol.Encryption1RTT), t: 1000, ae: true})
	x.do(hOp{kind: "ignore", pn: 10})
	x.do(hOp{kind: "getack", lvl: int64(protocol.Encryption1RTT), t: 2000, only: false})
}

func runRecvPH(w *bufio.Writer, seed uint64, n int, _ []string) {
	r := u.NewRng(seed)
	st := &rphStats{opKinds: map[string]int{}, shape: map[string]int{}}
	thorough := os.Getenv("VERIF_TIER") == "thorough"
	nHist := 0
	emit := func(ops []histOp) { nHist++; runHistCase(w, ops, st) }
	// exhaustive arrival orders over a small universe
	if thorough {
		histOrders(8, 7, emit)
	} else {
		histOrders(5, 4, emit)
	}
	nOrders := nHist
	for i := 0; i < n/3; i++ {
		emit(genHistRandom(r.Fork()))
	}
	nLong := n / 40
	if nLong < 3 {
		nLong = 3
	}
	for i := 0; i < nLong; i++ {
		emit(genHistLong(r.Fork()))
	}
	nTable := 0
	for _, ops := range rphHistTable() {
		nTable++
		emit(ops)
	}
	witnessEmptyAck(w, st)
	nTable += rphHandlerTable(w, st)
	modes := [3]int{}
	for i := 0; i < n; i++ {
		mode := 0
		switch v := i % 20; {
		case v == 19:
			mode = 2
		case v%4 == 3:
			mode = 1
		}
		modes[mode]++
		genHandlerCase(w, r.Fork(), mode, st)
	}
	nValid := emitValidCases(w, r.Fork(), st, n/4+20)
	fmt.Fprintf(w, "DIST\tvalidate+ackspacket\t%d\n", nValid)
	fmt.Fprintf(w, "DIST\tfixed-table-cases\t%d\n", nTable)
	sk := make([]string, 0, len(st.shape))
	for k := range st.shape {
		sk = append(sk, k)
	}
	sort.Strings(sk)
	for _, k := range sk {
		fmt.Fprintf(w, "DIST\tshape-%s\t%d\n", k, st.shape[k])
	}
	fmt.Fprintf(w, "DIST\thist-orders\t%d\nDIST\thist-random+long\t%d\n", nOrders, nHist-nOrders)
	fmt.Fprintf(w, "DIST\thandler-connection-like\t%d\nDIST\thandler-free\t%d\nDIST\thandler-long\t%d\n", modes[0], modes[1], modes[2])
	fmt.Fprintf(w, "DIST\tcases-with-range-limit-pruning\t%d\nDIST\tranges-cut-by-Truncate\t%d\n", st.pruned, st.truncCut)
	fmt.Fprintf(w, "DIST\tacks\t%d\nDIST\tacks-multirange\t%d\nDIST\tacks-by-alarm\t%d\nDIST\tdup-verdict-true\t%d\nDIST\tdup-forced\t%d\nDIST\tempty-acks\t%d\nDIST\tpanics\t%d\n",
		st.acks, st.acksMulti, st.alarmAcks, st.dupTrue, st.dupForced, st.emptyAck, st.panics)
	ks := make([]string, 0)
	for k := range st.opKinds {
		ks = append(ks, k)
	}
	sort.Strings(ks)
	for _, k := range ks {
		fmt.Fprintf(w, "DIST\top-%s\t%d\n", k, st.opKinds[k])
	}
	fmt.Fprintf(w, "DIST\thist-ops\t%d\n", st.histOps)
}

// emitValidCases: AckFrame.validateAckRanges and AckFrame.AcksPacket on ACK range lists the
// handler generated and on perturbed copies (swapped, adjacent, inverted, overlapping ranges).
func emitValidCases(w *bufio.Writer, r *u.Rng, st *rphStats, n int) int {
	cnt := 0
	for i := 0; i < n; i++ {
		var rs [][2]int64
		if len(st.ackSamples) > 0 && r.Chance(4, 5) {
			rs = append(rs, st.ackSamples[r.Intn(len(st.ackSamples))]...)
		} else {
			top := int64(r.Range(10, 60))
			for k := r.Range(0, 5); k > 0 && top > 3; k-- {
				l := int64(r.Range(0, 3))
				rs = append(rs, [2]int64{top - l, top})
				top -= l + int64(r.Range(2, 5))
			}
		}
		if len(rs) > 0 {
			switch r.Intn(8) {
			case 0:
				j := r.Intn(len(rs))
				rs[j][0], rs[j][1] = rs[j][1]+1, rs[j][0] // inverted
			case 1:
				if len(rs) > 1 {
					j := 1 + r.Intn(len(rs)-1)
					rs[j][1] = rs[j-1][0] - 1 // adjacent to its predecessor
				}
			case 2:
				if len(rs) > 1 {
					j := 1 + r.Intn(len(rs)-1)
					rs[j], rs[j-1] = rs[j-1], rs[j] // out of order
				}
			case 3:
				if len(rs) > 1 {
					j := 1 + r.Intn(len(rs)-1)
					rs[j][1] = rs[j-1][0] // overlapping
				}
			}
		}
		valid := false
		var acks []string
		func() {
			defer func() {
				if e := recover(); e != nil {
					fmt.Fprintf(w, "MONFAIL\trecvph/panic\tpanic in validateAckRanges/AcksPacket: %v\t%v\n", e, rs)
				}
			}()
			valid = wire.VerifRPHValidateAckRanges(rs)
			want := len(rs) > 0
			for j, x := range rs {
				if x[0] > x[1] || (j > 0 && !(rs[j-1][0] > x[1]+1)) {
					want = false
				}
			}
			if valid != want {
				fmt.Fprintf(w, "MONFAIL\trecvph/validate-wrong\tvalidateAckRanges=%v on ranges that are well-formed=%v\t%v\n", valid, want, rs)
			}
			if valid {
				lo, hi := rs[len(rs)-1][0], rs[0][1]
				for k := 0; k < 6; k++ {
					p := lo - 1 + int64(r.Intn(int(hi-lo)+3))
					a := wire.VerifAcksPacket(rs, p)
					if a != covered(rs, p) {
						fmt.Fprintf(w, "MONFAIL\trecvph/ackspacket\tAcksPacket(%d)=%v on %v\t%v\n", p, a, rs, rs)
					}
					acks = append(acks, u.Pair(u.Z(p), u.B(a)))
				}
			}
		}()
		fmt.Fprintf(w, "CASE %d %s\n", rphB2i(len(rs) > 1), u.App("ValidCase", ivs(rs), u.B(valid), u.List(acks)))
		cnt++
	}
	return cnt
}

// rphHistTable: fixed boundary histories, so that detection at the boundaries is deterministic.
func rphHistTable() [][]histOp {
	iso := func(base int64, k int, desc bool) []histOp {
		var ops []histOp
		for i := 0; i < k; i++ {
			j := i
			if desc {
				j = k - 1 - i
			}
			ops = append(ops, histOp{'r', base + 2*int64(j)})
		}
		return ops
	}
	q := func(ps ...int64) []histOp {
		var ops []histOp
		for _, p := range ps {
			ops = append(ops, histOp{'u', p})
		}
		return ops
	}
	M := rphMaxRanges
	top := int64(10 + 2*(M-1))
	var t [][]histOp
	// exactly MaxNumAckRanges isolated numbers: nothing is dropped
	t = append(t, append(iso(10, M, false), q(10, 11, 12, top, top+1)...))
	// one more: the lowest range goes; re-receiving it is accepted and dropped again at once
	t = append(t, append(append(iso(10, M+1, false), q(10, 12, top+2)...), histOp{'r', 10}, histOp{'u', 10}, histOp{'u', 12}))
	// descending arrival of Max+1 numbers: the newly created lowest range is the one that goes
	t = append(t, append(iso(10, M+1, true), q(10, 12, top+2)...))
	// the witness of C07_duplicate_lowstart_refuted
	t = append(t, append(append(iso(10, M+1, false), histOp{'r', 13}, histOp{'r', 5}), q(5, 10, 12, 13, 14)...))
	// a fill that merges at the limit, then a new top range
	t = append(t, append(append(iso(10, M, false), histOp{'r', 11}, histOp{'r', top + 2}), q(10, 11, 12, top+2)...))
	// DeleteBelow at every boundary of a range [5..9] with a second range [12..13]
	for _, p := range []int64{4, 5, 6, 9, 10, 11, 12, 13, 14} {
		ops := []histOp{{'r', 5}, {'r', 6}, {'r', 7}, {'r', 8}, {'r', 9}, {'r', 12}, {'r', 13}, {'d', p}}
		ops = append(ops, q(4, 5, 8, 9, 10, 12, 13, 14)...)
		ops = append(ops, histOp{'m', 13}, histOp{'m', 10}, histOp{'r', p - 1}, histOp{'r', p}, histOp{'d', p - 1})
		t = append(t, ops)
	}
	// the largest packet numbers
	hi := int64(1)<<62 - 1
	t = append(t, []histOp{{'r', hi}, {'r', hi - 2}, {'u', hi - 1}, {'r', hi - 1}, {'u', hi}, {'m', hi}, {'d', hi}, {'u', hi - 1}, {'r', hi}})
	// HighestMissingUpTo around gaps and the forget threshold
	t = append(t, []histOp{{'r', 0}, {'r', 1}, {'r', 4}, {'r', 8}, {'m', 0}, {'m', 1}, {'m', 2}, {'m', 3}, {'m', 4}, {'m', 7}, {'m', 8}, {'m', 9},
		{'d', 3}, {'m', 2}, {'m', 3}, {'m', 4}, {'m', 7}, {'d', 4}, {'m', 4}, {'m', 5}})
	return t
}

// rphHandlerTable: fixed handler histories for each cause of an immediate ACK, the alarm boundary,
// Truncate and 0-RTT/1-RTT sharing one space.
func rphHandlerTable(w *bufio.Writer, st *rphStats) int {
	one := int64(protocol.Encryption1RTT)
	zero := int64(protocol.Encryption0RTT)
	ini := int64(protocol.EncryptionInitial)
	hs := int64(protocol.EncryptionHandshake)
	const ms = int64(1000000)
	mad := rphMaxDelay
	rcv := func(pn, lvl, t int64, ae bool, ecn protocol.ECN) hOp {
		return hOp{kind: "recv", pn: pn, ecn: int64(ecn), lvl: lvl, t: t, ae: ae}
	}
	get := func(lvl, now int64, only bool) hOp { return hOp{kind: "getack", lvl: lvl, t: now, only: only} }
	peek := hOp{kind: "peek"}
	tables := [][]hOp{
		// lone packet: alarm; GetAckFrame just before, at and after the alarm
		{rcv(0, one, 5*ms, true, protocol.ECNNon), peek, {kind: "alarm"}, get(one, 5*ms+mad-1, true), get(one, 5*ms+mad, true)},
		{rcv(0, one, 5*ms, true, protocol.ECNNon), get(one, 5*ms+mad+1, true), peek, {kind: "alarm"}},
		// second ack-eliciting packet queues
		{rcv(0, one, ms, true, protocol.ECNNon), rcv(1, one, 2*ms, true, protocol.ECNNon), peek, get(one, 2*ms, true)},
		// non-ack-eliciting packets never arm anything
		{rcv(0, one, ms, false, protocol.ECNNon), rcv(1, one, 2*ms, false, protocol.ECNNon), peek, {kind: "alarm"}, get(one, 100*ms, true), get(one, 100*ms, false)},
		// ECN-CE queues
		{rcv(0, one, ms, true, protocol.ECNCE), peek, get(one, ms, true)},
		// reveals a gap above the last ACK
		{rcv(0, one, ms, true, protocol.ECNNon), get(one, 2*ms, false), rcv(2, one, 3*ms, true, protocol.ECNNon), peek, get(one, 3*ms, true)},
		// fills a gap of the last ACK
		{rcv(0, one, ms, true, protocol.ECNNon), rcv(2, one, ms, true, protocol.ECNNon), get(one, 2*ms, false), rcv(1, one, 3*ms, true, protocol.ECNNon), peek, get(one, 3*ms, true)},
		// no gap: the next packet after an ACK only arms the alarm
		{rcv(0, one, ms, true, protocol.ECNNon), get(one, 2*ms, false), rcv(1, one, 3*ms, true, protocol.ECNNon), peek, {kind: "alarm"}},
		// Truncate to one range, then a packet in the cut part
		{rcv(0, one, ms, true, protocol.ECNNon), rcv(2, one, ms, true, protocol.ECNNon), rcv(4, one, ms, true, protocol.ECNNon), get(one, 2*ms, false),
			{kind: "trunc", lvl: one, t: 12}, rcv(1, one, 3*ms, true, protocol.ECNNon), peek, rcv(3, one, 3*ms, false, protocol.ECNNon), peek},
		// 0-RTT and 1-RTT share one space; 0-RTT above the lowest 1-RTT number is refused
		{rcv(0, zero, ms, true, protocol.ECNNon), rcv(1, zero, ms, true, protocol.ECNNon), rcv(3, one, 2*ms, true, protocol.ECNNon),
			{kind: "isdup", pn: 1, lvl: one}, {kind: "isdup", pn: 3, lvl: zero}, rcv(2, zero, 3*ms, true, protocol.ECNNon), rcv(4, zero, 3*ms, true, protocol.ECNNon), get(one, 4*ms, false), get(zero, 4*ms, false)},
		// Initial / Handshake: immediately, independent spaces, dropped spaces
		{rcv(0, ini, ms, true, protocol.ECT0), get(ini, ms, true), rcv(0, hs, 2*ms, true, protocol.ECT1), get(hs, 2*ms, true), get(one, 2*ms, false),
			{kind: "drop", lvl: ini}, get(ini, 3*ms, false), rcv(1, hs, 3*ms, false, protocol.ECNNon), get(hs, 3*ms, false), {kind: "drop", lvl: hs}, rcv(2, hs, 4*ms, true, protocol.ECNNon), get(hs, 4*ms, false)},
		// forget threshold exactly at / next to a received number
		{rcv(3, one, ms, true, protocol.ECNNon), rcv(4, one, ms, true, protocol.ECNNon), get(one, 2*ms, false), {kind: "isdup", pn: 5, lvl: one}, {kind: "ignore", pn: 4}, rcv(5, one, 3*ms, true, protocol.ECNNon),
			{kind: "isdup", pn: 3, lvl: one}, {kind: "isdup", pn: 4, lvl: one}, get(one, 4*ms, false)},
	}
	for _, ops := range tables {
		x := newHandlerRunner(false, st)
		for _, o := range ops {
			if x.stopped {
				break
			}
			if o.kind == "trunc" && x.lastFrame[2] == nil {
				continue
			}
			x.do(o)
		}
		x.finish(w)
	}
	return len(tables)
}
