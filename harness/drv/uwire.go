//go:build verif

package main

// Unit `uwire` (C09, round 3): the frame payload of every Initial packet the REAL uPacketPacker
// produces — all datagrams of the first flight and retransmissions after losses — for each kind
// of in-tree frame builder, under scripted randomness. Model-independent monitors judge the
// property on the wire (true bytes at absolute offsets, the first flight covers the ClientHello
// exactly, a retransmission carries exactly the ranges it took); every packet that went through
// MarshalInitialPacketPayload is also replayed by the model UFrames.OnWire.marshal.

import (
	"bufio"
	"fmt"
	"sort"
	"strings"

	quic "github.com/refraction-networking/uquic"
	u "github.com/refraction-networking/uquic/internal/verifutil"
)

func init() { units["uwire"] = runUWire }

func uwireRanges(rs []quic.VerifRange) string {
	xs := make([]string, len(rs))
	for i, r := range rs {
		xs[i] = u.Pair(u.Z(r.Off), u.Z(r.Len))
	}
	return u.List(xs)
}

// uwirePacketCheck: the packet's CRYPTO frames carry true bytes and cover exactly the ranges
// the packer registered for it.
func uwirePacketCheck(w *bufio.Writer, pkt *quic.VerifRetxPacket, hello []byte, detail func() string) bool {
	fs, err := readFrames(pkt.Wire)
	if err != nil {
		monfail(w, "uwire/packet/parse", "Initial packet payload is not PADDING/PING/CRYPTO: "+err.Error(), detail())
		return false
	}
	want := make([]int, len(hello))
	for _, r := range pkt.Frames {
		for i := r.Off; i < r.Off+r.Len && i < int64(len(hello)); i++ {
			want[i]++
		}
	}
	got := make([]int, len(hello))
	for _, f := range fs {
		if f.typ != 6 {
			continue
		}
		if f.off > uint64(len(hello)) || uint64(len(f.data)) > uint64(len(hello))-f.off {
			monfail(w, "uwire/packet/range", fmt.Sprintf("CRYPTO [%d,+%d) reaches outside the %d-byte ClientHello", f.off, len(f.data), len(hello)), detail())
			return false
		}
		for k, b := range f.data {
			if hello[int(f.off)+k] != b {
				monfail(w, "uwire/packet/bytes", fmt.Sprintf("CRYPTO offset %d byte %d is %02x, ClientHello has %02x", f.off, k, b, hello[int(f.off)+k]), detail())
				return false
			}
			got[int(f.off)+k]++
		}
	}
	for i := range want {
		if (want[i] > 0) != (got[i] > 0) {
			monfail(w, "uwire/packet/cover", fmt.Sprintf("byte %d: the packer took it %d times for this packet, the wire carries it %d times", i, want[i], got[i]), detail())
			return false
		}
	}
	return true
}

func runUWire(w *bufio.Writer, seed uint64, n int, _ []string) {
	seedSetup()
	if !seedCheck(w) {
		return
	}
	root := u.NewRng(u.NewRng(seed).U64())
	dist := map[string]int{}
	for ci := 0; ci < n; ci++ {
		r := root.Fork()
		hl := r.Range(1, 700)
		if r.Intn(4) == 0 {
			hl = r.Range(700, 2600)
		}
		hello := testData(r, hl)
		var ips quic.InitialPacketSpec
		var sb, kind string
		maxFrames := 16
		switch r.Intn(7) {
		case 0:
			kind, sb = "nil", "SBPass"
		case 1:
			kind, sb = "empty", "SBPass"
			ips.FrameBuilder = quic.QUICFrames{}
		case 2: // a layout that tiles every slice
			kind = "frames"
			qfs := quic.QUICFrames{quic.QUICFrameCrypto{Offset: 0, Length: 0}}
			for j := r.Intn(3); j > 0; j-- {
				var f quic.QUICFrame = quic.QUICFramePing{}
				if r.Bool() {
					f = quic.QUICFramePadding{Length: r.Intn(9)}
				}
				at := r.Intn(len(qfs) + 1)
				qfs = append(qfs[:at], append(quic.QUICFrames{f}, qfs[at:]...)...)
			}
			ips.FrameBuilder = qfs
			sb = u.App("SBFrames", framesTerm(qfs))
		case 3: // a layout with a fixed cut: applied where it fits, packets sent as packed where not
			kind = "frames-cut"
			k := r.Range(1, 400)
			qfs := quic.QUICFrames{quic.QUICFrameCrypto{Offset: k, Length: 0}, quic.QUICFramePing{}, quic.QUICFrameCrypto{Offset: 0, Length: k}}
			ips.FrameBuilder = qfs
			sb = u.App("SBFrames", framesTerm(qfs))
		case 4:
			kind = "random"
			g, _ := genRF(r, 200)
			g.MaxPING, g.MaxCRYPTO = max(g.MaxPING, g.MinPING), max(g.MaxCRYPTO, max(g.MinCRYPTO, 1))
			g.MinCRYPTO = max(g.MinCRYPTO, 1)
			g.MinPADDING = max(g.MinPADDING, 1)
			g.MaxPADDING = max(g.MaxPADDING, g.MinPADDING)
			g.Length = uint16(r.Pick(0, 0, 300, 900, 1200))
			ips.FrameBuilder = &g
			sb = u.App("SBRandom", u.List([]string{rfTerm(g)}))
			maxFrames += 6 * (int(g.MaxPING) + int(g.MaxCRYPTO) + int(g.MaxPADDING))
		case 5:
			kind = "multi"
			md := &quic.QUICMultiDatagramFrames{}
			var ts []string
			for j := r.Range(1, 3); j > 0; j-- {
				g, _ := genRF(r, 200)
				if r.Intn(12) != 0 { // mostly valid; an invalid later entry is the late-config-error class
					g.MaxPING, g.MaxCRYPTO = max(g.MaxPING, g.MinPING), max(g.MaxCRYPTO, max(g.MinCRYPTO, 1))
					g.MinCRYPTO = max(g.MinCRYPTO, 1)
					g.MinPADDING = max(g.MinPADDING, 1)
					g.MaxPADDING = max(g.MaxPADDING, g.MinPADDING)
				}
				g.Length = uint16(r.Pick(0, 0, 300, 900, 1200))
				md.PerDatagram = append(md.PerDatagram, g)
				ts = append(ts, rfTerm(g))
				maxFrames += 4 * (int(g.MaxPING) + int(g.MaxCRYPTO) + int(g.MaxPADDING))
			}
			ips.FrameBuilder = md
			sb = u.App("SBRandom", u.List(ts))
		default:
			kind, sb = "flight", "SBFlight"
			ndg := r.Range(1, 3)
			cover := genCover(r, hl, ndg)
			ff := &quic.QUICFlightFrames{}
			for _, ps := range cover {
				var qfs quic.QUICFrames
				for _, p := range ps {
					o, l := addrForms(r, p.s, p.e, hl)
					qfs = append(qfs, quic.QUICFrameCrypto{Offset: o, Length: l})
				}
				if r.Bool() {
					qfs = append(qfs, quic.QUICFramePing{})
				}
				ff.Datagrams = append(ff.Datagrams, qfs)
			}
			ips.FrameBuilder = ff
		}
		if ci == 0 {
			// fixed scenario: a QUICMultiDatagramFrames whose SECOND entry has inverted bounds, with a
			// ClientHello of two datagrams
			kind = "multi"
			md := &quic.QUICMultiDatagramFrames{PerDatagram: []quic.QUICRandomFrames{
				{MinPING: 0, MaxPING: 2, MinCRYPTO: 1, MaxCRYPTO: 3},
				{MinPING: 3, MaxPING: 1, MinCRYPTO: 1, MaxCRYPTO: 3}}}
			ips = quic.InitialPacketSpec{FrameBuilder: md}
			sb = u.App("SBRandom", u.List([]string{rfTerm(md.PerDatagram[0]), rfTerm(md.PerDatagram[1])}))
			hl = 2000
			hello = testData(r, hl)
		}
		if kind != "flight" && ci != 0 && r.Intn(3) == 0 {
			ips.InitialPackets = []quic.InitialPacketPlan{{CryptoLength: int(r.Pick(60, 150, 300, 500))}}
		}
		dist["builder:"+kind]++
		sp := &quic.QUICSpec{InitialPacketSpec: ips}
		mseed := int64(r.U64() >> 1)
		var pkts []string
		var firstFlight [][]byte
		sentAny := false
		detailBase := fmt.Sprintf("builder=%s %+v plans=%+v hello=%x mseed=%d", kind, ips.FrameBuilder, ips.InitialPackets, hello, mseed)
		var rx *quic.VerifRetx
		var pns []int64
		broken := false
		// one Pack call under the script; logs the case entry
		pack := func(probe, ping, first bool) *quic.VerifRetxPacket {
			planned := rx.FlightPlanned()
			idx := rx.VerifUFramesDatagramIdx()
			var pkt *quic.VerifRetxPacket
			var err error
			var pan any
			pseed := int64(r.U64() >> 1)
			consumed, pan2 := withScript(r, pseed, func() { pkt, err, pan = rx.Pack(probe, ping) })
			if pan == nil {
				pan = pan2
			}
			det := func() string { return detailBase + fmt.Sprintf(" rand=%x", consumed) }
			switch {
			case pan != nil:
				monfail(w, "uframes/panic", fmt.Sprintf("packing an Initial packet panicked: %v", pan), det())
				broken = true
				return nil
			case err != nil:
				dist["pack-error"]++
				c := errClass(err)
				if sentAny && first && c != 6 {
					// this packer was built without going through dial: would the real dial have refused the spec?
					if rej, msg := quic.VerifUFramesDialRejects(sp); !rej {
						monfail(w, "uwire/late-config-error", "the configuration is rejected only after part of the ClientHello went out ("+err.Error()+"); UTransport.Dial does not refuse it: "+msg, det())
					} else {
						dist["late-error-refused-at-dial"]++
					}
				}
				broken = true
				return nil
			case pkt == nil:
				return nil
			}
			sentAny = true
			pns = append(pns, pkt.PN)
			if !uwirePacketCheck(w, pkt, hello, det) {
				broken = true
			}
			// planned first-flight payloads do not go through MarshalInitialPacketPayload
			plannedPayload := kind == "flight" && first
			if !plannedPayload {
				us := "[]"
				if kind == "random" || kind == "multi" {
					nf := maxFrames
					if fr, e := readFrames(pkt.Wire); e == nil && len(fr) < nf {
						nf = len(fr)
					}
					us = u.ZList(u32Stream(pseed, nf+8))
				}
				pkts = append(pkts, u.App("WPkt", u.B(planned), u.Z(int64(idx)), uwireRanges(pkt.Frames), u.B(len(pkt.Frames) == 0), u.Hex(consumed), us, u.Hex(pkt.Wire)))
			}
			return pkt
		}
		// math/rand is seeded once for the connection; crypto/rand is scripted per call
		func() {
			defer func() {
				if p := recover(); p != nil {
					monfail(w, "uframes/panic", fmt.Sprintf("uwire: %v", p), detailBase)
					broken = true
				}
			}()
			rx = quic.NewVerifRetx(sp, hello, 1252)
		}()
		if rx == nil {
			continue
		}
		// ---- first flight ----
		for k := 0; k < 12 && !broken; k++ {
			pkt := pack(false, false, true)
			if pkt == nil {
				break
			}
			firstFlight = append(firstFlight, pkt.Wire)
		}
		if !broken {
			if msg, _ := checkCover(firstFlight, hello, 0, kind != "flight"); msg != "" && len(firstFlight) < 12 {
				monfail(w, "uwire/flight/cover", "the first flight does not carry the ClientHello exactly: "+msg, detailBase)
			}
			dist["flight-datagrams"] += len(firstFlight)
		}
		// ---- losses, acknowledgements, retransmissions ----
		for step := r.Intn(10); step > 0 && !broken && len(pns) > 0; step-- {
			switch r.Intn(4) {
			case 0:
				rx.Ack(pns[r.Intn(len(pns))])
			case 1, 2:
				rx.Lose(pns[r.Intn(len(pns))])
				if r.Bool() {
					rx.Lose(pns[r.Intn(len(pns))])
				}
			}
			if pkt := pack(r.Intn(3) == 0, r.Bool(), false); pkt != nil {
				dist["retx-packets"]++
			}
		}
		if len(pkts) > 0 {
			nt := 0
			if !broken {
				nt = 1
			}
			fmt.Fprintf(w, "CASE %d %s\n", nt, u.App("WireCase", sb, u.Hex(hello), u.List(pkts)))
		}
	}
	// ---- what UTransport.Dial says about randomizing builders (model: OnWire.dial_check) ----
	for i := 0; i < n/3+6; i++ {
		r := root.Fork()
		var fb quic.QUICFrameBuilder
		var ts []string
		if r.Intn(3) == 0 {
			g, _ := genRF(r, 100)
			fb = &g
			ts = []string{rfTerm(g)}
		} else {
			md := &quic.QUICMultiDatagramFrames{}
			for j := r.Intn(4); j > 0; j-- {
				g, _ := genRF(r, 100)
				if r.Intn(3) != 0 {
					g.MaxPING, g.MaxCRYPTO = max(g.MaxPING, g.MinPING), max(g.MaxCRYPTO, max(g.MinCRYPTO, 1))
					g.MinCRYPTO = max(g.MinCRYPTO, 1)
					g.MinPADDING = max(g.MinPADDING, 1)
					g.MaxPADDING = max(g.MaxPADDING, g.MinPADDING)
				}
				md.PerDatagram = append(md.PerDatagram, g)
				ts = append(ts, rfTerm(g))
			}
			fb = md
		}
		rej, msg := quic.VerifUFramesDialRejects(&quic.QUICSpec{InitialPacketSpec: quic.InitialPacketSpec{FrameBuilder: fb}})
		cls := int64(0)
		if rej {
			cls = errClass(fmt.Errorf("%s", msg))
		}
		dist[fmt.Sprintf("dial-class-%d", cls)]++
		nt := 0
		if rej {
			nt = 1
		}
		fmt.Fprintf(w, "CASE %d %s\n", nt, u.App("DialCase", u.List(ts), u.Z(cls)))
	}
	flushMonfail(w)
	keys := make([]string, 0, len(dist))
	for k := range dist {
		keys = append(keys, k)
	}
	sort.Strings(keys)
	for _, k := range keys {
		fmt.Fprintf(w, "DIST\t%s\t%d\n", k, dist[k])
	}
	_ = strings.TrimSpace
}
