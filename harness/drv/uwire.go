//go:build verif

package main

// Unit `uwire` (C09, round 3): the frame payload of every Initial packet the REAL uPacketPacker
// produces — all datagrams of the first flight and retransmissions after losses — for each kind
// of in-tree frame builder, under scripted randomness. Model-independent monitors judge the
// property on the wire (true bytes at absolute offsets, the first flight covers the ClientHello
// exactly, a retransmission carries exactly the ranges it took); every packet that went through
// MarshalInitialPacketPayload is also replayed by the model UFrames.OnWire.marshal.

import (
	"bufio"
	"fmt"
	"os"
	"sort"
	"strings"

	quic "github.com/refraction-networking/uquic"
	u "github.com/refraction-networking/uquic/internal/verifutil"
)

func init() { units["uwire"] = runUWire }

func uwireRanges(rs []quic.VerifRange) string {
	xs := make([]string, len(rs))
	for i, r := range rs {
		xs[i] = u.Pair(u.Z(r.Off), u.Z(r.Len))
	}
	return u.List(xs)
}

// uwirePacketCheck: the packet's CRYPTO frames carry true bytes and cover exactly the ranges
// the packer registered for it.
func uwirePacketCheck(w *bufio.Writer, pkt *quic.VerifRetxPacket, hello []byte, detail func() string) bool {
	fs, err := readFrames(pkt.Wire)
	if err != nil {
		monfail(w, "uwire/packet/parse", "Initial packet payload is not PADDING/PING/CRYPTO: "+err.Error(), detail())
		return false
	}
	want := make([]int, len(hello))
	for _, r := range pkt.Frames {
		for i := r.Off; i < r.Off+r.Len && i < int64(len(hello)); i++ {
			want[i]++
		}
	}
	got := make([]int, len(hello))
	for _, f := range fs {
		if f.typ != 6 {
			continue
		}
		if f.off > uint64(len(hello)) || uint64(len(f.data)) > uint64(len(hello))-f.off {
			monfail(w, "uwire/packet/range", fmt.Sprintf("CRYPTO [%d,+%d) reaches outside the %d-byte ClientHello", f.off, len(f.data), len(hello)), detail())
			return false
		}
		for k, b := range f.data {
			if hello[int(f.off)+k] != b {
				monfail(w, "uwire/packet/bytes", fmt.Sprintf("CRYPTO offset %d byte %d is %02x, ClientHello has %02x", f.off, k, b, hello[int(f.off)+k]), detail())
				return false
			}
			got[int(f.off)+k]++
		}
	}
	for i := range want {
		if (want[i] > 0) != (got[i] > 0) {
			monfail(w, "uwire/packet/cover", fmt.Sprintf("byte %d: the packer took it %d times for this packet, the wire carries it %d times", i, want[i], got[i]), detail())
			return false
		}
	}
	return true
}

func runUWire(w *bufio.Writer, seed uint64, n int, _ []string) {
	seedSetup()
	if !seedCheck(w) {
		return
	}
	root := u.NewRng(u.NewRng(seed).U64())
	dist := map[string]int{}
	for ci := 0; ci < n; ci++ {
		r := root.Fork()
		hl := r.Range(1, 700)
		if r.Intn(8) == 0 || os.Getenv("VERIF_TIER") == "thorough" && r.Intn(3) == 0 {
			hl = r.Range(700, 2600)
		}
		hello := testData(r, hl)
		var ips quic.InitialPacketSpec
		var sb, kind string
		maxFrames := 16
		switch r.Intn(7) {
		case 0:
			kind, sb = "nil", "SBPass"
		case 1:
			kind, sb = "empty", "SBPass"
			ips.FrameBuilder = quic.QUICFrames{}
		case 2: // a layout that tiles every slice
			kind = "frames"
			qfs := quic.QUICFrames{quic.QUICFrameCrypto{Offset: 0, Length: 0}}
			for j := r.Intn(3); j > 0; j-- {
				var f quic.QUICFrame = quic.QUICFramePing{}
				if r.Bool() {
					f = quic.QUICFramePadding{Length: r.Intn(9)}
				}
				at := r.Intn(len(qfs) + 1)
				qfs = append(qfs[:at], append(quic.QUICFrames{f}, qfs[at:]...)...)
			}
			ips.FrameBuilder = qfs
			sb = u.App("SBFrames", framesTerm(qfs))
		case 3: // a layout with a fixed cut: applied where it fits, packets sent as packed where not
			kind = "frames-cut"
			k := r.Range(1, 400)
			qfs := quic.QUICFrames{quic.QUICFrameCrypto{Offset: k, Length: 0}, quic.QUICFramePing{}, quic.QUICFrameCrypto{Offset: 0, Length: k}}
			ips.FrameBuilder = qfs
			sb = u.App("SBFrames", framesTerm(qfs))
		case 4:
			kind = "random"
			g, _ := genRF(r, 200)
			g.MaxPING, g.MaxCRYPTO = max(g.MaxPING, g.MinPING), max(g.MaxCRYPTO, max(g.MinCRYPTO, 1))
			g.MinCRYPTO = max(g.MinCRYPTO, 1)
			g.MinPADDING = max(g.MinPADDING, 1)
			g.MaxPADDING = max(g.MaxPADDING, g.MinPADDING)
			g.Length = uint16(r.Pick(0, 0, 300, 900, 1200))
			ips.FrameBuilder = &g
			sb = u.App("SBRandom", u.List([]string{rfTerm(g)}))
			maxFrames += 6 * (int(g.MaxPING) + int(g.MaxCRYPTO) + int(g.MaxPADDING))
		case 5:
			kind = "multi"
			md := &quic.QUICMultiDatagramFrames{}
			var ts []string
			for j := r.Range(1, 3); j > 0; j-- {
				g, _ := genRF(r, 200)
				if r.Intn(12) != 0 { // mostly valid; an invalid later entry is the late-config-error class
					g.MaxPING, g.MaxCRYPTO = max(g.MaxPING, g.MinPING), max(g.MaxCRYPTO, max(g.MinCRYPTO, 1))
					g.MinCRYPTO = max(g.MinCRYPTO, 1)
					g.MinPADDING = max(g.MinPADDING, 1)
					g.MaxPADDING = max(g.MaxPADDING, g.MinPADDING)
				}
				g.Length = uint16(r.Pick(0, 0, 300, 900, 1200))
				md.PerDatagram = append(md.PerDatagram, g)
				ts = append(ts, rfTerm(g))
				maxFrames += 4 * (int(g.MaxPING) + int(g.MaxCRYPTO) + int(g.MaxPADDING))
			}
			ips.FrameBuilder = md
			sb = u.App("SBRandom", u.List(ts))
		default:
			kind, sb = "flight", "SBFlight"
			ndg := r.Range(1, 3)
			cover := genCover(r, hl, ndg)
			ff := &quic.QUICFlightFrames{}
			for _, ps := range cover {
				var qfs quic.QUICFrames
				for _, p := range ps {
					o, l := addrForms(r, p.s, p.e, hl)
					qfs = append(qfs, quic.QUICFrameCrypto{Offset: o, Length: l})
				}
				if r.Bool() {
					qfs = append(qfs, quic.QUICFramePing{})
				}
				ff.Datagrams = append(ff.Datagrams, qfs)
			}
			ips.FrameBuilder = ff
		}
		if ci == 0 {
			// fixed scenario: a QUICMultiDatagramFrames whose SECOND entry has inverted bounds, with a
			// ClientHello of two datagrams
			kind = "multi"
			md := &quic.QUICMultiDatagramFrames{PerDatagram: []quic.QUICRandomFrames{
				{MinPING: 0, MaxPING: 2, MinCRYPTO: 1, MaxCRYPTO: 3},
				{MinPING: 3, MaxPING: 1, MinCRYPTO: 1, MaxCRYPTO: 3}}}
			ips = quic.InitialPacketSpec{FrameBuilder: md}
			sb = u.App("SBRandom", u.List([]string{rfTerm(md.PerDatagram[0]), rfTerm(md.PerDatagram[1])}))
			hl = 2000
			hello = testData(r, hl)
		}
		if kind != "flight" && ci != 0 && r.Intn(3) == 0 {
			ips.InitialPackets = []quic.InitialPacketPlan{{CryptoLength: int(r.Pick(60, 150, 300, 500))}}
		}
		dist["builder:"+kind]++
		sp := &quic.QUICSpec{InitialPacketSpec: ips}
		mseed := int64(r.U64() >> 1)
		var pkts []string
		var firstFlight [][]byte
		sentAny := false
		detailBase := fmt.Sprintf("builder=%s %+v plans=%+v hello=%x mseed=%d", kind, ips.FrameBuilder, ips.InitialPackets, hello, mseed)
		var rx *quic.VerifRetx
		var pns []int64
		pktFrames := map[int64][]quic.VerifRange{}
		ackedCov := make([]bool, hl)
		broken := false
		// one Pack call under the script; logs the case entry
		pack := func(probe, ping, first bool) *quic.VerifRetxPacket {
			planned := rx.FlightPlanned()
			idx := rx.VerifUFramesDatagramIdx()
			var pkt *quic.VerifRetxPacket
			var err error
			var pan any
			pseed := int64(r.U64() >> 1)
			consumed, pan2 := withScript(r, pseed, func() { pkt, err, pan = rx.Pack(probe, ping) })
			if pan == nil {
				pan = pan2
			}
			det := func() string { return detailBase + fmt.Sprintf(" rand=%x", consumed) }
			switch {
			case pan != nil:
				monfail(w, "uframes/panic", fmt.Sprintf("packing an Initial packet panicked: %v", pan), det())
				broken = true
				return nil
			case err != nil:
				dist["pack-error"]++
				c := errClass(err)
				if sentAny && first && c != 6 {
					// this packer was built without going through dial: would the real dial have refused the spec?
					if rej, msg := quic.VerifUFramesDialRejects(sp); !rej {
						monfail(w, "uwire/late-config-error", "the configuration is rejected only after part of the ClientHello went out ("+err.Error()+"); UTransport.Dial does not refuse it: "+msg, det())
					} else {
						dist["late-error-refused-at-dial"]++
					}
				}
				broken = true
				return nil
			case pkt == nil:
				return nil
			}
			sentAny = true
			pns = append(pns, pkt.PN)
			pktFrames[pkt.PN] = pkt.Frames
			if !uwirePacketCheck(w, pkt, hello, det) {
				broken = true
			}
			// planned first-flight payloads do not go through MarshalInitialPacketPayload
			plannedPayload := kind == "flight" && first
			if !plannedPayload {
				us := "[]"
				if kind == "random" || kind == "multi" {
					nf := maxFrames
					if fr, e := readFrames(pkt.Wire); e == nil && len(fr) < nf {
						nf = len(fr)
					}
					us = u.ZList(u32Stream(pseed, nf+8))
				}
				pkts = append(pkts, u.App("WPkt", u.B(planned), u.Z(int64(idx)), uwireRanges(pkt.Frames), u.B(len(pkt.Frames) == 0), u.Hex(consumed), us, u.Hex(pkt.Wire)))
			}
			return pkt
		}
		// math/rand is seeded once for the connection; crypto/rand is scripted per call
		func() {
			defer func() {
				if p := recover(); p != nil {
					monfail(w, "uframes/panic", fmt.Sprintf("uwire: %v", p), detailBase)
					broken = true
				}
			}()
			rx = quic.NewVerifRetx(sp, hello, 1252)
		}()
		if rx == nil {
			continue
		}
		// ---- first flight ----
		for k := 0; k < 12 && !broken; k++ {
			pkt := pack(false, false, true)
			if pkt == nil {
				break
			}
			firstFlight = append(firstFlight, pkt.Wire)
		}
		if !broken {
			if msg, _ := checkCover(firstFlight, hello, 0, kind != "flight"); msg != "" && len(firstFlight) < 12 {
				monfail(w, "uwire/flight/cover", "the first flight does not carry the ClientHello exactly: "+msg, detailBase)
			}
			dist["flight-datagrams"] += len(firstFlight)
		}
		// ---- losses, acknowledgements, retransmissions ----
		for step := r.Intn(10); step > 0 && !broken && len(pns) > 0; step-- {
			switch r.Intn(4) {
			case 0:
				if pn := pns[r.Intn(len(pns))]; rx.Ack(pn) {
					for _, fr := range pktFrames[pn] {
						for b := fr.Off; b < fr.Off+fr.Len && b < int64(hl); b++ {
							ackedCov[b] = true
						}
					}
				}
			case 1, 2:
				rx.Lose(pns[r.Intn(len(pns))])
				if r.Bool() {
					rx.Lose(pns[r.Intn(len(pns))])
				}
			}
			if pkt := pack(r.Intn(3) == 0, r.Bool(), false); pkt != nil {
				dist["retx-packets"]++
			}
		}
		// ---- everything still outstanding is lost (PTO): retransmit until the queue is empty ----
		if !broken && len(firstFlight) > 0 && len(firstFlight) < 12 {
			for _, pn := range rx.Outstanding() {
				rx.Lose(pn)
			}
			cov := append([]bool{}, ackedCov...)
			for k := 0; k < 40 && !broken; k++ {
				pkt := pack(k%3 == 2, false, false)
				if pkt == nil {
					break
				}
				dist["drain-packets"]++
				if fs, err := readFrames(pkt.Wire); err == nil {
					for _, f := range fs {
						for b := 0; f.typ == 6 && b < len(f.data) && int(f.off)+b < hl; b++ {
							cov[int(f.off)+b] = true
						}
					}
				}
			}
			for b, c := range cov {
				if !c && !broken {
					monfail(w, "uwire/retx/incomplete", fmt.Sprintf("after losing every outstanding Initial packet and retransmitting until nothing is queued, byte %d of %d is neither acknowledged nor re-sent", b, hl), detailBase)
					break
				}
			}
		}
		if len(pkts) > 0 {
			nt := 0
			if !broken {
				nt = 1
			}
			fmt.Fprintf(w, "CASE %d %s\n", nt, u.App("WireCase", sb, u.Hex(hello), u.List(pkts)))
		}
	}
	// ---- planInitialFlight through the real packer (model: OnWire.plan_flight) ----
	uwirePlans(w, root, n, dist)
	// ---- what UTransport.Dial says about randomizing builders (model: OnWire.dial_check) ----
	for i := 0; i < n/3+6; i++ {
		r := root.Fork()
		var fb quic.QUICFrameBuilder
		var ts []string
		if r.Intn(3) == 0 {
			g, _ := genRF(r, 100)
			fb = &g
			ts = []string{rfTerm(g)}
		} else {
			md := &quic.QUICMultiDatagramFrames{}
			for j := r.Intn(4); j > 0; j-- {
				g, _ := genRF(r, 100)
				if r.Intn(3) != 0 {
					g.MaxPING, g.MaxCRYPTO = max(g.MaxPING, g.MinPING), max(g.MaxCRYPTO, max(g.MinCRYPTO, 1))
					g.MinCRYPTO = max(g.MinCRYPTO, 1)
					g.MinPADDING = max(g.MinPADDING, 1)
					g.MaxPADDING = max(g.MaxPADDING, g.MinPADDING)
				}
				md.PerDatagram = append(md.PerDatagram, g)
				ts = append(ts, rfTerm(g))
			}
			fb = md
		}
		rej, msg := quic.VerifUFramesDialRejects(&quic.QUICSpec{InitialPacketSpec: quic.InitialPacketSpec{FrameBuilder: fb}})
		cls := int64(0)
		if rej {
			cls = errClass(fmt.Errorf("%s", msg))
		}
		dist[fmt.Sprintf("dial-class-%d", cls)]++
		nt := 0
		if rej {
			nt = 1
		}
		fmt.Fprintf(w, "CASE %d %s\n", nt, u.App("DialCase", u.List(ts), u.Z(cls)))
	}
	flushMonfail(w)
	keys := make([]string, 0, len(dist))
	for k := range dist {
		keys = append(keys, k)
	}
	sort.Strings(keys)
	for _, k := range keys {
		fmt.Fprintf(w, "DIST\t%s\t%d\n", k, dist[k])
	}
	_ = strings.TrimSpace
}

// uwirePlan is one flight plan in both notations.
type uwirePlan struct {
	fb   quic.QUICFlightFrameBuilder
	term string
	desc string
}

func uwireFF(dgs ...quic.QUICFrames) uwirePlan {
	ts := make([]string, len(dgs))
	for i, d := range dgs {
		ts[i] = framesTerm(d)
	}
	return uwirePlan{fb: &quic.QUICFlightFrames{Datagrams: dgs}, term: u.App("FBFrames", u.List(ts)), desc: fmt.Sprintf("QUICFlightFrames%+v", dgs)}
}

func uwireRFF(dgs ...quic.QUICRandomFlightDatagram) uwirePlan {
	ts := make([]string, len(dgs))
	for i, d := range dgs {
		rs := make([]string, len(d.CryptoRanges))
		for j, cr := range d.CryptoRanges {
			rs[j] = u.Pair(u.Z(int64(cr.Offset)), u.Z(int64(cr.Length)))
		}
		ts[i] = u.Pair(u.List(rs), rfTerm(d.Frames))
	}
	return uwirePlan{fb: &quic.QUICRandomFlightFrames{PerDatagram: dgs}, term: u.App("FBRandom", u.List(ts)), desc: fmt.Sprintf("QUICRandomFlightFrames%+v", dgs)}
}

func uwireC(o, l int) quic.QUICFrame { return quic.QUICFrameCrypto{Offset: o, Length: l} }

// uwirePlans: every plan goes through the REAL planInitialFlight (first PackCoalescedPacket of a
// connection whose spec has a flight builder): budgets from the real flightBudgets, BuildFlight,
// validateInitialFlight, then packPlannedInitial for each payload. Monitors: an accepted plan's
// datagrams carry the ClientHello completely at true offsets; a rejected plan sends nothing,
// now or later.
func uwirePlans(w *bufio.Writer, root *u.Rng, n int, dist map[string]int) {
	R := func(o, l int) quic.QUICCryptoRange { return quic.QUICCryptoRange{Offset: o, Length: l} }
	z := quic.QUICRandomFrames{}
	fixed := []struct {
		hl   int
		plan uwirePlan
	}{
		// the shape of seeded change C09-e: 62 bytes sent twice, byte 1200 never
		{1600, uwireFF(quic.QUICFrames{uwireC(-365, 0), uwireC(0, 62)}, quic.QUICFrames{uwireC(0, 1200)}, quic.QUICFrames{uwireC(1201, -365)})},
		// the same with the hole closed: overlap is fine
		{1600, uwireFF(quic.QUICFrames{uwireC(-365, 0), uwireC(0, 62)}, quic.QUICFrames{uwireC(0, 1200)}, quic.QUICFrames{uwireC(1200, -365)})},
		// a large overlap hiding a small hole further up, and one hiding nothing
		{900, uwireFF(quic.QUICFrames{uwireC(0, 500)}, quic.QUICFrames{uwireC(100, 400), uwireC(510, 0)})},
		{900, uwireFF(quic.QUICFrames{uwireC(0, 500)}, quic.QUICFrames{uwireC(100, 400), uwireC(500, 0)})},
		// everything addressed from the end
		{1600, uwireFF(quic.QUICFrames{uwireC(-800, 0), quic.QUICFramePing{}}, quic.QUICFrames{quic.QUICFramePadding{Length: 3}, uwireC(-1600, -800)})},
		// hole at the very start / at the very end
		{700, uwireFF(quic.QUICFrames{uwireC(1, 0)})},
		{700, uwireFF(quic.QUICFrames{uwireC(0, -1)})},
		// one datagram larger than its budget; a range out of bounds; no datagrams
		{1600, uwireFF(quic.QUICFrames{uwireC(0, 0)})},
		{700, uwireFF(quic.QUICFrames{uwireC(0, 701)})},
		{700, uwireFF()},
		// random flight frames: ranges overlapping across datagrams, tail first; one with a hole
		{1500, uwireRFF(quic.QUICRandomFlightDatagram{CryptoRanges: []quic.QUICCryptoRange{R(-365, 0), R(0, 62)}, Frames: quic.QUICRandomFrames{MinCRYPTO: 2, MaxCRYPTO: 4, MaxPING: 2}},
			quic.QUICRandomFlightDatagram{CryptoRanges: []quic.QUICCryptoRange{R(30, -300)}, Frames: z})},
		{1500, uwireRFF(quic.QUICRandomFlightDatagram{CryptoRanges: []quic.QUICCryptoRange{R(-365, 0), R(0, 62)}, Frames: z},
			quic.QUICRandomFlightDatagram{CryptoRanges: []quic.QUICCryptoRange{R(0, 1100)}, Frames: z},
			quic.QUICRandomFlightDatagram{CryptoRanges: []quic.QUICCryptoRange{R(1101, -365)}, Frames: z})},
	}
	total := len(fixed) + n/2
	for i := 0; i < total; i++ {
		r := root.Fork()
		var hl int
		var plan uwirePlan
		if i < len(fixed) {
			hl, plan = fixed[i].hl, fixed[i].plan
		} else {
			hl = r.Range(1, 1500)
			if r.Intn(10) == 0 {
				hl = r.Range(1500, 3000)
			}
			ndg := r.Range(1, 4)
			cover := genCover(r, hl, ndg)
			mode := r.Intn(4) // 0: exact cover, 1: with overlaps, 2: overlap + hole, 3: perturbed
			var dgsF []quic.QUICFrames
			var dgsR []quic.QUICRandomFlightDatagram
			random := r.Bool()
			for _, ps := range cover {
				var qfs quic.QUICFrames
				var rs []quic.QUICCryptoRange
				for _, p := range ps {
					s, e := p.s, p.e
					switch {
					case mode == 1 || mode == 2:
						if r.Bool() { // widen downwards: overlap with whatever lies below
							s = max(0, s-r.Range(1, 80))
						}
						if mode == 2 && r.Intn(3) == 0 && e-s > 2 { // and cut a few bytes off the top: a hole
							e -= r.Range(1, min(e-s-1, 40))
						}
					case mode == 3:
						switch r.Intn(4) {
						case 0:
							continue
						case 1:
							s, e = max(0, s+r.Range(-2, 2)), e+r.Range(-2, 2)
						}
					}
					e = max(e, s)
					o, l := addrForms(r, min(s, hl), min(max(e, s), hl), hl)
					if mode == 3 && r.Intn(8) == 0 {
						o, l = r.Range(-hl-2, hl+2), r.Range(-hl-2, hl+2)
					}
					qfs = append(qfs, uwireC(o, l))
					rs = append(rs, R(o, l))
				}
				if r.Intn(3) == 0 {
					qfs = append(qfs, quic.QUICFramePing{})
				}
				if r.Intn(4) == 0 {
					qfs = append(quic.QUICFrames{quic.QUICFramePadding{Length: r.Intn(9)}}, qfs...)
				}
				dgsF = append(dgsF, qfs)
				g, _ := genRF(r, hl)
				if r.Intn(4) != 0 {
					g.MaxPING, g.MaxCRYPTO = max(g.MaxPING, g.MinPING), max(g.MaxCRYPTO, g.MinCRYPTO)
					g.MinPADDING = max(g.MinPADDING, 1)
					g.MaxPADDING = max(g.MaxPADDING, g.MinPADDING)
				}
				g.Length = uint16(r.Pick(0, 0, 0, 600, 1100))
				dgsR = append(dgsR, quic.QUICRandomFlightDatagram{CryptoRanges: rs, Frames: g})
			}
			if random {
				plan = uwireRFF(dgsR...)
			} else {
				plan = uwireFF(dgsF...)
			}
			dist[fmt.Sprintf("plan-mode-%d", mode)]++
		}
		hello := testData(r, hl)
		ips := quic.InitialPacketSpec{FrameBuilder: plan.fb}
		if i >= len(fixed) && r.Intn(4) == 0 { // budgets pinned by InitialPackets
			for k := r.Range(1, 3); k > 0; k-- {
				ips.InitialPackets = append(ips.InitialPackets, quic.InitialPacketPlan{PacketSize: int(r.Pick(0, 1200, 1252))})
			}
		}
		rx := quic.NewVerifRetx(&quic.QUICSpec{InitialPacketSpec: ips}, hello, 1252)
		budgets := rx.VerifUFramesFlightBudgets()
		pseed := int64(r.U64() >> 1)
		var wires [][]byte
		var perr error
		var pan any
		sentAfter := false
		consumed, pan2 := withScript(r, pseed, func() {
			for k := 0; k < 12; k++ {
				pkt, err, p := rx.Pack(false, false)
				if p != nil {
					pan = p
					return
				}
				if err != nil {
					if perr != nil {
						return
					}
					perr = err
					continue // a rejected plan must not send anything later either
				}
				if pkt == nil {
					return
				}
				if perr != nil {
					sentAfter = true
					return
				}
				wires = append(wires, pkt.Wire)
			}
		})
		if pan == nil {
			pan = pan2
		}
		detail := func() string {
			return fmt.Sprintf("%s plans=%+v len=%d budgets=%v hello=%x rand=%x mseed=%d", plan.desc, ips.InitialPackets, hl, budgets, hello, consumed, pseed)
		}
		res := "PPanic"
		nt := 0
		switch {
		case pan != nil:
			monfail(w, "uframes/panic", fmt.Sprintf("planning the Initial flight panicked: %v", pan), detail())
		case perr != nil:
			dist["plan-rejected"]++
			cls := errClass(perr)
			if v := valClass(perr); v != 99 && v != 0 {
				cls = 100 + v
			}
			if cls == 99 {
				monfail(w, "uwire/plan/error", "unexpected error: "+perr.Error(), detail())
			}
			if len(wires) > 0 || sentAfter {
				monfail(w, "uwire/plan/sent-although-rejected", "the flight plan was rejected ("+perr.Error()+") but Initial packets went out", detail())
			}
			res = u.App("PErr", u.Z(cls))
		default:
			dist["plan-accepted"]++
			nt = 1
			if msg, _ := checkCover(wires, hello, 0, false); msg != "" {
				monfail(w, "uwire/plan/incomplete", "planInitialFlight accepted the plan but the datagrams sent do not carry the ClientHello: "+msg, detail())
			}
			res = u.App("POk", hexList(wires))
		}
		us := "[]"
		if rff, ok := plan.fb.(*quic.QUICRandomFlightFrames); ok {
			nf := 16
			for _, dg := range rff.PerDatagram { // one uint32 per frame of each datagram's shuffle (plus rare rejections)
				nf += 8 + int(dg.Frames.MaxPING) + int(dg.Frames.MaxPADDING) + len(dg.CryptoRanges)*int(max(dg.Frames.MaxCRYPTO, 1))
			}
			if perr == nil && pan == nil {
				k := 16
				for _, wv := range wires {
					if fr, e := readFrames(wv); e == nil {
						k += len(fr) + 8
					}
				}
				nf = min(nf, k)
			}
			us = u.ZList(u32Stream(pseed, nf))
		}
		fmt.Fprintf(w, "CASE %d %s\n", nt, u.App("PlanCase", plan.term, u.Hex(hello), intList(budgets), u.Hex(consumed), us, res))
	}
}
