//go:build verif

package main

// simtrace (property C01): whole simulated connections observed at the layers the end-to-end theorems
// talk about; every connection becomes one CASE that coq/StreamE2E/SimRun.v replays through the
// models (sender-frame consistency, packet-level at-most-once, the RecvStream model fed with the processed
// frames in processing order, datagram at-most-once, the SendDatagram size rule).
//   client: one uni stream of random size written in random chunks + tagged datagrams sent meanwhile
//           (some larger than what the peer / the path allows); qlog tracer: 1-RTT packets sent
//   network: random fault schedule (drop / dup / delay / flip / trunc) + random loss, both directions
//   server: reads with random buffer sizes; qlog tracer: 1-RTT packets processed
// Model-independent monitors on the same observation: simtrace/prefix, simtrace/eof-early,
// simtrace/dgram-dup, simtrace/dgram-unknown, simtrace/packet-twice, simtrace/hang.

import (
	"bufio"
	"bytes"
	"context"
	"errors"
	"fmt"
	"io"
	"os"
	"strings"
	"sync"
	"time"

	quic "github.com/refraction-networking/uquic"
	u "github.com/refraction-networking/uquic/internal/verifutil"
	"github.com/refraction-networking/uquic/qlog"
	"github.com/refraction-networking/uquic/qlogwriter"
)

func init() { units["simtrace"] = runSimTrace }

type simtracePkt struct {
	pn     int64
	frames [][3]int64 // offset, length, fin
	ndg    int64
}

type simtraceRec struct {
	mu     sync.Mutex
	sid    int64
	sent   []simtracePkt
	rcvd   []simtracePkt
	isSend bool
}

func (r *simtraceRec) AddProducer() qlogwriter.Recorder { return r }
func (r *simtraceRec) SupportsSchemas(string) bool      { return true }
func (r *simtraceRec) Close() error                     { return nil }
func (r *simtraceRec) pkt(pn int64, fs []qlog.Frame) simtracePkt {
	p := simtracePkt{pn: pn}
	for _, f := range fs {
		switch x := f.Frame.(type) {
		case *qlog.StreamFrame:
			if int64(x.StreamID) == r.sid {
				fin := int64(0)
				if x.Fin {
					fin = 1
				}
				p.frames = append(p.frames, [3]int64{x.Offset, x.Length, fin})
			}
		case *qlog.DatagramFrame:
			p.ndg++
		}
	}
	return p
}
func (r *simtraceRec) RecordEvent(e qlogwriter.Event) {
	r.mu.Lock()
	defer r.mu.Unlock()
	switch ev := e.(type) {
	case qlog.PacketSent:
		if r.isSend && ev.Header.PacketType == qlog.PacketType1RTT {
			r.sent = append(r.sent, r.pkt(int64(ev.Header.PacketNumber), ev.Frames))
		}
	case qlog.PacketReceived:
		if !r.isSend && ev.Header.PacketType == qlog.PacketType1RTT {
			r.rcvd = append(r.rcvd, r.pkt(int64(ev.Header.PacketNumber), ev.Frames))
		}
	}
}

type simtraceCase struct {
	Size     int
	Seed     int64
	MaxChunk int
	Dgrams   int
	Faults   []fault
	LossPct  int
	Client   string
	RSeed    uint64
}

func (c simtraceCase) String() string {
	fs := make([]string, len(c.Faults))
	for i, f := range c.Faults {
		fs[i] = f.String()
	}
	return fmt.Sprintf("client=%s size=%d chunk<=%d dgrams=%d loss=%d%% faults=[%s] seed=%d", c.Client, c.Size, c.MaxChunk, c.Dgrams, c.LossPct, strings.Join(fs, " "), c.RSeed)
}

func simtracePktTerm(p simtracePkt) string {
	var fs []string
	for _, f := range p.frames {
		fs = append(fs, u.Pair(u.Z(f[0]), u.Z(f[1]), u.B(f[2] == 1)))
	}
	return u.App("mkSP", u.Z(p.pn), u.List(fs), u.Z(p.ndg))
}

func runOneSimTrace(w *bufio.Writer, c simtraceCase) {
	var mu sync.Mutex
	var fails []monFail
	fail := func(key, desc string) {
		mu.Lock()
		fails = append(fails, monFail{key, desc})
		mu.Unlock()
	}
	cli := &simtraceRec{sid: 2, isSend: true}
	srv := &simtraceRec{sid: 2}
	data := ssGenData(c.Size, c.Seed)
	var got []byte
	var gotEOF, closed bool
	var rerr error
	type dgRec struct {
		id, n   int64
		acc     bool
		mf, mtu int64
	}
	var dgs []dgRec
	var dgrecv [][]byte
	err := inBubble(func() {
		r := u.NewRng(c.RSeed)
		lossRng := u.NewRng(c.RSeed ^ 0x77aa)
		o := simOpts{
			Faults:     c.Faults,
			ServerConf: &quic.Config{EnableDatagrams: true, MaxIdleTimeout: 20 * time.Second, Tracer: func(context.Context, bool, quic.ConnectionID) qlogwriter.Trace { return srv }},
			ClientConf: &quic.Config{EnableDatagrams: true, MaxIdleTimeout: 20 * time.Second, Tracer: func(context.Context, bool, quic.ConnectionID) qlogwriter.Trace { return cli }},
		}
		if c.LossPct > 0 {
			o.RandDrop = func(dir, idx int) bool { return lossRng.Intn(100) < c.LossPct }
		}
		switch c.Client {
		case "plain":
			o.PlainPath = true
		case "unil":
		}
		e, err := newSimEnv(o)
		if err != nil {
			fail("simtrace/env", err.Error())
			return
		}
		defer e.Close()
		ctx, cancel := context.WithTimeout(context.Background(), 120*time.Second)
		defer cancel()
		srvDone := make(chan struct{})
		var srvConn *quic.Conn
		go func() {
			defer close(srvDone)
			conn, err := e.Ln.Accept(ctx)
			if err != nil {
				rerr = err
				return
			}
			srvConn = conn
			go func() {
				for {
					d, err := conn.ReceiveDatagram(ctx)
					if err != nil {
						return
					}
					mu.Lock()
					dgrecv = append(dgrecv, d)
					mu.Unlock()
				}
			}()
			s, err := conn.AcceptUniStream(ctx)
			if err != nil {
				rerr = err
				return
			}
			rr := u.NewRng(c.RSeed + 99)
			for {
				buf := make([]byte, rr.Range(1, c.MaxChunk))
				n, err := s.Read(buf)
				got = append(got, buf[:n]...)
				if err != nil {
					if err == io.EOF {
						gotEOF = true
					} else {
						rerr = err
					}
					return
				}
			}
		}()
		conn, err := e.Dial(ctx)
		if err != nil {
			// a handshake that the fault schedule kills is not C01's subject; the case is still replayed (empty)
			<-srvDone
			return
		}
		s, err := conn.OpenUniStreamSync(ctx)
		if err != nil {
			<-srvDone
			return
		}
		go func() {
			wr := u.NewRng(c.RSeed * 3)
			p := data
			for len(p) > 0 {
				k := wr.Range(1, c.MaxChunk)
				if k > len(p) {
					k = len(p)
				}
				if _, err := s.Write(p[:k]); err != nil {
					return
				}
				p = p[k:]
			}
			if s.Close() == nil {
				mu.Lock()
				closed = true
				mu.Unlock()
			}
		}()
		for i := 0; i < c.Dgrams; i++ {
			n := int(r.Pick(3, 20, 200, 1100, 1180, 1200, 1220, 1250, 1300, 1500, 20000))
			mf, mtu := quic.VerifSimtraceDgLimits(conn)
			d := append([]byte(fmt.Sprintf("%06d", i)), make([]byte, n)...)
			err := conn.SendDatagram(d)
			var tl *quic.DatagramTooLargeError
			switch {
			case err == nil:
				dgs = append(dgs, dgRec{int64(i), int64(len(d)), true, mf, mtu})
			case errors.As(err, &tl):
				dgs = append(dgs, dgRec{int64(i), int64(len(d)), false, mf, mtu})
			}
			time.Sleep(time.Duration(r.Range(100, 3000)) * time.Microsecond)
		}
		select {
		case <-srvDone:
		case <-ctx.Done():
		}
		time.Sleep(800 * time.Millisecond)
		conn.CloseWithError(0, "")
		if srvConn != nil {
			select {
			case <-srvConn.Context().Done():
			case <-time.After(30 * time.Second):
			}
		}
	})
	if err != nil {
		fail("simtrace/leak-or-panic", err.Error())
	}
	// model-independent monitors
	if !bytes.HasPrefix(data, got) {
		fail("simtrace/prefix", fmt.Sprintf("%d bytes read are not a prefix of the %d written", len(got), len(data)))
	} else if gotEOF && len(got) != len(data) {
		fail("simtrace/eof-early", fmt.Sprintf("EOF after %d of %d bytes", len(got), len(data)))
	}
	seenPN := map[int64]bool{}
	for _, p := range srv.rcvd {
		if seenPN[p.pn] {
			fail("simtrace/packet-twice", fmt.Sprintf("1-RTT packet %d was processed twice", p.pn))
		}
		seenPN[p.pn] = true
	}
	var recvIDs []string
	seenD := map[string]bool{}
	for _, d := range dgrecv {
		id := "-1"
		if len(d) >= 6 {
			id = strings.TrimLeft(string(d[:6]), "0")
			if id == "" {
				id = "0"
			}
		}
		ok := false
		for _, s := range dgs {
			if s.acc && fmt.Sprint(s.id) == id && int(s.n) == len(d) {
				ok = true
			}
		}
		if !ok {
			fail("simtrace/dgram-unknown", fmt.Sprintf("received datagram (%d bytes, id %s) was never accepted by SendDatagram", len(d), id))
		}
		if seenD[id] {
			fail("simtrace/dgram-dup", fmt.Sprintf("datagram %s delivered twice", id))
		}
		seenD[id] = true
		recvIDs = append(recvIDs, id)
	}
	var sentT, rcvdT, dgT []string
	for _, p := range cli.sent {
		sentT = append(sentT, simtracePktTerm(p))
	}
	for _, p := range srv.rcvd {
		rcvdT = append(rcvdT, simtracePktTerm(p))
	}
	for _, d := range dgs {
		dgT = append(dgT, u.Pair(u.Z(d.id), u.Z(d.n), u.B(d.acc), u.Z(d.mf), u.Z(d.mtu)))
	}
	nt := b2i(len(srv.rcvd) > 0)
	fmt.Fprintf(w, "CASE %d %s\n", nt, u.App("SimCase", u.Z(int64(c.Size)), u.Z(c.Seed), u.B(closed), u.List(sentT), u.List(rcvdT),
		u.Z(int64(len(got))), u.Z(ssSum(got)), u.B(gotEOF), u.List(dgT), u.List(recvIDs)))
	for _, f := range fails {
		fmt.Fprintf(w, "MONFAIL\t%s\t%s\t%s\n", f.key, f.desc, c.String())
	}
	_ = rerr
}

func genSimTraceCase(r *u.Rng, maxSize int) simtraceCase {
	c := simtraceCase{RSeed: r.U64(), Seed: int64(r.Intn(1 << 24)), MaxChunk: []int{7, 100, 1500, 20000}[r.Intn(4)]}
	switch r.Intn(5) {
	case 0:
		c.Size = r.Range(0, 3)
	case 1:
		c.Size = r.Range(1000, 1500)
	default:
		c.Size = r.Range(0, maxSize)
	}
	c.Dgrams = r.Range(0, 12)
	nf := r.Range(0, 5)
	for i := 0; i < nf; i++ {
		f := fault{Dir: r.Intn(2), Idx: r.Range(0, 40), Kind: r.Intn(fNumKinds)}
		switch f.Kind {
		case fDelay:
			f.Arg = r.Range(1, 300)
		case fFlip:
			f.Arg = r.Range(0, 12000)
		case fTrunc:
			f.Arg = r.Range(1, 1400)
		}
		c.Faults = append(c.Faults, f)
	}
	if r.Chance(1, 2) {
		c.LossPct = r.Range(1, 12)
	}
	c.Client = []string{"plain", "unil"}[r.Intn(2)]
	return c
}

func runSimTrace(w *bufio.Writer, seed uint64, n int, _ []string) {
	r := u.NewRng(seed ^ 0x51317ace)
	maxSize := 12000
	if os.Getenv("VERIF_TIER") == "thorough" {
		maxSize = 60000
	}
	for i := 0; i < n; i++ {
		c := genSimTraceCase(r, maxSize)
		done := make(chan struct{})
		go func(c simtraceCase) {
			select {
			case <-done:
			case <-time.After(45 * time.Second):
				fmt.Fprintf(w, "MONFAIL\tsimtrace/hang\tscenario did not finish within 45 s of REAL time; remaining cases skipped\t%s\n", c.String())
				w.Flush()
				os.Exit(0)
			}
		}(c)
		runOneSimTrace(w, c)
		close(done)
		if i < 2 {
			fmt.Fprintf(w, "SAMPLE\t%s\n", c.String())
		}
	}
	fmt.Fprintf(w, "DIST\tconnections\t%d\n", n)
}
