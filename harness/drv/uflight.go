//go:build verif

package main

// Unit `uflight` (C09): QUICCryptoRange.resolve, splitRange, QUICFlightFrames,
// QUICRandomFlightFrames (Build and BuildFlight) and validateInitialFlight on the real code.

import (
	"bufio"
	"fmt"
	"math"
	"math/big"
	"sort"
	"strings"

	quic "github.com/refraction-networking/uquic"
	u "github.com/refraction-networking/uquic/internal/verifutil"
)

func init() { units["uflight"] = runUFlight }

// addrForms rewrites the piece [s,e) of an n-byte stream with a random choice among the
// equivalent (Offset, Length) notations (negative = counted from the end, 0 = to the end).
func addrForms(r *u.Rng, s, e, n int) (off, length int) {
	off = s
	if s < n && r.Intn(3) == 0 {
		off = s - n
	}
	switch {
	case e == n && (e == s || r.Bool()):
		length = 0
	case e < n && (e == s || r.Bool()):
		length = e - n
	default:
		length = e - s
	}
	return
}

type piece struct{ s, e int }

// genCover cuts [0,n) into k pieces and deals them to ndg datagrams in random order.
func genCover(r *u.Rng, n, ndg int) [][]piece {
	k := 1
	if n > 0 {
		k = r.Range(1, min(n, 6))
	}
	cuts := map[int]bool{0: true, n: true}
	for len(cuts) < k+1 && n > 1 {
		cuts[r.Range(1, n-1)] = true
	}
	var cs []int
	for c := range cuts {
		cs = append(cs, c)
	}
	sort.Ints(cs)
	out := make([][]piece, ndg)
	var ps []piece
	for i := 0; i+1 < len(cs); i++ {
		ps = append(ps, piece{cs[i], cs[i+1]})
	}
	if n == 0 {
		ps = []piece{{0, 0}}
	}
	// Chrome-like: sometimes the tail first
	for i := len(ps) - 1; i > 0; i-- {
		j := r.Intn(i + 1)
		ps[i], ps[j] = ps[j], ps[i]
	}
	ndg = min(ndg, len(ps)) // a datagram without any range is (rightly) rejected
	out = out[:ndg]
	for i, p := range ps {
		d := r.Intn(ndg)
		if i < ndg {
			d = i // every datagram gets something
		}
		out[d] = append(out[d], p)
	}
	return out
}

func valClass(err error) int64 {
	if err == nil {
		return 0
	}
	m := err.Error()
	switch {
	case strings.Contains(m, "returned no Initial datagrams"):
		return 1
	case strings.Contains(m, "more than fits in the packet"):
		return 2
	case strings.Contains(m, "does not parse as QUIC frames"):
		return 3
	case strings.Contains(m, "has a CRYPTO frame covering"):
		return 4
	case strings.Contains(m, "no Initial datagram carries CRYPTO byte"):
		return 5
	}
	return 99
}

func hexList(ps [][]byte) string {
	xs := make([]string, len(ps))
	for i, p := range ps {
		xs[i] = u.Hex(p)
	}
	return u.List(xs)
}

func intList(xs []int) string {
	ys := make([]int64, len(xs))
	for i, x := range xs {
		ys[i] = int64(x)
	}
	return u.ZList(ys)
}

func genBudgets(r *u.Rng, payloads [][]byte) []int {
	nb := max(1, len(payloads)+r.Range(-1, 1))
	bs := make([]int, nb)
	for i := range bs {
		switch r.Intn(6) {
		case 0:
			bs[i] = 0
		case 1:
			l := 10
			if i < len(payloads) {
				l = len(payloads[i])
			}
			bs[i] = max(0, l+r.Range(-1, 1))
		default:
			bs[i] = r.Range(1150, 5000)
		}
	}
	return bs
}

// flightRes: FOk payloads budgets validateClass | FErr class | FPanic
func flightRes(payloads [][]byte, budgets []int, vcls int64, err error, pan any) string {
	switch {
	case pan != nil:
		return "FPanic"
	case err != nil:
		return u.App("FErr", u.Z(errClass(err)))
	}
	return u.App("FOk", hexList(payloads), intList(budgets), u.Z(vcls))
}

// judgeFlight: monitors for one BuildFlight result of an in-tree builder.
func judgeFlight(w *bufio.Writer, kind string, covering bool, payloads [][]byte, data []byte, budgets []int, detail func() string) (vcls int64, vpanic any) {
	var verr error
	func() {
		defer func() { vpanic = recover() }()
		verr = quic.VerifUFramesValidateFlight(payloads, budgets, len(data))
	}()
	if vpanic != nil {
		monfail(w, "uframes/panic", fmt.Sprintf("validateInitialFlight panicked: %v", vpanic), detail())
		return 0, vpanic
	}
	vcls = valClass(verr)
	if vcls == 99 {
		monfail(w, "uflight/validate/error", "unexpected validate error: "+verr.Error(), detail())
	}
	msg, _ := checkCover(payloads, data, 0, false)
	switch {
	case msg != "" && !strings.HasPrefix(msg, "cover:"):
		// an in-tree builder never may emit foreign frame types, out-of-range or wrong bytes
		monfail(w, "uflight/"+kind+"/bytes", "flight payloads do not carry true ClientHello bytes: "+msg, detail())
	case msg != "" && verr == nil:
		monfail(w, "uflight/validate/incomplete-accepted", "validateInitialFlight accepted a flight that does not cover the ClientHello: "+msg, detail())
	case msg == "" && verr == nil:
		for i, p := range payloads {
			b := budgets[min(i, len(budgets)-1)]
			if b > 0 && len(p) > b {
				monfail(w, "uflight/validate/overbudget-accepted", fmt.Sprintf("datagram %d has %d frame bytes, budget %d", i, len(p), b), detail())
			}
		}
	}
	if covering && msg != "" {
		monfail(w, "uflight/"+kind+"/cover", "a plan whose ranges cover the stream produced an incomplete flight: "+msg, detail())
	}
	return vcls, nil
}

func runUFlight(w *bufio.Writer, seed uint64, n int, _ []string) {
	seedSetup()
	if !seedCheck(w) {
		return
	}
	root := u.NewRng(u.NewRng(seed).U64()) // mixed: NewRng(s) and NewRng(s+1) are shifted copies of each other
	dist := map[string]int{}
	nd := draws()

	// ---- resolve ----
	for i := 0; i < n; i++ {
		r := root.Fork()
		sl := int(r.Pick(0, 1, 2, 5, 50, 2300, 4000, 1<<20))
		if r.Intn(3) == 0 {
			sl = r.Intn(60)
		}
		pick := func() int {
			switch r.Intn(9) {
			case 0:
				return int(r.Pick(math.MinInt64, math.MinInt64+1, math.MaxInt64, math.MaxInt64-1))
			case 1, 2:
				return r.Range(-2, 2)
			case 3:
				return sl + r.Range(-2, 2)
			case 4:
				return -sl + r.Range(-2, 2)
			case 5:
				return int(r.Pick(math.MaxInt64, math.MinInt64)) - int(r.Pick(1, -1))*r.Intn(sl+3)*int(r.Pick(0, 1))
			default:
				return r.Range(-sl-3, sl+3)
			}
		}
		off, length := pick(), pick()
		var s, e int
		var err error
		func() {
			defer func() {
				if p := recover(); p != nil {
					monfail(w, "uframes/panic", fmt.Sprintf("resolve panicked: %v", p), fmt.Sprintf("off=%d len=%d n=%d", off, length, sl))
				}
			}()
			s, e, err = quic.VerifUFramesResolve(off, length, sl)
		}()
		// independent expectation with unbounded integers
		bo, bl, bn := big.NewInt(int64(off)), big.NewInt(int64(length)), big.NewInt(int64(sl))
		st := new(big.Int).Set(bo)
		if bo.Sign() < 0 {
			st.Add(bn, bo)
		}
		en := new(big.Int)
		if bl.Sign() > 0 {
			en.Add(st, bl)
		} else {
			en.Add(bn, bl)
		}
		want := st.Sign() >= 0 && st.Cmp(bn) <= 0 && en.Cmp(bn) <= 0 && en.Cmp(st) >= 0
		if (err == nil) != want {
			monfail(w, "uflight/resolve/verdict", fmt.Sprintf("resolve accepted=%v, but the range is in bounds=%v", err == nil, want), fmt.Sprintf("off=%d len=%d n=%d", off, length, sl))
		} else if err == nil && (big.NewInt(int64(s)).Cmp(st) != 0 || big.NewInt(int64(e)).Cmp(en) != 0 || s < 0 || s > e || e > sl) {
			monfail(w, "uflight/resolve/bounds", fmt.Sprintf("resolve returned [%d,%d)", s, e), fmt.Sprintf("off=%d len=%d n=%d", off, length, sl))
		}
		nt := 0
		if err == nil {
			nt = 1
			dist["resolve-ok"]++
		} else {
			dist["resolve-err"]++
			if c := errClass(err); c != 9 && c != 10 {
				monfail(w, "uflight/resolve/error", "unexpected error: "+err.Error(), "")
			}
		}
		res := "None"
		if err == nil {
			res = u.Opt(true, u.Pair(u.Z(int64(s)), u.Z(int64(e))))
		}
		fmt.Fprintf(w, "CASE %d %s\n", nt, u.App("ResolveCase", u.Z(int64(off)), u.Z(int64(length)), u.Z(int64(sl)), res))
	}

	// ---- splitRange ----
	for i := 0; i < n/2+4; i++ {
		r := root.Fork()
		start := r.Intn(3000)
		span := r.Range(1, 40)
		if r.Intn(4) == 0 {
			span = r.Range(1, 1500)
		}
		if r.Intn(25) == 0 {
			span = 0 // never reached through QUICRandomFlightDatagram.build; model replay only
		}
		minN := uint64(r.Range(1, 6))
		maxN := minN + uint64(r.Intn(5))
		switch r.Intn(8) {
		case 0:
			maxN = uint64(r.Range(1, 6))
		case 1:
			minN, maxN = uint64(span+r.Range(-1, 2)), uint64(span+r.Range(0, 4))
			if minN < 1 {
				minN = 1
			}
		case 2:
			maxN = 255
		}
		for d := 0; d < 1+nd/4; d++ {
			var ps [][2]int
			var err error
			consumed, pan := withScript(r, 1, func() { ps, err = quic.VerifUFramesSplitRange(start, start+span, minN, maxN) })
			det := fmt.Sprintf("start=%d end=%d minN=%d maxN=%d rand=%x", start, start+span, minN, maxN, consumed)
			dist["split-draws"]++
			if pan != nil {
				monfail(w, "uframes/panic", fmt.Sprintf("splitRange panicked: %v", pan), det)
			} else if err == nil && span > 0 {
				lo, hi := int(minN), int(minN)
				if maxN > minN {
					hi = int(maxN) - 1
				}
				lo, hi = min(lo, span), min(hi, span)
				pos := start
				bad := len(ps) < lo || len(ps) > hi
				for _, p := range ps {
					if p[0] != pos || p[1] < 1 {
						bad = true
					}
					pos += p[1]
				}
				if bad || pos != start+span {
					monfail(w, "uflight/split/partition", fmt.Sprintf("splitRange pieces %v do not partition the range into %d..%d non-empty frames", ps, lo, hi), det)
				}
			}
			if d == 0 {
				res := "SPanic"
				if pan == nil && err != nil {
					res = u.App("SErr", u.Z(errClass(err)))
				} else if pan == nil {
					xs := make([]string, len(ps))
					for k, p := range ps {
						xs[k] = u.Pair(u.Z(int64(p[0])), u.Z(int64(p[1])))
					}
					res = u.App("SOk", u.List(xs))
				}
				nt := 0
				if err == nil && pan == nil {
					nt = 1
				}
				fmt.Fprintf(w, "CASE %d %s\n", nt, u.App("SplitCase", u.Z(int64(start)), u.Z(int64(start+span)), u.ZU(minN), u.ZU(maxN), u.Hex(consumed), res))
			}
		}
	}

	// ---- QUICFlightFrames / QUICRandomFlightFrames ----
	for i := 0; i < n; i++ {
		r := root.Fork()
		random := r.Bool()
		ndg := r.Range(1, 4)
		// plan shape is drawn once; it is then instantiated for several ClientHello lengths
		mutate := r.Intn(4) // 0: perturb the plan (drop / shift / out of bounds), else covering
		useBuild := r.Intn(8) == 0
		emptyPlan := r.Intn(30) == 0
		for d := 0; d < 1+nd/3; d++ {
			rr := r.Fork()
			dlen := pickLen(rr, d == 0)
			data := testData(rr, dlen)
			cover := genCover(rr, dlen, ndg)
			ndg := len(cover)
			covering := mutate != 0
			var ff quic.QUICFlightFrames
			var rf quic.QUICRandomFlightFrames
			var rfSpecs []quic.QUICRandomFrames
			maxFrames := 12
			for di := 0; di < ndg && !emptyPlan; di++ {
				var qfs quic.QUICFrames
				var ranges []quic.QUICCryptoRange
				for _, p := range cover[di] {
					s, e := p.s, p.e
					if !covering {
						switch rr.Intn(5) {
						case 0:
							continue // dropped
						case 1:
							s, e = s+rr.Range(-2, 2), e+rr.Range(-2, 2)
						case 2:
							e = dlen + rr.Range(0, 2)
						}
					}
					o, l := addrForms(rr, max(s, 0), max(e, max(s, 0)), dlen)
					if !covering && rr.Intn(6) == 0 {
						o, l = rr.Range(-dlen-2, dlen+2), rr.Range(-dlen-2, dlen+2)
					}
					qfs = append(qfs, quic.QUICFrameCrypto{Offset: o, Length: l})
					ranges = append(ranges, quic.QUICCryptoRange{Offset: o, Length: l})
				}
				for j := rr.Intn(3); j > 0; j-- {
					var f quic.QUICFrame = quic.QUICFramePing{}
					if rr.Bool() {
						f = quic.QUICFramePadding{Length: rr.Intn(12)}
					}
					at := rr.Intn(len(qfs) + 1)
					qfs = append(qfs[:at], append(quic.QUICFrames{f}, qfs[at:]...)...)
				}
				ff.Datagrams = append(ff.Datagrams, qfs)
				g, _ := genRF(rr, dlen)
				if covering && rr.Intn(3) != 0 { // keep most covering plans free of bound errors
					g.MaxPING = max(g.MaxPING, g.MinPING)
					g.MaxCRYPTO = max(g.MaxCRYPTO, g.MinCRYPTO)
					g.MinPADDING = max(g.MinPADDING, 1)
					g.MaxPADDING = max(g.MaxPADDING, g.MinPADDING)
				}
				if rr.Intn(6) == 0 {
					g = quic.QUICRandomFrames{} // the documented zero value
				}
				rfSpecs = append(rfSpecs, g)
				maxFrames += int(g.MaxPING) + int(g.MaxPADDING) + len(ranges)*int(max(g.MaxCRYPTO, 1))
				rf.PerDatagram = append(rf.PerDatagram, quic.QUICRandomFlightDatagram{CryptoRanges: ranges, Frames: g})
			}
			kind := "ff"
			if random {
				kind = "rff"
			}
			var payloads [][]byte
			var err error
			mseed := int64(rr.U64() >> 1)
			consumed, pan := withScript(rr, mseed, func() {
				var fb quic.QUICFlightFrameBuilder = &ff
				if random {
					fb = &rf
				}
				if useBuild {
					var p []byte
					p, err = fb.Build(data)
					if err == nil {
						payloads = [][]byte{p}
					}
				} else {
					payloads, err = fb.BuildFlight(data, nil)
				}
			})
			detail := func() string {
				if random {
					return fmt.Sprintf("QUICRandomFlightFrames%+v build=%v len=%d data=%x rand=%x mseed=%d", rf.PerDatagram, useBuild, dlen, data, consumed, mseed)
				}
				return fmt.Sprintf("QUICFlightFrames%+v build=%v len=%d data=%x", ff.Datagrams, useBuild, dlen, data)
			}
			dist[kind+"-draws"]++
			var vcls int64
			var budgets []int
			var vpan any
			switch {
			case pan != nil:
				monfail(w, "uframes/panic", fmt.Sprintf("%s build panicked: %v", kind, pan), detail())
			case err != nil:
				dist[kind+"-err"]++
				if errClass(err) == 99 {
					monfail(w, "uflight/"+kind+"/error", "unexpected error: "+err.Error(), detail())
				}
				if covering && !emptyPlan && errClass(err) != 6 && !(random && errClass(err) >= 1 && errClass(err) <= 5) && !(random && dlen == 0) {
					monfail(w, "uflight/"+kind+"/spurious-error", "a covering in-range plan was rejected: "+err.Error(), detail())
				}
			default:
				dist[kind+"-ok"]++
				budgets = genBudgets(rr, payloads)
				// Build() only lays out the first datagram: completeness is not expected of it
				vcls, vpan = judgeFlight(w, kind, covering && !useBuild, payloads, data, budgets, detail)
			}
			if d == 0 && vpan == nil {
				nt := 0
				if err == nil && pan == nil {
					nt = 1
				}
				res := flightRes(payloads, budgets, vcls, err, pan)
				if random {
					dgs := make([]string, len(rf.PerDatagram))
					for k, dg := range rf.PerDatagram {
						rs := make([]string, len(dg.CryptoRanges))
						for j, cr := range dg.CryptoRanges {
							rs[j] = u.Pair(u.Z(int64(cr.Offset)), u.Z(int64(cr.Length)))
						}
						dgs[k] = u.Pair(u.List(rs), rfTerm(dg.Frames))
					}
					fmt.Fprintf(w, "CASE %d %s\n", nt, u.App("RFFCase", u.List(dgs), u.B(useBuild), u.Hex(data), u.Hex(consumed), u.ZList(u32Stream(mseed, maxFrames)), res))
				} else {
					dgs := make([]string, len(ff.Datagrams))
					for k, dg := range ff.Datagrams {
						dgs[k] = framesTerm(dg)
					}
					fmt.Fprintf(w, "CASE %d %s\n", nt, u.App("FFCase", u.List(dgs), u.B(useBuild), u.Hex(data), res))
				}
			}
		}
	}

	// ---- validateInitialFlight on arbitrary payloads (what a custom QUICFlightFrameBuilder could return) ----
	fixed := [][][]byte{
		// the last CRYPTO frame announces 20 bytes and carries 8: accepted, goes on the wire truncated
		{append([]byte{0x06, 0x00, 0x14}, testDataFixed(20)[:8]...)},
		// frame type 6 written as a two-byte varint (not a valid frame encoding, RFC 9000 12.4)
		{append([]byte{0x40, 0x06, 0x00, 0x14}, testDataFixed(20)...)},
		// a CRYPTO frame announcing 2^61 bytes
		{{0x06, 0x00, 0xe0, 0, 0, 0, 0, 0, 0, 0}},
		// well-formed and complete (control)
		{append([]byte{0x01, 0x06, 0x00, 0x14}, testDataFixed(20)...), {0x00, 0x00}},
	}
	for i := 0; i < n/2+4+len(fixed); i++ {
		r := root.Fork()
		clen := r.Range(0, 60)
		data := testData(r, clen)
		ndg := r.Range(0, 3)
		var payloads [][]byte
		pos := 0
		hostile := r.Intn(3) == 0
		if i < len(fixed) {
			clen, data, ndg, payloads = 20, testDataFixed(20), 0, fixed[i]
		}
		for d := 0; d < ndg; d++ {
			var p []byte
			for k := r.Range(0, 5); k > 0; k-- {
				c := r.Intn(10)
				if !hostile && c >= 5 {
					c = r.Intn(3)
				}
				switch c {
				case 0:
					p = append(p, make([]byte, r.Range(1, 4))...)
				case 1:
					p = append(p, 0x01)
				case 2, 3, 4: // well-formed CRYPTO continuing the stream (or repeating part of it)
					s := pos
					if r.Intn(4) == 0 {
						s = r.Intn(clen + 1)
					}
					l := r.Intn(clen - s + 1)
					if d == ndg-1 && k == 1 && r.Bool() {
						l = clen - s
					}
					p = append(p, 0x06)
					p = appendVarintAny(r, p, uint64(s))
					p = appendVarintAny(r, p, uint64(l))
					p = append(p, data[s:s+l]...)
					if s == pos {
						pos += l
					}
				case 5: // CRYPTO frame whose data is cut short
					l := r.Range(1, 20)
					p = append(p, 0x06, byte(min(pos, 63)), byte(l))
					p = append(p, data[min(pos, clen):min(pos+r.Intn(l), clen)]...)
				case 6: // CRYPTO frame reaching past the end of the stream
					p = append(p, 0x06, byte(min(clen, 63)), byte(r.Range(1, 3)), 0xee, 0xee, 0xee)
				case 7: // foreign frame types, also non-minimally encoded ones
					p = append(p, [][]byte{{0x02, 0x00, 0x00, 0x00, 0x00}, {0x1c, 0x00, 0x00, 0x00}, {0x40, 0x06, 0x00, 0x00}, {0x40, 0x01}, {0x18}, {0xc0}}[r.Intn(6)]...)
				case 8: // truncated varint
					p = append(p, 0x06, 0x40)
				case 9: // CRYPTO frame announcing an absurd length
					p = append(p, 0x06, 0x00)
					p = append(p, 0xe0, 0, 0, 0, 0, 0, 0, byte(r.Intn(2)))
				}
			}
			payloads = append(payloads, p)
		}
		budgets := genBudgets(r, payloads)
		if i < len(fixed) {
			budgets = []int{0}
		}
		var verr error
		var vpan any
		func() {
			defer func() { vpan = recover() }()
			verr = quic.VerifUFramesValidateFlight(payloads, budgets, clen)
		}()
		det := fmt.Sprintf("payloads=%x budgets=%v cryptoLen=%d", payloads, budgets, clen)
		dist["validate-arbitrary"]++
		if vpan != nil {
			dist["validate-panic"]++
			monfail(w, "uflight/validate/panic", fmt.Sprintf("validateInitialFlight panicked instead of rejecting the plan: %v", vpan), det)
			fmt.Fprintf(w, "CASE 0 %s\n", u.App("ValCase", hexList(payloads), intList(budgets), u.Z(int64(clen)), u.Z(-1)))
			continue
		}
		if verr == nil {
			dist["validate-accept"]++
			// the payloads go on the wire as they are: they must be what a peer can parse
			msg, _ := checkCover(payloads, data, 0, false)
			if len(payloads) == 0 {
				msg = "no datagrams"
			}
			if msg != "" && !strings.HasPrefix(msg, "bytes:") { // validate cannot see the bytes (it only gets the length)
				monfail(w, "uflight/validate/accepts-malformed", "validateInitialFlight accepted payloads that an independent frame reader rejects or that do not cover the stream: "+msg, det)
			}
		} else if valClass(verr) == 99 {
			monfail(w, "uflight/validate/error", "unexpected validate error: "+verr.Error(), det)
		}
		nt := 0
		if verr == nil {
			nt = 1
		}
		fmt.Fprintf(w, "CASE %d %s\n", nt, u.App("ValCase", hexList(payloads), intList(budgets), u.Z(int64(clen)), u.Z(valClass(verr))))
	}
	flushMonfail(w)
	keys := make([]string, 0, len(dist))
	for k := range dist {
		keys = append(keys, k)
	}
	sort.Strings(keys)
	for _, k := range keys {
		fmt.Fprintf(w, "DIST\t%s\t%d\n", k, dist[k])
	}
}

func testDataFixed(n int) []byte {
	b := make([]byte, n)
	for i := range b {
		b[i] = byte(0x41 + i)
	}
	return b
}

// appendVarintAny appends v as a QUIC varint, sometimes in a longer-than-necessary width.
func appendVarintAny(r *u.Rng, b []byte, v uint64) []byte {
	w := 1
	switch {
	case v > 1073741823:
		w = 8
	case v > 16383:
		w = 4
	case v > 63:
		w = 2
	}
	for w < 8 && r.Intn(5) == 0 {
		w *= 2
	}
	switch w {
	case 1:
		return append(b, byte(v))
	case 2:
		return append(b, 0x40|byte(v>>8), byte(v))
	case 4:
		return append(b, 0x80|byte(v>>24), byte(v>>16), byte(v>>8), byte(v))
	}
	return append(b, 0xc0|byte(v>>56), byte(v>>48), byte(v>>40), byte(v>>32), byte(v>>24), byte(v>>16), byte(v>>8), byte(v))
}
