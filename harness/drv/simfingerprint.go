//go:build verif

package main

// simfingerprint: C11 integration scenario (monitor-only). Every built-in QUICID is dialled
// many times into the simulated network (black hole: only the client's first flight is of
// interest). The captured datagrams are decoded by readers that share no code with /repo:
// clienthellod's Initial decoder (keys, header protection, AEAD, frames, CRYPTO reassembly)
// and a ClientHello / transport-parameter walker written here. Monitors:
//
//   capture          a first flight exists and decodes; the ClientHello reassembles
//   tp-wire          extension 57 carries exactly the spec's parameters after suppression:
//                    same ids (GREASE included), same values, in spec order -- or, with
//                    RandomizeTransportParameters, a permutation of them
//   tp-raw-verbatim  every raw/fake parameter of the spec (also one whose id collides with a typed
//                    parameter, 0x0f in particular) is on the wire with exactly the spec's bytes
//   key-share        the key_share entries on the wire are the spec's: groups in order, the
//                    spec's key_exchange bytes where it gives them (GREASE share {0}, a supplied
//                    public key), a generated non-empty key elsewhere (every dial; a third of
//                    the derived specs carry such Data)
//   tp-suppressed    no suppressed id (no GREASE id when 27 is listed) is on the wire
//   ids-canonical    QUICSpec.TransportParameterIDs() == sort(canon(wire ids)), both when
//                    called before the dial and after it
//   id-unstable      clienthellod's fingerprint id is the same on every dial of a QUICID
//   gci-fields       the header fields it hashes (version, DCID/SCID length, first packet number
//                    bytes, token presence) are the same on every dial and are the spec's
//   id-recorded      ... and equals QUICID.Fingerprint where that was recorded with it
//   reuse-<m>        the monitors tp-wire, tp-suppressed, ids-canonical on the second
//                    and third dial of ONE spec object (the caller may have edited the
//                    suppression list in between), under their own keys
//   reuse-order      a reused spec with RandomizeTransportParameters sends a fresh order
//                    (three dials of >= 6 parameters never all show the same order)
//   randomize-noop   with RandomizeTransportParameters the order is not always the spec's own
//   hello-vs-utls    the ClientHello equals what uTLS marshals for the same spec, field by
//                    field (random, key material and GREASE draws masked)
//   perm-coverage / perm-chi2   distribution support for small lists
import (
	"bufio"
	"bytes"
	"context"
	"encoding/binary"
	"fmt"
	"sort"
	"strings"
	"time"

	"github.com/refraction-networking/clienthellod"
	quic "github.com/refraction-networking/uquic"
	u "github.com/refraction-networking/uquic/internal/verifutil"
	tls "github.com/refraction-networking/utls"
)

func init() { units["simfingerprint"] = runSimFingerprint }

// ---- independent readers -------------------------------------------------------------

type fpParam struct {
	ID  uint64
	Val []byte
	// Placeholder: (spec side only) the Go value is the typed tls.InitialSourceConnectionID --
	// the only kind of parameter a dial may fill in, and only when its value is empty. A raw /
	// fake parameter with id 0x0f must reach the wire with the spec's bytes.
	Placeholder bool
	Raw         bool // (spec side only) a *tls.FakeQUICTransportParameter: literal id and bytes
}

// fpRawVerbatim: every raw/fake parameter of the (suppressed) spec list reaches the wire with
// exactly the spec's id and bytes (as a multiset: the order is another monitor's subject).
// Returns the first one that does not.
func fpRawVerbatim(exp, wire []fpParam) *fpParam {
	used := make([]bool, len(wire))
outer:
	for i := range exp {
		if !exp[i].Raw {
			continue
		}
		for j := range wire {
			if !used[j] && wire[j].ID == exp[i].ID && bytes.Equal(wire[j].Val, exp[i].Val) {
				used[j] = true
				continue outer
			}
		}
		return &exp[i]
	}
	return nil
}

// fpAddRawFamily inserts raw/fake parameters whose ids collide with typed ones into the list:
// a raw initial_source_connection_id (0, 8 or 24 bytes; beside or instead of the typed
// placeholder) and raw copies of ids PopulateFromUQUIC does not type-assert (a raw parameter
// with an asserted id makes the dial panic, which is not this property's subject).
func fpAddRawFamily(r *u.Rng, ext *tls.QUICTransportParametersExtension) {
	ins := func(tp tls.TransportParameter) {
		at := r.Intn(len(ext.TransportParameters) + 1)
		ext.TransportParameters = append(ext.TransportParameters[:at:at], append(tls.TransportParameters{tp}, ext.TransportParameters[at:]...)...)
	}
	raw0f := &tls.FakeQUICTransportParameter{Id: 0xf, Val: r.Bytes([]int{0, 8, 24}[r.Intn(3)])}
	if r.Bool() { // instead of the typed placeholder
		for i, tp := range ext.TransportParameters {
			if _, ok := tp.(tls.InitialSourceConnectionID); ok {
				ext.TransportParameters[i] = raw0f
				raw0f = nil
				break
			}
		}
	}
	if raw0f != nil {
		ins(raw0f)
	}
	for _, id := range []uint64{0x2, 0x3, 0xa, 0xc, 0xd, 0x10, 0x11, 0x15} {
		if r.Chance(1, 4) {
			ins(&tls.FakeQUICTransportParameter{Id: id, Val: r.Bytes(r.Intn(9))})
		}
	}
}

func (p fpParam) String() string { return fmt.Sprintf("%x=%x", p.ID, p.Val) }

func fpParamsString(ps []fpParam) string {
	s := make([]string, len(ps))
	for i, p := range ps {
		s[i] = p.String()
	}
	return "[" + strings.Join(s, " ") + "]"
}

// fpReadVarint: RFC 9000 section 16, written here (not quicvarint).
func fpReadVarint(b []byte) (v uint64, n int, ok bool) {
	if len(b) == 0 {
		return 0, 0, false
	}
	n = 1 << (b[0] >> 6)
	if len(b) < n {
		return 0, 0, false
	}
	v = uint64(b[0] & 0x3f)
	for i := 1; i < n; i++ {
		v = v<<8 | uint64(b[i])
	}
	return v, n, true
}

func fpReadParams(ext []byte) ([]fpParam, error) {
	var out []fpParam
	for len(ext) > 0 {
		id, n, ok := fpReadVarint(ext)
		if !ok {
			return out, fmt.Errorf("truncated id")
		}
		ext = ext[n:]
		l, n, ok := fpReadVarint(ext)
		if !ok {
			return out, fmt.Errorf("truncated length of %x", id)
		}
		ext = ext[n:]
		if uint64(len(ext)) < l {
			return out, fmt.Errorf("parameter %x claims %d bytes, %d left", id, l, len(ext))
		}
		out = append(out, fpParam{ID: id, Val: append([]byte{}, ext[:l]...)})
		ext = ext[l:]
	}
	return out, nil
}

type fpExt struct {
	ID   uint16
	Body []byte
}

type fpHello struct {
	Version     uint16
	SessionID   []byte
	Suites      []uint16
	Compression []byte
	Exts        []fpExt
}

func fpParseHello(ch []byte) (*fpHello, error) {
	bad := fmt.Errorf("ClientHello truncated")
	take := func(n int) []byte {
		if n < 0 || len(ch) < n {
			ch = nil
			return nil
		}
		b := ch[:n]
		ch = ch[n:]
		return b
	}
	h := &fpHello{}
	hd := take(4)
	if hd == nil || hd[0] != 1 {
		return nil, fmt.Errorf("not a client_hello handshake message")
	}
	if int(hd[1])<<16|int(hd[2])<<8|int(hd[3]) != len(ch) {
		return nil, fmt.Errorf("handshake length %d != %d", int(hd[1])<<16|int(hd[2])<<8|int(hd[3]), len(ch))
	}
	b := take(2)
	if b == nil {
		return nil, bad
	}
	h.Version = binary.BigEndian.Uint16(b)
	if take(32) == nil {
		return nil, bad
	}
	if b = take(1); b == nil {
		return nil, bad
	}
	if h.SessionID = take(int(b[0])); h.SessionID == nil && b[0] != 0 {
		return nil, bad
	}
	if b = take(2); b == nil {
		return nil, bad
	}
	cs := take(int(binary.BigEndian.Uint16(b)))
	if cs == nil || len(cs)%2 != 0 {
		return nil, bad
	}
	for i := 0; i < len(cs); i += 2 {
		h.Suites = append(h.Suites, binary.BigEndian.Uint16(cs[i:]))
	}
	if b = take(1); b == nil {
		return nil, bad
	}
	if h.Compression = take(int(b[0])); h.Compression == nil {
		return nil, bad
	}
	if b = take(2); b == nil {
		return nil, bad
	}
	exts := take(int(binary.BigEndian.Uint16(b)))
	if exts == nil || len(ch) != 0 {
		return nil, bad
	}
	for len(exts) > 0 {
		if len(exts) < 4 {
			return nil, bad
		}
		id := binary.BigEndian.Uint16(exts)
		l := int(binary.BigEndian.Uint16(exts[2:]))
		exts = exts[4:]
		if len(exts) < l {
			return nil, bad
		}
		h.Exts = append(h.Exts, fpExt{id, exts[:l]})
		exts = exts[l:]
	}
	return h, nil
}

func (h *fpHello) ext(id uint16) ([]byte, int) {
	var body []byte
	n := 0
	for _, e := range h.Exts {
		if e.ID == id {
			if n == 0 {
				body = e.Body
			}
			n++
		}
	}
	return body, n
}

func fpIsGrease(id uint64) bool { return id >= 27 && (id-27)%31 == 0 }

func fpCanonIDs(ps []fpParam) []uint64 {
	ids := make([]uint64, 0, len(ps))
	for _, p := range ps {
		if fpIsGrease(p.ID) {
			ids = append(ids, 27)
		} else {
			ids = append(ids, p.ID)
		}
	}
	sort.Slice(ids, func(i, j int) bool { return ids[i] < ids[j] })
	return ids
}

func fpEqU64(a, b []uint64) bool {
	if len(a) != len(b) {
		return false
	}
	for i := range a {
		if a[i] != b[i] {
			return false
		}
	}
	return true
}

// ---- the spec side -------------------------------------------------------------------

func fpSpecExt(sp *quic.QUICSpec) *tls.QUICTransportParametersExtension {
	if sp == nil || sp.ClientHelloSpec == nil {
		return nil
	}
	for _, e := range sp.ClientHelloSpec.Extensions {
		if q, ok := e.(*tls.QUICTransportParametersExtension); ok {
			return q
		}
	}
	return nil
}

// fpSnapshot lists (id, value) of the spec's parameters. ID() pins a GREASE id, Value() a
// GREASE value (both memoised by uTLS), so the snapshot is what a later dial uses -- except
// version_information, whose GREASE version is re-drawn on every Value() call.
func fpSnapshot(ext *tls.QUICTransportParametersExtension) []fpParam {
	out := make([]fpParam, 0, len(ext.TransportParameters))
	for _, tp := range ext.TransportParameters {
		_, ph := tp.(tls.InitialSourceConnectionID)
		_, raw := tp.(*tls.FakeQUICTransportParameter)
		out = append(out, fpParam{ID: tp.ID(), Val: append([]byte{}, tp.Value()...), Placeholder: ph, Raw: raw})
	}
	return out
}

// fpSortSpec puts the spec's parameters into ascending id order, so that any variation of the
// wire order can only come from the dial-time shuffle (the built-in parrots already shuffle
// when the spec is built).
func fpSortSpec(ext *tls.QUICTransportParametersExtension) {
	sort.SliceStable(ext.TransportParameters, func(i, j int) bool {
		return ext.TransportParameters[i].ID() < ext.TransportParameters[j].ID()
	})
}

func fpIsVersionInfo(id uint64) bool { return id == 0x11 || id == 0xff73db }

// fpValEq: values equal; for version_information 32-bit words are equal or both GREASE.
func fpValEq(id uint64, spec, wire []byte) bool {
	if bytes.Equal(spec, wire) {
		return true
	}
	if !fpIsVersionInfo(id) || len(spec) != len(wire) || len(spec)%4 != 0 {
		return false
	}
	for i := 0; i < len(spec); i += 4 {
		a, b := binary.BigEndian.Uint32(spec[i:]), binary.BigEndian.Uint32(wire[i:])
		// uTLS draws a GREASE version as rand|0x0a0a0a0a (so the low nibbles are a, b, e or f,
		// not always the reserved 0x?a?a?a?a pattern); both sides come from that generator.
		ga, gb := a|0x0a0a0a0a == a, b|0x0a0a0a0a == b
		if a != b && !(ga && gb) {
			return false
		}
	}
	return true
}

// fpExpected: the property's right-hand side, stated directly: the spec's list minus the
// listed ids (all GREASE ids if 27 is listed), order kept; an empty
// initial_source_connection_id stands for the connection's own source connection ID.
func fpExpected(pre []fpParam, suppress []uint64, scid []byte) []fpParam {
	var out []fpParam
	for _, p := range pre {
		drop := false
		for _, s := range suppress {
			if s == p.ID || (s == 27 && fpIsGrease(p.ID)) {
				drop = true
			}
		}
		if drop {
			continue
		}
		if p.ID == 0xf && len(p.Val) == 0 && p.Placeholder {
			p.Val = scid
		}
		out = append(out, p)
	}
	return out
}

func fpSameOrder(exp, wire []fpParam) bool {
	if len(exp) != len(wire) {
		return false
	}
	for i := range exp {
		if exp[i].ID != wire[i].ID || !fpValEq(exp[i].ID, exp[i].Val, wire[i].Val) {
			return false
		}
	}
	return true
}

func fpSameMultiset(exp, wire []fpParam) bool {
	if len(exp) != len(wire) {
		return false
	}
	used := make([]bool, len(wire))
outer:
	for _, e := range exp {
		for j, w := range wire {
			if !used[j] && e.ID == w.ID && fpValEq(e.ID, e.Val, w.Val) {
				used[j] = true
				continue outer
			}
		}
		return false
	}
	return true
}

// ---- one dial ------------------------------------------------------------------------

type fpFlight struct {
	Datagrams [][]byte
	DialErr   string
}

// fpCapture dials once into a black hole and returns what the client sent during the first
// 100 ms of virtual time (the first flight; the first PTO is later).
func fpCapture(sp *quic.QUICSpec) (fl fpFlight, err error) {
	berr := inBubble(func() {
		e, err2 := newSimEnv(simOpts{Spec: sp})
		if err2 != nil {
			err = err2
			return
		}
		e.Router.mu.Lock()
		e.Router.blackhole = true
		e.Router.mu.Unlock()
		ctx, cancel := context.WithTimeout(context.Background(), 100*time.Millisecond)
		conn, derr := e.Dial(ctx)
		cancel()
		if derr != nil {
			fl.DialErr = derr.Error()
		}
		if conn != nil {
			conn.CloseWithError(0, "")
		}
		e.Router.mu.Lock()
		for _, d := range e.Router.log {
			if d.Dir == 0 {
				fl.Datagrams = append(fl.Datagrams, d.Data)
			}
		}
		e.Router.mu.Unlock()
		e.Close()
	})
	if berr != nil && err == nil {
		err = berr
	}
	return
}

type fpObs struct {
	Hello     *fpHello
	HelloRaw  []byte
	Wire      []fpParam
	SCID      []byte
	HexID     string // clienthellod QUICFingerprint id
	GciID     string // id of the gathered Initials (header + frame-type set + token)
	ChID      string
	TpID      string
	FrameSet  string
	NPackets  int
	FrameList string
	Header    string // the header fields clienthellod hashes: version, DCID/SCID length, packet number bytes, token
}

func fpDecode(fl fpFlight) (*fpObs, error) {
	if len(fl.Datagrams) == 0 {
		return nil, fmt.Errorf("no datagram sent (dial: %s)", fl.DialErr)
	}
	gci := clienthellod.GatherClientInitialsWithDeadline(time.Now().Add(time.Hour))
	o := &fpObs{}
	var frames []string
	for i, d := range fl.Datagrams {
		ci, err := clienthellod.UnmarshalQUICClientInitialPacket(d)
		if err != nil {
			return nil, fmt.Errorf("datagram %d: %v", i, err)
		}
		if i == 0 {
			// source connection ID straight from the long header
			dl := int(d[5])
			sl := int(d[6+dl])
			o.SCID = append([]byte{}, d[7+dl:7+dl+sl]...)
		}
		frames = append(frames, fmt.Sprint(ci.FrameTypes))
		if err := gci.AddPacket(ci); err != nil {
			return nil, fmt.Errorf("gathering datagram %d: %v", i, err)
		}
		if gci.Completed() {
			o.NPackets = i + 1
			break
		}
	}
	o.FrameList = strings.Join(frames, "|")
	if !gci.Completed() || gci.ClientHello == nil {
		return nil, fmt.Errorf("ClientHello does not reassemble from %d datagrams (frames %s)", len(fl.Datagrams), o.FrameList)
	}
	fp, err := clienthellod.GenerateQUICFingerprint(gci)
	if err != nil {
		return nil, err
	}
	o.HexID, o.GciID, o.TpID = fp.HexID, gci.HexID, gci.TransportParameters.HexID
	o.ChID = clienthellod.FingerprintID(gci.ClientHello.NormNumID).AsHex()
	set := map[uint64]bool{}
	for _, p := range gci.Packets {
		for _, t := range p.FrameTypes {
			set[t] = true
		}
	}
	var ts []int
	for t := range set {
		ts = append(ts, int(t))
	}
	sort.Ints(ts)
	o.FrameSet = fmt.Sprint(ts)
	if h := gci.Packets[0].Header; h != nil {
		o.Header = fmt.Sprintf("v=%x dcid=%d scid=%d pn=%x token=%v", []byte(h.Version), h.DCIDLength, h.SCIDLength, []byte(h.PacketNumber), h.HasToken)
	}
	o.HelloRaw = gci.ClientHello.Raw()
	h, err := fpParseHello(o.HelloRaw)
	if err != nil {
		return nil, err
	}
	o.Hello = h
	body, cnt := h.ext(57)
	if cnt != 1 {
		return nil, fmt.Errorf("%d quic_transport_parameters extensions", cnt)
	}
	o.Wire, err = fpReadParams(body)
	if err != nil {
		return nil, fmt.Errorf("extension 57: %v", err)
	}
	return o, nil
}

// fpHelloOnly: SCID, ClientHello, extension 57 and key shares of a first flight, using only
// clienthellod's PACKET decoder (keys, header protection, AEAD, frame reader) and a CRYPTO
// reassembly written here -- not clienthellod's ClientHello parser, which gives up on a
// malformed key_share extension (the monitor must see exactly that).
func fpHelloOnly(fl fpFlight) (*fpObs, error) {
	if len(fl.Datagrams) == 0 {
		return nil, fmt.Errorf("no datagram sent (dial: %s)", fl.DialErr)
	}
	o := &fpObs{}
	type frag struct {
		off  uint64
		data []byte
	}
	var frags []frag
	for i, d := range fl.Datagrams {
		_, frames, err := clienthellod.DecodeQUICHeaderAndFrames(d)
		if err != nil {
			return nil, fmt.Errorf("datagram %d: %v", i, err)
		}
		if i == 0 {
			dl := int(d[5])
			sl := int(d[6+dl])
			o.SCID = append([]byte{}, d[7+dl:7+dl+sl]...)
		}
		for _, f := range frames {
			if c, ok := f.(*clienthellod.CRYPTO); ok {
				frags = append(frags, frag{c.Offset, c.Data()})
			}
		}
	}
	sort.Slice(frags, func(i, j int) bool { return frags[i].off < frags[j].off })
	var buf []byte
	for _, f := range frags {
		if f.off > uint64(len(buf)) {
			return nil, fmt.Errorf("CRYPTO stream has a hole at %d", len(buf))
		}
		if end := f.off + uint64(len(f.data)); end > uint64(len(buf)) {
			buf = append(buf, f.data[uint64(len(buf))-f.off:]...)
		}
	}
	if len(buf) < 4 {
		return nil, fmt.Errorf("CRYPTO stream of %d bytes", len(buf))
	}
	n := 4 + (int(buf[1])<<16 | int(buf[2])<<8 | int(buf[3]))
	if len(buf) < n {
		return nil, fmt.Errorf("ClientHello of %d bytes, %d sent", n, len(buf))
	}
	o.HelloRaw = buf[:n]
	h, err := fpParseHello(o.HelloRaw)
	if err != nil {
		return nil, err
	}
	o.Hello = h
	body, cnt := h.ext(57)
	if cnt != 1 {
		return nil, fmt.Errorf("%d quic_transport_parameters extensions", cnt)
	}
	if o.Wire, err = fpReadParams(body); err != nil {
		return nil, fmt.Errorf("extension 57: %v", err)
	}
	return o, nil
}

// ---- key shares -------------------------------------------------------------------------

type fpKeyShare struct {
	Group uint16
	Data  []byte
}

func fpKeySharesString(ks []fpKeyShare) string {
	s := make([]string, len(ks))
	for i, k := range ks {
		if len(k.Data) > 8 {
			s[i] = fmt.Sprintf("%04x/%d:%x..", k.Group, len(k.Data), k.Data[:8])
		} else {
			s[i] = fmt.Sprintf("%04x/%d:%x", k.Group, len(k.Data), k.Data)
		}
	}
	return "[" + strings.Join(s, " ") + "]"
}

// fpWireKeyShares reads extension 51 of the ClientHello: client_shares<0..2^16-1> of
// (group, key_exchange<1..2^16-1>). A zero-length key_exchange is read, not rejected.
func fpWireKeyShares(h *fpHello) ([]fpKeyShare, error) {
	body, cnt := h.ext(51)
	if cnt != 1 {
		return nil, fmt.Errorf("%d key_share extensions", cnt)
	}
	if len(body) < 2 || int(binary.BigEndian.Uint16(body)) != len(body)-2 {
		return nil, fmt.Errorf("key_share list length field %x for %d bytes", body[:min(2, len(body))], len(body))
	}
	body = body[2:]
	var out []fpKeyShare
	for len(body) > 0 {
		if len(body) < 4 {
			return out, fmt.Errorf("trailing bytes %x", body)
		}
		g, l := binary.BigEndian.Uint16(body), int(binary.BigEndian.Uint16(body[2:]))
		if len(body) < 4+l {
			return out, fmt.Errorf("entry %04x claims %d bytes, %d left", g, l, len(body)-4)
		}
		out = append(out, fpKeyShare{g, append([]byte{}, body[4:4+l]...)})
		body = body[4+l:]
	}
	return out, nil
}

func fpSpecKeyShareExt(sp *quic.QUICSpec) *tls.KeyShareExtension {
	if sp == nil || sp.ClientHelloSpec == nil {
		return nil
	}
	for _, e := range sp.ClientHelloSpec.Extensions {
		if k, ok := e.(*tls.KeyShareExtension); ok {
			return k
		}
	}
	return nil
}

func fpSpecKeyShares(ext *tls.KeyShareExtension) []fpKeyShare {
	var out []fpKeyShare
	for _, k := range ext.KeyShares {
		out = append(out, fpKeyShare{uint16(k.Group), append([]byte{}, k.Data...)})
	}
	return out
}

// fpAddKeyShareData gives the spec key shares that carry Data, as ClientHelloSpecs derived from
// uTLS's Chrome parrots or from a capture do: a GREASE share {GREASE_PLACEHOLDER, {0}} in front,
// and/or a caller-supplied 32-byte x25519 public key in the x25519 entry.
func fpAddKeyShareData(r *u.Rng, ext *tls.KeyShareExtension) {
	mode := r.Intn(3)
	if mode != 1 {
		ext.KeyShares = append([]tls.KeyShare{{Group: tls.GREASE_PLACEHOLDER, Data: []byte{0}}}, ext.KeyShares...)
	}
	if mode != 0 {
		for i := range ext.KeyShares {
			if ext.KeyShares[i].Group == tls.X25519 {
				ext.KeyShares[i].Data = r.Bytes(32)
			}
		}
	}
}

// fpCheckKeyShares: the wire's key_share entries are the spec's: same number, same groups in
// order (a GREASE placeholder is some GREASE value), and where the spec gives key_exchange
// bytes exactly those bytes; where it does not, a generated key (never empty). Returns "" if so.
func fpCheckKeyShares(spec, wire []fpKeyShare) string {
	if len(spec) != len(wire) {
		return fmt.Sprintf("%d entries on the wire, %d in the spec", len(wire), len(spec))
	}
	for i := range spec {
		if fpNorm16(spec[i].Group) != fpNorm16(wire[i].Group) {
			return fmt.Sprintf("entry #%d has group %04x, the spec says %04x", i, wire[i].Group, spec[i].Group)
		}
		if len(spec[i].Data) > 0 && !bytes.Equal(spec[i].Data, wire[i].Data) {
			return fmt.Sprintf("entry #%d (group %04x) carries key_exchange %x (%d bytes), the spec gives %x (%d bytes)", i, wire[i].Group, wire[i].Data[:min(len(wire[i].Data), 40)], len(wire[i].Data), spec[i].Data, len(spec[i].Data))
		}
		if len(wire[i].Data) == 0 {
			return fmt.Sprintf("entry #%d (group %04x) has a zero-length key_exchange", i, wire[i].Group)
		}
	}
	return ""
}

// ---- uTLS as oracle for claim (a) ----------------------------------------------------

func fpGrease16(v uint16) bool { return v&0x0f0f == 0x0a0a && v>>8 == v&0xff }

func fpNorm16(v uint16) uint16 {
	if fpGrease16(v) {
		return 0x0a0a
	}
	return v
}

func fpNormU16List(b []byte) []byte { // every aligned 16-bit unit GREASE-normalised
	out := append([]byte{}, b...)
	for i := 0; i+1 < len(out); i += 2 {
		binary.BigEndian.PutUint16(out[i:], fpNorm16(binary.BigEndian.Uint16(out[i:])))
	}
	return out
}

// fpUTLSHello asks uTLS for the ClientHello of the spec. The content of extension 57 is the
// subject of tp-wire, not of claim (a): the oracle gets a copy of the spec whose transport
// parameter extension carries the parameters seen on the wire as raw parameters (so lengths,
// and with them a Boring-style padding extension, come out the same whether or not the dial
// left its suppressed / permuted / filled-in list in the spec). Key shares are redrawn.
func fpUTLSHello(orig *tls.ClientHelloSpec, wireParams []fpParam, serverName string) (raw []byte, err error) {
	defer func() {
		if r := recover(); r != nil {
			err = fmt.Errorf("uTLS panic: %v", r)
		}
	}()
	c := *orig
	chs := &c
	chs.Extensions = append([]tls.TLSExtension{}, orig.Extensions...)
	for i, e := range chs.Extensions {
		if _, ok := e.(*tls.QUICTransportParametersExtension); ok {
			var l tls.TransportParameters
			for _, p := range wireParams {
				if p.ID == 0 {
					return nil, fmt.Errorf("parameter id 0 on the wire")
				}
				l = append(l, &tls.FakeQUICTransportParameter{Id: p.ID, Val: p.Val})
			}
			chs.Extensions[i] = &tls.QUICTransportParametersExtension{TransportParameters: l}
		}
	}
	uq := tls.UQUICClient(&tls.QUICConfig{TLSConfig: &tls.Config{ServerName: serverName, NextProtos: []string{simALPN}, InsecureSkipVerify: true, MinVersion: tls.VersionTLS13}}, tls.HelloCustom)
	if err := uq.ApplyPreset(chs); err != nil {
		return nil, err
	}
	ctx, cancel := context.WithCancel(context.Background())
	defer cancel()
	if err := uq.Start(ctx); err != nil {
		return nil, err
	}
	defer uq.Close()
	for {
		ev := uq.NextEvent()
		switch ev.Kind {
		case tls.QUICNoEvent:
			return nil, fmt.Errorf("uTLS produced no ClientHello")
		case tls.QUICWriteData:
			if ev.Level == tls.QUICEncryptionLevelInitial {
				return append([]byte{}, ev.Data...), nil
			}
		}
	}
}

// fpCompareECH: encrypted_client_hello (outer, GREASE): type(1) kdf(2) aead(2) config_id(1)
// enc<2> payload<2>.
func fpCompareECH(a, b []byte) string {
	parse := func(x []byte) (hdr []byte, encLen, payLen int, ok bool) {
		if len(x) < 8 {
			return nil, 0, 0, false
		}
		encLen = int(binary.BigEndian.Uint16(x[6:]))
		if len(x) < 8+encLen+2 {
			return nil, 0, 0, false
		}
		payLen = int(binary.BigEndian.Uint16(x[8+encLen:]))
		return x[:5], encLen, payLen, len(x) == 8+encLen+2+payLen
	}
	ha, ea, pa, oka := parse(a)
	hb, eb, pb, okb := parse(b)
	if !oka || !okb || !bytes.Equal(ha, hb) || ea != eb || pa != pb {
		return fmt.Sprintf("encrypted_client_hello %x.. enc %d payload %d vs %x.. enc %d payload %d", ha, ea, pa, hb, eb, pb)
	}
	return ""
}

// fpCompareHello: field-by-field comparison; returns "" when equal under the masks.
// Compared: legacy_version; legacy_session_id length; cipher suites (order, GREASE values
// normalised); compression methods; number, ORDER and ids of the extensions (GREASE ids
// normalised, so a GREASE placeholder must sit at the same position); every extension's
// length (hence the padding length and the total ClientHello length); every extension's body
// byte for byte, except: GREASE placeholders and padding (byte for byte, they are constants),
// key_share (list length, groups GREASE-normalised, key lengths, bytes of GREASE entries; key
// material is random), supported_groups / supported_versions (GREASE-normalised), GREASE ECH
// (type, KDF, AEAD, lengths; the rest is random), quic_transport_parameters (parameter list).
// Not compared (random per connection): client random, session id bytes, key material.
func fpCompareHello(wire, oracle *fpHello) string {
	if wire.Version != oracle.Version {
		return fmt.Sprintf("legacy_version %x vs %x", wire.Version, oracle.Version)
	}
	if len(wire.SessionID) != len(oracle.SessionID) {
		return fmt.Sprintf("session id length %d vs %d", len(wire.SessionID), len(oracle.SessionID))
	}
	if len(wire.Suites) != len(oracle.Suites) {
		return fmt.Sprintf("cipher suites %x vs %x", wire.Suites, oracle.Suites)
	}
	for i := range wire.Suites {
		if fpNorm16(wire.Suites[i]) != fpNorm16(oracle.Suites[i]) {
			return fmt.Sprintf("cipher suites %x vs %x", wire.Suites, oracle.Suites)
		}
	}
	if !bytes.Equal(wire.Compression, oracle.Compression) {
		return fmt.Sprintf("compression %x vs %x", wire.Compression, oracle.Compression)
	}
	if len(wire.Exts) != len(oracle.Exts) {
		return fmt.Sprintf("%d extensions vs %d", len(wire.Exts), len(oracle.Exts))
	}
	for i := range wire.Exts {
		a, b := wire.Exts[i], oracle.Exts[i]
		if fpNorm16(a.ID) != fpNorm16(b.ID) {
			return fmt.Sprintf("extension #%d is %d vs %d", i, a.ID, b.ID)
		}
		if len(a.Body) != len(b.Body) {
			return fmt.Sprintf("extension %d length %d vs %d", a.ID, len(a.Body), len(b.Body))
		}
		switch {
		case fpGrease16(a.ID): // GREASE placeholder: same position (checked above), same body
			if !bytes.Equal(a.Body, b.Body) {
				return fmt.Sprintf("GREASE extension #%d body %x vs %x", i, a.Body, b.Body)
			}
		case a.ID == 21: // padding: same length (checked above), all zero on both sides
			for j := range a.Body {
				if a.Body[j] != 0 || b.Body[j] != 0 {
					return fmt.Sprintf("padding extension is not all zero: %x vs %x", a.Body, b.Body)
				}
			}
		case a.ID == 0xfe0d: // GREASE ECH (outer): type, KDF, AEAD, enc and payload lengths; config id, enc, payload are random
			if d := fpCompareECH(a.Body, b.Body); d != "" {
				return d
			}
		case a.ID == 51: // key_share: list length, groups (GREASE-normalised) and key lengths; a GREASE entry's bytes
			if len(a.Body) < 2 || int(binary.BigEndian.Uint16(a.Body)) != len(a.Body)-2 || !bytes.Equal(a.Body[:2], b.Body[:2]) {
				return fmt.Sprintf("key_share list length %x vs %x (body %d bytes)", a.Body[:2], b.Body[:2], len(a.Body))
			}
			x, y := a.Body[2:], b.Body[2:]
			for len(x) > 0 || len(y) > 0 {
				if len(x) < 4 || len(y) < 4 {
					return fmt.Sprintf("key_share trailing bytes %x vs %x", x, y)
				}
				gx, gy := binary.BigEndian.Uint16(x), binary.BigEndian.Uint16(y)
				lx, ly := int(binary.BigEndian.Uint16(x[2:])), int(binary.BigEndian.Uint16(y[2:]))
				if fpNorm16(gx) != fpNorm16(gy) || lx != ly || len(x) < 4+lx || len(y) < 4+ly {
					return fmt.Sprintf("key_share entry %x/%d vs %x/%d", gx, lx, gy, ly)
				}
				if fpGrease16(gx) && !bytes.Equal(x[4:4+lx], y[4:4+ly]) {
					return fmt.Sprintf("key_share GREASE entry %x vs %x", x[4:4+lx], y[4:4+ly])
				}
				x, y = x[4+lx:], y[4+ly:]
			}
		case a.ID == 10, a.ID == 43: // supported_groups, supported_versions: GREASE-normalised
			pa, pb := a.Body, b.Body
			if a.ID == 43 { // 1-byte length prefix
				pa, pb = pa[1:], pb[1:]
			}
			if !bytes.Equal(fpNormU16List(pa), fpNormU16List(pb)) {
				return fmt.Sprintf("extension %d body %x vs %x", a.ID, a.Body, b.Body)
			}
		case a.ID == 57:
			pa, ea := fpReadParams(a.Body)
			pb, eb := fpReadParams(b.Body)
			if ea != nil || eb != nil || !fpSameOrder(pb, pa) {
				return fmt.Sprintf("extension 57 %x vs %x", a.Body, b.Body)
			}
		default:
			if !bytes.Equal(a.Body, b.Body) {
				return fmt.Sprintf("extension %d body %x vs %x", a.ID, a.Body, b.Body)
			}
		}
	}
	return ""
}

// ---- the scenario --------------------------------------------------------------------

// recorded with clienthellod (DESIGN C11): the Chrome_115 and Firefox_116 identifiers.
var fpRecorded = map[string]bool{"Chrome_115_IPv4": true, "Chrome_115_IPv6": true, "Firefox_116A": true, "Firefox_116B": true, "Firefox_116C": true}

type fpDialCfg struct {
	Name      string
	Suppress  []uint64
	Randomize bool
	IDsBefore bool // call TransportParameterIDs() before the dial
	Emit      bool // print this dial as a correspondence case for the model replay
	EmitDial  bool // group A only: also as an FDial case (every fresh built-in dial that is emitted is an FBuiltin case)
}

// fpSpecExtIDs: the extension ids the spec's extension objects stand for, in order. uTLS is the
// oracle for "which id does this object serialise as" (its own Read writes the id first); the
// objects that cannot be serialised before ApplyPreset are named here: GREASE placeholder
// (0x0a0a: the model folds every GREASE value onto it), padding (21, may be omitted by
// uTLS when the padding rule asks for none), GREASE ECH, quic_transport_parameters (its Len()
// would cache bytes in the spec's object).
func fpSpecExtIDs(chs *tls.ClientHelloSpec) (ids []uint64) {
	for _, e := range chs.Extensions {
		switch x := e.(type) {
		case *tls.UtlsGREASEExtension:
			ids = append(ids, 0x0a0a)
		case *tls.UtlsPaddingExtension:
			ids = append(ids, 21)
		case *tls.QUICTransportParametersExtension:
			ids = append(ids, 57)
		case *tls.GREASEEncryptedClientHelloExtension:
			ids = append(ids, 0xfe0d)
		case *tls.SNIExtension: // empty until ApplyPreset fills in the server name
			ids = append(ids, 0)
		default:
			id := uint64(0xffff)
			func() {
				defer func() { _ = recover() }()
				b := make([]byte, x.Len()+8)
				if n, _ := x.Read(b); n >= 2 {
					id = uint64(b[0])<<8 | uint64(b[1])
				}
			}()
			ids = append(ids, id)
		}
	}
	return ids
}

func (c fpDialCfg) String() string {
	return fmt.Sprintf("quicid=%s suppress=%v randomize=%v idsBefore=%v", c.Name, c.Suppress, c.Randomize, c.IDsBefore)
}

type fpReporter struct {
	w    *bufio.Writer
	seen map[string]int
}

func (r *fpReporter) fail(key, desc, detail string) {
	r.seen[key]++
	if r.seen[key] <= 3 { // a few concrete inputs per key are enough
		fmt.Fprintf(r.w, "MONFAIL\t%s\t%s\t%s\n", key, desc, strings.ReplaceAll(detail, "\n", " "))
	}
}

// fpDialOnce runs the per-dial monitors on sp (which may have been dialled before) and
// returns the observation.
func fpDialOnce(rep *fpReporter, sp *quic.QUICSpec, c fpDialCfg, dialNo int) *fpObs {
	k := "simfingerprint/" + c.Name + "/"
	kw := k // wire monitors of a re-dial of the same spec object get their own keys
	if dialNo > 0 {
		kw = k + "reuse-"
	}
	ext := fpSpecExt(sp)
	if ext == nil {
		rep.fail(k+"capture", "spec has no transport parameter extension", c.String())
		return nil
	}
	pre := fpSnapshot(ext)
	specTerm := ""
	var specExts []uint64
	if c.EmitDial {
		specTerm = uspecdialSpecTerm(ext.TransportParameters)
		specExts = fpSpecExtIDs(sp.ClientHelloSpec)
	}
	var idsBefore []uint64
	if c.IDsBefore {
		idsBefore = sp.TransportParameterIDs()
	}
	var specKeys []fpKeyShare
	if kse := fpSpecKeyShareExt(sp); kse != nil {
		specKeys = fpSpecKeyShares(kse)
	}
	fl, err := fpCapture(sp)
	if err != nil {
		rep.fail(k+"capture", "dial into the simulation failed: "+err.Error(), c.String())
		return nil
	}
	// key shares first, from a decoding that does not depend on clienthellod's ClientHello parser
	var wireKeys []fpKeyShare
	if ho, herr := fpHelloOnly(fl); herr == nil && specKeys != nil {
		wk, kerr := fpWireKeyShares(ho.Hello)
		if kerr == nil {
			wireKeys = wk
		}
		d := ""
		if kerr != nil {
			d = "key_share extension does not parse: " + kerr.Error()
		} else {
			d = fpCheckKeyShares(specKeys, wk)
		}
		if d != "" {
			rep.fail(kw+"key-share", "the key_share extension on the wire is not what the spec describes: "+d,
				fmt.Sprintf("%s dial#%d spec key shares=%s wire key shares=%s", c.String(), dialNo, fpKeySharesString(specKeys), fpKeySharesString(wk)))
		}
	}
	o, err := fpDecode(fl)
	if err != nil {
		rep.fail(k+"capture", "first flight does not decode: "+err.Error(), c.String())
		return nil
	}
	detail := func() string {
		return fmt.Sprintf("%s dial#%d spec=%s wire=%s", c.String(), dialNo, fpParamsString(pre), fpParamsString(o.Wire))
	}
	exp := fpExpected(pre, c.Suppress, o.SCID)
	if c.Randomize {
		if !fpSameMultiset(exp, o.Wire) {
			rep.fail(kw+"tp-wire", "extension 57 is not a permutation of the spec's parameters after suppression", detail())
		}
	} else if !fpSameOrder(exp, o.Wire) {
		rep.fail(kw+"tp-wire", "extension 57 differs from the spec's parameters after suppression (ids, values, order)", detail())
	}
	if m := fpRawVerbatim(exp, o.Wire); m != nil {
		rep.fail(kw+"tp-raw-verbatim", fmt.Sprintf("raw parameter %x=%x of the spec is not on the wire with the spec's bytes", m.ID, m.Val), detail())
	}
	for _, p := range o.Wire {
		for _, s := range c.Suppress {
			if p.ID == s || (s == 27 && fpIsGrease(p.ID)) {
				rep.fail(kw+"tp-suppressed", fmt.Sprintf("suppressed parameter %x is on the wire", p.ID), detail())
			}
		}
	}
	canon := fpCanonIDs(o.Wire)
	if c.IDsBefore && !fpEqU64(idsBefore, canon) {
		rep.fail(kw+"ids-canonical", fmt.Sprintf("TransportParameterIDs() before the dial = %v, canonicalised wire = %v", idsBefore, canon), detail())
	}
	if after := sp.TransportParameterIDs(); !fpEqU64(after, canon) {
		rep.fail(kw+"ids-canonical", fmt.Sprintf("TransportParameterIDs() after the dial = %v, canonicalised wire = %v", after, canon), detail())
	}
	if c.EmitDial { // the dial as a correspondence case: spec as written -> what the wire shows (raw GREASE values)
		var kt, wkt, wet []string
		for _, k := range specKeys {
			kt = append(kt, u.Pair(u.Z(int64(k.Group)), u.Hex(k.Data)))
		}
		for i, k := range wireKeys {
			data := []byte{}
			if i < len(specKeys) && len(specKeys[i].Data) > 0 {
				data = k.Data
			}
			wkt = append(wkt, u.Pair(u.Z(int64(k.Group)), u.Z(int64(len(k.Data))), u.Hex(data)))
		}
		for _, e := range o.Hello.Exts {
			wet = append(wet, u.Z(int64(e.ID)))
		}
		wire := make([]fpParam, len(o.Wire))
		for i, p := range o.Wire {
			wire[i] = fpParam{ID: p.ID, Val: uspecdialMask(p.ID, p.Val)}
		}
		fmt.Fprintf(rep.w, "CASE 1 %s\n", u.App("FDial", specTerm, uZUList(c.Suppress), u.B(c.Randomize), u.Hex(o.SCID),
			u.List(kt), uZUList(specExts), uspecdialWireTerm(wire), u.List(wkt), u.List(wet)))
	}
	return o
}

func runSimFingerprint(w *bufio.Writer, seed uint64, n int, args []string) {
	r := u.NewRng(seed)
	rep := &fpReporter{w: w, seen: map[string]int{}}
	dist := map[string]int{}
	only := ""
	for _, a := range args {
		if strings.HasPrefix(a, "only=") {
			only = a[5:]
		}
	}
	defer func() {
		if p := recover(); p != nil {
			fmt.Fprintf(w, "MONFAIL\tsimfingerprint/panic\t%v\t\n", p)
		}
	}()
	nCases := 0
	for _, name := range parrotNames {
		if only != "" && only != name {
			continue
		}
		k := "simfingerprint/" + name + "/"
		id := parrotIDs[name]
		// --- A: the built-in spec, fresh per dial -------------------------------------
		ids := map[string]int{}
		firstOf := map[string]*fpObs{}
		frameSets := map[string]int{}
		headers := map[string]int{}
		orders := map[string]int{}
		nOracle := 0
		for i := 0; i < n; i++ {
			sp, err := specFor(name)
			if err != nil {
				rep.fail(k+"capture", err.Error(), name)
				break
			}
			c := fpDialCfg{Name: name, IDsBefore: r.Chance(1, 3), Emit: i%4 == 0, EmitDial: i%8 == 0}
			o := fpDialOnce(rep, sp, c, 0)
			nCases++
			if o == nil {
				continue
			}
			if c.Emit { // the fresh built-in dial against the generated table of its QUICID (clause (e))
				q := 0
				for j, nm := range parrotNames {
					if nm == name {
						q = j
					}
				}
				fmt.Fprintf(w, "CASE 1 %s\n", u.App("FBuiltin", u.Z(int64(q)), uspecdialWireTerm(o.Wire)))
			}
			ids[o.HexID]++
			if firstOf[o.HexID] == nil {
				firstOf[o.HexID] = o
			}
			frameSets[o.FrameSet]++
			headers[o.Header]++
			var ord []string
			for _, p := range o.Wire {
				ord = append(ord, fmt.Sprintf("%x", p.ID))
			}
			orders[strings.Join(ord, ",")]++
			if i < 12 || r.Chance(1, 8) { // claim (a): uTLS as oracle
				nOracle++
				oraw, err := fpUTLSHello(sp.ClientHelloSpec, o.Wire, "localhost")
				if err != nil {
					rep.fail(k+"hello-vs-utls", "uTLS oracle failed: "+err.Error(), c.String())
				} else if oh, err := fpParseHello(oraw); err != nil {
					rep.fail(k+"hello-vs-utls", "uTLS oracle output does not parse: "+err.Error(), c.String())
				} else if d := fpCompareHello(o.Hello, oh); d != "" {
					rep.fail(k+"hello-vs-utls", "ClientHello on the wire differs from uTLS's marshalling of the spec: "+d, c.String())
				}
			}
			if i == 0 {
				fmt.Fprintf(w, "SAMPLE\t%s id=%s (gci=%s ch=%s tp=%s) packets=%d frames=%s wire=%s\n", name, o.HexID, o.GciID, o.ChID, o.TpID, o.NPackets, o.FrameList, fpParamsString(o.Wire))
			}
		}
		var idList []string
		for h, c := range ids {
			idList = append(idList, fmt.Sprintf("%s x%d frames=%s gci=%s ch=%s tp=%s", h, c, firstOf[h].FrameSet, firstOf[h].GciID, firstOf[h].ChID, firstOf[h].TpID))
		}
		sort.Strings(idList)
		fmt.Fprintf(w, "INFO\t%s: %d dials, recorded=%s, ids: %s; frame-type sets %v; %d distinct parameter orders; %d ClientHellos compared with uTLS's marshalling\n", name, n, id.Fingerprint, strings.Join(idList, " ; "), frameSets, len(orders), nOracle)
		fmt.Fprintf(w, "INFO\tfingerprint quicid=%s dials=%d seed=%d\n", name, n, seed)
		if len(ids) > 1 {
			rep.fail(k+"id-unstable", fmt.Sprintf("the reference fingerprint id is not the same on every dial: %d different ids in %d dials", len(ids), n), strings.Join(idList, " ; "))
		}
		if fpRecorded[name] {
			for h, c := range ids {
				if h != id.Fingerprint {
					rep.fail(k+"id-recorded", fmt.Sprintf("fingerprint id %s (on %d of %d dials) differs from the recorded %s", h, c, n, id.Fingerprint), fmt.Sprintf("frames=%s gci=%s ch=%s tp=%s", firstOf[h].FrameSet, firstOf[h].GciID, firstOf[h].ChID, firstOf[h].TpID))
				}
			}
		}
		// C11_fp_features_deterministic on the implementation: the hashed header fields are the
		// same on every dial and are what the spec says
		{
			ips := func() quic.InitialPacketSpec { sp, _ := specFor(name); return sp.InitialPacketSpec }()
			pnLen := int(ips.InitPacketNumberLength)
			if len(ips.InitPacketNumberLengths) > 0 {
				pnLen = int(ips.InitPacketNumberLengths[0])
			}
			pnb := make([]byte, pnLen)
			for i := range pnb {
				pnb[pnLen-1-i] = byte(ips.InitPacketNumber >> (8 * uint(i)))
			}
			want := fmt.Sprintf("v=00000001 dcid=%d scid=%d pn=%x token=%v", ips.DestConnIDLength, ips.SrcConnIDLength, pnb, ips.ClientTokenLength > 0)
			for h, c := range headers {
				if h != want || len(headers) > 1 {
					rep.fail(k+"gci-fields", fmt.Sprintf("hashed header fields on %d of %d dials: %s; the spec says %s", c, n, h, want), name)
				}
			}
		}
		for fs, c := range frameSets {
			fmt.Fprintf(w, "DIST\t%s frames=%s\t%d\n", name, fs, c)
		}
		// --- B: derived specs: suppression subsets, dial-time shuffle, spec reuse ------
		nb := n / 4
		if nb < 6 {
			nb = 6
		}
		nRand, nRandSame := 0, 0
		for i := 0; i < nb; i++ {
			sp, err := specFor(name)
			if err != nil {
				break
			}
			ext := fpSpecExt(sp)
			if i%2 == 0 {
				fpSortSpec(ext) // a spec written in a fixed order
			}
			if i%3 == 1 {
				fpAddRawFamily(r, ext) // raw parameters with the ids of typed ones
			}
			if kse := fpSpecKeyShareExt(sp); kse != nil && i%3 == 2 {
				fpAddKeyShareData(r, kse) // key shares that carry Data (GREASE share, supplied public key)
				if r.Bool() { // GREASE placeholder extensions, Chrome style: first, and before the last
					chs := sp.ClientHelloSpec
					n := len(chs.Extensions)
					exts := append([]tls.TLSExtension{&tls.UtlsGREASEExtension{}}, chs.Extensions[:n-1]...)
					exts = append(exts, &tls.UtlsGREASEExtension{Body: []byte{0}}, chs.Extensions[n-1])
					chs.Extensions = exts
				}
			}
			pre := fpSnapshot(ext)
			c := fpDialCfg{Name: name, Randomize: r.Chance(2, 3), IDsBefore: r.Bool(), Emit: true, EmitDial: true}
			// suppression subset: ids of the list (never initial_source_connection_id: a
			// server is not needed here, but keep the flight well-formed), 27, unknown ids
			for _, p := range pre {
				if p.ID != 0xf && r.Chance(1, 5) {
					c.Suppress = append(c.Suppress, p.ID)
				}
			}
			if r.Chance(1, 3) {
				c.Suppress = append(c.Suppress, 27)
			}
			if r.Chance(1, 4) {
				c.Suppress = append(c.Suppress, uint64(r.Range(0x40, 0x4000)))
			}
			if r.Chance(1, 6) {
				c.Suppress = nil
			}
			redials := 1 + r.Intn(3)
			growSuppress := r.Chance(1, 3)
			if i == 0 { // always present: one spec object, randomised, dialled three times
				c.Suppress, c.Randomize, redials, growSuppress = nil, true, 3, false
			}
			sp.SuppressTransportParameters = c.Suppress
			sp.RandomizeTransportParameters = c.Randomize
			seenOrders := map[string]bool{}
			nparams := 0
			for d := 0; d < redials; d++ {
				if d > 0 && growSuppress { // the caller edits the suppression list between dials
					cur := fpSnapshot(ext)
					for _, p := range cur {
						if p.ID != 0xf && r.Chance(1, 3) {
							c.Suppress = append(append([]uint64{}, c.Suppress...), p.ID)
							break
						}
					}
					sp.SuppressTransportParameters = c.Suppress
				}
				o := fpDialOnce(rep, sp, c, d)
				nCases++
				if o == nil {
					break
				}
				var ord []string
				for _, p := range o.Wire {
					ord = append(ord, fmt.Sprintf("%x", p.ID))
				}
				nparams = len(ord)
				seenOrders[strings.Join(ord, ",")] = true
				if d == 0 && c.Randomize && nparams >= 6 { // is the order the spec's own order?
					var specOrd []string
					for _, p := range fpExpected(pre, c.Suppress, o.SCID) {
						specOrd = append(specOrd, fmt.Sprintf("%x", p.ID))
					}
					nRand++
					if strings.Join(specOrd, ",") == strings.Join(ord, ",") {
						nRandSame++
					}
				}
			}
			dist["derived redials="+fmt.Sprint(redials)]++
			if c.Randomize && redials == 3 && nparams >= 6 && len(seenOrders) == 1 {
				rep.fail(k+"reuse-order", "three dials of one spec with RandomizeTransportParameters sent the same parameter order (6 or more parameters)", c.String())
			}
		}
		if nRand >= 3 && nRandSame == nRand {
			rep.fail(k+"randomize-noop", fmt.Sprintf("RandomizeTransportParameters: all %d first dials (6 or more parameters) sent the spec's own order", nRand), name)
		}
	}
	fpDistribution(w, r, rep, n)
	for k, v := range dist {
		fmt.Fprintf(w, "DIST\t%s\t%d\n", k, v)
	}
	fmt.Fprintf(w, "DIST\tdials\t%d\n", nCases)
}

// fpDistribution: support for the distribution claim on small lists through real dials:
// Chrome_115 with all but k parameters suppressed and RandomizeTransportParameters on.
func fpDistribution(w *bufio.Writer, r *u.Rng, rep *fpReporter, n int) {
	const name = "Chrome_115_IPv4"
	keep := []uint64{0x1, 0x4, 0x8} // 3 parameters -> 6 orders
	dials := 6 * 20
	if n >= 1000 {
		dials = 6 * 100
	}
	counts := map[string]int{}
	for i := 0; i < dials; i++ {
		sp, err := specFor(name)
		if err != nil {
			return
		}
		fpSortSpec(fpSpecExt(sp))
		pre := fpSnapshot(fpSpecExt(sp))
		c := fpDialCfg{Name: name, Randomize: true, Emit: i%3 == 0, EmitDial: i%3 == 0}
		for _, p := range pre {
			kept := false
			for _, id := range keep {
				kept = kept || id == p.ID
			}
			if !kept {
				c.Suppress = append(c.Suppress, p.ID)
			}
		}
		sp.SuppressTransportParameters = c.Suppress
		sp.RandomizeTransportParameters = true
		o := fpDialOnce(rep, sp, c, 0)
		if o == nil {
			continue
		}
		var ord []string
		for _, p := range o.Wire {
			ord = append(ord, fmt.Sprintf("%x", p.ID))
		}
		counts[strings.Join(ord, ",")]++
	}
	fmt.Fprintf(w, "INFO\tdistribution quicid=%s keep=%v dials=%d\n", name, keep, dials)
	if len(counts) != 6 {
		rep.fail("simfingerprint/perm-coverage", fmt.Sprintf("only %d of 6 orders of a 3-parameter list seen in %d dials", len(counts), dials), fmt.Sprint(counts))
	}
	exp := float64(dials) / 6
	chi := 0.0
	for _, c := range counts {
		chi += (float64(c) - exp) * (float64(c) - exp) / exp
	}
	chi += float64(6-len(counts)) * exp
	fmt.Fprintf(w, "INFO\tdistribution over 6 orders in %d dials: %v chi2=%.2f (5 dof; bound 30)\n", dials, counts, chi)
	if chi > 30 { // p < 1.5e-5 for 5 degrees of freedom
		rep.fail("simfingerprint/perm-chi2", fmt.Sprintf("order frequencies of a 3-parameter list deviate from uniform: chi2=%.1f", chi), fmt.Sprint(counts))
	}
}
