//go:build verif

package main

import (
	"bufio"
	"fmt"
	"math/big"
	"strings"
	"time"

	"github.com/refraction-networking/uquic/internal/congestion"
	"github.com/refraction-networking/uquic/internal/protocol"
	u "github.com/refraction-networking/uquic/internal/verifutil"
)

// Unit "cubic" (property C20): the real congestion.cubicSender, built by NewCubicSender as
// production does, driven with generated event histories. Every op logs the observable
// state the implementation reached; the Gallina model (coq/Congestion) replays the same
// ops. The monitors below state C20 directly on the implementation's trace.

func init() {
	units["cubic"] = runCubic
	genSources = append(genSources, congestion.VerifConsts)
}

const (
	ccMaxWindowPackets = int64(protocol.MaxCongestionWindowPackets) // the property's "configured maximum", in packets
	ccMinWindowPackets = 2                                          // "two full-size packets"
)

func durationNs(n int64) time.Duration { return time.Duration(n) }

type cubicGen struct {
	r       *u.Rng
	v       *congestion.VerifSender
	w       *bufio.Writer
	steps   []string
	trace   []string // human-readable, for MONFAIL details
	now     int64
	mds0    int64 // generator keeps mds <= 16*mds0 so that the initial window (32*mds0) stays a legal window for OnConnectionMigration
	nextPN  int64
	nextPN2 int64      // packet numbers of a second packet number space
	infl    [][2]int64 // (pn, size) of ack-eliciting packets in flight, per the harness's own bookkeeping
	bif     int64
	// monitor state (independent of the implementation's fields)
	maxSentPN        int64 // largest ack-eliciting pn handed to OnPacketSent
	cutMarker        int64 // maxSentPN at the last observed loss-induced reduction; -1 = none / reset
	belowMinSinceMtu bool
	changed          bool
	nomon            bool // arbitrary-initial-window cases (non-production constructor): correspondence only
	dist             map[string]int
	reported         map[string]bool
}

func (g *cubicGen) monfail(key, desc string) {
	if g.nomon {
		return
	}
	if !g.v.State().Reno {
		// Cubic mode is never constructed by production (both NewCubicSender call sites pass
		// reno=true): its histories are not behaviours of the system, so what the monitors see
		// there is information, not a finding. (The correspondence still covers cubic mode.)
		key = strings.Replace(key, "cubic/", "cubicmode/", 1)
		g.dist["info-"+key]++
		if !g.reported[key] {
			g.reported[key] = true
			fmt.Fprintf(g.w, "INFO\tcubic mode (dead code in production), %s: %s\n", key, desc)
		}
		return
	}
	if g.reported[key] {
		return
	}
	g.reported[key] = true
	fmt.Fprintf(g.w, "MONFAIL\t%s\t%s\t%s\n", key, desc, strings.Join(g.trace, " "))
}

func obStr(ret int64, pan bool, s congestion.VerifState) string {
	return congestion.VerifObStr(ret, pan, s)
}

func b2i(b bool) int64 {
	if b {
		return 1
	}
	return 0
}

// do runs one op on the implementation (recovering panics), logs it, and runs the monitors.
func (g *cubicGen) do(kind string, opTerm string, f func() int64) (ret int64, panicked bool) {
	before := g.v.State()
	func() {
		defer func() {
			if e := recover(); e != nil {
				panicked = true
			}
		}()
		ret = f()
	}()
	after := g.v.State()
	g.steps = append(g.steps, u.Pair(opTerm, obStr(ret, panicked, after)))
	g.trace = append(g.trace, opTerm)
	g.dist[kind]++
	if after.Cwnd != before.Cwnd {
		g.changed = true
	}
	g.monitor(kind, before, after, panicked)
	return
}

func (g *cubicGen) monitor(kind string, b, a congestion.VerifState, panicked bool) {
	if g.nomon {
		return
	}
	if panicked {
		if kind == "setmds-dec" {
			return // documented "congestion BUG" panic on a decreasing size, nothing else
		}
		if kind == "timeuntil" {
			// the run loop calls TimeUntilSend whenever SendMode is pacing-limited: a panic here kills the process
			g.monfail("cubic/time-until-send-div-zero", fmt.Sprintf("TimeUntilSend panics (division by a zero bandwidth estimate: cwnd %d bytes, smoothed RTT %d ns)", b.Cwnd, g.srtt()))
			return
		}
		g.monfail("cubic/panic", "panic in "+kind)
		return
	}
	// (a) window bounds after every event
	maxW := new(big.Int).Mul(big.NewInt(a.Mds), big.NewInt(ccMaxWindowPackets))
	upper := new(big.Int).Add(maxW, big.NewInt(a.Mds))
	if big.NewInt(a.Cwnd).Cmp(upper) > 0 {
		g.monfail("cubic/cwnd-above-max", fmt.Sprintf("cwnd %d > max %s + one packet (mds %d) after %s", a.Cwnd, maxW, a.Mds, kind))
	}
	if a.Cwnd < ccMinWindowPackets*a.Mds {
		switch {
		case kind == "setmds" && b.Cwnd >= ccMinWindowPackets*b.Mds:
			g.belowMinSinceMtu = true
			g.dist["min-after-mtu"]++
			g.monfail("cubic/min-after-mtu", fmt.Sprintf("SetMaxDatagramSize(%d) leaves cwnd %d below two full-size packets (%d); it was %d >= old minimum %d", a.Mds, a.Cwnd, 2*a.Mds, b.Cwnd, 2*b.Mds))
		case g.belowMinSinceMtu && a.Cwnd >= b.Cwnd:
			// still the consequence of the MTU increase already reported
		default:
			g.monfail("cubic/cwnd-below-min", fmt.Sprintf("cwnd %d < 2*mds (%d) after %s", a.Cwnd, 2*a.Mds, kind))
		}
	} else {
		g.belowMinSinceMtu = false
	}
	switch kind {
	case "acked", "ackrun":
		// (b2) never shrinks on ACK
		if a.Cwnd < b.Cwnd {
			g.monfail("cubic/ack-shrinks", fmt.Sprintf("cwnd %d -> %d on ACK", b.Cwnd, a.Cwnd))
		}
	case "exitss", "sent", "sent-nonretrans":
		if a.Cwnd != b.Cwnd {
			g.monfail("cubic/cwnd-changed-by-"+kind, fmt.Sprintf("cwnd %d -> %d", b.Cwnd, a.Cwnd))
		}
	}
}

// growth only when window-limited: checked per single ACK with the documented condition
func (g *cubicGen) monitorGrowth(b, a congestion.VerifState, prior int64) {
	if a.Cwnd <= b.Cwnd {
		return
	}
	limited := prior >= b.Cwnd || b.Cwnd-prior <= 3*b.Mds || (b.Cwnd < b.Ssthresh && prior > b.Cwnd/2)
	if !limited {
		g.monfail("cubic/growth-not-limited", fmt.Sprintf("cwnd grew %d -> %d with %d in flight (not window-limited, mds %d, ssthresh %d)", b.Cwnd, a.Cwnd, prior, b.Mds, b.Ssthresh))
	}
	if b.Cwnd >= ccMaxWindowPackets*b.Mds {
		g.monfail("cubic/growth-at-max", fmt.Sprintf("cwnd grew %d -> %d although already at the maximum %d", b.Cwnd, a.Cwnd, ccMaxWindowPackets*b.Mds))
	}
}

func (g *cubicGen) srtt() int64 { return int64(g.v.Rtt.SmoothedRTT()) }

func (g *cubicGen) advance() {
	r := g.r
	switch r.Intn(12) {
	case 0:
	case 1:
		g.now += 1
	case 2, 3, 4:
		g.now += int64(r.Range(1, 2000)) * 1000
	case 5, 6, 7:
		g.now += int64(r.Range(1, 50)) * 1_000_000
	case 8:
		g.now += int64(r.Range(1, 10)) * 1_000_000_000
	case 9:
		g.now += 999_999 + int64(r.Range(0, 2))
	case 10:
		g.now += 2_000_000 + int64(r.Range(-1, 1))
	case 11:
		if r.Chance(1, 6) {
			g.now += 1 << uint(r.Range(33, 60))
		}
	}
}

func (g *cubicGen) opSent() {
	r := g.r
	g.advance()
	st := g.v.State()
	size := st.Mds
	switch r.Intn(8) {
	case 0:
		size = int64(r.Range(1, int(min64(st.Mds, 1<<20))))
	case 1:
		size = int64(r.Range(20, 60))
	case 2:
		size = st.Mds + int64(r.Range(-1, 1))
	}
	retrans := !r.Chance(1, 7)
	pn := g.nextPN
	if r.Chance(1, 6) {
		// a packet of another packet number space (Initial / Handshake): its own, lower counter
		pn = g.nextPN2
		g.nextPN2++
		g.dist["sent-other-pn-space"]++
	} else {
		g.nextPN++
		if r.Chance(1, 15) {
			g.nextPN += int64(r.Range(1, 3)) // skipped packet numbers
		}
	}
	// pacing gate as production uses it (SendMode): only a statistic here
	srtt := g.srtt()
	kind := "sent"
	if !retrans {
		kind = "sent-nonretrans"
	}
	now := g.now
	g.do(kind, u.App("Sent", u.Z(now), u.Z(pn), u.Z(size), u.B(retrans), u.Z(srtt)), func() int64 {
		g.v.OnPacketSent(now, pn, size, retrans)
		return 0
	})
	if retrans {
		g.infl = append(g.infl, [2]int64{pn, size})
		g.bif += size
		if pn > g.maxSentPN {
			g.maxSentPN = pn
		}
	}
}

func min64(a, b int64) int64 {
	if a < b {
		return a
	}
	return b
}

// pickPrior: bytes in flight reported with an ack/loss: usually the harness's own count,
// often a boundary of the window-limited predicate.
func (g *cubicGen) pickPrior() int64 {
	r := g.r
	st := g.v.State()
	w, m := st.Cwnd, st.Mds
	switch r.Intn(14) {
	case 0:
		return w
	case 1:
		return w - 1
	case 2:
		return w - 3*m
	case 3:
		return w - 3*m - 1
	case 4:
		return w/2 + 1
	case 5:
		return w / 2
	case 6:
		return 0
	case 7:
		return w + int64(r.Range(0, 5000))
	case 8:
		return w - 3*m + 1
	case 9:
		if w > 0 {
			return int64(r.U64() % uint64(w))
		}
	}
	return g.bif
}

func (g *cubicGen) takeInflight(idx int) (pn, size int64) {
	p := g.infl[idx]
	g.infl = append(g.infl[:idx:idx], g.infl[idx+1:]...)
	g.bif -= p[1]
	return p[0], p[1]
}

func (g *cubicGen) rttSample() {
	r := g.r
	var d, ad int64
	switch r.Intn(8) {
	case 0:
		d = int64(r.Range(1, 999)) // sub-microsecond: smoothed RTT collapses to 0
	case 1:
		d = int64(r.Range(1, 50)) * 1000
	case 2, 3, 4:
		d = int64(r.Range(1, 300)) * 1_000_000
	case 5:
		d = int64(r.Range(1, 60)) * 1_000_000_000
	case 6:
		d = 1 << uint(r.Range(20, 61))
	case 7:
		d = int64(g.v.Rtt.MinRTT()) + int64(r.Pick(3_999_999, 4_000_000, 4_000_001, 16_000_000, 16_000_001, 2_000_000))
	}
	if r.Chance(1, 3) {
		ad = int64(r.Range(0, 30)) * 1_000_000
	}
	g.v.Rtt.UpdateRTT(durationNs(d), durationNs(ad))
	g.dist["rtt-sample"]++
}

// opHystartBurst: eight RTT samples just around the delay-increase threshold of hybrid slow
// start (min RTT + clamp(min RTT/8, 4ms, 16ms)), each followed by MaybeExitSlowStart.
func (g *cubicGen) opHystartBurst() {
	r := g.r
	mn := int64(g.v.Rtt.MinRTT())
	thrUs := mn / 1000 / 8
	if thrUs > 16000 {
		thrUs = 16000
	}
	if thrUs < 4000 {
		thrUs = 4000
	}
	off := r.Pick(1, 1, 1, 0, 1000, 5_000_000)
	for j := 0; j < 8+r.Intn(2); j++ {
		d := mn + thrUs*1000 + off
		if r.Chance(1, 12) {
			d += r.Pick(-1, -1000, 1)
		}
		g.v.Rtt.UpdateRTT(durationNs(d), 0)
		g.dist["rtt-sample"]++
		g.opExitSS()
	}
}

func (g *cubicGen) opExitSS() {
	lat, mn := int64(g.v.Rtt.LatestRTT()), int64(g.v.Rtt.MinRTT())
	b := g.v.State()
	wasSS := g.v.InSlowStart()
	g.do("exitss", u.App("ExitSS", u.Z(lat), u.Z(mn)), func() int64 { g.v.MaybeExitSlowStart(); return 0 })
	a := g.v.State()
	// which path of HybridSlowStart.ShouldExitSlowStart / MaybeExitSlowStart was taken (coverage statistics)
	switch {
	case !wasSS:
		g.dist["hystart-not-in-slow-start"]++
	case a.Ssthresh != b.Ssthresh && b.HsFound:
		g.dist["hystart-exit"]++
		g.dist["hystart-exit-found-in-earlier-call"]++
	case a.Ssthresh != b.Ssthresh:
		g.dist["hystart-exit"]++
		g.dist["hystart-exit-at-8th-sample"]++
	case a.HsFound:
		g.dist["hystart-found-but-window-below-16-packets"]++
	case a.HsCount == 8:
		g.dist["hystart-8th-sample-no-delay-increase"]++
	}
	if wasSS && !b.HsStarted && a.HsStarted {
		g.dist["hystart-round-start"]++
	}
	if !b.HsFound && a.HsFound {
		switch thrUs := mn / 1000 / 8; {
		case thrUs < 4000:
			g.dist["hystart-found-threshold-clamped-to-4ms"]++
		case thrUs > 16000:
			g.dist["hystart-found-threshold-clamped-to-16ms"]++
		default:
			g.dist["hystart-found-threshold-minrtt-over-8"]++
		}
	}
	// (model-independent) MaybeExitSlowStart never touches the window; ssthresh can only drop to it
	if a.Ssthresh != b.Ssthresh && (a.Ssthresh != b.Cwnd || b.Cwnd >= b.Ssthresh) {
		g.monfail("cubic/exitss-ssthresh", fmt.Sprintf("MaybeExitSlowStart moved ssthresh %d -> %d with cwnd %d", b.Ssthresh, a.Ssthresh, b.Cwnd))
	}
}

// opHystartScenario: slow start as it really proceeds — rounds of about nine packets sent
// back to back and acknowledged one by one, each ACK bringing an RTT sample and a call of
// MaybeExitSlowStart; the RTT of the last round rises above min RTT + clamp(min RTT/8, 4ms, 16ms)
// (or stays just at/below it), for min RTTs in all three clamp regimes.
func (g *cubicGen) opHystartScenario() {
	r := g.r
	var base int64
	switch r.Intn(3) {
	case 0:
		base = int64(r.Range(2, 30)) * 1_000_000 // threshold clamped to 4ms
	case 1:
		base = int64(r.Range(33, 120)) * 1_000_000 // threshold = min RTT / 8
	default:
		base = int64(r.Range(130, 400)) * 1_000_000 // threshold clamped to 16ms
	}
	g.v.Rtt.UpdateRTT(durationNs(base), 0)
	g.dist["rtt-sample"]++
	mn := int64(g.v.Rtt.MinRTT())
	thrUs := mn / 1000 / 8
	if thrUs > 16000 {
		thrUs = 16000
	}
	if thrUs < 4000 {
		thrUs = 4000
	}
	thr := thrUs * 1000
	smallWindow := r.Chance(1, 3)
	if smallWindow {
		// a window below 16 packets in slow start (only after a retransmission timeout): delay increase is noted but no exit
		g.do("rto", u.App("RTO", "true"), func() int64 { g.v.OnRetransmissionTimeout(true); return 0 })
		g.cutMarker = -1
	}
	rounds := r.Range(2, 3)
	if smallWindow {
		rounds = 3 // the delay increase is found in the first round(s); the exit follows once the window has grown to 16 packets
	}
	for rd := 0; rd < rounds; rd++ {
		k := r.Range(9, 10)
		var pns []int64
		size := g.v.State().Mds
		for i := 0; i < k; i++ {
			pn, now, srtt := g.nextPN, g.now, g.srtt()
			g.nextPN++
			g.do("sent", u.App("Sent", u.Z(now), u.Z(pn), u.Z(size), "true", u.Z(srtt)), func() int64 { g.v.OnPacketSent(now, pn, size, true); return 0 })
			g.infl = append(g.infl, [2]int64{pn, size})
			g.bif += size
			if pn > g.maxSentPN {
				g.maxSentPN = pn
			}
			pns = append(pns, pn)
			g.now += int64(r.Range(1, 200)) * 1000
		}
		inc := r.Pick(0, thr/2, thr-1, thr)
		if (rd == rounds-1 || smallWindow) && !r.Chance(1, 5) {
			inc = thr + r.Pick(1, 1, 1000, 5_000_000)
		}
		g.now += mn + inc
		for _, pn := range pns {
			g.v.Rtt.UpdateRTT(durationNs(mn+inc+int64(r.Range(0, 300))*1000), 0)
			g.dist["rtt-sample"]++
			g.opExitSS()
			for i, p := range g.infl {
				if p[0] == pn {
					g.takeInflight(i)
					break
				}
			}
			prior, now := g.bif+size, g.now
			orc := int64(0)
			if !g.v.State().Reno {
				orc = g.v.CubicAfterAckOracle(size, now)
			}
			b := g.v.State()
			g.do("acked", u.App("Acked", u.Z(pn), u.Z(size), u.Z(prior), u.Z(now), u.Z(orc)), func() int64 { g.v.OnPacketAcked(pn, size, prior, now); return 0 })
			g.monitorGrowth(b, g.v.State(), prior)
			g.now += int64(r.Range(1, 200)) * 1000
		}
	}
	g.dist["hystart-scenario"]++
}

func (g *cubicGen) opAcked() {
	r := g.r
	g.advance()
	if r.Chance(1, 2) {
		g.rttSample()
		g.opExitSS()
	}
	prior := g.pickPrior()
	var pn, size int64
	if len(g.infl) > 0 && !r.Chance(1, 10) {
		idx := 0
		if r.Chance(1, 4) {
			idx = r.Intn(len(g.infl))
		}
		pn, size = g.takeInflight(idx)
	} else {
		pn, size = int64(r.Range(-1, int(g.nextPN)+2)), int64(r.Range(0, 1500))
	}
	now := g.now
	orc := int64(0)
	if !g.v.State().Reno {
		orc = g.v.CubicAfterAckOracle(size, now)
	}
	b := g.v.State()
	g.do("acked", u.App("Acked", u.Z(pn), u.Z(size), u.Z(prior), u.Z(now), u.Z(orc)), func() int64 {
		g.v.OnPacketAcked(pn, size, prior, now)
		return 0
	})
	a := g.v.State()
	g.monitorGrowth(b, a, prior)
	if a.Cwnd > b.Cwnd {
		g.dist["ack-grew"]++
	}
	if g.v.IsCwndLimited(prior) {
		g.dist["ack-cwnd-limited"]++
	} else {
		g.dist["ack-app-limited"]++
	}
}

func (g *cubicGen) opLost() {
	r := g.r
	prior := g.pickPrior()
	var pn, size int64
	st := g.v.State()
	switch {
	case r.Chance(1, 3) && g.cutMarker >= 0:
		// boundary of the once-per-window rule, from the harness's own marker
		pn, size = g.cutMarker+int64(r.Range(-1, 1)), st.Mds
		for i, p := range g.infl {
			if p[0] == pn {
				pn, size = g.takeInflight(i)
				break
			}
		}
	case len(g.infl) > 0 && !r.Chance(1, 8):
		idx := 0
		if r.Chance(1, 3) {
			idx = r.Intn(len(g.infl))
		}
		pn, size = g.takeInflight(idx)
	default:
		pn, size = int64(r.Range(-1, int(g.nextPN)+2)), int64(r.Range(0, 1500))
	}
	orc := int64(0)
	if !st.Reno {
		orc = g.v.CubicAfterLossOracle()
	}
	b := st
	g.do("lost", u.App("Lost", u.Z(pn), u.Z(size), u.Z(prior), u.Z(orc)), func() int64 {
		g.v.OnCongestionEvent(pn, size, prior)
		return 0
	})
	a := g.v.State()
	// (b1) at most one reduction per window of packets
	if a.Cwnd < b.Cwnd {
		if g.cutMarker >= 0 && pn <= g.cutMarker {
			g.monfail("cubic/second-cut-in-window", fmt.Sprintf("loss of packet %d, sent before the previous reduction (largest sent then: %d), reduced cwnd again %d -> %d", pn, g.cutMarker, b.Cwnd, a.Cwnd))
		}
		g.cutMarker = g.maxSentPN
		g.dist["loss-reduced"]++
	} else {
		g.dist["loss-no-reduction"]++
	}
	if a.Cwnd > b.Cwnd && b.Cwnd >= 2*b.Mds {
		g.monfail("cubic/loss-grew", fmt.Sprintf("cwnd %d -> %d on loss", b.Cwnd, a.Cwnd))
	}
}

func (g *cubicGen) opAckRun() {
	r := g.r
	st := g.v.State()
	n := int64(r.Pick(3, 8, 40, 400, 3000, 10100))
	prior := int64(1) << 40 // always window-limited
	if r.Chance(1, 5) {
		prior = 0
	}
	pn0 := g.nextPN
	g.nextPN += n
	size := st.Mds
	now := g.now
	g.do("ackrun", u.App("AckRun", u.Z(n), u.Z(pn0), u.Z(size), u.Z(prior), u.Z(now)), func() int64 {
		for i := int64(0); i < n; i++ {
			b := g.v.State()
			g.v.OnPacketAcked(pn0+i, size, prior, now)
			a := g.v.State()
			if a.Cwnd < b.Cwnd {
				g.monfail("cubic/ack-shrinks", fmt.Sprintf("cwnd %d -> %d on ACK %d of a run", b.Cwnd, a.Cwnd, i))
			}
			g.monitorGrowth(b, a, prior)
		}
		return 0
	})
	if g.v.Cwnd() >= ccMaxWindowPackets*st.Mds {
		g.dist["reached-max-window"]++
	}
}

func (g *cubicGen) opSetMDS() {
	r := g.r
	st := g.v.State()
	var s int64
	kind := "setmds"
	switch r.Intn(10) {
	case 0:
		s = st.Mds
	case 1:
		if r.Chance(1, 3) {
			s = st.Mds - int64(r.Range(1, 100))
			kind = "setmds-dec"
		} else {
			s = st.Mds + 1
		}
	case 2, 3:
		s = st.Mds + int64(r.Range(1, 300))
		if s > 16*g.mds0 {
			s = st.Mds
		}
	default:
		s = st.Mds
		for _, c := range []int64{1252, 1280, 1350, 1452, 1500, 9000, 65535} {
			if c > st.Mds && c <= 16*g.mds0 {
				s = c
				break
			}
		}
	}
	g.do(kind, u.App("SetMDS", u.Z(s)), func() int64 { g.v.SetMaxDatagramSize(s); return 0 })
}

func (g *cubicGen) opQuery() {
	r := g.r
	switch r.Intn(5) {
	case 0:
		g.advance()
		now, srtt := g.now, g.srtt()
		ret, _ := g.do("hasbudget", u.App("QBudget", u.Z(now), u.Z(srtt)), func() int64 { return b2i(g.v.HasPacingBudget(now)) })
		// the pacer's budget never exceeds one burst (1.25 x bandwidth x 2ms, or 10 packets)
		st := g.v.State()
		bud := g.v.PacerBudget(now)
		if srtt > 0 && st.Cwnd >= 0 {
			ideal := new(big.Int).Mul(big.NewInt(st.Cwnd), big.NewInt(1_000_000_000))
			ideal.Quo(ideal, big.NewInt(srtt)) // bytes per second
			ideal.Mul(ideal, big.NewInt(5*2_000_000))
			ideal.Quo(ideal, big.NewInt(4*1_000_000_000))
			if t := big.NewInt(10 * st.PMds); ideal.Cmp(t) < 0 {
				ideal = t
			}
			if big.NewInt(bud).Cmp(ideal) > 0 {
				g.monfail("cubic/budget-above-burst", fmt.Sprintf("pacer budget %d > one burst %s (cwnd %d srtt %d)", bud, ideal, st.Cwnd, srtt))
			}
		}
		if ret == 1 {
			g.dist["hasbudget-true"]++
		}
	case 1:
		srtt := g.srtt()
		st := g.v.State()
		gateOpen := g.v.HasPacingBudget(g.now)
		ret, pan := g.do("timeuntil", u.App("QTimeUntil", u.Z(srtt)), func() int64 { return g.v.TimeUntilSend() })
		if !pan {
			g.checkPacingWait(st, gateOpen, ret)
		}
	case 2:
		bif := g.pickPrior()
		st := g.v.State()
		ret, _ := g.do("cansend", u.App("QCanSend", u.Z(bif)), func() int64 { return b2i(g.v.CanSend(bif)) })
		if (ret == 1) != (bif < st.Cwnd) {
			g.monfail("cubic/cansend", fmt.Sprintf("CanSend(%d)=%d with cwnd %d", bif, ret, st.Cwnd))
		}
	case 3:
		g.do("inrecovery", "QInRecovery", func() int64 { return b2i(g.v.InRecovery()) })
	case 4:
		g.do("inslowstart", "QInSlowStart", func() int64 { return b2i(g.v.InSlowStart()) })
	}
	// bandwidth estimate never above cwnd/srtt
	if srtt := g.srtt(); srtt > 0 {
		st := g.v.State()
		if st.Cwnd >= 0 && st.Cwnd < 1<<40 {
			ideal := new(big.Int).Mul(big.NewInt(st.Cwnd), big.NewInt(8_000_000_000))
			ideal.Quo(ideal, big.NewInt(srtt))
			if new(big.Int).SetUint64(g.v.BandwidthEstimate()).Cmp(ideal) > 0 {
				g.monfail("cubic/bandwidth-overestimate", fmt.Sprintf("BandwidthEstimate %d > 8*cwnd/srtt = %s (cwnd %d srtt %d)", g.v.BandwidthEstimate(), ideal, st.Cwnd, srtt))
			}
		}
	}
}

// checkPacingWait: what the run loop relies on when SendMode says "pacing limited". With the gate
// closed at g.now (HasPacingBudget false), TimeUntilSend must name a time in the future — 0 means
// "send immediately", and the loop spins — at which HasPacingBudget holds (same bandwidth estimate).
func (g *cubicGen) checkPacingWait(st congestion.VerifState, gateOpen bool, t int64) {
	if t != 0 {
		g.dist["timeuntil-nonzero"]++
	}
	if !gateOpen && st.PLast != 0 && g.now >= st.PLast {
		g.dist["timeuntil-gate-closed"]++
		if t <= g.now {
			g.monfail("cubic/pacing-livelock", fmt.Sprintf("HasPacingBudget(%d) is false (sender datagram size %d, pacer's %d, budget at last send %d) but TimeUntilSend=%d is not in the future: the run loop re-arms an immediate deadline and spins", g.now, st.Mds, st.PMds, st.PBudget, t))
			return
		}
	}
	if t != 0 && t > st.PLast && st.PLast != 0 && t-st.PLast < 1<<61 && !g.v.HasPacingBudget(t) {
		g.monfail("cubic/time-until-send-insufficient", fmt.Sprintf("TimeUntilSend=%d but HasPacingBudget is still false then (budget %d, sender datagram size %d, pacer's %d)", t, g.v.PacerBudget(t), st.Mds, st.PMds))
	}
}

// opPacedBurst: send as production does — a full-size packet whenever HasPacingBudget says so,
// otherwise wait until TimeUntilSend — and check the pacing bound of C20 over every
// sub-interval of these gated sends: bytes <= one burst + 1.25 * cwnd/srtt * elapsed.
func (g *cubicGen) opPacedBurst() {
	st := g.v.State()
	srtt := g.srtt()
	if srtt <= 0 || st.Cwnd <= 0 || st.Mds > 1<<20 {
		return
	}
	type snd struct{ t, size int64 }
	var sends []snd
	for i := 0; i < 14; i++ {
		now := g.now
		ok, _ := g.do("hasbudget", u.App("QBudget", u.Z(now), u.Z(srtt)), func() int64 { return b2i(g.v.HasPacingBudget(now)) })
		if ok == 1 {
			pn := g.nextPN
			g.nextPN++
			size := st.Mds
			g.do("sent", u.App("Sent", u.Z(now), u.Z(pn), u.Z(size), "true", u.Z(srtt)), func() int64 { g.v.OnPacketSent(now, pn, size, true); return 0 })
			g.infl = append(g.infl, [2]int64{pn, size})
			g.bif += size
			if pn > g.maxSentPN {
				g.maxSentPN = pn
			}
			sends = append(sends, snd{now, size})
			g.now += g.r.Pick(0, 0, 0, 1, 1000, 50_000)
			continue
		}
		g.dist["paced-gate-closed"]++
		t, pan := g.do("timeuntil", u.App("QTimeUntil", u.Z(srtt)), func() int64 { return g.v.TimeUntilSend() })
		if !pan {
			g.checkPacingWait(g.v.State(), false, t)
		}
		if pan || t <= g.now {
			g.now += 100_000
		} else if g.r.Chance(1, 4) {
			g.now += (t - g.now) / 2 // woken early: the gate must still be closed or the budget sufficient
		} else {
			g.now = t
		}
	}
	num := new(big.Int).Mul(big.NewInt(5), big.NewInt(st.Cwnd)) // rate = num/den bytes per ns
	den := new(big.Int).Mul(big.NewInt(4), big.NewInt(srtt))
	if new(big.Int).Mul(num, big.NewInt(1_000_000_000)).Cmp(den) < 0 {
		num, den = big.NewInt(1), big.NewInt(1_000_000_000) // the pacing rate has a floor of 1 byte/s (it must never be 0)
	}
	burst := new(big.Int).Mul(num, big.NewInt(2_000_000))
	burst.Quo(burst, den)
	if t := big.NewInt(10 * st.PMds); burst.Cmp(t) < 0 {
		burst = t
	}
	for a := range sends {
		sum := big.NewInt(0)
		for b := a; b < len(sends); b++ {
			sum.Add(sum, big.NewInt(sends[b].size))
			allow := new(big.Int).Mul(num, big.NewInt(sends[b].t-sends[a].t))
			allow.Add(allow, new(big.Int).Sub(den, big.NewInt(1)))
			allow.Quo(allow, den)
			allow.Add(allow, burst)
			if sum.Cmp(allow) > 0 {
				g.monfail("cubic/paced-interval-bound", fmt.Sprintf("paced sends %d..%d (t=%d..%d) carry %s bytes > one burst %s + 1.25*cwnd/srtt*elapsed = %s (cwnd %d srtt %d)", a, b, sends[a].t, sends[b].t, sum, burst, allow, st.Cwnd, srtt))
				return
			}
		}
	}
	g.dist["paced-burst"]++
}

// minAfterMtuWitness replays the Coq history witness_short (regression of finding cubic/min-after-mtu) on the implementation.
func (g *cubicGen) minAfterMtuWitness() {
	g.do("rto", u.App("RTO", "true"), func() int64 { g.v.OnRetransmissionTimeout(true); return 0 })
	g.cutMarker = -1
	b := g.v.State()
	g.do("acked", u.App("Acked", "1", "1280", "3000", "5", "0"), func() int64 { g.v.OnPacketAcked(1, 1280, 3000, 5); return 0 })
	g.monitorGrowth(b, g.v.State(), 3000)
	g.do("lost", u.App("Lost", "2", "1280", "3000", "0"), func() int64 { g.v.OnCongestionEvent(2, 1280, 3000); return 0 })
	g.do("setmds", u.App("SetMDS", "1452"), func() int64 { g.v.SetMaxDatagramSize(1452); return 0 })
	g.nextPN = 3
}

// minAfterMtuWitnessProd: the same finding reached only through events the ackhandler issues
// (OnPacketSent / OnPacketAcked / OnCongestionEvent / SetMaxDatagramSize), packet numbers
// increasing — the Coq list witness_prod.
func (g *cubicGen) minAfterMtuWitnessProd() {
	sent := func(t, pn int64) {
		g.do("sent", u.App("Sent", u.Z(t), u.Z(pn), "1280", "true", u.Z(g.srtt())), func() int64 { g.v.OnPacketSent(t, pn, 1280, true); return 0 })
		g.maxSentPN = pn
	}
	lost := func(pn int64) {
		b := g.v.State()
		g.do("lost", u.App("Lost", u.Z(pn), "1280", "1280", "0"), func() int64 { g.v.OnCongestionEvent(pn, 1280, 1280); return 0 })
		if g.v.State().Cwnd < b.Cwnd {
			g.cutMarker = g.maxSentPN
		}
	}
	for i := int64(0); i < 5; i++ {
		sent(10*(i+1), i)
		lost(i)
	}
	for i := int64(5); i < 10; i++ {
		sent(55+i, i)
	}
	for i := int64(5); i < 10; i++ {
		b := g.v.State()
		g.do("acked", u.App("Acked", u.Z(i), "1280", "6400", u.Z(95+i), "0"), func() int64 { g.v.OnPacketAcked(i, 1280, 6400, 95+i); return 0 })
		g.monitorGrowth(b, g.v.State(), 6400)
	}
	for i := int64(10); i < 13; i++ {
		sent(10*(i-3), i)
		lost(i)
	}
	g.do("setmds", u.App("SetMDS", "1452"), func() int64 { g.v.SetMaxDatagramSize(1452); return 0 })
	g.nextPN = 13
	fmt.Fprintf(g.w, "INFO\tregression witness of cubic/min-after-mtu ends with cwnd %d, two datagrams = %d\n", g.v.Cwnd(), 2*g.v.State().Mds)
}

// pacingLivelockWitness (fixed case 2, Coq: pacing_livelock_regression): a sender with 1350-byte
// datagrams (Config.InitialPacketSize = 1350) sends eight full packets and one of 700 bytes back to
// back, asks HasPacingBudget / TimeUntilSend as the run loop does, sends one more, asks again.
func (g *cubicGen) pacingLivelockWitness() {
	const t, srtt = 1000, 100000000
	g.now = t
	ask := func() {
		st := g.v.State()
		open, _ := g.do("hasbudget", u.App("QBudget", u.Z(t), u.Z(srtt)), func() int64 { return b2i(g.v.HasPacingBudget(t)) })
		ret, pan := g.do("timeuntil", u.App("QTimeUntil", u.Z(srtt)), func() int64 { return g.v.TimeUntilSend() })
		if !pan {
			g.checkPacingWait(st, open == 1, ret)
		}
	}
	for i := int64(0); i < 9; i++ {
		size := int64(1350)
		if i == 8 {
			size = 700
		}
		g.do("sent", u.App("Sent", u.Z(t), u.Z(i), u.Z(size), "true", u.Z(srtt)), func() int64 { g.v.OnPacketSent(t, i, size, true); return 0 })
		g.maxSentPN = i
	}
	ask()
	g.do("sent", u.App("Sent", u.Z(t), "9", "1350", "true", u.Z(srtt)), func() int64 { g.v.OnPacketSent(t, 9, 1350, true); return 0 })
	g.maxSentPN = 9
	ask()
	g.nextPN = 10
}

func runCubic(w *bufio.Writer, seed uint64, n int, _ []string) {
	// (verifutil.NewRng(seed) and NewRng(seed+1) produce the same stream shifted by one draw;
	// spread the seeds so that different VERIF_SEEDs give unrelated cases)
	root := u.NewRng(seed*0x9E3779B97F4A7C15 + 0x5bd1e995)
	dist := map[string]int{}
	reported := map[string]bool{}
	nontriv := 0
	for ci := 0; ci < n; ci++ {
		r := root.Fork()
		reno := !r.Chance(1, 6)
		mds0 := r.Pick(1200, 1252, 1280, 1280, 1280, 1350, 1452)
		if r.Chance(1, 12) {
			mds0 = int64(r.Range(1, 3000))
		}
		if ci == 2 {
			reno, mds0 = true, 1350 // fixed case: the pacing livelock reported by unit C10
		}
		if ci <= 1 {
			reno, mds0 = true, 1280 // fixed first cases: the Coq regression histories witness_short / witness_prod
		}
		g := &cubicGen{r: r, w: w, v: congestion.VerifNewSender(mds0, reno), now: int64(r.Range(1, 1_000_000_000)), cutMarker: -1,
			mds0: mds0, maxSentPN: -1, dist: dist, reported: reported}
		if r.Chance(1, 40) {
			g.now = 1<<62 + int64(r.Range(0, 1000))
		}
		if reno {
			dist["case-reno"]++
		} else {
			dist["case-cubic"]++
		}
		// initial RTT: default 100ms, or restored from a token (arbitrary, incl. extremes)
		if ci > 2 && r.Chance(1, 5) {
			irtt := r.Pick(1, 999, 1000, 1_000_000, 333_000_000, 1<<40, 1<<62)
			g.v.Rtt.SetInitialRTT(durationNs(irtt))
			dist["initial-rtt-set"]++
		}
		g.do("inslowstart", "QInSlowStart", func() int64 { return b2i(g.v.InSlowStart()) })
		if ci == 0 {
			g.minAfterMtuWitness()
		}
		if ci == 2 {
			g.pacingLivelockWitness()
		}
		if ci == 1 {
			g.reported = map[string]bool{} // report the finding for this witness too
			g.minAfterMtuWitnessProd()
			g.reported = reported
		}
		nops := r.Range(4, 36)
		if ci > 2 && r.Chance(1, 7) {
			g.opHystartScenario()
			nops = r.Range(2, 10)
		}
		ackruns := 0
		for k := 0; k < nops; k++ {
			switch x := r.Intn(100); {
			case x < 30:
				g.opSent()
			case x < 55:
				g.opAcked()
			case x < 70:
				g.opLost()
			case x < 73:
				b := r.Chance(2, 3)
				g.do("rto", u.App("RTO", u.B(b)), func() int64 { g.v.OnRetransmissionTimeout(b); return 0 })
				g.cutMarker = -1
			case x < 75:
				g.do("migrate", "Migrate", func() int64 { g.v.OnConnectionMigration(); return 0 })
				// the sender forgets every packet of the old path: the "window of packets" starts afresh
				g.cutMarker, g.maxSentPN = -1, -1
			case x < 80:
				g.opSetMDS()
			case x < 83:
				if reno && ackruns < 2 {
					ackruns++
					g.opAckRun()
				}
			case x < 86:
				g.rttSample()
				g.opExitSS()
			case x < 88:
				if r.Chance(1, 2) {
					g.opPacedBurst()
				}
			case x < 90:
				// hystart: a burst of RTT samples within one round
				if r.Chance(1, 2) {
					g.opHystartBurst()
				} else {
					for j := 0; j < 9; j++ {
						g.rttSample()
						g.opExitSS()
					}
				}
			default:
				g.opQuery()
			}
		}
		nt := 0
		if g.changed {
			nt = 1
			nontriv++
		}
		fmt.Fprintf(w, "CASE %d %s\n", nt, u.App("CubicCase", u.Z(mds0), u.B(reno), u.List(g.steps)))
		if ci < 2 {
			fmt.Fprintf(w, "SAMPLE\tmds0=%d reno=%v ops: %s\n", mds0, reno, strings.Join(g.trace, " "))
		}
	}
	// arbitrary initial window through the unexported constructor: the float64 cut and the
	// window arithmetic on extreme values (correspondence only, no property monitors)
	for ci := 0; ci < n/6+4; ci++ {
		r := root.Fork()
		mds0 := r.Pick(1, 1, 7, 1280, 1452)
		var icw int64
		switch r.Intn(6) {
		case 0:
			icw = r.Pick(0, 1, 2, 3, 90, 170, 180, 330, 650, 10, 20)
		case 1:
			icw = int64(r.Range(0, 100000))
		case 2:
			icw = 1<<53 + int64(r.Range(-4, 4))
		case 3:
			icw = int64(r.U64() >> uint(r.Range(2, 40)))
		case 4:
			icw = 1<<uint(r.Range(53, 61)) + int64(r.Range(-2000, 2000))
		default:
			icw = int64(r.U64()>>2) | 1<<61
		}
		imax := icw + int64(r.Range(0, 5000))
		reno := !r.Chance(1, 8)
		g := &cubicGen{r: r, w: w, v: congestion.VerifNewSenderW(mds0, reno, icw, imax), now: 1000, cutMarker: -1, mds0: mds0, maxSentPN: -1,
			dist: dist, reported: reported, nomon: true}
		dist["case-arbitrary-initial-window"]++
		g.do("inslowstart", "QInSlowStart", func() int64 { return b2i(g.v.InSlowStart()) })
		for k := 0; k < r.Range(2, 8); k++ {
			switch r.Intn(5) {
			case 0, 1:
				g.opSent()
				g.opLost()
			case 2:
				g.opAcked()
			case 3:
				g.do("migrate", "Migrate", func() int64 { g.v.OnConnectionMigration(); return 0 })
			case 4:
				g.opQuery()
			}
		}
		fmt.Fprintf(w, "CASE 1 %s\n", u.App("CubicCaseW", u.Z(mds0), u.B(reno), u.Z(icw), u.Z(imax), u.List(g.steps)))
	}
	for k, v := range dist {
		fmt.Fprintf(w, "DIST\t%s\t%d\n", k, v)
	}
	fmt.Fprintf(w, "DIST\tcases-with-window-change\t%d\n", nontriv)
}
