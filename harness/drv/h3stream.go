//go:build verif

package main

import (
	"bufio"
	"bytes"
	"fmt"
	"os"
	"strings"

	"github.com/refraction-networking/uquic/http3"
	u "github.com/refraction-networking/uquic/internal/verifutil"
	"github.com/refraction-networking/uquic/quicvarint"
)

// Units of property C18 (per-stream core):
//   h3frames  real frameParser.ParseNext over a scripted quic stream (short reads)
//   h3stream  real Stream.Read/Write and body.Read over the same kind of stream
// Both print cases for coq/H3Stream/Run.v and run model-independent property monitors.

func init() {
	units["h3frames"] = runH3Frames
	units["h3stream"] = runH3Stream
	genSources = append(genSources, http3.VerifH3SConsts)
}

// ---------- shared generators ----------

// h3vi encodes a varint, now and then in a longer-than-minimal form.
func h3vi(r *u.Rng, b []byte, v uint64) []byte {
	if r.Chance(1, 6) {
		for _, l := range []int{2, 4, 8}[r.Intn(3):] {
			if l >= quicvarint.Len(v) {
				return quicvarint.AppendWithLen(b, v, l)
			}
		}
	}
	return quicvarint.Append(b, v)
}

func h3IgnorableType(r *u.Rng) uint64 {
	switch r.Intn(8) {
	case 0:
		return 0x3
	case 1:
		return 0x5
	case 2:
		return 0xd
	case 3: // grease 0x1f*N+0x21
		return 0x1f*uint64(r.Intn(1<<20)) + 0x21
	case 4:
		return []uint64{0xa, 0xb, 0xc, 0xe, 0xf, 0x10, 0x3f, 0x40, 0x41}[r.Intn(9)]
	case 5:
		return (r.U64() & (1<<62 - 1)) | 0x10
	default:
		return uint64(r.Range(10, 300))
	}
}

func h3Sched(r *u.Rng, n int) []int {
	var s []int
	switch r.Intn(6) {
	case 0: // full reads
	case 1: // byte by byte
		for i := 0; i < n; i++ {
			s = append(s, 1)
		}
	case 2:
		for i := 0; i < n; i++ {
			s = append(s, r.Range(1, 3))
		}
	case 3: // halves
		for i := 0; i < n && i < 64; i++ {
			s = append(s, max(1, n/2))
		}
	default:
		k := r.Range(1, 40)
		for i := 0; i < n && i < 400; i++ {
			if r.Chance(1, 5) {
				s = append(s, r.Range(1, 5000))
			} else {
				s = append(s, r.Range(1, k))
			}
		}
	}
	return s
}

func h3Fin(r *u.Rng, forceEOF bool) (int64, int64) {
	if forceEOF || r.Chance(4, 5) {
		return 1, 0
	}
	code := []int64{0x100, 0x10c, 0x10e, 0x102, 7}[r.Intn(5)]
	rem := int64(r.Intn(2))
	return 2, 2*code + rem
}

func h3ints(xs []int) string {
	s := make([]string, len(xs))
	for i, x := range xs {
		s[i] = u.Z(int64(x))
	}
	return u.List(s)
}

func h3pairs(xs [][2]int64) string {
	s := make([]string, len(xs))
	for i, x := range xs {
		s[i] = u.Pair(u.Z(x[0]), u.Z(x[1]))
	}
	return u.List(s)
}

// h3hex prints a byte string as a Coq string term; long strings are split into chunks joined
// by String.append, because a very long literal overflows coqc's stack.
func h3hex(b []byte) string {
	const chunk = 1024
	if len(b) <= chunk {
		return u.Hex(b)
	}
	var parts []string
	for len(b) > 0 {
		n := min(chunk, len(b))
		parts = append(parts, u.Hex(b[:n]))
		b = b[n:]
	}
	return "(" + strings.Join(parts, " ++ ") + ")"
}

func h3trunc(b []byte, n int) string {
	if len(b) > n {
		return fmt.Sprintf("%x...(%d bytes)", b[:n], len(b))
	}
	return fmt.Sprintf("%x", b)
}

// h3ProtoErr: a protocol error that exists only as a message string in the Go code; the
// monitors accept any of them where one is expected (rewording a message must not alarm).
func h3ProtoErr(c int64) bool { return (c >= 5 && c <= 12) || c == http3.VerifH3SErrOther }

func h3SameErr(gc, ga, wc, wa int64) bool {
	if h3ProtoErr(wc) {
		return h3ProtoErr(gc)
	}
	return gc == wc && ga == wa
}

// ---------- h3frames ----------

type h3exp struct {
	kind     int64 // as VerifH3SFrame.Kind; -1 = error
	length   uint64
	hlen     int64
	mfs      int64
	dg, ec   bool
	other    map[uint64]uint64
	goaway   int64
	errCls   int64
	errArg   int64
	closeUnx bool
}

// one SETTINGS frame by design: valid, or with exactly one first offence.
func h3GenSettings(r *u.Rng) (frame []byte, e h3exp) {
	e = h3exp{kind: 4, mfs: -1, other: map[uint64]uint64{}}
	type pr struct{ id, val uint64 }
	var ps []pr
	used := map[uint64]bool{}
	n := r.Range(0, 6)
	for i := 0; i < n; i++ {
		var id uint64
		switch r.Intn(5) {
		case 0:
			id = 0x6
		case 1:
			id = 0x8
		case 2:
			id = 0x33
		case 3:
			id = uint64(r.Range(0, 0x40))
		default:
			id = r.U64() & (1<<62 - 1)
		}
		if used[id] {
			continue
		}
		used[id] = true
		val := r.U64() & (1<<uint(r.Range(0, 62)) - 1)
		if id == 0x8 || id == 0x33 {
			val = uint64(r.Intn(2))
		}
		ps = append(ps, pr{id, val})
		switch id {
		case 0x6:
			e.mfs = int64(val)
		case 0x8:
			e.ec = val == 1
		case 0x33:
			e.dg = val == 1
		default:
			e.other[id] = val
		}
	}
	mode := r.Intn(10)
	switch {
	case mode == 0 && len(ps) > 0: // duplicate of an earlier id
		d := ps[r.Intn(len(ps))]
		v := d.val
		if r.Bool() && d.id != 0x8 && d.id != 0x33 {
			v = uint64(r.Intn(1000))
		}
		ps = append(ps, pr{d.id, v})
		e = h3exp{kind: -1, errCls: http3.VerifH3SErrSettingsDup, errArg: int64(d.id)}
	case mode == 1: // bad boolean
		id := []uint64{0x8, 0x33}[r.Intn(2)]
		if !used[id] {
			ps = append(ps, pr{id, uint64(r.Pick(2, 3, 63, 64, 1<<40))})
			e = h3exp{kind: -1, errCls: http3.VerifH3SErrSettingsBool, errArg: int64(id)}
		}
	}
	var pl []byte
	for _, p := range ps {
		pl = h3vi(r, pl, p.id)
		pl = h3vi(r, pl, p.val)
	}
	if e.kind == -1 && r.Bool() { // garbage after the offence must not matter
		pl = append(pl, r.Bytes(r.Range(0, 5))...)
	}
	frame = h3vi(r, nil, 0x4)
	frame = h3vi(r, frame, uint64(len(pl)))
	frame = append(frame, pl...)
	return
}

// h3FrameTable: fixed cases (independent of the seed) for the skipping of frames that are not
// processed: every kind of ignorable type x payload lengths around the varint and buffer
// boundaries x read schedules that make the payload straddle Reads (one byte, two bytes, half of
// the payload, everything at once).  After the skipped frame a DATA frame must be found.
type h3tabCase struct {
	data  []byte
	sched []int
	fw    bool
	name  string
}

func h3FrameTable() []h3tabCase {
	var out []h3tabCase
	for ti, t := range []uint64{0x3, 0x5, 0xd, 0x21, 0x1f*1000 + 0x21, 0x40} {
		for _, l := range []int{0, 1, 2, 5, 63, 64, 65, 200} {
			hdr := quicvarint.Append(quicvarint.Append(nil, t), uint64(l))
			data := append([]byte{}, hdr...)
			for k := 0; k < l; k++ {
				data = append(data, byte(k*37+ti)) // looks like frame headers when the parser is out of step
			}
			data = append(data, 0x00, 0x03, 0xaa, 0xbb, 0xcc)
			hdrReads := make([]int, len(hdr))
			for k := range hdrReads {
				hdrReads[k] = 9
			}
			ones := make([]int, len(data))
			twos := make([]int, len(data))
			for k := range ones {
				ones[k], twos[k] = 1, 2
			}
			for si, sc := range [][]int{ones, twos, append(append([]int{}, hdrReads...), max(1, l/2)), nil} {
				out = append(out, h3tabCase{data: data, sched: sc, fw: (si+l)%2 == 0,
					name: fmt.Sprintf("skip type %#x len %d sched-kind %d", t, l, si)})
			}
		}
	}
	return out
}

func runH3Frames(w *bufio.Writer, seed uint64, n int, _ []string) {
	r0 := u.NewRng(seed)
	dist := map[string]int{}
	samples := 0
	table := h3FrameTable()
	for i := 0; i < n+len(table); i++ {
		r := r0.Fork()
		var data []byte
		var exp []h3exp
		known := true // expectations are known by construction
		nf := r.Range(1, 6)
		stop := false
		for k := 0; k < nf && !stop; k++ {
			switch c := r.Intn(20); {
			case c < 4: // DATA
				l := uint64(r.Range(0, 40))
				st := len(data)
				data = h3vi(r, data, 0)
				data = h3vi(r, data, l)
				_ = st
				data = append(data, r.Bytes(int(l))...)
				exp = append(exp, h3exp{kind: 0, length: l})
				dist["data"]++
			case c < 6: // HEADERS
				l := uint64(r.Range(0, 30))
				st := len(data)
				data = h3vi(r, data, 1)
				data = h3vi(r, data, l)
				hl := len(data) - st
				data = append(data, r.Bytes(int(l))...)
				exp = append(exp, h3exp{kind: 1, length: l, hlen: int64(hl)})
				dist["headers"]++
			case c < 10: // SETTINGS
				f, e := h3GenSettings(r)
				data = append(data, f...)
				exp = append(exp, e)
				if e.kind == -1 {
					stop = true
					dist["settings-bad"]++
				} else {
					dist["settings-ok"]++
				}
			case c == 10: // oversize SETTINGS
				data = h3vi(r, data, 4)
				data = h3vi(r, data, uint64(r.Pick(8193, 8194, 20000, 1<<40)))
				data = append(data, r.Bytes(r.Range(0, 10))...)
				exp = append(exp, h3exp{kind: -1, errCls: http3.VerifH3SErrSettingsSize})
				stop = true
				dist["settings-oversize"]++
			case c == 11 && r.Chance(1, 25): // SETTINGS of the maximum size: 8192 bytes of distinct unknown ids
				var pl []byte
				e := h3exp{kind: 4, mfs: -1, dg: true, other: map[uint64]uint64{}}
				id := uint64(0x4000) // 4-byte ids, 1-byte values: 5 bytes per pair
				for len(pl)+5 <= 8190 {
					pl = quicvarint.Append(pl, id)
					pl = append(pl, byte(id%64))
					e.other[id] = id % 64
					id++
				}
				pl = append(pl, 0x33, 1) // exactly 8192 bytes
				exp = append(exp, e)
				data = h3vi(r, data, 4)
				data = h3vi(r, data, uint64(len(pl)))
				data = append(data, pl...)
				dist["settings-max"]++
			case c < 13: // GOAWAY
				id := r.U64() & (1<<uint(r.Range(0, 62)) - 1)
				enc := h3vi(r, nil, id)
				l := uint64(len(enc))
				bad := r.Chance(1, 3)
				if bad {
					l = uint64(r.Pick(0, 1, 2, 3, 4, 8, 9, 100))
					if l == uint64(len(enc)) {
						l++
					}
				}
				data = h3vi(r, data, 7)
				data = h3vi(r, data, l)
				data = append(data, enc...)
				if bad {
					exp = append(exp, h3exp{kind: -1, errCls: http3.VerifH3SErrGoawayLen})
					stop = true
					dist["goaway-bad"]++
				} else {
					exp = append(exp, h3exp{kind: 7, goaway: int64(id)})
					dist["goaway"]++
				}
			case c < 15: // reserved
				t := uint64(r.Pick(2, 6, 8, 9))
				data = h3vi(r, data, t)
				data = h3vi(r, data, uint64(r.Range(0, 20)))
				data = append(data, r.Bytes(r.Range(0, 4))...)
				exp = append(exp, h3exp{kind: -1, errCls: http3.VerifH3SErrReserved, errArg: int64(t), closeUnx: true})
				stop = true
				dist["reserved"]++
			default: // ignorable
				l := r.Range(0, 30)
				if r.Chance(1, 60) {
					l = int(r.Pick(8191, 8192, 8193, 9000, 16500))
				}
				data = h3vi(r, data, h3IgnorableType(r))
				data = h3vi(r, data, uint64(l))
				data = append(data, r.Bytes(l)...)
				nf++ // an ignorable frame never produces a result
				if nf > 12 {
					nf = 12
				}
				dist["ignorable"]++
			}
		}
		fc, fa := h3Fin(r, false)
		if r.Chance(1, 6) && len(data) > 0 { // cut anywhere
			data = data[:r.Intn(len(data)+1)]
			known = false
			dist["truncated"]++
		}
		if r.Chance(1, 25) {
			data = r.Bytes(r.Range(0, 24))
			known = false
			dist["random-bytes"]++
		}
		if !stop && known { // after the last frame: the terminal error of the stream
			if fc == 1 {
				exp = append(exp, h3exp{kind: -1, errCls: http3.VerifH3SErrEOF})
			} else {
				exp = append(exp, h3exp{kind: -1, errCls: http3.VerifH3SErrStream, errArg: fa})
			}
		}
		sched := h3Sched(r, len(data))
		fw := r.Bool()
		if i < len(table) { // fixed case: <ignorable frame> <DATA, 3 bytes> EOF
			tc := table[i]
			data, sched, fw, fc, fa, known = tc.data, tc.sched, tc.fw, 1, 0, true
			exp = []h3exp{{kind: 0, length: 3}, {kind: -1, errCls: http3.VerifH3SErrEOF}}
			dist["table-skip"]++
		}
		if fc == 2 && fw {
			// a stream error delivered together with the last bytes makes the byte reader drop them
			known = false
		}
		nmax := len(exp) + 1
		if !known {
			nmax = 8
		}
		input := fmt.Sprintf("data=%x sched=%v fin=(%d,%d) finWith=%v", data, sched, fc, fa, fw)
		var res []http3.VerifH3SFrame
		var closeCode uint64
		var closed bool
		left := 0
		func() {
			defer func() {
				if p := recover(); p != nil {
					fmt.Fprintf(w, "MONFAIL\th3frames/panic\tParseNext panicked: %v\t%s\n", p, input)
				}
			}()
			s := &http3.VerifH3SScript{Data: append([]byte{}, data...), Sched: append([]int{}, sched...), Fin: http3.VerifH3SFin(fc, fa), FinWith: fw}
			res, closeCode, closed = http3.VerifH3SParse(s, nmax)
			left = len(s.Data)
		}()
		// ---- monitors: the property stated on the implementation's results ----
		if known {
			bad := ""
			if len(res) != len(exp) {
				bad = fmt.Sprintf("got %d results, want %d", len(res), len(exp))
			}
			for k := 0; k < len(res) && k < len(exp) && bad == ""; k++ {
				g, e := res[k], exp[k]
				switch {
				case g.Kind != e.kind:
					bad = fmt.Sprintf("result %d: kind %d want %d (err %d,%d)", k, g.Kind, e.kind, g.ErrCls, g.ErrArg)
				case e.kind == -1 && !h3SameErr(g.ErrCls, g.ErrArg, e.errCls, e.errArg):
					bad = fmt.Sprintf("result %d: error (%d,%d) want (%d,%d)", k, g.ErrCls, g.ErrArg, e.errCls, e.errArg)
				case (e.kind == 0 || e.kind == 1) && (g.Length != e.length || g.HeaderLen != e.hlen):
					bad = fmt.Sprintf("result %d: length %d/%d want %d/%d", k, g.Length, g.HeaderLen, e.length, e.hlen)
				case e.kind == 7 && g.GoAwayID != e.goaway:
					bad = fmt.Sprintf("result %d: goaway id %d want %d", k, g.GoAwayID, e.goaway)
				case e.kind == 4:
					ok := g.MaxFieldSectionSize == e.mfs && g.Datagram == e.dg && g.ExtendedConnect == e.ec && len(g.Other) == len(e.other)
					for _, p := range g.Other {
						if v, in := e.other[p[0]]; !in || v != p[1] {
							ok = false
						}
					}
					if !ok {
						bad = fmt.Sprintf("result %d: settings %+v want %+v", k, g, e)
					}
				}
			}
			wantClose := len(exp) > 0 && exp[len(exp)-1].closeUnx
			key := "h3frames/unknown-ignored"
			if len(exp) > 0 {
				switch exp[len(exp)-1].errCls {
				case http3.VerifH3SErrReserved:
					key = "h3frames/reserved-rejected"
				case http3.VerifH3SErrSettingsDup, http3.VerifH3SErrSettingsBool, http3.VerifH3SErrSettingsSize:
					key = "h3frames/settings-rules"
				}
			}
			if bad == "" && wantClose && !(closed && closeCode == 0x105) {
				bad = fmt.Sprintf("connection not closed with H3_FRAME_UNEXPECTED (closed=%v code=%#x)", closed, closeCode)
			}
			if bad == "" && !wantClose && closed {
				bad = fmt.Sprintf("connection closed with %#x although no forbidden frame was sent", closeCode)
			}
			if bad != "" {
				fmt.Fprintf(w, "MONFAIL\t%s\tframe parser result differs from the frames that were sent: %s\t%s\n", key, bad, input)
			}
		}
		// ---- case ----
		var rs []string
		nt := 0
		for _, g := range res {
			switch g.Kind {
			case 0:
				rs = append(rs, u.App("RData", u.ZU(g.Length)))
				nt = 1
			case 1:
				rs = append(rs, u.App("RHeaders", u.ZU(g.Length), u.Z(g.HeaderLen)))
				nt = 1
			case 4:
				var o []string
				for _, p := range g.Other {
					o = append(o, u.Pair(u.ZU(p[0]), u.ZU(p[1])))
				}
				rs = append(rs, u.App("RSettings", u.Z(g.MaxFieldSectionSize), u.B(g.Datagram), u.B(g.ExtendedConnect), u.List(o)))
				nt = 1
			case 7:
				rs = append(rs, u.App("RGoaway", u.Z(g.GoAwayID)))
				nt = 1
			default:
				rs = append(rs, u.App("RErr", u.Pair(u.Z(g.ErrCls), u.Z(g.ErrArg))))
				if g.ErrCls != http3.VerifH3SErrEOF {
					nt = 1
				}
			}
		}
		fmt.Fprintf(w, "CASE %d %s\n", nt, u.App("FrameCase", h3hex(data), h3ints(sched), u.Pair(u.Z(fc), u.Z(fa)), u.B(fw),
			u.Z(int64(nmax)), u.List(rs), u.Opt(closed, u.ZU(closeCode)), u.Z(int64(left))))
		if samples < 3 && len(data) < 60 && len(res) > 1 {
			samples++
			fmt.Fprintf(w, "SAMPLE\tParseNext* over %x (short reads %v) => %s\n", data, sched, strings.Join(rs, " "))
		}
	}
	for k, v := range dist {
		fmt.Fprintf(w, "DIST\t%s\t%d\n", k, v)
	}
}

// ---------- h3stream ----------

type h3sf struct {
	kind    int // 0 DATA, 1 ignorable, 2 HEADERS (trailers), 3 raw bytes (malformed piece)
	payload []byte
	raw     []byte
}

func h3Payload(r *u.Rng, big bool) []byte {
	var l int
	switch c := r.Intn(20); {
	case c < 2:
		l = 0
	case c < 10:
		l = r.Range(1, 20)
	case c < 13:
		l = int(r.Pick(62, 63, 64, 65))
	case c < 19 || !big:
		l = r.Range(20, 300)
	default:
		l = int(r.Pick(4095, 4096, 4097, 5000))
	}
	return r.Bytes(l)
}

func runH3Stream(w *bufio.Writer, seed uint64, n int, _ []string) {
	r0 := u.NewRng(seed)
	dist := map[string]int{}
	thorough := os.Getenv("VERIF_TIER") == "thorough"
	samples := 0
	for i := 0; i < n; i++ {
		r := r0.Fork()
		big := r.Chance(1, 30) || (thorough && r.Chance(1, 8))
		// ---- frames ----
		var frames []h3sf
		var total []byte // concatenation of DATA payloads (of the well-formed prefix)
		nf := r.Range(0, 7)
		for k := 0; k < nf; k++ {
			if r.Chance(2, 3) {
				p := h3Payload(r, big)
				frames = append(frames, h3sf{kind: 0, payload: p})
				total = append(total, p...)
			} else {
				l := r.Range(0, 30)
				if big && r.Chance(1, 3) {
					l = int(r.Pick(8191, 8192, 8193, 9000))
				}
				frames = append(frames, h3sf{kind: 1, payload: r.Bytes(l)})
			}
		}
		scen := "wellformed"
		hasTrailers := false
		maxHdr := uint64(r.Pick(16, 64, 1000, 1<<20))
		if r.Chance(1, 3) {
			hasTrailers = true
			frames = append(frames, h3sf{kind: 2, payload: r.Bytes(r.Range(0, 40))})
			for r.Chance(1, 3) { // unknown frames may follow the trailers
				frames = append(frames, h3sf{kind: 1, payload: r.Bytes(r.Range(0, 5))})
			}
		}
		fc, fa := int64(1), int64(0)
		switch c := r.Intn(30); {
		case c < 18:
		case c == 18 && hasTrailers:
			scen = "data-after-trailers"
			frames = append(frames, h3sf{kind: 0, payload: r.Bytes(r.Range(0, 10))})
		case c == 19 && hasTrailers:
			scen = "headers-after-trailers"
			frames = append(frames, h3sf{kind: 2, payload: r.Bytes(r.Range(0, 10))})
		case c == 20:
			scen = "reserved"
			raw := h3vi(r, nil, uint64(r.Pick(2, 6, 8, 9)))
			raw = h3vi(r, raw, uint64(r.Range(0, 9)))
			raw = append(raw, r.Bytes(r.Range(0, 12))...)
			pos := r.Intn(len(frames) + 1)
			frames = append(frames[:pos:pos], append([]h3sf{{kind: 3, raw: raw}}, frames[pos:]...)...)
		case c == 21:
			scen = "unexpected-frame"
			var raw []byte
			if r.Bool() {
				raw = []byte{0x4, 0x0}
				if r.Bool() {
					raw = []byte{0x4, 0x2, 0x6, 0x20}
				}
			} else {
				raw = []byte{0x7, 0x1, byte(r.Intn(64))}
			}
			pos := r.Intn(len(frames) + 1)
			frames = append(frames[:pos:pos], append([]h3sf{{kind: 3, raw: raw}}, frames[pos:]...)...)
		case c == 22 || c == 23 || c == 28:
			scen = "truncated"
		case c == 24 || c == 25:
			scen = "stream-error"
			fc, fa = h3Fin(r, false)
			if fc == 1 {
				scen = "wellformed"
			}
		case c == 26 && hasTrailers:
			scen = "trailer-too-large"
			maxHdr = uint64(r.Intn(8))
			for _, f := range frames {
				if f.kind == 2 && uint64(len(f.payload)) <= maxHdr {
					scen = "wellformed"
				}
			}
		case c == 27:
			scen = "random-bytes"
		}
		var data []byte
		bounds := map[int]bool{0: true} // frame boundaries
		for _, f := range frames {
			bounds[len(data)] = true
			switch f.kind {
			case 0:
				data = h3vi(r, data, 0)
				data = h3vi(r, data, uint64(len(f.payload)))
				data = append(data, f.payload...)
			case 1:
				data = h3vi(r, data, h3IgnorableType(r))
				data = h3vi(r, data, uint64(len(f.payload)))
				data = append(data, f.payload...)
			case 2:
				data = h3vi(r, data, 1)
				data = h3vi(r, data, uint64(len(f.payload)))
				data = append(data, f.payload...)
			case 3:
				data = append(data, f.raw...)
			}
		}
		cutAtBoundary := false
		if scen == "truncated" {
			if len(data) == 0 {
				scen = "wellformed"
			} else {
				data = data[:r.Intn(len(data))]
				cutAtBoundary = bounds[len(data)]
			}
		}
		if scen == "random-bytes" {
			data = r.Bytes(r.Range(1, 40))
		}
		if scen != "trailer-too-large" {
			for _, f := range frames {
				if f.kind == 2 && uint64(len(f.payload)) > maxHdr {
					maxHdr = uint64(len(f.payload)) + uint64(r.Intn(3))
				}
			}
		}
		// ---- reader: Stream directly, or a body with / without Content-Length ----
		mode := int64(-2)
		clScen := "stream"
		switch c := r.Intn(10); {
		case c < 3:
		case c < 5:
			mode, clScen = -1, "body-nocl"
		case c < 7:
			mode, clScen = int64(len(total)), "cl-exact"
		case c < 9:
			if len(total) > 0 {
				mode, clScen = int64(r.Intn(len(total))), "cl-over"
			} else {
				mode, clScen = 0, "cl-exact"
			}
		default:
			mode, clScen = int64(len(total)+r.Range(1, 20)), "cl-under"
		}
		bodyKind := r.Intn(2)
		noContent := mode >= 0 && bodyKind == 1 && r.Chance(1, 4) // response to HEAD / 304
		sched := h3Sched(r, len(data))
		fw := r.Bool()
		// ---- ops ----
		maxOps := 48
		withWrites := r.Chance(1, 6)
		wfail := 0
		if withWrites && r.Chance(1, 4) {
			wfail = r.Range(1, 6)
		}
		bufKind := r.Intn(5)
		nextBuf := func() int {
			if r.Chance(1, 25) {
				return 0
			}
			switch bufKind {
			case 0:
				return r.Range(1, 4)
			case 1:
				return r.Range(1, 64)
			case 2:
				return int(r.Pick(1, 7, 63, 64, 512, 4095, 4096))
			case 3:
				return 4096
			default:
				return r.Range(1, 4096)
			}
		}
		input := fmt.Sprintf("scenario=%s/%s data=%s sched=%v fin=(%d,%d) finWith=%v contentLength=%d noContent=%v maxHdr=%d", scen, clScen, h3trunc(data, 4000), sched, fc, fa, fw, mode, noContent, maxHdr)
		var opsS, resS []string
		var got []byte
		var lastCls, lastArg int64
		var firstErrCls int64 = -1
		var firstErrAt int
		var written [][]byte // payloads passed to Write
		var rig *http3.VerifH3SRig
		script := &http3.VerifH3SScript{Data: append([]byte{}, data...), Sched: append([]int{}, sched...), Fin: http3.VerifH3SFin(fc, fa), FinWith: fw, WriteErrAt: wfail}
		panicked := false
		zeroReadsInRow := 0
		stuck := false
		func() {
			defer func() {
				if p := recover(); p != nil {
					panicked = true
					fmt.Fprintf(w, "MONFAIL\th3stream/panic\tStream/body panicked: %v\t%s ops=%v\n", p, input, opsS)
				}
			}()
			rig = http3.VerifH3SNewRig(script, mode, bodyKind, noContent, maxHdr)
			extra := r.Range(0, 2)
			for k := 0; k < maxOps; k++ {
				if withWrites && r.Chance(1, 3) {
					b := r.Bytes(int(r.Pick(0, 1, 5, 63, 64, 200)) + r.Intn(9))
					b = b[:len(b)-min(len(b), r.Intn(9))] // capacity beyond the length
					nw, c, a := rig.Write(b)
					opsS = append(opsS, u.App("OWrite", u.Hex(b)))
					resS = append(resS, u.App("RWrite", u.Z(int64(nw)), u.Pair(u.Z(c), u.Z(a))))
					if c == 0 {
						written = append(written, b)
						if nw != len(b) {
							fmt.Fprintf(w, "MONFAIL\th3stream/write-frame\tWrite returned %d for %d bytes\t%s\n", nw, len(b), input)
						}
					}
					continue
				}
				bl := nextBuf()
				out, c, a := rig.Read(bl)
				opsS = append(opsS, u.App("ORead", u.Z(int64(bl))))
				resS = append(resS, u.App("RRead", h3hex(out), u.Pair(u.Z(c), u.Z(a))))
				if firstErrCls < 0 {
					got = append(got, out...)
				} else if len(out) > 0 && (firstErrCls == http3.VerifH3SErrEOF || firstErrCls == http3.VerifH3SErrTooMuchData || firstErrCls == http3.VerifH3SErrUnexpectedEOF) {
					fmt.Fprintf(w, "MONFAIL\th3stream/data-after-error\tRead returned %d bytes after an error (%d) had been returned\t%s ops=%v\n", len(out), firstErrCls, input, opsS)
				}
				lastCls, lastArg = c, a
				if c != 0 && firstErrCls < 0 {
					firstErrCls, firstErrAt = c, k
				}
				if len(out) == 0 && c == 0 && bl > 0 {
					zeroReadsInRow++
				} else {
					zeroReadsInRow = 0
				}
				if zeroReadsInRow > len(frames)+2 {
					stuck = true
				}
				if firstErrCls >= 0 {
					if extra == 0 {
						break
					}
					extra--
				}
			}
		}()
		if panicked || rig == nil {
			continue
		}
		_ = lastArg
		_ = firstErrAt
		finished := firstErrCls >= 0
		// ---- monitors ----
		wellformed := scen == "wellformed" && fc == 1
		detail := func() string { return fmt.Sprintf("%s ops=%v", input, opsS) }
		if stuck {
			fmt.Fprintf(w, "MONFAIL\th3stream/no-progress\tRead keeps returning (0, nil) for a non-empty buffer\t%s\n", detail())
		}
		if wellformed && (clScen == "stream" || clScen == "body-nocl" || clScen == "cl-exact") {
			if !bytes.HasPrefix(total, got) {
				fmt.Fprintf(w, "MONFAIL\th3stream/data-exact\tbytes returned by Read are not a prefix of the DATA payloads sent\tgot=%s want=%s %s\n", h3trunc(got, 200), h3trunc(total, 200), detail())
			} else if finished && (firstErrCls != http3.VerifH3SErrEOF || !bytes.Equal(total, got)) {
				fmt.Fprintf(w, "MONFAIL\th3stream/data-exact\tRead ended with error class %d after %d of %d payload bytes\t%s\n", firstErrCls, len(got), len(total), detail())
			}
			if hasTrailers && finished && len(rig.Trailers) != 1 {
				fmt.Fprintf(w, "MONFAIL\th3stream/trailers-once\ttrailer callback ran %d times for one trailer section\t%s\n", len(rig.Trailers), detail())
			}
		}
		if mode >= 0 && int64(len(got)) > mode {
			fmt.Fprintf(w, "MONFAIL\th3stream/content-length-over\tbody delivered %d bytes, more than the declared Content-Length %d\t%s\n", len(got), mode, detail())
		}
		if wellformed && clScen == "cl-over" {
			nCR, nCW := 0, 0
			for _, c := range script.Cancels {
				if c[0] == 0 && c[1] == 0x10e {
					nCR++
				}
				if c[0] == 1 && c[1] == 0x10e {
					nCW++
				}
			}
			if !bytes.HasPrefix(total, got) {
				fmt.Fprintf(w, "MONFAIL\th3stream/content-length-over\tbytes returned are not a prefix of the payload\t%s\n", detail())
			} else if finished && !(firstErrCls == http3.VerifH3SErrTooMuchData && int64(len(got)) == mode && nCR == 1 && nCW == 1 && len(script.Cancels) == 2) {
				fmt.Fprintf(w, "MONFAIL\th3stream/content-length-over\tbody longer than Content-Length %d: ended with error class %d after %d bytes, cancels=%v (want errTooMuchData after exactly the declared bytes, both directions reset once with H3_MESSAGE_ERROR)\t%s\n", mode, firstErrCls, len(got), script.Cancels, detail())
			}
		}
		if wellformed && clScen == "cl-under" && finished && !noContent {
			// The property demands an error when the body is shorter than declared: never a clean EOF,
			// the error comes after exactly the bytes that were received, both directions are reset once.
			nCR, nCW := 0, 0
			for _, c := range script.Cancels {
				if c[0] == 0 && c[1] == 0x10e {
					nCR++
				}
				if c[0] == 1 && c[1] == 0x10e {
					nCW++
				}
			}
			if firstErrCls == http3.VerifH3SErrEOF {
				fmt.Fprintf(w, "MONFAIL\th3/content-length-under\tbody shorter than its declared Content-Length ends with plain io.EOF (no error): declared %d, delivered %d\t%s\n", mode, len(got), detail())
			} else if firstErrCls != http3.VerifH3SErrUnexpectedEOF || !bytes.Equal(got, total) || nCR != 1 || nCW != 1 || len(script.Cancels) != 2 {
				fmt.Fprintf(w, "MONFAIL\th3stream/content-length-under\tbody shorter than Content-Length %d: ended with error class %d after %d of %d bytes, cancels=%v (want io.ErrUnexpectedEOF after exactly the received bytes, both directions reset once with H3_MESSAGE_ERROR)\t%s\n", mode, firstErrCls, len(got), len(total), script.Cancels, detail())
			}
		}
		if wellformed && clScen == "cl-under" && finished && noContent && (firstErrCls != http3.VerifH3SErrEOF || !bytes.Equal(got, total) || len(script.Cancels) != 0) {
			fmt.Fprintf(w, "MONFAIL\th3stream/no-content-exempt\tresponse to HEAD / 304 with a Content-Length and fewer bytes: ended with error class %d, cancels=%v (want clean EOF)\t%s\n", firstErrCls, script.Cancels, detail())
		}
		if scen == "truncated" && fc == 1 && finished && (clScen == "stream" || clScen == "body-nocl") {
			// A valid frame sequence cut short by FIN: a prefix of the payloads, then an ERROR and
			// H3_FRAME_ERROR on the connection -- a clean EOF only if the cut is at a frame boundary.
			_, ok := rig.ConnClosed()
			switch {
			case !bytes.HasPrefix(total, got):
				fmt.Fprintf(w, "MONFAIL\th3stream/truncation\tbytes read from a truncated stream are not a prefix of the DATA payloads\t%s\n", detail())
			case !cutAtBoundary && firstErrCls == http3.VerifH3SErrEOF:
				fmt.Fprintf(w, "MONFAIL\th3/truncated-frame-clean-eof\ta frame cut short by the end of the stream ends the body with a clean io.EOF after %d bytes (silently truncated; RFC 9114 7.1 demands H3_FRAME_ERROR)\t%s\n", len(got), detail())
			// any other error is a report (e.g. io.ErrUnexpectedEOF from a partly read trailer block)
			case cutAtBoundary && (firstErrCls != http3.VerifH3SErrEOF || ok):
				fmt.Fprintf(w, "MONFAIL\th3stream/truncation\tstream ending at a frame boundary: error class %d, connection closed=%v (want clean EOF)\t%s\n", firstErrCls, ok, detail())
			}
		}
		if scen == "reserved" && finished && clScen != "cl-over" && clScen != "cl-exact" {
			cc, ok := rig.ConnClosed()
			if !h3ProtoErr(firstErrCls) || !ok || cc != 0x105 {
				// a DATA payload cut short by Content-Length could legitimately end earlier; those modes are excluded above
				fmt.Fprintf(w, "MONFAIL\th3stream/reserved-rejected\treserved frame type on a request stream: error class %d, connection closed=%v code=%#x (want reserved-frame error and H3_FRAME_UNEXPECTED)\t%s\n", firstErrCls, ok, cc, detail())
			}
		}
		if scen == "unexpected-frame" && finished && clScen != "cl-over" && clScen != "cl-exact" {
			cc, ok := rig.ConnClosed()
			if !h3ProtoErr(firstErrCls) || !ok || cc != 0x105 {
				fmt.Fprintf(w, "MONFAIL\th3stream/unexpected-frame\tSETTINGS/GOAWAY on a request stream: error class %d, connection closed=%v code=%#x\t%s\n", firstErrCls, ok, cc, detail())
			}
		}
		if (scen == "data-after-trailers" || scen == "headers-after-trailers") && finished && clScen != "cl-over" && clScen != "cl-exact" {
			want := int64(http3.VerifH3SErrDataAfterTrailers)
			if scen == "headers-after-trailers" {
				want = http3.VerifH3SErrHeadersAfterTrailers
			}
			if !h3ProtoErr(firstErrCls) {
				fmt.Fprintf(w, "MONFAIL\th3stream/after-trailers\t%s: Read ended with error class %d, want %d\t%s\n", scen, firstErrCls, want, detail())
			}
		}
		if has, closedCh := rig.ReqDone(); has && closedCh != finished {
			fmt.Fprintf(w, "MONFAIL\th3stream/req-done\tresponse body: done channel closed=%v but a Read error was returned=%v\t%s\n", closedCh, finished, detail())
		}
		// Write: every successful Write(b) is frame(DATA,|b|) ++ b on the wire; reading it back gives b.
		if len(written) > 0 && wfail == 0 {
			var wire, all []byte
			for _, x := range script.Written {
				wire = append(wire, x...)
			}
			rest := wire
			okW := true
			for _, b := range written {
				t, n1, e1 := quicvarint.Parse(rest)
				if e1 != nil || t != 0 {
					okW = false
					break
				}
				l, n2, e2 := quicvarint.Parse(rest[n1:])
				if e2 != nil || l != uint64(len(b)) || len(rest) < n1+n2+len(b) || !bytes.Equal(rest[n1+n2:n1+n2+len(b)], b) {
					okW = false
					break
				}
				rest = rest[n1+n2+len(b):]
				all = append(all, b...)
			}
			if !okW || len(rest) != 0 {
				fmt.Fprintf(w, "MONFAIL\th3stream/write-frame\tbytes written are not DATA-frame(len)++payload for each Write\twire=%s writes=%d\n", h3trunc(wire, 400), len(written))
			} else {
				// Read∘Write = id, under a fresh short-read schedule and fresh buffer sizes
				s2 := &http3.VerifH3SScript{Data: wire, Sched: h3Sched(r, len(wire)), Fin: http3.VerifH3SFin(1, 0), FinWith: r.Bool()}
				rig2 := http3.VerifH3SNewRig(s2, -2, 0, false, 0)
				var back []byte
				var c int64
				for k := 0; k < 100000 && c == 0; k++ {
					var out []byte
					out, c, _ = rig2.Read(r.Range(1, 300))
					back = append(back, out...)
				}
				if c != http3.VerifH3SErrEOF || !bytes.Equal(back, all) {
					fmt.Fprintf(w, "MONFAIL\th3stream/read-write-roundtrip\tRead(Write(b)) != b (error class %d, %d of %d bytes)\twire=%s\n", c, len(back), len(all), h3trunc(wire, 400))
				}
			}
		}
		// ---- case ----
		cc, ccok := rig.ConnClosed()
		var tr, wr []string
		for _, t := range rig.Trailers {
			tr = append(tr, u.Hex(t))
		}
		for _, x := range script.Written {
			wr = append(wr, u.Hex(x))
		}
		nt := 0
		if len(got) > 0 || (firstErrCls > 1) || len(rig.Trailers) > 0 || len(written) > 0 {
			nt = 1
		}
		fmt.Fprintf(w, "CASE %d %s\n", nt, u.App("StreamCase", h3hex(data), h3ints(sched), u.Pair(u.Z(fc), u.Z(fa)), u.B(fw),
			u.Z(mode), u.B(noContent), u.ZU(maxHdr), u.Z(int64(wfail)), u.List(opsS), u.List(resS), h3pairs(script.Cancels), u.Opt(ccok, u.ZU(cc)),
			u.List(tr), u.List(wr), u.ZU(rig.BytesRemainingInFrame()), u.Z(int64(len(script.Data)))))
		dist[scen+"/"+clScen]++
		if finished {
			dist[fmt.Sprintf("ended-with-error-class-%d", firstErrCls)]++
		} else {
			dist["not-finished-in-48-ops"]++
		}
		if samples < 3 && len(data) < 50 && len(got) > 0 && finished {
			samples++
			fmt.Fprintf(w, "SAMPLE\t%s => read %x, final error class %d\n", detail(), got, lastCls)
		}
	}
	for k, v := range dist {
		fmt.Fprintf(w, "DIST\t%s\t%d\n", k, v)
	}
	// The Coq-side witness of C18_content_length_under_refuted, replayed on the implementation.
	h3ReplayUnderWitness(w)
	h3ReplayTruncWitness(w)
}

// h3ReplayUnderWitness: Content-Length 5, one DATA frame "abc", clean end of stream.
func h3ReplayUnderWitness(w *bufio.Writer) {
	for kind := 0; kind < 2; kind++ {
		s := &http3.VerifH3SScript{Data: []byte{0x00, 0x03, 'a', 'b', 'c'}, Fin: http3.VerifH3SFin(1, 0)}
		rig := http3.VerifH3SNewRig(s, 5, kind, false, 1000)
		var got []byte
		var c int64
		for k := 0; k < 10 && c == 0; k++ {
			var out []byte
			out, c, _ = rig.Read(16)
			got = append(got, out...)
		}
		if c == http3.VerifH3SErrEOF {
			side := "request body (server side)"
			if kind == 1 {
				side = "response body (client side)"
			}
			fmt.Fprintf(w, "MONFAIL\th3/content-length-under\tbody shorter than its declared Content-Length ends with plain io.EOF (no error): declared 5, delivered %d, %s\twitness: Content-Length=5 stream=0003616263+FIN reads of 16 bytes\n", len(got), side)
		}
	}
}

// h3ReplayTruncWitness: the Coq witness of C18_truncation_reported_refuted on the implementation:
// a DATA frame announcing 100 bytes, 40 of them, FIN; no Content-Length.
func h3ReplayTruncWitness(w *bufio.Writer) {
	for _, mode := range []int64{-2, -1} {
		data := append([]byte{0x00, 0x40, 0x64}, bytes.Repeat([]byte{7}, 40)...)
		s := &http3.VerifH3SScript{Data: data, Fin: http3.VerifH3SFin(1, 0)}
		rig := http3.VerifH3SNewRig(s, mode, 0, false, 1000)
		var got []byte
		var c int64
		for k := 0; k < 10 && c == 0; k++ {
			var out []byte
			out, c, _ = rig.Read(64)
			got = append(got, out...)
		}
		if c == http3.VerifH3SErrEOF {
			what := "Stream.Read"
			if mode == -1 {
				what = "request body without Content-Length"
			}
			fmt.Fprintf(w, "MONFAIL\th3/truncated-frame-clean-eof\ta frame cut short by the end of the stream ends the body with a clean io.EOF after %d bytes (silently truncated; RFC 9114 7.1 demands H3_FRAME_ERROR), %s\twitness: stream=004064+40 bytes+FIN (DATA frame announcing 100 bytes), reads of 64 bytes\n", len(got), what)
		}
	}
}
