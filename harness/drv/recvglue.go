//go:build verif

package main

import (
	"bufio"

	quic "github.com/refraction-networking/uquic"
)

func init() { units["recvglue"] = runRecvGlue }

// recvglue (C04): correspondence unit for coq/FlowCtl/RecvModel.v (completion / credit path of
// ReceiveStream). The unit lives in harness/quic/recvglue.go (unexported constructors).
func runRecvGlue(w *bufio.Writer, seed uint64, n int, _ []string) {
	quic.VerifRunRecvGlue(w, seed, n)
}
