//go:build verif

package main

// simclose: C17 integration scenario (monitor-only). A real client and a real server with
// a set of API calls parked on both sides; then one close cause strikes. Monitors
// (all model-independent, stated on what the API returned / the router saw):
//   unblock        every parked call returns, at the instant the connection's context is cancelled
//   cause          every parked and every later call fails with an error that errors.Is / has the
//                  class and code of context.Cause(conn.Context())
//   expected-cause the recorded cause is the one the scenario provoked (application code, transport
//                  code, idle timeout, stateless reset, transport closed, ...)
//   peer-close     the peer learns the matching CONNECTION_CLOSE code where one is due; a timed-out or
//                  destroyed endpoint sends nothing at or after its close
//   idle-bounds    an idle timeout fires no earlier than the negotiated period after the last datagram
//                  delivered to the endpoint and no later than max(last delivery, first ack-eliciting
//                  send after it) + max(negotiated, 3 PTO) + 1 ms; never while keep-alives are answered
//   bounded        every endpoint is closed within the bound the scenario allows
//   routing        after the closing period both transports' routing tables are empty
//   backoff        datagrams the closed endpoint sends in its closing period are copies of its
//                  CONNECTION_CLOSE datagram, and at most ceil(log2(n))+1 for n arriving datagrams
//   leak           the bubble terminates (no goroutine left parked, no timer keeps ticking)

import (
	"bufio"
	"bytes"
	"context"
	"errors"
	"fmt"
	"io"
	"os"
	"sort"
	"strings"
	"sync"
	"testing/synctest"
	"time"

	quic "github.com/refraction-networking/uquic"
	u "github.com/refraction-networking/uquic/internal/verifutil"
	tls "github.com/refraction-networking/utls"
)

func init() { units["simclose"] = runSimClose }

var scCauses = []string{"cli-close", "srv-close", "idle", "silence", "ka-alive", "stateless-reset", "transport-error",
	"cli-transport-close", "srv-transport-close", "listener-close", "dial-cancel", "hs-blackhole", "bad-tls", "vneg"}

var scCalls = []string{"Read", "Write", "AcceptStream", "OpenStreamSync", "ReceiveDatagram", "AcceptUniStream", "OpenUniStreamSync"}

type scCase struct {
	Seed             uint64
	Cause            string
	Timing           string // handshake, transfer, idle
	Blocked          [2][]string // parked calls on client, server; a kind may occur 1-4 times: that many goroutines are parked in it
	Accept           int    // further Listener.Accept calls parked besides the first one (0-3)
	DropClose        int    // datagrams of the closing endpoint dropped from the cause on
	RTT              time.Duration
	CliIdle, SrvIdle time.Duration
	CliKA, SrvKA     time.Duration
	Client           string // plain, unil, parrot
	Code             uint64
	At               time.Duration // when the cause strikes, relative to the end of the set-up (or dial start)
	PeerTalks        bool          // the peer of a closed endpoint keeps sending
	Dg               [2]bool       // Config.EnableDatagrams of client, server (SendDatagram is gated on the PEER's flag, ReceiveDatagram on the own one)
	Flood            [2]bool       // the side calls SendDatagram 60 times right before the cause: the 32-slot send queue is full, a caller is parked in it
	// a spec-driven client whose transport-parameter list is derived from the parrot's: "adv" advertises max_idle_timeout
	// SpecTc, "omit" leaves the parameter out, "suppress" lists it but keeps it off the wire (SuppressTransportParameters)
	SpecIdle string
	SpecTc   time.Duration
}

func (c scCase) String() string {
	return fmt.Sprintf("cause=%s timing=%s blocked(c)=%v blocked(s)=%v accept=%d dropclose=%d rtt=%v idle(c/s)=%v/%v ka(c/s)=%v/%v client=%s code=%d at=%v peertalks=%v datagrams(c/s)=%v/%v sendflood(c/s)=%v/%v specidle=%s/%v seed=%d",
		c.Cause, c.Timing, c.Blocked[0], c.Blocked[1], c.Accept, c.DropClose, c.RTT, c.CliIdle, c.SrvIdle, c.CliKA, c.SrvKA, c.Client, c.Code, c.At, c.PeerTalks, c.Dg[0], c.Dg[1], c.Flood[0], c.Flood[1], c.SpecIdle, c.SpecTc, c.Seed)
}

func genSimCloseCase(r *u.Rng) scCase {
	c := scCase{Seed: r.U64()}
	c.Cause = scCauses[r.Intn(len(scCauses))]
	c.RTT = []time.Duration{2 * time.Millisecond, 10 * time.Millisecond, 40 * time.Millisecond, 150 * time.Millisecond}[r.Intn(4)]
	c.CliIdle = time.Duration(r.Range(1, 30)) * time.Second
	c.SrvIdle = time.Duration(r.Range(1, 30)) * time.Second
	if r.Chance(1, 3) {
		c.CliIdle += time.Duration(r.Range(0, 999)) * time.Millisecond
	}
	c.CliIdle, c.SrvIdle = max(c.CliIdle, 12*c.RTT), max(c.SrvIdle, 12*c.RTT)
	if r.Chance(1, 10) {
		c.CliIdle = rlNoIdleTimeout // the client has no idle timeout of its own (repo 637b35e): the server's value alone counts
	}
	ka := func(idle time.Duration) time.Duration {
		switch r.Intn(4) {
		case 0:
			return idle / 2
		case 1:
			return time.Duration(r.Range(100, 4000)) * time.Millisecond
		}
		return 0
	}
	c.CliKA, c.SrvKA = ka(c.CliIdle), ka(c.SrvIdle)
	switch r.Intn(5) {
	case 0:
		c.Client = "plain"
	case 1, 2:
		c.Client = "unil"
	default:
		c.Client = []string{"Chrome_115_IPv4", "Chrome_146_IPv4", "Chrome_115_IPv6"}[r.Intn(3)]
	}
	for side := 0; side < 2; side++ {
		for _, k := range scCalls {
			if r.Chance(1, 2) {
				// 1-4 goroutines parked in the same call (Read: on different streams, at most 3; Write: one)
				n := 1
				if r.Chance(1, 2) {
					n = r.Range(2, 4)
				}
				if k == "Read" {
					n = min(n, 3)
				}
				if k == "Write" {
					n = 1
				}
				for j := 0; j < n; j++ {
					c.Blocked[side] = append(c.Blocked[side], k)
				}
			}
		}
	}
	c.Accept = r.Intn(4)
	c.Timing = []string{"idle", "transfer"}[r.Intn(2)]
	c.PeerTalks = r.Bool()
	switch c.Cause {
	case "dial-cancel", "hs-blackhole", "bad-tls", "vneg":
		c.Timing = "handshake"
	case "cli-transport-close", "srv-transport-close", "listener-close":
		if r.Chance(1, 2) {
			c.Timing = "handshake"
		}
	case "silence":
		c.CliKA, c.SrvKA = 0, 0
		c.Timing = "idle"
	case "ka-alive":
		c.Timing = "idle"
		// (a parrot advertises its spec's max_idle_timeout while enforcing the configured one - C12's
		// subject - so only its own keep-alive can be relied on)
		if (c.CliKA == 0 && c.SrvKA == 0) || (c.Client != "plain" && c.Client != "unil") {
			c.CliKA = c.CliIdle / 2
		}
	}
	if c.Timing == "handshake" {
		c.Blocked = [2][]string{}
		c.At = time.Duration(r.Range(0, 12*int(c.RTT/time.Microsecond)/10)) * time.Microsecond // the handshake takes about one RTT
		if c.Client != "plain" && c.Client != "unil" && (c.Cause == "bad-tls" || c.Cause == "vneg") {
			c.Client = "unil"
		}
	} else {
		c.At = time.Duration(r.Range(0, 300)) * time.Millisecond
	}
	if c.Cause == "cli-close" || c.Cause == "srv-close" || c.Cause == "transport-error" {
		if r.Chance(1, 2) {
			c.DropClose = r.Range(1, 4)
		}
	}
	switch r.Intn(3) {
	case 0:
		c.Code = uint64(r.Intn(64))
	case 1:
		c.Code = r.U64() & (1<<62 - 1)
	default:
		c.Code = uint64(r.Intn(1 << 20))
	}
	switch r.Intn(4) {
	case 0, 1:
		c.Dg = [2]bool{true, true}
	case 2:
		c.Dg = [2]bool{false, true} // the client only sends datagrams
	default:
		c.Dg = [2]bool{true, false} // the server only sends datagrams
	}
	c.Flood = [2]bool{r.Chance(1, 2), r.Chance(1, 2)}
	if c.Client != "plain" && c.Client != "unil" && r.Chance(1, 3) {
		c.SpecIdle = []string{"adv", "omit", "suppress"}[r.Intn(3)]
		c.SpecTc = time.Duration(r.Range(2, 25)) * time.Second
	}
	return scNormalize(c)
}

// scNormalize applies the constraints between the datagram options and the rest of the case.
func scNormalize(c scCase) scCase {
	if c.Client != "plain" && c.Client != "unil" {
		// a parrot advertises datagram support from its spec whatever the configuration says (C12's subject)
		c.Dg[0] = true
	}
	switch c.Cause {
	case "cli-close", "srv-close", "transport-error", "idle", "cli-transport-close", "srv-transport-close", "stateless-reset":
	default:
		c.Flood = [2]bool{} // (the flood is traffic: it would change what the silent scenarios are about)
	}
	if c.Timing == "handshake" {
		c.Flood = [2]bool{}
	}
	return c
}

type scCall struct {
	name string
	err  error
	at   time.Duration
	done bool
	n    int
}

type scSide struct {
	name  string
	mu    sync.Mutex
	conn  *quic.Conn
	calls []*scCall
	s1    *quic.Stream // stream for Read (and later calls)
	rs    []*quic.Stream // streams for parked Reads (rs[0] == s1)
	s2    *quic.Stream // stream for the blocked Write
	start time.Time
}

func (s *scSide) park(name string, f func() (int, error)) *scCall {
	cl := &scCall{name: name}
	s.mu.Lock()
	s.calls = append(s.calls, cl)
	s.mu.Unlock()
	go func() {
		n, err := f()
		s.mu.Lock()
		cl.n, cl.err, cl.done, cl.at = n, err, true, time.Since(s.start)
		s.mu.Unlock()
	}()
	return cl
}

func cnt(l []string, x string) (n int) {
	for _, y := range l {
		if x == y {
			n++
		}
	}
	return
}

func has(l []string, x string) bool {
	for _, y := range l {
		if x == y {
			return true
		}
	}
	return false
}

// sameCause: err is (or wraps, or has the class and code of) the recorded cause
func sameCause(err, cause error) bool {
	if err == nil || cause == nil {
		return false
	}
	if errors.Is(err, cause) {
		return true
	}
	k1, c1 := classifyErr(err)
	k2, c2 := classifyErr(cause)
	if k1 == ekOther || k1 == ekCanceled {
		return false
	}
	return k1 == k2 && c1 == c2
}

// observation of one side of a closed connection, replayed through the RunLoop close model (coq/RunLoop/SimRun.v)
type scObs struct {
	client        bool
	cause         error
	immediate     bool
	sent          bool // a CONNECTION_CLOSE datagram left at the close (closer), or anything at all after it (others)
	parked, later [][2]int64 // (call kind, result class) of the calls that were parked at the close / issued after it
	routing       int64      // entries left in the side's transport after the closing period
	peer          string     // what the peer recorded if a copy of the close reached it in time: option (class, code)
	delivered     bool       // a copy of the CONNECTION_CLOSE reached the peer before the peer closed for another reason
	sentFirst, hs bool       // Conn.sentFirstPacket, Conn.handshakeComplete
}

var scCallKinds = map[string]int64{"Read": 0, "Write": 1, "AcceptStream": 2, "AcceptUniStream": 3, "OpenStreamSync": 4, "OpenUniStreamSync": 5,
	"ReceiveDatagram": 6, "SendDatagram": 7, "OpenStream": 8, "OpenUniStream": 9}

// result classes: 0 the recorded cause, 1 EOF, 2 stream error, 4 success, 5 parked, 9 anything else
func scResClass(err, cause error) int64 {
	var se *quic.StreamError
	switch {
	case err == nil:
		return 4
	case sameCause(err, cause):
		return 0
	case err == io.EOF:
		return 1
	case errors.As(err, &se):
		return 2
	}
	return 9
}

func (o *scObs) term() string {
	k, code := classifyErr(o.cause)
	pl := func(l [][2]int64) string {
		xs := make([]string, len(l))
		for i, x := range l {
			xs[i] = u.Pair(u.Z(x[0]), u.Z(x[1]))
		}
		return u.List(xs)
	}
	peer := o.peer
	if peer == "" {
		peer = "None"
	}
	return u.App("mkSide", u.B(o.client), errPair(k, code), u.B(o.immediate), u.B(o.sentFirst), u.B(o.hs), u.B(o.sent), pl(o.parked), pl(o.later), u.Z(o.routing), u.B(o.delivered), peer)
}

func runOneSimClose(c scCase) (fails []monFail, info string, term string) {
	term = "TextCase"
	var fmu sync.Mutex
	fail := func(key, desc string) {
		fmu.Lock()
		fails = append(fails, monFail{key, desc})
		fmu.Unlock()
	}
	notes := []string{}
	note := func(s string) { fmu.Lock(); notes = append(notes, s); fmu.Unlock() }
	err := inBubble(func() {
		resetKey := quic.StatelessResetKey{1, 2, 3, 4, 5, 6, 7, 8, 9}
		srvConf := &quic.Config{EnableDatagrams: c.Dg[1], MaxIdleTimeout: c.SrvIdle, KeepAlivePeriod: c.SrvKA,
			InitialStreamReceiveWindow: 16384, MaxStreamReceiveWindow: 16384, InitialConnectionReceiveWindow: 1 << 20, MaxConnectionReceiveWindow: 1 << 20,
			MaxIncomingStreams: int64(2 + max(1, cnt(c.Blocked[0], "Read"), cnt(c.Blocked[1], "Read"))), MaxIncomingUniStreams: 1}
		cliConf := &quic.Config{EnableDatagrams: c.Dg[0], MaxIdleTimeout: c.CliIdle, KeepAlivePeriod: c.CliKA,
			InitialStreamReceiveWindow: 16384, MaxStreamReceiveWindow: 16384, InitialConnectionReceiveWindow: 1 << 20, MaxConnectionReceiveWindow: 1 << 20,
			MaxIncomingStreams: -1, MaxIncomingUniStreams: -1}
		o := simOpts{RTT: c.RTT, ServerConf: srvConf, ClientConf: cliConf,
			SrvTr: func(t *quic.Transport) { t.StatelessResetKey = &resetKey }}
		switch c.Client {
		case "plain":
			o.PlainPath = true
		case "unil":
		default:
			// a parrot advertises its spec's windows, not the configured ones (C12's subject): do not
			// configure small ones that the server would then overrun
			cliConf.InitialStreamReceiveWindow, cliConf.MaxStreamReceiveWindow = 0, 0
			cliConf.InitialConnectionReceiveWindow, cliConf.MaxConnectionReceiveWindow = 0, 0
			sp, err := specFor(c.Client)
			if err != nil {
				fail("simclose/spec", err.Error())
				return
			}
			if c.SpecIdle != "" {
				if !scDeriveIdleSpec(sp, c.SpecIdle, c.SpecTc) {
					fail("simclose/spec", "the parrot's ClientHello has no QUIC transport parameters extension with max_idle_timeout")
					return
				}
			}
			o.Spec = sp
		}
		if c.Cause == "vneg" {
			// the client prefers a version the server does not speak: Version Negotiation, then a second attempt
			cliConf.Versions = []quic.Version{quic.Version2, quic.Version1}
			srvConf.Versions = []quic.Version{quic.Version1}
		}
		if c.Cause == "bad-tls" {
			// a client TLS configuration that cannot start a TLS 1.3 handshake
			o.ClientTLS = func(t *tls.Config) { t.MaxVersion = tls.VersionTLS12 }
		}
		e, err := newSimEnv(o)
		if err != nil {
			fail("simclose/env", err.Error())
			return
		}
		defer e.Close()
		lat := c.RTT / 2
		ctx, cancel := context.WithCancel(context.Background())
		defer cancel()
		cs := &scSide{name: "client", start: e.Start}
		ss := &scSide{name: "server", start: e.Start}
		sides := []*scSide{cs, ss}
		var srvTr2 *quic.Transport
		defer func() {
			if srvTr2 != nil {
				srvTr2.Close()
			}
		}()

		// ---- the closing endpoint's datagrams can be dropped from the cause on
		var dropFrom int = -1 // direction whose datagrams are dropped
		var dropLeft int
		var dropMu sync.Mutex
		e.Router.randDrop = func(dir, idx int) bool {
			dropMu.Lock()
			defer dropMu.Unlock()
			if dir == dropFrom && dropLeft > 0 {
				dropLeft--
				return true
			}
			return false
		}
		armDrop := func(dir int) {
			dropMu.Lock()
			dropFrom, dropLeft = dir, c.DropClose
			dropMu.Unlock()
		}

		// ---- server application
		type accRes struct {
			conn *quic.Conn
			err  error
			at   time.Duration
		}
		acc1 := make(chan accRes, 1)
		go func() {
			conn, err := e.Ln.Accept(ctx)
			acc1 <- accRes{conn, err, time.Since(e.Start)}
		}()

		// =========== handshake-time causes ===========
		if c.Timing == "handshake" {
			dctx, dcancel := context.WithCancel(ctx)
			defer dcancel()
			type dres struct {
				conn *quic.Conn
				err  error
				at   time.Duration
			}
			dch := make(chan dres, 1)
			if c.Cause == "hs-blackhole" {
				e.Router.setBlackhole(true)
			}
			t0 := time.Since(e.Start)
			go func() {
				conn, err := e.Dial(dctx)
				dch <- dres{conn, err, time.Since(e.Start)}
			}()
			var accs []*scCall
			for k := 0; k < c.Accept; k++ {
				// (the first Accept is parked as well; these are further, concurrent ones)
				accs = append(accs, ss.park("Accept", func() (int, error) { _, err := e.Ln.Accept(ctx); return 0, err }))
			}
			time.Sleep(c.At)
			synctest.Wait()
			tc := time.Since(e.Start)
			switch c.Cause {
			case "dial-cancel":
				dcancel()
			case "cli-transport-close":
				e.CliTr.Close()
			case "srv-transport-close":
				e.SrvTr.Close()
			case "listener-close":
				e.Ln.Close()
			}
			var d dres
			select {
			case d = <-dch:
			case <-time.After(60 * time.Second):
				fail("simclose/dial-hang", "Dial still parked 60 s after the cause")
				dcancel()
				d = <-dch
			}
			synctest.Wait()
			if d.err != nil && (c.Cause == "dial-cancel" || c.Cause == "cli-transport-close") {
				// the abandoned attempt is destroyed before Dial returns: nothing of it is left in the routing table
				if counts, _, _ := quic.VerifRLRouting(e.CliTr, nil); len(counts) != 0 {
					fail("simclose/routing-at-return/"+c.Cause, fmt.Sprintf("Dial returned %v but the client transport still routes to %v", d.err, counts))
				}
			}
			if c.Cause == "vneg" {
				if d.err != nil {
					fail("simclose/vneg/dial", fmt.Sprintf("Dial after version negotiation failed: %v", d.err))
				} else {
					// the abandoned first attempt is not a connection the server knows: nothing is due to it
					e.Router.mu.Lock()
					var tVN time.Duration = -1
					for _, g := range e.Router.log {
						if g.Dir == 1 && tVN < 0 && len(g.Data) > 5 && g.Data[0]&0x80 != 0 && g.Data[1]|g.Data[2]|g.Data[3]|g.Data[4] == 0 {
							tVN = g.Time + c.RTT/2
						}
						if g.Dir == 0 && tVN >= 0 && g.Time >= tVN && len(g.Data) > 5 && g.Data[0]&0x80 != 0 && g.Data[1] == 0x6b && g.Data[2] == 0x33 && g.Data[3] == 0x43 && g.Data[4] == 0xcf {
							fail("simclose/vneg/old-version-close", fmt.Sprintf("after the Version Negotiation packet arrived (%v) the client sent a %d-byte QUIC v2 packet at %v for the attempt it abandons", tVN, len(g.Data), g.Time))
						}
					}
					e.Router.mu.Unlock()
					if tVN < 0 {
						fail("simclose/vneg/none", "no Version Negotiation packet seen")
					}
					d.conn.CloseWithError(0, "")
				}
			} else if d.err == nil {
				// the handshake won the race against the cause: nothing to check but the release
				note("handshake-won")
				d.conn.CloseWithError(0, "")
			} else {
				k, code := classifyErr(d.err)
				switch c.Cause {
				case "dial-cancel":
					if !errors.Is(d.err, context.Canceled) {
						fail("simclose/expected-cause/dial-cancel", fmt.Sprintf("Dial returned %v", d.err))
					}
					if d.at != tc {
						fail("simclose/unblock/Dial", fmt.Sprintf("Dial returned %v after the context was cancelled", d.at-tc))
					}
				case "cli-transport-close":
					if !errors.Is(d.err, quic.ErrTransportClosed) {
						fail("simclose/expected-cause/cli-transport-close", fmt.Sprintf("Dial returned %v", d.err))
					}
					if d.at != tc {
						fail("simclose/unblock/Dial", fmt.Sprintf("Dial returned %v after Transport.Close", d.at-tc))
					}
				case "srv-transport-close":
					// the server goes away silently: handshake idle timeout (or handshake timeout)
					if k != ekIdle && k != ekHsTimeout {
						fail("simclose/expected-cause/srv-transport-close", fmt.Sprintf("Dial returned %v", d.err))
					}
				case "listener-close":
					if !(k == ekTransportRemote && code == uint64(quic.ConnectionRefused)) && k != ekIdle && k != ekHsTimeout {
						fail("simclose/expected-cause/listener-close", fmt.Sprintf("Dial returned %v", d.err))
					}
				case "hs-blackhole":
					if k != ekIdle && k != ekHsTimeout {
						fail("simclose/expected-cause/hs-blackhole", fmt.Sprintf("Dial returned %v", d.err))
					}
					// handshake idle timeout: HandshakeIdleTimeout (5 s) after the first flight
					if el := d.at - t0; el < 5*time.Second || el > 10*time.Second+time.Millisecond {
						fail("simclose/hs-timeout-bounds", fmt.Sprintf("Dial returned after %v", el))
					}
				case "bad-tls":
					if d.at != t0 {
						fail("simclose/unblock/Dial", fmt.Sprintf("Dial with an unusable TLS configuration returned after %v", d.at-t0))
					}
				}
			}
			if c.Cause == "listener-close" || c.Cause == "srv-transport-close" {
				synctest.Wait()
				select {
				case a := <-acc1:
					if a.err == nil {
						a.conn.CloseWithError(0, "")
					} else if c.Cause == "listener-close" && !errors.Is(a.err, quic.ErrServerClosed) {
						fail("simclose/expected-cause/Accept", fmt.Sprintf("Accept returned %v after Listener.Close", a.err))
					} else if c.Cause == "srv-transport-close" && !errors.Is(a.err, quic.ErrTransportClosed) {
						fail("simclose/expected-cause/Accept", fmt.Sprintf("Accept returned %v after Transport.Close", a.err))
					}
				default:
					fail("simclose/unblock/Accept", "Accept still parked after "+c.Cause)
				}
				for k, ac := range accs {
					ss.mu.Lock()
					if !ac.done {
						fail("simclose/unblock/Accept", fmt.Sprintf("Accept #%d of %d still parked after %s", k+2, len(accs)+1, c.Cause))
					}
					ss.mu.Unlock()
				}
			}
			// release: everything the attempt created must disappear from the routing tables
			e.Ln.Close()
			time.Sleep(70 * time.Second) // longest: server-side handshake timeout of a half-open attempt + closing period
			synctest.Wait()
			var left [2]int64
			for ti, tr := range []struct {
				n string
				t *quic.Transport
			}{{"client", e.CliTr}, {"server", e.SrvTr}} {
				counts, _, _ := quic.VerifRLRouting(tr.t, nil)
				for _, n := range counts {
					left[ti] += int64(n)
				}
				if len(counts) != 0 {
					fail("simclose/routing/"+c.Cause+"/"+tr.n, fmt.Sprintf("routing table of the %s transport after the failed attempt: %v", tr.n, counts))
				}
			}
			// replayable observation: how the attempt ended, whether the client sent anything after Dial returned, what is left
			sentAfter := false
			e.Router.mu.Lock()
			for _, g := range e.Router.log {
				if g.Dir == 0 && g.Time > d.at {
					sentAfter = true
				}
			}
			e.Router.mu.Unlock()
			dk, dc := classifyErr(d.err)
			if errors.Is(d.err, quic.ErrTransportClosed) {
				dk = ekOther
			}
			causeCode := map[string]int64{"dial-cancel": 0, "cli-transport-close": 1, "srv-transport-close": 2, "listener-close": 3, "hs-blackhole": 4, "bad-tls": 5, "vneg": 6}[c.Cause]
			term = u.App("HsCase", u.Z(causeCode), u.B(d.err == nil), errPair(dk, dc), u.B(sentAfter && d.err != nil), u.Z(left[0]), u.Z(left[1]))
			return
		}

		// =========== established connection ===========
		cl, err := e.Dial(ctx)
		if err != nil {
			fail("simclose/dial/"+c.Client, "handshake on a perfect path failed: "+err.Error())
			return
		}
		a := <-acc1
		if a.err != nil {
			fail("simclose/accept", a.err.Error())
			cl.CloseWithError(0, "")
			return
		}
		sv := a.conn
		cs.conn, ss.conn = cl, sv
		conns := []*quic.Conn{cl, sv}
		obs := [2]*scObs{{client: true}, {}}
		var doneMu sync.Mutex
		var doneAt [2]time.Duration
		for i, cn := range conns {
			go func() {
				<-cn.Context().Done()
				doneMu.Lock()
				doneAt[i] = time.Since(e.Start)
				doneMu.Unlock()
			}()
		}
		dgOK := [2]bool{cl.ConnectionState().SupportsDatagrams.Remote, sv.ConnectionState().SupportsDatagrams.Remote}
		talk := func(i int, n int) error {
			if dgOK[i] {
				return conns[i].SendDatagram(make([]byte, n))
			}
			_, err := sides[i].s1.Write(make([]byte, n))
			return err
		}

		// streams: S1 (Read parks on both sides), S2 (Write parks on both sides), S3 bulk
		mk := func() (*quic.Stream, *quic.Stream, error) {
			s, err := cl.OpenStreamSync(ctx)
			if err != nil {
				return nil, nil, err
			}
			if _, err := s.Write([]byte("hello")); err != nil {
				return nil, nil, err
			}
			p, err := sv.AcceptStream(ctx)
			if err != nil {
				return nil, nil, err
			}
			buf := make([]byte, 5)
			if _, err := io.ReadFull(p, buf); err != nil {
				return nil, nil, err
			}
			return s, p, nil
		}
		var s3c, s3s *quic.Stream
		// one stream per parked Read (a stream has one reader), the first one is also used for later calls
		for k := 0; k < max(1, cnt(c.Blocked[0], "Read"), cnt(c.Blocked[1], "Read")) && err == nil; k++ {
			var a, b *quic.Stream
			a, b, err = mk()
			cs.rs, ss.rs = append(cs.rs, a), append(ss.rs, b)
		}
		if err == nil {
			cs.s1, ss.s1 = cs.rs[0], ss.rs[0]
			cs.s2, ss.s2, err = mk()
		}
		if err == nil {
			s3c, s3s, err = mk()
		}
		if err != nil {
			fail("simclose/setup", "stream set-up on a perfect path failed: "+err.Error())
			return
		}
		for i, sd := range sides {
			sd := sd
			bl := c.Blocked[i]
			for k := 0; k < cnt(bl, "Read"); k++ {
				str := sd.rs[k]
				sd.park("Read", func() (int, error) { return str.Read(make([]byte, 100)) })
			}
			if has(bl, "Write") {
				sd.park("Write", func() (int, error) { return sd.s2.Write(make([]byte, 100000)) })
			}
			for k := 0; k < cnt(bl, "AcceptStream"); k++ {
				sd.park("AcceptStream", func() (int, error) { _, err := sd.conn.AcceptStream(ctx); return 0, err })
			}
			for k := 0; k < cnt(bl, "AcceptUniStream"); k++ {
				sd.park("AcceptUniStream", func() (int, error) { _, err := sd.conn.AcceptUniStream(ctx); return 0, err })
			}
			for k := 0; k < cnt(bl, "OpenStreamSync"); k++ {
				sd.park("OpenStreamSync", func() (int, error) { _, err := sd.conn.OpenStreamSync(ctx); return 0, err })
			}
			if has(bl, "OpenUniStreamSync") {
				if i == 0 { // the server allows one: use it up
					if us, err := cl.OpenUniStreamSync(ctx); err == nil {
						us.Write([]byte("x"))
					}
				}
				for k := 0; k < cnt(bl, "OpenUniStreamSync"); k++ {
					sd.park("OpenUniStreamSync", func() (int, error) { _, err := sd.conn.OpenUniStreamSync(ctx); return 0, err })
				}
			}
			for k := 0; k < cnt(bl, "ReceiveDatagram") && c.Dg[i]; k++ { // (without the own flag ReceiveDatagram refuses right away)
				sd.park("ReceiveDatagram", func() (int, error) { _, err := sd.conn.ReceiveDatagram(ctx); return 0, err })
			}
		}
		var accs []*scCall
		for k := 0; k < c.Accept; k++ {
			accs = append(accs, ss.park("Accept", func() (int, error) { _, err := e.Ln.Accept(ctx); return 0, err }))
		}
		if c.Timing == "transfer" {
			go func() { s3c.Write(make([]byte, 600000)); s3c.Close() }()
			go io.Copy(io.Discard, s3s)
		}
		time.Sleep(2*c.RTT + 10*time.Millisecond)
		synctest.Wait()
		for _, sd := range sides {
			sd.mu.Lock()
			var parked []*scCall
			for _, cl := range sd.calls {
				if cl.done {
					// (a parrot's own transport parameters may allow what the plain configuration forbids)
					note("not-parked:" + sd.name + "." + cl.name)
					if cl.err != nil {
						fail("simclose/setup-call-failed", fmt.Sprintf("%s %s failed before any cause: %v", sd.name, cl.name, cl.err))
					}
				} else {
					parked = append(parked, cl)
				}
			}
			sd.calls = parked
			sd.mu.Unlock()
		}
		// ---- negotiated idle timeouts (peer values travel in ms and are raised to 5 s)
		negot := [2]time.Duration{
			min(c.CliIdle, max(c.SrvIdle.Truncate(time.Millisecond), 5*time.Second)),
			min(c.SrvIdle, max(c.CliIdle.Truncate(time.Millisecond), 5*time.Second)),
		}
		if c.Client != "plain" && c.Client != "unil" {
			// a parrot advertises its spec's max_idle_timeout, not the configured one (C12's subject):
			// take what each side negotiated from the connection itself
			negot = [2]time.Duration{time.Duration(quic.VerifRunLoopSnapshot(cl).IdleTimeout), time.Duration(quic.VerifRunLoopSnapshot(sv).IdleTimeout)}
		}
		maxNegot := max(negot[0], negot[1])
		minNegot := min(negot[0], negot[1])
		time.Sleep(min(c.At, minNegot/4))
		synctest.Wait()

		// ---- SendDatagram callers parked on the full send queue: 60 datagrams at this instant are more than the pacer's
		// burst plus the 32 slots of the queue
		for i, sd := range sides {
			if !c.Flood[i] || !dgOK[i] {
				continue
			}
			conn := conns[i]
			fl := sd.park("SendDatagram", func() (int, error) {
				for k := 0; k < 60; k++ {
					if err := conn.SendDatagram(make([]byte, 1000)); err != nil {
						return k, err
					}
				}
				return 60, nil
			})
			synctest.Wait()
			sd.mu.Lock()
			if fl.done {
				note("not-parked:" + sd.name + ".SendDatagram")
				sd.calls = sd.calls[:len(sd.calls)-1]
			} else if c.Dg[i] {
				note("send-queue-full:" + sd.name)
			} else {
				note("send-queue-full-send-only:" + sd.name)
			}
			sd.mu.Unlock()
		}

		// ---- the cause
		tc := time.Since(e.Start)
		closer := -1 // side that sends a CONNECTION_CLOSE (0 client, 1 server)
		var wantCause [2]func(error) bool
		isIdle := func(err error) bool { k, _ := classifyErr(err); return k == ekIdle }
		wantDesc := [2]string{"?", "?"}
		isReset := func(err error) bool { k, _ := classifyErr(err); return k == ekStatelessReset }
		orIdle := func(f func(error) bool) func(error) bool { return func(e error) bool { return f(e) || isIdle(e) || isReset(e) } }
		appErr := func(remote bool) func(error) bool {
			return func(err error) bool {
				var ae *quic.ApplicationError
				return errors.As(err, &ae) && ae.Remote == remote && uint64(ae.ErrorCode) == c.Code && ae.ErrorMessage == "bye"
			}
		}
		trErr := func(remote bool, code quic.TransportErrorCode) func(error) bool {
			return func(err error) bool {
				var te *quic.TransportError
				return errors.As(err, &te) && te.Remote == remote && te.ErrorCode == code
			}
		}
		bound := maxNegot + 3*time.Second + 4*c.RTT // generous: everything is closed by then
		expectAlive := false
		switch c.Cause {
		case "cli-close", "srv-close":
			closer = 0
			if c.Cause == "srv-close" {
				closer = 1
			}
			armDrop(closer) // direction index == sending side: dir 0 = client->server
			wantCause[closer], wantDesc[closer] = appErr(false), "local application error"
			wantCause[1-closer], wantDesc[1-closer] = appErr(true), "remote application error"
			if c.DropClose > 0 {
				wantCause[1-closer] = orIdle(wantCause[1-closer])
				bound = 2*maxNegot + 3*time.Second // a keep-alive PING sent into the void restarts the period once
			}
			conns[closer].CloseWithError(quic.ApplicationErrorCode(c.Code), "bye")
		case "transport-error":
			// the client sends a frame that is a protocol violation; the server closes with a transport error
			closer = 1
			armDrop(1)
			wantCause[1], wantDesc[1] = trErr(false, quic.ProtocolViolation), "local PROTOCOL_VIOLATION"
			wantCause[0], wantDesc[0] = trErr(true, quic.ProtocolViolation), "remote PROTOCOL_VIOLATION"
			if c.DropClose > 0 {
				wantCause[0] = orIdle(wantCause[0])
				bound = 2*maxNegot + 3*time.Second
			}
			quic.VerifQueueHandshakeDone(cl)
		case "idle":
			e.Router.setBlackhole(true)
			wantCause[0], wantCause[1] = isIdle, isIdle
			wantDesc = [2]string{"idle timeout", "idle timeout"}
			bound = 2*maxNegot + 3*time.Second // an ack-eliciting packet sent into the void restarts the period once
		case "silence":
			wantCause[0], wantCause[1] = isIdle, isIdle
			wantDesc = [2]string{"idle timeout", "idle timeout"}
			bound = 2*maxNegot + 3*time.Second
		case "ka-alive":
			expectAlive = true
		case "stateless-reset":
			e.SrvTr.Close()
			srvTLS, _, _ := simTLS()
			srvTr2 = &quic.Transport{Conn: e.SrvPC, StatelessResetKey: &resetKey}
			if _, err := srvTr2.Listen(srvTLS, srvConf); err != nil {
				fail("simclose/env", "restarting the server transport: "+err.Error())
				return
			}
			wantCause[1], wantDesc[1] = func(err error) bool { return errors.Is(err, quic.ErrTransportClosed) }, "transport closed"
			wantCause[0], wantDesc[0] = func(err error) bool { k, _ := classifyErr(err); return k == ekStatelessReset }, "stateless reset"
			// the client has to send something large enough to be answered with a reset
			go func() { time.Sleep(c.RTT); talk(0, 300) }()
		case "cli-transport-close":
			e.CliTr.Close()
			wantCause[0], wantDesc[0] = func(err error) bool { return errors.Is(err, quic.ErrTransportClosed) }, "transport closed"
			wantCause[1], wantDesc[1] = isIdle, "idle timeout"
			bound = 2*maxNegot + 3*time.Second
		case "srv-transport-close":
			e.SrvTr.Close()
			wantCause[1], wantDesc[1] = func(err error) bool { return errors.Is(err, quic.ErrTransportClosed) }, "transport closed"
			wantCause[0], wantDesc[0] = isIdle, "idle timeout"
			bound = 2*maxNegot + 3*time.Second
		case "listener-close":
			e.Ln.Close()
			expectAlive = true
		}
		_ = lat

		if expectAlive {
			// nothing may close the connection: stay silent for 3.2 idle periods (keep-alives flow)
			wait := maxNegot*3 + maxNegot/5
			if c.Cause == "listener-close" {
				wait = minNegot / 4
			}
			n0 := len(e.Router.log)
			time.Sleep(wait)
			synctest.Wait()
			died := false
			for i, cn := range conns {
				select {
				case <-cn.Context().Done():
					died = true
					key := "simclose/ka-alive/closed"
					if min(c.CliIdle, c.SrvIdle) < 5*time.Second {
						// the side that was told an idle timeout below protocol.MinRemoteIdleTimeout (5 s)
						// computes its keep-alive interval from 5 s, the other side times out before
						key = "simclose/ka-alive/closed/remote-idle-below-5s"
					}
					if (c.SpecIdle == "adv" && c.SpecTc < c.CliIdle) || (c.SpecIdle == "" && c.Client != "plain" && c.Client != "unil" && c.CliIdle > 30*time.Second) {
						// the spec tells the peer a shorter max_idle_timeout than the client enforces (max(Config, spec)); the
						// keep-alive interval is computed from the enforced value and the peer's, not from what the peer was told
						key = "simclose/ka-alive/closed/spec-advertises-less-than-enforced"
					}
					if c.Cause == "listener-close" {
						key = "simclose/listener-close/conn-closed"
					}
					fail(key, fmt.Sprintf("%s connection closed with %v although %s", sides[i].name, context.Cause(cn.Context()),
						map[string]string{"ka-alive": "keep-alives were being answered", "listener-close": "only the listener was closed"}[c.Cause]))
				default:
				}
			}
			if died {
				for _, cn := range conns {
					cn.CloseWithError(0, "")
				}
				return
			}
			if c.Cause == "ka-alive" {
				e.Router.mu.Lock()
				n1 := len(e.Router.log)
				e.Router.mu.Unlock()
				if n1 == n0 {
					fail("simclose/ka-alive/no-ping", "no datagram at all during 3 idle periods with keep-alive enabled")
				}
			}
			if c.Cause == "listener-close" {
				synctest.Wait()
				for k, ac := range accs {
					ss.mu.Lock()
					if !ac.done {
						fail("simclose/unblock/Accept", fmt.Sprintf("Accept #%d of %d still parked after Listener.Close", k+1, len(accs)))
					} else if !errors.Is(ac.err, quic.ErrServerClosed) {
						fail("simclose/expected-cause/Accept", fmt.Sprintf("Accept returned %v after Listener.Close", ac.err))
					}
					ss.mu.Unlock()
				}
			}
			// finish with an ordinary client close and fall through to the common checks
			closer = 0
			tc = time.Since(e.Start)
			wantCause[0], wantDesc[0] = appErr(false), "local application error"
			wantCause[1], wantDesc[1] = appErr(true), "remote application error"
			bound = maxNegot + 3*time.Second
			select {
			case <-cl.Context().Done():
			default:
				cl.CloseWithError(quic.ApplicationErrorCode(c.Code), "bye")
			}
		}

		// the peer of a closed endpoint may keep talking (exercises the closed-connection stand-in)
		if c.PeerTalks && closer >= 0 {
			go func() {
				for i := 0; i < 12; i++ {
					if talk(1-closer, 50) != nil {
						return
					}
					time.Sleep(c.RTT/4 + time.Millisecond)
				}
			}()
		}

		// ---- wait for both sides
		for i, cn := range conns {
			select {
			case <-cn.Context().Done():
			case <-time.After(time.Until(e.Start.Add(tc + bound))):
				fail("simclose/bounded/"+c.Cause, fmt.Sprintf("%s connection still open %v after the cause", sides[i].name, bound))
				cn.CloseWithError(0, "")
			}
		}
		synctest.Wait()
		tEnd := time.Since(e.Start)
		if c.Cause == "srv-transport-close" || c.Cause == "stateless-reset" {
			// closing the transport closes its listener: every parked Accept returns
			for k, ac := range accs {
				ss.mu.Lock()
				if !ac.done {
					fail("simclose/unblock/Accept", fmt.Sprintf("Accept #%d of %d still parked after Transport.Close", k+1, len(accs)))
				} else if !errors.Is(ac.err, quic.ErrTransportClosed) {
					fail("simclose/expected-cause/Accept", fmt.Sprintf("Accept returned %v after Transport.Close", ac.err))
				}
				ss.mu.Unlock()
			}
		}

		// ---- monitors: unblock + cause
		for i, sd := range sides {
			cause := context.Cause(conns[i].Context())
			if wantCause[i] != nil && !wantCause[i](cause) {
				fail("simclose/expected-cause/"+c.Cause+"/"+sd.name, fmt.Sprintf("%s recorded %q, the scenario provokes: %s", sd.name, cause, wantDesc[i]))
			}
			sd.mu.Lock()
			var first time.Duration
			for _, cl := range sd.calls {
				if cl.name == "Accept" {
					continue
				}
				if !cl.done {
					total, stuck := 0, 0
					for _, o := range sd.calls {
						if o.name == cl.name {
							total++
							if !o.done {
								stuck++
							}
						}
					}
					fail("simclose/unblock/"+cl.name, fmt.Sprintf("%s: %d of %d goroutines parked in %s still parked %v after the connection closed with %v", sd.name, stuck, total, cl.name, tEnd-doneAt[i], cause))
					obs[i].parked = append(obs[i].parked, [2]int64{scCallKinds[cl.name], 5})
					continue
				}
				if (first == 0 || cl.at < first) && !((cl.name == "ReceiveDatagram" || cl.name == "SendDatagram") && cl.err == nil) {
					first = cl.at
				}
				if (cl.name == "ReceiveDatagram" || cl.name == "SendDatagram") && cl.err == nil {
					continue // it was handed a datagram / all its datagrams were queued before the close: its own result
				}
				obs[i].parked = append(obs[i].parked, [2]int64{scCallKinds[cl.name], scResClass(cl.err, cause)})
				if !sameCause(cl.err, cause) {
					fail("simclose/cause/"+cl.name, fmt.Sprintf("%s %s returned %q (n=%d), recorded cause %q", sd.name, cl.name, cl.err, cl.n, cause))
				}
			}
			for _, cl := range sd.calls {
				if (cl.name == "ReceiveDatagram" || cl.name == "SendDatagram") && cl.err == nil {
					continue
				}
				if cl.done && cl.name != "Accept" && cl.at != first {
					fail("simclose/unblock-late/"+cl.name, fmt.Sprintf("%s %s returned %v after the first parked call", sd.name, cl.name, cl.at-first))
				}
			}
			if first != 0 && first != doneAt[i] {
				fail("simclose/unblock-late/ctx", fmt.Sprintf("%s parked calls returned at %v, the context was cancelled at %v", sd.name, first, doneAt[i]))
			}
			sd.mu.Unlock()

			// later calls
			later := []struct {
				name string
				f    func() error
			}{
				{"OpenStream", func() error { _, err := conns[i].OpenStream(); return err }},
				{"OpenStreamSync", func() error { _, err := conns[i].OpenStreamSync(ctx); return err }},
				{"OpenUniStream", func() error { _, err := conns[i].OpenUniStream(); return err }},
				{"OpenUniStreamSync", func() error { _, err := conns[i].OpenUniStreamSync(ctx); return err }},
				{"AcceptStream", func() error { _, err := conns[i].AcceptStream(ctx); return err }},
				{"AcceptUniStream", func() error { _, err := conns[i].AcceptUniStream(ctx); return err }},
				{"ReceiveDatagram", func() error { // datagrams queued before the close are still handed out
					for k := 0; k < 200; k++ {
						if _, err := conns[i].ReceiveDatagram(ctx); err != nil {
							return err
						}
					}
					return nil
				}},
				{"SendDatagram", func() error { return conns[i].SendDatagram([]byte("late")) }},
				{"Read", func() error { _, err := sd.s1.Read(make([]byte, 10)); return err }},
				{"Write", func() error { _, err := sd.s1.Write(make([]byte, 10)); return err }},
			}
			for _, lc := range later {
				lc := lc
				if (lc.name == "Read" && has(c.Blocked[i], "Read")) || (lc.name == "Write" && has(c.Blocked[i], "Write")) {
					// (fine as well, but keep one goroutine per stream direction)
				}
				if (lc.name == "SendDatagram" && !dgOK[i]) || (lc.name == "ReceiveDatagram" && !c.Dg[i]) {
					continue // refused for lack of support (the call's own precondition), whatever the state of the connection
				}
				res := make(chan error, 1)
				go func() { res <- lc.f() }()
				synctest.Wait()
				select {
				case err := <-res:
					obs[i].later = append(obs[i].later, [2]int64{scCallKinds[lc.name], scResClass(err, cause)})
					if !sameCause(err, cause) {
						fail("simclose/later-call/"+lc.name, fmt.Sprintf("%s %s after the close returned %v, recorded cause %q", sd.name, lc.name, err, cause))
					}
				default:
					obs[i].later = append(obs[i].later, [2]int64{scCallKinds[lc.name], 5})
					fail("simclose/later-call-parks/"+lc.name, fmt.Sprintf("%s %s after the close parks", sd.name, lc.name))
				}
			}
		}

		// ---- what went over the wire around and after each close
		snaps := [2]quic.VerifRunLoopSnap{quic.VerifRunLoopSnapshot(cl), quic.VerifRunLoopSnapshot(sv)}
		tSnap := time.Since(e.Start)
		// let the closing periods (3 PTO) run out, and what is still in flight arrive
		time.Sleep(3*time.Duration(max(snaps[0].PTONoAckDelay, snaps[1].PTONoAckDelay)) + c.RTT + 10*time.Millisecond)
		synctest.Wait()
		e.Router.mu.Lock()
		log := append([]dgram(nil), e.Router.log...)
		e.Router.mu.Unlock()
		closeAt := doneAt
		if rlDebug {
			for _, d := range log {
				if d.Time >= tc-time.Millisecond {
					fmt.Fprintf(os.Stderr, "dgram dir=%d idx=%d t=%v len=%d first=%x act=%s\n", d.Dir, d.Idx, d.Time, len(d.Data), d.Data[:min(24, len(d.Data))], d.Act)
				}
			}
			fmt.Fprintf(os.Stderr, "tc=%v closeAt=%v pto=%v/%v\n", tc, closeAt, time.Duration(snaps[0].PTONoAckDelay), time.Duration(snaps[1].PTONoAckDelay))
		}
		for i, sd := range sides {
			cause := context.Cause(conns[i].Context())
			k, _ := classifyErr(cause)
			silent := k == ekIdle || k == ekHsTimeout || k == ekStatelessReset || k == ekAppRemote || k == ekTransportRemote || errors.Is(cause, quic.ErrTransportClosed)
			// datagrams the side sent at the close instant (the last of them is the CONNECTION_CLOSE
			// if one is sent: the run loop sends nothing else once it has left) and later
			var atClose, after []dgram
			for _, d := range log {
				if d.Dir == i && d.Time == closeAt[i] {
					atClose = append(atClose, d)
				} else if d.Dir == i && d.Time > closeAt[i] {
					after = append(after, d)
				}
			}
			if !silent && i == closer && len(atClose) > 0 {
				after = append([]dgram{atClose[len(atClose)-1]}, after...)
			}
			obs[i].cause = cause
			_, obs[i].immediate, _ = quic.VerifRecordedCloseErr(conns[i])
			obs[i].sentFirst, obs[i].hs = snaps[i].SentFirstPacket, snaps[i].HandshakeComplete
			if !silent && i == closer {
				obs[i].sent = len(after) > 0
			} else if !(c.Cause == "stateless-reset" && i == 1) { // (the restarted transport answers from the same address)
				obs[i].sent = len(after) > 0
			}
			if silent && len(after) > 0 && !(c.Cause == "stateless-reset" && i == 1) {
				fail("simclose/silent-close-sends/"+errClassName(k, cause), fmt.Sprintf("%s closed with %q at %v but sent %d datagram(s) at/after that (first at %v, %d bytes)", sd.name, cause, closeAt[i], len(after), after[0].Time, len(after[0].Data)))
			}
			if !silent && i == closer {
				if len(after) == 0 {
					fail("simclose/close-frame-missing", fmt.Sprintf("%s closed with %q and sent nothing", sd.name, cause))
				} else {
					// closing period: only copies of the CONNECTION_CLOSE datagram, with back-off
					period := 3 * time.Duration(snaps[i].PTONoAckDelay)
					// what the stand-in must answer: a copy on arrivals 1, 2, 4, 8, ... as long as the copies stay
					// within three times the bytes that arrived for the closed connection (RFC 9000 10.2.1)
					expected := func(boundary bool) (copies, n int) {
						var recv, sent int
						psize := len(after[0].Data)
						for _, d := range log {
							if d.Dir != 1-i || strings.Contains(d.Act, "drop") {
								continue
							}
							at := d.Time + lat
							in := at > closeAt[i] && at < closeAt[i]+period
							if boundary && (at == closeAt[i] || at == closeAt[i]+period) {
								in = true
							}
							if !in {
								continue
							}
							n++
							recv += len(d.Data)
							if n&(n-1) == 0 && sent+psize <= 3*recv {
								copies++
								sent += psize
							}
						}
						return
					}
					eMin, arrivals := expected(false)
					eMax, arrivalsMax := expected(true)
					if eMin > eMax {
						eMin, eMax = eMax, eMin
					}
					if c.Flood[1-i] {
						// a burst of arrivals at one instant can overflow the transport's 4-slot queue for the copies
						// ("sending CONNECTION_CLOSE copies is best effort anyway"): only the upper bound holds
						eMin = 0
					}
					// (beyond the closing period a server with a reset key answers with stateless resets)
					var inPeriod []dgram
					for _, d := range after {
						if d.Time < closeAt[i]+period {
							inPeriod = append(inPeriod, d)
						}
					}
					after = inPeriod
					for _, d := range after[1:] {
						if !bytes.Equal(d.Data, after[0].Data) {
							fail("simclose/closing-period-sends-other", fmt.Sprintf("%s sent a datagram that is not its CONNECTION_CLOSE after closing (%d bytes at %v)", sd.name, len(d.Data), d.Time))
							break
						}
					}
					if cp := len(after) - 1; cp > eMax || cp < eMin {
						fail("simclose/backoff", fmt.Sprintf("%s retransmitted its CONNECTION_CLOSE %d times for %d..%d datagrams arriving in its closing period (expected %d..%d: packets 1, 2, 4, 8, ... within 3x the bytes received)", sd.name, cp, arrivals, arrivalsMax, eMin, eMax))
					}
				}
			}
			// peer-close: if any copy of the CONNECTION_CLOSE was delivered, the peer must have recorded it
			if !silent && i == closer {
				delivered := false
				for _, d := range after {
					if !strings.Contains(d.Act, "drop") && d.Time+lat <= closeAt[1-i] {
						delivered = true
					}
				}
				pc := context.Cause(conns[1-i].Context())
				pk, pcode := classifyErr(pc)
				if delivered && (pk == ekAppRemote || pk == ekTransportRemote) {
					obs[i].peer = u.Opt(true, errPair(pk, pcode))
				}
				// (with a lost first copy and a server that answers with stateless resets after its closing period, a reset can
				// overtake the retransmitted copy)
				obs[i].delivered = delivered && !(pk == ekStatelessReset && c.DropClose > 0)
				if delivered && pk != ekAppRemote && pk != ekTransportRemote && !(pk == ekStatelessReset && c.DropClose > 0) {
					fail("simclose/peer-close", fmt.Sprintf("a CONNECTION_CLOSE of the %s was delivered but the peer recorded %q", sd.name, pc))
				}
			}
			// idle-bounds
			if k == ekIdle && snaps[i].HandshakeComplete {
				var lastIn time.Duration
				for _, d := range log {
					if d.Dir == 1-i && !strings.Contains(d.Act, "drop") && d.Time+lat <= closeAt[i] && d.Time+lat > lastIn {
						lastIn = d.Time + lat
					}
				}
				T := closeAt[i]
				// the negotiated period, from the bytes on the wire: the minimum of the non-zero max_idle_timeout values
				// as each side RECEIVED them from the other (RFC 9000 10.1); none advertised: no idle timeout at all
				wire := time.Duration(0)
				for _, a := range []int64{snaps[i].PeerAdvertisedIdle, snaps[1-i].PeerAdvertisedIdle} {
					if a > 0 && (wire == 0 || time.Duration(a) < wire) {
						wire = time.Duration(a)
					}
				}
				if wire == 0 {
					fail("simclose/idle-none-advertised", fmt.Sprintf("%s timed out although neither side advertised max_idle_timeout", sd.name))
				} else if T < lastIn+wire {
					fail("simclose/idle-early", fmt.Sprintf("%s timed out %v after the last datagram it received, negotiated idle timeout %v (on the wire: it was told %v, it told the peer %v)", sd.name, T-lastIn, wire,
						time.Duration(snaps[i].PeerAdvertisedIdle), time.Duration(snaps[1-i].PeerAdvertisedIdle)))
				}
				start := lastIn
				if f := snaps[i].FirstAckElicitingAft; f != 0 {
					fRel := time.Duration(f-snaps[i].Now) + tSnap
					sentThen := false
					for _, d := range log {
						if d.Dir == i && d.Time == fRel {
							sentThen = true
						}
					}
					if !sentThen {
						fail("simclose/idle-start-bogus", fmt.Sprintf("%s: first ack-eliciting packet after idle recorded at %v, but no datagram left then", sd.name, fRel))
					}
					if fRel > start {
						start = fRel
					}
				}
				limit := start + max(negot[i], 3*time.Duration(snaps[i].PTO)) + time.Millisecond
				if T > limit {
					fail("simclose/idle-late", fmt.Sprintf("%s timed out at %v, %v later than max(last receive %v, first ack-eliciting send) + max(idle %v, 3 PTO %v)", sd.name, T, T-limit, lastIn, negot[i], 3*time.Duration(snaps[i].PTO)))
				}
			}
		}

		// ---- routing: after the closing period nothing is left
		trs := []struct {
			n string
			t *quic.Transport
		}{{"client", e.CliTr}, {"server", e.SrvTr}}
		if srvTr2 != nil {
			trs = append(trs, struct {
				n string
				t *quic.Transport
			}{"server2", srvTr2})
		}
		for ti, tr := range trs {
			counts, tokens, _ := quic.VerifRLRouting(tr.t, nil)
			for _, n := range counts {
				obs[min(ti, 1)].routing += int64(n)
			}
			if len(counts) != 0 || tokens != 0 {
				fail("simclose/routing/"+c.Cause+"/"+tr.n, fmt.Sprintf("routing table of the %s transport after the closing period: handlers %v, reset tokens %d", tr.n, counts, tokens))
			}
		}
		info = fmt.Sprintf("close at c=%v s=%v cause c=%q s=%q", closeAt[0]-tc, closeAt[1]-tc, context.Cause(cl.Context()), context.Cause(sv.Context()))
		term = u.App("EstCase", u.List([]string{obs[0].term(), obs[1].term()}))
	})
	if err != nil {
		fail("simclose/leak-or-panic", err.Error())
	}
	if len(notes) > 0 {
		info += " " + strings.Join(notes, ",")
	}
	return fails, info, term
}

// scDeriveIdleSpec rewrites the max_idle_timeout entry of the spec's transport-parameter list.
func scDeriveIdleSpec(sp *quic.QUICSpec, mode string, tc time.Duration) bool {
	if sp.ClientHelloSpec == nil {
		return false
	}
	for _, ext := range sp.ClientHelloSpec.Extensions {
		qtp, ok := ext.(*tls.QUICTransportParametersExtension)
		if !ok {
			continue
		}
		var out tls.TransportParameters
		found := false
		for _, p := range qtp.TransportParameters {
			if _, is := p.(tls.MaxIdleTimeout); is {
				found = true
				if mode == "omit" {
					continue
				}
				out = append(out, tls.MaxIdleTimeout(uint64(tc/time.Millisecond)))
				continue
			}
			out = append(out, p)
		}
		qtp.TransportParameters = out
		if mode == "suppress" {
			sp.SuppressTransportParameters = append(sp.SuppressTransportParameters, 0x01)
		}
		return found
	}
	return false
}

func errClassName(k int, err error) string {
	if errors.Is(err, quic.ErrTransportClosed) {
		return "transport-closed"
	}
	return map[int]string{ekIdle: "idle-timeout", ekHsTimeout: "handshake-timeout", ekStatelessReset: "stateless-reset", ekAppRemote: "remote-close",
		ekTransportRemote: "remote-close"}[k]
}

func runSimClose(w *bufio.Writer, seed uint64, n int, args []string) {
	r := u.NewRng(seed)
	only := -1
	for _, a := range args {
		if strings.HasPrefix(a, "only=") {
			fmt.Sscanf(a, "only=%d", &only)
		}
	}
	dist := map[string]int{}
	for i := 0; i < n; i++ {
		c := genSimCloseCase(r)
		if i < len(scCauses) { // every cause at least once in every run
			c.Cause = scCauses[i]
			c = fixupCase(c)
		} else if j := i - len(scCauses); j < len(scSpecIdleTable) {
			// spec-driven clients x how max_idle_timeout appears in their list x server value shorter / longer: silence
			t := scSpecIdleTable[j]
			c.Cause, c.Client, c.SpecIdle, c.SpecTc, c.CliIdle, c.SrvIdle = "silence", "Chrome_115_IPv4", t.mode, t.tc, t.conf, t.srv
			c.RTT = 10 * time.Millisecond
			c = fixupCase(c)
		} else if j := i - len(scCauses) - len(scSpecIdleTable); j >= 0 && j < len(scSpecKATable) {
			// keep-alive of a spec-driven client that advertises less than it enforces (repo 97504e3)
			t := scSpecKATable[j]
			c.Cause, c.Client, c.SpecIdle, c.SpecTc, c.CliIdle, c.CliKA, c.SrvIdle, c.SrvKA = "ka-alive", "Chrome_115_IPv4", t.mode, t.tc, t.conf, t.kap, t.srv, 0
			c.RTT = 10 * time.Millisecond
			c = fixupCase(c)
			c.CliKA, c.SrvKA = t.kap, 0
		}
		if only >= 0 && i != only {
			continue
		}
		stop := watchdog(w, "simclose/livelock", c.String)
		fails, info, term := runOneSimClose(c)
		stop()
		dist["cause="+c.Cause+"/"+c.Timing]++
		dist["client="+c.Client]++
		dist["SendDatagram parked on the full queue at the cause"] += strings.Count(info, "send-queue-full:")
		dist["SendDatagram parked on the full queue at the cause, own EnableDatagrams=false"] += strings.Count(info, "send-queue-full-send-only:")
		dist[fmt.Sprintf("datagrams(c/s)=%v/%v", c.Dg[0], c.Dg[1])]++
		if strings.Contains(info, "handshake-won") {
			dist["handshake-won-the-race"]++
		}
		nt := 1
		if term == "TextCase" {
			nt = 0
		}
		fmt.Fprintf(w, "CASE %d %s\n", nt, term)
		fmt.Fprintf(w, "INFO\tcase %d: %s\n", i, c.String())
		if i < 3 || os.Getenv("VERIF_VERBOSE") != "" {
			fmt.Fprintf(w, "SAMPLE\ti=%d %s => %s\n", i, c.String(), info)
		}
		seen := map[string]bool{}
		for _, f := range fails {
			if seen[f.key+f.desc] {
				continue
			}
			seen[f.key+f.desc] = true
			fmt.Fprintf(w, "MONFAIL\t%s\t%s\t%s\n", f.key, f.desc, c.String())
		}
	}
	keys := make([]string, 0, len(dist))
	for k := range dist {
		keys = append(keys, k)
	}
	sort.Strings(keys)
	for _, k := range keys {
		fmt.Fprintf(w, "DIST\t%s\t%d\n", k, dist[k])
	}
}

var scSpecIdleTable = []struct {
	mode          string
	tc, conf, srv time.Duration
}{
	{"adv", 8 * time.Second, 3 * time.Second, 20 * time.Second},
	{"adv", 8 * time.Second, 12 * time.Second, 6 * time.Second},
	{"omit", 0, 7 * time.Second, 20 * time.Second},
	{"omit", 0, 25 * time.Second, 6 * time.Second},
	{"suppress", 4 * time.Second, 9 * time.Second, 22 * time.Second},
	{"suppress", 15 * time.Second, 6 * time.Second, 25 * time.Second},
	{"suppress", 15 * time.Second, 20 * time.Second, 7 * time.Second},
}

var scSpecKATable = []struct {
	mode               string
	tc, conf, kap, srv time.Duration
}{
	{"adv", 4 * time.Second, 13 * time.Second, 6600 * time.Millisecond, 18 * time.Second},
	{"", 0, 60 * time.Second, 45 * time.Second, 120 * time.Second}, // the built-in parrot advertises 30 s
}

// fixupCase re-applies the cause-dependent constraints after the cause was overridden.
func fixupCase(c scCase) scCase {
	switch c.Cause {
	case "dial-cancel", "hs-blackhole", "bad-tls", "vneg":
		c.Timing = "handshake"
	case "silence":
		c.CliKA, c.SrvKA = 0, 0
		c.Timing = "idle"
	case "ka-alive":
		c.Timing = "idle"
		// (a parrot advertises its spec's max_idle_timeout while enforcing the configured one - C12's
		// subject - so only its own keep-alive can be relied on)
		if (c.CliKA == 0 && c.SrvKA == 0) || (c.Client != "plain" && c.Client != "unil") {
			c.CliKA = c.CliIdle / 2
		}
	default:
		if c.Timing == "handshake" && c.Cause != "cli-transport-close" && c.Cause != "srv-transport-close" && c.Cause != "listener-close" {
			c.Timing = "idle"
		}
	}
	if c.Timing == "handshake" {
		c.Blocked = [2][]string{}
		if c.At > 12*c.RTT/10 {
			c.At = c.RTT / 2
		}
		if (c.Cause == "bad-tls" || c.Cause == "vneg") && c.Client != "plain" {
			c.Client = "unil"
		}
	}
	if !(c.Cause == "cli-close" || c.Cause == "srv-close" || c.Cause == "transport-error") {
		c.DropClose = 0
	}
	return scNormalize(c)
}
