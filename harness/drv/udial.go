//go:build verif

package main

// udial: C02 unit level. ONE QUICSpec value is dialled several times through UTransport into
// a dead simulated network (black-hole router); after every dial the harness dumps what the
// dial left in the shared spec (transport parameter list, key shares, server name) and what
// went on the wire (source connection ID of the packets, ClientHello: extension 57, key
// shares, SNI). The first flight is read with readers written here: Initial keys from the
// destination connection ID (handshake.VerifClientInitialOpener), header protection and AEAD
// through that opener, own frame reader, CRYPTO reassembly, own ClientHello walker, own
// transport-parameter reader.
//
// Monitors (model-independent; <q> = built-in QUICID name or "derived"):
//   udial/<q>/decode          the first flight decodes and the ClientHello reassembles
//   udial/<q>/stale-scid      initial_source_connection_id on the wire == the source connection
//                             ID of that dial's packets (when the spec leaves it to the library)
//   udial/<q>/stale-params    extension 57 == the spec's list as the caller wrote it, minus the
//                             CURRENT suppression list, in order (or permuted when randomised)
//   udial/<q>/stale-keyshare  no key share value of an earlier dial is sent again
//   udial/<q>/stale-sni       server_name on the wire == this dial's tls.Config.ServerName
//   udial/<q>/scid-differs    all Initial packets of one dial carry the same source connection ID
//   udial/<q>/same-order      a randomised spec does not send one order on every dial
//   udial/nil-spec/...        UTransport with a nil spec sends the same first flight as Transport
//   udial/panic

import (
	"bufio"
	"bytes"
	"context"
	"encoding/binary"
	"fmt"
	"io"
	"math/big"
	"os"
	"os/exec"
	"sort"
	"strings"
	"sync"
	"time"

	quic "github.com/refraction-networking/uquic"
	"github.com/refraction-networking/uquic/internal/handshake"
	"github.com/refraction-networking/uquic/internal/protocol"
	u "github.com/refraction-networking/uquic/internal/verifutil"
	"github.com/refraction-networking/uquic/internal/wire"
	tls "github.com/refraction-networking/utls"
)

func init() { units["udial"] = runUDial }

// ---- reading the client's Initial packets off the wire ---------------------------------

type udFrame struct {
	Type byte
	Off  uint64 // CRYPTO only
	Data []byte // CRYPTO only
}

type udPacket struct {
	Dgram   int
	Version uint32
	DCID    []byte
	SCID    []byte
	Token   []byte
	PN      int64
	PNLen   int
	Size    int
	Frames  []udFrame
}

func (p udPacket) frameTypes() string {
	var sb strings.Builder
	last, n := -1, 0
	flush := func() {
		if n > 0 {
			fmt.Fprintf(&sb, "%x", last)
			if last == 0 {
				sb.WriteString("*")
			}
			sb.WriteString(" ")
		}
	}
	for _, f := range p.Frames {
		if int(f.Type) == last && f.Type == 0 {
			n++
			continue
		}
		flush()
		last, n = int(f.Type), 1
	}
	flush()
	return strings.TrimSpace(sb.String())
}

func udVarint(b []byte) (v uint64, n int, ok bool) {
	if len(b) == 0 {
		return 0, 0, false
	}
	n = 1 << (b[0] >> 6)
	if len(b) < n {
		return 0, 0, false
	}
	v = uint64(b[0] & 0x3f)
	for i := 1; i < n; i++ {
		v = v<<8 | uint64(b[i])
	}
	return v, n, true
}

// udFrames reads the frames a client may put into an Initial packet.
func udFrames(b []byte) ([]udFrame, error) {
	var out []udFrame
	for len(b) > 0 {
		t := b[0]
		switch {
		case t == 0x00 || t == 0x01:
			out = append(out, udFrame{Type: t})
			b = b[1:]
		case t == 0x02 || t == 0x03:
			b = b[1:]
			var vals [4]uint64
			for i := 0; i < 4; i++ {
				v, n, ok := udVarint(b)
				if !ok {
					return nil, fmt.Errorf("truncated ACK frame")
				}
				vals[i], b = v, b[n:]
			}
			cnt := 2 * vals[2]
			if t == 0x03 {
				cnt += 3
			}
			for i := uint64(0); i < cnt; i++ {
				_, n, ok := udVarint(b)
				if !ok {
					return nil, fmt.Errorf("truncated ACK frame")
				}
				b = b[n:]
			}
			out = append(out, udFrame{Type: t})
		case t == 0x06:
			b = b[1:]
			off, n, ok := udVarint(b)
			if !ok {
				return nil, fmt.Errorf("truncated CRYPTO frame")
			}
			b = b[n:]
			l, n, ok := udVarint(b)
			if !ok || uint64(len(b)-n) < l {
				return nil, fmt.Errorf("truncated CRYPTO frame")
			}
			b = b[n:]
			out = append(out, udFrame{Type: t, Off: off, Data: append([]byte{}, b[:l]...)})
			b = b[l:]
		case t == 0x1c || t == 0x1d:
			out = append(out, udFrame{Type: t})
			return out, nil // rest of the packet belongs to the close frame
		default:
			return nil, fmt.Errorf("frame type %#x in an Initial packet", t)
		}
	}
	return out, nil
}

// udOpen decodes every Initial packet in the given client->server datagrams. The keys come
// from the destination connection ID of the very first Initial.
func udOpen(datagrams [][]byte) ([]udPacket, error) {
	var opener handshake.LongHeaderOpener
	var pkts []udPacket
	for di, d := range datagrams {
		rest := append([]byte{}, d...)
		for len(rest) > 0 {
			if !wire.IsLongHeaderPacket(rest[0]) {
				break // short header packet or padding outside QUIC packets
			}
			hdr, pdata, r, err := wire.ParsePacket(rest)
			if err != nil {
				if len(pkts) == 0 {
					return nil, fmt.Errorf("datagram %d: %v", di, err)
				}
				break
			}
			rest = r
			if hdr.Type != protocol.PacketTypeInitial {
				continue
			}
			if opener == nil {
				opener = handshake.VerifClientInitialOpener(hdr.DestConnectionID, hdr.Version)
			}
			hl := int(hdr.ParsedLen())
			if len(pdata) < hl+4+16 {
				return nil, fmt.Errorf("datagram %d: Initial packet too short", di)
			}
			orig := append([]byte{}, pdata[hl:hl+4]...)
			opener.DecryptHeader(pdata[hl+4:hl+4+16], &pdata[0], pdata[hl:hl+4])
			ext, perr := hdr.ParseExtended(pdata)
			if perr != nil && perr != wire.ErrInvalidReservedBits {
				return nil, fmt.Errorf("datagram %d: extended header: %v", di, perr)
			}
			el := int(ext.ParsedLen())
			if ext.PacketNumberLen != protocol.PacketNumberLen4 {
				copy(pdata[el:hl+4], orig[int(ext.PacketNumberLen):])
			}
			pn := opener.DecodePacketNumber(ext.PacketNumber, ext.PacketNumberLen)
			plain, err := opener.Open(nil, pdata[el:], pn, pdata[:el])
			if err != nil {
				return nil, fmt.Errorf("datagram %d: Initial packet does not open with the keys of DCID %x: %v", di, pkts0dcid(pkts, hdr), err)
			}
			fr, err := udFrames(plain)
			if err != nil {
				return nil, fmt.Errorf("datagram %d pn %d: %v", di, pn, err)
			}
			pkts = append(pkts, udPacket{Dgram: di, Version: uint32(hdr.Version), DCID: append([]byte{}, hdr.DestConnectionID.Bytes()...),
				SCID: append([]byte{}, hdr.SrcConnectionID.Bytes()...), Token: append([]byte{}, hdr.Token...), PN: int64(pn),
				PNLen: int(ext.PacketNumberLen), Size: len(pdata), Frames: fr})
		}
	}
	return pkts, nil
}

func pkts0dcid(pkts []udPacket, hdr *wire.Header) []byte {
	if len(pkts) > 0 {
		return pkts[0].DCID
	}
	return hdr.DestConnectionID.Bytes()
}

// udReassemble returns the contiguous prefix of the CRYPTO stream carried by the packets.
func udReassemble(pkts []udPacket) []byte {
	var buf []byte
	var have []bool
	for _, p := range pkts {
		for _, f := range p.Frames {
			if f.Type != 0x06 {
				continue
			}
			end := int(f.Off) + len(f.Data)
			if end > 1<<20 {
				continue
			}
			if end > len(buf) {
				buf = append(buf, make([]byte, end-len(buf))...)
				have = append(have, make([]bool, end-len(have))...)
			}
			copy(buf[f.Off:], f.Data)
			for i := int(f.Off); i < end; i++ {
				have[i] = true
			}
		}
	}
	n := 0
	for n < len(have) && have[n] {
		n++
	}
	return buf[:n]
}

type udParam struct {
	ID  uint64
	Val []byte
}

func udParamsString(ps []udParam) string {
	s := make([]string, len(ps))
	for i, p := range ps {
		s[i] = fmt.Sprintf("%x=%x", p.ID, p.Val)
	}
	return "[" + strings.Join(s, " ") + "]"
}

type udKeyShare struct {
	Group uint16
	Data  []byte
}

type udHello struct {
	Len       int
	SNI       string
	HasSNI    bool
	KeyShares []udKeyShare
	TP        []udParam
	NTP       int // number of quic_transport_parameters extensions
	ExtIDs    []uint16
	Suites    []byte
}

// udParseHello walks a ClientHello handshake message (RFC 8446 4.1.2).
func udParseHello(ch []byte) (*udHello, error) {
	if len(ch) < 4 || ch[0] != 1 {
		return nil, fmt.Errorf("CRYPTO stream does not start with a ClientHello")
	}
	l := int(ch[1])<<16 | int(ch[2])<<8 | int(ch[3])
	if len(ch) < 4+l {
		return nil, fmt.Errorf("ClientHello incomplete: %d of %d bytes", len(ch)-4, l)
	}
	h := &udHello{Len: 4 + l}
	b := ch[4 : 4+l]
	skip := func(n int) bool {
		if len(b) < n {
			return false
		}
		b = b[n:]
		return true
	}
	vec := func(lenBytes int) ([]byte, bool) {
		if len(b) < lenBytes {
			return nil, false
		}
		n := 0
		for i := 0; i < lenBytes; i++ {
			n = n<<8 | int(b[i])
		}
		b = b[lenBytes:]
		if len(b) < n {
			return nil, false
		}
		v := b[:n]
		b = b[n:]
		return v, true
	}
	if !skip(2 + 32) {
		return nil, fmt.Errorf("ClientHello truncated")
	}
	for i, lb := range []int{1, 2, 1} { // session id, cipher suites, compression
		v, ok := vec(lb)
		if !ok {
			return nil, fmt.Errorf("ClientHello truncated")
		}
		if i == 1 {
			h.Suites = append([]byte{}, v...)
		}
	}
	exts, ok := vec(2)
	if !ok {
		return nil, fmt.Errorf("ClientHello extensions truncated")
	}
	for len(exts) > 0 {
		if len(exts) < 4 {
			return nil, fmt.Errorf("extension header truncated")
		}
		id := binary.BigEndian.Uint16(exts)
		n := int(binary.BigEndian.Uint16(exts[2:]))
		if len(exts) < 4+n {
			return nil, fmt.Errorf("extension %d truncated", id)
		}
		body := exts[4 : 4+n]
		exts = exts[4+n:]
		h.ExtIDs = append(h.ExtIDs, id)
		switch id {
		case 0: // server_name
			h.HasSNI = true
			if len(body) >= 5 && body[2] == 0 {
				nl := int(binary.BigEndian.Uint16(body[3:]))
				if len(body) >= 5+nl {
					h.SNI = string(body[5 : 5+nl])
				}
			}
		case 51: // key_share
			if len(body) < 2 {
				return nil, fmt.Errorf("key_share truncated")
			}
			ks := body[2:]
			for len(ks) >= 4 {
				g := binary.BigEndian.Uint16(ks)
				kl := int(binary.BigEndian.Uint16(ks[2:]))
				if len(ks) < 4+kl {
					return nil, fmt.Errorf("key_share entry truncated")
				}
				h.KeyShares = append(h.KeyShares, udKeyShare{g, append([]byte{}, ks[4:4+kl]...)})
				ks = ks[4+kl:]
			}
		case 57: // quic_transport_parameters
			h.NTP++
			p := body
			h.TP = nil
			for len(p) > 0 {
				pid, n1, ok := udVarint(p)
				if !ok {
					return nil, fmt.Errorf("transport parameter id truncated")
				}
				p = p[n1:]
				pl, n2, ok := udVarint(p)
				if !ok || uint64(len(p)-n2) < pl {
					return nil, fmt.Errorf("transport parameter %#x truncated", pid)
				}
				p = p[n2:]
				h.TP = append(h.TP, udParam{pid, append([]byte{}, p[:pl]...)})
				p = p[pl:]
			}
		}
	}
	return h, nil
}

// ---- the spec side -----------------------------------------------------------------------

func udSpecExt(sp *quic.QUICSpec) *tls.QUICTransportParametersExtension {
	if sp == nil || sp.ClientHelloSpec == nil {
		return nil
	}
	for _, e := range sp.ClientHelloSpec.Extensions {
		if q, ok := e.(*tls.QUICTransportParametersExtension); ok {
			return q
		}
	}
	return nil
}

func udSpecKeyShare(sp *quic.QUICSpec) *tls.KeyShareExtension {
	for _, e := range sp.ClientHelloSpec.Extensions {
		if q, ok := e.(*tls.KeyShareExtension); ok {
			return q
		}
	}
	return nil
}

func udSpecSNI(sp *quic.QUICSpec) *tls.SNIExtension {
	for _, e := range sp.ClientHelloSpec.Extensions {
		if q, ok := e.(*tls.SNIExtension); ok {
			return q
		}
	}
	return nil
}

func udIsGrease(id uint64) bool { return id >= 27 && (id-27)%31 == 0 }

func udIsVersionInfo(id uint64) bool { return id == 0x11 || id == 0xff73db }

// udMask: uTLS re-draws the GREASE version inside version_information on every Value() call,
// so that word is normalised on both sides before anything is compared or handed to the model.
func udMask(id uint64, v []byte) []byte {
	out := append([]byte{}, v...)
	if udIsVersionInfo(id) && len(out)%4 == 0 {
		for i := 0; i < len(out); i += 4 {
			w := binary.BigEndian.Uint32(out[i:])
			if w|0x0a0a0a0a == w {
				binary.BigEndian.PutUint32(out[i:], 0x0a0a0a0a)
			}
		}
	}
	return out
}

type udSpecParam struct {
	ID    uint64
	Val   []byte
	Typed bool
}

// udTyped: does the Go value have the dedicated uTLS type PopulateFromUQUIC asserts for its id?
func udTyped(tp tls.TransportParameter) bool {
	switch tp.(type) {
	case tls.MaxIdleTimeout, tls.InitialMaxData, tls.InitialMaxStreamDataBidiLocal, tls.InitialMaxStreamDataBidiRemote,
		tls.InitialMaxStreamDataUni, tls.InitialMaxStreamsBidi, tls.InitialMaxStreamsUni, tls.MaxAckDelay,
		tls.ActiveConnectionIDLimit, tls.InitialSourceConnectionID, tls.MaxDatagramFrameSize, *tls.DisableActiveMigration:
		return true
	}
	return false
}

func udSnapshot(l tls.TransportParameters) []udSpecParam {
	out := make([]udSpecParam, 0, len(l))
	for _, tp := range l {
		id := tp.ID()
		out = append(out, udSpecParam{id, udMask(id, tp.Value()), udTyped(tp)})
	}
	return out
}

func udSpecTerm(ps []udSpecParam) string {
	s := make([]string, len(ps))
	for i, p := range ps {
		s[i] = u.Pair(u.ZU(p.ID), u.Hex(p.Val), u.B(p.Typed))
	}
	return u.List(s)
}

func udSpecString(ps []udSpecParam) string {
	s := make([]string, len(ps))
	for i, p := range ps {
		s[i] = fmt.Sprintf("%x=%x", p.ID, p.Val)
	}
	return "[" + strings.Join(s, " ") + "]"
}

func udWireTerm(ps []udParam) string {
	s := make([]string, len(ps))
	for i, p := range ps {
		s[i] = u.Pair(u.ZU(p.ID), u.Hex(udMask(p.ID, p.Val)))
	}
	return u.List(s)
}

func udZUList(xs []uint64) string {
	s := make([]string, len(xs))
	for i, x := range xs {
		s[i] = u.ZU(x)
	}
	return u.List(s)
}

func udKept(id uint64, sup []uint64) bool {
	for _, s := range sup {
		if s == id || (s == 27 && udIsGrease(id)) {
			return false
		}
	}
	return true
}

// udExpected: the property's right-hand side stated directly: the list the caller wrote,
// minus the suppressed ids; an empty typed initial_source_connection_id stands for the SCID.
func udExpected(decl []udSpecParam, sup []uint64, scid []byte) []udParam {
	var out []udParam
	for _, p := range decl {
		if !udKept(p.ID, sup) {
			continue
		}
		v := p.Val
		if p.ID == 0xf && p.Typed && len(v) == 0 {
			v = scid
		}
		out = append(out, udParam{p.ID, v})
	}
	return out
}

func udSameOrder(a, b []udParam) bool {
	if len(a) != len(b) {
		return false
	}
	for i := range a {
		if a[i].ID != b[i].ID || !bytes.Equal(udMask(a[i].ID, a[i].Val), udMask(b[i].ID, b[i].Val)) {
			return false
		}
	}
	return true
}

func udSameMultiset(a, b []udParam) bool {
	if len(a) != len(b) {
		return false
	}
	key := func(p udParam) string { return fmt.Sprintf("%x=%x", p.ID, udMask(p.ID, p.Val)) }
	m := map[string]int{}
	for _, p := range a {
		m[key(p)]++
	}
	for _, p := range b {
		m[key(p)]--
	}
	for _, c := range m {
		if c != 0 {
			return false
		}
	}
	return true
}

// udDraws inverts math/rand.Shuffle's loop (i = n-1 .. 1, swap(i, j), j in [0,i]): the draw
// vector that turns the list l into the order seen on the wire; ok=false when the wire is
// not a permutation of l (an empty typed source connection ID matches any value).
func udDraws(l []udSpecParam, w []udParam) (js []int, ok bool) {
	if len(l) != len(w) {
		return nil, false
	}
	cur := append([]udSpecParam{}, l...)
	match := func(p udSpecParam, q udParam) bool {
		if p.ID != q.ID {
			return false
		}
		if p.ID == 0xf && p.Typed && len(p.Val) == 0 {
			return true
		}
		return bytes.Equal(p.Val, udMask(q.ID, q.Val))
	}
	for i := len(cur) - 1; i > 0; i-- {
		found := -1
		for j := i; j >= 0; j-- {
			if match(cur[j], w[i]) {
				found = j
				break
			}
		}
		if found < 0 {
			return nil, false
		}
		cur[i], cur[found] = cur[found], cur[i]
		js = append(js, found)
	}
	if len(cur) > 0 && !match(cur[0], w[0]) {
		return nil, false
	}
	return js, true
}

// ---- one dial into the black hole ----------------------------------------------------

type udFlight struct {
	Datagrams [][]byte
	DialErr   string
}

// udCapture dials once and returns what the client sent during the first 100 ms of virtual
// time (the first flight; the first PTO fires later).
func udCapture(sp *quic.QUICSpec, plain bool, serverName string, conf *quic.Config) (fl udFlight, err error) {
	berr := inBubble(func() {
		e, err2 := newSimEnv(simOpts{Spec: sp, PlainPath: plain, ClientConf: conf, ClientTLS: func(c *tls.Config) {
			if serverName != "" {
				c.ServerName = serverName
			}
		}})
		if err2 != nil {
			err = err2
			return
		}
		e.Router.mu.Lock()
		e.Router.blackhole = true
		e.Router.mu.Unlock()
		ctx, cancel := context.WithTimeout(context.Background(), 100*time.Millisecond)
		conn, derr := e.Dial(ctx)
		cancel()
		if derr != nil {
			fl.DialErr = derr.Error()
		}
		if conn != nil {
			conn.CloseWithError(0, "")
		}
		e.Router.mu.Lock()
		for _, d := range e.Router.log {
			if d.Dir == 0 {
				fl.Datagrams = append(fl.Datagrams, d.Data)
			}
		}
		e.Router.mu.Unlock()
		e.Close()
	})
	if berr != nil && err == nil {
		err = berr
	}
	return
}

type udObs struct {
	Pkts  []udPacket
	Hello *udHello
	SCID  []byte
}

func udDecode(fl udFlight) (*udObs, error) {
	if len(fl.Datagrams) == 0 {
		return nil, fmt.Errorf("no datagram sent (dial: %s)", fl.DialErr)
	}
	pkts, err := udOpen(fl.Datagrams)
	if err != nil {
		return nil, err
	}
	if len(pkts) == 0 {
		return nil, fmt.Errorf("no Initial packet in %d datagrams", len(fl.Datagrams))
	}
	h, err := udParseHello(udReassemble(pkts))
	if err != nil {
		return nil, err
	}
	if h.NTP != 1 {
		return nil, fmt.Errorf("%d quic_transport_parameters extensions in the ClientHello", h.NTP)
	}
	return &udObs{Pkts: pkts, Hello: h, SCID: pkts[0].SCID}, nil
}

// ---- derived specs -----------------------------------------------------------------------

type udDerived struct {
	Base  string
	Kind  string
	Desc  string
	Spec  *quic.QUICSpec
	Hello int // padding added to the ClientHello
}

// udMeasure: length of the ClientHello of the base parrot with pad extra bytes (measured on
// a separately built spec of the same shape, black hole).
var udMeasureCache = map[string]int{}

func udMeasure(base string, pad int) int {
	key := fmt.Sprintf("%s+%d", base, pad)
	if n, ok := udMeasureCache[key]; ok {
		return n
	}
	sp, err := specFor(base)
	n := 0
	if err == nil {
		udPad(sp, pad)
		if fl, err := udCapture(sp, false, "", nil); err == nil {
			if o, err := udDecode(fl); err == nil {
				n = o.Hello.Len
			}
		}
	}
	udMeasureCache[key] = n
	return n
}

func udPad(sp *quic.QUICSpec, n int) {
	if n <= 0 {
		return
	}
	// an unknown extension id from the private-use range; servers skip what they do not know
	ext := &tls.GenericExtension{Id: 0xfe41, Data: make([]byte, n)}
	exts := sp.ClientHelloSpec.Extensions
	// keep a pre_shared_key/padding tail in place: insert before the last extension
	k := len(exts) - 1
	if k < 0 {
		k = 0
	}
	exts = append(exts[:k], append([]tls.TLSExtension{ext}, exts[k:]...)...)
	sp.ClientHelloSpec.Extensions = exts
}

var udDerivedKinds = []string{"suppress", "randomize", "tp-edit", "frames-nil", "frames-fixed", "frames-random", "frames-multi",
	"flight-fixed", "flight-random", "plan", "token", "pn", "hello-size", "cid", "udp-min", "mix", "invalid"}

var udInvalidNext int // cycles through the kinds of invalid spec

// udTokenStore: an explicit InitialPacketSpec.TokenStore handing out one fixed token.
type udTokenStore struct{ tok []byte }

func (t *udTokenStore) Pop(string) *quic.ClientToken { return quic.NewClientToken(t.tok) }
func (t *udTokenStore) Put(string, *quic.ClientToken) {}

// udSpecDist counts which QUICSpec / InitialPacketSpec fields and builder kinds a spec uses.
func udSpecDist(dist map[string]int, sp *quic.QUICSpec) {
	ips := &sp.InitialPacketSpec
	dist[fmt.Sprintf("field SrcConnIDLength=%d", ips.SrcConnIDLength)]++
	dist[fmt.Sprintf("field DestConnIDLength=%d", ips.DestConnIDLength)]++
	dist[fmt.Sprintf("field InitPacketNumberLength=%d", ips.InitPacketNumberLength)]++
	dist[fmt.Sprintf("field InitPacketNumberLengths n=%d", len(ips.InitPacketNumberLengths))]++
	switch {
	case ips.InitPacketNumber <= 2:
		dist[fmt.Sprintf("field InitPacketNumber=%d", ips.InitPacketNumber)]++
	default:
		dist["field InitPacketNumber>2"]++
	}
	if ips.TokenStore != nil {
		dist["field TokenStore set"]++
	}
	if ips.ClientTokenLength > 0 {
		dist["field ClientTokenLength>0"]++
	}
	if len(ips.ClientTokenPrefix) > 0 {
		dist["field ClientTokenPrefix set"]++
	}
	dist[fmt.Sprintf("field FrameBuilder=%T", ips.FrameBuilder)]++
	if qf, ok := ips.FrameBuilder.(quic.QUICFrames); ok {
		dist[fmt.Sprintf("field FrameBuilder=QUICFrames len=%d", len(qf))]++
	}
	dist[fmt.Sprintf("field InitialPackets n=%d", len(ips.InitialPackets))]++
	for _, pl := range ips.InitialPackets {
		if pl.CryptoLength != 0 {
			dist["field InitialPackets.CryptoLength set"]++
		}
		if pl.PacketSize != 0 {
			dist["field InitialPackets.PacketSize set"]++
		}
	}
	dist[fmt.Sprintf("spec UDPDatagramMinSize=%d", sp.UDPDatagramMinSize)]++
	if sp.RandomizeTransportParameters {
		dist["spec RandomizeTransportParameters"]++
	}
	if len(sp.SuppressTransportParameters) > 0 {
		dist["spec SuppressTransportParameters set"]++
	}
}

func udRandomFrames(r *u.Rng, withLength bool) quic.QUICRandomFrames {
	f := quic.QUICRandomFrames{}
	f.MinPING = uint8(r.Range(0, 3))
	f.MaxPING = f.MinPING + uint8(r.Range(1, 5))
	f.MinCRYPTO = uint8(r.Range(1, 5))
	f.MaxCRYPTO = f.MinCRYPTO + uint8(r.Range(1, 8))
	if withLength {
		f.MinPADDING = uint8(r.Range(1, 3))
		f.MaxPADDING = f.MinPADDING + uint8(r.Range(1, 4))
		f.Length = uint16([]int{600, 1000, 1150, 1215}[r.Intn(4)])
	}
	return f
}

// udDerive builds a spec from a built-in one by editing fields. Nothing the peer needs is
// removed (initial_source_connection_id stays, datagrams stay >= 1200 bytes, the DCID >= 8).
func udDerive(r *u.Rng, base, kind string) (*udDerived, error) {
	sp, err := specFor(base)
	if err != nil {
		return nil, err
	}
	d := &udDerived{Base: base, Kind: kind, Spec: sp}
	ext := udSpecExt(sp)
	ips := &sp.InitialPacketSpec
	var desc []string
	note := func(f string, a ...any) { desc = append(desc, fmt.Sprintf(f, a...)) }
	apply := func(k string) {
		switch k {
		case "suppress":
			var sup []uint64
			for _, tp := range ext.TransportParameters {
				// never the source connection ID (the server insists on it) nor the two receive
				// windows the echo needs (initial_max_data, initial_max_stream_data_bidi_local:
				// absent means 0, and the connection's own windows follow the list)
				if id := tp.ID(); id != 0xf && id != 0x4 && id != 0x5 && r.Chance(1, 4) {
					sup = append(sup, id)
				}
			}
			if r.Chance(1, 2) {
				sup = append(sup, 27)
			}
			if r.Chance(1, 4) {
				sup = append(sup, uint64(r.Range(0x40, 0x4000)))
			}
			sp.SuppressTransportParameters = sup
			note("suppress=%x", sup)
		case "randomize":
			sp.RandomizeTransportParameters = true
			note("randomize")
		case "tp-edit":
			l := ext.TransportParameters
			for i, tp := range l {
				switch tp.(type) {
				case tls.InitialMaxData:
					if r.Bool() {
						l[i] = tls.InitialMaxData(uint64(r.Range(40000, 2000000)))
					}
				case tls.InitialMaxStreamDataBidiLocal:
					if r.Bool() {
						l[i] = tls.InitialMaxStreamDataBidiLocal(uint64(r.Range(20000, 1000000)))
					}
				case tls.InitialMaxStreamDataBidiRemote:
					if r.Bool() {
						l[i] = tls.InitialMaxStreamDataBidiRemote(uint64(r.Range(20000, 1000000)))
					}
				case tls.MaxIdleTimeout:
					if r.Bool() {
						l[i] = tls.MaxIdleTimeout(uint64(r.Range(5000, 60000)))
					}
				case tls.InitialMaxStreamsBidi:
					if r.Bool() {
						l[i] = tls.InitialMaxStreamsBidi(uint64(r.Range(1, 200)))
					}
				}
			}
			if r.Bool() {
				l = append(l, &tls.FakeQUICTransportParameter{Id: uint64(r.Range(0x4000, 0x7fff)), Val: r.Bytes(r.Range(0, 12))})
			}
			if r.Bool() {
				l = append(l, &tls.GREASETransportParameter{Length: uint16(r.Range(0, 20))})
			}
			if r.Chance(1, 3) {
				l = append(l, tls.PaddingTransportParameter(make([]byte, r.Range(1, 40))))
			}
			ext.TransportParameters = l
			note("tp-edit n=%d", len(l))
		case "frames-nil":
			ips.FrameBuilder = nil
			note("FrameBuilder=nil")
		case "frames-fixed":
			// (a layout that cuts the slice at a fixed offset is exercised by the separate
			// family "fixed-split" of simdial, in a child process: it can panic)
			switch r.Intn(2) {
			case 0:
				ips.FrameBuilder = quic.QUICFrames{}
				note("QUICFrames{}")
			default:
				ips.FrameBuilder = quic.QUICFrames{quic.QUICFramePing{}, quic.QUICFrameCrypto{Offset: 0, Length: 0}, quic.QUICFramePadding{Length: r.Range(1, 30)}}
				note("QUICFrames{ping crypto padding}")
			}
		case "frames-fixed-split":
			k := r.Range(1, 40)
			ips.FrameBuilder = quic.QUICFrames{quic.QUICFrameCrypto{Offset: k, Length: 0}, quic.QUICFramePing{}, quic.QUICFrameCrypto{Offset: 0, Length: k}}
			note("QUICFrames{crypto[%d:] ping crypto[:%d]}", k, k)
		case "frames-random":
			f := udRandomFrames(r, r.Bool())
			ips.FrameBuilder = &f
			note("QUICRandomFrames%+v", f)
		case "frames-multi":
			m := &quic.QUICMultiDatagramFrames{}
			for i, n := 0, r.Range(1, 3); i < n; i++ {
				m.PerDatagram = append(m.PerDatagram, udRandomFrames(r, r.Bool()))
			}
			ips.FrameBuilder = m
			note("QUICMultiDatagramFrames x%d", len(m.PerDatagram))
		case "flight-fixed", "flight-random":
			// tail first, then the head, the middle in as many datagrams as it needs. The
			// ranges are addressed from both ends, so they stay valid when the length of the
			// ClientHello moves a little between dials (GREASE and padding draws).
			total := udMeasure(base, d.Hello)
			tail := r.Range(40, 300)
			head := r.Range(20, 500)
			if total < tail+head+400 {
				tail, head = total/5, total/5
			}
			const per = 800
			type rng struct{ off, ln int }
			var dgs [][]rng
			dgs = append(dgs, []rng{{-tail, 0}, {0, head}})
			pos := head
			for total-tail-pos > per+250 {
				dgs = append(dgs, []rng{{pos, per}})
				pos += per
			}
			dgs = append(dgs, []rng{{pos, -tail}})
			if kind == "flight-fixed" || k == "flight-fixed" {
				f := &quic.QUICFlightFrames{}
				for _, dg := range dgs {
					var qf quic.QUICFrames
					if r.Bool() {
						qf = append(qf, quic.QUICFramePing{})
					}
					for _, x := range dg {
						qf = append(qf, quic.QUICFrameCrypto{Offset: x.off, Length: x.ln})
					}
					f.Datagrams = append(f.Datagrams, qf)
				}
				ips.FrameBuilder = f
			} else {
				f := &quic.QUICRandomFlightFrames{}
				for _, dg := range dgs {
					var pd quic.QUICRandomFlightDatagram
					for _, x := range dg {
						pd.CryptoRanges = append(pd.CryptoRanges, quic.QUICCryptoRange{Offset: x.off, Length: x.ln})
					}
					pd.Frames = udRandomFrames(r, false)
					f.PerDatagram = append(f.PerDatagram, pd)
				}
				ips.FrameBuilder = f
			}
			ips.InitialPackets = nil
			note("%s tail=%d head=%d datagrams=%d (hello~%d)", k, tail, head, len(dgs), total)
		case "plan":
			// per-datagram CRYPTO byte counts and exact packet sizes
			var plans []quic.InitialPacketPlan
			for i, n := 0, r.Range(1, 4); i < n; i++ {
				cl := []int{0, 150, 300, 400, 700, 999}[r.Intn(6)]
				ps := []int{0, 1200, 1250}[r.Intn(3)]
				plans = append(plans, quic.InitialPacketPlan{CryptoLength: cl, PacketSize: ps})
			}
			ips.InitialPackets = plans
			if rf, ok := ips.FrameBuilder.(*quic.QUICRandomFrames); ok {
				c := *rf
				c.Length = 0 // the plan's PacketSize pads; a Length target larger than the packet would not fit
				c.MinPADDING, c.MaxPADDING = 0, 0
				ips.FrameBuilder = &c
			}
			note("plans=%+v", plans)
		case "token":
			if r.Chance(1, 3) { // an explicit TokenStore takes priority over length / prefix
				tok := r.Bytes(r.Range(1, 70))
				ips.TokenStore = &udTokenStore{tok: tok}
				note("TokenStore{%d bytes}", len(tok))
				break
			}
			ips.ClientTokenLength = r.Range(0, 90)
			if r.Bool() {
				ips.ClientTokenPrefix = r.Bytes(r.Range(1, 8))
			}
			if ips.ClientTokenLength == 0 && len(ips.ClientTokenPrefix) == 0 {
				ips.ClientTokenLength = 16
			}
			note("token len=%d prefix=%x", ips.ClientTokenLength, ips.ClientTokenPrefix)
		case "pn":
			ips.InitPacketNumber = uint64([]int{0, 1, 2, 7, 200, 70000}[r.Intn(6)])
			ips.InitPacketNumberLengths = nil
			ips.InitPacketNumberLength = 0
			switch r.Intn(3) {
			case 0:
				ips.InitPacketNumberLength = quic.PacketNumberLen([]int{1, 2, 3, 4}[r.Intn(4)])
			case 1:
				for i, n := 0, r.Range(1, 3); i < n; i++ {
					ips.InitPacketNumberLengths = append(ips.InitPacketNumberLengths, quic.PacketNumberLen([]int{1, 2, 3, 4}[r.Intn(4)]))
				}
			}
			if ips.InitPacketNumber >= 200 { // a short encoding must still be decodable by the peer (expects pn 0)
				ips.InitPacketNumberLength, ips.InitPacketNumberLengths = 4, nil
			}
			note("pn=%d len=%d lens=%v", ips.InitPacketNumber, ips.InitPacketNumberLength, ips.InitPacketNumberLengths)
		case "hello-size":
			d.Hello = []int{200, 900, 1400, 2100, 2900}[r.Intn(5)]
			udPad(sp, d.Hello)
			note("hello+%d", d.Hello)
		case "cid":
			ips.SrcConnIDLength = []int{0, 3, 4, 8, 20}[r.Intn(5)] // not 1 or 2: the generator draws issued IDs at random, short ones collide
			ips.DestConnIDLength = []int{8, 9, 12, 16, 20}[r.Intn(5)]
			note("scidlen=%d dcidlen=%d", ips.SrcConnIDLength, ips.DestConnIDLength)
		case "invalid":
			// a spec InitialPacketSpec.validate has to refuse before anything is sent
			udInvalidNext++
			switch udInvalidNext % 7 {
			case 0:
				ips.DestConnIDLength = r.Range(1, 7)
				note("invalid: DestConnIDLength=%d", ips.DestConnIDLength)
			case 1:
				ips.SrcConnIDLength = r.Range(21, 40)
				note("invalid: SrcConnIDLength=%d", ips.SrcConnIDLength)
			case 2:
				ips.InitPacketNumber, ips.InitPacketNumberLength, ips.InitPacketNumberLengths = uint64(r.Range(256, 60000)), 1, nil
				note("invalid: InitPacketNumber=%d in 1 byte", ips.InitPacketNumber)
			case 3:
				ips.InitPacketNumberLengths = []quic.PacketNumberLen{1, quic.PacketNumberLen(r.Range(5, 9))}
				note("invalid: InitPacketNumberLengths=%v", ips.InitPacketNumberLengths)
			case 4:
				ips.InitialPackets = []quic.InitialPacketPlan{{PacketSize: r.Range(1, 1199)}}
				note("invalid: PacketSize=%d", ips.InitialPackets[0].PacketSize)
			case 5:
				sp.UDPDatagramMinSize = r.Range(1, 1199)
				note("invalid: UDPDatagramMinSize=%d", sp.UDPDatagramMinSize)
			default:
				ips.InitialPackets = []quic.InitialPacketPlan{{CryptoLength: -r.Range(1, 500)}}
				note("invalid: CryptoLength=%d", ips.InitialPackets[0].CryptoLength)
			}
		case "udp-min":
			sp.UDPDatagramMinSize = []int{1200, 1220, 1252}[r.Intn(3)]
			note("udpmin=%d", sp.UDPDatagramMinSize)
		}
	}
	if kind == "mix" {
		// hello-size first: the flight kinds look at d.Hello
		ks := []string{"hello-size", "suppress", "randomize", "tp-edit", "token", "pn", "cid"}
		for _, k := range ks {
			if r.Chance(1, 2) {
				apply(k)
			}
		}
		apply([]string{"frames-nil", "frames-fixed", "frames-random", "frames-multi", "flight-fixed", "flight-random", "plan"}[r.Intn(7)])
	} else {
		if kind != "hello-size" && (strings.HasPrefix(kind, "frames") || strings.HasPrefix(kind, "flight") || kind == "plan") && r.Chance(2, 3) {
			apply("hello-size")
		}
		apply(kind)
	}
	d.Desc = fmt.Sprintf("base=%s kind=%s %s", base, kind, strings.Join(desc, "; "))
	return d, nil
}

// ---- the unit ------------------------------------------------------------------------------

type udOut struct {
	w    *bufio.Writer
	seen map[string]int
	dist map[string]int
}

func (o *udOut) fail(key, desc, detail string) {
	o.seen[key]++
	if o.seen[key] <= 3 {
		fmt.Fprintf(o.w, "MONFAIL\t%s\t%s\t%s\n", key, desc, strings.ReplaceAll(detail, "\n", " "))
	}
}

func udKeyTerm(ks []tls.KeyShare) string {
	s := make([]string, len(ks))
	for i, k := range ks {
		g := uint64(k.Group)
		if uint16(k.Group)>>8 == uint16(k.Group)&0xff && uint16(k.Group)&0xf == 0xa {
			g = 0x0a0a
		}
		s[i] = u.Pair(u.ZU(g), u.ZU(uint64(len(k.Data))))
	}
	return u.List(s)
}

// udSequence dials one spec value `dials` times, editing it the way a caller may between the
// dials, runs the monitors and prints one correspondence case.
func udSequence(o *udOut, r *u.Rng, name, qkey string, sp *quic.QUICSpec, dials int, edits bool) {
	k := "udial/" + qkey + "/"
	ext := udSpecExt(sp)
	if ext == nil {
		o.fail(k+"decode", "spec has no transport parameter extension", name)
		return
	}
	ks := udSpecKeyShare(sp)
	sni := udSpecSNI(sp)
	decl0 := udSnapshot(ext.TransportParameters) // what the caller wrote
	var ksTerm0 string
	if ks != nil {
		ksTerm0 = udKeyTerm(ks.KeyShares)
	} else {
		ksTerm0 = "[]"
	}
	sni0 := ""
	if sni != nil {
		sni0 = sni.ServerName
	}
	var steps []string
	seenKeys := map[string]int{}
	orders := map[string]bool{}
	nRandOrders := 0
	nt := 0
	for d := 1; d <= dials; d++ {
		serverName := "localhost"
		if edits && d > 1 {
			switch r.Intn(5) {
			case 0: // grow the suppression list
				for _, p := range decl0 {
					if p.ID != 0xf && udKept(p.ID, sp.SuppressTransportParameters) && r.Chance(1, 3) {
						sp.SuppressTransportParameters = append(append([]uint64{}, sp.SuppressTransportParameters...), p.ID)
						break
					}
				}
			case 1: // shrink it
				if n := len(sp.SuppressTransportParameters); n > 0 {
					sp.SuppressTransportParameters = append([]uint64{}, sp.SuppressTransportParameters[:n-1]...)
				}
			case 2:
				sp.RandomizeTransportParameters = !sp.RandomizeTransportParameters
			case 3: // another host
				serverName = fmt.Sprintf("host%d.example", d)
			}
		}
		sup := append([]uint64{}, sp.SuppressTransportParameters...)
		rnd := sp.RandomizeTransportParameters
		before := udSnapshot(ext.TransportParameters) // the list this dial starts from
		detail := func(extra string) string {
			return fmt.Sprintf("%s dial#%d of one spec value: suppress=%x randomize=%v servername=%s declared=%s %s", name, d, sup, rnd, serverName, udSpecString(decl0), extra)
		}
		fl, err := udCapture(sp, false, serverName, nil)
		if err != nil {
			o.fail(k+"decode", "dial into the simulation failed: "+err.Error(), detail(""))
			return
		}
		ob, err := udDecode(fl)
		if err != nil {
			o.fail(k+"decode", "first flight does not decode: "+err.Error(), detail(""))
			return
		}
		for _, p := range ob.Pkts {
			if !bytes.Equal(p.SCID, ob.SCID) {
				o.fail(k+"scid-differs", "Initial packets of one dial carry different source connection IDs", detail(fmt.Sprintf("%x vs %x", ob.SCID, p.SCID)))
			}
		}
		w := ob.Hello.TP
		// --- monitors ---
		leaves := false // does the spec leave initial_source_connection_id to the library?
		for _, p := range decl0 {
			if p.ID == 0xf && p.Typed && len(p.Val) == 0 && udKept(0xf, sup) {
				leaves = true
			}
		}
		if leaves {
			found := false
			for _, p := range w {
				if p.ID == 0xf {
					found = true
					if !bytes.Equal(p.Val, ob.SCID) {
						o.fail(k+"stale-scid", fmt.Sprintf("initial_source_connection_id on the wire is %x, the packets of this dial carry source connection ID %x", p.Val, ob.SCID), detail("wire="+udParamsString(w)))
					}
				}
			}
			if !found {
				o.fail(k+"stale-scid", "initial_source_connection_id is missing on the wire", detail("wire="+udParamsString(w)))
			}
		}
		exp := udExpected(decl0, sup, ob.SCID)
		if rnd {
			if !udSameMultiset(exp, w) {
				o.fail(k+"stale-params", "extension 57 is not a permutation of the spec's parameters minus the current suppression list", detail("wire="+udParamsString(w)))
			}
			var ord []string
			for _, p := range w {
				ord = append(ord, fmt.Sprintf("%x", p.ID))
			}
			orders[strings.Join(ord, ",")] = true
			if len(w) >= 6 {
				nRandOrders++
			}
		} else if !udSameOrder(exp, w) {
			o.fail(k+"stale-params", "extension 57 differs from the spec's parameters minus the current suppression list (ids, values, order)", detail("wire="+udParamsString(w)))
		}
		for _, s := range ob.Hello.KeyShares {
			if len(s.Data) < 8 {
				continue // GREASE share
			}
			if first, ok := seenKeys[string(s.Data)]; ok {
				o.fail(k+"stale-keyshare", fmt.Sprintf("the key share of group %#x sent on dial#%d is the one of dial#%d (the connection cannot hold its private key)", s.Group, d, first), detail(fmt.Sprintf("key=%x...", s.Data[:8])))
			} else {
				seenKeys[string(s.Data)] = d
			}
		}
		if ob.Hello.HasSNI && sni0 == "" && ob.Hello.SNI != serverName {
			o.fail(k+"stale-sni", fmt.Sprintf("server_name on the wire is %q, this dial's tls.Config.ServerName is %q", ob.Hello.SNI, serverName), detail(""))
		}
		// --- correspondence: what the dial left in the shared spec, and the wire ---
		after := udSnapshot(ext.TransportParameters)
		afterKs := "[]"
		if ks != nil {
			afterKs = udKeyTerm(ks.KeyShares)
		}
		afterSNI := ""
		if sni != nil {
			afterSNI = sni.ServerName
		}
		var js []int
		jsOK := true
		if rnd {
			var l []udSpecParam
			for _, p := range before {
				if udKept(p.ID, sup) {
					l = append(l, p)
				}
			}
			js, jsOK = udDraws(l, w)
		}
		jl := make([]string, len(js))
		for i, j := range js {
			jl[i] = fmt.Sprint(j)
		}
		wsni := ""
		if ob.Hello.HasSNI {
			wsni = ob.Hello.SNI
		}
		steps = append(steps, u.App("Dial", udZUList(sup), u.B(rnd), u.B(jsOK), u.List(jl), u.Hex(ob.SCID), u.Hex([]byte(serverName)),
			udSpecTerm(after), afterKs, u.Hex([]byte(afterSNI)), udWireTerm(w), u.Hex([]byte(wsni))))
		if d > 1 {
			nt = 1
		}
		o.dist[fmt.Sprintf("dial#%d", d)]++
	}
	if nRandOrders >= 3 && len(orders) == 1 {
		o.fail(k+"same-order", "every dial of a spec with RandomizeTransportParameters sent the same parameter order (6 or more parameters)", name)
	}
	fmt.Fprintf(o.w, "CASE %d %s\n", nt, u.App("Seq", udSpecTerm(decl0), ksTerm0, u.Hex([]byte(sni0)), u.List(steps)))
}

// ---- nil spec == plain Transport ---------------------------------------------------------

type udShape struct {
	Feat    []int64 // packet numbers, their lengths, extension ids, key shares (group, length), cipher suites, SNI length
	Sizes   []int
	SCIDLen int
	PNs     []int64
	PNLens  []int
	Frames  []string
	TP      []udParam
	TokLen  int
}

func (s udShape) String() string {
	return fmt.Sprintf("sizes=%v scidlen=%d pn=%v pnlen=%v tokenlen=%d frames=%q tp=%s feat=%v", s.Sizes, s.SCIDLen, s.PNs, s.PNLens, s.TokLen, s.Frames, udParamsString(s.TP), s.Feat)
}

func udShapeOf(fl udFlight) (udShape, error) {
	var s udShape
	ob, err := udDecode(fl)
	if err != nil {
		return s, err
	}
	for _, d := range fl.Datagrams {
		s.Sizes = append(s.Sizes, len(d))
	}
	s.SCIDLen = len(ob.SCID)
	for _, p := range ob.Pkts {
		s.PNs = append(s.PNs, p.PN)
		s.PNLens = append(s.PNLens, p.PNLen)
		set := map[byte]bool{}
		for _, f := range p.Frames {
			set[f.Type] = true
		}
		var ts []int
		for t := range set {
			ts = append(ts, int(t))
		}
		sort.Ints(ts)
		s.Frames = append(s.Frames, fmt.Sprint(ts))
		s.TokLen = len(p.Token)
	}
	for _, p := range ob.Hello.TP {
		v := p.Val
		if p.ID == 0xf {
			if !bytes.Equal(v, ob.SCID) {
				return s, fmt.Errorf("initial_source_connection_id %x differs from the packets' source connection ID %x", v, ob.SCID)
			}
			v = nil
		}
		if udIsGrease(p.ID) {
			continue
		}
		s.TP = append(s.TP, udParam{p.ID, v})
	}
	sort.Slice(s.TP, func(i, j int) bool { return s.TP[i].ID < s.TP[j].ID })
	for _, pn := range s.PNs {
		s.Feat = append(s.Feat, pn)
	}
	s.Feat = append(s.Feat, -1)
	for _, l := range s.PNLens {
		s.Feat = append(s.Feat, int64(l))
	}
	s.Feat = append(s.Feat, -1)
	for _, id := range ob.Hello.ExtIDs {
		s.Feat = append(s.Feat, int64(id))
	}
	s.Feat = append(s.Feat, -1)
	for _, ks := range ob.Hello.KeyShares {
		s.Feat = append(s.Feat, int64(ks.Group), int64(len(ks.Data)))
	}
	s.Feat = append(s.Feat, -1)
	for i := 0; i+1 < len(ob.Hello.Suites); i += 2 {
		s.Feat = append(s.Feat, int64(ob.Hello.Suites[i])<<8|int64(ob.Hello.Suites[i+1]))
	}
	s.Feat = append(s.Feat, -1, int64(len(ob.Hello.SNI)), int64(s.SCIDLen), int64(s.TokLen))
	return s, nil
}

func udNilSpec(o *udOut, r *u.Rng) {
	confs := []*quic.Config{nil, {InitialPacketSize: 1200}, {EnableDatagrams: true, MaxIncomingStreams: 7, InitialStreamReceiveWindow: 70000}, {Versions: []quic.Version{quic.Version2}}}
	c := confs[r.Intn(len(confs))]
	if r.Chance(2, 3) { // a random configuration
		c = &quic.Config{
			InitialPacketSize:              uint16([]int{0, 1200, 1252, 1300, 1350}[r.Intn(5)]), // larger datagrams do not pass the simulated link
			EnableDatagrams:                r.Bool(),
			InitialStreamReceiveWindow:     uint64([]int{0, 1 << 10, 70000, 1 << 20}[r.Intn(4)]),
			InitialConnectionReceiveWindow: uint64([]int{0, 1 << 12, 200000, 1 << 21}[r.Intn(4)]),
			MaxIncomingStreams:             int64([]int{0, -1, 1, 7, 1000}[r.Intn(5)]),
			MaxIncomingUniStreams:          int64([]int{0, -1, 3, 100}[r.Intn(4)]),
			MaxIdleTimeout:                 time.Duration([]int{0, 5, 45, 600}[r.Intn(4)]) * time.Second,
			DisablePathMTUDiscovery:        r.Bool(),
			Allow0RTT:                      r.Bool(),
			EnableStreamResetPartialDelivery: r.Bool(),
		}
		if r.Bool() {
			c.Versions = []quic.Version{quic.Version2, quic.Version1}
		}
		if c.MaxStreamReceiveWindow = 0; c.InitialStreamReceiveWindow > 0 {
			c.MaxStreamReceiveWindow = c.InitialStreamReceiveWindow * 4
		}
		if c.InitialConnectionReceiveWindow > 0 {
			c.MaxConnectionReceiveWindow = c.InitialConnectionReceiveWindow * 4
		}
	}
	flU, err1 := udCapture(nil, false, "", c)
	flP, err2 := udCapture(nil, true, "", c)
	if err1 != nil || err2 != nil {
		o.fail("udial/nil-spec/dial", fmt.Sprintf("dial failed: utransport=%v transport=%v", err1, err2), fmt.Sprintf("%+v", c))
		return
	}
	sU, err1 := udShapeOf(flU)
	sP, err2 := udShapeOf(flP)
	if err1 != nil || err2 != nil {
		o.fail("udial/nil-spec/decode", fmt.Sprintf("first flight does not decode: utransport=%v transport=%v", err1, err2), fmt.Sprintf("%+v", c))
		return
	}
	if sU.String() != sP.String() {
		o.fail("udial/nil-spec/first-flight", "UTransport with a nil QUICSpec sends a first flight that differs from Transport's", fmt.Sprintf("conf=%+v utransport: %s transport: %s", c, sU, sP))
	}
	o.dist["nil-spec"]++
	tpU := make([]string, len(sU.TP))
	for i, p := range sU.TP {
		tpU[i] = u.Pair(u.ZU(p.ID), u.Hex(p.Val))
	}
	tpP := make([]string, len(sP.TP))
	for i, p := range sP.TP {
		tpP[i] = u.Pair(u.ZU(p.ID), u.Hex(p.Val))
	}
	zl := func(xs []int) string {
		s := make([]string, len(xs))
		for i, x := range xs {
			s[i] = fmt.Sprint(x)
		}
		return u.List(s)
	}
	fmt.Fprintf(o.w, "CASE 1 %s\n", u.App("NilSpec", zl(sU.Sizes), u.List(tpU), u.ZList(sU.Feat), zl(sP.Sizes), u.List(tpP), u.ZList(sP.Feat)))
}

// ---- Initial CRYPTO retransmission bookkeeping on the real packer (case Retx) -------------

func udRanges(rs []quic.VerifRange) string {
	s := make([]string, len(rs))
	for i, x := range rs {
		s[i] = u.Pair(u.Z(x.Off), u.Z(x.Len))
	}
	return u.List(s)
}

func udRangesEq(a, b []quic.VerifRange) bool {
	if len(a) != len(b) {
		return false
	}
	for i := range a {
		if a[i] != b[i] {
			return false
		}
	}
	return true
}

// udPopped: what one Pack call took out of the retransmission queue (whole head frames, then
// possibly a prefix split off the next one).
func udPopped(before, after []quic.VerifRange) ([]quic.VerifRange, bool) {
	for i := 0; i <= len(before); i++ {
		if udRangesEq(before[i:], after) {
			return append([]quic.VerifRange{}, before[:i]...), true
		}
		if i < len(before) && len(after) == len(before)-i && len(after) > 0 {
			h, a := before[i], after[0]
			if a.Off > h.Off && a.Off+a.Len == h.Off+h.Len && udRangesEq(before[i+1:], after[1:]) {
				return append(append([]quic.VerifRange{}, before[:i]...), quic.VerifRange{Off: h.Off, Len: a.Off - h.Off}), true
			}
		}
	}
	return nil, false
}

// udWireCover: the CRYPTO frames in a serialised payload carry the true bytes; returns the
// set of covered offsets.
func udWireCover(wirePayload, hello []byte, cov []bool) string {
	fr, err := udFrames(wirePayload)
	if err != nil {
		return "payload does not parse: " + err.Error()
	}
	for _, f := range fr {
		if f.Type != 0x06 {
			continue
		}
		end := int(f.Off) + len(f.Data)
		if end > len(hello) {
			return fmt.Sprintf("CRYPTO frame [%d,%d) beyond the %d byte stream", f.Off, end, len(hello))
		}
		if !bytes.Equal(f.Data, hello[f.Off:end]) {
			return fmt.Sprintf("CRYPTO frame [%d,%d) does not carry the stream's bytes", f.Off, end)
		}
		for i := int(f.Off); i < end; i++ {
			cov[i] = true
		}
	}
	return ""
}

// scripted = the minimal witness of udial/retx/noncontiguous: three Initial datagrams of 300 CRYPTO
// bytes, the middle one acknowledged, the outer two lost together.
// udAsPacked: the payload on the wire is exactly what the packer selected -- the CRYPTO frames
// registered for loss recovery in that order, a lone PING when there are none -- i.e. the
// spec's frame builder was not consulted (or reproduced the very same frames).
func udAsPacked(pkt *quic.VerifRetxPacket) bool {
	if pkt == nil {
		return true
	}
	fr, err := udFrames(pkt.Wire)
	if err != nil {
		return false
	}
	var cr []quic.VerifRange
	pings := 0
	for _, f := range fr {
		switch f.Type {
		case 0x06:
			cr = append(cr, quic.VerifRange{Off: int64(f.Off), Len: int64(len(f.Data))})
		case 0x01:
			pings++
		}
	}
	if len(pkt.Frames) == 0 {
		return len(cr) == 0 && pings == 1
	}
	return udRangesEq(cr, pkt.Frames) && pings == 0
}

func udRetx(o *udOut, r *u.Rng, scripted bool) {
	base := parrotNames[r.Intn(len(parrotNames))]
	if scripted {
		base = "Firefox_116A"
	}
	sp, err := specFor(base)
	if err != nil {
		return
	}
	ips := &sp.InitialPacketSpec
	n := []int{280, 520, 1100, 1700, 2400, 3300, 4200}[r.Intn(7)] + r.Intn(60)
	desc := "builder=parrot"
	builderKind := r.Intn(7)
	if scripted {
		n, builderKind = 900, 1
	}
	layout := "None" // a non-empty QUICFrames layout, for the model
	switch builderKind {
	case 0:
		ips.FrameBuilder = nil
		desc = "builder=nil"
	case 1:
		ips.FrameBuilder = quic.QUICFrames{}
		desc = "builder=QUICFrames{}"
	case 2:
		f := udRandomFrames(r, false)
		ips.FrameBuilder = &f
		desc = fmt.Sprintf("builder=QUICRandomFrames%+v", f)
	case 3: // planned flight: tail, head, middle
		tail, head := 30+r.Intn(60), 20+r.Intn(100)
		f := &quic.QUICFlightFrames{Datagrams: []quic.QUICFrames{{quic.QUICFrameCrypto{Offset: -tail}, quic.QUICFrameCrypto{Offset: 0, Length: head}}}}
		pos := head
		for n-tail-pos > 1000 {
			f.Datagrams = append(f.Datagrams, quic.QUICFrames{quic.QUICFrameCrypto{Offset: pos, Length: 900}})
			pos += 900
		}
		f.Datagrams = append(f.Datagrams, quic.QUICFrames{quic.QUICFrameCrypto{Offset: pos, Length: -tail}})
		ips.FrameBuilder = f
		ips.InitialPackets = nil
		desc = fmt.Sprintf("builder=QUICFlightFrames(%d datagrams)", len(f.Datagrams))
	case 4: // a fixed layout that cuts its slice at an offset
		k := r.Range(1, 60)
		ips.FrameBuilder = quic.QUICFrames{quic.QUICFrameCrypto{Offset: k, Length: 0}, quic.QUICFramePing{}, quic.QUICFrameCrypto{Offset: 0, Length: k}}
		layout = fmt.Sprintf("(Some [LCrypto %d 0; LOther; LCrypto 0 %d])", k, k)
		desc = fmt.Sprintf("builder=QUICFrames{crypto[%d:] ping crypto[:%d]}", k, k)
	case 5: // a fixed layout with a leading PING and trailing padding (fits every slice)
		ips.FrameBuilder = quic.QUICFrames{quic.QUICFramePing{}, quic.QUICFrameCrypto{Offset: 0, Length: 0}, quic.QUICFramePadding{Length: 9}}
		layout = "(Some [LOther; LCrypto 0 0; LOther])"
		desc = "builder=QUICFrames{ping crypto padding}"
	}
	if _, isFlight := ips.FrameBuilder.(quic.QUICFlightFrameBuilder); !isFlight && (scripted || r.Chance(2, 3)) {
		cl := []int{100, 150, 200, 300, 500, 999}[r.Intn(6)]
		if scripted {
			cl = 300
		}
		ips.InitialPackets = []quic.InitialPacketPlan{{CryptoLength: cl, PacketSize: []int{0, 1200}[r.Intn(2)]}}
		if rf, ok := ips.FrameBuilder.(*quic.QUICRandomFrames); ok {
			c := *rf
			c.Length, c.MinPADDING, c.MaxPADDING = 0, 0, 0
			ips.FrameBuilder = &c
		}
		if builderKind == 4 && r.Bool() { // boundary: the slice is one byte shorter / exactly / one byte longer than the layout's cut
			k := cl + r.Range(-1, 1)
			ips.FrameBuilder = quic.QUICFrames{quic.QUICFrameCrypto{Offset: k, Length: 0}, quic.QUICFramePing{}, quic.QUICFrameCrypto{Offset: 0, Length: k}}
			layout = fmt.Sprintf("(Some [LCrypto %d 0; LOther; LCrypto 0 %d])", k, k)
			desc = fmt.Sprintf("builder=QUICFrames{crypto[%d:] ping crypto[:%d]}", k, k)
		}
		desc += fmt.Sprintf(" CryptoLength=%d PacketSize=%d", cl, ips.InitialPackets[0].PacketSize)
	}
	hello := make([]byte, n)
	for i := range hello {
		hello[i] = byte(i*7 + i>>8)
	}
	rx := quic.NewVerifRetx(sp, hello, 1252)
	detail := func(extra string) string {
		return fmt.Sprintf("base=%s %s hello=%d bytes: %s", base, desc, n, extra)
	}
	var hist []string
	// --- the first flight ---
	var flight []string
	sentFrames := map[int64][]quic.VerifRange{} // CRYPTO frames of every packet sent
	sent := make([]bool, n) // bytes that were on the wire at least once
	var pns []int64
	for i := 0; i < 64; i++ {
		pkt, err, pan := rx.Pack(false, false)
		if pan != nil {
			o.fail("udial/retx/panic", fmt.Sprintf("packing datagram %d of the first flight panics: %v", i, pan), detail(strings.Join(hist, "; ")))
			return
		}
		if err != nil {
			o.fail("udial/retx/flight", fmt.Sprintf("packing the first flight failed: %v", err), detail(strings.Join(hist, "; ")))
			return
		}
		if pkt == nil {
			break
		}
		if msg := udWireCover(pkt.Wire, hello, sent); msg != "" {
			o.fail("udial/retx/wire", "first flight: "+msg, detail(fmt.Sprintf("pn=%d", pkt.PN)))
		}
		// what is registered for loss recovery is what the datagram carries
		own := make([]bool, n)
		_ = udWireCover(pkt.Wire, hello, own)
		reg := make([]bool, n)
		for _, f := range pkt.Frames {
			for b := f.Off; b < f.Off+f.Len && b < int64(n); b++ {
				reg[b] = true
			}
		}
		for b := range own {
			if own[b] != reg[b] {
				o.fail("udial/retx/registered", fmt.Sprintf("first flight pn%d: CRYPTO byte %d is on the wire: %v, registered for loss recovery: %v", pkt.PN, b, own[b], reg[b]), detail(fmt.Sprintf("frames=%v", pkt.Frames)))
				break
			}
		}
		flight = append(flight, u.Pair(u.Z(pkt.PN), udRanges(pkt.Frames)))
		sentFrames[pkt.PN] = pkt.Frames
		pns = append(pns, pkt.PN)
		hist = append(hist, fmt.Sprintf("sent pn%d %v", pkt.PN, pkt.Frames))
	}
	for i, ok := range sent {
		if !ok {
			o.fail("udial/retx/flight", fmt.Sprintf("the first flight never carries CRYPTO byte %d of %d", i, n), detail(strings.Join(hist, "; ")))
			return
		}
	}
	planned := rx.FlightPlanned()
	// --- losses, acknowledgements, retransmissions ---
	var ops []string
	dead := false
	acked := map[int64]bool{}
	rounds := r.Range(1, 3)
	if scripted {
		rounds = 1
	}
	for round := 0; round < rounds && !dead; round++ {
		outst := rx.Outstanding()
		sort.Slice(outst, func(i, j int) bool { return outst[i] < outst[j] })
		if !scripted && r.Bool() { // losses are not detected in packet-number order
			for i := len(outst) - 1; i > 0; i-- {
				j := r.Intn(i + 1)
				outst[i], outst[j] = outst[j], outst[i]
			}
		}
		for i, pn := range outst {
			choice := r.Intn(4)
			if scripted {
				choice = []int{0, 2, 0}[i%3]
			}
			switch choice {
			case 0, 1:
				rx.Lose(pn)
				ops = append(ops, u.App("RLose", u.Z(pn)))
				hist = append(hist, fmt.Sprintf("lost pn%d", pn))
			case 2:
				rx.Ack(pn)
				acked[pn] = true
				ops = append(ops, u.App("RAck", u.Z(pn)))
				hist = append(hist, fmt.Sprintf("acked pn%d", pn))
			}
		}
		for i := 0; i < 64; i++ {
			before := rx.Queue()
			probe := r.Chance(1, 3) || scripted // (the plan's CryptoLength also caps a regular packet; a PTO probe is not capped)
			pkt, err, pan := rx.Pack(probe, false)
			after := rx.Queue()
			popped, ok := udPopped(before, after)
			if !ok {
				o.fail("udial/retx/queue", "the retransmission queue changed in a way no sequence of pops explains", detail(fmt.Sprintf("before=%v after=%v; %s", before, after, strings.Join(hist, "; "))))
			}
			res := "RNone"
			switch {
			case pan != nil:
				res = u.App("RErr", "3")
				o.fail("udial/retx/panic", fmt.Sprintf("packing a retransmission panics: %v", pan), detail(strings.Join(hist, "; ")))
				dead = true
			case err != nil:
				cls := "2"
				if strings.Contains(err.Error(), "failed to reassemble CRYPTO frames") {
					cls = "1"
					o.fail("udial/retx/noncontiguous", "packing a retransmission fails: "+err.Error()+" (the lost ranges packed into one Initial packet are not adjacent)", detail(fmt.Sprintf("queue=%v popped=%v; %s", before, popped, strings.Join(hist, "; "))))
				} else {
					o.fail("udial/retx/error", "packing a retransmission fails: "+err.Error(), detail(fmt.Sprintf("queue=%v popped=%v; %s", before, popped, strings.Join(hist, "; "))))
				}
				res = u.App("RErr", cls)
				dead = true
			case pkt != nil:
				res = u.App("RPkt", u.Z(pkt.PN), udRanges(pkt.Frames))
				cov := make([]bool, n)
				if msg := udWireCover(pkt.Wire, hello, cov); msg != "" {
					o.fail("udial/retx/wire", "retransmission: "+msg, detail(strings.Join(hist, "; ")))
				}
				for _, f := range pkt.Frames {
					for b := f.Off; b < f.Off+f.Len; b++ {
						if !cov[b] {
							o.fail("udial/retx/wire", fmt.Sprintf("retransmission pn%d registers CRYPTO [%d,%d) but byte %d is not in its payload", pkt.PN, f.Off, f.Off+f.Len, b), detail(strings.Join(hist, "; ")))
							break
						}
					}
				}
				hist = append(hist, fmt.Sprintf("resent pn%d %v", pkt.PN, pkt.Frames))
				sentFrames[pkt.PN] = pkt.Frames
			}
			ops = append(ops, u.App("RPack", u.B(probe), "false", udRanges(before), udRanges(popped), udRanges(after), u.B(udAsPacked(pkt)), res))
			if dead || (pkt == nil && err == nil) {
				break
			}
		}
	}
	if !dead {
		// a PTO probe with nothing to retransmit: a PING, no CRYPTO data
		before := rx.Queue()
		pkt, err, pan := rx.Pack(true, true)
		res := "RNone"
		switch {
		case pan != nil:
			res = u.App("RErr", "3")
			o.fail("udial/retx/panic", fmt.Sprintf("an Initial PTO probe that carries only a PING panics: %v", pan), detail(strings.Join(hist, "; ")))
			dead = true
		case err != nil:
			res = u.App("RErr", "2")
			o.fail("udial/retx/error", "an Initial PTO probe that carries only a PING fails: "+err.Error(), detail(strings.Join(hist, "; ")))
			dead = true
		case pkt != nil:
			res = u.App("RPkt", u.Z(pkt.PN), udRanges(pkt.Frames))
			if fr, err := udFrames(pkt.Wire); err != nil {
				o.fail("udial/retx/wire", "PING probe: payload does not parse: "+err.Error(), detail(""))
			} else {
				ackEliciting := false
				for _, f := range fr {
					if f.Type == 0x01 || f.Type == 0x06 {
						ackEliciting = true
					}
				}
				if !ackEliciting {
					o.fail("udial/retx/wire", "PING probe: the packet on the wire is not ack-eliciting", detail(""))
				}
			}
		}
		ops = append(ops, u.App("RPack", "true", "true", udRanges(before), "[]", udRanges(rx.Queue()), u.B(udAsPacked(pkt)), res))
	}
	// Handshake keys arrive while an Initial packet still has to be retransmitted: the datagram
	// must stay within the maximum packet size and every packet in it must be where a receiver
	// looks for it (no datagram padding between coalesced packets)
	victim := int64(-1)
	if !dead {
		outst := rx.Outstanding()
		sort.Slice(outst, func(i, j int) bool { return outst[i] < outst[j] })
		for _, pn := range outst {
			if len(sentFrames[pn]) > 0 {
				victim = pn
				break
			}
		}
	}
	if victim >= 0 {
		rx.Lose(victim)
		ops = append(ops, u.App("RLose", u.Z(victim)))
		hist = append(hist, fmt.Sprintf("lost pn%d; Handshake keys + 300 bytes", victim))
		rx.GiveHandshakeKeys(300)
		before := rx.Queue()
		pkt, err, pan := rx.Pack(false, false)
		after := rx.Queue()
		popped, _ := udPopped(before, after)
		switch {
		case pan != nil:
			o.fail("udial/retx/coalesced", fmt.Sprintf("packing an Initial retransmission together with Handshake data panics: %v", pan), detail(strings.Join(hist, "; ")))
			ops = append(ops, u.App("RCoalesce", udRanges(before), udRanges(popped), udRanges(after), "false", "0", u.App("RErr", "3")))
		case err != nil:
			o.fail("udial/retx/coalesced", "packing an Initial retransmission together with Handshake data fails: "+err.Error(), detail(strings.Join(hist, "; ")))
			ops = append(ops, u.App("RCoalesce", udRanges(before), udRanges(popped), udRanges(after), "false", "0", u.App("RErr", "2")))
		case pkt != nil:
			// (a lone packet that a builder's own PING / PADDING frames push over the size is C10's subject)
			if limit := max(1252, sp.UDPDatagramMinSize); pkt.Coalesced > 1 && pkt.Size > limit {
				o.fail("udial/retx/coalesced", fmt.Sprintf("a datagram of %d bytes for a maximum packet size of 1252 (UDPDatagramMinSize %d): a Handshake packet was coalesced behind a spec-driven Initial packet whose padding the size computation does not know", pkt.Size, sp.UDPDatagramMinSize), detail(fmt.Sprintf("last packet pn%d frames=%v coalesced=%d gap=%d; ", pkt.PN, pkt.Frames, pkt.Coalesced, pkt.Gap)+strings.Join(hist, "; ")))
			} else if pkt.Coalesced > 1 && pkt.Gap > 0 {
				o.fail("udial/retx/coalesced", fmt.Sprintf("%d packets in one datagram with %d bytes of datagram padding in front of the last one: the receiver cannot find it", pkt.Coalesced, pkt.Gap), detail(strings.Join(hist, "; ")))
			}
			o.dist[fmt.Sprintf("retx coalesced=%d", pkt.Coalesced)]++
			ops = append(ops, u.App("RCoalesce", udRanges(before), udRanges(popped), udRanges(after), u.B(udAsPacked(pkt)), u.Z(int64(pkt.Coalesced)), u.App("RPkt", u.Z(pkt.PN), udRanges(pkt.Frames))))
		}
	}
	if !dead {
		// every byte is acknowledged, outstanding or queued: acknowledged and outstanding packets'
		// frames plus the queue cover [0,n)
		o.dist["retx drained"]++
	} else {
		o.dist["retx error"]++
	}
	nt := 0
	if len(ops) > 0 {
		nt = 1
	}
	fmt.Fprintf(o.w, "CASE %d %s\n", nt, u.App("Retx", u.Z(int64(n)), u.B(planned), layout, u.List(flight), u.List(ops)))
	_ = pns
}


// ---- handler registration across dials on ONE transport (case Reg) -------------------------

func udRegID(b []byte) string { // connection ID as a number: 0 = empty, else 0x01 || bytes
	if len(b) == 0 {
		return "0"
	}
	n := new(big.Int).SetBytes(append([]byte{1}, b...))
	return n.String()
}

// udReg: ONE UTransport, several dials through the real doDial against the in-tree server, each
// followed by a close (local CONNECTION_CLOSE, remote CONNECTION_CLOSE, or immediate destroy) and
// pauses shorter than any expiry (5 ms) or longer than all of them (2 s); after every step the
// Transport's handler map is read for every source connection ID used so far.
func udReg(o *udOut, r *u.Rng, scripted bool) {
	name := parrotNames[r.Intn(len(parrotNames))]
	if scripted {
		name = "Chrome_115_IPv4"
	}
	sp, err := specFor(name)
	if err != nil {
		return
	}
	// Zero-length source connection IDs only (the Chrome parrots as they are, the Firefox ones
	// edited): every dial then uses the SAME handler-map key, which is what the model is about.
	// With a non-empty ID each dial has its own key, and the connection retires its first ID
	// on its own schedule while it lives.
	sp.InitialPacketSpec.SrcConnIDLength = 0
	k := "udial/reg/"
	var steps []string
	var hist []string
	berr := inBubble(func() {
		e, err := newSimEnv(simOpts{Spec: sp})
		if err != nil {
			o.fail(k+"env", err.Error(), name)
			return
		}
		defer e.Close()
		sctx, scancel := context.WithCancel(context.Background())
		defer scancel()
		var smu sync.Mutex
		var srvConns []*quic.Conn
		go func() {
			for {
				c, err := e.Ln.Accept(sctx)
				if err != nil {
					return
				}
				smu.Lock()
				srvConns = append(srvConns, c)
				smu.Unlock()
				go func(c *quic.Conn) {
					for {
						st, err := c.AcceptStream(sctx)
						if err != nil {
							return
						}
						go func() {
							data, err := io.ReadAll(st)
							if err == nil {
								_, _ = st.Write(data)
							}
							st.Close()
						}()
					}
				}(c)
			}
		}()
		var ids [][]byte
		var conns []*quic.Conn
		observe := func() string {
			var obs []string
			for _, id := range ids {
				kind, c := quic.UdialHandlerKind(e.CliTr, id)
				owner := int64(0)
				switch kind {
				case 1:
					for j, cc := range conns {
						if cc == c {
							owner = int64(j + 1)
						}
					}
				case 2, 3:
					kind = 2
				}
				obs = append(obs, u.Pair(udRegID(id), u.Z(int64(kind)), u.Z(owner)))
			}
			return u.List(obs)
		}
		step := func(op string) { steps = append(steps, u.App("GStep", op, observe())) }
		nd := r.Range(2, 5)
		if scripted {
			nd = 3
		}
		for d := 1; d <= nd; d++ {
			e.Router.mu.Lock()
			from := len(e.Router.log)
			e.Router.mu.Unlock()
			ctx, cancel := context.WithTimeout(context.Background(), 20*time.Second)
			conn, derr := e.Dial(ctx)
			ok := derr == nil
			if ok {
				// the server's replies reach this connection: a small echo
				st, err := conn.OpenStreamSync(ctx)
				if err == nil {
					_ = st.SetDeadline(time.Now().Add(20 * time.Second))
					msg := streamBytes(d, 3000)
					_, _ = st.Write(msg)
					st.Close()
					got, rerr := io.ReadAll(st)
					ok = rerr == nil && bytes.Equal(got, msg)
				} else {
					ok = false
				}
			}
			cancel()
			var id []byte
			e.Router.mu.Lock()
			for _, dg := range e.Router.log[from:] {
				if dg.Dir == 0 {
					if pk, err := udOpen([][]byte{dg.Data}); err == nil && len(pk) > 0 {
						id = pk[0].SCID
					}
					break
				}
			}
			e.Router.mu.Unlock()
			known := false
			for _, x := range ids {
				if bytes.Equal(x, id) {
					known = true
				}
			}
			if !known {
				ids = append(ids, id)
			}
			conns = append(conns, conn)
			hist = append(hist, fmt.Sprintf("dial#%d scid=%x ok=%v", d, id, ok))
			if !ok {
				o.fail(k+"not-routed", fmt.Sprintf("dial#%d through the same UTransport: the handshake or the echo fails (%v): the connection is not registered under its source connection ID, or loses the entry", d, derr), name+": "+strings.Join(hist, "; "))
			}
			step(u.App("GDial", u.Z(int64(d)), udRegID(id), u.B(ok)))
			if kind, c := quic.UdialHandlerKind(e.CliTr, id); ok && (kind != 1 || c != conn) {
				o.fail(k+"not-owner", fmt.Sprintf("after dial#%d the handler map does not hold that connection under its source connection ID (kind %d)", d, kind), name+": "+strings.Join(hist, "; "))
			}
			if conn == nil {
				continue
			}
			// the connection lives for a while: timers of earlier connections fire under it
			switch w := r.Intn(3); {
			case scripted && d == 2, !scripted && w == 0:
				time.Sleep(2 * time.Second)
				hist = append(hist, "pause 2s (connection open)")
				step("GWaitLong")
				if kind, c := quic.UdialHandlerKind(e.CliTr, id); ok && (kind != 1 || c != conn) {
					o.fail(k+"not-owner", fmt.Sprintf("2 s after dial#%d, connection still open: the handler map no longer holds it under its source connection ID (kind %d): an earlier connection's expiry removed the entry", d, kind), name+": "+strings.Join(hist, "; "))
				}
			case !scripted && w == 1:
				time.Sleep(5 * time.Millisecond)
				step("GWaitShort")
			}
			how := r.Intn(3)
			if scripted {
				how = 0
			}
			switch how {
			case 0:
				conn.CloseWithError(0, "")
				time.Sleep(time.Millisecond)
				hist = append(hist, fmt.Sprintf("close#%d local", d))
				step(u.App("GClose", u.Z(int64(d)), udRegID(id)))
			case 1:
				smu.Lock()
				var sc *quic.Conn
				if len(srvConns) >= d {
					sc = srvConns[d-1]
				}
				smu.Unlock()
				if sc != nil {
					sc.CloseWithError(7, "bye")
				}
				select {
				case <-conn.Context().Done():
				case <-time.After(time.Second):
				}
				time.Sleep(time.Millisecond)
				hist = append(hist, fmt.Sprintf("close#%d remote", d))
				step(u.App("GClose", u.Z(int64(d)), udRegID(id)))
			default:
				quic.UdialDestroy(conn, fmt.Errorf("verif: destroyed"))
				time.Sleep(time.Millisecond)
				hist = append(hist, fmt.Sprintf("destroy#%d", d))
				step(u.App("GDestroy", u.Z(int64(d)), udRegID(id)))
			}
			switch w := r.Intn(4); {
			case !scripted && w == 0:
				time.Sleep(2 * time.Second)
				hist = append(hist, "pause 2s")
				step("GWaitLong")
			case !scripted && w == 1:
				time.Sleep(5 * time.Millisecond)
				hist = append(hist, "pause 5ms")
				step("GWaitShort")
			}
		}
		time.Sleep(2 * time.Second)
		step("GWaitLong")
		for _, id := range ids {
			if kind, _ := quic.UdialHandlerKind(e.CliTr, id); kind != 0 {
				o.fail(k+"leak", fmt.Sprintf("2 s after the last connection was closed the handler map still holds an entry (kind %d) under source connection ID %x", kind, id), name+": "+strings.Join(hist, "; "))
			}
		}
	})
	if berr != nil {
		o.fail(k+"leak-or-panic", berr.Error(), name+": "+strings.Join(hist, "; "))
		return
	}
	o.dist["reg"]++
	fmt.Fprintf(o.w, "CASE 1 %s\n", u.App("Reg", u.List(steps)))
}


// udRegOverlap: two connections with zero-length source connection IDs open at the same time on
// ONE UTransport (they share the handler-map key). Either the second dial is refused up front, or
// every connection that Dial returned keeps moving data until it is closed itself.
func udRegOverlap(o *udOut, r *u.Rng, how int) {
	name := parrotNames[r.Intn(4)] // a Chrome parrot
	sp, err := specFor(name)
	if err != nil {
		return
	}
	sp.InitialPacketSpec.SrcConnIDLength = 0
	k := "udial/reg/"
	var hist []string
	var steps []string
	berr := inBubble(func() {
		e, err := newSimEnv(simOpts{Spec: sp})
		if err != nil {
			return
		}
		defer e.Close()
		sctx, scancel := context.WithCancel(context.Background())
		defer scancel()
		go sdServe(sctx, e)
		var conns []*quic.Conn
		step := func(op string) {
			kind, c := quic.UdialHandlerKind(e.CliTr, nil)
			owner := int64(0)
			switch kind {
			case 1:
				for j, cc := range conns {
					if cc == c {
						owner = int64(j + 1)
					}
				}
			case 2, 3:
				kind = 2
			}
			steps = append(steps, u.App("GStep", op, u.List([]string{u.Pair("0", u.Z(int64(kind)), u.Z(owner))})))
		}
		echo := func(c *quic.Conn, id int) error {
			ctx, cancel := context.WithTimeout(context.Background(), 10*time.Second)
			defer cancel()
			st, err := c.OpenStreamSync(ctx)
			if err != nil {
				return err
			}
			_ = st.SetDeadline(time.Now().Add(10 * time.Second))
			msg := streamBytes(id, 3000)
			if _, err := st.Write(msg); err != nil {
				return err
			}
			st.Close()
			got, err := io.ReadAll(st)
			if err != nil {
				return err
			}
			if !bytes.Equal(got, msg) {
				return fmt.Errorf("echo differs")
			}
			return nil
		}
		ctx, cancel := context.WithTimeout(context.Background(), 20*time.Second)
		defer cancel()
		c1, err := e.Dial(ctx)
		if err != nil || echo(c1, 1) != nil {
			o.fail(k+"not-routed", fmt.Sprintf("dial#1 fails: %v", err), name)
			return
		}
		hist = append(hist, "dial#1 ok, left open")
		conns = append(conns, c1)
		step(u.App("GDial", "1", "0", "true"))
		c2, err := e.Dial(ctx)
		conns = append(conns, c2)
		if err != nil {
			step(u.App("GDial", "2", "0", "false"))
			hist = append(hist, "dial#2 refused: "+err.Error())
			o.dist["reg overlap refused"]++
			if e1 := echo(c1, 2); e1 != nil {
				o.fail(k+"overlap", "the second dial was refused, yet the first connection no longer moves data: "+e1.Error(), name+": "+strings.Join(hist, "; "))
			}
			c1.CloseWithError(0, "")
			time.Sleep(time.Millisecond)
			step(u.App("GClose", "1", "0"))
			// now the ID is free again: the same dial is accepted over the closed entry
			c3, err := e.Dial(ctx)
			conns = append(conns, c3)
			ok3 := err == nil && echo(c3, 6) == nil
			if !ok3 {
				o.fail(k+"not-routed", fmt.Sprintf("after the open connection was closed, the next dial through the same UTransport fails (%v)", err), name+": "+strings.Join(hist, "; "))
			}
			step(u.App("GDial", "3", "0", u.B(ok3)))
			if c3 != nil {
				c3.CloseWithError(0, "")
				time.Sleep(time.Millisecond)
				step(u.App("GClose", "3", "0"))
			}
			return
		}
		step(u.App("GDial", "2", "0", "true"))
		hist = append(hist, "dial#2 ok while connection 1 is open")
		o.dist["reg overlap accepted"]++
		if e2 := echo(c2, 3); e2 != nil {
			o.fail(k+"overlap", "dial#2 returned a connection that moves no data: "+e2.Error(), name+": "+strings.Join(hist, "; "))
		}
		if e1 := echo(c1, 4); e1 != nil {
			o.fail(k+"overlap", "after dial#2 succeeded on the same UTransport, connection 1 (still open) no longer moves data: "+e1.Error(), name+": "+strings.Join(hist, "; "))
		}
		switch how {
		case 0:
			c1.CloseWithError(0, "")
			hist = append(hist, "connection 1 closed")
		default:
			quic.UdialDestroy(c1, fmt.Errorf("verif: destroyed"))
			hist = append(hist, "connection 1 destroyed")
		}
		time.Sleep(5 * time.Millisecond)
		if e2 := echo(c2, 5); e2 != nil {
			o.fail(k+"overlap", "after connection 1 was closed, connection 2 (open, dialled later through the same UTransport) no longer moves data: "+e2.Error(), name+": "+strings.Join(hist, "; "))
		}
		c2.CloseWithError(0, "")
	})
	if berr != nil {
		o.fail(k+"leak-or-panic", berr.Error(), name+": "+strings.Join(hist, "; "))
		return
	}
	o.dist["reg"]++
	fmt.Fprintf(o.w, "CASE 1 %s\n", u.App("Reg", u.List(steps)))
}


// udKeyPhases: the spec-driven crypto setup answers every sealer / opener getter with the same
// class (keys / not yet available / dropped) as the plain one, whichever keys are installed.
func udKeyPhases(o *udOut) {
	for _, k := range handshake.VerifUdialKeyPhases() {
		o.dist["key-phase getter"]++
		if k.Plain != k.Spec {
			cls := []string{"keys", "ErrKeysNotYetAvailable", "ErrKeysDropped", "another error"}
			o.fail("udial/crypto-setup/"+k.Getter, fmt.Sprintf("with %s the spec-driven crypto setup's %s answers %s, the plain crypto setup answers %s", k.Phase, k.Getter, cls[k.Spec], cls[k.Plain]), k.Phase)
		}
	}
}

// udParent: the iterations run in a child process (this binary again). Real connections run in
// them; a panic in one of a connection's own goroutines kills the process it happens in. When the
// child dies, the iteration it had started is reported (udial/panic) and a new child resumes
// behind it.
func udParent(w *bufio.Writer, seed uint64, n int, args []string) {
	from := 0
	for restart := 0; restart < 8; restart++ {
		cmd := exec.Command(os.Args[0], append([]string{"udial", fmt.Sprint(seed), fmt.Sprint(n), "child=1", fmt.Sprintf("from=%d", from)}, args...)...)
		cmd.Env = os.Environ()
		var out, errb bytes.Buffer
		cmd.Stdout, cmd.Stderr = &out, &errb
		err := cmd.Run()
		last, lastIdx := "", -1
		for _, ln := range strings.Split(out.String(), "\n") {
			if strings.HasPrefix(ln, "START\t") {
				if f := strings.SplitN(ln, "\t", 3); len(f) == 3 {
					fmt.Sscanf(f[1], "%d", &lastIdx)
					last = f[2]
				}
				continue
			}
			if ln != "" {
				fmt.Fprintln(w, ln)
			}
		}
		if err == nil {
			return
		}
		first := ""
		var where []string
		for _, ln := range strings.Split(errb.String(), "\n") {
			if first == "" && (strings.HasPrefix(ln, "panic:") || strings.HasPrefix(ln, "fatal error:")) {
				first = ln
			}
			if strings.Contains(ln, "uquic") && strings.Contains(ln, "(") && !strings.HasPrefix(ln, "\t") && !strings.Contains(ln, "verifdrv") && len(where) < 5 {
				fn := strings.TrimSpace(ln)
				if i := strings.LastIndex(fn, "("); i > 0 {
					fn = fn[:i]
				}
				where = append(where, strings.TrimPrefix(fn, "github.com/refraction-networking/uquic"))
			}
		}
		if first == "" {
			first = strings.TrimSpace(errb.String())
			if len(first) > 300 {
				first = first[:300]
			}
		}
		fmt.Fprintf(w, "MONFAIL\tudial/panic\tthe process dies while running this iteration (%v): %s in %s\t%s\n", err, first, strings.Join(where, " <- "), last)
		if lastIdx < 0 {
			return
		}
		from = lastIdx + 1
	}
}

func runUDial(w *bufio.Writer, seed uint64, n int, args []string) {
	only, child, from := "", false, 0
	var pass []string
	for _, a := range args {
		switch {
		case strings.HasPrefix(a, "only="):
			only = a[5:]
			pass = append(pass, a)
		case a == "child=1":
			child = true
		case strings.HasPrefix(a, "from="):
			fmt.Sscanf(a, "from=%d", &from)
		}
	}
	if !child {
		udParent(w, seed, n, pass)
		return
	}
	r := u.NewRng(seed)
	o := &udOut{w: w, seen: map[string]int{}, dist: map[string]int{}}
	if from == 0 {
		udKeyPhases(o)
	}
	defer func() {
		if p := recover(); p != nil {
			fmt.Fprintf(w, "MONFAIL\tudial/panic\t%v\t\n", p)
		}
	}()
	for i := 0; i < n; i++ {
		rr := r.Fork()
		if i < from {
			continue
		}
		what := "Seq"
		switch {
		case i%8 == 7 && only == "":
			what = "NilSpec"
		case i%8 == 3 && (i/8)%2 == 0 && only == "":
			what = "Reg"
		case i%4 == 1 && only == "":
			what = "Retx"
		case i%2 == 0:
			what = "Seq " + parrotNames[(i/2)%len(parrotNames)]
		}
		fmt.Fprintf(w, "START\t%d\tudial %d %d iteration %d (%s)\n", i, seed, n, i, what)
		w.Flush()
		if os.Getenv("VERIF_UDIAL_SELFTEST_CRASH") == fmt.Sprint(i) { // self-test of the crash attribution
			go func() { panic("self-test: crash in another goroutine") }()
			time.Sleep(time.Second)
		}
		switch {
		case i%8 == 7 && only == "":
			udNilSpec(o, rr)
		case i%8 == 3 && (i/8)%2 == 0 && only == "":
			udReg(o, rr, i == 3)
			if i == 3 || i == 19 {
				udRegOverlap(o, rr, i/16)
			}
		case i%4 == 1 && only == "":
			udRetx(o, rr, i == 1)
			o.dist["retx"]++
		case i%2 == 0:
			name := parrotNames[(i/2)%len(parrotNames)]
			if only != "" && only != name {
				continue
			}
			sp, err := specFor(name)
			if err != nil {
				o.fail("udial/"+name+"/decode", err.Error(), name)
				continue
			}
			edits := (i/2/len(parrotNames))%2 == 1
			udSequence(o, rr, name, name, sp, 2+rr.Intn(3), edits)
			o.dist["builtin"]++
		default:
			base := parrotNames[rr.Intn(len(parrotNames))]
			if only != "" && only != base {
				continue
			}
			kind := []string{"suppress", "randomize", "tp-edit", "cid", "hello-size", "mix", "frames-random", "plan"}[rr.Intn(8)]
			d, err := udDerive(rr, base, kind)
			if err != nil {
				o.fail("udial/derived/decode", err.Error(), base)
				continue
			}
			udSequence(o, rr, d.Desc, "derived", d.Spec, 2+rr.Intn(2), rr.Bool())
			o.dist["derived "+kind]++
		}
	}
	for k, v := range o.dist {
		fmt.Fprintf(w, "DIST\t%s\t%d\n", k, v)
	}
	for k, v := range o.seen {
		if v > 3 {
			fmt.Fprintf(w, "INFO\t%s failed %d times (first 3 printed)\n", k, v)
		}
	}
}
