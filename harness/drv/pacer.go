//go:build verif

package main

import (
	"bufio"
	"fmt"
	"math/big"
	"strings"

	"github.com/refraction-networking/uquic/internal/congestion"
	u "github.com/refraction-networking/uquic/internal/verifutil"
)

// Unit "pacer" (property C20): the real congestion.pacer built by newPacer with a bandwidth
// function the harness controls (extreme values included), plus BandwidthFromDelta.
// Monitors: budget <= one burst; over every interval of gated sends the bytes sent are
// <= one burst + 1.25 x bandwidth x elapsed (exact big-integer arithmetic); TimeUntilSend
// returns a time at which one datagram really fits.

func init() { units["pacer"] = runPacer }

type pacerSend struct {
	t, size int64
	bw      uint64 // bits/s in effect at the send
	mds     int64
	gated   bool
}

type pacerGen struct {
	r        *u.Rng
	w        *bufio.Writer
	vp       *congestion.VerifPacer
	steps    []string
	trace    []string
	now      int64
	monotone bool
	bursty   bool
	sends    []pacerSend
	dist     map[string]int
	reported map[string]bool
}

func (g *pacerGen) monfail(key, desc string) {
	if g.reported[key] {
		return
	}
	g.reported[key] = true
	fmt.Fprintf(g.w, "MONFAIL\t%s\t%s\t%s\n", key, desc, strings.Join(g.trace, " "))
}

func (g *pacerGen) do(kind, opTerm string, f func() int64) (ret int64, panicked bool) {
	func() {
		defer func() {
			if e := recover(); e != nil {
				panicked = true
			}
		}()
		ret = f()
	}()
	b, m, l := g.vp.Fields()
	g.steps = append(g.steps, u.Pair(opTerm, u.App("PO", u.Z(ret), u.B(panicked), u.Z(b), u.Z(m), u.Z(l))))
	g.trace = append(g.trace, opTerm)
	g.dist[kind]++
	if panicked && kind == "until" {
		g.monfail("pacer/time-until-send-div-zero", fmt.Sprintf("TimeUntilSend panics (division by zero) with bandwidth %d bit/s", g.vp.Bw))
	} else if panicked {
		g.monfail("pacer/panic", "panic in "+kind)
	}
	return
}

// idealAdj = 1.25 x (bw/8) bytes per second as an exact rational numerator over 4.
// (the pacing rate has a floor of 1 byte/s: it must never be 0, TimeUntilSend divides by it)
func idealAdjTimes4(bw uint64) *big.Int {
	x := new(big.Int).SetUint64(bw / 8)
	x.Mul(x, big.NewInt(5))
	if x.Cmp(big.NewInt(4)) < 0 {
		return big.NewInt(4)
	}
	return x
}

// idealBurst = max(10*mds, floor(1.25*bw/8 * 2ms))
func idealBurst(bw uint64, mds int64) *big.Int {
	x := idealAdjTimes4(bw)
	x.Mul(x, big.NewInt(2_000_000))
	x.Quo(x, big.NewInt(4_000_000_000))
	if t := big.NewInt(10 * mds); x.Cmp(t) < 0 {
		return t
	}
	return x
}

func (g *pacerGen) pickBw() uint64 {
	r := g.r
	switch r.Intn(12) {
	case 0:
		return uint64(r.Pick(0, 1, 7, 8, 9, 15, 16, 63, 64))
	case 1:
		return uint64(r.Range(1, 100000))
	case 2, 3, 4:
		return uint64(r.Range(1, 4000)) * 1_000_000 // 1 Mbit/s .. 4 Gbit/s
	case 5:
		return uint64(r.Range(1, 1000)) * 1_000_000_000_000
	case 6:
		return r.U64() >> uint(r.Range(0, 63))
	case 7:
		return ^uint64(0) - uint64(r.Range(0, 16))
	case 8:
		return 1 << uint(r.Range(40, 63))
	case 9:
		// around the overflow guard of timeScaledBandwidth for a 2ms burst: adj*2e6 ~ 2^64
		return (^uint64(0)/2_000_000/5*4 + uint64(r.Range(-3, 3))) * 8
	}
	return g.vp.Bw
}

func (g *pacerGen) advance() {
	r := g.r
	if g.bursty && !r.Chance(1, 8) {
		// back-to-back sending: the gate must close after one burst
		g.now += int64(r.Pick(0, 0, 0, 0, 1, 100, 1000, 20_000))
		return
	}
	switch r.Intn(14) {
	case 0:
	case 1:
		g.now += 1
	case 2, 3:
		g.now += int64(r.Range(1, 2000))
	case 4, 5, 6:
		g.now += int64(r.Range(1, 3000)) * 1000
	case 7, 8:
		g.now += int64(r.Range(1, 50)) * 1_000_000
	case 9:
		g.now += 2_000_000 + int64(r.Range(-1, 1))
	case 10:
		g.now += int64(r.Range(1, 100)) * 1_000_000_000
	case 11:
		if r.Chance(1, 3) {
			g.now += 1 << uint(r.Range(33, 61))
		}
	case 12:
		if r.Chance(1, 4) && g.now > 10 {
			g.now -= int64(r.Range(1, 10)) // clock going backwards (never in production: monotonic clock)
			g.monotone = false
		}
	case 13:
		// exactly the interval that adds one datagram at the current bandwidth
		if adj := g.vp.Adjusted(); adj > 0 {
			_, m, _ := g.vp.Fields()
			d := new(big.Int).Mul(big.NewInt(m), big.NewInt(1_000_000_000))
			d.Quo(d, new(big.Int).SetUint64(adj))
			if d.IsInt64() && d.Int64() < 1<<50 && d.Int64() > 0 {
				g.now += d.Int64() + int64(r.Range(-1, 1))
			}
		}
	}
	if g.now <= 0 {
		g.now = 1
	}
}

func (g *pacerGen) opSend(forceUngated bool) {
	r := g.r
	g.advance()
	if r.Chance(1, 6) {
		g.vp.Bw = g.pickBw()
	}
	bw, now := g.vp.Bw, g.now
	_, mds, _ := g.vp.Fields()
	bud, _ := g.do("budget", u.App("PBudget", u.Z(now), u.ZU(bw)), func() int64 { return g.vp.Budget(now) })
	if big.NewInt(bud).Cmp(idealBurst(bw, mds)) > 0 {
		g.monfail("pacer/budget-above-burst", fmt.Sprintf("Budget(%d)=%d > one burst %s (bw %d bit/s, mds %d)", now, bud, idealBurst(bw, mds), bw, mds))
	}
	if bud < 0 {
		g.monfail("pacer/budget-negative", fmt.Sprintf("Budget(%d)=%d", now, bud))
	}
	gated := bud >= mds
	if !gated && !forceUngated {
		g.dist["gate-closed"]++
		if r.Chance(2, 3) {
			g.opUntil() // what the connection does next: arm the pacing timer
		}
		return
	}
	size := mds
	k := 6
	if g.bursty {
		k = 18
	}
	switch r.Intn(k) {
	case 0:
		size = int64(r.Range(1, int(mds)))
	case 1:
		size = mds - 1
	case 2:
		size = int64(r.Range(20, 80))
	}
	if !gated {
		// packets that bypass the gate (pure ACKs, probe packets) may be of any size
		if r.Chance(1, 3) {
			size = mds + int64(r.Range(1, 3000))
		}
		g.dist["send-ungated"]++
	} else {
		g.dist["send-gated"]++
	}
	g.do("sent", u.App("PSent", u.Z(now), u.Z(size), u.ZU(bw)), func() int64 { g.vp.SentPacket(now, size); return 0 })
	g.sends = append(g.sends, pacerSend{t: now, size: size, bw: bw, mds: mds, gated: gated})
}

// interval bound over every pair of sends a <= b (gated sends only are counted)
func (g *pacerGen) checkIntervals() {
	if !g.monotone {
		g.dist["case-nonmonotone-clock"]++
		return
	}
	n := len(g.sends)
	for a := 0; a < n; a++ {
		if !g.sends[a].gated {
			continue
		}
		sum := big.NewInt(0)
		allow := idealBurst(g.sends[a].bw, g.sends[a].mds) // numerator; the rate term is kept over 4e9 below
		rate := big.NewInt(0)                              // sum of 5*(bw/8)*dt
		for b := a; b < n; b++ {
			if b > a {
				dt := g.sends[b].t - g.sends[b-1].t
				x := idealAdjTimes4(g.sends[b].bw)
				rate.Add(rate, x.Mul(x, big.NewInt(dt)))
			}
			if !g.sends[b].gated {
				continue
			}
			sum.Add(sum, big.NewInt(g.sends[b].size))
			// sum <= allow + ceil(rate / 4e9)
			rt := new(big.Int).Add(rate, big.NewInt(3_999_999_999))
			rt.Quo(rt, big.NewInt(4_000_000_000))
			rt.Add(rt, allow)
			if sum.Cmp(rt) > 0 {
				g.monfail("pacer/interval-bound", fmt.Sprintf("gated sends %d..%d (t=%d..%d) carry %s bytes > one burst %s + 1.25*bw*elapsed = %s", a, b, g.sends[a].t, g.sends[b].t, sum, allow, rt))
				return
			}
		}
	}
}

func (g *pacerGen) opUntil() {
	bw := g.vp.Bw
	b0, mds, last := g.vp.Fields()
	ret, pan := g.do("until", u.App("PUntil", u.ZU(bw)), func() int64 { return g.vp.TimeUntilSend() })
	if pan {
		return
	}
	if ret == 0 {
		if b0 < mds {
			g.monfail("pacer/time-until-send-zero", fmt.Sprintf("TimeUntilSend=0 with budget %d < mds %d", b0, mds))
		}
		return
	}
	g.dist["until-nonzero"]++
	if ret < last+1_000_000 && last < 1<<61 {
		g.monfail("pacer/time-until-send-early", fmt.Sprintf("TimeUntilSend=%d earlier than last send %d + MinPacingDelay", ret, last))
	}
	if last != 0 && ret > last {
		bud, _ := g.do("budget", u.App("PBudget", u.Z(ret), u.ZU(bw)), func() int64 { return g.vp.Budget(ret) })
		if bud < mds {
			g.monfail("pacer/time-until-send-insufficient", fmt.Sprintf("TimeUntilSend=%d but Budget then = %d < mds %d (bw %d)", ret, bud, mds, bw))
		}
		if g.r.Chance(1, 2) && ret >= g.now {
			g.now = ret // the sender really waits until then
		}
	}
}

func runPacer(w *bufio.Writer, seed uint64, n int, _ []string) {
	root := u.NewRng(seed*0x9E3779B97F4A7C15 + 0x5bd1e995) // see runCubic
	dist := map[string]int{}
	reported := map[string]bool{}
	for ci := 0; ci < n; ci++ {
		r := root.Fork()
		g := &pacerGen{r: r, w: w, dist: dist, reported: reported, monotone: true, now: int64(r.Range(1, 1_000_000_000))}
		g.vp = congestion.VerifNewPacer(0)
		g.vp.Bw = g.pickBw()
		if r.Chance(1, 2) {
			g.vp.Bw = uint64(r.Range(1, 2000)) * 1_000_000
		}
		if r.Chance(1, 30) {
			g.now = 1<<62 + int64(r.Range(0, 1000))
		}
		g.bursty = r.Chance(3, 5)
		if g.bursty && r.Chance(3, 4) {
			g.vp.Bw = uint64(r.Range(1, 200)) * 1_000_000
		}
		nops := r.Range(3, 30)
		if g.bursty {
			nops = r.Range(12, 40)
		}
		for k := 0; k < nops; k++ {
			x := r.Intn(100)
			if g.bursty && x >= 60 && r.Chance(2, 3) {
				x = 0
			}
			switch {
			case x < 60:
				g.opSend(false)
			case x < 70:
				g.opSend(true)
			case x < 82:
				g.opUntil()
			case x < 87:
				_, m, _ := g.vp.Fields()
				s := m + int64(r.Pick(0, 1, 20, 172, 200, 7000))
				if s > 65535 {
					s = m
				}
				g.do("setmds", u.App("PSetMDS", u.Z(s)), func() int64 { g.vp.SetMaxDatagramSize(s); return 0 })
			case x < 92:
				bw := g.pickBw()
				g.vp.Bw = bw
				_, m, _ := g.vp.Fields()
				mb, _ := g.do("maxburst", u.App("PMaxBurst", u.ZU(bw)), func() int64 { return g.vp.MaxBurst() })
				if big.NewInt(mb).Cmp(idealBurst(bw, m)) > 0 {
					g.monfail("pacer/maxburst", fmt.Sprintf("maxBurstSize=%d > %s (bw %d)", mb, idealBurst(bw, m), bw))
				}
			default:
				bw := g.vp.Bw
				ns := r.U64() >> uint(r.Range(0, 63))
				if r.Chance(1, 3) {
					if adj := g.vp.Adjusted(); adj > 0 {
						ns = ^uint64(0)/adj + uint64(r.Range(-2, 2)) // boundary of the overflow guard
					}
				}
				sc, _ := g.do("scaled", u.App("PScaled", u.ZU(ns), u.ZU(bw)), func() int64 { return g.vp.Scaled(ns) })
				// never more than 1.25 x bandwidth x ns
				x := idealAdjTimes4(bw)
				x.Mul(x, new(big.Int).SetUint64(ns))
				x.Quo(x, big.NewInt(4_000_000_000))
				_, m, _ := g.vp.Fields()
				if big.NewInt(sc).Cmp(x) > 0 || sc < 0 {
					g.monfail("pacer/scaled-above-rate", fmt.Sprintf("timeScaledBandwidth(%d)=%d > 1.25*bw*ns = %s (bw %d, mds %d)", ns, sc, x, bw, m))
				}
			}
		}
		g.checkIntervals()
		nt := 0
		if len(g.sends) > 1 {
			nt = 1
		}
		fmt.Fprintf(w, "CASE %d %s\n", nt, u.App("PacerCase", u.List(g.steps)))
		if ci < 2 {
			fmt.Fprintf(w, "SAMPLE\tpacer ops: %s\n", strings.Join(g.trace, " "))
		}
	}
	// BandwidthFromDelta: pure function, uint64 wrap-around included
	for i := 0; i < n/4+8; i++ {
		r := root.Fork()
		bytes := int64(r.Pick(0, 1, 1200, 2400, 40960, 14_520_000, 1<<34, 1<<35, 1<<62))
		if r.Chance(1, 2) {
			bytes = int64(r.U64() >> uint(r.Range(1, 63)))
		}
		delta := int64(r.Pick(1, 999, 1000, 1_000_000, 100_000_000, 1<<40, 1<<62, -1, 0))
		if r.Chance(1, 2) {
			delta = int64(r.U64()>>uint(r.Range(1, 63))) + 1
		}
		var ret uint64
		pan := false
		func() {
			defer func() {
				if e := recover(); e != nil {
					pan = true
				}
			}()
			ret = congestion.VerifBandwidthFromDelta(bytes, delta)
		}()
		if !pan && delta > 0 && bytes >= 0 {
			ideal := new(big.Int).Mul(big.NewInt(bytes), big.NewInt(8_000_000_000))
			ideal.Quo(ideal, big.NewInt(delta))
			if new(big.Int).SetUint64(ret).Cmp(ideal) > 0 {
				fmt.Fprintf(w, "MONFAIL\tpacer/bandwidth-overestimate\tBandwidthFromDelta(%d,%d)=%d > %s\t%d %d\n", bytes, delta, ret, ideal, bytes, delta)
			}
		}
		dist["bwfromdelta"]++
		fmt.Fprintf(w, "CASE 1 %s\n", u.App("BwCase", u.Z(bytes), u.Z(delta), u.ZU(ret), u.B(pan)))
	}
	for k, v := range dist {
		fmt.Fprintf(w, "DIST\t%s\t%d\n", k, v)
	}
}
