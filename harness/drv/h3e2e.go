//go:build verif

package main

// h3e2e: end-to-end exploration for property C18 (monitor-only unit, no Coq model).
//
//   A. real http3.Server and real http3.Transport over loopback UDP (Logger nil on both
//      sides): generated request/response pairs (methods, header multisets with repeats and
//      cookies, bodies 0..256 KiB in random write chunks, request and response trailers,
//      HEAD / 204 / 304, 103 early hints, gzip), concurrency 1..8 on one connection, a share of
//      them through a packet-dropping UDP relay; a reference check of what the handler and the
//      client observe against what was generated.
//   B. raw scripted peers (plain quic + hand-built HTTP/3 frames) against the real server and
//      the real client: unknown / GREASE frames and stream types, reserved frames, frames in
//      forbidden places, malformed SETTINGS, truncated frames, resets; and the replay of the
//      Content-Length findings on the real client and server.
//
// Everything that drives the implementation runs in a child process (the same binary): a
// panic in any goroutine of the server or client kills the child and is reported by the
// parent as MONFAIL h3/panic with the scenario that was running.

import (
	"bufio"
	"bytes"
	"compress/gzip"
	"context"
	"crypto/ecdsa"
	"crypto/elliptic"
	crand "crypto/rand"
	"crypto/sha256"
	"crypto/x509"
	"crypto/x509/pkix"
	"errors"
	"fmt"
	"io"
	"log/slog"
	"math/big"
	"net"
	"net/http"
	"net/http/httptrace"
	"net/textproto"
	"os"
	"os/exec"
	"regexp"
	"sort"
	"strconv"
	"strings"
	"sync"
	"time"

	"github.com/quic-go/qpack"
	quic "github.com/refraction-networking/uquic"
	"github.com/refraction-networking/uquic/http3"
	u "github.com/refraction-networking/uquic/internal/verifutil"
	"github.com/refraction-networking/uquic/quicvarint"
	tls "github.com/refraction-networking/utls"
)

func init() { units["h3e2e"] = runH3E2E }

// ---------- parent: run the child, relay its output, turn a crash into a MONFAIL ----------

func runH3E2E(w *bufio.Writer, seed uint64, n int, args []string) {
	if len(args) > 0 && args[0] == "child" {
		h3eChild(w, seed, n)
		return
	}
	if len(args) > 0 && strings.HasPrefix(args[0], "child-abandon:") {
		k, _ := strconv.Atoi(strings.TrimPrefix(args[0], "child-abandon:"))
		h3eChildAbandon(w, seed, k)
		return
	}
	h3eRunChild(w, seed, n, "child")
	// peers that go away while the handler is still writing a response with trailers
	// (own process: if it dies, everything above has still been checked)
	for k := 0; k < 6; k++ {
		h3eRunChild(w, seed, n, fmt.Sprintf("child-abandon:%d", k))
	}
}

var h3ePanicSite = regexp.MustCompile(`uquic/http3\.([A-Za-z0-9_().*]+)\(`)

func h3eRunChild(w *bufio.Writer, seed uint64, n int, mode string) {
	h3eRunChildOf(w, "h3e2e", seed, n, mode)
}

func h3eRunChildOf(w *bufio.Writer, unit string, seed uint64, n int, mode string) {
	cmd := exec.Command(os.Args[0], unit, strconv.FormatUint(seed, 10), strconv.Itoa(n), mode)
	cmd.Env = os.Environ()
	var stderr bytes.Buffer
	cmd.Stderr = &stderr
	out, _ := cmd.StdoutPipe()
	if err := cmd.Start(); err != nil {
		fmt.Fprintf(w, "MONFAIL\th3e2e/child\tcannot start the child process: %v\t\n", err)
		return
	}
	last := "(start)"
	sc := bufio.NewScanner(out)
	sc.Buffer(make([]byte, 1<<20), 1<<24)
	done := false
	for sc.Scan() {
		ln := sc.Text()
		switch {
		case strings.HasPrefix(ln, "SCENARIO\t"):
			last = strings.TrimPrefix(ln, "SCENARIO\t")
		case ln == "CHILD-DONE":
			done = true
		default:
			fmt.Fprintln(w, ln)
		}
	}
	err := cmd.Wait()
	if !done {
		se := stderr.String()
		key := "h3e2e/child-died"
		desc := fmt.Sprintf("the process running the real server and client died (%v)", err)
		i := strings.Index(se, "panic:")
		if i < 0 {
			i = strings.Index(se, "fatal error:")
		}
		if i >= 0 {
			se = se[i:]
			// the key names the first frame of this module's http3 package on the panicking stack
			site := "unknown"
			if m := h3ePanicSite.FindStringSubmatch(se); m != nil {
				site = strings.NewReplacer("(", "", ")", "", "*", "").Replace(m[1])
			}
			key = "h3/panic/" + site
			first := se
			if j := strings.Index(first, "\n"); j >= 0 {
				first = first[:j]
			}
			desc = "the HTTP/3 server or client panicked (whole process down): " + first
		}
		if len(se) > 2500 {
			se = se[:2500]
		}
		fmt.Fprintf(w, "MONFAIL\t%s\t%s\tlast scenario: %s | %s\n", key, desc, last, strings.ReplaceAll(strings.ReplaceAll(se, "\n", " | "), "\t", " "))
	}
}

// ---------- TLS ----------

func h3eTLS() (*tls.Config, *tls.Config) {
	nb, na := time.Date(1990, 1, 1, 0, 0, 0, 0, time.UTC), time.Date(2100, 1, 1, 0, 0, 0, 0, time.UTC)
	mk := func(tmpl, parent *x509.Certificate, parentKey *ecdsa.PrivateKey) (*x509.Certificate, *ecdsa.PrivateKey) {
		key, err := ecdsa.GenerateKey(elliptic.P256(), crand.Reader)
		if err != nil {
			panic(err)
		}
		if parent == nil {
			parent, parentKey = tmpl, key
		}
		der, err := x509.CreateCertificate(crand.Reader, tmpl, parent, &key.PublicKey, parentKey)
		if err != nil {
			panic(err)
		}
		c, err := x509.ParseCertificate(der)
		if err != nil {
			panic(err)
		}
		return c, key
	}
	ca, caKey := mk(&x509.Certificate{SerialNumber: big.NewInt(2019), Subject: pkix.Name{CommonName: "verif-h3-ca"}, NotBefore: nb, NotAfter: na, IsCA: true,
		KeyUsage: x509.KeyUsageDigitalSignature | x509.KeyUsageCertSign, BasicConstraintsValid: true}, nil, nil)
	leaf, leafKey := mk(&x509.Certificate{SerialNumber: big.NewInt(1), DNSNames: []string{"localhost"}, IPAddresses: []net.IP{net.IPv4(127, 0, 0, 1)},
		NotBefore: nb, NotAfter: na, KeyUsage: x509.KeyUsageDigitalSignature, ExtKeyUsage: []x509.ExtKeyUsage{x509.ExtKeyUsageServerAuth}}, ca, caKey)
	pool := x509.NewCertPool()
	pool.AddCert(ca)
	return &tls.Config{Certificates: []tls.Certificate{{Certificate: [][]byte{leaf.Raw}, PrivateKey: leafKey}}, NextProtos: []string{http3.NextProtoH3}},
		&tls.Config{ServerName: "localhost", RootCAs: pool, NextProtos: []string{http3.NextProtoH3}}
}

// ---------- a packet-dropping UDP relay ----------

type h3eRelay struct {
	front  *net.UDPConn // clients talk to this
	server *net.UDPAddr
	mu     sync.Mutex
	back   map[string]*net.UDPConn
	rng    *u.Rng
	dropPM int // drops per mille
	closed bool
}

func h3eNewRelay(server *net.UDPAddr, rng *u.Rng, dropPM int) *h3eRelay {
	front, err := net.ListenUDP("udp4", &net.UDPAddr{IP: net.IPv4(127, 0, 0, 1)})
	if err != nil {
		panic(err)
	}
	r := &h3eRelay{front: front, server: server, back: map[string]*net.UDPConn{}, rng: rng, dropPM: dropPM}
	go func() {
		buf := make([]byte, 65536)
		for {
			n, from, err := front.ReadFromUDP(buf)
			if err != nil {
				return
			}
			if r.drop() {
				continue
			}
			r.mu.Lock()
			bc := r.back[from.String()]
			if bc == nil && !r.closed {
				bc, err = net.DialUDP("udp4", nil, server)
				if err == nil {
					r.back[from.String()] = bc
					go func(bc *net.UDPConn, to *net.UDPAddr) {
						b2 := make([]byte, 65536)
						for {
							m, err := bc.Read(b2)
							if err != nil {
								return
							}
							if r.drop() {
								continue
							}
							front.WriteToUDP(b2[:m], to)
						}
					}(bc, from)
				}
			}
			r.mu.Unlock()
			if bc != nil {
				bc.Write(buf[:n])
			}
		}
	}()
	return r
}

func (r *h3eRelay) drop() bool {
	r.mu.Lock()
	defer r.mu.Unlock()
	return r.rng.Intn(1000) < r.dropPM
}

func (r *h3eRelay) Close() {
	r.mu.Lock()
	r.closed = true
	for _, c := range r.back {
		c.Close()
	}
	r.mu.Unlock()
	r.front.Close()
}

// ---------- generated exchanges ----------

type h3eSpec struct {
	id           int
	method       string
	query        string
	reqHdr       [][2]string
	reqBody      []byte
	reqChunks    []int
	reqDeclCL    bool
	reqTrailer   [][2]string
	status       int
	early        bool
	respHdr      [][2]string
	respBody     []byte
	respChunks   []int
	respDeclCL   bool
	respTrDecl   [][2]string
	respTrUndecl [][2]string
	gzip         bool   // the handler answers with Content-Encoding: gzip (pre-compressed representation)
	respGz       []byte // the compressed bytes it writes
	fakeCL       int    // 204-less: a 304 response declaring the Content-Length of the representation, without content
}

func h3eShort(hs [][2]string) string {
	var o []string
	for _, h := range hs {
		v := h[1]
		if len(v) > 40 {
			v = fmt.Sprintf("%s...(%d chars)", v[:12], len(v))
		}
		o = append(o, fmt.Sprintf("%s: %q", h[0], v))
	}
	return "[" + strings.Join(o, ", ") + "]"
}

func (s *h3eSpec) String() string {
	return fmt.Sprintf("{id=%d %s ?%s reqHdr=%s reqBody=%dB declCL=%v reqTrailer=%s -> %d early=%v respHdr=%s respBody=%dB declCL=%v trailers=%s+%s gzip=%v fakeCL=%d}",
		s.id, s.method, s.query, h3eShort(s.reqHdr), len(s.reqBody), s.reqDeclCL, h3eShort(s.reqTrailer), s.status, s.early, h3eShort(s.respHdr), len(s.respBody), s.respDeclCL, h3eShort(s.respTrDecl), h3eShort(s.respTrUndecl), s.gzip, s.fakeCL)
}

type h3eSeen struct {
	method, path, query, proto, host string
	hdr                              http.Header
	body                             []byte
	bodyErr                          error
	trailer                          http.Header
	cl                               int64
}

func h3eValue(r *u.Rng) string {
	const al = "abcdefghijklmnopqrstuvwxyzABCDEFGHIJKLMNOPQRSTUVWXYZ0123456789-_.~!*'();:@&=+$,/?#[] %\"<>"
	switch r.Intn(8) {
	case 0:
		return ""
	case 1:
		return "a, b,c"
	case 2:
		return strings.Repeat("v", r.Range(100, 3000))
	}
	n := r.Range(1, 24)
	b := make([]byte, n)
	for i := range b {
		b[i] = al[r.Intn(len(al))]
	}
	return strings.TrimSpace(string(b))
}

func h3eBody(r *u.Rng, thorough bool) []byte {
	var n int
	switch c := r.Intn(16); {
	case c < 3:
		n = 0
	case c < 8:
		n = r.Range(1, 200)
	case c < 12:
		n = r.Range(200, 20000)
	case c < 15:
		n = int(r.Pick(16383, 16384, 65535, 65536, 100000))
	default:
		n = 256 << 10
		if !thorough && r.Bool() {
			n = 128 << 10
		}
	}
	b := make([]byte, n)
	x := r.U64() | 1
	for i := range b {
		x = x*6364136223846793005 + 1442695040888963407
		b[i] = byte(x >> 56)
	}
	return b
}

func h3eChunks(r *u.Rng, total int) []int {
	var c []int
	mode := r.Intn(4)
	for total > 0 {
		var k int
		switch mode {
		case 0:
			k = total
		case 1:
			k = r.Range(1, 100)
		case 2:
			k = r.Range(1, 70000)
		default:
			k = int(r.Pick(1, 1000, 1200, 4096, 32768))
		}
		k = min(k, total)
		c = append(c, k)
		total -= k
		if len(c) > 400 {
			mode = 0
		}
	}
	return c
}

func h3eGenSpec(r *u.Rng, id int, thorough bool) *h3eSpec {
	s := &h3eSpec{id: id}
	s.method = []string{"GET", "POST", "POST", "PUT", "DELETE", "PATCH", "HEAD", "OPTIONS"}[r.Intn(8)]
	s.query = []string{"", "a=1&b=2", "q=%20x%2F&r=%C3%A9", "x", "k=v&k=w"}[r.Intn(5)]
	reqNames := []string{"X-A", "X-B", "X-Long-Header-Name-For-Test", "Accept", "Accept-Language", "Cookie", "Cookie", "X-Dup", "X-Dup", "Cache-Control", "Authorization", "Te"}
	for k := r.Range(0, 8); k > 0; k-- {
		nm := reqNames[r.Intn(len(reqNames))]
		v := h3eValue(r)
		if nm == "Cookie" {
			v = fmt.Sprintf("c%d=%d", r.Intn(5), r.Intn(1000))
		}
		if nm == "Te" {
			v = "trailers"
		}
		s.reqHdr = append(s.reqHdr, [2]string{nm, v})
	}
	// fields that switch the transport's automatic "accept-encoding: gzip" off
	if r.Chance(1, 6) {
		s.reqHdr = append(s.reqHdr, [2]string{"Range", "bytes=0-"})
	}
	if r.Chance(1, 6) {
		s.reqHdr = append(s.reqHdr, [2]string{"Accept-Encoding", []string{"identity", "gzip", "br, gzip;q=0.5"}[r.Intn(3)]})
	}
	if s.method != "GET" && s.method != "HEAD" && s.method != "OPTIONS" && s.method != "DELETE" || r.Chance(1, 6) {
		s.reqBody = h3eBody(r, thorough)
	}
	s.reqChunks = h3eChunks(r, len(s.reqBody))
	s.reqDeclCL = r.Bool()
	if len(s.reqBody) > 0 && r.Chance(1, 3) {
		for k := r.Range(1, 3); k > 0; k-- {
			s.reqTrailer = append(s.reqTrailer, [2]string{[]string{"X-Rt1", "X-Rt2", "X-Checksum"}[r.Intn(3)], h3eValue(r)})
		}
	}
	s.status = int(r.Pick(200, 200, 200, 201, 204, 304, 404, 500, 206, 418))
	s.early = r.Chance(1, 8)
	respNames := []string{"X-R1", "X-R2", "Set-Cookie", "Set-Cookie", "Content-Type", "Cache-Control", "Vary", "Vary", "X-Dup", "Etag"}
	for k := r.Range(0, 7); k > 0; k-- {
		nm := respNames[r.Intn(len(respNames))]
		v := h3eValue(r)
		if nm == "Content-Type" {
			v = "application/x-verif"
			dup := false
			for _, h := range s.respHdr {
				dup = dup || h[0] == nm
			}
			if dup {
				continue
			}
		}
		s.respHdr = append(s.respHdr, [2]string{nm, v})
	}
	bodyAllowed := s.status != 204 && s.status != 304
	if s.status == 304 && r.Bool() {
		s.fakeCL = r.Range(1, 100000)
	}
	if bodyAllowed {
		s.respBody = h3eBody(r, thorough)
		s.respChunks = h3eChunks(r, len(s.respBody))
		s.respDeclCL = r.Chance(1, 3)
		s.gzip = len(s.respBody) > 0 && (r.Chance(1, 6) || s.method == "HEAD" && r.Bool())
		if s.gzip {
			s.regz()
			if s.method == "HEAD" || r.Bool() {
				s.respDeclCL = true
			}
		}
		if r.Chance(1, 3) {
			for k := r.Range(1, 2); k > 0; k-- {
				s.respTrDecl = append(s.respTrDecl, [2]string{[]string{"X-T1", "X-T2"}[r.Intn(2)], h3eValue(r)})
			}
		}
		if r.Chance(1, 4) {
			s.respTrUndecl = append(s.respTrUndecl, [2]string{"X-Tu", h3eValue(r)})
		}
	}
	return s
}

// h3eFixedGzipSpecs: responses that are a gzip representation -- one member or several
// concatenated members (RFC 1952 2.2: a gzip file is a series of members) -- with declared and
// undeclared trailers behind the body, for GET (transparently decoded when the transport asked
// for gzip itself) and HEAD.
func h3eFixedGzipSpecs(id *int) []*h3eSpec {
	gz := func(b []byte) []byte {
		var zb bytes.Buffer
		zw := gzip.NewWriter(&zb)
		zw.Write(b)
		zw.Close()
		return zb.Bytes()
	}
	pat := func(n int, seed byte) []byte {
		b := make([]byte, n)
		for i := range b {
			b[i] = byte(i*7) ^ seed
		}
		return b
	}
	var out []*h3eSpec
	for _, method := range []string{"GET", "HEAD"} {
		for _, members := range []int{1, 2, 3} {
			for _, size := range []int{1, 700, 40000} {
				for _, trailers := range []int{0, 1, 2} {
					*id++
					s := &h3eSpec{id: *id, method: method, status: 200, gzip: true, respDeclCL: members == 1 && trailers == 0,
						respHdr: [][2]string{{"Content-Type", "application/x-verif"}, {"Vary", "Accept-Encoding"}}}
					for m := 0; m < members; m++ {
						part := pat(size, byte(m+1))
						s.respBody = append(s.respBody, part...)
						s.respGz = append(s.respGz, gz(part)...)
					}
					if trailers >= 1 {
						s.respTrDecl = [][2]string{{"X-T1", "after-the-gzip-body"}}
					}
					if trailers == 2 {
						s.respTrUndecl = [][2]string{{"X-Tu", "undeclared"}}
					}
					out = append(out, s)
				}
			}
		}
	}
	return out
}

// regz (re)computes the compressed representation after the body was set or cut.
func (s *h3eSpec) regz() {
	if !s.gzip {
		return
	}
	var zb bytes.Buffer
	zw := gzip.NewWriter(&zb)
	zw.Write(s.respBody)
	zw.Close()
	s.respGz = zb.Bytes()
}

func h3eGroup(hs [][2]string) map[string][]string {
	m := map[string][]string{}
	for _, h := range hs {
		k := textproto.CanonicalMIMEHeaderKey(h[0])
		m[k] = append(m[k], h[1])
	}
	return m
}

type h3eChunkReader struct {
	data   []byte
	chunks []int
	onEOF  func()
}

func (c *h3eChunkReader) Read(p []byte) (int, error) {
	if len(c.data) == 0 {
		if c.onEOF != nil {
			c.onEOF()
			c.onEOF = nil
		}
		return 0, io.EOF
	}
	k := len(c.data)
	if len(c.chunks) > 0 {
		k = c.chunks[0]
	}
	k = min(k, len(p), len(c.data))
	copy(p, c.data[:k])
	c.data = c.data[k:]
	if len(c.chunks) > 0 {
		c.chunks[0] -= k
		if c.chunks[0] <= 0 {
			c.chunks = c.chunks[1:]
		}
	}
	return k, nil
}

type h3eWorld struct {
	mu    sync.Mutex
	specs map[int]*h3eSpec
	seen  map[int]*h3eSeen
	w     *bufio.Writer
	wmu   sync.Mutex
	nDone int // exchanges whose response was read and checked
}

func (wd *h3eWorld) fail(key, desc, detail string) {
	wd.wmu.Lock()
	defer wd.wmu.Unlock()
	detail = strings.ReplaceAll(strings.ReplaceAll(detail, "\n", " "), "\t", " ")
	if len(detail) > 6000 {
		detail = detail[:6000] + "..."
	}
	fmt.Fprintf(wd.w, "MONFAIL\t%s\t%s\t%s\n", key, desc, detail)
}

func (wd *h3eWorld) line(format string, a ...any) {
	wd.wmu.Lock()
	defer wd.wmu.Unlock()
	fmt.Fprintf(wd.w, format+"\n", a...)
	wd.w.Flush()
}

func (wd *h3eWorld) handler(w http.ResponseWriter, r *http.Request) {
	if strings.HasPrefix(r.URL.Path, "/raw/") { // used by the raw-client scenarios
		b, err := io.ReadAll(r.Body)
		id, _ := strconv.Atoi(strings.TrimPrefix(r.URL.Path, "/raw/"))
		wd.mu.Lock()
		wd.seen[id] = &h3eSeen{method: r.Method, body: b, bodyErr: err, hdr: r.Header.Clone(), trailer: r.Trailer.Clone(), cl: r.ContentLength}
		wd.mu.Unlock()
		w.Header().Set("X-Raw", "1")
		w.WriteHeader(200)
		w.Write([]byte("ok"))
		return
	}
	id, _ := strconv.Atoi(strings.TrimPrefix(r.URL.Path, "/e/"))
	wd.mu.Lock()
	s := wd.specs[id]
	wd.mu.Unlock()
	if s == nil {
		w.WriteHeader(599)
		return
	}
	b, err := io.ReadAll(r.Body)
	seen := &h3eSeen{method: r.Method, path: r.URL.Path, query: r.URL.RawQuery, proto: r.Proto, host: r.Host, hdr: r.Header.Clone(), body: b, bodyErr: err, trailer: r.Trailer.Clone(), cl: r.ContentLength}
	wd.mu.Lock()
	wd.seen[id] = seen
	wd.mu.Unlock()
	if s.early {
		w.Header().Set("Link", "</style.css>; rel=preload")
		w.WriteHeader(103)
		w.Header().Del("Link")
	}
	for _, h := range s.respHdr {
		w.Header().Add(h[0], h[1])
	}
	if len(s.respTrDecl) > 0 {
		var names []string
		for k := range h3eGroup(s.respTrDecl) {
			names = append(names, k)
		}
		sort.Strings(names)
		w.Header().Set("Trailer", strings.Join(names, ", "))
	}
	body := s.respBody
	chunks := append([]int{}, s.respChunks...)
	if s.gzip {
		body = s.respGz
		chunks = []int{len(body)/2 + 1, len(body)}
		w.Header().Set("Content-Encoding", "gzip")
	}
	if s.respDeclCL {
		w.Header().Set("Content-Length", strconv.Itoa(len(body)))
	}
	if s.fakeCL > 0 {
		w.Header().Set("Content-Length", strconv.Itoa(s.fakeCL))
	}
	w.WriteHeader(s.status)
	cr := &h3eChunkReader{data: body, chunks: chunks}
	buf := make([]byte, 70000)
	k := 0
	for {
		n, err := cr.Read(buf)
		if n > 0 {
			if _, werr := w.Write(buf[:n]); werr != nil {
				if !(s.method == "HEAD") {
					wd.fail("h3e2e/handler-write", "ResponseWriter.Write failed in the handler: "+werr.Error(), s.String())
				}
				return
			}
			k++
			if k%3 == 0 {
				if f, ok := w.(http.Flusher); ok {
					f.Flush()
				}
			}
		}
		if err != nil {
			break
		}
	}
	for _, h := range s.respTrDecl {
		w.Header().Add(h[0], h[1])
	}
	for _, h := range s.respTrUndecl {
		w.Header().Add(http.TrailerPrefix+h[0], h[1])
	}
}

func h3eSum(b []byte) string { h := sha256.Sum256(b); return fmt.Sprintf("%d:%x", len(b), h[:6]) }

// one exchange through the real client; the reference check of both directions.
func (wd *h3eWorld) exchange(tr *http3.Transport, base string, s *h3eSpec, lossy bool) {
	wd.exchangeTagged(tr, base, s, fmt.Sprintf("lossy=%v", lossy))
}

func (wd *h3eWorld) exchangeTagged(tr *http3.Transport, base string, s *h3eSpec, env string) {
	tag := fmt.Sprintf("%s disableCompression=%v %s", env, tr.DisableCompression, s)
	appSet := h3eGroup(s.reqHdr)
	_, appAE := appSet["Accept-Encoding"]
	_, appRange := appSet["Range"]
	// RequestStream.sendRequestHeader's documented rule for transparent compression
	autoGzip := !tr.DisableCompression && s.method != "HEAD" && !appAE && !appRange
	transparent := autoGzip && s.gzip // the client decodes the gzip response and rewrites its header
	url := fmt.Sprintf("%s/e/%d", base, s.id)
	if s.query != "" {
		url += "?" + s.query
	}
	var body io.Reader
	var req *http.Request
	if len(s.reqBody) > 0 || s.reqDeclCL && s.method == "POST" {
		cr := &h3eChunkReader{data: s.reqBody, chunks: append([]int{}, s.reqChunks...)}
		cr.onEOF = func() {
			for _, h := range s.reqTrailer {
				req.Trailer.Add(h[0], h[1])
			}
		}
		body = cr
	}
	ctx, cancel := context.WithTimeout(context.Background(), 120*time.Second)
	defer cancel()
	var got1xx []int
	var got1xxLink string
	ctx = httptrace.WithClientTrace(ctx, &httptrace.ClientTrace{Got1xxResponse: func(code int, h textproto.MIMEHeader) error {
		got1xx = append(got1xx, code)
		got1xxLink = h.Get("Link")
		return nil
	}})
	req, err := http.NewRequestWithContext(ctx, s.method, url, body)
	if err != nil {
		wd.fail("h3e2e/harness", "cannot build request: "+err.Error(), tag)
		return
	}
	if body != nil && s.reqDeclCL {
		req.ContentLength = int64(len(s.reqBody))
	}
	for _, h := range s.reqHdr {
		req.Header.Add(h[0], h[1])
	}
	if len(s.reqTrailer) > 0 {
		req.Trailer = http.Header{}
		for k := range h3eGroup(s.reqTrailer) {
			req.Trailer[k] = nil
		}
	}
	res, err := tr.RoundTrip(req)
	if err != nil {
		wd.fail("h3e2e/roundtrip-error", "RoundTrip of a valid request failed: "+err.Error(), tag)
		return
	}
	rb, rerr := io.ReadAll(res.Body)
	res.Body.Close()
	wd.mu.Lock()
	wd.nDone++
	wd.mu.Unlock()
	// ---- what the handler saw ----
	wd.mu.Lock()
	seen := wd.seen[s.id]
	wd.mu.Unlock()
	if seen == nil {
		wd.fail("h3e2e/request-altered", "the handler never saw the request", tag)
	} else {
		var bad []string
		if seen.method != s.method {
			bad = append(bad, fmt.Sprintf("method %q", seen.method))
		}
		if seen.path != fmt.Sprintf("/e/%d", s.id) || seen.query != s.query {
			bad = append(bad, fmt.Sprintf("url %q?%q", seen.path, seen.query))
		}
		if seen.proto != "HTTP/3.0" {
			bad = append(bad, "proto "+seen.proto)
		}
		want := h3eGroup(s.reqHdr)
		if c, ok := want["Cookie"]; ok {
			want["Cookie"] = []string{strings.Join(c, "; ")}
		}
		for k, v := range want {
			if fmt.Sprint(seen.hdr[k]) != fmt.Sprint(v) {
				bad = append(bad, fmt.Sprintf("header %s: handler saw %q, client sent %q", k, seen.hdr[k], v))
			}
		}
		// the documented automatic fields: accept-encoding: gzip (compression enabled, not HEAD, the
		// application set neither Accept-Encoding nor Range), a default User-Agent, Content-Length, Trailer
		if autoGzip {
			want["Accept-Encoding"] = []string{"gzip"}
			if fmt.Sprint(seen.hdr["Accept-Encoding"]) != "[gzip]" {
				bad = append(bad, fmt.Sprintf("automatic accept-encoding: handler saw %q", seen.hdr["Accept-Encoding"]))
			}
		}
		for k, v := range seen.hdr {
			if _, ok := want[k]; !ok && k != "User-Agent" && k != "Content-Length" && k != "Trailer" {
				bad = append(bad, fmt.Sprintf("handler saw a header the client application did not set: %s=%q", k, v))
			}
		}
		if seen.bodyErr != nil || !bytes.Equal(seen.body, s.reqBody) {
			bad = append(bad, fmt.Sprintf("body: handler read %s err=%v, client sent %s", h3eSum(seen.body), seen.bodyErr, h3eSum(s.reqBody)))
		}
		if body != nil && s.reqDeclCL && len(s.reqBody) > 0 && seen.cl != int64(len(s.reqBody)) {
			bad = append(bad, fmt.Sprintf("ContentLength %d", seen.cl))
		}
		wt := h3eGroup(s.reqTrailer)
		for k, v := range wt {
			if fmt.Sprint(seen.trailer[k]) != fmt.Sprint(v) {
				bad = append(bad, fmt.Sprintf("trailer %s: handler saw %q, client sent %q", k, seen.trailer[k], v))
			}
		}
		for k, v := range seen.trailer {
			if _, ok := wt[k]; !ok {
				bad = append(bad, fmt.Sprintf("handler saw a trailer that was not sent: %s=%q", k, v))
			}
		}
		if len(bad) > 0 {
			wd.fail("h3e2e/request-altered", "the handler did not see exactly what the client sent: "+strings.Join(bad, "; "), tag)
		}
	}
	// ---- what the client saw ----
	var bad []string
	if res.StatusCode != s.status {
		bad = append(bad, fmt.Sprintf("status %d", res.StatusCode))
	}
	want := h3eGroup(s.respHdr)
	written := s.respBody // the bytes the handler writes
	if s.gzip {
		written = s.respGz
		if !transparent {
			want["Content-Encoding"] = []string{"gzip"}
		}
	}
	for k, v := range want {
		if fmt.Sprint(res.Header[k]) != fmt.Sprint(v) {
			bad = append(bad, fmt.Sprintf("header %s: client saw %q, handler wrote %q", k, res.Header[k], v))
		}
	}
	for k, v := range res.Header {
		if _, ok := want[k]; !ok && k != "Content-Type" && k != "Date" && k != "Content-Length" && k != "Trailer" {
			bad = append(bad, fmt.Sprintf("client saw a header the handler did not write: %s=%q", k, v))
		}
	}
	wantBody := written
	if transparent {
		wantBody = s.respBody
	}
	if s.method == "HEAD" {
		wantBody = nil
	}
	if rerr != nil || !bytes.Equal(rb, wantBody) {
		bad = append(bad, fmt.Sprintf("body: client read %s err=%v, want %s (handler wrote %s, transparent gzip=%v)", h3eSum(rb), rerr, h3eSum(wantBody), h3eSum(written), transparent))
	}
	if res.Uncompressed != transparent {
		bad = append(bad, fmt.Sprintf("Uncompressed=%v although transparent gzip decoding applies=%v (method %s, handler Content-Encoding gzip=%v)", res.Uncompressed, transparent, s.method, s.gzip))
	}
	// Content-Length: as declared by the handler, except under the documented transparent-gzip rewriting
	declared := -1
	if s.respDeclCL {
		declared = len(written)
	}
	if s.fakeCL > 0 {
		declared = s.fakeCL
	}
	switch {
	case transparent:
		if res.ContentLength != -1 || res.Header.Get("Content-Length") != "" {
			bad = append(bad, fmt.Sprintf("transparently decoded gzip response still carries a length: ContentLength=%d header %q", res.ContentLength, res.Header["Content-Length"]))
		}
	case declared >= 0:
		if res.ContentLength != int64(declared) || res.Header.Get("Content-Length") != strconv.Itoa(declared) {
			bad = append(bad, fmt.Sprintf("Content-Length: client saw ContentLength=%d header %q, handler declared %d", res.ContentLength, res.Header["Content-Length"], declared))
		}
	}
	if s.method != "HEAD" {
		wt := h3eGroup(append(append([][2]string{}, s.respTrDecl...), s.respTrUndecl...))
		for k, v := range wt {
			if fmt.Sprint(res.Trailer[k]) != fmt.Sprint(v) {
				bad = append(bad, fmt.Sprintf("trailer %s: client saw %q, handler wrote %q", k, res.Trailer[k], v))
			}
		}
		for k, v := range res.Trailer {
			if _, ok := wt[k]; !ok {
				bad = append(bad, fmt.Sprintf("client saw a trailer the handler did not write: %s=%q", k, v))
			}
		}
	}
	if s.early && !(len(got1xx) == 1 && got1xx[0] == 103 && got1xxLink != "") {
		bad = append(bad, fmt.Sprintf("103 early hints: client trace saw %v link=%q", got1xx, got1xxLink))
	}
	if !s.early && len(got1xx) > 0 {
		bad = append(bad, fmt.Sprintf("unexpected 1xx %v", got1xx))
	}
	if len(bad) > 0 {
		wd.fail("h3e2e/response-altered", "the client did not see exactly what the handler wrote: "+strings.Join(bad, "; "), tag)
	}
}

// ---------- raw peers ----------

func h3eFrame(t uint64, payload []byte) []byte {
	b := quicvarint.Append(nil, t)
	b = quicvarint.Append(b, uint64(len(payload)))
	return append(b, payload...)
}

func h3eHeaders(fields ...string) []byte {
	var buf bytes.Buffer
	enc := qpack.NewEncoder(&buf)
	for i := 0; i+1 < len(fields); i += 2 {
		enc.WriteField(qpack.HeaderField{Name: fields[i], Value: fields[i+1]})
	}
	return h3eFrame(0x1, buf.Bytes())
}

func h3eReqHeaders(path string, extra ...string) []byte {
	return h3eHeaders(append([]string{":method", "POST", ":scheme", "https", ":authority", "localhost", ":path", path}, extra...)...)
}

type h3eRawResult struct {
	status  string // ":status" of the response, "" if none
	body    []byte
	readErr error
	connErr error // error the connection died with (nil if alive at the end)
	appCode int64 // application error code of connErr, -1 if none
	strCode int64 // stream error code of readErr, -1 if none
}

// h3eReadResponse parses HEADERS (+DATA*) from a raw stream.
func h3eReadResponse(str io.Reader) (status string, body []byte, err error) {
	br := quicvarint.NewReader(str)
	for {
		t, e := quicvarint.Read(br)
		if e != nil {
			return status, body, e
		}
		l, e := quicvarint.Read(br)
		if e != nil {
			return status, body, e
		}
		p := make([]byte, l)
		if _, e := io.ReadFull(br, p); e != nil {
			return status, body, e
		}
		switch t {
		case 0x1:
			dec := qpack.NewDecoder().Decode(p)
			for {
				hf, e := dec()
				if e != nil {
					break
				}
				if hf.Name == ":status" && status == "" {
					status = hf.Value
				}
			}
		case 0x0:
			body = append(body, p...)
		}
	}
}

func h3eCodes(err error) (app, str int64) {
	app, str = -1, -1
	var ae *quic.ApplicationError
	if errors.As(err, &ae) {
		app = int64(ae.ErrorCode)
	}
	var se *quic.StreamError
	if errors.As(err, &se) {
		str = int64(se.ErrorCode)
	}
	return
}

// rawClient runs one scripted client connection against the real server.
// uni: payloads of unidirectional streams to open first; req: bytes of the request stream;
// fin: close the request stream after writing; reset: reset it instead.
func h3eRawClient(addr string, ctls *tls.Config, uni [][]byte, req []byte, fin bool, reset bool, wait time.Duration) h3eRawResult {
	res := h3eRawResult{appCode: -1, strCode: -1}
	ctx, cancel := context.WithTimeout(context.Background(), 20*time.Second)
	defer cancel()
	conn, err := quic.DialAddr(ctx, addr, ctls.Clone(), &quic.Config{EnableDatagrams: true})
	if err != nil {
		res.connErr = err
		return res
	}
	defer conn.CloseWithError(0x100, "")
	for _, p := range uni {
		us, err := conn.OpenUniStream()
		if err != nil {
			res.connErr = err
			return res
		}
		us.Write(p)
	}
	if req != nil {
		str, err := conn.OpenStreamSync(ctx)
		if err != nil {
			res.connErr = err
			res.appCode, _ = h3eCodes(err)
			return res
		}
		str.Write(req)
		if reset {
			str.CancelWrite(0x10c)
		} else if fin {
			str.Close()
		}
		str.SetReadDeadline(time.Now().Add(wait))
		res.status, res.body, res.readErr = h3eReadResponse(str)
		_, res.strCode = h3eCodes(res.readErr)
		if a, _ := h3eCodes(res.readErr); a >= 0 {
			res.appCode = a
		}
	} else {
		select {
		case <-conn.Context().Done():
		case <-time.After(wait):
		}
	}
	select {
	case <-conn.Context().Done():
		res.connErr = context.Cause(conn.Context())
		if a, _ := h3eCodes(res.connErr); a >= 0 {
			res.appCode = a
		}
	case <-time.After(50 * time.Millisecond):
	}
	return res
}

func (wd *h3eWorld) rawClientScenarios(addr string, ctls *tls.Config, r *u.Rng, n int) {
	ctrl := func(settings []byte) []byte { return append([]byte{0x00}, settings...) }
	okSettings := h3eFrame(0x4, nil)
	grease := func() uint64 { return 0x1f*uint64(r.Intn(1<<16)) + 0x21 }
	type scen struct {
		name        string
		uni         [][]byte
		req         []byte
		fin, reset  bool
		wantStatus  string // "" = no response expected
		wantBody    []byte // body the handler must see (when wantStatus == "200")
		wantApp     int64  // connection must be closed with this code; -1 = must stay alive; -2 = don't care
		id          int
		wantTrailer [][2]string // trailer fields (sent WITHOUT a Trailer header field announcing them) the handler must see
	}
	id := 100000
	mk := func() []scen {
		var out []scen
		newID := func() (int, string) { id++; return id, fmt.Sprintf("/raw/%d", id) }
		body := r.Bytes(r.Range(1, 3000))
		half := len(body) / 2
		// unknown frames everywhere, GREASE stream types: must be ignored
		id1, p := newID()
		req := append([]byte{}, h3eFrame(grease(), r.Bytes(r.Range(0, 30)))...)
		req = append(req, h3eReqHeaders(p)...)
		req = append(req, h3eFrame(grease(), r.Bytes(r.Range(0, 9000)))...)
		req = append(req, h3eFrame(0x0, body[:half])...)
		req = append(req, h3eFrame(0x3, []byte{1})...)
		req = append(req, h3eFrame(0xd, []byte{2})...)
		req = append(req, h3eFrame(0x0, nil)...)
		req = append(req, h3eFrame(uint64(r.Range(0xe, 0x3f)), nil)...)
		req = append(req, h3eFrame(0x0, body[half:])...)
		req = append(req, h3eFrame(grease(), nil)...)
		out = append(out, scen{name: "unknown-frames-and-stream-types", uni: [][]byte{ctrl(okSettings), quicvarint.Append(nil, grease()), append(quicvarint.Append(nil, 0x55), r.Bytes(20)...), {0x02}, {0x03}},
			req: req, fin: true, wantStatus: "200", wantBody: body, wantApp: -1, id: id1})
		// reserved frame types on the request stream
		for _, t := range []uint64{0x2, 0x6, 0x8, 0x9} {
			_, p := newID()
			pos := r.Intn(3)
			var req []byte
			if pos == 0 {
				req = append(req, h3eFrame(t, r.Bytes(r.Range(0, 5)))...)
			}
			req = append(req, h3eReqHeaders(p)...)
			if pos == 1 {
				req = append(req, h3eFrame(t, nil)...)
			}
			req = append(req, h3eFrame(0x0, body[:half])...)
			if pos == 2 {
				req = append(req, h3eFrame(t, r.Bytes(3))...)
			}
			out = append(out, scen{name: fmt.Sprintf("reserved-frame-%#x-at-%d", t, pos), uni: [][]byte{ctrl(okSettings)}, req: req, fin: true, wantApp: 0x105})
		}
		// frames in forbidden places
		_, p = newID()
		out = append(out, scen{name: "data-before-headers", req: append(h3eFrame(0x0, []byte("x")), h3eReqHeaders(p)...), fin: true, wantApp: 0x105})
		_, p = newID()
		out = append(out, scen{name: "settings-on-request-stream", req: append(append(h3eReqHeaders(p), okSettings...), h3eFrame(0, body)...), fin: true, wantApp: 0x105})
		_, p = newID()
		out = append(out, scen{name: "goaway-on-request-stream", req: append(append(h3eReqHeaders(p), h3eFrame(0x7, []byte{0})...), h3eFrame(0, body)...), fin: true, wantApp: 0x105})
		_, p = newID()
		out = append(out, scen{name: "data-after-trailers", req: append(append(append(h3eReqHeaders(p), h3eFrame(0, body)...), h3eHeaders("x-t", "1")...), h3eFrame(0, []byte("late"))...), fin: true, wantApp: -2})
		// control stream
		out = append(out, scen{name: "duplicate-setting", uni: [][]byte{ctrl(h3eFrame(0x4, []byte{0x21, 1, 0x21, 2}))}, wantApp: -2})
		out = append(out, scen{name: "bad-bool-setting", uni: [][]byte{ctrl(h3eFrame(0x4, []byte{0x33, 2}))}, wantApp: -2})
		out = append(out, scen{name: "oversize-settings", uni: [][]byte{ctrl(append(quicvarint.Append([]byte{0x4}, 9000), make([]byte, 9000)...))}, wantApp: -2})
		out = append(out, scen{name: "first-control-frame-not-settings", uni: [][]byte{ctrl(h3eFrame(0x7, []byte{0}))}, wantApp: 0x10a})
		out = append(out, scen{name: "two-control-streams", uni: [][]byte{ctrl(okSettings), ctrl(okSettings)}, wantApp: 0x103})
		out = append(out, scen{name: "reserved-frame-on-control-stream", uni: [][]byte{ctrl(append(append([]byte{}, okSettings...), h3eFrame(0x2, nil)...))}, wantApp: 0x105})
		out = append(out, scen{name: "client-push-stream", uni: [][]byte{ctrl(okSettings), {0x01, 0x00}}, wantApp: 0x103})
		out = append(out, scen{name: "truncated-control-stream", uni: [][]byte{{0x00, 0x04}}, wantApp: -2})
		// malformed / truncated requests
		_, p = newID()
		full := append(h3eReqHeaders(p), h3eFrame(0, body)...)
		idt, pt := newID()
		out = append(out, scen{name: "truncated-data-frame", id: idt, uni: [][]byte{ctrl(okSettings)},
			req: append(append(h3eReqHeaders(pt), quicvarint.Append([]byte{0x0}, 100)...), body[:min(40, len(body))]...), fin: true, wantApp: 0x106})
		idt2, pt2 := newID()
		out = append(out, scen{name: "truncated-unknown-frame", id: idt2, uni: [][]byte{ctrl(okSettings)},
			req: append(append(append(h3eReqHeaders(pt2), h3eFrame(0, body)...), quicvarint.Append(quicvarint.Append(nil, grease()), 50)...), 1, 2, 3), fin: true, wantApp: 0x106})
		out = append(out, scen{name: "truncated-request", req: full[:r.Range(1, len(full)-1)], fin: true, wantApp: -2})
		out = append(out, scen{name: "garbage-qpack", req: h3eFrame(0x1, r.Bytes(r.Range(1, 40))), fin: true, wantApp: -2})
		out = append(out, scen{name: "random-bytes", req: r.Bytes(r.Range(1, 200)), fin: true, wantApp: -2})
		out = append(out, scen{name: "huge-frame-length", req: append(quicvarint.Append([]byte{0x1}, 1<<61), 1, 2, 3), fin: true, wantApp: -2})
		_, p = newID()
		out = append(out, scen{name: "reset-mid-body", req: append(h3eReqHeaders(p, "content-length", "100000"), h3eFrame(0, body)...), reset: true, wantApp: -2})
		out = append(out, scen{name: "empty-stream", req: []byte{}, fin: true, wantApp: -2})
		_, p = newID()
		out = append(out, scen{name: "headers-only-no-fin", req: h3eReqHeaders(p), wantApp: -2})
		// trailers + unknown frames after them: fine
		id2, p := newID()
		out = append(out, scen{name: "trailers-then-unknown", id: id2, uni: [][]byte{ctrl(okSettings)}, req: append(append(append(h3eReqHeaders(p), h3eFrame(0, body)...), h3eHeaders("x-t", "1")...), h3eFrame(grease(), []byte{1, 2})...), fin: true, wantStatus: "200", wantBody: body, wantApp: -1,
			wantTrailer: [][2]string{{"X-T", "1"}}})
		id3, p3 := newID()
		out = append(out, scen{name: "undeclared-request-trailers", id: id3, uni: [][]byte{ctrl(okSettings)}, req: append(append(h3eReqHeaders(p3), h3eFrame(0, body)...), h3eHeaders("x-first", "1", "x-second", "one", "x-second", "two")...), fin: true, wantStatus: "200", wantBody: body, wantApp: -1,
			wantTrailer: [][2]string{{"X-First", "1"}, {"X-Second", "one"}, {"X-Second", "two"}}})
		return out
	}
	done := 0
	for done < n {
		for _, s := range mk() {
			if done >= n {
				break
			}
			done++
			wd.line("SCENARIO\traw-client/%s", s.name)
			wait := 300 * time.Millisecond
			if s.wantApp >= 0 || s.wantStatus != "" {
				wait = 4 * time.Second // returns as soon as the expected close / response arrives
			}
			if s.name == "reserved-frame-on-control-stream" {
				wait = 700 * time.Millisecond
			}
			res := h3eRawClient(addr, ctls, s.uni, s.req, s.fin, s.reset, wait)
			detail := fmt.Sprintf("scenario=%s uni=%x req=%s fin=%v reset=%v => status=%q body=%s readErr=%v connErr=%v", s.name, s.uni, h3trunc(s.req, 300), s.fin, s.reset, res.status, h3eSum(res.body), res.readErr, res.connErr)
			wd.line("DIST\traw-client/%s\t1", s.name)
			if s.wantApp >= 0 && res.appCode != s.wantApp {
				key := "h3e2e/forbidden-not-rejected"
				if strings.HasPrefix(s.name, "reserved-frame") {
					key = "h3e2e/reserved-not-rejected"
				}
				if s.name == "reserved-frame-on-control-stream" {
					key = "h3/server-control-stream-unread-after-settings"
				}
				if strings.HasPrefix(s.name, "truncated-") {
					key = "h3/truncated-frame-clean-eof"
				}
				wd.fail(key, fmt.Sprintf("the server did not close the connection with %#x (got application error %#x)", s.wantApp, res.appCode), detail)
			}
			if strings.HasPrefix(s.name, "truncated-data-frame") || strings.HasPrefix(s.name, "truncated-unknown-frame") {
				time.Sleep(20 * time.Millisecond)
				wd.mu.Lock()
				seen := wd.seen[s.id]
				wd.mu.Unlock()
				if seen != nil && seen.bodyErr == nil {
					wd.fail("h3/truncated-frame-clean-eof", fmt.Sprintf("request with a frame cut short by FIN (no Content-Length): the server's handler reads the body to a clean EOF (%d bytes, silently truncated)", len(seen.body)), detail)
				}
			}
			if s.wantApp == -1 && res.connErr != nil {
				wd.fail("h3e2e/unknown-not-ignored", "the connection died although only ignorable frames / stream types were sent: "+res.connErr.Error(), detail)
			}
			if s.wantStatus != "" {
				if res.status != s.wantStatus {
					wd.fail("h3e2e/unknown-not-ignored", "no "+s.wantStatus+" response to a request with interleaved ignorable frames", detail)
				}
				wd.mu.Lock()
				seen := wd.seen[s.id]
				wd.mu.Unlock()
				if seen == nil || seen.bodyErr != nil || !bytes.Equal(seen.body, s.wantBody) {
					if seen != nil {
						detail += fmt.Sprintf(" | handler read %s err=%v, sent %s", h3eSum(seen.body), seen.bodyErr, h3eSum(s.wantBody))
					} else {
						detail += " | handler never ran"
					}
					wd.fail("h3e2e/unknown-not-ignored", "the handler did not read exactly the DATA payloads of a request with interleaved ignorable frames", detail)
				} else if len(s.wantTrailer) > 0 {
					wt := h3eGroup(s.wantTrailer)
					okT := len(seen.trailer) == len(wt)
					for k, v := range wt {
						if fmt.Sprint(seen.trailer[k]) != fmt.Sprint(v) {
							okT = false
						}
					}
					if !okT {
						wd.fail("h3e2e/request-altered", fmt.Sprintf("the handler did not see exactly the request trailers the client sent (not announced in a Trailer header field): handler saw %q, client sent %q", seen.trailer, wt), detail)
					}
				}
			}
		}
	}
}

// the Content-Length findings, replayed on the real server (request body) ...
func (wd *h3eWorld) contentLengthServerSide(addr string, ctls *tls.Config) {
	for _, c := range []struct {
		name     string
		declared int
		frames   [][]byte
	}{
		{"under", 5, [][]byte{[]byte("abc")}},
		{"over", 2, [][]byte{[]byte("abc")}},
		{"over-second-frame", 3, [][]byte{[]byte("abc"), []byte("d")}},
		{"exact", 3, [][]byte{[]byte("a"), []byte("bc")}},
	} {
		wd.line("SCENARIO\tcontent-length/server/%s", c.name)
		id := 200000 + c.declared*10 + len(c.frames)
		if c.name == "under" {
			id = 200999
		}
		req := h3eReqHeaders(fmt.Sprintf("/raw/%d", id), "content-length", strconv.Itoa(c.declared))
		var sent []byte
		for _, f := range c.frames {
			req = append(req, h3eFrame(0, f)...)
			sent = append(sent, f...)
		}
		res := h3eRawClient(addr, ctls, [][]byte{append([]byte{0}, h3eFrame(4, nil)...)}, req, true, false, 4*time.Second)
		time.Sleep(20 * time.Millisecond)
		wd.mu.Lock()
		seen := wd.seen[id]
		wd.mu.Unlock()
		detail := fmt.Sprintf("raw client -> real server: POST content-length=%d, DATA frames %q, FIN => handler ReadAll(req.Body)=(%q, %v) status=%q readErr=%v", c.declared, c.frames, func() []byte {
			if seen == nil {
				return nil
			}
			return seen.body
		}(), func() error {
			if seen == nil {
				return errors.New("handler not called")
			}
			return seen.bodyErr
		}(), res.status, res.readErr)
		switch c.name {
		case "under":
			if seen != nil && seen.bodyErr == nil {
				wd.fail("h3/content-length-under", "request body shorter than its declared Content-Length: the server's handler reads it to a clean EOF (no error)", detail)
			}
		case "exact":
			if seen == nil || seen.bodyErr != nil || !bytes.Equal(seen.body, sent) {
				wd.fail("h3e2e/content-length-exact", "request body equal to its Content-Length not delivered intact", detail)
			}
		default:
			if seen == nil || seen.bodyErr == nil || len(seen.body) > c.declared {
				wd.fail("h3e2e/content-length-over", "request body longer than its declared Content-Length not reported as an error after the declared bytes", detail)
			}
		}
	}
}

// ... and on the real client (response body), against a raw scripted server.
type h3eRawServer struct {
	ln   *quic.Listener
	addr string
	mu   sync.Mutex
	resp func(reqNo int) (resp []byte, fin bool, uni [][]byte) // what to send on the n-th request stream
	n    int
	ends chan h3eReqEnd // how each request stream ended (bytes read, error)
}

type h3eReqEnd struct {
	n   int64
	err error
}

func h3eNewRawServer(stls *tls.Config) *h3eRawServer {
	ln, err := quic.ListenAddr("127.0.0.1:0", stls.Clone(), &quic.Config{EnableDatagrams: true})
	if err != nil {
		panic(err)
	}
	s := &h3eRawServer{ln: ln, addr: ln.Addr().String(), ends: make(chan h3eReqEnd, 256)}
	go func() {
		for {
			conn, err := ln.Accept(context.Background())
			if err != nil {
				return
			}
			go func() {
				first := true
				for {
					str, err := conn.AcceptStream(context.Background())
					if err != nil {
						return
					}
					s.mu.Lock()
					k := s.n
					s.n++
					f := s.resp
					s.mu.Unlock()
					resp, fin, uni := f(k)
					if first {
						first = false
						for _, p := range uni {
							if us, err := conn.OpenUniStream(); err == nil {
								us.Write(p)
							}
						}
					}
					go func() {
						go func() {
							// io.Copy hides io.EOF: a nil error means the stream ended with a clean FIN
							n, err := io.Copy(io.Discard, str)
							select {
							case s.ends <- h3eReqEnd{n, err}:
							default:
							}
						}()
						str.Write(resp)
						if fin {
							str.Close()
						}
					}()
				}
			}()
		}
	}()
	return s
}

func (wd *h3eWorld) rawServerScenarios(stls, ctls *tls.Config, r *u.Rng, n int) {
	rs := h3eNewRawServer(stls)
	defer rs.ln.Close()
	ctrlOK := append([]byte{0x00}, h3eFrame(0x4, nil)...)
	grease := func() uint64 { return 0x1f*uint64(r.Intn(1<<16)) + 0x21 }
	type scen struct {
		name      string
		resp      []byte
		fin       bool
		uni       [][]byte
		wantBody  []byte // non-nil: RoundTrip must succeed with wantCode (default 200) and exactly this body
		wantCode  int
		wantErr   bool // RoundTrip or body read must fail
		clUnder   bool
		truncated bool
	}
	body := r.Bytes(r.Range(1, 5000))
	half := len(body) / 2
	mk := func() []scen {
		var out []scen
		ok := h3eHeaders(":status", "200", "x-s", "1")
		resp := append([]byte{}, h3eFrame(grease(), r.Bytes(r.Range(0, 20)))...)
		resp = append(resp, ok...)
		resp = append(resp, h3eFrame(grease(), r.Bytes(r.Range(0, 9000)))...)
		resp = append(resp, h3eFrame(0, body[:half])...)
		resp = append(resp, h3eFrame(0x3, []byte{0})...)
		resp = append(resp, h3eFrame(0x5, []byte{0, 0})...)
		resp = append(resp, h3eFrame(0, nil)...)
		resp = append(resp, h3eFrame(0, body[half:])...)
		resp = append(resp, h3eHeaders("x-trailer", "t")...)
		resp = append(resp, h3eFrame(grease(), nil)...)
		out = append(out, scen{name: "unknown-frames-and-stream-types", resp: resp, fin: true, uni: [][]byte{ctrlOK, quicvarint.Append(nil, grease()), {0x02}, {0x03}}, wantBody: body})
		for _, t := range []uint64{0x2, 0x6, 0x8, 0x9} {
			pos := r.Intn(3)
			var resp []byte
			if pos == 0 {
				resp = append(resp, h3eFrame(t, nil)...)
			}
			resp = append(resp, ok...)
			if pos == 1 {
				resp = append(resp, h3eFrame(t, r.Bytes(2))...)
			}
			resp = append(resp, h3eFrame(0, body[:half])...)
			if pos == 2 {
				resp = append(resp, h3eFrame(t, nil)...)
			}
			resp = append(resp, h3eFrame(0, body[half:])...)
			out = append(out, scen{name: fmt.Sprintf("reserved-frame-%#x-at-%d", t, pos), resp: resp, fin: true, uni: [][]byte{ctrlOK}, wantErr: true})
		}
		out = append(out, scen{name: "data-before-headers", resp: append(h3eFrame(0, []byte("x")), ok...), fin: true, uni: [][]byte{ctrlOK}, wantErr: true})
		out = append(out, scen{name: "settings-in-response", resp: append(append(append([]byte{}, ok...), h3eFrame(4, nil)...), h3eFrame(0, body)...), fin: true, uni: [][]byte{ctrlOK}, wantErr: true})
		out = append(out, scen{name: "data-after-trailers", resp: append(append(append(append([]byte{}, ok...), h3eFrame(0, body)...), h3eHeaders("x-t", "1")...), h3eFrame(0, []byte("late"))...), fin: true, uni: [][]byte{ctrlOK}, wantErr: true})
		out = append(out, scen{name: "garbage-qpack", resp: h3eFrame(1, r.Bytes(r.Range(1, 30))), fin: true, uni: [][]byte{ctrlOK}, wantErr: true})
		out = append(out, scen{name: "random-bytes", resp: r.Bytes(r.Range(1, 100)), fin: true, uni: [][]byte{ctrlOK}, wantErr: true})
		out = append(out, scen{name: "empty-response", resp: nil, fin: true, uni: [][]byte{ctrlOK}, wantErr: true})
		out = append(out, scen{name: "bad-settings", resp: ok, fin: true, uni: [][]byte{append([]byte{0}, h3eFrame(4, []byte{0x8, 5})...)}, wantErr: false})
		out = append(out, scen{name: "server-opens-two-control-streams", resp: append(append([]byte{}, ok...), h3eFrame(0, body)...), fin: true, uni: [][]byte{ctrlOK, ctrlOK}, wantErr: false})
		out = append(out, scen{name: "status-1xx-then-200", resp: append(append(h3eHeaders(":status", "103", "link", "</x>"), ok...), h3eFrame(0, body)...), fin: true, uni: [][]byte{ctrlOK}, wantBody: body})
		out = append(out, scen{name: "content-length-exact", resp: append(h3eHeaders(":status", "200", "content-length", strconv.Itoa(len(body))), h3eFrame(0, body)...), fin: true, uni: [][]byte{ctrlOK}, wantBody: body})
		out = append(out, scen{name: "304-with-content-length-no-content", resp: h3eHeaders(":status", "304", "content-length", "12345", "etag", "x"), fin: true, uni: [][]byte{ctrlOK}, wantBody: []byte{}, wantCode: 304})
		out = append(out, scen{name: "content-length-over", resp: append(h3eHeaders(":status", "200", "content-length", strconv.Itoa(half)), h3eFrame(0, body)...), fin: true, uni: [][]byte{ctrlOK}, wantErr: true})
		out = append(out, scen{name: "truncated-data-frame", resp: append(append(append([]byte{}, ok...), quicvarint.Append([]byte{0x0}, uint64(len(body)+60))...), body...), fin: true, uni: [][]byte{ctrlOK}, truncated: true})
		out = append(out, scen{name: "truncated-unknown-frame", resp: append(append(append(append([]byte{}, ok...), h3eFrame(0, body)...), quicvarint.Append(quicvarint.Append(nil, grease()), 9)...), 1, 2), fin: true, uni: [][]byte{ctrlOK}, truncated: true})
		out = append(out, scen{name: "content-length-under", resp: append(h3eHeaders(":status", "200", "content-length", strconv.Itoa(len(body)+7)), h3eFrame(0, body)...), fin: true, uni: [][]byte{ctrlOK}, clUnder: true})
		return out
	}
	done := 0
	for done < n {
		for _, s := range mk() {
			if done >= n {
				break
			}
			done++
			wd.line("SCENARIO\traw-server/%s", s.name)
			wd.line("DIST\traw-server/%s\t1", s.name)
			rs.mu.Lock()
			sc := s
			rs.resp = func(int) ([]byte, bool, [][]byte) { return sc.resp, sc.fin, sc.uni }
			rs.mu.Unlock()
			tr := &http3.Transport{TLSClientConfig: ctls.Clone(), QUICConfig: &quic.Config{EnableDatagrams: true}}
			ctx, cancel := context.WithTimeout(context.Background(), 5*time.Second)
			req, _ := http.NewRequestWithContext(ctx, "GET", "https://"+strings.Replace(rs.addr, "127.0.0.1", "localhost", 1)+"/x", nil)
			res, err := tr.RoundTrip(req)
			var rb []byte
			var rerr error
			status := 0
			if err == nil {
				status = res.StatusCode
				rb, rerr = io.ReadAll(res.Body)
				res.Body.Close()
			}
			cancel()
			tr.Close()
			detail := fmt.Sprintf("raw server -> real client: scenario=%s response stream=%s => RoundTrip err=%v status=%d ReadAll(body)=(%s, %v)", s.name, h3trunc(s.resp, 300), err, status, h3eSum(rb), rerr)
			switch {
			case s.truncated:
				if err == nil && rerr == nil {
					wd.fail("h3/truncated-frame-clean-eof", fmt.Sprintf("response with a frame cut short by FIN (no Content-Length): the client reads the body to a clean EOF (%d bytes, silently truncated)", len(rb)), detail)
				}
			case s.clUnder:
				if err == nil && rerr == nil {
					wd.fail("h3/content-length-under", "response body shorter than its declared Content-Length: the client reads it to a clean EOF (no error)", detail+fmt.Sprintf(" declared=%d delivered=%d", len(body)+7, len(rb)))
				}
			case s.wantBody != nil:
				wc := s.wantCode
				if wc == 0 {
					wc = 200
				}
				if err != nil || rerr != nil || status != wc || !bytes.Equal(rb, s.wantBody) {
					key := "h3e2e/response-altered"
					if strings.HasPrefix(s.name, "unknown") {
						key = "h3e2e/unknown-not-ignored"
					}
					wd.fail(key, "the client did not deliver exactly the DATA payloads of a valid response", detail)
				}
			case s.wantErr:
				if err == nil && rerr == nil {
					key := "h3e2e/forbidden-not-rejected"
					if strings.HasPrefix(s.name, "reserved-frame") {
						key = "h3e2e/reserved-not-rejected"
					}
					if s.name == "content-length-over" {
						key = "h3e2e/content-length-over"
					}
					wd.fail(key, "the client accepted a malformed response without any error", detail)
				}
				if s.name == "content-length-over" && len(rb) > half {
					wd.fail("h3e2e/content-length-over", "the client delivered more body bytes than the declared Content-Length", detail)
				}
			}
		}
	}
}

// the sender-side half of the Content-Length clause: a client whose request body turns out shorter
// than the declared ContentLength must not end the request cleanly.
func (wd *h3eWorld) requestBodyShort(stls, ctls *tls.Config, r *u.Rng) {
	rs := h3eNewRawServer(stls)
	defer rs.ln.Close()
	rs.resp = func(int) ([]byte, bool, [][]byte) {
		return append(h3eHeaders(":status", "200"), h3eFrame(0, []byte("ok"))...), true, [][]byte{append([]byte{0x00}, h3eFrame(0x4, nil)...)}
	}
	for _, c := range []struct{ declared, actual int }{{1000, 400}, {5, 3}, {70000, 69999}, {10, 10}} {
		wd.line("SCENARIO\trequest-body-short declared=%d actual=%d", c.declared, c.actual)
		wd.line("DIST\trequest-body-short\t1")
		for len(rs.ends) > 0 {
			<-rs.ends
		}
		tr := &http3.Transport{TLSClientConfig: ctls.Clone()}
		var wroteErr error
		wrote := make(chan struct{}, 1)
		ctx, cancel := context.WithTimeout(context.Background(), 5*time.Second)
		ctx = httptrace.WithClientTrace(ctx, &httptrace.ClientTrace{WroteRequest: func(i httptrace.WroteRequestInfo) {
			wroteErr = i.Err
			select {
			case wrote <- struct{}{}:
			default:
			}
		}})
		req, _ := http.NewRequestWithContext(ctx, "POST", "https://"+strings.Replace(rs.addr, "127.0.0.1", "localhost", 1)+"/short", &h3eChunkReader{data: r.Bytes(c.actual), chunks: h3eChunks(r, c.actual)})
		req.ContentLength = int64(c.declared)
		res, err := tr.RoundTrip(req)
		if err == nil {
			io.ReadAll(res.Body)
			res.Body.Close()
		}
		select {
		case <-wrote:
		case <-time.After(2 * time.Second):
		}
		var end h3eReqEnd
		gotEnd := false
		select {
		case end = <-rs.ends:
			gotEnd = true
		case <-time.After(2 * time.Second):
		}
		cancel()
		tr.Close()
		detail := fmt.Sprintf("real client -> raw server: POST ContentLength=%d, body reader delivers %d bytes => RoundTrip err=%v, WroteRequest err=%v, request stream at the server: %d bytes, end=%v (nil = clean FIN)", c.declared, c.actual, err, wroteErr, end.n, end.err)
		if c.actual < c.declared {
			if gotEnd && end.err == nil {
				wd.fail("h3/request-body-short-clean-fin", "the client ends a request cleanly (FIN) although its body was shorter than the declared Content-Length, and reports no error", detail)
			} else if wroteErr == nil {
				wd.fail("h3e2e/request-body-short", "request body shorter than ContentLength: WroteRequest reports no error", detail)
			}
		} else if !gotEnd || end.err != nil || wroteErr != nil {
			wd.fail("h3e2e/request-body-short", "a request whose body matches its ContentLength did not end cleanly", detail)
		}
	}
}

// ---------- child ----------

func h3eChild(w *bufio.Writer, seed uint64, n int) {
	thorough := os.Getenv("VERIF_TIER") == "thorough"
	r := u.NewRng(seed)
	wd := &h3eWorld{specs: map[int]*h3eSpec{}, seen: map[int]*h3eSeen{}, w: w}
	stls, ctls := h3eTLS()
	udp, err := net.ListenUDP("udp4", &net.UDPAddr{IP: net.IPv4(127, 0, 0, 1)})
	if err != nil {
		wd.fail("h3e2e/harness", "cannot listen on loopback UDP: "+err.Error(), "")
		wd.line("CHILD-DONE")
		return
	}
	srv := &http3.Server{Handler: http.HandlerFunc(wd.handler), TLSConfig: stls, QUICConfig: &quic.Config{EnableDatagrams: true}, Logger: nil}
	go srv.Serve(udp)
	port := udp.LocalAddr().(*net.UDPAddr).Port
	addr := fmt.Sprintf("localhost:%d", port)

	// A0. fixed table (every seed): transparent gzip x trailers x multi-member gzip x body sizes,
	// and the same representations with compression disabled / for HEAD.
	id := 0
	dist := map[string]int{}
	for _, dc := range []bool{false, true} {
		tr := &http3.Transport{TLSClientConfig: ctls.Clone(), Logger: nil, DisableCompression: dc}
		for _, s := range h3eFixedGzipSpecs(&id) {
			wd.mu.Lock()
			wd.specs[s.id] = s
			wd.mu.Unlock()
			wd.line("SCENARIO\tfixed gzip table disableCompression=%v %s", dc, s)
			wd.exchange(tr, "https://"+addr, s, false)
			dist["fixed-gzip-table"]++
		}
		tr.Close()
	}
	// A. generated exchanges, in batches of 1..8 concurrent requests per connection
	nEx := n
	for nEx > 0 {
		lossy := r.Chance(1, 5)
		base := "https://" + addr
		var relay *h3eRelay
		if lossy {
			relay = h3eNewRelay(udp.LocalAddr().(*net.UDPAddr), r.Fork(), r.Range(5, 30))
			base = fmt.Sprintf("https://localhost:%d", relay.front.LocalAddr().(*net.UDPAddr).Port)
		}
		tr := &http3.Transport{TLSClientConfig: ctls.Clone(), QUICConfig: &quic.Config{EnableDatagrams: true}, Logger: nil, DisableCompression: r.Chance(1, 4)}
		if tr.DisableCompression {
			dist["disable-compression"]++
		}
		for rounds := r.Range(1, 3); rounds > 0 && nEx > 0; rounds-- {
			conc := min(r.Range(1, 8), nEx)
			var batch []*h3eSpec
			for k := 0; k < conc; k++ {
				id++
				s := h3eGenSpec(r.Fork(), id, thorough)
				if lossy && len(s.reqBody)+len(s.respBody) > 100000 { // keep the lossy share cheap
					s.reqBody, s.respBody = s.reqBody[:min(len(s.reqBody), 30000)], s.respBody[:min(len(s.respBody), 30000)]
					s.reqChunks, s.respChunks = h3eChunks(r, len(s.reqBody)), h3eChunks(r, len(s.respBody))
					s.regz()
				}
				wd.mu.Lock()
				wd.specs[id] = s
				wd.mu.Unlock()
				batch = append(batch, s)
				dist["method-"+s.method]++
				dist[fmt.Sprintf("status-%d", s.status)]++
				if len(s.reqTrailer) > 0 {
					dist["request-trailers"]++
				}
				if len(s.respTrDecl)+len(s.respTrUndecl) > 0 {
					dist["response-trailers"]++
				}
				if lossy {
					dist["through-lossy-relay"]++
				}
				if s.gzip {
					dist["gzip"]++
					if s.method == "HEAD" {
						dist["gzip-HEAD"]++
					}
				}
			}
			dist[fmt.Sprintf("concurrency-%d", conc)]++
			wd.line("SCENARIO\texchanges lossy=%v ids=%d..%d first=%s", lossy, batch[0].id, batch[len(batch)-1].id, batch[0])
			var wg sync.WaitGroup
			for _, s := range batch {
				wg.Add(1)
				go func(s *h3eSpec) {
					defer wg.Done()
					wd.exchange(tr, base, s, lossy)
				}(s)
			}
			wg.Wait()
			nEx -= conc
		}
		tr.Close()
		if relay != nil {
			relay.Close()
		}
	}
	for k, v := range dist {
		wd.line("DIST\t%s\t%d", k, v)
	}
	if id > 0 {
		wd.line("SAMPLE\texchange %s: handler and client observations equal the generated message", wd.specs[1])
	}
	// B. raw peers
	nRaw := 31
	if thorough {
		nRaw = 31 * 6
	}
	wd.rawClientScenarios(addr, ctls, r.Fork(), nRaw)
	wd.contentLengthServerSide(addr, ctls)
	// the server must still serve after all of that
	wd.line("SCENARIO\tserver-still-alive")
	id++
	s := h3eGenSpec(r.Fork(), id, false)
	wd.specs[id] = s
	tr := &http3.Transport{TLSClientConfig: ctls.Clone()}
	wd.exchange(tr, "https://"+addr, s, false)
	tr.Close()
	nRS := 23
	if thorough {
		nRS = 23 * 5
	}
	wd.rawServerScenarios(stls, ctls, r.Fork(), nRS)
	wd.requestBodyShort(stls, ctls, r.Fork())
	wd.line("SCENARIO\tshutdown")
	srv.Close()
	udp.Close()
	wd.line("CHILD-DONE")
}

// ---------- child 2: the peer goes away while a response with trailers is being written ----------

func h3eChildAbandon(w *bufio.Writer, seed uint64, which int) {
	r := u.NewRng(seed + uint64(which))
	wd := &h3eWorld{specs: map[int]*h3eSpec{}, seen: map[int]*h3eSeen{}, w: w}
	stls, ctls := h3eTLS()
	udp, err := net.ListenUDP("udp4", &net.UDPAddr{IP: net.IPv4(127, 0, 0, 1)})
	if err != nil {
		wd.line("CHILD-DONE")
		return
	}
	handlerDone := make(chan string, 64)
	h := func(w http.ResponseWriter, req *http.Request) {
		if req.URL.Path == "/ping" {
			w.Write([]byte("pong"))
			return
		}
		if req.URL.Path == "/forbidden-trailer" {
			// net/http semantics: a forbidden trailer name in "Trailer" is ignored
			w.Header().Set("Trailer", "Content-Length, X-T")
			w.WriteHeader(200)
			w.Write([]byte("body"))
			w.Header().Set("X-T", "v")
			return
		}
		declared := req.URL.Query().Get("declared") == "1"
		if declared {
			w.Header().Set("Trailer", "X-T")
		}
		w.WriteHeader(200)
		w.Write(make([]byte, 4096))
		w.(http.Flusher).Flush()
		select { // until the peer has gone away
		case <-req.Context().Done():
		case <-time.After(2 * time.Second):
		}
		time.Sleep(20 * time.Millisecond)
		_, werr := w.Write(make([]byte, 100))
		if declared {
			w.Header().Set("X-T", "v")
		} else {
			w.Header().Set(http.TrailerPrefix+"X-T", "v")
		}
		handlerDone <- fmt.Sprintf("late write err=%v", werr)
	}
	srv := &http3.Server{Handler: http.HandlerFunc(h), TLSConfig: stls, QUICConfig: &quic.Config{}, Logger: nil}
	if which == 4 { // control: the same with a logger set
		srv.Logger = slog.New(slog.NewTextHandler(io.Discard, nil))
	}
	go srv.Serve(udp)
	base := fmt.Sprintf("https://localhost:%d", udp.LocalAddr().(*net.UDPAddr).Port)
	if which == 5 {
		wd.line("SCENARIO\tforbidden-trailer-name: handler declares Trailer: Content-Length, X-T; http3.Server.Logger nil")
		wd.line("DIST\tforbidden-trailer-name\t1")
		tr := &http3.Transport{TLSClientConfig: ctls.Clone()}
		ctx, cancel := context.WithTimeout(context.Background(), 5*time.Second)
		req, _ := http.NewRequestWithContext(ctx, "GET", base+"/forbidden-trailer", nil)
		res, err := tr.RoundTrip(req)
		var b []byte
		if err == nil {
			b, err = io.ReadAll(res.Body)
		}
		if err != nil || string(b) != "body" {
			wd.fail("h3/nil-logger/responseWriter.declareTrailer", "a handler that declares a forbidden trailer name gets no response through when Server.Logger is nil (responseWriter.declareTrailer logs through the nil logger and panics inside the handler; the server recovers and resets the stream)", fmt.Sprintf("GET /forbidden-trailer: handler sets Trailer: Content-Length, X-T then writes 200 + body => client err=%v body=%q", err, b))
		}
		cancel()
		tr.Close()
		srv.Close()
		udp.Close()
		wd.line("CHILD-DONE")
		return
	}
	for _, how := range []string{[]string{"close-body-early", "close-connection", "cancel-context", "close-body-early", "close-body-early", ""}[which]} {
		declared := which == 3 || which != 0 && r.Bool()
		wd.line("SCENARIO\tpeer-goes-away/%s declared-trailer=%v: GET with a handler that writes 4 KiB, waits for the peer to go away, writes again and sets a trailer; http3.Server.Logger nil=%v", how, declared, which != 4)
		wd.line("DIST\tpeer-goes-away/%s\t1", how)
		tr := &http3.Transport{TLSClientConfig: ctls.Clone()}
		ctx, cancel := context.WithCancel(context.Background())
		q := "0"
		if declared {
			q = "1"
		}
		req, _ := http.NewRequestWithContext(ctx, "GET", base+"/abandon?declared="+q, nil)
		res, err := tr.RoundTrip(req)
		if err != nil {
			wd.fail("h3e2e/roundtrip-error", "RoundTrip failed: "+err.Error(), how)
			cancel()
			tr.Close()
			continue
		}
		io.ReadFull(res.Body, make([]byte, 10))
		switch how {
		case "close-body-early":
			res.Body.Close()
		case "close-connection":
			tr.Close()
		case "cancel-context":
			cancel()
		}
		select {
		case <-handlerDone:
		case <-time.After(4 * time.Second):
		}
		time.Sleep(100 * time.Millisecond) // the post-handler flush of body and trailers runs now
		cancel()
		tr.Close()
		// the server must still answer
		tr2 := &http3.Transport{TLSClientConfig: ctls.Clone()}
		ctx2, cancel2 := context.WithTimeout(context.Background(), 5*time.Second)
		req2, _ := http.NewRequestWithContext(ctx2, "GET", base+"/ping", nil)
		res2, err := tr2.RoundTrip(req2)
		if err != nil {
			wd.fail("h3e2e/server-dead-after-abandon", "the server no longer answers after a peer went away mid-response: "+err.Error(), how)
		} else {
			res2.Body.Close()
		}
		cancel2()
		tr2.Close()
	}
	srv.Close()
	udp.Close()
	wd.line("CHILD-DONE")
}
