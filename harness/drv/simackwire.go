//go:build verif

package main

// c07wire (property C07, monitor-only): whole connections over the fault-injecting simulated
// network of simcore.go (loss, duplication, reordering by delay), with a recording qlog tracer
// on BOTH endpoints. Nothing is decrypted: the endpoints' own decrypted-frame events are the
// trace. Checked per endpoint:
//   ack-unreceived / ack-malformed / ack-largest : every ACK frame an endpoint SENDS covers only
//       packet numbers for which that endpoint logged packet_received in that number space
//       before, in descending disjoint ranges whose first range holds the largest received;
//   dup-processed : no packet number is logged as packet_received twice in a number space (a
//       duplicated datagram ends as packet_dropped trigger=duplicate);
//   ack-late : every ack-eliciting 1-RTT packet an endpoint processed is covered by an ACK frame
//       in a packet that endpoint sent within max_ack_delay (+ timer granularity + slack) of the
//       processing time, unless the connection was closed / the scenario ended before that.

import (
	"bufio"
	"context"
	"fmt"
	"io"
	"os"
	"sort"
	"strings"
	"sync"
	"time"

	quic "github.com/refraction-networking/uquic"
	"github.com/refraction-networking/uquic/internal/protocol"
	u "github.com/refraction-networking/uquic/internal/verifutil"
	"github.com/refraction-networking/uquic/qlog"
	"github.com/refraction-networking/uquic/qlogwriter"
)

func init() { units["c07wire"] = runC07Wire }

type c07wEvent struct {
	t     time.Duration
	kind  byte // 's' sent, 'r' received, 'd' dropped-duplicate, 'c' connection closed
	space int  // 0 Initial, 1 Handshake, 2 application data, -1 other
	is1   bool // 1-RTT packet
	pn    int64
	elic  bool       // received packet carries an ack-eliciting frame
	ack   [][2]int64 // (Smallest, Largest) of the ACK frame in the packet, nil if none
}

// c07wRecorder implements qlogwriter.Trace and qlogwriter.Recorder for one endpoint.
type c07wRecorder struct {
	mu    sync.Mutex
	start time.Time
	evs   []c07wEvent
}

func (r *c07wRecorder) AddProducer() qlogwriter.Recorder { return r }
func (r *c07wRecorder) SupportsSchemas(string) bool     { return true }
func (r *c07wRecorder) Close() error                    { return nil }

func c07wSpace(t qlog.PacketType) (int, bool) {
	switch t {
	case qlog.PacketTypeInitial:
		return 0, false
	case qlog.PacketTypeHandshake:
		return 1, false
	case qlog.PacketType0RTT:
		return 2, false
	case qlog.PacketType1RTT:
		return 2, true
	}
	return -1, false
}

func c07wFrames(fs []qlog.Frame) (elic bool, ack [][2]int64) {
	for _, f := range fs {
		switch a := f.Frame.(type) {
		case *qlog.AckFrame:
			for _, r := range a.AckRanges {
				ack = append(ack, [2]int64{int64(r.Smallest), int64(r.Largest)})
			}
			if ack == nil {
				ack = [][2]int64{}
			}
		case *qlog.ConnectionCloseFrame:
		default:
			elic = true
		}
	}
	return
}

func (r *c07wRecorder) RecordEvent(e qlogwriter.Event) {
	ev := c07wEvent{t: time.Since(r.start), space: -1}
	switch x := e.(type) {
	case qlog.PacketSent:
		ev.kind = 's'
		ev.space, ev.is1 = c07wSpace(x.Header.PacketType)
		ev.pn = int64(x.Header.PacketNumber)
		_, ev.ack = c07wFrames(x.Frames)
	case qlog.PacketReceived:
		ev.kind = 'r'
		ev.space, ev.is1 = c07wSpace(x.Header.PacketType)
		ev.pn = int64(x.Header.PacketNumber)
		ev.elic, ev.ack = c07wFrames(x.Frames)
	case qlog.PacketDropped:
		if x.Trigger != qlog.PacketDropDuplicate {
			return
		}
		ev.kind = 'd'
		ev.space, ev.is1 = c07wSpace(x.Header.PacketType)
		ev.pn = int64(x.Header.PacketNumber)
	case qlog.ConnectionClosed:
		ev.kind = 'c'
	default:
		return
	}
	r.mu.Lock()
	r.evs = append(r.evs, ev)
	r.mu.Unlock()
}

type c07wCase struct {
	Seed    uint64
	Client  string
	RTTms   int
	LossPct int
	Faults  []fault
	Streams []int // bytes per stream (echoed back by the server)
	Trickle int   // number of small writes separated by idle gaps (exercises the ACK alarm)
}

func (c c07wCase) String() string {
	fs := make([]string, len(c.Faults))
	for i, f := range c.Faults {
		fs[i] = f.String()
	}
	return fmt.Sprintf("client=%s rtt=%dms loss=%d%% streams=%v trickle=%d faults=[%s] seed=%d", c.Client, c.RTTms, c.LossPct, c.Streams, c.Trickle, strings.Join(fs, " "), c.Seed)
}

func c07wGen(r *u.Rng) c07wCase {
	c := c07wCase{Seed: r.U64() >> 1}
	c.Client = []string{"plain", "plain", "unil", "Chrome_146_IPv4", "Chrome_115_IPv4"}[r.Intn(5)]
	c.RTTms = int(r.Pick(2, 10, 10, 30, 60))
	c.LossPct = int(r.Pick(0, 0, 2, 5, 10))
	for i := r.Range(1, 3); i > 0; i-- {
		c.Streams = append(c.Streams, r.Range(200, 40000))
	}
	c.Trickle = r.Range(0, 6)
	nf := r.Range(2, 10)
	for i := 0; i < nf; i++ {
		f := fault{Dir: r.Intn(2), Idx: r.Range(0, 60)}
		switch x := r.Intn(10); {
		case x < 5:
			f.Kind = fDup
		case x < 8:
			f.Kind, f.Arg = fDelay, r.Range(3, 45)
		default:
			f.Kind = fDrop
		}
		c.Faults = append(c.Faults, f)
	}
	return c
}

// what the receiver promises: max_ack_delay incl. timer granularity, plus slack for the run loop
const c07wAckBound = time.Duration(protocol.MaxAckDelayInclGranularity) + 4*time.Millisecond

type c07wStats struct {
	acks, ackRanges, recv1rtt, elic1rtt, dupDropped, dupFaultsHit, conns, failedDials, extraConns, forgotten int
	maxAckDelay                                                                       time.Duration
}

func c07wCheckSide(side string, evs []c07wEvent, end time.Duration, fail func(key, desc string), st *c07wStats) {
	recv := [3]map[int64]bool{{}, {}, {}}
	var largest [3]int64
	var has [3]bool
	closed := end
	sentAckLargest := map[int64]int64{} // our 1-RTT packet number -> Largest of the ACK frame it carried
	for _, e := range evs {
		if e.kind == 'c' && e.t < closed {
			closed = e.t
		}
		if e.kind == 's' && e.space == 2 && e.is1 && len(e.ack) > 0 {
			sentAckLargest[e.pn] = e.ack[0][1]
		}
	}
	for i, e := range evs {
		if e.space < 0 {
			continue
		}
		switch e.kind {
		case 'd':
			st.dupDropped++
		case 'r':
			if recv[e.space][e.pn] {
				fail("c07wire/dup-processed", fmt.Sprintf("%s processed packet number %d of space %d twice (second packet_received at %v)", side, e.pn, e.space, e.t))
			}
			recv[e.space][e.pn] = true
			if !has[e.space] || e.pn > largest[e.space] {
				largest[e.space], has[e.space] = e.pn, true
			}
			if e.is1 {
				st.recv1rtt++
			}
			if e.is1 && e.elic {
				st.elic1rtt++
				// C07 (b): an ACK covering it leaves within the bound - unless the peer allowed this
				// endpoint to forget it first: an ACK frame WE sent in packet k (Largest L) was
				// acknowledged by the peer, so everything below L+1 need not be acknowledged any more
				// (RFC 9000 13.2.4; IgnorePacketsBelow(L+1)).
				deadline := e.t + c07wAckBound
				ok, forgotten := false, false
				var when time.Duration
				for _, s := range evs[i+1:] {
					if s.kind == 'r' && s.space == 2 && s.ack != nil && s.t <= deadline {
						for k, l := range sentAckLargest {
							if covered(s.ack, k) && l+1 > e.pn {
								forgotten = true
							}
						}
						if forgotten {
							break
						}
					}
					if s.kind == 's' && s.space == 2 && s.ack != nil {
						if covered(s.ack, e.pn) {
							ok, when = true, s.t
							break
						}
					}
				}
				if forgotten {
					st.forgotten++
				}
				if ok && when-e.t > st.maxAckDelay && when <= deadline {
					st.maxAckDelay = when - e.t
				}
				if !forgotten && (!ok || when > deadline) && deadline < closed {
					got := "never"
					if ok {
						got = fmt.Sprintf("after %v", when-e.t)
					}
					fail("c07wire/ack-late", fmt.Sprintf("%s processed ack-eliciting 1-RTT packet %d at %v; an ACK covering it was sent %s (bound %v, connection open until %v)", side, e.pn, e.t, got, c07wAckBound, closed))
				}
			}
		case 's':
			if e.ack == nil {
				continue
			}
			st.acks++
			st.ackRanges += len(e.ack)
			if len(e.ack) == 0 {
				fail("c07wire/ack-malformed", fmt.Sprintf("%s sent an ACK frame without ranges in packet %d (space %d)", side, e.pn, e.space))
				continue
			}
			for j, r := range e.ack {
				if r[0] > r[1] || (j > 0 && !(e.ack[j-1][0] > r[1]+1)) {
					fail("c07wire/ack-malformed", fmt.Sprintf("%s sent ACK ranges %v (space %d)", side, e.ack, e.space))
					break
				}
			}
			for q := range numSet(e.ack) {
				if !recv[e.space][q] {
					fail("c07wire/ack-unreceived", fmt.Sprintf("%s acknowledged packet %d of space %d in packet %d at %v without having received it; ranges %v", side, q, e.space, e.pn, e.t, e.ack))
					break
				}
			}
			if has[e.space] && !(e.ack[0][0] <= largest[e.space] && largest[e.space] <= e.ack[0][1]) {
				fail("c07wire/ack-largest", fmt.Sprintf("%s: first ACK range %v does not contain the largest received %d (space %d)", side, e.ack[0], largest[e.space], e.space))
			}
		}
	}
}

func c07wRunOne(c c07wCase, st *c07wStats) (fails []monFail, info string) {
	var mu sync.Mutex
	fail := func(key, desc string) {
		mu.Lock()
		fails = append(fails, monFail{key, desc})
		mu.Unlock()
	}
	var cliLogs, srvLogs [][]c07wEvent
	var end time.Duration
	var router *faultRouter
	err := inBubble(func() {
		lossRng := u.NewRng(c.Seed ^ 0xc07)
		// one recorder per connection object (a delayed first Initial can make the server create a
		// second, short-lived connection with its own packet number spaces)
		var recMu sync.Mutex
		var cliRecs, srvRecs []*c07wRecorder
		startT := time.Now()
		newRec := func(l *[]*c07wRecorder) qlogwriter.Trace {
			r := &c07wRecorder{start: startT}
			recMu.Lock()
			*l = append(*l, r)
			recMu.Unlock()
			return r
		}
		o := simOpts{
			RTT:    time.Duration(c.RTTms) * time.Millisecond,
			Faults: c.Faults,
			ServerConf: &quic.Config{MaxIdleTimeout: 20 * time.Second,
				Tracer: func(context.Context, bool, quic.ConnectionID) qlogwriter.Trace { return newRec(&srvRecs) }},
			ClientConf: &quic.Config{MaxIdleTimeout: 20 * time.Second,
				Tracer: func(context.Context, bool, quic.ConnectionID) qlogwriter.Trace { return newRec(&cliRecs) }},
		}
		if c.LossPct > 0 {
			o.RandDrop = func(dir, idx int) bool { return lossRng.Intn(100) < c.LossPct }
		}
		switch c.Client {
		case "plain":
			o.PlainPath = true
		case "unil":
		default:
			sp, err := specFor(c.Client)
			if err != nil {
				fail("c07wire/env", err.Error())
				return
			}
			o.Spec = sp
		}
		e, err := newSimEnv(o)
		if err != nil {
			fail("c07wire/env", err.Error())
			return
		}
		defer e.Close()
		router = e.Router
		startT = e.Start
		ctx, cancel := context.WithTimeout(context.Background(), 90*time.Second)
		defer cancel()
		srvDone := make(chan struct{})
		go func() {
			defer close(srvDone)
			conn, err := e.Ln.Accept(ctx)
			if err != nil {
				return
			}
			var wg sync.WaitGroup
			for {
				s, err := conn.AcceptStream(ctx)
				if err != nil {
					break
				}
				wg.Add(1)
				go func(s *quic.Stream) {
					defer wg.Done()
					data, err := io.ReadAll(s)
					if err == nil {
						s.Write(data)
					}
					s.Close()
				}(s)
			}
			wg.Wait()
		}()
		conn, err := e.Dial(ctx)
		if err != nil {
			st.failedDials++
			cancel()
			<-srvDone
			return
		}
		st.conns++
		r := u.NewRng(c.Seed)
		var wg sync.WaitGroup
		for i, size := range c.Streams {
			s, err := conn.OpenStreamSync(ctx)
			if err != nil {
				break
			}
			wg.Add(1)
			go func(s *quic.Stream, i, size int) {
				defer wg.Done()
				s.Write(streamBytes(i, size))
				s.Close()
				io.ReadAll(s)
			}(s, i, size)
		}
		// a trickle of lone small packets: each must be acknowledged by the ACK alarm alone
		if c.Trickle > 0 {
			if s, err := conn.OpenStreamSync(ctx); err == nil {
				for i := 0; i < c.Trickle; i++ {
					s.Write([]byte{byte(i)})
					time.Sleep(time.Duration(r.Range(30, 120)) * time.Millisecond)
				}
				s.Close()
				wg.Add(1)
				go func() { defer wg.Done(); io.ReadAll(s) }()
			}
		}
		fin := make(chan struct{})
		go func() { wg.Wait(); close(fin) }()
		select {
		case <-fin:
		case <-ctx.Done():
		}
		time.Sleep(150 * time.Millisecond) // let the last ACKs flow
		end = time.Since(e.Start)
		conn.CloseWithError(0, "")
		cancel()
		<-srvDone
		time.Sleep(50 * time.Millisecond)
		recMu.Lock()
		for _, r := range cliRecs {
			r.mu.Lock()
			cliLogs = append(cliLogs, append([]c07wEvent(nil), r.evs...))
			r.mu.Unlock()
		}
		for _, r := range srvRecs {
			r.mu.Lock()
			srvLogs = append(srvLogs, append([]c07wEvent(nil), r.evs...))
			r.mu.Unlock()
		}
		recMu.Unlock()
	})
	if err != nil && !strings.Contains(err.Error(), "deadlock") {
		fail("c07wire/panic", err.Error())
	}
	nev := 0
	for i, l := range cliLogs {
		nev += len(l)
		c07wCheckSide(fmt.Sprintf("client#%d", i), l, end, fail, st)
	}
	for i, l := range srvLogs {
		nev += len(l)
		c07wCheckSide(fmt.Sprintf("server#%d", i), l, end, fail, st)
	}
	if len(srvLogs) > 1 {
		st.extraConns += len(srvLogs) - 1
	}
	if router != nil {
		for _, d := range router.log {
			if strings.Contains(d.Act, ":dup") {
				st.dupFaultsHit++
			}
		}
	}
	if os.Getenv("C07W_DUMP") != "" && len(fails) > 0 {
		fmt.Fprintln(os.Stderr, "==== ", c.String(), fails[0].desc)
		for _, l := range append(append([][]c07wEvent{}, cliLogs...), srvLogs...) {
			fmt.Fprintln(os.Stderr, "---- side")
			for _, e := range l {
				fmt.Fprintf(os.Stderr, "%v %c sp=%d pn=%d elic=%v ack=%v\n", e.t, e.kind, e.space, e.pn, e.elic, e.ack)
			}
		}
	}
	info = fmt.Sprintf("events=%d end=%v", nev, end)
	return
}

func runC07Wire(w *bufio.Writer, seed uint64, n int, args []string) {
	r := u.NewRng(seed ^ 0xc07c07)
	st := &c07wStats{}
	only := -1
	for _, a := range args {
		if strings.HasPrefix(a, "only=") {
			fmt.Sscanf(a, "only=%d", &only)
		}
	}
	clients := map[string]int{}
	if only < 0 {
		c07wFixedCongestionLimited(w, st)
	}
	for i := 0; i < n; i++ {
		c := c07wGen(r)
		if only >= 0 && i != only {
			continue
		}
		done := make(chan struct{})
		go func(c c07wCase) {
			select {
			case <-done:
			case <-time.After(60 * time.Second):
				fmt.Fprintf(w, "CASE 1 %s\n", c.String())
				fmt.Fprintf(w, "INFO\tc07wire: scenario did not finish within 60 s of real time, remaining cases skipped: %s\n", c.String())
				w.Flush()
				os.Exit(0)
			}
		}(c)
		fails, info := c07wRunOne(c, st)
		close(done)
		clients[c.Client]++
		fmt.Fprintf(w, "CASE 1 %s\n", c.String())
		if i < 2 {
			fmt.Fprintf(w, "SAMPLE\t%s %s\n", c.String(), info)
		}
		seen := map[string]bool{}
		for _, f := range fails {
			if seen[f.key] {
				continue // one report per key and scenario
			}
			seen[f.key] = true
			fmt.Fprintf(w, "MONFAIL\t%s\t%s\t%s\n", f.key, f.desc, c.String())
		}
	}
	ks := make([]string, 0, len(clients))
	for k := range clients {
		ks = append(ks, k)
	}
	sort.Strings(ks)
	for _, k := range ks {
		fmt.Fprintf(w, "DIST\tclient=%s\t%d\n", k, clients[k])
	}
	fmt.Fprintf(w, "DIST\tconnections\t%d\nDIST\tfailed-dials\t%d\nDIST\tack-frames-sent\t%d\nDIST\tack-ranges-sent\t%d\nDIST\t1rtt-packets-processed\t%d\nDIST\t1rtt-ack-eliciting-processed\t%d\nDIST\tdatagrams-duplicated-by-router\t%d\nDIST\tpackets-dropped-as-duplicate\t%d\nDIST\tmax-observed-ack-delay-us\t%d\nDIST\textra-server-connections\t%d\nDIST\tack-eliciting-packets-forgotten-before-ack\t%d\n",
		st.conns, st.failedDials, st.acks, st.ackRanges, st.recv1rtt, st.elic1rtt, st.dupFaultsHit, st.dupDropped, st.maxAckDelay.Microseconds(), st.extraConns, st.forgotten)
}

// c07wFixedCongestionLimited (fixed, every seed): the client is congestion limited - it wrote more
// than a congestion window into a path that swallows everything it sends, so no ACK frees the
// window and its send mode is SendAck - when one lone ack-eliciting 1-RTT packet of the server
// arrives (no ACK frame in it: the server has received nothing new). The client must still send
// an ACK covering it within max_ack_delay: the run loop has to wake up for the ACK alarm although
// it cannot send data. RTT 400 ms keeps the PTO far away from the alarm.
func c07wFixedCongestionLimited(w *bufio.Writer, st *c07wStats) {
	desc := "fixed: client congestion limited (100 KB written, client->server blackholed), then one lone ack-eliciting server packet; rtt=400ms"
	var fails []monFail
	fail := func(key, d string) { fails = append(fails, monFail{key, d}) }
	var cliLogs [][]c07wEvent
	var end, loneSent time.Duration
	err := inBubble(func() {
		var mu sync.Mutex
		blackholeC2S := false
		var recMu sync.Mutex
		var cliRecs []*c07wRecorder
		startT := time.Now()
		o := simOpts{
			RTT:       400 * time.Millisecond,
			PlainPath: true,
			RandDrop: func(dir, idx int) bool {
				mu.Lock()
				defer mu.Unlock()
				return dir == 0 && blackholeC2S
			},
			ServerConf: &quic.Config{MaxIdleTimeout: 60 * time.Second},
			ClientConf: &quic.Config{MaxIdleTimeout: 60 * time.Second,
				Tracer: func(context.Context, bool, quic.ConnectionID) qlogwriter.Trace {
					r := &c07wRecorder{start: startT}
					recMu.Lock()
					cliRecs = append(cliRecs, r)
					recMu.Unlock()
					return r
				}},
		}
		e, err := newSimEnv(o)
		if err != nil {
			fail("c07wire/env", err.Error())
			return
		}
		defer e.Close()
		startT = e.Start
		ctx, cancel := context.WithTimeout(context.Background(), 120*time.Second)
		defer cancel()
		srvStream := make(chan *quic.Stream, 1)
		go func() {
			conn, err := e.Ln.Accept(ctx)
			if err != nil {
				return
			}
			s, err := conn.AcceptStream(ctx)
			if err != nil {
				return
			}
			buf := make([]byte, 1)
			io.ReadFull(s, buf)
			srvStream <- s
			<-ctx.Done()
		}()
		conn, err := e.Dial(ctx)
		if err != nil {
			fail("c07wire/fixed-scenario", "dial failed: "+err.Error())
			return
		}
		cs, err := conn.OpenStreamSync(ctx)
		if err != nil {
			fail("c07wire/fixed-scenario", err.Error())
			return
		}
		cs.Write([]byte{1})
		var ss *quic.Stream
		select {
		case ss = <-srvStream:
		case <-ctx.Done():
			fail("c07wire/fixed-scenario", "server did not get the stream")
			return
		}
		time.Sleep(3 * time.Second) // everything acknowledged, no ACK pending on either side
		mu.Lock()
		blackholeC2S = true
		mu.Unlock()
		go cs.Write(make([]byte, 100000)) // more than the congestion window; blocks
		time.Sleep(300 * time.Millisecond)
		loneSent = time.Since(e.Start)
		ss.Write([]byte{2}) // one lone ack-eliciting packet towards the client
		time.Sleep(450 * time.Millisecond)
		end = time.Since(e.Start)
		conn.CloseWithError(0, "")
		cancel()
		time.Sleep(50 * time.Millisecond)
		recMu.Lock()
		for _, r := range cliRecs {
			r.mu.Lock()
			cliLogs = append(cliLogs, append([]c07wEvent(nil), r.evs...))
			r.mu.Unlock()
		}
		recMu.Unlock()
	})
	if err != nil && !strings.Contains(err.Error(), "deadlock") {
		fail("c07wire/panic", err.Error())
	}
	lone := 0
	for i, l := range cliLogs {
		for _, ev := range l {
			if ev.kind == 'r' && ev.is1 && ev.elic && ev.t > loneSent {
				lone++
			}
		}
		c07wCheckSide(fmt.Sprintf("client#%d", i), l, end, fail, st)
	}
	if lone != 1 && len(fails) == 0 {
		fmt.Fprintf(w, "INFO\tc07wire fixed scenario: %d lone packets reached the client (expected 1)\n", lone)
	}
	st.conns++
	fmt.Fprintf(w, "CASE 1 %s\n", desc)
	seen := map[string]bool{}
	for _, f := range fails {
		if !seen[f.key] {
			seen[f.key] = true
			fmt.Fprintf(w, "MONFAIL\t%s\t%s\t%s\n", f.key, f.desc, desc)
		}
	}
	fmt.Fprintf(w, "DIST\tfixed-congestion-limited-lone-packets\t%d\n", lone)
}
