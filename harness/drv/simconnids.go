//go:build verif

package main

// simconnids (property C16, monitor-only): whole connections - real client, real server, real
// transports - over simnet in a synctest bubble. It covers what the unit models leave out: the
// call sites in connection.go (who calls SetMaxActiveConnIDs / Retire / SetHandshakeComplete /
// RemoveRetiredConnIDs / rotation via SentPacket+Get / GetConnIDForPath / RemoveAll vs.
// ReplaceWithClosed, and when). At every observation point (all goroutines parked) the monitors
// compare, for both endpoints, the transport's routing table and reset-token table with the
// connection's own connIDGenerator / connIDManager, the two endpoints with each other, and
// the RETIRE_CONNECTION_ID frames seen by the qlog tracer with what left the manager.

import (
	"bufio"
	"bytes"
	"context"
	"fmt"
	"io"
	"net"
	"os"
	"sort"
	"strings"
	"sync"
	"testing/synctest"
	"time"

	quic "github.com/refraction-networking/uquic"
	u "github.com/refraction-networking/uquic/internal/verifutil"
	"github.com/refraction-networking/uquic/qlog"
	"github.com/refraction-networking/uquic/qlogwriter"
	"github.com/refraction-networking/uquic/testutils/simnet"
)

func init() { units["simconnids"] = runSimConnIDs }

type scidCase struct {
	Seed   uint64
	Client string // plain | a parrot name
	Cause  string // cli-close srv-close idle cli-transport-close srv-transport-close
	Upload int    // bytes the client uploads (>= ~20 MB forces rotations beyond the first)
	Down   int    // bytes the server sends back
	Probe  string // "" | probe | probe-close  (client AddPath on a second transport)
	Retry  bool   // the server validates the address with a Retry (Transport.VerifySourceAddress)
	Early  bool   // close right after the handshake, while the client's original destination ID still waits for its expiry
	RTT    time.Duration
}

func (c scidCase) String() string {
	return fmt.Sprintf("seed=%d client=%s cause=%s upload=%d down=%d probe=%q retry=%v early=%v rtt=%s", c.Seed, c.Client, c.Cause, c.Upload, c.Down, c.Probe, c.Retry, c.Early, c.RTT)
}

var scidCauses = []string{"cli-close", "srv-close", "idle", "cli-transport-close", "srv-transport-close"}

// scidRecorder: qlog tracer of one endpoint; keeps the connection-ID frames it sent / received.
type scidRecorder struct {
	mu       sync.Mutex
	retSent  map[uint64][]int64 // RETIRE_CONNECTION_ID sequence number -> packet numbers that carried it
	newRecv  map[uint64]int     // NEW_CONNECTION_ID sequence number -> times received
	newSent  map[uint64]int
	newSentIDs map[string]bool // connection IDs carried by the NEW_CONNECTION_ID frames it sent
	retRecv  map[uint64]int
	nSent1RT int
	lastEvent int64 // monotime of the last packet this endpoint sent or received (its run loop ran then)
}

func newScidRecorder() *scidRecorder {
	return &scidRecorder{retSent: map[uint64][]int64{}, newRecv: map[uint64]int{}, newSent: map[uint64]int{}, retRecv: map[uint64]int{}, newSentIDs: map[string]bool{}}
}
func (r *scidRecorder) AddProducer() qlogwriter.Recorder { return r }
func (r *scidRecorder) SupportsSchemas(string) bool     { return true }
func (r *scidRecorder) Close() error                    { return nil }
func (r *scidRecorder) RecordEvent(e qlogwriter.Event) {
	r.mu.Lock()
	defer r.mu.Unlock()
	switch e.(type) {
	case qlog.PacketSent, qlog.PacketReceived:
		r.lastEvent = quic.ConnidsVerifMonoNow()
	}
	switch x := e.(type) {
	case qlog.PacketSent:
		if x.Header.PacketType == qlog.PacketType1RTT {
			r.nSent1RT++
		}
		for _, f := range x.Frames {
			switch fr := f.Frame.(type) {
			case *qlog.RetireConnectionIDFrame:
				r.retSent[fr.SequenceNumber] = append(r.retSent[fr.SequenceNumber], int64(x.Header.PacketNumber))
			case *qlog.NewConnectionIDFrame:
				r.newSent[fr.SequenceNumber]++
				r.newSentIDs[string(fr.ConnectionID.Bytes())] = true
			}
		}
	case qlog.PacketReceived:
		for _, f := range x.Frames {
			switch fr := f.Frame.(type) {
			case *qlog.NewConnectionIDFrame:
				r.newRecv[fr.SequenceNumber]++
			case *qlog.RetireConnectionIDFrame:
				r.retRecv[fr.SequenceNumber]++
			}
		}
	}
}

func scidSet(xs [][]byte) map[string]bool {
	m := map[string]bool{}
	for _, x := range xs {
		m[string(x)] = true
	}
	return m
}

func scidSetStr(m map[string]bool) string {
	ks := make([]string, 0, len(m))
	for k := range m {
		ks = append(ks, fmt.Sprintf("%x", k))
	}
	sort.Strings(ks)
	return "{" + strings.Join(ks, ",") + "}"
}

func scidSame(a, b map[string]bool) bool {
	if len(a) != len(b) {
		return false
	}
	for k := range a {
		if !b[k] {
			return false
		}
	}
	return true
}

func runOneSimConnIDs(c scidCase) (fails []monFail, info string) {
	var mu sync.Mutex
	seen := map[string]bool{}
	fail := func(key, desc string) {
		mu.Lock()
		if !seen[key] {
			seen[key] = true
			fails = append(fails, monFail{"simconnids/" + key, desc})
		}
		mu.Unlock()
	}
	var infos []string
	note := func(f string, a ...any) { infos = append(infos, fmt.Sprintf(f, a...)) }
	err := inBubble(func() {
		recs := [2]*scidRecorder{newScidRecorder(), newScidRecorder()} // 0 = client, 1 = server
		idle := 10 * time.Second
		o := simOpts{
			RTT: c.RTT,
			ServerConf: &quic.Config{MaxIdleTimeout: idle, MaxIncomingStreams: 10,
				Tracer: func(context.Context, bool, quic.ConnectionID) qlogwriter.Trace { return recs[1] }},
			ClientConf: &quic.Config{MaxIdleTimeout: idle,
				Tracer: func(context.Context, bool, quic.ConnectionID) qlogwriter.Trace { return recs[0] }},
		}
		if c.Retry {
			o.SrvTr = func(t *quic.Transport) { t.VerifySourceAddress = func(net.Addr) bool { return true } }
		}
		if c.Client == "plain" {
			o.PlainPath = true
		} else {
			sp, err := specFor(c.Client)
			if err != nil {
				fail("spec", err.Error())
				return
			}
			o.Spec = sp
		}
		e, err := newSimEnv(o)
		if err != nil {
			fail("env", err.Error())
			return
		}
		defer e.Close()
		ctx, cancel := context.WithCancel(context.Background())
		defer cancel()

		var srv *quic.Conn
		srvReady := make(chan struct{})
		srvGot := make(chan int, 4)
		go func() {
			conn, err := e.Ln.Accept(ctx)
			if err != nil {
				close(srvReady)
				return
			}
			srv = conn
			close(srvReady)
			for {
				s, err := conn.AcceptStream(ctx)
				if err != nil {
					return
				}
				go func(s *quic.Stream) {
					n, _ := io.Copy(io.Discard, s)
					if c.Down > 0 {
						s.Write(make([]byte, c.Down))
					}
					s.Close()
					srvGot <- int(n)
				}(s)
			}
		}()
		dctx, dcancel := context.WithTimeout(ctx, 30*time.Second)
		cl, err := e.Dial(dctx)
		dcancel()
		if err != nil {
			fail("dial", "dial failed: "+err.Error())
			return
		}
		select {
		case <-srvReady:
		case <-time.After(20 * time.Second):
		}
		if srv == nil {
			fail("dial", "server did not accept the connection")
			cl.CloseWithError(0, "")
			return
		}
		conns := [2]*quic.Conn{cl, srv}
		trs := [2][]*quic.Transport{{e.CliTr}, {e.SrvTr}}
		names := [2]string{"client", "server"}
		everHeld := [2]map[uint64]bool{{0: true}, {0: true}}
		maxRotations := [2]uint64{}
		wireDup := map[string]bool{}
		var hsTime int64

		// the destination connection IDs the client itself chose during the handshake, read off the
		// wire: DCIDs of its long-header packets that are not IDs issued by the server (the original
		// one and, after a Retry, the Retry source connection ID), in order of first use
		wireHandshakeDCIDs := func() (ids [][]byte, nRetry int) {
			// what the server issued, also from the wire: the source connection ID of its (non-Retry)
			// long-header packets and the IDs in the NEW_CONNECTION_ID frames it sent
			serverIssued := map[string]bool{}
			recs[1].mu.Lock()
			for k := range recs[1].newSentIDs {
				serverIssued[k] = true
			}
			recs[1].mu.Unlock()
			e.Router.mu.Lock()
			defer e.Router.mu.Unlock()
			isRetry := func(b []byte) bool {
				return (b[0]&0x30)>>4 == 3 && b[1] == 0 && b[2] == 0 && b[3] == 0 && b[4] == 1 // QUIC v1
			}
			for _, d := range e.Router.log {
				b := d.Data
				if d.Dir != 1 || len(b) < 7 || b[0]&0x80 == 0 {
					continue
				}
				if isRetry(b) {
					nRetry++
					continue
				}
				dl := int(b[5])
				if len(b) < 7+dl {
					continue
				}
				sl := int(b[6+dl])
				if len(b) >= 7+dl+sl {
					serverIssued[string(b[7+dl:7+dl+sl])] = true
				}
			}
			seenID := map[string]bool{}
			for _, d := range e.Router.log {
				b := d.Data
				if d.Dir != 0 || len(b) < 7 || b[0]&0x80 == 0 {
					continue
				}
				l := int(b[5])
				if l == 0 || len(b) < 6+l {
					continue
				}
				id := b[6 : 6+l]
				if serverIssued[string(id)] || seenID[string(id)] {
					continue
				}
				seenID[string(id)] = true
				ids = append(ids, append([]byte{}, id...))
			}
			return
		}

		// ---- the monitors of one observation point ----
		observe := func(label string, closedPhase bool) {
			synctest.Wait()
			var views [2]quic.ConnidsVerifView
			for x := 0; x < 2; x++ {
				views[x] = quic.ConnidsVerifViewOf(conns[x])
			}
			for x := 0; x < 2; x++ {
				y := 1 - x
				vx, vy := views[x], views[y]
				who := names[x] + " @" + label
				// (d) routing table of X == what X's generator holds
				want := map[string]bool{}
				for _, id := range vx.Gen.ActiveCIDs {
					want[string(id)] = true
				}
				for _, id := range vx.Gen.RetireCIDs {
					want[string(id)] = true
				}
				if vx.Gen.HasInitial {
					want[string(vx.Gen.InitialClient)] = true
				}
				own, closed, others := quic.ConnidsVerifRoutesOf(trs[x][0], conns[x])
				if !closedPhase && !vx.Closed {
					if got := scidSet(own); !scidSame(got, want) {
						fail("routing-mismatch", fmt.Sprintf("%s: transport routes %s to the connection, its generator holds active %d + retired-unexpired %d + initial %v = %s",
							who, scidSetStr(got), len(vx.Gen.ActiveCIDs), len(vx.Gen.RetireCIDs), vx.Gen.HasInitial, scidSetStr(want)))
					}
					if len(closed) != 0 || others != 0 {
						fail("routing-foreign", fmt.Sprintf("%s: %d closed stand-ins and %d foreign entries in the table of a live connection", who, len(closed), others))
					}
					// a second transport (path probing) routes at least the active IDs, nothing foreign
					for _, t2 := range trs[x][1:] {
						own2, cl2, oth2 := quic.ConnidsVerifRoutesOf(t2, conns[x])
						got2 := scidSet(own2)
						for _, id := range vx.Gen.ActiveCIDs {
							if !got2[string(id)] {
								fail("routing-second-transport", fmt.Sprintf("%s: active ID %x not routed on the probing transport", who, id))
							}
						}
						for k := range got2 {
							if !want[k] {
								fail("routing-second-transport", fmt.Sprintf("%s: probing transport routes %x which the generator does not hold", who, k))
							}
						}
						if len(cl2) != 0 || oth2 != 0 {
							fail("routing-foreign", who+": foreign entries on the probing transport")
						}
					}
					// retired IDs whose grace period is over should be gone (removed lazily by the run loop)
					// removal is lazy: the run loop drops expired IDs when it iterates. If it has handled a
					// packet after the expiry the ID must be gone; on a connection that has been silent since,
					// nothing wakes the loop (known finding simconnids/idle-expired-still-routed)
					recs[x].mu.Lock()
					lastEv := recs[x].lastEvent
					recs[x].mu.Unlock()
					late, lateIdle := 0, 0
					for _, t := range vx.Gen.RetireTimes {
						if t <= vx.Now-int64(2*time.Second) {
							if lastEv > t+int64(100*time.Millisecond) {
								late++
							} else {
								lateIdle++
							}
						}
					}
					if lateIdle > 0 {
						fail("idle-expired-still-routed", fmt.Sprintf("%s: %d retired connection IDs are still routed more than 2 s after their expiry; the connection has been silent since, nothing wakes the run loop to remove them", who, lateIdle))
					}
					for i, t := range vx.Gen.RetireTimes {
						if t > vx.Now+int64(5*time.Second) { // 3 PTO is well below 5 s in every scenario here
							fail("retire-expiry-too-late", fmt.Sprintf("%s: retired connection ID %x stays routed for another %s", who, vx.Gen.RetireCIDs[i], time.Duration(t-vx.Now)))
						}
					}
					if late > 0 {
						fail("expired-still-routed", fmt.Sprintf("%s: %d retired connection IDs are still routed more than 2 s after their expiry", who, late))
					}
					if vx.Server {
						// independent of the generator's own record: what the client really used as DCID
						hs, nRetry := wireHandshakeDCIDs()
						if c.Retry && (nRetry == 0 || len(hs) < 2) {
							note("retry scenario: %d Retry packets, %d client-chosen handshake DCIDs on the wire", nRetry, len(hs))
						}
						if len(hs) == 0 {
							fail("wire", who+": no client-chosen destination connection ID found on the wire")
						}
						got := scidSet(own)
						if label == "handshake-complete" {
							// the ID the client used last (after a Retry: the Retry source connection ID) is what
							// the server registered; it is routed until 3 PTO after handshake completion
							if len(hs) > 0 && !got[string(hs[len(hs)-1])] {
								fail("handshake-dcid-unrouted", fmt.Sprintf("%s: the destination connection ID %x the client used for its Initial is not routed", who, hs[len(hs)-1]))
							}
							for _, id := range hs[:max(len(hs)-1, 0)] {
								if got[string(id)] {
									fail("handshake-dcid-kept", fmt.Sprintf("%s: the pre-Retry destination connection ID %x is routed", who, id))
								}
							}
						} else if vx.Now-hsTime >= int64(7*time.Second) {
							// 7 s after the handshake: far beyond 3 PTO
							for _, id := range hs {
								if got[string(id)] {
									if lastEv > hsTime+int64(6*time.Second) {
										fail("handshake-dcid-kept", fmt.Sprintf("%s: the client's handshake destination connection ID %x (read off the wire) is still routed %s after handshake completion although the connection has been active since", who, id, time.Duration(vx.Now-hsTime)))
									} else {
										fail("idle-expired-still-routed", fmt.Sprintf("%s: the client's handshake destination connection ID %x is still routed %s after handshake completion on a silent connection", who, id, time.Duration(vx.Now-hsTime)))
									}
								}
							}
						}
					}
					if vx.Server && vx.HandshakeComplete && vx.Gen.HasInitial && label != "handshake-complete" {
						fail("initial-dcid-kept", fmt.Sprintf("%s: the client's original destination connection ID %x is still routed (not even scheduled for removal) long after handshake completion", who, vx.Gen.InitialClient))
					}
					// (d) reset tokens registered == tokens of the peer's IDs in use
					wantTok := map[[16]byte]bool{}
					if vx.Mgr.HasActiveTok {
						wantTok[vx.Mgr.ActiveTok] = true
					}
					for _, p := range vx.Mgr.Probing {
						wantTok[p.Tok] = true
					}
					gotTok := map[[16]byte]bool{}
					for _, t := range trs[x] {
						for _, tok := range quic.ConnidsVerifTokensOf(t) {
							gotTok[tok] = true
						}
					}
					if len(gotTok) != len(wantTok) {
						fail("tokens-mismatch", fmt.Sprintf("%s: %d reset tokens registered, %d IDs with a token in use", who, len(gotTok), len(wantTok)))
					} else {
						for t := range wantTok {
							if !gotTok[t] {
								fail("tokens-mismatch", fmt.Sprintf("%s: token %x of an ID in use is not registered", who, t[:4]))
							}
						}
					}
				}
				if closedPhase {
					continue
				}
				// (a) X never has more unretired IDs issued than Y's limit, as X read it off the wire
				if vx.HasPeerParams {
					lim := vx.PeerLimit
					if lim < 1 {
						lim = 1
					}
					if uint64(len(vx.Gen.ActiveSeqs)) > lim {
						fail("issued-over-peer-limit", fmt.Sprintf("%s: %d IDs issued and not retired, the peer advertised active_connection_id_limit %d", who, len(vx.Gen.ActiveSeqs), vx.PeerLimit))
					}
				}
				// (b) Y advertised vx.PeerLimit... the IDs Y stores stay within what Y advertised (X read it)
				if vx.HasPeerParams {
					stored := 1 + len(vy.Mgr.Queue) + len(vy.Mgr.Probing)
					if uint64(stored) > vx.PeerLimit && vx.PeerLimit >= 2 {
						fail("stored-over-advertised", fmt.Sprintf("%s's peer stores %d connection IDs, it advertised %d", who, stored, vx.PeerLimit))
					}
				}
				// every ID Y may use as destination is issued-and-unretired (hence routed) at X
				heldY := map[uint64][]byte{vy.Mgr.ActiveSeq: vy.Mgr.ActiveCID}
				for _, q := range vy.Mgr.Queue {
					heldY[q.Seq] = q.CID
				}
				for _, q := range vy.Mgr.Probing {
					heldY[q.Seq] = q.CID
				}
				actX := map[uint64][]byte{}
				for i, s := range vx.Gen.ActiveSeqs {
					actX[s] = vx.Gen.ActiveCIDs[i]
				}
				if !vx.Closed && !vy.Closed {
					for s, id := range heldY {
						if a, ok := actX[s]; !ok || !bytes.Equal(a, id) {
							fail("peer-uses-unrouted-id", fmt.Sprintf("%s: the peer holds sequence number %d (%x), which is not an active ID of this endpoint (%x)", who, s, id, a))
						}
					}
				}
				// (c) RETIRE_CONNECTION_ID on the wire of Y <-> what left Y's manager <-> what X retired
				ry := recs[y]
				ry.mu.Lock()
				for s := range heldY {
					everHeld[y][s] = true
					if len(ry.retSent[s]) > 0 {
						fail("retire-while-in-use", fmt.Sprintf("%s's peer sent RETIRE_CONNECTION_ID for sequence number %d which it still holds", who, s))
					}
				}
				for s := range ry.newRecv {
					everHeld[y][s] = true // received: must be held or retired
				}
				if !vy.Closed && !vx.Closed {
					for s := range everHeld[y] {
						if _, h := heldY[s]; !h && len(ry.retSent[s]) == 0 {
							fail("retire-missing", fmt.Sprintf("%s's peer no longer holds sequence number %d and never sent RETIRE_CONNECTION_ID for it", who, s))
						}
					}
					for s, pns := range ry.retSent {
						if len(pns) > 1 && !wireDup[fmt.Sprint(y, s)] {
							// a PTO probe may repeat the frame before its first copy is acknowledged: not a
							// second retirement (the manager queues one frame, see the unit-level monitors)
							wireDup[fmt.Sprint(y, s)] = true
							note("%s's peer sent RETIRE_CONNECTION_ID(%d) in packets %v (retransmission)", who, s, pns)
						}
						if !everHeld[y][s] {
							fail("retire-unknown", fmt.Sprintf("%s's peer retired sequence number %d which it never received", who, s))
						}
						if _, still := actX[s]; still {
							fail("retire-not-applied", fmt.Sprintf("%s: RETIRE_CONNECTION_ID(%d) was sent by the peer and delivered, the ID is still active here", who, s))
						}
					}
					for s := uint64(0); s <= vx.Gen.HighestSeq; s++ {
						if _, act := actX[s]; !act && len(ry.retSent[s]) == 0 {
							fail("retired-without-frame", fmt.Sprintf("%s: sequence number %d is retired here although the peer never sent RETIRE_CONNECTION_ID for it", who, s))
						}
					}
				}
				ry.mu.Unlock()
				if vy.Mgr.ActiveSeq > maxRotations[y] {
					maxRotations[y] = vy.Mgr.ActiveSeq
				}
			}
		}

		<-cl.HandshakeComplete()
		<-srv.HandshakeComplete()
		hsTime = quic.ConnidsVerifMonoNow()
		time.Sleep(3 * c.RTT)
		observe("handshake-complete", false)
		if !c.Early {
			time.Sleep(2 * time.Second) // past 3 PTO: the client's original destination ID expires at the server
			observe("after-grace", false)
			time.Sleep(5 * time.Second) // 7 s after the handshake: beyond any plausible 3 PTO + lazy removal
			observe("long-after-handshake", false)
		}

		// ---- transfer (rotation needs PacketsPerConnectionID/2 .. 3/2 packets per rotation) ----
		if c.Upload > 0 {
			s, err := cl.OpenStreamSync(ctx)
			if err != nil {
				fail("transfer", "OpenStreamSync: "+err.Error())
			} else {
				buf := make([]byte, 64<<10)
				left := c.Upload
				step := 0
				for left > 0 {
					n := len(buf)
					if n > left {
						n = left
					}
					if _, err := s.Write(buf[:n]); err != nil {
						fail("transfer", "Write: "+err.Error())
						break
					}
					left -= n
					step++
					if step%64 == 0 { // every 4 MB
						time.Sleep(5 * c.RTT)
						observe(fmt.Sprintf("upload-%dMB", (c.Upload-left)>>20), false)
					}
				}
				s.Close()
				io.Copy(io.Discard, s)
				select {
				case <-srvGot:
				case <-time.After(60 * time.Second):
					fail("transfer", "server did not finish reading")
				}
			}
			time.Sleep(5 * c.RTT)
			observe("after-transfer", false)
		}

		// ---- path probing from a second client transport ----
		if c.Probe != "" {
			addr2 := &net.UDPAddr{IP: net.ParseIP("1.0.0.3"), Port: 9003}
			link := &simnet.SimulatedLink{Latency: c.RTT / 2, UploadPacket: e.Net.Router}
			pc2 := simnet.NewBlockingSimConn(addr2, link)
			if c.Probe != "probe-lost" { // probe-lost: the answers to the probes never arrive
				e.Net.Router.AddNode(addr2, link)
			} else {
				e.Net.Router.AddNode(&net.UDPAddr{IP: net.ParseIP("1.0.0.9"), Port: 9}, link)
			}
			link.Start()
			tr2 := &quic.Transport{Conn: pc2}
			defer func() { tr2.Close(); pc2.Close(); link.Close() }()
			path, err := cl.AddPath(tr2)
			if err != nil {
				note("AddPath: %v", err)
			} else {
				pto := 5 * time.Second
				if c.Probe == "probe-lost" {
					pto = 700 * time.Millisecond
				}
				pctx, pcancel := context.WithTimeout(ctx, pto)
				perr := path.Probe(pctx)
				pcancel()
				note("probe: %v", perr)
				trs[0] = append(trs[0], tr2)
				time.Sleep(3 * c.RTT)
				observe("after-probe", false)
				note("probing IDs after probe: %d", len(quic.ConnidsVerifViewOf(cl).Mgr.Probing))
				if c.Probe == "probe-close" || c.Probe == "probe-lost" {
					if err := path.Close(); err != nil {
						note("path.Close: %v", err)
					}
					time.Sleep(3 * c.RTT)
					observe("after-path-close", false)
					note("probing IDs after path close: %d", len(quic.ConnidsVerifViewOf(cl).Mgr.Probing))
				}
			}
		}

		// ---- close ----
		switch c.Cause {
		case "cli-close":
			cl.CloseWithError(7, "bye")
		case "srv-close":
			srv.CloseWithError(7, "bye")
		case "idle":
			e.Router.setBlackhole(true)
		case "cli-transport-close":
			e.CliTr.Close()
		case "srv-transport-close":
			e.SrvTr.Close()
		}
		time.Sleep(c.RTT)
		observe("closing", true)
		// everything ends: CONNECTION_CLOSE delivered or idle timeout on the silent side, then the closing period
		time.Sleep(4*idle + 5*time.Second)
		synctest.Wait()
		for x := 0; x < 2; x++ {
			if conns[x].Context().Err() == nil {
				fail("not-closed", fmt.Sprintf("%s still alive %s after %s", names[x], 4*idle+5*time.Second, c.Cause))
				conns[x].CloseWithError(0, "")
				continue
			}
			for i, t := range trs[x] {
				own, closed, others := quic.ConnidsVerifRoutesOf(t, conns[x])
				if len(own)+len(closed)+others != 0 {
					fail("table-not-empty", fmt.Sprintf("%s transport %d after %s + closing period: %d IDs still routed to the connection, %d to closed stand-ins, %d others (first %x)",
						names[x], i, c.Cause, len(own), len(closed), others, append(append(own, closed...), nil)[0]))
				}
				if toks := quic.ConnidsVerifTokensOf(t); len(toks) != 0 {
					fail("tokens-not-empty", fmt.Sprintf("%s transport %d: %d reset tokens still registered after the connection is gone", names[x], i, len(toks)))
				}
			}
		}
		v0, v1 := quic.ConnidsVerifViewOf(cl), quic.ConnidsVerifViewOf(srv)
		note("limits adv cli=%d srv=%d; issued cli=%d srv=%d; rotations cli=%d srv=%d; 1-RTT packets cli=%d srv=%d; retire frames cli=%d srv=%d",
			v1.PeerLimit, v0.PeerLimit, v0.Gen.HighestSeq, v1.Gen.HighestSeq, maxRotations[0], maxRotations[1],
			recs[0].nSent1RT, recs[1].nSent1RT, len(recs[0].retSent), len(recs[1].retSent))
		cancel()
	})
	if err != nil {
		fail("bubble", err.Error())
	}
	return fails, strings.Join(infos, "; ")
}

func runSimConnIDs(w *bufio.Writer, seed uint64, n int, args []string) {
	r := u.NewRng(seed)
	only := -1
	for _, a := range args {
		if strings.HasPrefix(a, "only=") {
			fmt.Sscanf(a, "only=%d", &only)
		}
	}
	clients := []string{"plain", "Firefox_116A", "plain", "Chrome_115_IPv4", "plain", "Firefox_116B"}
	dist := map[string]int{}
	thorough := os.Getenv("VERIF_TIER") == "thorough"
	for i := 0; i < n; i++ {
		c := scidCase{Seed: r.U64(), Client: clients[i%len(clients)], Cause: scidCauses[i%len(scidCauses)],
			Upload: int(r.Pick(0, 30<<10, 200<<10, 1<<20)), Down: int(r.Pick(0, 10<<10, 100<<10)), RTT: time.Duration(r.Pick(4, 10, 30)) * time.Millisecond}
		switch {
		case i == 1 || (thorough && i%7 == 1): // long upload: rotations beyond the first on the client, ACK stream rotates the server
			c.Upload, c.Client = 24<<20, "plain"
		case i == 3 || i == 8 || i == 10 || (thorough && i%5 == 3):
			c.Client, c.Probe = "plain", []string{"probe", "probe-close", "probe-lost"}[i%3]
		}
		if i%4 == 2 {
			c.Early, c.Upload, c.Down = true, 0, 0
		}
		c.Retry = i%3 == 1 // plain and spec-driven clients alike
		if only >= 0 && i != only {
			continue
		}
		stop := watchdog(w, "simconnids/livelock", c.String)
		fails, info := runOneSimConnIDs(c)
		stop()
		dist["cause="+c.Cause]++
		dist["client="+c.Client]++
		if c.Probe != "" {
			dist["probing"]++
		}
		if c.Upload >= 16<<20 {
			dist["long-upload"]++
		}
		fmt.Fprintf(w, "CASE 1 %s\n", c.String())
		if i < 4 || c.Probe != "" || os.Getenv("VERIF_VERBOSE") != "" {
			fmt.Fprintf(w, "SAMPLE\ti=%d %s => %s\n", i, c.String(), info)
		}
		for _, f := range fails {
			fmt.Fprintf(w, "MONFAIL\t%s\t%s\t%s\n", f.key, f.desc, c.String())
		}
	}
	keys := make([]string, 0, len(dist))
	for k := range dist {
		keys = append(keys, k)
	}
	sort.Strings(keys)
	for _, k := range keys {
		fmt.Fprintf(w, "DIST\t%s\t%d\n", k, dist[k])
	}
}
