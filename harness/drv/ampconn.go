//go:build verif

package main

import (
	"bufio"
	"context"
	"crypto/ed25519"
	crand "crypto/rand"
	"crypto/x509"
	"crypto/x509/pkix"
	"encoding/asn1"
	"fmt"
	"math/big"
	"net"
	"strings"
	"sync"
	"testing/synctest"
	"time"

	quic "github.com/refraction-networking/uquic"
	"github.com/refraction-networking/uquic/internal/protocol"
	u "github.com/refraction-networking/uquic/internal/verifutil"
	"github.com/refraction-networking/uquic/testutils/simnet"
	tls "github.com/refraction-networking/utls"
)

func init() { units["ampconn"] = runAmpConn }

// ampconn unit (C14 a, integration, monitor only): an in-tree server and client over
// testutils/simnet inside a synctest bubble, with a router of ours between them that
// drops datagrams by schedule and keeps the property's own books:
//
//	delivered  bytes of client datagrams handed to the server's link
//	sent       bytes of datagrams the server emitted towards the client
//	validated  from the first client datagram carrying a Handshake packet (or an Initial with a
//	           token after a Retry) that the router DELIVERS
//
// Monitor, on every server datagram while !validated:  sent <= 3*delivered + len(this datagram).
// `delivered` runs ahead of what the server has processed (link latency), so the monitor can
// only be too lenient, never too strict.

type ampRouter struct {
	simnet.PerfectRouter
	mu                   sync.Mutex
	client, server       string
	delivered, sent      int64
	validated            bool
	nToServer, nToClient int
	dropToServer         func(idx int, types []protocol.PacketType) bool
	dropToClient         func(idx int) bool
	// rewriteToServer may replace a client datagram by one crafted at the router (same source address);
	// a crafted datagram is delivered and counted with its true size and never validates the address
	rewriteToServer func(idx int, types []protocol.PacketType, data []byte, odcid []byte) (crafted []byte, what string)
	// injectBefore: datagrams the router sends to the server (from the client's address) just before client datagram idx
	injectBefore func(idx int, odcid []byte) (crafted [][]byte, what []string)
	violationKey string // key used for bound violations in this scenario (default ampconn/bound)
	odcid                []byte
	trace                []string
	wire                 []string // Coq terms (WRecv n validates | WSend n)
	viol                 []ampViolation
	start                time.Time
	nUnvalidated         int  // server datagrams emitted while unvalidated
	atLimit              bool // at some point sent >= 3*delivered while unvalidated
	closed               bool // the server emitted a CONNECTION_CLOSE in an Initial packet: it closed while unvalidated,
	// its connection is gone (only closedLocalConn answers), so nothing can validate the address any more
}

type ampViolation struct {
	key, desc string
	at        int
}

func (r *ampRouter) SendPacket(p simnet.Packet) error {
	r.mu.Lock()
	now := time.Since(r.start)
	switch p.To.String() {
	case r.server:
		idx := r.nToServer
		r.nToServer++
		types, short, tokLen, dcid := quic.VerifC14DatagramInfo(p.Data)
		if r.odcid == nil && dcid != nil {
			r.odcid = dcid
		}
		if r.injectBefore != nil && r.odcid != nil {
			pkts, what := r.injectBefore(idx, r.odcid)
			for j, d := range pkts {
				r.delivered += int64(len(d))
				r.wire = append(r.wire, u.App("WRecv", u.Z(int64(len(d))), u.B(r.validated)))
				r.trace = append(r.trace, fmt.Sprintf("%v C>S(injected) %dB %s (delivered=%d validated=%v)", now, len(d), what[j], r.delivered, r.validated))
				r.mu.Unlock()
				_ = r.PerfectRouter.SendPacket(simnet.Packet{From: p.From, To: p.To, Data: d})
				r.mu.Lock()
			}
		}
		desc := ampTypes(types, short)
		crafted := false
		if r.rewriteToServer != nil && r.odcid != nil {
			if nd, what := r.rewriteToServer(idx, types, p.Data, r.odcid); nd != nil {
				desc = fmt.Sprintf("%s REPLACED-BY %s", desc, what)
				p.Data = nd
				crafted = true
				types, short, tokLen = nil, false, -1
			}
		}
		if !crafted && r.dropToServer != nil && r.dropToServer(idx, types) {
			r.trace = append(r.trace, fmt.Sprintf("%v C>S#%d %dB %s DROPPED", now, idx, len(p.Data), desc))
			r.mu.Unlock()
			return nil
		}
		r.delivered += int64(len(p.Data))
		for _, t := range types {
			if t == protocol.PacketTypeHandshake && !r.closed {
				r.validated = true
			}
		}
		if tokLen > 0 && !r.closed {
			r.validated = true
		}
		r.wire = append(r.wire, u.App("WRecv", u.Z(int64(len(p.Data))), u.B(r.validated)))
		r.trace = append(r.trace, fmt.Sprintf("%v C>S#%d %dB %s (delivered=%d validated=%v)", now, idx, len(p.Data), desc, r.delivered, r.validated))
	case r.client:
		idx := r.nToClient
		r.nToClient++
		n := int64(len(p.Data))
		r.sent += n
		types, short, _, _ := quic.VerifC14DatagramInfo(p.Data)
		isClose := r.odcid != nil && quic.VerifC14ServerInitialIsConnClose(p.Data, r.odcid)
		isRetry := len(types) == 1 && types[0] == protocol.PacketTypeRetry
		desc := ampTypes(types, short)
		if isClose {
			desc += " CONNECTION_CLOSE"
			if !r.validated {
				r.closed = true
			}
		}
		if isClose || isRetry {
			r.wire = append(r.wire, u.App("WSendU", u.Z(n))) // not gated by SendMode
		} else {
			r.wire = append(r.wire, u.App("WSend", u.Z(n)))
		}
		r.trace = append(r.trace, fmt.Sprintf("%v S>C#%d %dB %s (sent=%d)", now, idx, n, desc, r.sent))
		if !r.validated {
			r.nUnvalidated++
			if r.sent >= 3*r.delivered {
				r.atLimit = true
			}
		}
		if !r.validated && !isClose && !isRetry && r.sent-n >= 3*r.delivered && r.sent-n > 0 {
			// a datagram packed after a SendMode check must start strictly under the limit (SendMode is SendNone AT the limit)
			key := "ampconn/bound"
			if r.violationKey != "" {
				key = r.violationKey
			}
			r.viol = append(r.viol, ampViolation{key, fmt.Sprintf("unvalidated: a %d-byte datagram (%s) was started with %d bytes sent >= 3*%d delivered", n, desc, r.sent-n, r.delivered), len(r.trace)})
		}
		if !r.validated && r.sent > 3*r.delivered+n {
			key := "ampconn/bound"
			if r.violationKey != "" {
				key = r.violationKey
			}
			if isClose {
				key = "ampconn/close-ungated"
			} else if isRetry {
				key = "ampconn/retry"
			}
			r.viol = append(r.viol, ampViolation{key, fmt.Sprintf("unvalidated: server has sent %d bytes > 3*%d delivered + this datagram %d (%s)", r.sent, r.delivered, n, desc), len(r.trace)})
		}
		if r.dropToClient != nil && r.dropToClient(idx) {
			r.trace[len(r.trace)-1] += " DROPPED"
			r.mu.Unlock()
			return nil
		}
	}
	r.mu.Unlock()
	return r.PerfectRouter.SendPacket(p)
}

func ampTypes(types []protocol.PacketType, short bool) string {
	var s []string
	for _, t := range types {
		s = append(s, t.String())
	}
	if short {
		s = append(s, "1-RTT")
	}
	if len(s) == 0 {
		return "?"
	}
	return strings.Join(s, "+")
}

type lockedReader struct {
	mu sync.Mutex
	r  *u.Rng
}

func (x *lockedReader) Read(p []byte) (int, error) {
	x.mu.Lock()
	defer x.mu.Unlock()
	copy(p, x.r.Bytes(len(p)))
	return len(p), nil
}

func ampCert(r *u.Rng, extra int) tls.Certificate {
	seed := r.Bytes(ed25519.SeedSize)
	priv := ed25519.NewKeyFromSeed(seed)
	tmpl := &x509.Certificate{
		SerialNumber: big.NewInt(1),
		Subject:      pkix.Name{CommonName: "verif"},
		NotBefore:    time.Date(1999, 1, 1, 0, 0, 0, 0, time.UTC),
		NotAfter:     time.Date(2099, 1, 1, 0, 0, 0, 0, time.UTC),
		DNSNames:     []string{"localhost"},
	}
	if extra > 0 {
		tmpl.ExtraExtensions = []pkix.Extension{{Id: asn1.ObjectIdentifier{1, 3, 6, 1, 4, 1, 55555, 14}, Value: r.Bytes(extra)}}
	}
	der, err := x509.CreateCertificate(crand.Reader, tmpl, tmpl, priv.Public(), priv)
	if err != nil {
		panic(err)
	}
	return tls.Certificate{Certificate: [][]byte{der}, PrivateKey: priv}
}

const (
	ampPlain = iota
	ampBlackholeClient
	ampLossy
	ampServerAppCloses
	ampListenerCloses
	ampRetry
	ampCoalescedJunk
	ampReplayJunk
	ampNKinds
)

var ampKindNames = []string{"plain", "client-blackholed-after-k", "lossy", "server-app-closes-early", "listener-closes-early", "retry", "coalesced-junk", "replay-junk"}

func runAmpConn(w *bufio.Writer, seed uint64, n int, _ []string) {
	r := u.NewRng(seed)
	old := crand.Reader
	crand.Reader = &lockedReader{r: r.Fork()}
	defer func() { crand.Reader = old }()
	dist := map[string]int{}
	for i := 0; i < n; i++ {
		kind := i % ampNKinds
		ampConnScenario(w, r.Fork(), i, kind, dist)
	}
	for _, k := range []string{"scenarios", "handshake-completed", "handshake-failed", "server-datagrams-unvalidated", "server-blocked-at-limit", "violations", "bubble-errors"} {
		fmt.Fprintf(w, "DIST\t%s\t%d\n", k, dist[k])
	}
	for _, k := range ampKindNames {
		fmt.Fprintf(w, "DIST\tkind:%s\t%d\n", k, dist["kind:"+k])
	}
}

func ampConnScenario(w *bufio.Writer, r *u.Rng, idx, kind int, dist map[string]int) {
	extra := int(r.Pick(0, 2500, 5000, 5000, 9000, 14000))
	blackholeAfter := r.Range(1, 3)
	lossPct := r.Range(5, 40)
	closeDelay := time.Duration(r.Pick(0, 1, 1, 3, 12, 30)) * time.Millisecond
	latency := time.Duration(r.Pick(1, 5, 5, 20)) * time.Millisecond
	lossRng := r.Fork()
	clientPktSize := int(r.Pick(1200, 1200, 1252, 1280, 1350))
	if kind == ampCoalescedJunk && extra < 9000 {
		extra += 9000 // plenty to send
	}
	if kind == ampReplayJunk {
		extra = 22000 // a flight between 3x and 6x of what will have arrived
	}
	human := fmt.Sprintf("kind=%s cert-extra=%d latency=%v client-initial-packet-size=%d blackhole-after=%d loss=%d%% close-delay=%v", ampKindNames[kind], extra, latency, clientPktSize, blackholeAfter, lossPct, closeDelay)
	dist["scenarios"]++
	dist["kind:"+ampKindNames[kind]]++

	clientAddr := &net.UDPAddr{IP: net.ParseIP("1.0.0.1"), Port: 9001}
	serverAddr := &net.UDPAddr{IP: net.ParseIP("1.0.0.2"), Port: 9002}
	router := &ampRouter{client: clientAddr.String(), server: serverAddr.String()}
	switch kind {
	case ampBlackholeClient:
		router.dropToServer = func(i int, _ []protocol.PacketType) bool { return i >= blackholeAfter && i < blackholeAfter+12 }
	case ampLossy:
		router.dropToServer = func(i int, _ []protocol.PacketType) bool { return i > 0 && lossRng.Intn(100) < lossPct }
		router.dropToClient = func(i int) bool { return lossRng.Intn(100) < lossPct }
	case ampServerAppCloses, ampListenerCloses:
		// keep the server unvalidated while it closes: the client's Handshake packets are lost
		letThroughAfterClose := r.Bool()
		router.dropToServer = func(i int, types []protocol.PacketType) bool {
			if router.closed && letThroughAfterClose {
				return false // what arrives now only meets closedLocalConn (retransmits the close for packets 1, 2, 4, 8, ...)
			}
			for _, t := range types {
				if t == protocol.PacketTypeHandshake {
					return true
				}
			}
			return false
		}
	}
	if kind == ampCoalescedJunk {
		// The client's datagrams that would validate the address (they carry a Handshake packet) are replaced at the
		// router by datagrams of the SAME size that coalesce long-header packets for the connection's DCID and version
		// whose payload cannot decrypt (Initial+Initial..., Initial+0-RTT-looking, Initial+Handshake-looking,
		// Initial+garbage); Initial-only datagrams of the client get such packets appended. The server has a long
		// certificate chain, i.e. plenty to send. Delivered bytes are counted with their true size.
		nReplaced := 0
		junkRng := r.Fork()
		router.rewriteToServer = func(i int, types []protocol.PacketType, data []byte, odcid []byte) ([]byte, string) {
			hasHandshake, onlyInitial := false, len(types) > 0
			for _, t := range types {
				if t == protocol.PacketTypeHandshake {
					hasHandshake = true
				}
				if t != protocol.PacketTypeInitial {
					onlyInitial = false
				}
			}
			switch {
			case hasHandshake && nReplaced < 8:
				nReplaced++
				n := len(data)
				if n < 200 {
					n = 1200
				}
				parts := ampDatagramParts(junkRng, n)
				return quic.VerifC14CoalescedDatagram(odcid, parts, junkRng.Bytes), fmt.Sprintf("%dB %s", n, ampPartsString(parts))
			case onlyInitial && i > 0 && len(data) <= 1250 && junkRng.Bool():
				k := junkRng.Range(1, 3)
				parts := make([]quic.VerifC14Part, k)
				for j := range parts {
					parts[j] = quic.VerifC14Part{Type: int(junkRng.Pick(0, 0, 1, -1)), Size: 50}
				}
				tail := quic.VerifC14CoalescedDatagram(odcid, parts, junkRng.Bytes)
				return append(append([]byte{}, data...), tail...), fmt.Sprintf("%dB original+%s", len(data)+len(tail), ampPartsString(parts))
			}
			return nil, ""
		}
	}
	if kind == ampReplayJunk {
		// Between the client's first Initial (a part of the ClientHello) and its second one, datagrams full of
		// Handshake-/0-RTT-looking packets arrive: the server has no keys for them yet and buffers them; the second
		// Initial completes the ClientHello, the read keys appear and the buffered packets are handled again.
		// Their bytes must be credited once (when the datagrams arrived), not again on the replay.
		router.violationKey = "ampconn/replay-credited-again"
		nJunk := int(r.Pick(1, 1, 2))
		junkRng := r.Fork()
		router.injectBefore = func(i int, odcid []byte) ([][]byte, []string) {
			if i != 1 {
				return nil, nil
			}
			var ds [][]byte
			var ws []string
			for j := 0; j < nJunk; j++ {
				k := int(junkRng.Pick(1, 2, 8))
				parts := make([]quic.VerifC14Part, k)
				for x := range parts {
					parts[x] = quic.VerifC14Part{Type: int(junkRng.Pick(2, 2, 1)), Size: 1200 / k}
				}
				ds = append(ds, quic.VerifC14CoalescedDatagram(odcid, parts, junkRng.Bytes))
				ws = append(ws, ampPartsString(parts))
			}
			return ds, ws
		}
	}
	cert := ampCert(r, extra)
	var dialErr error
	completed := false

	func() {
		defer func() {
			if e := recover(); e != nil {
				dist["bubble-errors"]++
				fmt.Fprintf(w, "INFO\tampconn: scenario %d (%s) ended with: %v\n", idx, human, e)
			}
		}()
		synctest.Run(func() {
			router.start = time.Now()
			nw := &simnet.Simnet{Router: router}
			settings := simnet.NodeBiDiLinkSettings{Latency: latency}
			cc := nw.NewEndpoint(clientAddr, settings)
			sc := nw.NewEndpoint(serverAddr, settings)
			if err := nw.Start(); err != nil {
				panic(err)
			}
			str := &quic.Transport{Conn: sc}
			if kind == ampRetry {
				str.VerifySourceAddress = func(net.Addr) bool { return true }
			}
			ctr := &quic.Transport{Conn: cc}
			serverTLS := &tls.Config{Certificates: []tls.Certificate{cert}, NextProtos: []string{"verif"}, MinVersion: tls.VersionTLS13}
			clientTLS := &tls.Config{InsecureSkipVerify: true, NextProtos: []string{"verif"}, ServerName: "localhost", MinVersion: tls.VersionTLS13}
			conf := &quic.Config{HandshakeIdleTimeout: 3 * time.Second, MaxIdleTimeout: 6 * time.Second}
			clientConf := &quic.Config{HandshakeIdleTimeout: 3 * time.Second, MaxIdleTimeout: 6 * time.Second, InitialPacketSize: uint16(clientPktSize)}
			var ln interface {
				Accept(context.Context) (*quic.Conn, error)
				Close() error
			}
			var err error
			if kind == ampListenerCloses {
				// plain Listen: the connection stays "handshake in flight" inside the server while the client's
				// Handshake packets are lost; closing the listener refuses it with CONNECTION_REFUSED
				ln, err = str.Listen(serverTLS, conf)
			} else {
				ln, err = str.ListenEarly(serverTLS, conf)
			}
			if err != nil {
				panic(err)
			}
			ctx, cancel := context.WithTimeout(context.Background(), 8*time.Second)
			serverDone := make(chan struct{})
			go func() {
				defer close(serverDone)
				if kind == ampListenerCloses {
					time.Sleep(latency + closeDelay + time.Millisecond)
					ln.Close()
					return
				}
				conn, err := ln.Accept(ctx)
				if err != nil {
					return
				}
				switch kind {
				case ampServerAppCloses:
					time.Sleep(closeDelay)
					conn.CloseWithError(7, "not today")
				default:
					select {
					case <-conn.Context().Done():
					case <-ctx.Done():
					}
				}
			}()
			conn, err := ctr.Dial(ctx, serverAddr, clientTLS, clientConf)
			dialErr = err
			if err == nil {
				completed = true
				time.Sleep(50 * time.Millisecond)
				conn.CloseWithError(0, "")
			}
			time.Sleep(200 * time.Millisecond)
			cancel()
			<-serverDone
			ln.Close()
			str.Close()
			ctr.Close()
			cc.Close()
			sc.Close()
			nw.Close()
		})
	}()

	router.mu.Lock()
	defer router.mu.Unlock()
	dist["server-datagrams-unvalidated"] += router.nUnvalidated
	if router.atLimit {
		dist["server-blocked-at-limit"]++
	}
	if completed {
		dist["handshake-completed"]++
	} else {
		dist["handshake-failed"]++
	}
	seen := map[string]bool{}
	for _, v := range router.viol {
		if seen[v.key] {
			continue
		}
		seen[v.key] = true
		dist["violations"]++
		fmt.Fprintf(w, "MONFAIL\t%s\t%s\t%s || %s\n", v.key, v.desc, human, strings.Join(router.trace[:v.at], " | "))
	}
	if (kind == ampPlain || kind == ampRetry) && !completed {
		fmt.Fprintf(w, "MONFAIL\tampconn/handshake-failed\thandshake without faults did not complete: %v\t%s || %s\n", dialErr, human, strings.Join(router.trace, " | "))
	}
	nt := 0
	if router.atLimit {
		nt = 1
	}
	fmt.Fprintf(w, "CASE %d %s\n", nt, u.App("WireCase", u.List(router.wire)))
	if idx < ampNKinds {
		fmt.Fprintf(w, "SAMPLE\t%s || %s\n", human, strings.Join(router.trace, " | "))
	}
}
