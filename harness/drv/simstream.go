//go:build verif

package main

// simstream: C01 integration scenario. Client writes k streams (random sizes, chunkings),
// server reads them with random buffer sizes and echoes some back; application datagrams
// in both directions; a fault schedule acts on the datagrams. Monitors (model-independent):
//   prefix            bytes read are a prefix of the bytes written
//   eof-only-at-end   EOF only after all bytes
//   complete          writer closed and no error anywhere => reader got every byte
//   dgram             delivered application datagrams are unmodified, at most once
//   finishes          the transfer completes in virtual time (path never dead > idle timeout)
//   leak              the bubble terminates (no goroutine left blocked) after closing

import (
	"bufio"
	"bytes"
	"context"
	"errors"
	"fmt"
	"io"
	"os"
	"strings"
	"sync"
	"time"

	quic "github.com/refraction-networking/uquic"
	u "github.com/refraction-networking/uquic/internal/verifutil"
)

func init() { units["simstream"] = runSimStream }

func streamBytes(id int, n int) []byte {
	b := make([]byte, n)
	x := uint32(id*2654435761 + 12345)
	for i := range b {
		x = x*1664525 + 1013904223
		b[i] = byte(x >> 24)
	}
	return b
}

type simStreamCase struct {
	Streams   []int // sizes
	Echo      []bool
	Dgrams    int
	Faults    []fault
	LossPct   int
	Client    string // "plain", "unil", or parrot name
	Version   quic.Version
	Seed      uint64
	MaxChunk  int
	BlackoutAt, BlackoutDur int // ms after the handshake / ms: every datagram in both directions is dropped in that window (0 = none)
}

func (c simStreamCase) String() string {
	fs := make([]string, len(c.Faults))
	for i, f := range c.Faults {
		fs[i] = f.String()
	}
	return fmt.Sprintf("client=%s v=%x streams=%v echo=%v dgrams=%d loss=%d%% blackout=%d+%dms faults=[%s] seed=%d", c.Client, uint32(c.Version), c.Streams, c.Echo, c.Dgrams, c.LossPct, c.BlackoutAt, c.BlackoutDur, strings.Join(fs, " "), c.Seed)
}

var parrotIDs = map[string]quic.QUICID{
	"Chrome_115_IPv4": quic.QUICChrome_115_IPv4, "Chrome_115_IPv6": quic.QUICChrome_115_IPv6,
	"Chrome_146_IPv4": quic.QUICChrome_146_IPv4, "Chrome_146_IPv6": quic.QUICChrome_146_IPv6,
	"Firefox_116A": quic.QUICFirefox_116A, "Firefox_116B": quic.QUICFirefox_116B, "Firefox_116C": quic.QUICFirefox_116C,
}
var parrotNames = []string{"Chrome_115_IPv4", "Chrome_115_IPv6", "Chrome_146_IPv4", "Chrome_146_IPv6", "Firefox_116A", "Firefox_116B", "Firefox_116C"}

func specFor(name string) (*quic.QUICSpec, error) {
	id, ok := parrotIDs[name]
	if !ok {
		return nil, fmt.Errorf("unknown parrot %s", name)
	}
	s, err := quic.QUICID2Spec(id)
	if err != nil {
		return nil, err
	}
	return &s, nil
}

type monFail struct{ key, desc string }

func runOneSimStream(c simStreamCase) (fails []monFail, info string) {
	r := u.NewRng(c.Seed)
	var mu sync.Mutex
	fail := func(key, desc string) {
		mu.Lock()
		fails = append(fails, monFail{key, desc})
		mu.Unlock()
	}
	var elapsed time.Duration
	err := inBubble(func() {
		lossRng := u.NewRng(c.Seed ^ 0xabcdef)
		o := simOpts{
			Faults:     c.Faults,
			ServerConf: &quic.Config{EnableDatagrams: true, MaxIdleTimeout: 20 * time.Second},
			ClientConf: &quic.Config{EnableDatagrams: true, MaxIdleTimeout: 20 * time.Second, Versions: []quic.Version{c.Version}},
		}
		if c.LossPct > 0 {
			o.RandDrop = func(dir, idx int) bool { return lossRng.Intn(100) < c.LossPct }
		}
		switch c.Client {
		case "plain":
			o.PlainPath = true
		case "unil":
		default:
			sp, err := specFor(c.Client)
			if err != nil {
				fail("simstream/spec", err.Error())
				return
			}
			o.Spec = sp
		}
		e, err := newSimEnv(o)
		if err != nil {
			fail("simstream/env", err.Error())
			return
		}
		defer e.Close()
		ctx, cancel := context.WithTimeout(context.Background(), 120*time.Second)
		defer cancel()
		type srvRes struct {
			id   int
			data []byte
			err  error
		}
		nS := len(c.Streams)
		srvDone := make(chan srvRes, nS)
		var srvDgrams [][]byte
		var srvConn *quic.Conn
		srvReady := make(chan struct{})
		go func() {
			conn, err := e.Ln.Accept(ctx)
			if err != nil {
				close(srvReady)
				return
			}
			srvConn = conn
			close(srvReady)
			go func() {
				for {
					d, err := conn.ReceiveDatagram(ctx)
					if err != nil {
						return
					}
					mu.Lock()
					srvDgrams = append(srvDgrams, d)
					mu.Unlock()
				}
			}()
			for i := 0; i < nS; i++ {
				s, err := conn.AcceptStream(ctx)
				if err != nil {
					srvDone <- srvRes{-1, nil, err}
					return
				}
				go func(s *quic.Stream) {
					rr := u.NewRng(c.Seed + uint64(s.StreamID()))
					var got []byte
					var rerr error
					for {
						buf := make([]byte, rr.Range(1, c.MaxChunk))
						n, err := s.Read(buf)
						got = append(got, buf[:n]...)
						if err != nil {
							if err != io.EOF {
								rerr = err
							}
							break
						}
					}
					idx := int(s.StreamID() / 4)
					if idx < nS && c.Echo[idx] && rerr == nil {
						// echo back in chunks
						p := got
						for len(p) > 0 {
							k := rr.Range(1, c.MaxChunk)
							if k > len(p) {
								k = len(p)
							}
							if _, err := s.Write(p[:k]); err != nil {
								rerr = err
								break
							}
							p = p[k:]
						}
					}
					s.Close()
					srvDone <- srvRes{idx, got, rerr}
				}(s)
			}
		}()
		conn, err := e.Dial(ctx)
		if err != nil {
			fail("simstream/dial/"+c.Client, "dial failed: "+err.Error())
			<-srvReady
			return
		}
		<-srvReady
		start := time.Now()
		if c.BlackoutDur > 0 {
			// a path outage shorter than the idle timeout: transfers must still complete afterwards
			time.AfterFunc(time.Duration(c.BlackoutAt)*time.Millisecond, func() {
				e.Router.mu.Lock()
				e.Router.blackhole = true
				e.Router.mu.Unlock()
				time.AfterFunc(time.Duration(c.BlackoutDur)*time.Millisecond, func() {
					e.Router.mu.Lock()
					e.Router.blackhole = false
					e.Router.mu.Unlock()
				})
			})
		}
		// datagrams client -> server
		sentD := map[string]bool{}
		for i := 0; i < c.Dgrams; i++ {
			d := append([]byte(fmt.Sprintf("dg-%d-", i)), r.Bytes(r.Range(0, 200))...)
			if err := conn.SendDatagram(d); err == nil {
				sentD[string(d)] = true
			}
		}
		cliDone := make(chan srvRes, nS)
		var wg sync.WaitGroup
		for i := 0; i < nS; i++ {
			s, err := conn.OpenStreamSync(ctx)
			if err != nil {
				fail("simstream/open", err.Error())
				return
			}
			idx := int(s.StreamID() / 4)
			data := streamBytes(idx, c.Streams[idx])
			wg.Add(1)
			go func(s *quic.Stream, idx int, data []byte) {
				defer wg.Done()
				wr := u.NewRng(c.Seed*7 + uint64(idx))
				p := data
				var werr error
				for len(p) > 0 {
					k := wr.Range(1, c.MaxChunk)
					if k > len(p) {
						k = len(p)
					}
					if _, err := s.Write(p[:k]); err != nil {
						werr = err
						break
					}
					p = p[k:]
				}
				s.Close()
				if c.Echo[idx] {
					var got []byte
					var rerr error
					for {
						buf := make([]byte, wr.Range(1, c.MaxChunk))
						n, err := s.Read(buf)
						got = append(got, buf[:n]...)
						if err != nil {
							if err != io.EOF {
								rerr = err
							}
							break
						}
					}
					if werr == nil {
						werr = rerr
					}
					cliDone <- srvRes{idx, got, werr}
				} else {
					cliDone <- srvRes{idx, nil, werr}
				}
			}(s, idx, data)
		}
		check := func(side string, res srvRes) {
			if res.id < 0 {
				fail("simstream/accept", fmt.Sprintf("%s: %v", side, res.err))
				return
			}
			want := streamBytes(res.id, c.Streams[res.id])
			if side == "client" && !c.Echo[res.id] {
				if res.err != nil {
					fail("simstream/write-error", fmt.Sprintf("stream %d: %v", res.id, res.err))
				}
				return
			}
			if !bytes.HasPrefix(want, res.data) {
				fail("simstream/prefix", fmt.Sprintf("%s stream %d: %d bytes read are not a prefix of the %d written", side, res.id, len(res.data), len(want)))
			} else if res.err == nil && len(res.data) != len(want) {
				fail("simstream/eof-early", fmt.Sprintf("%s stream %d: EOF after %d of %d bytes", side, res.id, len(res.data), len(want)))
			}
			if res.err != nil {
				fail("simstream/incomplete", fmt.Sprintf("%s stream %d: error %v after %d of %d bytes (path was never dead longer than the idle timeout)", side, res.id, res.err, len(res.data), len(want)))
			}
		}
		for i := 0; i < nS; i++ {
			select {
			case res := <-srvDone:
				check("server", res)
			case <-ctx.Done():
				fail("simstream/finishes", "server side did not finish within 120 s of virtual time")
				i = nS
			}
		}
		wg.Wait()
		for i := 0; i < nS; i++ {
			select {
			case res := <-cliDone:
				check("client", res)
			case <-ctx.Done():
				fail("simstream/finishes", "client side did not finish within 120 s of virtual time")
				i = nS
			}
		}
		elapsed = time.Since(start)
		if os.Getenv("VERIF_SIMDEBUG") != "" {
			e.Router.mu.Lock()
			for _, d := range e.Router.log {
				fmt.Fprintf(os.Stderr, "DG %8.3fms dir=%d #%d len=%d %s\n", float64(d.Time)/1e6, d.Dir, d.Idx, len(d.Data), d.Act)
			}
			e.Router.mu.Unlock()
		}
		// let outstanding datagrams arrive
		time.Sleep(500 * time.Millisecond)
		mu.Lock()
		gotD := append([][]byte(nil), srvDgrams...) // fail() takes mu itself: check on a copy
		mu.Unlock()
		seen := map[string]bool{}
		for _, d := range gotD {
			if !sentD[string(d)] {
				fail("simstream/dgram-modified", fmt.Sprintf("received datagram %x was never sent", d))
			}
			if seen[string(d)] {
				fail("simstream/dgram-dup", fmt.Sprintf("datagram %q delivered twice", d[:6]))
			}
			seen[string(d)] = true
		}
		conn.CloseWithError(0, "")
		if srvConn != nil {
			select {
			case <-srvConn.Context().Done():
			case <-time.After(30 * time.Second):
				fail("simstream/close", "server connection did not learn of the close within 30 s")
			}
			var ae *quic.ApplicationError
			if err := context.Cause(srvConn.Context()); err != nil && !errors.As(err, &ae) {
				var ie *quic.IdleTimeoutError
				if !errors.As(err, &ie) {
					fail("simstream/close-cause", fmt.Sprintf("server saw %v instead of the application close", err))
				}
			}
		}
	})
	if err != nil {
		fail("simstream/leak-or-panic", err.Error())
	}
	return fails, fmt.Sprintf("elapsed=%v", elapsed)
}

func genSimStreamCase(r *u.Rng, maxSize int) simStreamCase {
	c := simStreamCase{Seed: r.U64(), MaxChunk: []int{7, 100, 1500, 20000}[r.Intn(4)]}
	k := r.Range(1, 4)
	for i := 0; i < k; i++ {
		sz := 0
		switch r.Intn(5) {
		case 0:
			sz = r.Range(0, 3)
		case 1:
			sz = r.Range(1000, 1500)
		default:
			sz = r.Range(0, maxSize)
		}
		c.Streams = append(c.Streams, sz)
		c.Echo = append(c.Echo, r.Chance(1, 3))
	}
	c.Dgrams = r.Range(0, 3)
	nf := r.Range(0, 4)
	for i := 0; i < nf; i++ {
		f := fault{Dir: r.Intn(2), Idx: r.Range(0, 25), Kind: r.Intn(fNumKinds)}
		switch f.Kind {
		case fDelay, fDupLate:
			f.Arg = r.Range(1, 300)
		case fFlip:
			f.Arg = r.Range(0, 12000)
		case fTrunc:
			f.Arg = r.Range(1, 1400)
		}
		c.Faults = append(c.Faults, f)
	}
	if r.Chance(1, 3) {
		c.LossPct = r.Range(1, 12)
	}
	if r.Chance(1, 3) {
		// outage of 1..60 RTTs (RTT 10 ms) starting while data is in flight; at least one
		// stream is made large enough to be congestion-window limited when it starts
		c.BlackoutAt = r.Range(1, 60)
		c.BlackoutDur = r.Range(10, 600)
		c.Streams[0] = maxSize*4 + r.Range(0, maxSize)
		c.LossPct = 0
	}
	switch r.Intn(4) {
	case 0:
		c.Client = "plain"
	case 1:
		c.Client = "unil"
	default:
		c.Client = []string{"Chrome_115_IPv4", "Chrome_115_IPv6", "Chrome_146_IPv4", "Chrome_146_IPv6"}[r.Intn(4)]
	}
	c.Version = quic.Version1
	if c.Client == "plain" || c.Client == "unil" {
		if r.Bool() {
			c.Version = quic.Version2
		}
	}
	return c
}

func runSimStream(w *bufio.Writer, seed uint64, n int, args []string) {
	r := u.NewRng(seed)
	maxSize := 60000
	if os.Getenv("VERIF_TIER") == "thorough" {
		maxSize = 300000
	}
	dist := map[string]int{}
	only := -1
	for _, a := range args {
		if strings.HasPrefix(a, "only=") {
			fmt.Sscanf(a, "only=%d", &only)
		}
	}
	for i := 0; i < n; i++ {
		c := genSimStreamCase(r, maxSize)
		if only >= 0 && i != only {
			continue
		}
		// Real-time watchdog: a connection that spins at one virtual instant never lets the
		// bubble advance; report it as a failure of "transfers complete" with this case as input.
		done := make(chan struct{})
		go func(c simStreamCase) {
			select {
			case <-done:
			case <-time.After(45 * time.Second):
				fmt.Fprintf(w, "CASE 1 %s\n", c.String())
				fmt.Fprintf(w, "MONFAIL\tsimstream/hang\tscenario did not finish within 45 s of REAL time (livelock at one virtual instant or deadlock outside the bubble); remaining cases skipped\t%s\n", c.String())
				w.Flush()
				os.Exit(0)
			}
		}(c)
		fails, info := runOneSimStream(c)
		close(done)
		dist["client="+c.Client]++
		dist[fmt.Sprintf("faults=%d", len(c.Faults))]++
		nt := 0
		if len(c.Faults) > 0 || c.LossPct > 0 || c.BlackoutDur > 0 {
			nt = 1
		}
		fmt.Fprintf(w, "CASE %d %s\n", nt, c.String())
		if i < 3 {
			fmt.Fprintf(w, "SAMPLE\t%s %s\n", c.String(), info)
		}
		for _, f := range fails {
			fmt.Fprintf(w, "MONFAIL\t%s\t%s\t%s\n", f.key, f.desc, c.String())
		}
	}
	for k, v := range dist {
		fmt.Fprintf(w, "DIST\t%s\t%d\n", k, v)
	}
}
