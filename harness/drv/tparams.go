//go:build verif

package main

import (
	"bufio"
	"bytes"
	"crypto/rand"
	"fmt"
	"io"
	"math"
	"math/big"
	"net/netip"
	"os"
	"sort"
	"time"

	"github.com/refraction-networking/uquic/internal/protocol"
	u "github.com/refraction-networking/uquic/internal/verifutil"
	"github.com/refraction-networking/uquic/internal/wire"
	tls "github.com/refraction-networking/utls"
)

func init() {
	units["tparams"] = runTParams
	genSources = append(genSources, wire.VerifTParamConsts)
}

// ---------------------------------------------------------------------------------------
// tparams unit (C08): internal/wire/transport_parameters.go
//   TPMarshal          struct, perspective, the 18 scripted crypto/rand bytes -> Marshal bytes
//   TPTicketMarshal    struct -> MarshalForSessionTicket bytes
//   TPUnmarshal        bytes, sentBy -> error class/aux or the struct (fresh receiver)
//   TPTicketUnmarshal  bytes -> UnmarshalFromSessionTicket
// Monitors (Go predicates written against RFC 9000 section 18 with the harness's OWN parameter
// ids and limits, independent of the model and of the package's constants):
//   tparams/panic, tparams/roundtrip, tparams/override, tparams/reject-malformed,
//   tparams/reject-duplicate, tparams/reject-perspective, tparams/reject-missing,
//   tparams/reject-range, tparams/reject-length, tparams/accept, tparams/decode-value,
//   tparams/reencode, tparams/ticket-roundtrip, tparams/rand, tparams/populate
//   ([uQUIC] PopulateFromUQUIC: ClientOverride is the spec's encoding and the struct fields agree
//   with what a peer decodes from it).
// Candidate findings (see tpFindingsAsMonfail): tparams/idle-timeout-wrap,
//   tparams/min-ack-delay-wrap, tparams/idle-timeout-zero.
// AdditionalTransportParametersClient (a map, iterated in random order) is left empty.
// ---------------------------------------------------------------------------------------

// Findings of the unchanged tree are printed as INFO lines until known_findings.json has
// entries for their keys (the unit builder must not edit that file); flip to true then.
const tpFindingsAsMonfail = true

// RFC 9000 section 18.2, RFC 9221, draft-ietf-quic-reliable-stream-reset, draft-ietf-quic-ack-frequency
const (
	tpODCID = 0x00
	tpMIT   = 0x01
	tpSRT   = 0x02
	tpMUPS  = 0x03
	tpIMD   = 0x04
	tpBL    = 0x05
	tpBR    = 0x06
	tpUNI   = 0x07
	tpMBS   = 0x08
	tpMUS   = 0x09
	tpADE   = 0x0a
	tpMAD   = 0x0b
	tpDAM   = 0x0c
	tpPA    = 0x0d
	tpACIL  = 0x0e
	tpISCID = 0x0f
	tpRSCID = 0x10
	tpMDFS  = 0x20
	tpRSA   = 0x17f7586d2cb571
	tpMINAD = 0xff04de1b

	tpV1 = uint64(63)
	tpV2 = uint64(16383)
	tpV4 = uint64(1073741823)
	tpV8 = uint64(4611686018427387903)
)

var tpBounds = []uint64{0, 1, 2, tpV1 - 1, tpV1, tpV1 + 1, tpV2 - 1, tpV2, tpV2 + 1, tpV4 - 1, tpV4, tpV4 + 1, tpV8 - 1, tpV8}

var tpNumericIDs = []uint64{tpMIT, tpMUPS, tpIMD, tpBL, tpBR, tpUNI, tpMBS, tpMUS, tpADE, tpMAD, tpACIL, tpMDFS, tpMINAD}
var tpKnownIDs = []uint64{tpODCID, tpMIT, tpSRT, tpMUPS, tpIMD, tpBL, tpBR, tpUNI, tpMBS, tpMUS, tpADE, tpMAD, tpDAM, tpPA, tpACIL, tpISCID, tpRSCID, tpMDFS, tpRSA, tpMINAD}

func tpIsNumeric(id uint64) bool {
	for _, x := range tpNumericIDs {
		if x == id {
			return true
		}
	}
	return false
}

func tpPers(p protocol.Perspective) string {
	if p == protocol.PerspectiveClient {
		return "Client"
	}
	return "Server"
}

// the harness's own varint codec (monitors must not depend on quicvarint)
func tpVarintW(b []byte, v uint64, w int) []byte {
	switch w {
	case 1:
		return append(b, byte(v))
	case 2:
		return append(b, byte(v>>8)|0x40, byte(v))
	case 4:
		return append(b, byte(v>>24)|0x80, byte(v>>16), byte(v>>8), byte(v))
	}
	return append(b, byte(v>>56)|0xc0, byte(v>>48), byte(v>>40), byte(v>>32), byte(v>>24), byte(v>>16), byte(v>>8), byte(v))
}

func tpMinW(v uint64) int {
	switch {
	case v <= tpV1:
		return 1
	case v <= tpV2:
		return 2
	case v <= tpV4:
		return 4
	}
	return 8
}

func tpVarint(b []byte, v uint64) []byte { return tpVarintW(b, v, tpMinW(v)) }

func tpReadVarint(b []byte) (v uint64, n int, ok bool) {
	if len(b) == 0 {
		return 0, 0, false
	}
	n = 1 << (b[0] >> 6)
	if len(b) < n {
		return 0, 0, false
	}
	v = uint64(b[0] & 0x3f)
	for i := 1; i < n; i++ {
		v = v<<8 | uint64(b[i])
	}
	return v, n, true
}

// one parameter of a hand-assembled list; decl >= 0 overrides the declared length
type tpParam struct {
	id   uint64
	body []byte
	decl int64
	idw  int // width of the id varint, 0 = minimal
	lw   int // width of the length varint, 0 = minimal
}

func tpP(id uint64, body []byte) tpParam { return tpParam{id: id, body: body, decl: -1} }
func tpNum(id, v uint64) tpParam         { return tpP(id, tpVarint(nil, v)) }
func tpNumW(id, v uint64, w int) tpParam { return tpP(id, tpVarintW(nil, v, w)) }

func tpEnc(ps []tpParam) []byte {
	var b []byte
	for _, p := range ps {
		if p.idw == 0 {
			b = tpVarint(b, p.id)
		} else {
			b = tpVarintW(b, p.id, p.idw)
		}
		l := uint64(len(p.body))
		if p.decl >= 0 {
			l = uint64(p.decl)
		}
		if p.lw == 0 {
			b = tpVarint(b, l)
		} else {
			b = tpVarintW(b, l, p.lw)
		}
		b = append(b, p.body...)
	}
	return b
}

// strict TLV split of an input (the harness's own reading of RFC 9000 section 18)
func tpSplit(in []byte) (ps []tpParam, ok bool) {
	for len(in) > 0 {
		id, n, k := tpReadVarint(in)
		if !k {
			return nil, false
		}
		in = in[n:]
		l, n, k := tpReadVarint(in)
		if !k {
			return nil, false
		}
		in = in[n:]
		if uint64(len(in)) < l {
			return nil, false
		}
		ps = append(ps, tpP(id, in[:l]))
		in = in[l:]
	}
	return ps, true
}

// scripted crypto/rand.Reader
type tpReader struct {
	buf   []byte
	reads int
}

func (t *tpReader) Read(p []byte) (int, error) {
	for i := range p {
		if len(t.buf) > 0 {
			p[i] = t.buf[0]
			t.buf = t.buf[1:]
		} else {
			p[i] = 0
		}
	}
	t.reads += len(p)
	return len(p), nil
}

type tpGen struct {
	w    *bufio.Writer
	r    *u.Rng
	dist map[string]int
	seen map[string]bool
	rd   *tpReader
	encs [][]byte // valid encodings collected for mutation
}

func (g *tpGen) monfail(key, desc, detail string) {
	fmt.Fprintf(g.w, "MONFAIL\t%s\t%s\t%s\n", key, desc, detail)
}

func (g *tpGen) finding(key, desc, detail string) {
	g.dist["finding:"+key]++
	if tpFindingsAsMonfail {
		g.monfail(key, desc, detail)
	} else if g.dist["finding:"+key] <= 3 {
		fmt.Fprintf(g.w, "INFO\tFINDING-CANDIDATE\t%s\t%s\t%s\n", key, desc, detail)
	}
}

func (g *tpGen) emit(nontrivial bool, term, bucket string) {
	if g.seen[term] {
		return
	}
	g.seen[term] = true
	g.dist[bucket]++
	nt := 0
	if nontrivial {
		nt = 1
	}
	fmt.Fprintf(g.w, "CASE %d %s\n", nt, term)
}

func (g *tpGen) vv() uint64 {
	r := g.r
	if r.Chance(1, 2) {
		return tpBounds[r.Intn(len(tpBounds))]
	}
	switch r.Intn(4) {
	case 0:
		return r.U64() & tpV1
	case 1:
		return r.U64() & tpV2
	case 2:
		return r.U64() & tpV4
	}
	return r.U64() & tpV8
}

func (g *tpGen) cid(n int) protocol.ConnectionID { return protocol.ParseConnectionID(g.r.Bytes(n)) }

func (g *tpGen) cidLen() int {
	return int(g.r.Pick(0, 1, 4, 8, 8, 16, 19, 20))
}

// ---------------------------------------------------------------------------------------
// the implementation under test, wrapped
// ---------------------------------------------------------------------------------------

func (g *tpGen) marshal(p *wire.TransportParameters, pers protocol.Perspective, rnd []byte) (out []byte, ok bool) {
	detail := fmt.Sprintf("pers=%s rnd=%x p=%s", tpPers(pers), rnd, wire.VerifDumpTParams(p))
	defer func() {
		if e := recover(); e != nil {
			g.monfail("tparams/panic", fmt.Sprintf("Marshal panicked: %v", e), detail)
			ok = false
		}
	}()
	g.rd.buf = append([]byte{}, rnd...)
	g.rd.reads = 0
	b := p.Marshal(pers)
	out = append([]byte{}, b...)
	want := 18
	if p.ClientOverride != nil {
		want = 0
	}
	if g.rd.reads != want {
		g.monfail("tparams/rand", fmt.Sprintf("Marshal read %d bytes from crypto/rand, expected %d", g.rd.reads, want), detail)
	}
	return out, true
}

func (g *tpGen) unmarshal(in []byte, pers protocol.Perspective, ticket bool) (p *wire.TransportParameters, cls int, aux uint64, ok bool) {
	defer func() {
		if e := recover(); e != nil {
			g.monfail("tparams/panic", fmt.Sprintf("Unmarshal panicked: %v", e), fmt.Sprintf("pers=%s ticket=%v input=%x", tpPers(pers), ticket, in))
			ok = false
		}
	}()
	b := make([]byte, len(in)) // exact capacity: reading past the end panics
	copy(b, in)
	p = &wire.TransportParameters{}
	var err error
	if ticket {
		err = p.UnmarshalFromSessionTicket(b)
	} else {
		err = p.Unmarshal(b, pers)
	}
	if !bytes.Equal(b, in) {
		g.monfail("tparams/roundtrip", "Unmarshal modified its input", fmt.Sprintf("input=%x", in))
	}
	cls, aux = wire.VerifTPErrClass(err)
	if cls == 99 {
		g.monfail("tparams/errclass", "unclassified error: "+err.Error(), fmt.Sprintf("pers=%s ticket=%v input=%x", tpPers(pers), ticket, in))
	}
	return p, cls, aux, true
}

// ---------------------------------------------------------------------------------------
// the harness's own reading of the rules (independent of the package)
// ---------------------------------------------------------------------------------------

const (
	tpMaxStreams = uint64(1) << 60
	tpMs         = int64(1000000)
	tpUs         = int64(1000)
)

// why a struct must not survive Marshal -> Unmarshal ("" = it must)
func tpStructInvalid(p *wire.TransportParameters, pers protocol.Perspective) string {
	switch {
	case p.AckDelayExponent > 20:
		return "ack_delay_exponent > 20"
	case int64(p.MaxAckDelay)/tpMs >= 1<<14:
		return "max_ack_delay >= 2^14 ms"
	case p.MaxUDPPayloadSize > 0 && p.MaxUDPPayloadSize < 1200:
		return "max_udp_payload_size < 1200"
	case uint64(p.MaxBidiStreamNum) > tpMaxStreams:
		return "initial_max_streams_bidi > 2^60"
	case uint64(p.MaxUniStreamNum) > tpMaxStreams:
		return "initial_max_streams_uni > 2^60"
	case p.ActiveConnectionIDLimit < 2:
		return "active_connection_id_limit < 2"
	case p.MinAckDelay != nil && int64(*p.MinAckDelay)/tpUs*tpUs > int64(p.MaxAckDelay)/tpMs*tpMs:
		return "min_ack_delay > max_ack_delay"
	case pers == protocol.PerspectiveServer && p.PreferredAddress != nil && p.PreferredAddress.ConnectionID.Len() == 0:
		return "preferred_address with a zero-length connection ID"
	}
	return ""
}

func tpNormAddr(a netip.AddrPort) netip.AddrPort {
	if !a.IsValid() || a.Port() == 0 || a.Addr().IsUnspecified() {
		return netip.AddrPort{}
	}
	return a
}

// what Unmarshal(Marshal(p)) has to deliver
func tpStructExpect(p *wire.TransportParameters, pers protocol.Perspective) *wire.TransportParameters {
	q := *p
	q.ClientOverride = nil
	q.MaxIdleTimeout = time.Duration(int64(p.MaxIdleTimeout) / tpMs * tpMs)
	q.AdvertisedMaxIdleTimeout = q.MaxIdleTimeout // exactly what Marshal put on the wire
	if q.MaxIdleTimeout != 0 && q.MaxIdleTimeout < 5*time.Second { // 0 = no idle timeout (RFC 9000 18.2)
		q.MaxIdleTimeout = 5 * time.Second
	}
	q.MaxAckDelay = time.Duration(int64(p.MaxAckDelay) / tpMs * tpMs)
	if q.MaxUDPPayloadSize == 0 {
		q.MaxUDPPayloadSize = protocol.ByteCount(tpV8)
	}
	if p.MinAckDelay != nil {
		d := time.Duration(int64(*p.MinAckDelay) / tpUs * tpUs)
		q.MinAckDelay = &d
	}
	if pers == protocol.PerspectiveClient {
		q.StatelessResetToken = nil
		q.OriginalDestinationConnectionID = protocol.ConnectionID{}
		q.PreferredAddress = nil
		q.RetrySourceConnectionID = nil
	} else if p.PreferredAddress != nil {
		pa := *p.PreferredAddress
		pa.IPv4 = tpNormAddr(pa.IPv4)
		pa.IPv6 = tpNormAddr(pa.IPv6)
		q.PreferredAddress = &pa
	}
	return &q
}

func tpTicketInvalid(p *wire.TransportParameters) string {
	switch {
	case uint64(p.MaxBidiStreamNum) > tpMaxStreams:
		return "initial_max_streams_bidi > 2^60"
	case uint64(p.MaxUniStreamNum) > tpMaxStreams:
		return "initial_max_streams_uni > 2^60"
	case p.ActiveConnectionIDLimit < 2:
		return "active_connection_id_limit < 2"
	}
	return ""
}

func tpTicketExpect(p *wire.TransportParameters) *wire.TransportParameters {
	return &wire.TransportParameters{
		InitialMaxStreamDataBidiLocal: p.InitialMaxStreamDataBidiLocal, InitialMaxStreamDataBidiRemote: p.InitialMaxStreamDataBidiRemote,
		InitialMaxStreamDataUni: p.InitialMaxStreamDataUni, InitialMaxData: p.InitialMaxData,
		MaxBidiStreamNum: p.MaxBidiStreamNum, MaxUniStreamNum: p.MaxUniStreamNum,
		ActiveConnectionIDLimit: p.ActiveConnectionIDLimit, MaxDatagramFrameSize: p.MaxDatagramFrameSize,
		EnableResetStreamAt: p.EnableResetStreamAt,
		AckDelayExponent:    3, MaxAckDelay: 25 * time.Millisecond,
	}
}

// verdict of the harness on a byte string
type tpVerdict struct {
	key, why string // non-empty key: the input must be rejected
	expect   *wire.TransportParameters
	zeroIdle bool // max_idle_timeout sent as an explicit 0 (= no idle timeout, like an absent parameter)
	wrapIdle bool // max_idle_timeout does not fit a time.Duration
	wrapMin  bool // min_ack_delay does not fit a time.Duration
}

func tpSat(v uint64, unit int64) int64 { // v*unit saturating at MaxInt64
	x := new(big.Int).Mul(new(big.Int).SetUint64(v), big.NewInt(unit))
	if !x.IsInt64() {
		return math.MaxInt64
	}
	return x.Int64()
}

// tpJudge decides, from RFC 9000 section 18 alone, whether `in` (sent by pers) has to be
// rejected, and what it decodes to otherwise.
func tpJudge(in []byte, pers protocol.Perspective, ticket bool) tpVerdict {
	ps, ok := tpSplit(in)
	if !ok {
		return tpVerdict{key: "tparams/reject-malformed", why: "not a sequence of (id, length, value) triples"}
	}
	e := &wire.TransportParameters{AckDelayExponent: 3, MaxAckDelay: 25 * time.Millisecond, MaxDatagramFrameSize: -1, ActiveConnectionIDLimit: 2}
	v := tpVerdict{}
	seen := map[uint64]bool{}
	set := func(key, why string) {
		if v.key == "" {
			v.key, v.why = key, why
		}
	}
	var minadUs uint64
	hasMinad := false
	madMs := uint64(25)
	for _, p := range ps {
		if seen[p.id] {
			set("tparams/reject-duplicate", fmt.Sprintf("parameter %#x occurs twice", p.id))
		}
		seen[p.id] = true
		if pers == protocol.PerspectiveClient && (p.id == tpODCID || p.id == tpSRT || p.id == tpPA || p.id == tpRSCID) {
			set("tparams/reject-perspective", fmt.Sprintf("client sent the server-only parameter %#x", p.id))
		}
		if tpIsNumeric(p.id) {
			val, n, k := tpReadVarint(p.body)
			if !k || n != len(p.body) {
				set("tparams/reject-length", fmt.Sprintf("value of the integer parameter %#x is not one varint", p.id))
				continue
			}
			switch p.id {
			case tpMIT:
				d := tpSat(val, tpMs)
				if val > uint64(math.MaxInt64)/uint64(tpMs) {
					v.wrapIdle = true
				}
				e.AdvertisedMaxIdleTimeout = time.Duration(d)
				if val == 0 {
					v.zeroIdle = true
				} else if d < int64(5*time.Second) {
					d = int64(5 * time.Second)
				}
				e.MaxIdleTimeout = time.Duration(d)
			case tpMUPS:
				if val < 1200 {
					set("tparams/reject-range", "max_udp_payload_size < 1200")
				}
				e.MaxUDPPayloadSize = protocol.ByteCount(val)
			case tpIMD:
				e.InitialMaxData = protocol.ByteCount(val)
			case tpBL:
				e.InitialMaxStreamDataBidiLocal = protocol.ByteCount(val)
			case tpBR:
				e.InitialMaxStreamDataBidiRemote = protocol.ByteCount(val)
			case tpUNI:
				e.InitialMaxStreamDataUni = protocol.ByteCount(val)
			case tpMBS:
				if val > tpMaxStreams {
					set("tparams/reject-range", "initial_max_streams_bidi > 2^60")
				}
				e.MaxBidiStreamNum = protocol.StreamNum(val)
			case tpMUS:
				if val > tpMaxStreams {
					set("tparams/reject-range", "initial_max_streams_uni > 2^60")
				}
				e.MaxUniStreamNum = protocol.StreamNum(val)
			case tpADE:
				if val > 20 {
					set("tparams/reject-range", "ack_delay_exponent > 20")
				}
				e.AckDelayExponent = uint8(val)
			case tpMAD:
				if val >= 1<<14 {
					set("tparams/reject-range", "max_ack_delay >= 2^14")
				}
				madMs = val
				e.MaxAckDelay = time.Duration(tpSat(val, tpMs))
			case tpACIL:
				if val < 2 {
					set("tparams/reject-range", "active_connection_id_limit < 2")
				}
				e.ActiveConnectionIDLimit = val
			case tpMDFS:
				e.MaxDatagramFrameSize = protocol.ByteCount(val)
			case tpMINAD:
				hasMinad, minadUs = true, val
				if val > uint64(math.MaxInt64)/uint64(tpUs) {
					v.wrapMin = true
				}
				d := time.Duration(tpSat(val, tpUs))
				e.MinAckDelay = &d
			}
			continue
		}
		switch p.id {
		case tpDAM:
			if len(p.body) != 0 {
				set("tparams/reject-length", "disable_active_migration with a value")
			}
			e.DisableActiveMigration = true
		case tpRSA:
			if len(p.body) != 0 {
				set("tparams/reject-length", "reset_stream_at with a value")
			}
			e.EnableResetStreamAt = true
		case tpSRT:
			if len(p.body) != 16 {
				set("tparams/reject-length", "stateless_reset_token not 16 bytes")
			} else {
				var t protocol.StatelessResetToken
				copy(t[:], p.body)
				e.StatelessResetToken = &t
			}
		case tpODCID, tpISCID, tpRSCID:
			if len(p.body) > 20 {
				set("tparams/reject-range", fmt.Sprintf("connection ID parameter %#x longer than 20 bytes", p.id))
				continue
			}
			c := protocol.ParseConnectionID(p.body)
			switch p.id {
			case tpODCID:
				e.OriginalDestinationConnectionID = c
			case tpISCID:
				e.InitialSourceConnectionID = c
			default:
				e.RetrySourceConnectionID = &c
			}
		case tpPA:
			b := p.body
			if len(b) < 25 || b[24] == 0 || b[24] > 20 || len(b) != 41+int(b[24]) {
				set("tparams/reject-length", "malformed preferred_address")
				continue
			}
			pa := &wire.PreferredAddress{}
			var a4 [4]byte
			copy(a4[:], b)
			port4 := uint16(b[4])<<8 | uint16(b[5])
			if port4 != 0 && a4 != [4]byte{} {
				pa.IPv4 = netip.AddrPortFrom(netip.AddrFrom4(a4), port4)
			}
			var a6 [16]byte
			copy(a6[:], b[6:])
			port6 := uint16(b[22])<<8 | uint16(b[23])
			if port6 != 0 && a6 != [16]byte{} {
				pa.IPv6 = netip.AddrPortFrom(netip.AddrFrom16(a6), port6)
			}
			pa.ConnectionID = protocol.ParseConnectionID(b[25 : 25+int(b[24])])
			copy(pa.StatelessResetToken[:], b[25+int(b[24]):])
			e.PreferredAddress = pa
		}
	}
	if hasMinad {
		// true arithmetic: min_ack_delay (us) must not exceed max_ack_delay (ms)
		if new(big.Int).Mul(new(big.Int).SetUint64(minadUs), big.NewInt(tpUs)).Cmp(new(big.Int).Mul(new(big.Int).SetUint64(madMs), big.NewInt(tpMs))) > 0 {
			if v.wrapMin {
				set("tparams/min-ack-delay-wrap", "min_ack_delay > max_ack_delay")
			} else {
				set("tparams/reject-range", "min_ack_delay > max_ack_delay")
			}
		}
	}
	if !ticket {
		if pers == protocol.PerspectiveServer && !seen[tpODCID] {
			set("tparams/reject-missing", "server did not send original_destination_connection_id")
		}
		if !seen[tpISCID] {
			set("tparams/reject-missing", "initial_source_connection_id missing")
		}
		if e.MaxUDPPayloadSize == 0 {
			e.MaxUDPPayloadSize = protocol.ByteCount(tpV8)
		}
	}
	if v.key == "" {
		v.expect = e
	}
	return v
}

// ---------------------------------------------------------------------------------------
// byte-string cases
// ---------------------------------------------------------------------------------------

func (g *tpGen) emitParse(in []byte, pers protocol.Perspective, ticket bool, bucket string) (*wire.TransportParameters, int) {
	var body []byte
	if ticket { // the version prefix is UnmarshalFromSessionTicket's own business
		ver, n, ok := tpReadVarint(in)
		if ok && ver == 1 {
			body = in[n:]
		}
	} else {
		body = in
	}
	p, cls, aux, ok := g.unmarshal(in, pers, ticket)
	if !ok {
		return nil, -1
	}
	detail := fmt.Sprintf("pers=%s ticket=%v input=%x", tpPers(pers), ticket, in)
	g.dist[fmt.Sprintf("cls:%d", cls)]++
	res := u.Opt(cls == 0, wire.VerifDumpTParams(p))
	if ticket {
		g.emit(cls == 0 || cls >= 3, u.App("TPTicketUnmarshal", u.Hex(in), u.Z(int64(cls)), u.ZU(aux), res), "parse-ticket:"+bucket)
	} else {
		g.emit(cls == 0 || cls >= 3, u.App("TPUnmarshal", tpPers(pers), u.Hex(in), u.Z(int64(cls)), u.ZU(aux), res), "parse:"+bucket)
	}
	if ticket && body == nil {
		if cls == 0 {
			g.monfail("tparams/reject-malformed", "session-ticket parameters with a wrong or missing version accepted", detail)
		}
		return p, cls
	}
	if ticket {
		pers = protocol.PerspectiveServer
	}
	v := tpJudge(body, pers, ticket)
	switch {
	case v.key != "" && cls == 0:
		if v.key == "tparams/min-ack-delay-wrap" {
			g.finding(v.key, "min_ack_delay larger than max_ack_delay accepted (the microsecond value wraps around int64): "+fmt.Sprint(*p.MinAckDelay), detail)
		} else {
			g.monfail(v.key, "accepted although "+v.why, detail)
		}
	case v.key == "" && cls != 0:
		g.monfail("tparams/accept", fmt.Sprintf("valid parameters rejected (class %d)", cls), detail)
	case v.key == "" && cls == 0:
		if !wire.VerifTParamsEqual(p, v.expect) {
			q := *p
			if v.wrapIdle || (v.zeroIdle && p.MaxIdleTimeout == 5*time.Second) {
				q.MaxIdleTimeout = v.expect.MaxIdleTimeout
				q.AdvertisedMaxIdleTimeout = v.expect.AdvertisedMaxIdleTimeout
			}
			if v.wrapMin {
				q.MinAckDelay = v.expect.MinAckDelay
			}
			if wire.VerifTParamsEqual(&q, v.expect) {
				if v.wrapIdle && p.MaxIdleTimeout != v.expect.MaxIdleTimeout {
					g.finding("tparams/idle-timeout-wrap", fmt.Sprintf("max_idle_timeout beyond 2^63 ns decodes to %s (int64 wrap-around) instead of saturating", p.MaxIdleTimeout), detail)
				}
				if v.zeroIdle && p.MaxIdleTimeout != 0 {
					g.finding("tparams/idle-timeout-zero", fmt.Sprintf("an explicit max_idle_timeout of 0 decodes to %s, an absent one to 0s (RFC 9000 18.2: both disable the idle timeout)", p.MaxIdleTimeout), detail)
				}
				if v.wrapMin && *p.MinAckDelay != *v.expect.MinAckDelay {
					g.finding("tparams/min-ack-delay-wrap", fmt.Sprintf("min_ack_delay beyond 2^63 ns decodes to %s", *p.MinAckDelay), detail)
				}
			} else {
				g.monfail("tparams/decode-value", "decoded "+wire.VerifDumpTParams(p)+" expected "+wire.VerifDumpTParams(v.expect), detail)
			}
		}
	}
	if cls == 0 {
		g.checkReencode(p, pers, ticket, detail)
		if _, err := wire.VerifTPString(p); err != nil {
			g.monfail("tparams/panic", err.Error(), detail)
		}
	}
	return p, cls
}

// unmarshal -> Marshal -> unmarshal is a fixpoint (the greased parameter is skipped)
func (g *tpGen) checkReencode(p *wire.TransportParameters, pers protocol.Perspective, ticket bool, detail string) {
	if ticket {
		var enc []byte
		func() {
			defer func() {
				if e := recover(); e != nil {
					g.monfail("tparams/panic", fmt.Sprintf("MarshalForSessionTicket of parsed parameters panicked: %v", e), detail)
				}
			}()
			enc = p.MarshalForSessionTicket(nil)
		}()
		if enc == nil {
			return
		}
		q, cls, _, ok := g.unmarshal(enc, pers, true)
		if !ok {
			return
		}
		if cls != 0 {
			g.monfail("tparams/reencode", fmt.Sprintf("re-encoded ticket parameters rejected (class %d)", cls), detail)
			return
		}
		if !wire.VerifTParamsEqual(q, tpTicketExpect(p)) {
			g.monfail("tparams/reencode", "re-encoded ticket parameters decode to "+wire.VerifDumpTParams(q), detail)
		}
		return
	}
	enc, ok := g.marshal(p, pers, g.r.Bytes(18))
	if !ok {
		return
	}
	q, cls, _, ok := g.unmarshal(enc, pers, false)
	if !ok {
		return
	}
	if cls != 0 {
		g.monfail("tparams/reencode", fmt.Sprintf("re-encoded parameters rejected (class %d)", cls), detail)
		return
	}
	if wire.VerifTParamsEqual(p, q) {
		return
	}
	// the only tolerated difference: durations that are not whole ms / us, which Unmarshal
	// can only produce by int64 wrap-around (reported separately)
	q2 := *q
	wrap := false
	if q.AdvertisedMaxIdleTimeout == time.Duration(int64(p.MaxIdleTimeout)/tpMs*tpMs) && p.AdvertisedMaxIdleTimeout != q.AdvertisedMaxIdleTimeout {
		// by design: the receive-side field AdvertisedMaxIdleTimeout (< 5 s, or saturated) is not what Marshal sends
		q2.AdvertisedMaxIdleTimeout, wrap = p.AdvertisedMaxIdleTimeout, true
		g.dist["reencode:advertised-idle-timeout-not-marshalled"]++
	}
	if p.MaxIdleTimeout == 0 && q.MaxIdleTimeout == 5*time.Second {
		// an absent max_idle_timeout decodes to 0, Marshal then sends an explicit 0, which decodes to
		// MinRemoteIdleTimeout (RFC 9000 18.2: 0 and absent both mean "no idle timeout")
		g.finding("tparams/idle-timeout-zero", "max_idle_timeout absent decodes to 0s, but an explicit 0 (which Marshal sends for it) decodes to 5s", detail)
		q2.MaxIdleTimeout, wrap = 0, true
	}
	if int64(p.MaxIdleTimeout)%tpMs != 0 {
		q2.MaxIdleTimeout, wrap = p.MaxIdleTimeout, true
	}
	if p.MinAckDelay != nil && int64(*p.MinAckDelay)%tpUs != 0 {
		q2.MinAckDelay, wrap = p.MinAckDelay, true
	}
	if wrap && wire.VerifTParamsEqual(p, &q2) {
		g.dist["reencode:wrapped-duration"]++
		return
	}
	g.monfail("tparams/reencode", "parse(Marshal(parse(b))) = "+wire.VerifDumpTParams(q)+" differs from parse(b) = "+wire.VerifDumpTParams(p), detail)
}

// ---------------------------------------------------------------------------------------
// struct cases
// ---------------------------------------------------------------------------------------

func (g *tpGen) addr4() netip.AddrPort {
	var a [4]byte
	copy(a[:], g.r.Bytes(4))
	return netip.AddrPortFrom(netip.AddrFrom4(a), uint16(g.r.Range(1, 65535)))
}

func (g *tpGen) addr6() netip.AddrPort {
	var a [16]byte
	copy(a[:], g.r.Bytes(16))
	return netip.AddrPortFrom(netip.AddrFrom16(a), uint16(g.r.Range(1, 65535)))
}

func (g *tpGen) pa(cidLen int) *wire.PreferredAddress {
	pa := &wire.PreferredAddress{ConnectionID: g.cid(cidLen)}
	copy(pa.StatelessResetToken[:], g.r.Bytes(16))
	if g.r.Chance(3, 4) {
		pa.IPv4 = g.addr4()
	}
	if g.r.Chance(3, 4) {
		pa.IPv6 = g.addr6()
	}
	return pa
}

// a struct every rule accepts
func (g *tpGen) base() *wire.TransportParameters {
	r := g.r
	p := &wire.TransportParameters{
		InitialMaxStreamDataBidiLocal:  protocol.ByteCount(g.vv()),
		InitialMaxStreamDataBidiRemote: protocol.ByteCount(g.vv()),
		InitialMaxStreamDataUni:        protocol.ByteCount(g.vv()),
		InitialMaxData:                 protocol.ByteCount(g.vv()),
		MaxAckDelay:                    time.Duration(r.Pick(0, 1, 25, 25, 26, 63, 64, 1000, 16383))*time.Millisecond + time.Duration(r.Pick(0, 0, 1, 999999)),
		AckDelayExponent:               uint8(r.Pick(0, 3, 3, 4, 10, 20)),
		DisableActiveMigration:         r.Bool(),
		MaxUDPPayloadSize:              protocol.ByteCount(r.Pick(0, 1200, 1252, 1452, 16383, 16384, 65527)),
		MaxUniStreamNum:                protocol.StreamNum(g.vv() % (tpMaxStreams + 1)),
		MaxBidiStreamNum:               protocol.StreamNum(g.vv() % (tpMaxStreams + 1)),
		MaxIdleTimeout:                 time.Duration(r.Pick(0, 1, 4999, 5000, 5001, 30000, 63, 64, 16383, 16384, 1073741823, 1073741824))*time.Millisecond + time.Duration(r.Pick(0, 0, 1, 999999)),
		OriginalDestinationConnectionID: g.cid(g.cidLen()),
		InitialSourceConnectionID:       g.cid(g.cidLen()),
		ActiveConnectionIDLimit:         uint64(r.Pick(2, 2, 3, 4, 8, 63, 64, 16384)),
		MaxDatagramFrameSize:            protocol.ByteCount(r.Pick(-1, -1, 0, 1200, 16383, 16384, 65535)),
		EnableResetStreamAt:             r.Bool(),
	}
	if r.Bool() {
		c := g.cid(g.cidLen())
		p.RetrySourceConnectionID = &c
	}
	if r.Bool() {
		var t protocol.StatelessResetToken
		copy(t[:], r.Bytes(16))
		p.StatelessResetToken = &t
	}
	if r.Chance(1, 3) {
		p.PreferredAddress = g.pa(int(r.Pick(1, 4, 8, 20)))
	}
	if r.Chance(1, 3) {
		d := time.Duration(int64(p.MaxAckDelay) / tpMs * tpMs * int64(r.Intn(3)) / 2)
		p.MinAckDelay = &d
	}
	return p
}

func (g *tpGen) rnd18() []byte {
	b := g.r.Bytes(18)
	if g.r.Chance(1, 4) {
		b[0] = byte(g.r.Pick(0, 1, 2, 254, 255)) // grease ids 27 .. 7932 (1-, 2-byte varints)
	}
	if g.r.Chance(1, 4) {
		b[1] = byte(g.r.Pick(0, 15, 16, 31, 255)) // grease length 0 / 15
	}
	return b
}

func (g *tpGen) doStruct(p *wire.TransportParameters, pers protocol.Perspective, bucket string) {
	rnd := g.rnd18()
	dump := wire.VerifDumpTParams(p)
	enc, ok := g.marshal(p, pers, rnd)
	if !ok {
		return
	}
	g.emit(true, u.App("TPMarshal", tpPers(pers), u.Hex(rnd), dump, u.Hex(enc)), "marshal:"+bucket)
	detail := fmt.Sprintf("pers=%s rnd=%x p=%s enc=%x", tpPers(pers), rnd, dump, enc)
	if p.ClientOverride != nil {
		if !bytes.Equal(enc, p.ClientOverride) {
			g.monfail("tparams/override", "Marshal does not return ClientOverride verbatim", detail)
		}
		g.emitParse(enc, pers, false, "override")
		return
	}
	// the greased parameter comes first and is well formed
	if id, n, ok := tpReadVarint(enc); !ok || id != 27+31*uint64(rnd[0]) {
		g.monfail("tparams/roundtrip", "first parameter is not the greased one", detail)
	} else if l, _, ok := tpReadVarint(enc[n:]); !ok || l != uint64(rnd[1]%16) {
		g.monfail("tparams/roundtrip", "greased parameter has the wrong length", detail)
	}
	q, cls := g.emitParse(enc, pers, false, bucket)
	if cls < 0 {
		return
	}
	if why := tpStructInvalid(p, pers); why != "" {
		if cls == 0 {
			g.monfail("tparams/reject-range", "Unmarshal(Marshal(p)) accepted although "+why, detail)
		}
		return
	}
	if cls != 0 {
		g.monfail("tparams/roundtrip", fmt.Sprintf("Unmarshal(Marshal(p)) fails with class %d", cls), detail)
		return
	}
	if e := tpStructExpect(p, pers); !wire.VerifTParamsEqual(q, e) {
		g.monfail("tparams/roundtrip", "Unmarshal(Marshal(p)) = "+wire.VerifDumpTParams(q)+" expected "+wire.VerifDumpTParams(e), detail)
	}
	if len(enc) < 160 {
		g.encs = append(g.encs, enc)
	}
}

func (g *tpGen) doTicket(p *wire.TransportParameters, bucket string) {
	dump := wire.VerifDumpTParams(p)
	prefix := g.r.Bytes(g.r.Intn(4))
	var out []byte
	ok := true
	func() {
		defer func() {
			if e := recover(); e != nil {
				g.monfail("tparams/panic", fmt.Sprintf("MarshalForSessionTicket panicked: %v", e), "p="+dump)
				ok = false
			}
		}()
		out = p.MarshalForSessionTicket(append(make([]byte, 0, 8), prefix...))
	}()
	if !ok {
		return
	}
	if !bytes.HasPrefix(out, prefix) {
		g.monfail("tparams/ticket-roundtrip", "MarshalForSessionTicket damaged the bytes before it", "p="+dump)
		return
	}
	enc := append([]byte{}, out[len(prefix):]...)
	g.emit(true, u.App("TPTicketMarshal", dump, u.Hex(enc)), "marshal-ticket:"+bucket)
	detail := fmt.Sprintf("p=%s enc=%x", dump, enc)
	if p.ClientOverride != nil {
		if !bytes.Equal(enc, p.ClientOverride) {
			g.monfail("tparams/override", "MarshalForSessionTicket does not append ClientOverride verbatim", detail)
		}
		g.emitParse(enc, protocol.PerspectiveServer, true, "override")
		return
	}
	q, cls := g.emitParse(enc, protocol.PerspectiveServer, true, bucket)
	if cls < 0 {
		return
	}
	if why := tpTicketInvalid(p); why != "" {
		if cls == 0 {
			g.monfail("tparams/reject-range", "ticket parameters accepted although "+why, detail)
		}
		return
	}
	if cls != 0 {
		g.monfail("tparams/ticket-roundtrip", fmt.Sprintf("UnmarshalFromSessionTicket(MarshalForSessionTicket(p)) fails with class %d", cls), detail)
		return
	}
	if e := tpTicketExpect(p); !wire.VerifTParamsEqual(q, e) {
		g.monfail("tparams/ticket-roundtrip", "ticket round trip gives "+wire.VerifDumpTParams(q)+" expected "+wire.VerifDumpTParams(e), detail)
	}
	if len(enc) < 100 {
		g.encs = append(g.encs, enc)
	}
}

type tpSweep struct {
	name   string
	vals   []uint64
	set    func(p *wire.TransportParameters, v uint64)
	ticket bool
}

func tpDur(p **time.Duration, v uint64) {
	d := time.Duration(v)
	*p = &d
}

func (g *tpGen) sweeps() []tpSweep {
	ms := uint64(tpMs)
	streams := append(append([]uint64{}, tpBounds...), tpMaxStreams-1, tpMaxStreams, tpMaxStreams+1)
	cidLens := make([]uint64, 21)
	for i := range cidLens {
		cidLens[i] = uint64(i)
	}
	return []tpSweep{
		{"imsd_bl", tpBounds, func(p *wire.TransportParameters, v uint64) { p.InitialMaxStreamDataBidiLocal = protocol.ByteCount(v) }, true},
		{"imsd_br", tpBounds, func(p *wire.TransportParameters, v uint64) { p.InitialMaxStreamDataBidiRemote = protocol.ByteCount(v) }, true},
		{"imsd_uni", tpBounds, func(p *wire.TransportParameters, v uint64) { p.InitialMaxStreamDataUni = protocol.ByteCount(v) }, true},
		{"imd", tpBounds, func(p *wire.TransportParameters, v uint64) { p.InitialMaxData = protocol.ByteCount(v) }, true},
		{"mbs", streams, func(p *wire.TransportParameters, v uint64) { p.MaxBidiStreamNum = protocol.StreamNum(v) }, true},
		{"mus", streams, func(p *wire.TransportParameters, v uint64) { p.MaxUniStreamNum = protocol.StreamNum(v) }, true},
		{"mit", []uint64{0, 1, ms - 1, ms, 4999 * ms, 5000*ms - 1, 5000 * ms, 5000*ms + 1, 5001 * ms, 63 * ms, 64 * ms, 16383 * ms, 16384 * ms, tpV4 * ms, (tpV4 + 1) * ms, math.MaxInt64},
			func(p *wire.TransportParameters, v uint64) { p.MaxIdleTimeout = time.Duration(v) }, false},
		{"mups", []uint64{0, 1, 63, 64, 1199, 1200, 1201, 1452, 16383, 16384, 65527, tpV4, tpV4 + 1, tpV8},
			func(p *wire.TransportParameters, v uint64) { p.MaxUDPPayloadSize = protocol.ByteCount(v) }, false},
		{"mad", []uint64{0, 1, ms - 1, ms, 24 * ms, 25*ms - 1, 25 * ms, 25*ms + 1, 26 * ms, 63 * ms, 64 * ms, 16383 * ms, 16383*ms + ms - 1, 16384 * ms, 16385 * ms, 1 << 40},
			func(p *wire.TransportParameters, v uint64) { p.MaxAckDelay = time.Duration(v); p.MinAckDelay = nil }, false},
		{"ade", []uint64{0, 1, 2, 3, 4, 19, 20, 21, 63, 64, 255},
			func(p *wire.TransportParameters, v uint64) { p.AckDelayExponent = uint8(v) }, false},
		{"acil", []uint64{0, 1, 2, 3, 4, 63, 64, 16383, 16384, tpV4, tpV4 + 1, tpV8},
			func(p *wire.TransportParameters, v uint64) { p.ActiveConnectionIDLimit = v }, true},
		{"mdfs", []uint64{math.MaxUint64, 0, 1, 63, 64, 1200, 16383, 16384, 65535, tpV4, tpV4 + 1, tpV8},
			func(p *wire.TransportParameters, v uint64) { p.MaxDatagramFrameSize = protocol.ByteCount(v) }, true},
		// min_ack_delay against the default max_ack_delay of 25 ms
		{"minad", []uint64{0, 1, 999, 1000, 1001, 63000, 64000, 16383000, 16384000, 25*ms - 1000, 25*ms - 1, 25 * ms, 25*ms + 999, 25*ms + 1000, tpV4 * 1000, (tpV4 + 1) * 1000, math.MaxInt64},
			func(p *wire.TransportParameters, v uint64) { p.MaxAckDelay = 25 * time.Millisecond; tpDur(&p.MinAckDelay, v) }, false},
		// min_ack_delay against an explicit max_ack_delay of 7 ms + 999999 ns
		{"minad-vs-mad", []uint64{6999000, 7 * ms, 7*ms + 999, 7*ms + 1000, 7*ms + 999999, 8 * ms},
			func(p *wire.TransportParameters, v uint64) { p.MaxAckDelay = 7*time.Millisecond + 999999; tpDur(&p.MinAckDelay, v) }, false},
		{"odcid", cidLens, func(p *wire.TransportParameters, v uint64) { p.OriginalDestinationConnectionID = g.cid(int(v)) }, false},
		{"iscid", cidLens, func(p *wire.TransportParameters, v uint64) { p.InitialSourceConnectionID = g.cid(int(v)) }, false},
		{"rscid", append([]uint64{99}, cidLens...), func(p *wire.TransportParameters, v uint64) {
			p.RetrySourceConnectionID = nil
			if v <= 20 {
				c := g.cid(int(v))
				p.RetrySourceConnectionID = &c
			}
		}, false},
		{"srt", []uint64{0, 1, 2}, func(p *wire.TransportParameters, v uint64) {
			p.StatelessResetToken = nil
			if v > 0 {
				var t protocol.StatelessResetToken
				if v == 2 {
					copy(t[:], g.r.Bytes(16))
				}
				p.StatelessResetToken = &t
			}
		}, false},
		{"pa", []uint64{0, 1, 2, 3, 4, 5, 6, 7, 8, 9, 10, 11}, func(p *wire.TransportParameters, v uint64) {
			p.PreferredAddress = nil
			if v == 0 {
				return
			}
			pa := &wire.PreferredAddress{ConnectionID: g.cid(int([]int{0, 1, 1, 4, 8, 19, 20, 20, 8, 8, 8, 8}[v]))}
			copy(pa.StatelessResetToken[:], g.r.Bytes(16))
			pa.IPv4, pa.IPv6 = g.addr4(), g.addr6()
			switch v {
			case 2:
				pa.IPv4 = netip.AddrPort{}
			case 3:
				pa.IPv6 = netip.AddrPort{}
			case 4:
				pa.IPv4, pa.IPv6 = netip.AddrPort{}, netip.AddrPort{}
			case 8: // valid address, port 0: dropped by the parser
				pa.IPv4 = netip.AddrPortFrom(pa.IPv4.Addr(), 0)
			case 9:
				pa.IPv6 = netip.AddrPortFrom(pa.IPv6.Addr(), 0)
			case 10: // 0.0.0.0 and :: with a port: dropped by the parser
				pa.IPv4 = netip.AddrPortFrom(netip.AddrFrom4([4]byte{}), 443)
				pa.IPv6 = netip.AddrPortFrom(netip.AddrFrom16([16]byte{}), 443)
			case 11: // an IPv4-mapped IPv6 address in the IPv6 slot
				pa.IPv6 = netip.AddrPortFrom(netip.AddrFrom16([16]byte{10: 0xff, 11: 0xff, 12: 192, 13: 0, 14: 2, 15: 1}), 4433)
			}
			p.PreferredAddress = pa
		}, false},
		{"flags", []uint64{0, 1, 2, 3}, func(p *wire.TransportParameters, v uint64) {
			p.DisableActiveMigration, p.EnableResetStreamAt = v&1 != 0, v&2 != 0
		}, true},
		{"override", []uint64{0, 1, 2, 3}, func(p *wire.TransportParameters, v uint64) {
			switch v {
			case 0:
				p.ClientOverride = []byte{}
			case 1:
				p.ClientOverride = g.r.Bytes(g.r.Range(1, 30))
			case 2:
				p.ClientOverride = tpEnc([]tpParam{tpNum(tpIMD, 1000), tpP(tpISCID, g.r.Bytes(8)), tpP(tpODCID, g.r.Bytes(8))})
			default:
				p.ClientOverride = append([]byte{1}, tpEnc([]tpParam{tpNum(tpIMD, 1000), tpNum(tpACIL, 4)})...)
			}
		}, true},
	}
}

// ---------------------------------------------------------------------------------------
// hand-assembled parameter lists
// ---------------------------------------------------------------------------------------

func (g *tpGen) paBody(cl int) []byte {
	b := g.r.Bytes(24)
	b = append(b, byte(cl))
	b = append(b, g.r.Bytes(cl+16)...)
	return b
}

// a valid list as sent by pers: required parameters, a random subset of the others in random
// order, `unknown` parameters with ids no rule knows
func (g *tpGen) validList(pers protocol.Perspective, full bool, unknown int) []tpParam {
	r := g.r
	var ps []tpParam
	opt := func(p tpParam) {
		if full || r.Bool() {
			ps = append(ps, p)
		}
	}
	ps = append(ps, tpP(tpISCID, r.Bytes(g.cidLen())))
	if pers == protocol.PerspectiveServer {
		ps = append(ps, tpP(tpODCID, r.Bytes(g.cidLen())))
		opt(tpP(tpSRT, r.Bytes(16)))
		opt(tpP(tpRSCID, r.Bytes(g.cidLen())))
		if full || r.Chance(1, 3) {
			ps = append(ps, tpP(tpPA, g.paBody(int(r.Pick(1, 4, 8, 20)))))
		}
	}
	madMs := uint64(25)
	if full || r.Bool() {
		madMs = uint64(r.Pick(0, 1, 25, 26, 63, 64, 16383))
		ps = append(ps, tpNum(tpMAD, madMs))
	}
	opt(tpNum(tpMIT, uint64(r.Pick(0, 1, 4999, 5000, 5001, 30000, 16384, 1<<30, 9223372036854))))
	opt(tpNum(tpMUPS, uint64(r.Pick(1200, 1201, 1452, 16383, 16384, 65527, int64(tpV8)))))
	opt(tpNum(tpIMD, g.vv()))
	opt(tpNum(tpBL, g.vv()))
	opt(tpNum(tpBR, g.vv()))
	opt(tpNum(tpUNI, g.vv()))
	opt(tpNum(tpMBS, g.vv()%(tpMaxStreams+1)))
	opt(tpNum(tpMUS, g.vv()%(tpMaxStreams+1)))
	opt(tpNum(tpADE, uint64(r.Pick(0, 3, 19, 20))))
	opt(tpP(tpDAM, nil))
	opt(tpNum(tpACIL, uint64(r.Pick(2, 3, 63, 64, 16384, int64(tpV8)))))
	opt(tpNum(tpMDFS, g.vv()))
	opt(tpP(tpRSA, nil))
	opt(tpNum(tpMINAD, madMs*1000*uint64(r.Intn(3))/2))
	for i := 0; i < unknown; i++ {
		id := []uint64{27, 58, 7932, 0x11, 0x1f, 0x21, 0x40, 0xff04de1a, 0xff04de1c, tpRSA - 1, tpRSA + 1, tpV8}[r.Intn(12)]
		dup := false
		for _, p := range ps {
			dup = dup || p.id == id
		}
		if !dup {
			ps = append(ps, tpP(id, r.Bytes(r.Intn(6))))
		}
	}
	for i := len(ps) - 1; i > 0; i-- { // shuffle
		j := r.Intn(i + 1)
		ps[i], ps[j] = ps[j], ps[i]
	}
	return ps
}

func tpInsert(ps []tpParam, at int, p tpParam) []tpParam {
	out := append([]tpParam{}, ps[:at]...)
	out = append(out, p)
	return append(out, ps[at:]...)
}

func tpRemove(ps []tpParam, id uint64) []tpParam {
	var out []tpParam
	for _, p := range ps {
		if p.id != id {
			out = append(out, p)
		}
	}
	return out
}

func (g *tpGen) bothPers(in []byte, bucket string) {
	g.emitParse(in, protocol.PerspectiveServer, false, bucket)
	g.emitParse(in, protocol.PerspectiveClient, false, bucket)
}

func (g *tpGen) byteCases(n int, thorough bool) {
	r := g.r
	S, C := protocol.PerspectiveServer, protocol.PerspectiveClient
	perss := []protocol.Perspective{S, C}
	// (a) valid lists
	for i := 0; i < 12+n/20; i++ {
		pers := perss[i%2]
		in := tpEnc(g.validList(pers, i < 4, r.Intn(3)))
		g.emitParse(in, pers, false, "valid")
		if len(in) < 160 {
			g.encs = append(g.encs, in)
		}
	}
	// (b) duplicates: a copy of every parameter (known, unknown, greased) at the front, right
	// behind the original and at the end; the same value and a different one
	for k := 0; k < 3+n/200; k++ {
		pers := perss[k%2]
		ps := g.validList(pers, k == 0, 3)
		for i, p := range ps {
			places := []int{0, i + 1, len(ps)}
			if thorough {
				places = places[:0]
				for at := 0; at <= len(ps); at++ {
					places = append(places, at)
				}
			}
			for _, at := range places {
				d := p
				if r.Chance(1, 3) {
					if tpIsNumeric(p.id) {
						d = tpNum(p.id, 5000+uint64(r.Intn(10000)))
					} else if p.id != tpDAM && p.id != tpRSA && p.id != tpSRT && p.id != tpPA {
						d = tpP(p.id, r.Bytes(r.Intn(5)))
					}
				}
				g.emitParse(tpEnc(tpInsert(ps, at, d)), pers, false, "duplicate")
			}
		}
	}
	// two duplicates / three copies / duplicates in a list that lacks a required parameter
	for k := 0; k < 6; k++ {
		ps := g.validList(S, false, 2)
		a, b := ps[r.Intn(len(ps))], ps[r.Intn(len(ps))]
		g.emitParse(tpEnc(append(append([]tpParam{a}, ps...), b, a)), S, false, "duplicate")
		g.emitParse(tpEnc(tpRemove(append(append([]tpParam{a}, ps...), a), tpISCID)), S, false, "duplicate-missing")
	}
	// (c) server-only parameters sent by the client, at the front, in the middle, at the end
	for _, id := range []uint64{tpODCID, tpSRT, tpPA, tpRSCID} {
		bodies := [][]byte{r.Bytes(8), {}, r.Bytes(21)}
		switch id {
		case tpSRT:
			bodies = [][]byte{r.Bytes(16), {}, r.Bytes(17)}
		case tpPA:
			bodies = [][]byte{g.paBody(4), {}, g.paBody(21)}
		}
		for _, body := range bodies {
			ps := g.validList(C, false, 1)
			for _, at := range []int{0, len(ps) / 2, len(ps)} {
				in := tpEnc(tpInsert(ps, at, tpP(id, body)))
				g.emitParse(in, C, false, "server-only")
			}
		}
		// alone, without the required parameter
		g.bothPers(tpEnc([]tpParam{tpP(id, bodies[0])}), "server-only")
	}
	// (d) wrong value lengths for every known parameter, last in the list or followed by more
	numLens := []int{0, 1, 2, 3, 4, 8, 9}
	otherLens := []int{0, 1, 15, 16, 17, 20, 21, 41, 42, 45, 61, 62}
	for _, id := range tpKnownIDs {
		lens := otherLens
		if tpIsNumeric(id) {
			lens = numLens
		}
		for _, l := range lens {
			body := r.Bytes(l)
			if l > 0 && r.Bool() {
				body[0] &= 0x3f // a one-byte varint first
			}
			ps := []tpParam{tpP(tpISCID, r.Bytes(4)), tpP(tpODCID, r.Bytes(4))}
			ps = tpRemove(ps, id)
			at := r.Intn(len(ps) + 1)
			in := tpEnc(tpInsert(ps, at, tpP(id, body)))
			if id == tpODCID || id == tpSRT || id == tpPA || id == tpRSCID || thorough {
				g.bothPers(in, "value-length")
			} else {
				g.emitParse(in, perss[r.Intn(2)], false, "value-length")
			}
		}
	}
	// (e) integer parameters: every width, declared length differing from the varint's length
	for _, id := range tpNumericIDs {
		for _, w := range []int{1, 2, 4, 8} {
			for _, decl := range []int64{0, 1, 2, 3, 4, 8, 9} {
				if !thorough && !r.Chance(1, 4) && decl != int64(w) {
					continue
				}
				val := uint64(1200 + r.Intn(4000))
				if w == 1 {
					val = uint64(2 + r.Intn(19))
				}
				body := tpVarintW(nil, val, w)
				if int(decl) > len(body) {
					body = append(body, r.Bytes(int(decl)-len(body))...)
				}
				ps := []tpParam{tpP(tpISCID, r.Bytes(4)), tpP(tpODCID, r.Bytes(4))}
				// the varint sticks out of its declared length into the next parameter / the end
				p := tpParam{id: id, body: body[:min(len(body), int(decl))], decl: -1}
				rest := body[min(len(body), int(decl)):]
				in := append(tpEnc([]tpParam{ps[0], p}), rest...)
				g.emitParse(append(in, tpEnc(ps[1:])...), S, false, "int-width")
				g.emitParse(append(tpEnc(ps), tpEnc([]tpParam{p})...), S, false, "int-width")
			}
		}
	}
	// (f) integer parameters at every boundary value, minimal and padded encodings
	limits := map[uint64][]uint64{
		tpMBS: {tpMaxStreams - 1, tpMaxStreams, tpMaxStreams + 1}, tpMUS: {tpMaxStreams - 1, tpMaxStreams, tpMaxStreams + 1},
		tpMUPS: {1199, 1200, 1201}, tpADE: {19, 20, 21}, tpMAD: {16382, 16383, 16384}, tpACIL: {0, 1, 2, 3},
		tpMIT:   {4999, 5000, 5001, 9223372036853, 9223372036854, 9223372036855, 18446744073709, 18446744073710, 1 << 61},
		tpMINAD: {24999, 25000, 25001, 9223372036854775, 9223372036854776, 1 << 61, 1<<61 + 1, 1<<61 + 25000, 1<<61 + 25001, 2305843009213718952},
	}
	for _, id := range tpNumericIDs {
		vals := append(append([]uint64{}, tpBounds...), limits[id]...)
		for _, v := range vals {
			ws := []int{tpMinW(v)}
			if tpMinW(v) < 8 && (thorough || r.Chance(1, 3)) {
				ws = append(ws, 8)
			}
			for _, w := range ws {
				ps := []tpParam{tpP(tpISCID, r.Bytes(4)), tpNumW(id, v, w), tpP(tpODCID, r.Bytes(4))}
				g.emitParse(tpEnc(ps), S, false, "int-boundary")
			}
		}
	}
	// min_ack_delay against an explicit max_ack_delay, both orders
	for _, c := range [][2]uint64{{0, 0}, {0, 1}, {1, 999}, {1, 1000}, {1, 1001}, {16383, 16383000}, {16383, 16383001}, {25, 1 << 61}} {
		a, b := tpNum(tpMAD, c[0]), tpNum(tpMINAD, c[1])
		g.emitParse(tpEnc([]tpParam{a, tpP(tpISCID, nil), b}), C, false, "min-ack-delay")
		g.emitParse(tpEnc([]tpParam{b, tpP(tpISCID, nil), a}), C, false, "min-ack-delay")
	}
	// (g) truncation at every prefix
	for k := 0; k < 2+n/300; k++ {
		pers := perss[k%2]
		in := tpEnc(g.validList(pers, false, 1))
		for j := 0; j < len(in); j++ {
			g.emitParse(in[:j], pers, false, "prefix")
		}
	}
	// (h) declared length larger than what is left, at the end and in the middle; wide id and
	// length varints
	for k := 0; k < 4; k++ {
		ps := g.validList(S, false, 1)
		for _, extra := range []int64{1, 2, 64, 1 << 14, 1 << 30, int64(tpV8) - 30} {
			q := append([]tpParam{}, ps...)
			i := r.Intn(len(q))
			q[i].decl = int64(len(q[i].body)) + extra
			g.emitParse(tpEnc(q), S, false, "length-overrun")
			q = append([]tpParam{}, ps...)
			q[len(q)-1].decl = int64(len(q[len(q)-1].body)) + extra
			g.emitParse(tpEnc(q), S, false, "length-overrun")
		}
		q := append([]tpParam{}, ps...)
		for i := range q {
			q[i].idw = []int{0, 2, 4, 8}[r.Intn(4)]
			if q[i].idw != 0 && q[i].idw < tpMinW(q[i].id) {
				q[i].idw = 8
			}
			q[i].lw = []int{0, 2, 4, 8}[r.Intn(4)]
		}
		g.emitParse(tpEnc(q), S, false, "wide-varints")
	}
	// (i) preferred_address: connection-ID lengths, trailing and short content, cut short
	for _, cl := range []int{0, 1, 2, 19, 20, 21, 255} {
		body := g.paBody(cl)
		for _, delta := range []int{0, -1, 1, -17, 5} {
			b := append([]byte{}, body...)
			if delta > 0 {
				b = append(b, r.Bytes(delta)...)
			} else if -delta < len(b) {
				b = b[:len(b)+delta]
			}
			g.emitParse(tpEnc([]tpParam{tpP(tpISCID, r.Bytes(4)), tpP(tpPA, b), tpP(tpODCID, r.Bytes(20)), tpNum(tpIMD, 77777)}), S, false, "preferred-address")
			g.emitParse(tpEnc([]tpParam{tpP(tpISCID, r.Bytes(4)), tpP(tpODCID, r.Bytes(4)), tpP(tpPA, b)}), S, false, "preferred-address")
		}
	}
	for _, l := range []int{0, 1, 24, 25, 26, 40, 41} { // a short value with and without bytes behind it
		g.emitParse(tpEnc([]tpParam{tpP(tpPA, r.Bytes(l))}), S, false, "preferred-address")
		g.emitParse(tpEnc([]tpParam{tpP(tpPA, r.Bytes(l)), tpP(tpISCID, r.Bytes(20)), tpP(tpODCID, r.Bytes(20)), tpP(tpRSCID, r.Bytes(20))}), S, false, "preferred-address")
	}
	for _, ip := range [][]byte{make([]byte, 24), append(make([]byte, 4), append([]byte{1, 187}, make([]byte, 18)...)...),
		{1, 2, 3, 4, 0, 0, 0, 0, 0, 0, 0, 0, 0, 0, 0, 0, 0, 0, 0, 0, 0, 1, 1, 187}, {0, 0, 0, 1, 0, 1, 0, 0, 0, 0, 0, 0, 0, 0, 0, 0, 0, 0, 0, 0, 0, 0, 0, 0}} {
		b := append(append([]byte{}, ip...), 4)
		b = append(b, r.Bytes(20)...)
		g.emitParse(tpEnc([]tpParam{tpP(tpISCID, nil), tpP(tpODCID, nil), tpP(tpPA, b)}), S, false, "preferred-address")
	}
	// (j) missing required parameters
	for k := 0; k < 4; k++ {
		ps := g.validList(S, false, 1)
		g.bothPers(tpEnc(tpRemove(ps, tpISCID)), "missing")
		g.bothPers(tpEnc(tpRemove(ps, tpODCID)), "missing")
		g.bothPers(tpEnc(tpRemove(tpRemove(ps, tpODCID), tpISCID)), "missing")
		g.bothPers(tpEnc(tpRemove(tpRemove(tpRemove(tpRemove(ps, tpODCID), tpSRT), tpPA), tpRSCID)), "missing")
	}
	g.bothPers(nil, "missing")
	g.bothPers(tpEnc([]tpParam{tpP(tpISCID, nil)}), "missing")
	g.bothPers(tpEnc([]tpParam{tpP(tpISCID, nil), tpP(tpODCID, nil)}), "missing")
	// (k) session-ticket byte strings
	for k := 0; k < 10+n/50; k++ {
		ps := []tpParam{tpNum(tpBL, g.vv()), tpNum(tpBR, g.vv()), tpNum(tpUNI, g.vv()), tpNum(tpIMD, g.vv()),
			tpNum(tpMBS, g.vv()%(tpMaxStreams+2)), tpNum(tpMUS, g.vv()%(tpMaxStreams+2)), tpNum(tpACIL, uint64(r.Pick(0, 1, 2, 3, 64)))}
		if r.Bool() {
			ps = append(ps, tpNum(tpMDFS, g.vv()))
		}
		if r.Bool() {
			ps = append(ps, tpP(tpRSA, nil))
		}
		switch r.Intn(6) {
		case 0:
			ps = tpInsert(ps, r.Intn(len(ps)+1), ps[r.Intn(len(ps))])
		case 1: // parameters a ticket never carries
			extra := g.validList(S, false, 1)
			ps = append(ps, extra[r.Intn(len(extra))])
		case 2:
			ps = ps[:r.Intn(len(ps))]
		}
		in := tpEnc(ps)
		ver := []byte{1}
		switch r.Intn(8) {
		case 0:
			ver = []byte{0}
		case 1:
			ver = []byte{2}
		case 2:
			ver = []byte{0x40, 0x01}
		case 3:
			ver = []byte{0xc0, 0, 0, 0, 0, 0, 0, 1}
		}
		g.emitParse(append(ver, in...), S, true, "bytes")
	}
	for _, h := range [][]byte{nil, {1}, {0x40}, {0x40, 1}, {0x80, 0, 0}, {0xc0, 0, 0, 0, 0, 0, 0}, {1, 0x0f}, {1, 0x0f, 0}, {1, 0x0f, 1}, {63}, {0x3f, 0}} {
		g.emitParse(h, S, true, "bytes")
	}
	if len(g.encs) > 0 {
		e := append([]byte{1}, tpEnc([]tpParam{tpNum(tpBL, 1), tpNum(tpIMD, 70000), tpNum(tpACIL, 2), tpNum(tpMBS, 100), tpP(tpRSA, nil)})...)
		for j := 0; j < len(e); j++ {
			g.emitParse(e[:j], S, true, "prefix")
		}
	}
	// (l) hostile lengths and ids
	for _, h := range [][]byte{
		{0x0f, 0xff, 0xff, 0xff, 0xff, 0xff, 0xff, 0xff, 0xff},
		{0x0f, 0xff, 0xff, 0xff, 0xff, 0xff, 0xff, 0xff, 0xff, 0x00},
		{0xff, 0xff, 0xff, 0xff, 0xff, 0xff, 0xff, 0xff, 0x00},
		{0xff, 0xff, 0xff, 0xff, 0xff, 0xff, 0xff, 0xff, 0xff, 0xff, 0xff, 0xff, 0xff, 0xff, 0xff, 0xff},
		{0x00, 0x15, 0, 0, 0, 0, 0, 0, 0, 0, 0, 0, 0, 0, 0, 0, 0, 0, 0, 0, 0, 0, 0},
		{0x0f, 0x15, 0, 0, 0, 0, 0, 0, 0, 0, 0, 0, 0, 0, 0, 0, 0, 0, 0, 0, 0, 0, 0},
		{0x10, 0x15, 0, 0, 0, 0, 0, 0, 0, 0, 0, 0, 0, 0, 0, 0, 0, 0, 0, 0, 0, 0, 0},
		{0x02, 0x10, 1, 2, 3}, {0x0c, 0x01, 0x00}, {0x0c, 0x00}, {0x0c}, {0x0f}, {0x40}, {0x0f, 0x40},
		{0x01, 0x00}, {0x01, 0x00, 0x0f, 0x00}, {0x01, 0x01}, {0x01, 0x01, 0x40}, {0x01, 0x01, 0x40, 0x0f, 0x00}, {0x01, 0x02, 0x40},
		{0x0f, 0x00, 0x0f, 0x00}, {0x1b, 0x00, 0x1b, 0x00, 0x0f, 0x00},
	} {
		g.bothPers(h, "hostile")
	}
	// (m) random and mutated encodings
	for i := 0; i < n/3; i++ {
		g.emitParse(r.Bytes(r.Range(0, 40)), perss[i%2], false, "random")
	}
	for i := 0; i < n && len(g.encs) > 0; i++ {
		in := g.mutate(g.encs[r.Intn(len(g.encs))])
		if r.Chance(1, 10) {
			g.emitParse(in, S, true, "mutated")
		} else {
			g.emitParse(in, perss[r.Intn(2)], false, "mutated")
		}
	}
}

func (g *tpGen) mutate(enc []byte) []byte {
	r := g.r
	b := append([]byte{}, enc...)
	if len(b) == 0 {
		return r.Bytes(3)
	}
	switch r.Intn(8) {
	case 0:
		return b[:r.Intn(len(b))]
	case 1:
		b[r.Intn(len(b))] ^= byte(1 << uint(r.Intn(8)))
	case 2:
		b[r.Intn(len(b))] = byte(r.U64())
	case 3:
		i := r.Intn(len(b))
		b[i] = b[i]&0x3f | byte(r.Intn(4))<<6
	case 4:
		i := r.Intn(len(b) + 1)
		b = append(b[:i], append(r.Bytes(r.Range(1, 3)), b[i:]...)...)
	case 5:
		i := r.Intn(len(b))
		b = append(b[:i], b[i+1:]...)
	case 6: // splice a second copy of a parameter-sized window
		i := r.Intn(len(b))
		j := min(len(b), i+r.Range(2, 10))
		b = append(b, b[i:j]...)
	default:
		b[r.Intn(len(b))] = byte(r.Pick(0, 1, 2, 0x0f, 0x10, 0x14, 0x15, 0x3f, 0x40, 0x7f, 0x80, 0xbf, 0xc0, 0xff))
	}
	return b
}


// ---------------------------------------------------------------------------------------
// [uQUIC] u_transport_parameters.go: PopulateFromUQUIC (monitor only, not modelled)
// ---------------------------------------------------------------------------------------

func (g *tpGen) populateCases(n int) {
	r := g.r
	for i := 0; i < n; i++ {
		iscid := r.Bytes(int(r.Pick(0, 0, 8, 20)))
		own := g.cid(8)
		var spec tls.TransportParameters
		add := func(p tls.TransportParameter) {
			if r.Chance(3, 4) {
				spec = append(spec, p)
			}
		}
		add(tls.InitialMaxStreamDataBidiLocal(g.vv()))
		add(tls.InitialMaxStreamDataBidiRemote(g.vv()))
		add(tls.InitialMaxStreamDataUni(g.vv()))
		add(tls.InitialMaxData(g.vv()))
		add(tls.InitialMaxStreamsBidi(g.vv() % (tpMaxStreams + 1)))
		add(tls.InitialMaxStreamsUni(g.vv() % (tpMaxStreams + 1)))
		add(tls.MaxIdleTimeout(uint64(r.Pick(0, 1, 4999, 5000, 30000, 1<<30))))
		add(tls.MaxUDPPayloadSize(uint64(r.Pick(1200, 1472, 65527))))
		add(tls.MaxAckDelay(uint64(r.Pick(0, 20, 25, 26, 16383))))
		add(&tls.DisableActiveMigration{})
		add(tls.ActiveConnectionIDLimit(uint64(r.Pick(2, 4, 8, 64))))
		add(tls.MaxDatagramFrameSize(g.vv()))
		add(&tls.GREASEQUICBit{})
		add(&tls.FakeQUICTransportParameter{Id: 0x4752, Val: r.Bytes(r.Intn(4))})
		spec = append(spec, tls.InitialSourceConnectionID(iscid))
		for j := len(spec) - 1; j > 0; j-- {
			k := r.Intn(j + 1)
			spec[j], spec[k] = spec[k], spec[j]
		}
		tp := &wire.TransportParameters{InitialSourceConnectionID: own, MaxDatagramFrameSize: -1, ActiveConnectionIDLimit: 2,
			MaxAckDelay: 25 * time.Millisecond, AckDelayExponent: 3}
		detail := ""
		ok := true
		func() {
			defer func() {
				if e := recover(); e != nil {
					g.monfail("tparams/panic", fmt.Sprintf("PopulateFromUQUIC panicked: %v", e), fmt.Sprintf("spec=%x", spec.Marshal()))
					ok = false
				}
			}()
			tp.PopulateFromUQUIC(spec)
			detail = fmt.Sprintf("spec=%x tp=%s", spec.Marshal(), wire.VerifDumpTParams(tp))
		}()
		if !ok {
			continue
		}
		g.dist["populate"]++
		want := spec.Marshal() // PopulateFromUQUIC has filled an empty initial_source_connection_id in
		if !bytes.Equal(tp.ClientOverride, want) {
			g.monfail("tparams/populate", "ClientOverride is not the encoding of the spec", detail)
			continue
		}
		enc, mok := g.marshal(tp, protocol.PerspectiveClient, g.r.Bytes(18))
		if !mok || !bytes.Equal(enc, want) {
			g.monfail("tparams/populate", "Marshal does not send the spec's encoding", detail)
			continue
		}
		q, cls, _, uok := g.unmarshal(enc, protocol.PerspectiveClient, false)
		if !uok {
			continue
		}
		if cls != 0 {
			g.monfail("tparams/populate", fmt.Sprintf("the peer rejects the populated parameters (class %d)", cls), detail)
			continue
		}
		// what the peer decodes is what the struct holds (the fields the connection consults)
		mit := tp.MaxIdleTimeout
		if mit != 0 && mit < 5*time.Second && tpHas(spec, tpMIT) {
			mit = 5 * time.Second
		}
		if q.InitialMaxData != tp.InitialMaxData || q.InitialMaxStreamDataBidiLocal != tp.InitialMaxStreamDataBidiLocal ||
			q.InitialMaxStreamDataBidiRemote != tp.InitialMaxStreamDataBidiRemote || q.InitialMaxStreamDataUni != tp.InitialMaxStreamDataUni ||
			q.MaxBidiStreamNum != tp.MaxBidiStreamNum || q.MaxUniStreamNum != tp.MaxUniStreamNum ||
			q.ActiveConnectionIDLimit != tp.ActiveConnectionIDLimit || q.MaxDatagramFrameSize != tp.MaxDatagramFrameSize ||
			q.MaxAckDelay != tp.MaxAckDelay || q.DisableActiveMigration != tp.DisableActiveMigration || q.MaxIdleTimeout != mit ||
			q.InitialSourceConnectionID != tp.InitialSourceConnectionID {
			g.monfail("tparams/populate", "the peer decodes "+wire.VerifDumpTParams(q)+" but the struct holds other values", detail)
		}
		if len(iscid) == 0 && tp.InitialSourceConnectionID != own {
			g.monfail("tparams/populate", "an empty initial_source_connection_id in the spec replaced the connection's own", detail)
		}
		if tpHas(spec, tpMUPS) && q.MaxUDPPayloadSize != tp.MaxUDPPayloadSize {
			g.dist["populate:max_udp_payload_size-not-copied"]++
		}
	}
	// a spec entry that reuses a known id with another Go type
	func() {
		defer func() {
			if e := recover(); e != nil {
				fmt.Fprintf(g.w, "INFO\tEXPLORED\ttparams/populate-type-assertion\tPopulateFromUQUIC panics when the spec carries a known id in a FakeQUICTransportParameter: %v\tspec=[FakeQUICTransportParameter{Id:1,Val:4064}]\n", e)
			}
		}()
		(&wire.TransportParameters{}).PopulateFromUQUIC(tls.TransportParameters{&tls.FakeQUICTransportParameter{Id: 1, Val: []byte{0x40, 0x64}}})
	}()
}

func tpHas(spec tls.TransportParameters, id uint64) bool {
	for _, p := range spec {
		if p.ID() == id {
			return true
		}
	}
	return false
}

func runTParams(w *bufio.Writer, seed uint64, n int, _ []string) {
	g := &tpGen{w: w, r: u.NewRng(seed), dist: map[string]int{}, seen: map[string]bool{}, rd: &tpReader{}}
	thorough := os.Getenv("VERIF_TIER") == "thorough"
	old := rand.Reader
	rand.Reader = io.Reader(g.rd)
	defer func() { rand.Reader = old }()
	if len(wire.AdditionalTransportParametersClient) != 0 {
		fmt.Fprintln(w, "INFO\tAdditionalTransportParametersClient is not empty; the unit assumes it is")
	}
	S, C := protocol.PerspectiveServer, protocol.PerspectiveClient
	// (i) structured: every field x boundary values x perspective, ticket form where it applies
	for _, sw := range g.sweeps() {
		for _, v := range sw.vals {
			for _, pers := range []protocol.Perspective{S, C} {
				p := g.base()
				sw.set(p, v)
				g.doStruct(p, pers, sw.name)
			}
			if sw.ticket {
				p := g.base()
				sw.set(p, v)
				g.doTicket(p, sw.name)
			}
		}
	}
	// the zero struct, and what the endpoints typically send
	g.doStruct(&wire.TransportParameters{}, S, "zero")
	g.doStruct(&wire.TransportParameters{}, C, "zero")
	g.doTicket(&wire.TransportParameters{}, "zero")
	for i := 0; i < n/4; i++ {
		g.doStruct(g.base(), []protocol.Perspective{S, C}[i%2], "random")
		if i%3 == 0 {
			g.doTicket(g.base(), "random")
		}
	}
	// (ii) byte strings
	g.byteCases(n, thorough)
	// (iii) [uQUIC] PopulateFromUQUIC
	g.populateCases(20 + n/10)
	keys := make([]string, 0, len(g.dist))
	for k := range g.dist {
		keys = append(keys, k)
	}
	sort.Strings(keys)
	for _, k := range keys {
		fmt.Fprintf(w, "DIST\t%s\t%d\n", k, g.dist[k])
	}
	fmt.Fprintf(w, "SAMPLE\tstructs: every field x boundary values x {server,client} (+ session-ticket form); byte strings: valid lists, duplicates at every position, server-only ids from the client, wrong value lengths, varint/declared-length mismatches, every prefix, overrunning lengths, preferred_address variants, missing parameters, random and mutated encodings\n")
}
