//go:build verif

package main

import (
	"bufio"
	"context"
	"fmt"
	"sort"
	"strings"
	"sync"
	"testing/synctest"
	"time"

	"github.com/refraction-networking/uquic/qlogwriter"

	quic "github.com/refraction-networking/uquic"
	u "github.com/refraction-networking/uquic/internal/verifutil"
)

func init() { units["streamsglue"] = runStreamsGlue }

// streamsglue (property C15): the connection's frame handling in front of the streams map. Real
// server and client Conns, with and without a qlog tracer, are fed 1-RTT packet payloads of 1-4
// stream-related frames, in particular [offending frame][valid STREAM frame].
//
// Between the packets the application accepts streams, abandons streams it holds (CancelRead +
// CancelWrite, the reset is acknowledged), opens streams; the handshake applies / restores
// transport parameters; a client has 0-RTT rejected (dropEncryptionLevel) and moves on
// (UseResetMaps). Streams are thereby COMPLETED through the connection: Conn.onStreamCompleted ->
// streamsMap.DeleteStream -> MAX_STREAMS queued in the real framer.
//
// CASE term: GlueCase client tracer maxBidi maxUni [steps] [(code, control frames) per step] ib iu ob ou.
// The model's verdict for the frame sequence (StreamsMap model, frames in order, first error ends
// the packet and the connection) must be the connection's close error, tracer or not; the
// MAX_STREAMS / STREAMS_BLOCKED frames found in the framer after each step and the maps' fields
// must be the model's.
//
// MONITOR (model-independent, from stream-ID arithmetic and the advertised limits only): a frame
// naming a peer stream beyond the advertised limit => the packet fails with STREAM_LIMIT_ERROR; a
// frame of the wrong direction or for a local stream never opened => STREAM_STATE_ERROR; nothing
// else fails; and no frame behind the failing one is handled (no stream is opened by it).

const (
	smgStream = iota
	smgResetStream
	smgStreamDataBlocked
	smgStopSending
	smgMaxStreamData
	smgPing
	smgMaxStreams
	smgStreamFin
	smgMalformed
)

var smgNames = []string{"STREAM", "RESET_STREAM", "STREAM_DATA_BLOCKED", "STOP_SENDING", "MAX_STREAM_DATA", "PING", "MAX_STREAMS", "STREAM+FIN", "MALFORMED"}
var smgCoq = []string{"GStream", "GResetStream", "GStreamDataBlocked", "GStopSending", "GMaxStreamData", "GPing", "GMaxStreams", "GStreamFin", "GMalformed"}

func smgFrameCoq(f quic.VerifSGFrame) string {
	switch f.Kind {
	case smgPing:
		return "GPing"
	case smgMalformed:
		return "GMalformed"
	case smgMaxStreams:
		return u.App("GMaxStreams", u.B(f.Uni), u.Z(f.ID))
	}
	return u.App(smgCoq[f.Kind], u.Z(f.ID))
}

func smgFrameText(f quic.VerifSGFrame) string {
	switch f.Kind {
	case smgPing:
		return "PING"
	case smgMalformed:
		return "MALFORMED(unknown frame type)"
	case smgMaxStreams:
		return fmt.Sprintf("MAX_STREAMS(uni=%v,%d)", f.Uni, f.ID)
	}
	return fmt.Sprintf("%s(%d)", smgNames[f.Kind], f.ID)
}

// smgSpec is the monitors' own bookkeeping (stream-ID arithmetic, what was advertised, what the
// application did) - no model involved.
type smgSpec struct {
	client  bool
	limit   [2]int64 // configured incoming limits
	adv     [2]int64 // advertised to the peer: limit + completed peer streams
	opened  [2]int64 // streams the peer opened
	out     [2]int64 // streams we opened
	peerMax [2]int64 // what the peer allows us
	blocked [2]map[int64]bool
	cancel  map[int64]bool
	final   map[int64]bool
	done    map[int64]bool
	reset   bool
}

func (sp *smgSpec) local(id int64) bool { return (id%2 == 0) == sp.client }

// complete: a stream is completed once when it was abandoned and (if it has a receive half) its
// final size is known; a completed peer stream frees a slot.
func (sp *smgSpec) complete(id int64) {
	uni := id%4 >= 2
	hasRecv := !(uni && sp.local(id))
	if sp.cancel[id] && (!hasRecv || sp.final[id]) && !sp.done[id] {
		sp.done[id] = true
		if !sp.local(id) {
			sp.adv[b2i(uni)]++
		}
	}
}

// expect: verdict of one frame; 0 ok, 1 STREAM_STATE_ERROR, 2 STREAM_LIMIT_ERROR, 8 FRAME_ENCODING_ERROR.
func (sp *smgSpec) expect(f quic.VerifSGFrame) int {
	switch f.Kind {
	case smgPing:
		return 0
	case smgMalformed:
		return 8
	case smgMaxStreams:
		if t := b2i(f.Uni); f.ID > sp.peerMax[t] {
			sp.peerMax[t] = f.ID
		}
		return 0
	}
	uni := f.ID%4 >= 2
	local := sp.local(f.ID)
	recv := f.Kind <= smgStreamDataBlocked || f.Kind == smgStreamFin
	t := b2i(uni)
	switch {
	case uni && local && recv, uni && !local && !recv:
		return 1 // wrong direction
	case local:
		if f.ID/4 >= sp.out[t] {
			return 1 // we never opened it
		}
	default:
		n := f.ID/4 + 1
		if n > sp.adv[t] {
			return 2
		}
		if n > sp.opened[t] {
			sp.opened[t] = n
		}
	}
	if (f.Kind == smgStreamFin || f.Kind == smgResetStream) && !sp.done[f.ID] {
		sp.final[f.ID] = true
		sp.complete(f.ID)
	}
	return 0
}

func (sp *smgSpec) clone() *smgSpec {
	c := *sp
	c.blocked = [2]map[int64]bool{{}, {}}
	c.cancel, c.final, c.done = map[int64]bool{}, map[int64]bool{}, map[int64]bool{}
	for t := 0; t < 2; t++ {
		for k := range sp.blocked[t] {
			c.blocked[t][k] = true
		}
	}
	for k := range sp.cancel {
		c.cancel[k] = true
	}
	for k := range sp.final {
		c.final[k] = true
	}
	for k := range sp.done {
		c.done[k] = true
	}
	return &c
}

// one step of a case
type smgStep struct {
	kind   int // 0 packet, 1 accept, 2 abandon, 3 open, 4 params, 5 reject 0-RTT, 6 use reset maps, 7 abandon a stream of before the rejection
	frames []quic.VerifSGFrame
	uni    bool
	pick   int // abandon: which held stream
	nb, nu int64
	rsa    bool
}

type smgCase struct {
	client, tracer bool
	limit          [2]int64
	steps          []smgStep
}

func smgFramesText(p []quic.VerifSGFrame) string {
	fs := make([]string, len(p))
	for j, f := range p {
		fs[j] = smgFrameText(f)
	}
	return "[" + strings.Join(fs, " ") + "]"
}

type smgHeld struct {
	handle int
	id     int64
}

func smgRun(w *bufio.Writer, c smgCase, dist map[string]int, failed map[string]bool) {
	var hist []string
	text := func() string {
		return fmt.Sprintf("client=%v qlog-tracer=%v MaxIncomingStreams=%d MaxIncomingUniStreams=%d steps=%s", c.client, c.tracer, c.limit[0], c.limit[1], strings.Join(hist, " "))
	}
	monfail := func(key, desc string) {
		if failed[key] {
			return
		}
		failed[key] = true
		fmt.Fprintf(w, "MONFAIL\tstreamsglue/%s\t%s\t%s\n", key, desc, text())
	}
	v, err := quic.NewVerifSGConn(c.client, c.tracer, c.limit[0], c.limit[1])
	if err != nil {
		monfail("construct", "cannot construct the connection: "+err.Error())
		return
	}
	defer v.Shutdown()
	if v.HasTracer() != c.tracer {
		monfail("tracer", "the connection does not record qlog events although a trace was given (or vice versa)")
	}
	sp := &smgSpec{client: c.client, limit: c.limit, adv: c.limit, blocked: [2]map[int64]bool{{}, {}},
		cancel: map[int64]bool{}, final: map[int64]bool{}, done: map[int64]bool{}}
	var held, old []smgHeld
	var steps, outs []string
	names := map[int]string{0: "no error", 1: "STREAM_STATE_ERROR", 2: "STREAM_LIMIT_ERROR", 8: "FRAME_ENCODING_ERROR"}
	failedPacket := false
	completions, packets := 0, 0
	emit := func(step string, code int64, frames []quic.VerifSMFrame) {
		steps = append(steps, step)
		outs = append(outs, u.Pair(u.Z(code), smFrames(frames)))
		// frame monitors: MAX_STREAMS strictly increasing and equal to limit + completed streams;
		// STREAMS_BLOCKED once per limit and naming the peer's limit
		for _, f := range frames {
			t := b2i(f.Uni)
			if f.Blocked {
				if f.Num != sp.peerMax[t] {
					monfail("blocked/wrong-limit", fmt.Sprintf("STREAMS_BLOCKED names limit %d, the peer's limit is %d", f.Num, sp.peerMax[t]))
				}
				if sp.blocked[t][f.Num] {
					monfail("blocked/duplicate", fmt.Sprintf("second STREAMS_BLOCKED for limit %d", f.Num))
				}
				sp.blocked[t][f.Num] = true
			} else {
				completions++
			}
		}
	}
	checkCredit := func(frames []quic.VerifSMFrame, advBefore [2]int64) {
		// every slot freed in this step is advertised by one MAX_STREAMS, in increasing order
		cur := advBefore
		for _, f := range frames {
			if f.Blocked {
				continue
			}
			t := b2i(f.Uni)
			if f.Num != cur[t]+1 {
				monfail("maxstreams/sequence", fmt.Sprintf("MAX_STREAMS(uni=%v) %d queued, %d was advertised before", f.Uni, f.Num, cur[t]))
			}
			cur[t] = f.Num
		}
		if cur != sp.adv {
			monfail("maxstreams/credit", fmt.Sprintf("advertised stream counts after this step %v, expected limit + completed streams = %v", cur, sp.adv))
		}
	}
	for _, st := range c.steps {
		advBefore := sp.adv
		switch st.kind {
		case 0:
			want, bad := 0, -1
			trial := sp.clone()
			for j, f := range st.frames {
				if e := trial.expect(f); e != 0 {
					want, bad = e, j
					break
				}
			}
			hist = append(hist, smgFramesText(st.frames))
			packets++
			class, code, _, msg := v.Packet(st.frames)
			frames := v.FlushAck()
			if code == -2 {
				monfail("panic", msg)
			}
			// a malformed frame behind the failing one: the error a tracer-less connection reports is the
			// failing frame's; with a tracer the parser goes on and its error wins (observation, not
			// demanded either way: the connection must fail, with one of the two)
			later := false
			if bad >= 0 {
				for _, f := range st.frames[bad+1:] {
					later = later || f.Kind == smgMalformed
				}
			}
			switch {
			case want != 0 && class == 0:
				monfail("error-masked", fmt.Sprintf("%s must close the connection with %s, but the packet was handled without error", smgFrameText(st.frames[bad]), names[want]))
			case want != class && later && want != 8 && class == 8:
				if !c.tracer {
					monfail("verdict", fmt.Sprintf("without a tracer the packet must fail with %s, got FRAME_ENCODING_ERROR", names[want]))
				}
				dist["error-class-changed-by-tracer-and-later-malformed-frame"]++
			case want != class:
				monfail("verdict", fmt.Sprintf("expected %s, got error class %d (code %d: %s)", names[want], class, code, msg))
			case later && c.tracer && want != 8:
				dist["tracer-and-later-malformed-frame-but-first-error-reported"]++
			}
			*sp = *trial
			for t := 0; t < 2; t++ {
				_, nextOpen, _, _ := v.In(t == 1)
				if wantOpen := smFirst(t == 1, !c.client) + 4*sp.opened[t]; nextOpen != wantOpen {
					monfail("frame-handled-after-error", fmt.Sprintf("after this packet nextStreamToOpen(uni=%v) is %d, expected %d: a frame behind the failing one was handled (or one before it was not)", t == 1, nextOpen, wantOpen))
				}
			}
			fs := make([]string, len(st.frames))
			for j, f := range st.frames {
				fs[j] = smgFrameCoq(f)
			}
			emit(u.App("SPacket", u.List(fs)), int64(class), frames)
			checkCredit(frames, advBefore)
			if want != 0 {
				dist[fmt.Sprintf("offending-%s-then-%d-frames", names[want], len(st.frames)-bad-1)]++
			}
			if class != 0 {
				failedPacket = true
			}
		case 1:
			h, id, class := v.Accept(st.uni)
			frames := v.FlushAck()
			code := id
			if h < 0 {
				code = -int64(class)
			} else {
				held = append(held, smgHeld{h, id})
			}
			hist = append(hist, fmt.Sprintf("accept(uni=%v)=>%d", st.uni, code))
			emit(u.App("SApp", u.App("GAAccept", u.B(st.uni))), code, frames)
			checkCredit(frames, advBefore)
		case 2:
			if len(held) == 0 {
				continue
			}
			pi := st.pick % len(held)
			if st.pick < 0 {
				pi = len(held) - 1 // the stream taken last
			}
			x := held[pi]
			held = append(held[:pi:pi], held[pi+1:]...)
			frames := v.Abandon(x.handle)
			sp.cancel[x.id] = true
			sp.complete(x.id)
			hist = append(hist, fmt.Sprintf("abandon(%d)", x.id))
			emit(u.App("SApp", u.App("GAAbandon", u.Z(x.id))), 0, frames)
			checkCredit(frames, advBefore)
		case 3:
			t := b2i(st.uni)
			h, id, class := v.Open(st.uni)
			frames := v.FlushAck()
			code := id
			if h < 0 {
				code = -int64(class)
			}
			switch {
			case sp.reset:
				if class != smErr0RTT {
					monfail("open/after-0rtt-rejection", fmt.Sprintf("Open(uni=%v) after the 0-RTT rejection returned %d instead of Err0RTTRejected", st.uni, code))
				}
			case h >= 0:
				if want := smFirst(st.uni, c.client) + 4*sp.out[t]; id != want {
					monfail("open/id-sequence", fmt.Sprintf("Open(uni=%v) returned stream %d, expected %d", st.uni, id, want))
				}
				sp.out[t]++
				if sp.out[t] > sp.peerMax[t] {
					monfail("open/above-peer-limit", fmt.Sprintf("stream %d is number %d, the peer allows %d", id, sp.out[t], sp.peerMax[t]))
				}
				held = append(held, smgHeld{h, id})
			default:
				if class == smErrLimitReached && sp.out[t] < sp.peerMax[t] {
					monfail("open/refused-below-limit", fmt.Sprintf("Open(uni=%v) failed with %d of %d streams opened", st.uni, sp.out[t], sp.peerMax[t]))
				}
			}
			hist = append(hist, fmt.Sprintf("open(uni=%v)=>%d", st.uni, code))
			emit(u.App("SApp", u.App("GAOpen", u.B(st.uni))), code, frames)
			if h < 0 && class == smErrLimitReached && !sp.blocked[t][sp.peerMax[t]] {
				monfail("blocked/missing", fmt.Sprintf("Open(uni=%v) failed at limit %d but no STREAMS_BLOCKED was queued for it", st.uni, sp.peerMax[t]))
			}
			checkCredit(frames, advBefore)
		case 4:
			if c.client && sp.out == [2]int64{} && sp.peerMax == [2]int64{} && !sp.reset {
				v.Restore(st.nb, st.nu, st.rsa)
			} else {
				v.Apply(st.nb, st.nu, st.rsa)
			}
			frames := v.FlushAck()
			if st.nb > sp.peerMax[0] {
				sp.peerMax[0] = st.nb
			}
			if st.nu > sp.peerMax[1] {
				sp.peerMax[1] = st.nu
			}
			hist = append(hist, fmt.Sprintf("params(%d,%d,%v)", st.nb, st.nu, st.rsa))
			emit(u.App("SApp", u.App("GAParams", u.Z(st.nb), u.Z(st.nu), u.B(st.rsa))), 0, frames)
			checkCredit(frames, advBefore)
		case 5:
			// 0-RTT is rejected before the client has received any 1-RTT packet
			if !c.client || sp.reset || packets > 0 {
				continue
			}
			class, msg := v.Reject0RTT()
			if class != 0 {
				monfail("reject-0rtt", "dropEncryptionLevel(0-RTT) failed: "+msg)
			}
			frames := v.FlushAck()
			old = append(old, held...)
			held = nil
			*sp = smgSpec{client: c.client, limit: c.limit, adv: c.limit, blocked: [2]map[int64]bool{{}, {}},
				cancel: map[int64]bool{}, final: map[int64]bool{}, done: map[int64]bool{}, reset: true}
			advBefore = sp.adv
			hist = append(hist, "reject-0rtt")
			emit(u.App("SApp", "GAReject0RTT"), 0, frames)
			checkCredit(frames, advBefore)
			dist["with-0rtt-rejection"]++
		case 6:
			if !sp.reset {
				continue
			}
			v.UseReset()
			sp.reset = false
			hist = append(hist, "use-reset-maps")
			emit(u.App("SApp", "GAUseReset"), 0, v.FlushAck())
		case 7:
			if len(old) == 0 {
				continue
			}
			x := old[st.pick%len(old)]
			frames := v.Abandon(x.handle)
			hist = append(hist, fmt.Sprintf("abandon-old(%d)", x.id))
			emit(u.App("SApp", "GAOldStream"), 0, frames)
			// a stream of before the rejection must not touch the new maps
			checkCredit(frames, advBefore)
			dist["old-stream-abandoned-after-rejection"]++
		}
		if cw := v.ClosedWith(); cw != 0 && !failedPacket {
			monfail("closed-by-completion", fmt.Sprintf("the connection closed itself with error class %d although no packet failed (DeleteStream of a completed stream failed?)", cw))
		}
		if failedPacket {
			break // the connection is closed
		}
	}
	snapIn := func(uni bool) string {
		s := v.InFull(uni)
		ss := make([]string, len(s.Streams))
		for i, e := range s.Streams {
			ss[i] = u.Pair(u.Z(e[0]), u.B(e[1] == 1))
		}
		return u.Pair(u.Z(s.NextAccept), u.Z(s.NextOpen), u.Z(s.Max), u.List(ss))
	}
	snapOut := func(uni bool) string {
		s := v.OutFull(uni)
		return u.Pair(u.Z(s.Next), u.Z(s.Max), u.B(s.BlockedSent), u.ZList(s.Streams))
	}
	nt := 0
	if failedPacket || completions > 0 {
		nt = 1
	}
	fmt.Fprintf(w, "CASE %d %s\n", nt, u.App("GlueCase", u.B(c.client), u.B(c.tracer), u.Z(c.limit[0]), u.Z(c.limit[1]),
		u.List(steps), u.List(outs), snapIn(false), snapIn(true), snapOut(false), snapOut(true)))
	dist["cases"]++
	dist["streams-completed-through-the-connection"] += completions
	if c.tracer {
		dist["with-tracer"]++
	}
}

func smgPacketStep(fs ...quic.VerifSGFrame) smgStep { return smgStep{kind: 0, frames: fs} }

func runStreamsGlue(w *bufio.Writer, seed uint64, n int, _ []string) {
	r := u.NewRng(seed)
	dist := map[string]int{}
	failed := map[string]bool{}
	for _, clientViolates := range []bool{true, false} {
		for _, tracer := range []bool{false, true} {
			smgSim(w, clientViolates, tracer, !clientViolates)
			dist["simulated-connections"]++
		}
	}
	for _, client := range []bool{false, true} {
		for _, tracer := range []bool{false, true} {
			pb, pu := smFirst(false, !client), smFirst(true, !client)
			lb, lu := smFirst(false, client), smFirst(true, client)
			valid := quic.VerifSGFrame{Kind: smgStream, ID: pb}
			// the table of the offending frames, each followed by a valid STREAM frame in the same packet
			for _, off := range []quic.VerifSGFrame{
				{Kind: smgStream, ID: pb + 4*2}, {Kind: smgStream, ID: pu + 4*2}, {Kind: smgResetStream, ID: pu + 4*2},
				{Kind: smgStreamDataBlocked, ID: pb + 4*2}, {Kind: smgMaxStreamData, ID: pb + 4*2}, {Kind: smgStreamFin, ID: pb + 4*2},
				{Kind: smgStream, ID: lu}, {Kind: smgStream, ID: lb}, {Kind: smgResetStream, ID: lu},
				{Kind: smgStopSending, ID: pu}, {Kind: smgMaxStreamData, ID: lb}, {Kind: smgStopSending, ID: lu},
			} {
				smgRun(w, smgCase{client, tracer, [2]int64{2, 2}, []smgStep{smgPacketStep(off, valid)}}, dist, failed)
				smgRun(w, smgCase{client, tracer, [2]int64{2, 2}, []smgStep{smgPacketStep(off, quic.VerifSGFrame{Kind: smgMalformed})}}, dist, failed)
				smgRun(w, smgCase{client, tracer, [2]int64{2, 2}, []smgStep{smgPacketStep(valid, off, valid, quic.VerifSGFrame{Kind: smgMalformed}, valid)}}, dist, failed)
				smgRun(w, smgCase{client, tracer, [2]int64{2, 2}, []smgStep{smgPacketStep(valid), smgPacketStep(quic.VerifSGFrame{Kind: smgPing}, off, valid, valid)}}, dist, failed)
			}
			// completion through the connection: the slot of a finished stream is re-issued, for both
			// types, by the abandon (final size already known) and by the FIN / RESET_STREAM (abandoned before)
			for _, uni := range []bool{false, true} {
				p0 := pb
				if uni {
					p0 = pu
				}
				for _, fin := range []int{smgStreamFin, smgResetStream} {
					open := smgPacketStep(quic.VerifSGFrame{Kind: smgStream, ID: p0})
					final := quic.VerifSGFrame{Kind: fin, ID: p0}
					next := quic.VerifSGFrame{Kind: smgStream, ID: p0 + 4}
					acc := smgStep{kind: 1, uni: uni}
					ab := smgStep{kind: 2}
					smgRun(w, smgCase{client, tracer, [2]int64{1, 1}, []smgStep{open, acc, smgPacketStep(final), ab, smgPacketStep(next), smgPacketStep(quic.VerifSGFrame{Kind: smgStream, ID: p0 + 8})}}, dist, failed)
					smgRun(w, smgCase{client, tracer, [2]int64{1, 1}, []smgStep{open, acc, ab, smgPacketStep(final, next), acc, smgPacketStep(final)}}, dist, failed)
					smgRun(w, smgCase{client, tracer, [2]int64{1, 1}, []smgStep{open, smgPacketStep(final), smgPacketStep(next)}}, dist, failed) // not accepted: no credit
				}
			}
			// opening through the connection: limit, STREAMS_BLOCKED once per limit, MAX_STREAMS frame raises it
			for _, uni := range []bool{false, true} {
				op := smgStep{kind: 3, uni: uni}
				smgRun(w, smgCase{client, tracer, [2]int64{1, 1}, []smgStep{op, {kind: 4, nb: 1, nu: 1}, op, op, op,
					smgPacketStep(quic.VerifSGFrame{Kind: smgMaxStreams, Uni: uni, ID: 2}), op, op, {kind: 2}, {kind: 2}}}, dist, failed)
			}
		}
		// 0-RTT rejected: streams opened during 0-RTT are gone, IDs restart, old stream objects are inert
		if client {
			op := smgStep{kind: 3}
			opu := smgStep{kind: 3, uni: true}
			smgRun(w, smgCase{true, false, [2]int64{2, 2}, []smgStep{{kind: 4, nb: 2, nu: 2}, op, opu, op, {kind: 5}, op, {kind: 7}, {kind: 7, pick: 1},
				{kind: 6}, op, {kind: 4, nb: 1, nu: 1}, op, opu, op, {kind: 7, pick: 2}, {kind: 2}, {kind: 2}}}, dist, failed)
		}
	}
	for i := 0; i < n; i++ {
		c := smgCase{client: r.Bool(), tracer: r.Bool(), limit: [2]int64{r.Pick(0, 1, 2, 2, 3), r.Pick(0, 1, 2, 2, 3)}}
		benign := r.Chance(1, 2) // mostly well-behaved peer: long lives, many completions
		var opened, out [2]int64 // rough idea of the state, for choosing IDs near the boundaries
		adv := c.limit
		if r.Chance(2, 3) {
			c.steps = append(c.steps, smgStep{kind: 4, nb: r.Pick(0, 1, 2, 3), nu: r.Pick(0, 1, 2, 3), rsa: r.Chance(1, 3)})
		}
		for p, np := 0, r.Range(2, 10); p < np; p++ {
			switch k := r.Intn(20); {
			case k < 9:
				var pkt []quic.VerifSGFrame
				for f, nf := 0, r.Range(1, 4); f < nf; f++ {
					uni, byClient := r.Bool(), r.Bool()
					local := byClient == c.client
					t := b2i(uni)
					first := smFirst(uni, byClient)
					var fr quic.VerifSGFrame
					k := r.Intn(20)
					if benign && k >= 14 {
						k = r.Intn(14)
					}
					switch {
					case k < 7: // a STREAM frame for the peer's next / an open / the last allowed stream
						if local {
							byClient, local, first = !byClient, false, smFirst(uni, !byClient)
						}
						idx := opened[t] + r.Pick(-1, 0, 0, 0, 1)
						if r.Chance(1, 4) {
							idx = adv[t] + r.Pick(-1, 0, 1)
						}
						if benign && idx >= adv[t] {
							idx = adv[t] - 1
						}
						if idx < 0 {
							idx = 0
						}
						fr = quic.VerifSGFrame{Kind: smgStream, ID: first + 4*idx}
						if idx < adv[t] && idx >= opened[t] {
							opened[t] = idx + 1
						}
					case k < 11: // the final size of an open stream
						if local && uni {
							local, first = false, smFirst(uni, !byClient)
						}
						n := opened[t]
						if local {
							n = out[t]
						}
						idx := int64(0)
						if n > 0 {
							idx = int64(r.Intn(int(n)))
						}
						fr = quic.VerifSGFrame{Kind: []int{smgStreamFin, smgResetStream}[r.Intn(2)], ID: first + 4*idx}
					case k < 12:
						fr = quic.VerifSGFrame{Kind: smgPing}
						if !benign && r.Chance(1, 2) {
							fr = quic.VerifSGFrame{Kind: smgMalformed}
						}
					case k < 14:
						fr = quic.VerifSGFrame{Kind: smgMaxStreams, Uni: uni, ID: r.Pick(0, 1, 2, 3, 5)}
					default: // any stream-related frame for any class of ID, around the boundaries
						kind := []int{smgStream, smgResetStream, smgStreamDataBlocked, smgStopSending, smgMaxStreamData, smgStreamFin}[r.Intn(6)]
						base := []int64{0, opened[t], adv[t] - 1, adv[t], adv[t] + 1}
						if local {
							base = []int64{0, out[t] - 1, out[t], out[t] + 1}
						}
						idx := r.Pick(0, 0, 1) + base[r.Intn(len(base))]
						if idx < 0 {
							idx = 0
						}
						fr = quic.VerifSGFrame{Kind: kind, ID: first + 4*idx}
					}
					pkt = append(pkt, fr)
				}
				c.steps = append(c.steps, smgStep{kind: 0, frames: pkt})
			case k < 12:
				c.steps = append(c.steps, smgStep{kind: 1, uni: r.Bool()})
			case k < 15:
				c.steps = append(c.steps, smgStep{kind: 2, pick: r.Intn(8)})
				if !benign {
					adv[0]++ // optimistic: lets the generator probe the raised limit
					adv[1]++
				}
			case k < 17:
				uni := r.Bool()
				c.steps = append(c.steps, smgStep{kind: 3, uni: uni})
				out[b2i(uni)]++
			case k < 18:
				c.steps = append(c.steps, smgStep{kind: 4, nb: r.Pick(0, 1, 2, 3, 4), nu: r.Pick(0, 1, 2, 3, 4), rsa: r.Chance(1, 3)})
			case k < 19:
				c.steps = append(c.steps, smgStep{kind: 5}, smgStep{kind: []int{6, 7, 3}[r.Intn(3)], pick: r.Intn(4)})
				opened, out, adv = [2]int64{}, [2]int64{}, c.limit
			default:
				c.steps = append(c.steps, smgStep{kind: []int{6, 7}[r.Intn(2)], pick: r.Intn(4)})
			}
		}
		smgRun(w, c, dist, failed)
	}
	// whole stream lives: the peer opens stream after stream of one type up to and beyond the limit
	// while the application accepts and finishes them in changing orders
	for i := 0; i < n/2; i++ {
		c := smgCase{client: r.Bool(), tracer: r.Bool(), limit: [2]int64{r.Pick(1, 1, 2, 3), r.Pick(1, 1, 2, 3)}}
		uni := r.Bool()
		first := smFirst(uni, !c.client)
		if r.Bool() {
			c.steps = append(c.steps, smgStep{kind: 4, nb: r.Pick(1, 2), nu: r.Pick(1, 2)})
		}
		for k, rounds := int64(0), int64(r.Range(2, 6)); k < rounds; k++ {
			id := first + 4*k
			c.steps = append(c.steps, smgPacketStep(quic.VerifSGFrame{Kind: smgStream, ID: id}), smgStep{kind: 1, uni: uni})
			final := smgPacketStep(quic.VerifSGFrame{Kind: []int{smgStreamFin, smgResetStream}[r.Intn(2)], ID: id})
			if r.Chance(1, 3) { // the next stream rides in the same packet as the FIN
				final.frames = append(final.frames, quic.VerifSGFrame{Kind: smgStream, ID: id + 4})
			}
			ab := smgStep{kind: 2, pick: -1}
			switch r.Intn(4) {
			case 0:
				c.steps = append(c.steps, final, ab)
			case 1:
				c.steps = append(c.steps, ab, final)
			case 2:
				c.steps = append(c.steps, final) // never abandoned: the slot stays taken
			default:
				c.steps = append(c.steps, ab, smgStep{kind: 3, uni: r.Bool()}, final)
			}
			if r.Chance(1, 4) {
				c.steps = append(c.steps, smgPacketStep(quic.VerifSGFrame{Kind: smgStream, ID: id})) // a late frame for the finished stream
			}
		}
		smgRun(w, c, dist, failed)
	}
	keys := make([]string, 0, len(dist))
	for k := range dist {
		keys = append(keys, k)
	}
	sort.Strings(keys)
	for _, k := range keys {
		fmt.Fprintf(w, "DIST\t%s\t%d\n", k, dist[k])
	}
}

// smgSim: a whole simulated connection (real client, real server, simnet inside a synctest bubble).
// One endpoint is misled about its peer's stream limit (1) and opens a second stream; it writes on
// the stream beyond the limit first and on the valid stream second, so both STREAM frames travel
// in one packet: [STREAM beyond the limit][valid STREAM]. The enforcing endpoint has a qlog tracer
// or not. Monitor: the enforcing endpoint closes the connection with STREAM_LIMIT_ERROR, the
// violator learns it from the CONNECTION_CLOSE on the wire, and the stream beyond the limit is
// never handed to the application.
func smgSim(w *bufio.Writer, clientViolates, tracer, uni bool) {
	detail := fmt.Sprintf("simulated connection: violator=%s enforcing-endpoint-has-qlog-tracer=%v uni=%v; the peer allows 1 stream; the violator opens 2, writes on the 2nd, then on the 1st (one packet: [STREAM beyond the limit][valid STREAM])",
		map[bool]string{true: "client", false: "server"}[clientViolates], tracer, uni)
	fail := func(key, desc string) {
		fmt.Fprintf(w, "MONFAIL\tstreamsglue/sim/%s\t%s\t%s\n", key, desc, detail)
	}
	err := inBubble(func() {
		enf := &quic.Config{MaxIncomingStreams: 1, MaxIncomingUniStreams: 1}
		if tracer {
			enf.Tracer = func(context.Context, bool, quic.ConnectionID) qlogwriter.Trace { return quic.VerifSGNewTrace() }
		}
		vio := &quic.Config{}
		o := simOpts{PlainPath: true, ServerConf: enf, ClientConf: vio}
		if !clientViolates {
			o.ServerConf, o.ClientConf = vio, enf
		}
		e, err := newSimEnv(o)
		if err != nil {
			fail("setup", err.Error())
			return
		}
		defer e.Close()
		ctx, cancel := context.WithTimeout(context.Background(), 5*time.Second)
		defer cancel()
		var srv *quic.Conn
		acc := make(chan struct{})
		go func() {
			defer close(acc)
			srv, _ = e.Ln.Accept(ctx)
		}()
		cli, err := e.Dial(ctx)
		if err != nil {
			fail("setup", "dial: "+err.Error())
			return
		}
		<-acc
		if srv == nil {
			fail("setup", "accept failed")
			return
		}
		select {
		case <-cli.HandshakeComplete():
		case <-ctx.Done():
		}
		violator, enforcer := cli, srv
		if !clientViolates {
			violator, enforcer = srv, cli
		}
		time.Sleep(100 * time.Millisecond)
		quic.VerifSGMisleadLimit(violator, uni, 2)
		type wr interface{ Write([]byte) (int, error) }
		var s1, s2 wr
		var e1, e2 error
		if uni {
			s1, e1 = violator.OpenUniStream()
			s2, e2 = violator.OpenUniStream()
		} else {
			s1, e1 = violator.OpenStream()
			s2, e2 = violator.OpenStream()
		}
		if e1 != nil || e2 != nil {
			fail("setup", fmt.Sprintf("open: %v %v", e1, e2))
			return
		}
		// the application of the enforcing endpoint accepts whatever it is given
		var got []int64
		var mu sync.Mutex
		actx, acancel := context.WithCancel(context.Background())
		defer acancel()
		go func() {
			for {
				var id int64
				if uni {
					s, err := enforcer.AcceptUniStream(actx)
					if err != nil {
						return
					}
					id = int64(s.StreamID())
				} else {
					s, err := enforcer.AcceptStream(actx)
					if err != nil {
						return
					}
					id = int64(s.StreamID())
				}
				mu.Lock()
				got = append(got, id)
				mu.Unlock()
			}
		}()
		s2.Write([]byte("beyond the limit"))
		s1.Write([]byte("valid"))
		time.Sleep(2 * time.Second)
		synctest.Wait()
		_, ec, etext := quic.VerifSGCloseClass(context.Cause(enforcer.Context()))
		vr, vc, vtext := quic.VerifSGCloseClass(context.Cause(violator.Context()))
		if enforcer.Context().Err() == nil {
			fail("limit-violation-not-closed", "the peer used a stream beyond the advertised limit, but the connection stays open")
		} else if ec != 2 {
			fail("wrong-close-error", "the enforcing endpoint closed with "+etext+" instead of STREAM_LIMIT_ERROR")
		}
		if violator.Context().Err() != nil && !(vr && vc == 2) {
			fail("peer-not-told", "the violator's connection ended with "+vtext+" instead of the peer's STREAM_LIMIT_ERROR")
		}
		mu.Lock()
		for _, id := range got {
			if id/4 >= 1 {
				fail("stream-delivered-beyond-limit", fmt.Sprintf("stream %d (beyond the limit of 1) was handed to the application", id))
			}
		}
		mu.Unlock()
		acancel()
		cli.CloseWithError(0, "")
		srv.CloseWithError(0, "")
	})
	if err != nil {
		fail("bubble", err.Error())
	}
}
